(* Property C07, part 3: the L2 system (any interleaving of caller and worker steps).

   An L2 state [z] is mapped to the L1 state [abs z] "as seen once the pending effects
   of the call in progress are done": the directory with the pending creations, the
   worker's remaining requests (postponed removals, the rest of the batch, the queue,
   the sends still to come).  The invariant [I7 (abs z) sp] of ReadInv.v is preserved by
   every step while the worker thread is alive; caller steps are the L1 steps of
   ReadFacts.v, effect steps do not change [abs z], and worker micro-steps change it in
   ways that leave the logical journal (file bytes after the queue) unchanged. *)
From Coq Require Import List NArith Bool Lia Arith Sorted.
From Coq.Strings Require Import Byte.
From RaftLog Require Import Base.Bytes Base.Crc32 Model.Types Model.Codec Model.Cache Model.Core
  Model.Recover Model.Run Spec.Spec Spec.Hist Model.Sys Spec.Durable.
From RaftLog Require Proofs.CacheFacts Proofs.NoPanic Proofs.AckFacts Proofs.AckDurable.
From RaftLog Require Import Proofs.CodecFacts Proofs.JournalDisk Proofs.JournalChunk Proofs.JournalFacts
  Proofs.PurgeFacts.
From RaftLog Require Import Proofs.OrderFacts Proofs.SmFacts Proofs.Refine Proofs.PurgeLive Proofs.ReadCache
  Proofs.ReadInv Proofs.ReadFacts.
Import ListNotations.
Local Open Scope N_scope.
Local Arguments N.add : simpl never.
Local Arguments N.sub : simpl never.
Local Arguments N.mul : simpl never.
Local Arguments N.eqb : simpl never.
Local Arguments N.ltb : simpl never.
Local Arguments N.leb : simpl never.
Local Arguments N.compare : simpl never.
Local Arguments N.of_nat : simpl never.
Local Arguments enc_record : simpl never.

(* ================================================================== equivalence of worker states *)
Definition newest_of (fs : list wfile) : option wfile := hd_error (rev fs).

Record weq (s s' : wstate) : Prop := mkWeq {
  we_s1 : dsorted (fst s);
  we_s2 : dsorted (fst s');
  we_ids : ids (fst s) = ids (fst s');
  we_fb : forall j, file_bytes (fst s) j = file_bytes (fst s') j;
  we_nw : newest_of (snd s) = newest_of (snd s') }.

Lemma weq_refl : forall s, dsorted (fst s) -> weq s s.
Proof. intros s S. constructor; auto. Qed.

Lemma weq_sym : forall s s', weq s s' -> weq s' s.
Proof. intros s s' [H1 H2 H3 H4 H5]. constructor; auto. Qed.

Lemma weq_trans : forall s1 s2 s3, weq s1 s2 -> weq s2 s3 -> weq s1 s3.
Proof.
  intros s1 s2 s3 [A1 A2 A3 A4 A5] [B1 B2 B3 B4 B5]. constructor; auto.
  - congruence.
  - intros j. rewrite A4. apply B4.
  - congruence.
Qed.

Lemma fb_append_gen : forall i x d j, dsorted d ->
  file_bytes (disk_append i x d) j =
  if N.eqb j i && mem i (ids d) then file_bytes d i ++ x else file_bytes d j.
Proof.
  intros i x d j S. destruct (mem i (ids d)) eqn:Em.
  - apply mem_In in Em. destruct (N.eqb_spec j i) as [E|E]; cbn [andb].
    + subst j. apply fb_append_same. exact Em.
    + apply fb_append_other. exact E.
  - rewrite andb_false_r.
    assert (Hn : ~ In i (ids d)) by (intros H; apply mem_In in H; congruence).
    apply disk_get_None in Hn. unfold disk_append. rewrite Hn. reflexivity.
Qed.

Lemma newest_of_cases : forall fs, newest_of fs = None /\ rev fs = [] \/
  exists nw older, newest_of fs = Some nw /\ rev fs = nw :: older.
Proof.
  intros fs. unfold newest_of. destruct (rev fs) as [|nw older]; [left; split; reflexivity|].
  right. exists nw, older. split; reflexivity.
Qed.

Lemma newest_of_snoc : forall fs f, newest_of (fs ++ [f]) = Some f.
Proof. intros fs f. unfold newest_of. rewrite rev_app_distr. reflexivity. Qed.

Lemma newest_of_last : forall fs f, newest_of fs = Some f -> exists older, fs = older ++ [f].
Proof.
  intros fs f H. unfold newest_of in H. destruct (rev fs) as [|x r] eqn:E; [discriminate|].
  cbn [hd_error] in H. inversion H. subst x. exists (rev r).
  rewrite <- (rev_involutive fs), E. reflexivity.
Qed.

Lemma wstep_weq : forall s s' r, weq s s' -> weq (wstep s r) (wstep s' r).
Proof.
  intros [d fs] [d' fs'] r [S1 S2 Hi Hf Hn]. cbn [fst snd] in *.
  destruct r as [u data cb|off prev|rm]; cbn [wstep fst snd].
  - destruct (newest_of_cases fs) as [[N1 R1]|(nw & older & N1 & R1)];
      destruct (newest_of_cases fs') as [[N2 R2]|(nw' & older' & N2 & R2)];
      rewrite N1, N2 in Hn; try discriminate Hn; rewrite R1, R2.
    + constructor; cbn [fst snd]; try assumption. rewrite N1, N2. reflexivity.
    + inversion Hn. subst nw'.
      assert (A1 : dsorted (disk_append (wf_id nw) data d)) by (apply dsorted_append; exact S1).
      assert (A2 : dsorted (disk_append (wf_id nw) data d')) by (apply dsorted_append; exact S2).
      assert (B1 : dsorted (sync_all (rev older) (disk_append (wf_id nw) data d)))
        by (apply dsorted_sync_all; exact A1).
      assert (B2 : dsorted (sync_all (rev older') (disk_append (wf_id nw) data d')))
        by (apply dsorted_sync_all; exact A2).
      constructor; cbn [fst snd].
      * apply dsorted_sync. exact B1.
      * apply dsorted_sync. exact B2.
      * rewrite !ids_sync, !ids_sync_all, !ids_append by assumption. exact Hi.
      * intros j. rewrite !fb_sync, !fb_sync_all, !fb_append_gen by assumption.
        rewrite Hi, !Hf. reflexivity.
      * reflexivity.
  - constructor; cbn [fst snd]; try assumption. rewrite !newest_of_snoc. reflexivity.
  - constructor; cbn [fst snd].
    + apply dsorted_remove_all. exact S1.
    + apply dsorted_remove_all. exact S2.
    + rewrite !ids_remove_all, Hi. reflexivity.
    + intros j. rewrite !fb_remove_all, Hf. reflexivity.
    + exact Hn.
Qed.

Lemma wrun_weq : forall q s s', weq s s' -> weq (wrun q s) (wrun q s').
Proof.
  unfold wrun. intros q. induction q as [|r q IH]; intros s s' H; cbn [fold_left]; [exact H|].
  apply IH. apply wstep_weq. exact H.
Qed.

Lemma wrun_app : forall q1 q2 s, wrun (q1 ++ q2) s = wrun q2 (wrun q1 s).
Proof. intros q1 q2 s. unfold wrun. apply fold_left_app. Qed.

(* a write processed by the L2 worker up to its append, against the L1 step *)
Lemma weq_write : forall d fs u data cb, dsorted d ->
  weq (wstep (d, fs) (WWrite u data cb))
      (match newest_of fs with Some nw => disk_append (wf_id nw) data d | None => d end, fs).
Proof.
  intros d fs u data cb S. cbn [wstep fst snd].
  destruct (newest_of_cases fs) as [[N1 R1]|(nw & older & N1 & R1)]; rewrite N1, R1.
  - apply weq_refl. exact S.
  - assert (A1 : dsorted (disk_append (wf_id nw) data d)) by (apply dsorted_append; exact S).
    assert (B1 : dsorted (sync_all (rev older) (disk_append (wf_id nw) data d)))
      by (apply dsorted_sync_all; exact A1).
    constructor; cbn [fst snd].
    + apply dsorted_sync. exact B1.
    + exact A1.
    + rewrite ids_sync, ids_sync_all by assumption. reflexivity.
    + intros j. rewrite fb_sync, fb_sync_all. reflexivity.
    + rewrite N1. reflexivity.
Qed.

(* ================================================================== transfer of the invariant *)
Lemma I7_transfer : forall y y' sp,
  I7 y sp ->
  core_eqj (y_core y) (y_core y') ->
  m_cache (k_sm (y_core y')) = m_cache (k_sm (y_core y)) ->
  dsorted (y_disk y') ->
  weq (wfinal y') (wfinal y) ->
  (forall j, In j (mentioned (y_files y') (y_queue y')) -> In j (mentioned (y_files y) (y_queue y))) ->
  (forall x, In x (fbounds y') -> In x (fbounds y)) ->
  StronglySorted N.lt (map fst (fbounds y')) ->
  (forall i ld, In (i, ld) (m_log (k_sm (y_core y))) -> OnDisk y ld -> OnDisk y' ld) ->
  I7 y' sp.
Proof.
  intros y y' sp [HK JW HPL HC HEB HML] Ec Ecache Sd' Hw Hment Hfb HML' HQ.
  pose proof Ec as (E1 & E2 & E3 & E4 & E5 & E6 & E7).
  destruct Hw as [W1 W2 W3 W4 W5].
  assert (Hids : ids (logical y') = ids (logical y)).
  { rewrite !logical_eq, !ids_append by assumption. exact W3. }
  assert (Hbytes : forall j, file_bytes (logical y') j = file_bytes (logical y) j).
  { intros j. rewrite !logical_eq, !fb_append_gen by assumption. rewrite E2, E3, W3, !W4. reflexivity. }
  constructor.
  - apply (KInv_eqj _ _ _ Ec HK).
  - constructor.
    + exact Sd'.
    + rewrite Hids. apply jinv_ext with (fb := file_bytes (logical y)); [|exact Hbytes].
      apply jinv_core_eqj with (k := y_core y); [apply (jw_inv _ JW)|exact Ec].
    + destruct (jw_newest _ JW) as (older & pl & En). rewrite E2.
      assert (Hn : newest_of (snd (wfinal y')) = Some (mkWF (ck_id (k_open (y_core y))) pl)).
      { rewrite W5, En. apply newest_of_snoc. }
      destruct (newest_of_last _ _ Hn) as [older' Eo]. exists older', pl. exact Eo.
    + rewrite E2. pose proof (jw_bound _ JW) as HB. rewrite Forall_forall in *.
      intros j Hj. apply HB. apply Hment. exact Hj.
  - intros i ld p Hl Hp Hin. rewrite E7 in Hl. rewrite Hids in Hin. rewrite Hbytes.
    apply (HPL i ld p Hl Hp Hin).
  - unfold CIs. rewrite E7, Ecache. eapply CI_mono; [exact HC|]. exact HQ.
  - intros fid b i ld p Hb Hl Hp Hle. rewrite E7 in Hl.
    apply (HEB fid b i ld p (Hfb _ Hb) Hl Hp Hle).
  - exact HML'.
Qed.

(* installing a boundary under which every live entry is on disk *)
Lemma I7_evict : forall y sp b, I7 y sp ->
  (forall i ld p, In (i, ld) (m_log (k_sm (y_core y))) -> In (ld_id ld, p) (sp_entries sp) ->
     opair_leb (Some (ld_id ld)) b = true -> OnDisk y ld) ->
  I7 (with_core y (core_with_cache (y_core y) (cache_set_evictable (m_cache (k_sm (y_core y))) b))) sp.
Proof.
  intros y sp b [HK JW HPL HC HEB HML] Hb.
  set (k' := core_with_cache (y_core y) (cache_set_evictable (m_cache (k_sm (y_core y))) b)).
  assert (Ec : core_eqj (y_core y) k') by apply core_eqj_cache.
  constructor.
  - apply (KInv_eqj _ _ _ Ec HK).
  - apply jw_with_core; assumption.
  - assert (El : logical (with_core y k') = logical y).
    { apply logical_core_eqj; [reflexivity|exact Ec]. }
    intros i ld p Hl Hp Hin. rewrite El in *. apply (HPL i ld p Hl Hp Hin).
  - unfold CIs. cbn [with_core y_core k' core_with_cache core_with_sm k_sm m_log m_cache].
    eapply CI_reboot; [exact HC|reflexivity| |].
    + intros i ld _ H. exact H.
    + intros i ld p Hl Hp Hle. apply (Hb i ld p Hl Hp Hle).
  - exact HEB.
  - exact HML.
Qed.

(* ================================================================== files the queue does not touch *)
Lemma wrun_files_offs : forall q s j,
  In j (map wf_id (snd (wrun q s))) ->
  In j (map wf_id (snd s)) \/ In j (map fst (flat_map req_fb q)).
Proof.
  unfold wrun. intros q. induction q as [|r q IH]; intros s j H; cbn [fold_left flat_map] in *.
  - left. exact H.
  - apply IH in H. rewrite map_app, in_app_iff. destruct H as [H|H]; [|right; right; exact H].
    destruct r as [u data cb|off prev|rm]; cbn [wstep snd req_fb map] in *.
    + destruct (rev (snd s)) as [|nw older] eqn:E; [left; exact H|]. cbn [snd map] in H.
      destruct H as [H|[]]. left. subst j. apply in_map. apply in_rev. rewrite E. left. reflexivity.
    + rewrite map_app in H. apply in_app_or in H. destruct H as [H|[H|[]]]; [left; exact H|].
      right. left. left. exact H.
    + left. exact H.
Qed.

Lemma wrun_untouched : forall q s c, dsorted (fst s) ->
  (forall nw, newest_of (snd s) = Some nw -> wf_id nw <> c) ->
  ~ In c (map fst (flat_map req_fb q)) ->
  In c (ids (fst (wrun q s))) ->
  In c (ids (fst s)) /\ file_bytes (fst (wrun q s)) c = file_bytes (fst s) c.
Proof.
  unfold wrun. intros q. induction q as [|r q IH]; intros s c S Hnw Hc Hin; cbn [fold_left flat_map] in *.
  - split; [exact Hin|reflexivity].
  - rewrite map_app in Hc.
    assert (Hc1 : ~ In c (map fst (req_fb r))) by (intros H; apply Hc; apply in_or_app; left; exact H).
    assert (Hc2 : ~ In c (map fst (flat_map req_fb q))) by (intros H; apply Hc; apply in_or_app; right; exact H).
    destruct (IH (wstep s r) c (wstep_sorted _ _ S)) as [I1 B1]; [|exact Hc2|exact Hin|].
    + destruct s as [d fs]. destruct r as [u data cb|off prev|rm]; cbn [wstep snd fst] in *.
      * destruct (newest_of_cases fs) as [[N1 R1]|(nw & older & N1 & R1)]; rewrite R1.
        -- exact Hnw.
        -- cbn [snd]. intros nw' E. unfold newest_of in E. cbn in E. inversion E. subst nw'.
           apply Hnw. exact N1.
      * intros nw E. rewrite newest_of_snoc in E. inversion E. subst nw. cbn [wf_id].
        intros E2. apply Hc1. cbn [req_fb map fst]. left. exact E2.
      * exact Hnw.
    + rewrite B1. destruct s as [d fs]. destruct r as [u data cb|off prev|rm]; cbn [wstep snd fst] in *.
      * destruct (newest_of_cases fs) as [[N1 R1]|(nw & older & N1 & R1)]; rewrite R1 in *.
        -- split; [exact I1|reflexivity].
        -- cbn [fst] in *.
           assert (A1 : dsorted (disk_append (wf_id nw) data d)) by (apply dsorted_append; exact S).
           assert (B2 : dsorted (sync_all (rev older) (disk_append (wf_id nw) data d)))
             by (apply dsorted_sync_all; exact A1).
           rewrite ids_sync, ids_sync_all, ids_append in I1 by assumption.
           split; [exact I1|].
           rewrite fb_sync, fb_sync_all. apply fb_append_other. intros E. apply (Hnw nw N1). symmetry. exact E.
      * split; [exact I1|reflexivity].
      * rewrite ids_remove_all in I1. apply filter_In in I1. destruct I1 as [I1 M1].
        split; [exact I1|]. rewrite fb_remove_all. apply negb_true_iff in M1. rewrite M1. reflexivity.
Qed.

(* a live entry whose chunk lies before every file the worker tracks or will track is
   completely on disk *)
Lemma ondisk_below : forall y sp i ld p, I7 y sp ->
  In (i, ld) (m_log (k_sm (y_core y))) -> In (ld_id ld, p) (sp_entries sp) ->
  (forall j, In j (map fst (fbounds y)) -> ld_chunk ld < j) ->
  OnDisk y ld.
Proof.
  intros y sp i ld p [(HR & [J1 J2] & Hk) JW HPL HC HEB HML] Hl Hp Hlt.
  pose proof (jw_inv _ JW) as Jv.
  set (c := ld_chunk ld) in *. set (o := ck_id (k_open (y_core y))) in *.
  assert (Hml : map fst (fbounds y) = map wf_id (y_files y) ++ map fst (flat_map req_fb (y_queue y))).
  { unfold fbounds. rewrite map_app, map_map. reflexivity. }
  assert (Ho : In o (map fst (fbounds y))).
  { destruct (jw_newest _ JW) as (older & pl & En). rewrite Hml. apply in_or_app.
    apply (wrun_files_offs (y_queue y) (wproj y) o). fold (wfinal y). rewrite En, map_app.
    apply in_or_app. right. left. reflexivity. }
  assert (Hne : c <> o) by (specialize (Hlt o Ho); lia).
  assert (Hin : In c (ids (logical y))).
  { rewrite (ji_ids _ _ _ Jv). unfold chunk_ids. apply in_or_app. right.
    specialize (J1 _ Hl). cbn [snd] in J1. unfold tail_ids in J1. apply in_app_or in J1.
    destruct J1 as [J1|[J1|[]]]; [apply in_or_app; left; exact J1|exfalso; apply Hne; symmetry; exact J1]. }
  destruct (HPL i ld p Hl Hp Hin) as (_ & pre & post & Ef & Eoff & Elen). fold c in Ef, Eoff.
  rewrite (jw_ids_FD _ JW) in Hin. rewrite (jw_fb_other y c Hne) in Ef.
  destruct (wrun_untouched (y_queue y) (wproj y) c (jw_sorted _ JW)) as [I1 B1].
  - intros nw E. cbn [wproj snd] in E. destruct (newest_of_last _ _ E) as [older Eo].
    assert (Hj : In (wf_id nw) (map fst (fbounds y))).
    { rewrite Hml. apply in_or_app. left. rewrite Eo, map_app. apply in_or_app. right. left. reflexivity. }
    specialize (Hlt _ Hj). lia.
  - intros H. assert (Hj : In c (map fst (fbounds y))) by (rewrite Hml; apply in_or_app; right; exact H).
    specialize (Hlt _ Hj). lia.
  - exact Hin.
  - cbn [wproj fst] in I1, B1. fold (wfinal y) in B1. rewrite B1 in Ef.
    split; [exact Hne|]. destruct (disk_get_Some_In _ _ I1) as [f Hf]. exists f. split; [exact Hf|].
    unfold file_bytes in Ef. rewrite Hf in Ef. fold c. rewrite Ef, Eoff, Elen, rec_size_blen, !blen_app. lia.
Qed.

(* ================================================================== operations on the directory *)
Inductive dop := DNone | DAppend (i : N) (x : bytes) | DSync (i : N) | DRemove (i : N).
Definition dapply (o : dop) (d : disk) : disk :=
  match o with
  | DNone => d
  | DAppend i x => disk_append i x d
  | DSync i => disk_sync i d
  | DRemove i => disk_remove i d
  end.
Definition dtouch (o : dop) : list N :=
  match o with DNone => [] | DAppend i _ => [i] | DSync i => [i] | DRemove i => [i] end.

Lemma dapply_sorted : forall o d, dsorted d -> dsorted (dapply o d).
Proof.
  intros o d S. destruct o; cbn [dapply];
    [exact S|apply dsorted_append; exact S|apply dsorted_sync; exact S|apply dsorted_remove; exact S].
Qed.

Definition xdisk (d : disk) (x : xeff) : disk :=
  match x with
  | XCreate id => disk_put (mkFile id [] 0) d
  | XWriteHead id h => disk_append id h d
  | XSend _ => d
  end.
Definition xid (x : xeff) : list N :=
  match x with XCreate id => [id] | XWriteHead id _ => [id] | XSend _ => [] end.
Definition xids (t : list xeff) : list N := flat_map xid t.
Definition xsend (x : xeff) : list wreq := match x with XSend r => [r] | _ => [] end.

Lemma xdisk_sorted : forall x d, dsorted d -> dsorted (xdisk d x).
Proof.
  intros x d S. destruct x; cbn [xdisk]; [apply dsorted_put; exact S|apply dsorted_append; exact S|exact S].
Qed.

Lemma fold_xdisk_sorted : forall t d, dsorted d -> dsorted (fold_left xdisk t d).
Proof.
  intros t. induction t as [|x t IH]; intros d S; cbn [fold_left]; [exact S|].
  apply IH. apply xdisk_sorted. exact S.
Qed.

Ltac disk_cases :=
  repeat match goal with
  | |- context [N.eqb ?a ?b] => destruct (N.eqb_spec a b)
  | H : context [N.eqb ?a ?b] |- _ => destruct (N.eqb_spec a b)
  end; subst; try congruence; try lia.

Lemma append_append_comm : forall i x id h d, dsorted d -> i <> id ->
  disk_append id h (disk_append i x d) = disk_append i x (disk_append id h d).
Proof.
  intros i x id h d S Hne. apply disk_ext.
  - repeat apply dsorted_append. exact S.
  - repeat apply dsorted_append. exact S.
  - intros j. rewrite !disk_get_append.
    destruct (disk_get i d) as [g|] eqn:E1; destruct (disk_get id d) as [g'|] eqn:E2;
      rewrite ?disk_get_append, ?E1, ?E2; disk_cases.
Qed.

Lemma sync_append_comm : forall i id h d, dsorted d -> i <> id ->
  disk_append id h (disk_sync i d) = disk_sync i (disk_append id h d).
Proof.
  intros i id h d S Hne. apply disk_ext.
  - apply dsorted_append, dsorted_sync. exact S.
  - apply dsorted_sync, dsorted_append. exact S.
  - intros j. rewrite !disk_get_append, !disk_get_sync.
    destruct (disk_get i d) as [g|] eqn:E1; destruct (disk_get id d) as [g'|] eqn:E2;
      rewrite ?disk_get_append, ?disk_get_sync, ?E1, ?E2; disk_cases.
Qed.

Lemma remove_append_comm : forall i id h d, dsorted d -> i <> id ->
  disk_append id h (disk_remove i d) = disk_remove i (disk_append id h d).
Proof.
  intros i id h d S Hne. apply disk_ext.
  - apply dsorted_append, dsorted_remove. exact S.
  - apply dsorted_remove, dsorted_append. exact S.
  - intros j. rewrite !disk_get_append, !disk_get_remove.
    destruct (disk_get id d) as [g'|] eqn:E2;
      rewrite ?disk_get_append, ?disk_get_remove, ?E2; disk_cases.
Qed.

Lemma dapply_xdisk_comm : forall o x d, dsorted d ->
  (forall i, In i (dtouch o) -> ~ In i (xid x)) ->
  xdisk (dapply o d) x = dapply o (xdisk d x).
Proof.
  intros o x d S H. destruct x as [id|id h|r]; cbn [xdisk]; [| |reflexivity].
  - destruct o as [|i y|i|i]; cbn [dapply dtouch] in *; [reflexivity| | |].
    + symmetry. apply put_append_comm; [exact S|]. cbn [f_id]. intros E. apply (H i); [left; reflexivity|left; symmetry; exact E].
    + symmetry. apply put_sync_comm; [exact S|]. cbn [f_id]. intros E. apply (H i); [left; reflexivity|left; symmetry; exact E].
    + symmetry. apply put_remove_comm; [exact S|]. cbn [f_id]. intros E. apply (H i); [left; reflexivity|left; symmetry; exact E].
  - destruct o as [|i y|i|i]; cbn [dapply dtouch] in *; [reflexivity| | |].
    + apply append_append_comm; [exact S|]. intros E. apply (H i); [left; reflexivity|left; symmetry; exact E].
    + apply sync_append_comm; [exact S|]. intros E. apply (H i); [left; reflexivity|left; symmetry; exact E].
    + apply remove_append_comm; [exact S|]. intros E. apply (H i); [left; reflexivity|left; symmetry; exact E].
Qed.

Lemma dapply_todo_comm : forall o t d, dsorted d ->
  (forall i, In i (dtouch o) -> ~ In i (xids t)) ->
  fold_left xdisk t (dapply o d) = dapply o (fold_left xdisk t d).
Proof.
  intros o t. induction t as [|x t IH]; intros d S H; cbn [fold_left]; [reflexivity|].
  rewrite dapply_xdisk_comm; [|exact S|].
  - apply IH; [apply xdisk_sorted; exact S|]. intros i Hi Hx. apply (H i Hi). unfold xids. cbn [flat_map].
    apply in_or_app. right. exact Hx.
  - intros i Hi Hx. apply (H i Hi). unfold xids. cbn [flat_map]. apply in_or_app. left. exact Hx.
Qed.

(* ================================================================== the L1 view of an L2 state *)
Definition ww_req (w : wwrite) : wreq := WWrite (ww_upto w) (ww_data w) (ww_cb w).
Definition nf_reqs (o : option wreq) : list wreq := match o with Some r => [r] | None => [] end.
Definition batch_rest (b : batch) : list wreq :=
  match b_pos b with
  | BWrite i => map ww_req (skipn i (b_writes b)) ++ nf_reqs (b_nf b)
  | BUnlink rem => [WRemove rem]
  | BDone => []
  | _ => nf_reqs (b_nf b)
  end.
Definition wstream (w : worker) : list wreq :=
  WRemove (w_postponed w) :: match w_batch w with Some b => batch_rest b | None => [] end.

Definition abs (z : sys2) : sys :=
  mkSys (z_core z) (fold_left xdisk (z_todo z) (z_disk z))
        (wstream (z_w z) ++ z_queue z ++ flat_map xsend (z_todo z)) (w_files (z_w z)) [].

Lemma append_put_new : forall id h d,
  disk_append id h (disk_put (mkFile id [] 0) d) = disk_put (mkFile id h 0) d.
Proof.
  intros id h d. unfold disk_append. rewrite disk_get_put. cbn [f_id]. rewrite N.eqb_refl.
  cbn [f_data f_synced app].
  induction d as [|g r IH]; cbn [disk_put f_id].
  - rewrite N.compare_refl. reflexivity.
  - destruct (N.compare id (f_id g)) eqn:E; cbn [disk_put f_id]; rewrite ?N.compare_refl, ?E; try reflexivity.
    rewrite IH. reflexivity.
Qed.

Lemma apply_effs_expand : forall effs k d q fs a,
  apply_effs (mkSys k d q fs a) effs =
  mkSys k (fold_left xdisk (flat_map expand_eff effs) d)
        (q ++ flat_map xsend (flat_map expand_eff effs)) fs a.
Proof.
  unfold apply_effs. intros effs. induction effs as [|e effs IH]; intros k d q fs a; cbn [fold_left flat_map].
  - rewrite app_nil_r. reflexivity.
  - destruct e as [id head|r]; cbn [apply_eff y_core y_disk y_queue y_files y_acks expand_eff app fold_left xdisk].
    + rewrite IH, append_put_new. cbn [flat_map xsend app]. reflexivity.
    + rewrite IH. cbn [flat_map xsend app]. rewrite <- app_assoc. reflexivity.
Qed.

Lemma abs_todo_nil : forall z, z_todo z = [] ->
  abs z = mkSys (z_core z) (z_disk z) (wstream (z_w z) ++ z_queue z) (w_files (z_w z)) [].
Proof. intros z H. unfold abs. rewrite H. cbn [fold_left flat_map]. rewrite app_nil_r. reflexivity. Qed.

(* a caller step with effects: the L1 step on the abstract state *)
Lemma abs_effs : forall z k effs g, z_todo z = [] ->
  abs (set_ghost (set_todo (set_core z k) (flat_map expand_eff effs)) g) =
  apply_effs (with_core (abs z) k) effs.
Proof.
  intros z k effs g H. rewrite (abs_todo_nil z H). unfold with_core.
  cbn [y_core y_disk y_queue y_files y_acks]. rewrite apply_effs_expand.
  unfold abs. cbn [set_ghost set_todo set_core z_core z_todo z_disk z_queue z_w].
  rewrite <- app_assoc. reflexivity.
Qed.

(* effect steps do not change the abstract state *)
Lemma abs_zeff : forall z z' v, zeff z = Some (z', v) -> abs z' = abs z.
Proof.
  intros z z' v H. unfold zeff in H. destruct (z_todo z) as [|x t] eqn:Et; [discriminate H|].
  unfold abs. rewrite Et.
  destruct x as [id|id h|r]; inversion H; subst z' v; clear H;
    cbn [set_ghost set_todo set_disk set_queue z_core z_todo z_disk z_queue z_w fold_left xdisk flat_map xsend app].
  - reflexivity.
  - reflexivity.
  - rewrite <- !app_assoc. reflexivity.
Qed.

Lemma take_writes_spec : forall k q ws rest, take_writes k q = Some (ws, rest) -> q = map ww_req ws ++ rest.
Proof.
  intros k. induction k as [|k IH]; intros q ws rest H; cbn [take_writes] in H.
  - inversion H. reflexivity.
  - destruct q as [|[u data cb|off prev|rm] q]; try discriminate H.
    destruct (take_writes k q) as [[ws' rest']|] eqn:E; [|discriminate H]. inversion H; subst.
    cbn [map ww_req ww_upto ww_data ww_cb app]. rewrite (IH _ _ _ E). reflexivity.
Qed.

Lemma abs_zrecv : forall z k nf z' v, zrecv z k nf = Some (z', v) -> abs z' = abs z.
Proof.
  intros z k nf z' v H. unfold zrecv in H.
  destruct (z_w z) as [wf al ba sf pp] eqn:Ew. cbn [w_alive w_batch] in H.
  destruct al; [|discriminate H]. destruct ba as [b|]; [discriminate H|].
  destruct (z_queue z) as [|r q] eqn:Eq; [discriminate H|].
  unfold abs. rewrite Ew, Eq.
  destruct r as [u data cb|off prev|rids].
  - destruct (take_writes k q) as [[ws rest]|] eqn:Et; [|discriminate H].
    apply take_writes_spec in Et. subst q.
    assert (Hgen : forall onf rest',
              rest = nf_reqs onf ++ rest' ->
              abs (set_w (set_queue z rest')
                     (w_set_batch (mkWorker wf true None sf pp)
                        (Some (mkBatch (mkWW u data cb :: ws) onf (BWrite 0) true)))) =
              mkSys (z_core z) (fold_left xdisk (z_todo z) (z_disk z))
                    (wstream (mkWorker wf true None sf pp) ++
                     (WWrite u data cb :: map ww_req ws ++ rest) ++ flat_map xsend (z_todo z)) wf []).
    { intros onf rest' E. unfold abs, wstream, batch_rest.
      cbn [set_w set_queue w_set_batch z_core z_todo z_disk z_queue z_w w_files w_postponed w_batch
           b_pos b_writes b_nf skipn map ww_req ww_upto ww_data ww_cb app].
      rewrite E, <- !app_assoc. reflexivity. }
    destruct nf.
    + destruct rest as [|r2 rest2]; [discriminate H|].
      destruct r2 as [u2 d2 c2|off2 prev2|rids2]; [discriminate H| |];
        inversion H; subst z' v; clear H; unfold abs in Hgen;
        rewrite (Hgen (Some _) rest2 eq_refl); reflexivity.
    + assert (H' : Some (set_w (set_queue z rest)
                (w_set_batch (mkWorker wf true None sf pp) (Some (mkBatch (mkWW u data cb :: ws) None (BWrite 0) true))), @nil vis)
                = Some (z', v)) by (destruct rest as [|[] ?]; exact H).
      inversion H'; subst z' v; clear H H'. unfold abs in Hgen.
      rewrite (Hgen None rest eq_refl). reflexivity.
  - destruct (Nat.eqb k 0 && negb nf); [|discriminate H].
    inversion H; subst z' v; clear H. unfold wstream, batch_rest.
    cbn [set_w set_queue w_set_batch z_core z_todo z_disk z_queue z_w w_files w_postponed w_batch
         b_pos b_nf nf_reqs app]. reflexivity.
  - destruct (Nat.eqb k 0 && negb nf); [|discriminate H].
    inversion H; subst z' v; clear H. unfold wstream, batch_rest.
    cbn [set_w set_queue w_set_batch z_core z_todo z_disk z_queue z_w w_files w_postponed w_batch
         b_pos b_nf nf_reqs app]. reflexivity.
Qed.

(* ================================================================== worker micro-steps: helper facts *)
Lemma mem_filter : forall (i : N) (g : N -> bool) l, mem i (filter g l) = mem i l && g i.
Proof.
  intros i g l. induction l as [|a l IH]; cbn [filter mem existsb]; [reflexivity|].
  unfold mem in IH. destruct (g a) eqn:Ega; cbn [existsb].
  - rewrite IH. destruct (N.eqb_spec i a) as [E|E]; cbn [orb]; [subst; rewrite Ega, andb_true_r|]; [|reflexivity].
    destruct (existsb (N.eqb a) l); reflexivity.
  - rewrite IH. destruct (N.eqb_spec i a) as [E|E]; cbn [orb]; [|reflexivity].
    subst. rewrite Ega, !andb_false_r. reflexivity.
Qed.

Lemma weq_write_nil : forall d fs u cb, dsorted d -> weq (d, fs) (wstep (d, fs) (WWrite u [] cb)).
Proof.
  intros d fs u cb S. apply weq_sym. eapply weq_trans; [apply weq_write; exact S|].
  destruct (newest_of fs) as [nw|]; [|apply weq_refl; exact S].
  rewrite disk_append_nil by exact S. apply weq_refl. exact S.
Qed.

Lemma weq_append_remove : forall D fs f pp u data cb, dsorted D -> newest_of fs = Some f ->
  weq (remove_all pp (disk_append (wf_id f) data D), fs)
      (wstep (remove_all pp D, fs) (WWrite u data cb)).
Proof.
  intros D fs f pp u data cb S Hn. apply weq_sym.
  eapply weq_trans; [apply weq_write; apply dsorted_remove_all; exact S|]. rewrite Hn.
  assert (S1 : dsorted (remove_all pp D)) by (apply dsorted_remove_all; exact S).
  assert (S2 : dsorted (disk_append (wf_id f) data D)) by (apply dsorted_append; exact S).
  constructor; cbn [fst snd].
  - apply dsorted_append. exact S1.
  - apply dsorted_remove_all. exact S2.
  - rewrite ids_append, !ids_remove_all, ids_append by assumption. reflexivity.
  - intros j. rewrite fb_append_gen, !fb_remove_all, fb_append_gen, ids_remove_all by assumption.
    rewrite mem_filter.
    destruct (N.eqb_spec j (wf_id f)) as [E|E]; cbn [andb]; [|reflexivity].
    subst j. destruct (mem (wf_id f) pp); cbn [negb]; rewrite ?andb_false_r, ?andb_true_r; [reflexivity|].
    destruct (mem (wf_id f) (ids D)); reflexivity.
  - reflexivity.
Qed.

Lemma newest_of_cons : forall f g r, newest_of (f :: g :: r) = newest_of (g :: r).
Proof.
  intros f g r. unfold newest_of. cbn [rev]. destruct (rev r ++ [g]) as [|x l] eqn:E.
  - destruct (rev r); discriminate E.
  - reflexivity.
Qed.

Lemma weq_sync_old : forall D f g r, dsorted D ->
  weq (disk_sync (wf_id f) D, g :: r) (D, f :: g :: r).
Proof.
  intros D f g r S. constructor; cbn [fst snd].
  - apply dsorted_sync. exact S.
  - exact S.
  - apply ids_sync. exact S.
  - intros j. apply fb_sync.
  - symmetry. apply newest_of_cons.
Qed.

Lemma weq_sync : forall D i fs, dsorted D -> weq (disk_sync i D, fs) (D, fs).
Proof.
  intros D i fs S. constructor; cbn [fst snd].
  - apply dsorted_sync. exact S.
  - exact S.
  - apply ids_sync. exact S.
  - intros j. apply fb_sync.
  - reflexivity.
Qed.

Lemma remove_remove_comm : forall i x d, disk_remove i (disk_remove x d) = disk_remove x (disk_remove i d).
Proof.
  intros i x d. unfold disk_remove. induction d as [|g r IH]; cbn [filter]; [reflexivity|].
  destruct (negb (N.eqb x (f_id g))) eqn:E1; destruct (negb (N.eqb i (f_id g))) eqn:E2;
    cbn [filter]; rewrite ?E1, ?E2, IH; reflexivity.
Qed.

Lemma remove_all_remove_comm : forall a i d, remove_all a (disk_remove i d) = disk_remove i (remove_all a d).
Proof.
  unfold remove_all. intros a. induction a as [|x a IH]; intros i d; cbn [fold_left]; [reflexivity|].
  rewrite remove_remove_comm. apply IH.
Qed.

Lemma wrun_cons : forall r q s, wrun (r :: q) s = wrun q (wstep s r).
Proof. reflexivity. Qed.

Lemma abs_same : forall z z',
  z_core z' = z_core z -> z_todo z' = z_todo z -> z_disk z' = z_disk z -> z_queue z' = z_queue z ->
  w_files (z_w z') = w_files (z_w z) -> wstream (z_w z') = wstream (z_w z) -> abs z' = abs z.
Proof. intros z z' H1 H2 H3 H4 H5 H6. unfold abs. rewrite H1, H2, H3, H4, H5, H6. reflexivity. Qed.

Lemma ondisk_dapply : forall o y y' ld,
  ck_id (k_open (y_core y')) = ck_id (k_open (y_core y)) ->
  y_disk y' = dapply o (y_disk y) ->
  (forall id, o = DRemove id -> ld_chunk ld <> id) ->
  OnDisk y ld -> OnDisk y' ld.
Proof.
  intros o y y' ld Eo Ed Hrm [H1 (f & Hf & Hlen)]. split; [rewrite Eo; exact H1|]. rewrite Ed.
  destruct o as [|i x|i|i]; cbn [dapply].
  - exists f. split; assumption.
  - rewrite disk_get_append. destruct (disk_get i (y_disk y)) as [g|] eqn:Eg; [|exists f; split; assumption].
    destruct (N.eqb_spec (ld_chunk ld) i) as [E|E]; [|exists f; split; assumption].
    rewrite E in Hf. rewrite Hf in Eg. inversion Eg. subst g.
    eexists. split; [reflexivity|]. cbn [f_data]. rewrite blen_app. lia.
  - rewrite disk_get_sync. destruct (disk_get i (y_disk y)) as [g|] eqn:Eg; [|exists f; split; assumption].
    destruct (N.eqb_spec (ld_chunk ld) i) as [E|E]; [|exists f; split; assumption].
    rewrite E in Hf. rewrite Hf in Eg. inversion Eg. subst g.
    eexists. split; [reflexivity|]. cbn [f_data]. exact Hlen.
  - rewrite disk_get_remove. destruct (N.eqb_spec (ld_chunk ld) i) as [E|E].
    + exfalso. apply (Hrm i eq_refl). exact E.
    + exists f. split; assumption.
Qed.

(* the general shape of a worker micro-step that leaves the core alone *)
Lemma abs_step : forall z z' o sp,
  I7 (abs z) sp -> dsorted (z_disk z) ->
  z_core z' = z_core z -> z_todo z' = z_todo z -> z_queue z' = z_queue z ->
  z_disk z' = dapply o (z_disk z) ->
  (forall i, In i (dtouch o) -> ~ In i (xids (z_todo z))) ->
  (forall D, dsorted D ->
     weq (wrun (wstream (z_w z')) (dapply o D, w_files (z_w z')))
         (wrun (wstream (z_w z)) (D, w_files (z_w z)))) ->
  incl (mentioned (w_files (z_w z')) (wstream (z_w z'))) (mentioned (w_files (z_w z)) (wstream (z_w z))) ->
  (exists pre, map wf_fb (w_files (z_w z)) ++ flat_map req_fb (wstream (z_w z)) =
               pre ++ map wf_fb (w_files (z_w z')) ++ flat_map req_fb (wstream (z_w z'))) ->
  (forall id, o = DRemove id -> forall i ld, In (i, ld) (m_log (k_sm (z_core z))) -> ld_chunk ld <> id) ->
  I7 (abs z') sp.
Proof.
  intros z z' o sp HI Sd Ec Et Eq Ed Htouch FR Hment [pre Hfb] Hrm.
  set (D := fold_left xdisk (z_todo z) (z_disk z)).
  assert (SD : dsorted D) by (apply fold_xdisk_sorted; exact Sd).
  assert (ED : y_disk (abs z') = dapply o D).
  { unfold abs. cbn [y_disk]. rewrite Et, Ed. apply dapply_todo_comm; assumption. }
  set (R := z_queue z ++ flat_map xsend (z_todo z)).
  assert (Eq' : y_queue (abs z') = wstream (z_w z') ++ R).
  { unfold abs. cbn [y_queue]. rewrite Et, Eq. reflexivity. }
  assert (Hfb' : fbounds (abs z) = pre ++ fbounds (abs z')).
  { unfold fbounds. rewrite Eq'. unfold abs at 1 2. cbn [y_files y_queue]. fold R.
    rewrite !flat_map_app, !app_assoc. rewrite Hfb. rewrite <- !app_assoc. reflexivity. }
  apply (I7_transfer (abs z) (abs z') sp HI).
  - unfold abs. cbn [y_core]. rewrite Ec. apply core_eqj_refl.
  - unfold abs. cbn [y_core]. rewrite Ec. reflexivity.
  - rewrite ED. apply dapply_sorted. exact SD.
  - assert (W1 : wfinal (abs z') = wrun (wstream (z_w z') ++ R) (dapply o D, w_files (z_w z'))).
    { unfold wfinal, wproj. rewrite ED, Eq'. reflexivity. }
    assert (W2 : wfinal (abs z) = wrun (wstream (z_w z) ++ R) (D, w_files (z_w z))) by reflexivity.
    rewrite W1, W2, !wrun_app. apply wrun_weq. apply FR. exact SD.
  - intros j Hj. unfold mentioned in *. rewrite Eq' in Hj. unfold abs in Hj at 1. cbn [y_files] in Hj.
    unfold abs. cbn [y_files y_queue]. fold R. rewrite flat_map_app in *. rewrite app_assoc in *.
    apply in_app_or in Hj. apply in_or_app. destruct Hj as [Hj|Hj]; [left|right; exact Hj].
    apply (Hment j). unfold mentioned. exact Hj.
  - intros x Hx. rewrite Hfb'. apply in_or_app. right. exact Hx.
  - pose proof (i_ml _ _ HI) as HML. rewrite Hfb', map_app in HML. apply ss_suffix in HML. exact HML.
  - intros i ld Hl HQ. apply (ondisk_dapply o (abs z) (abs z') ld); [| | |exact HQ].
    + unfold abs. cbn [y_core]. rewrite Ec. reflexivity.
    + rewrite ED. reflexivity.
    + intros id Eo. apply (Hrm id Eo i ld). exact Hl.
Qed.

(* the boundary installed by the worker *)
Lemma abs_evict : forall z z' f rest sp,
  I7 (abs z) sp -> w_files (z_w z) = f :: rest ->
  z_core z' = core_with_cache (z_core z) (cache_set_evictable (m_cache (k_sm (z_core z))) (wf_prev_last f)) ->
  z_todo z' = z_todo z -> z_disk z' = z_disk z -> z_queue z' = z_queue z ->
  w_files (z_w z') = w_files (z_w z) -> wstream (z_w z') = wstream (z_w z) ->
  I7 (abs z') sp.
Proof.
  intros z z' f rest sp HI Ef Ec Et Ed Eq Efs Ews.
  assert (E : abs z' = with_core (abs z) (core_with_cache (y_core (abs z))
                (cache_set_evictable (m_cache (k_sm (y_core (abs z)))) (wf_prev_last f)))).
  { unfold abs, with_core. cbn [y_core y_disk y_queue y_files y_acks]. rewrite Ec, Et, Ed, Eq, Efs, Ews. reflexivity. }
  rewrite E. apply I7_evict; [exact HI|].
  intros i ld p Hl Hp Hle.
  assert (Hfb : fbounds (abs z) = wf_fb f :: (map wf_fb rest ++ flat_map req_fb (y_queue (abs z)))).
  { unfold fbounds. unfold abs at 1. cbn [y_files]. rewrite Ef. reflexivity. }
  assert (Hlt : ld_chunk ld < wf_id f).
  { apply (i_eb _ _ HI (wf_id f) (wf_prev_last f) i ld p); [|exact Hl|exact Hp|exact Hle].
    rewrite Hfb. left. reflexivity. }
  apply (ondisk_below (abs z) sp i ld p HI Hl Hp).
  intros j Hj. pose proof (i_ml _ _ HI) as HML. rewrite Hfb in HML, Hj. cbn [map fst wf_fb] in HML, Hj.
  destruct Hj as [Hj|Hj]; [subst j; exact Hlt|].
  apply ss_inv in HML. destruct HML as [_ HF]. rewrite Forall_forall in HF. specialize (HF j Hj). lia.
Qed.

(* ================================================================== every worker action *)
Definition unl7 (w : worker) : list N :=
  match w_batch w with
  | Some b => match b_pos b with BUnlink ids => ids | _ => [] end
  | None => []
  end.

Lemma skipn_nth_none : forall {A} (l : list A) i, nth_error l i = None -> skipn i l = [].
Proof. intros A l i H. apply skipn_all2. apply nth_error_None. exact H. Qed.

Lemma skipn_nth_some : forall {A} (l : list A) i x, nth_error l i = Some x -> skipn i l = x :: skipn (S i) l.
Proof.
  intros A l. induction l as [|a l IH]; intros i x H; destruct i as [|i]; cbn in H; try discriminate H.
  - inversion H. reflexivity.
  - cbn [skipn]. apply IH. exact H.
Qed.

Lemma newest_newest_of : forall w, newest w = newest_of (w_files w).
Proof. intros w. unfold newest, newest_of. destruct (rev (w_files w)); reflexivity. Qed.

Lemma newest_in : forall fs f, newest_of fs = Some f -> In f fs.
Proof. intros fs f H. destruct (newest_of_last _ _ H) as [older E]. rewrite E. apply in_or_app. right. left. reflexivity. Qed.

Ltac wsimp := unfold wstream, batch_rest, w_set_pos, w_set_batch in *;
  cbn [w_postponed w_batch w_files w_alive w_sync_failed b_pos b_writes b_nf b_ok nf_reqs app] in *.
Ltac same_state := unfold wrun; cbn [fold_left wstep fst snd].

Lemma zwork_I7 : forall z ok z' v sp,
  zwork z ok = Some (z', v) -> w_alive (z_w z') = true ->
  dsorted (z_disk z) ->
  (forall i, In i (map wf_id (w_files (z_w z))) \/ In i (w_postponed (z_w z)) \/ In i (unl7 (z_w z)) ->
             ~ In i (xids (z_todo z))) ->
  (forall id, In id (w_postponed (z_w z)) \/ In id (unl7 (z_w z)) ->
              forall i ld, In (i, ld) (m_log (k_sm (z_core z))) -> ld_chunk ld <> id) ->
  I7 (abs z) sp -> I7 (abs z') sp.
Proof.
  intros z ok z' v sp H Hal Sd Htouch Hrem HI. unfold zwork in H.
  destruct z as [k t d q w a dr g]. zproj.
  destruct w as [wf al ba sf pp]. zproj.
  destruct al; [|discriminate H]. destruct ba as [b|]; [|discriminate H].
  destruct b as [ws nf pos bok]. zproj. unfold unl7 in Htouch, Hrem. zproj.
  set (W := mkWorker wf true (Some (mkBatch ws nf pos bok)) sf pp) in *.
  set (Z := mkSys2 k t d q W a dr g) in *.
  destruct pos as [i| | | |i| | |rem|].
  - (* BWrite *)
    destruct (nth_error ws i) as [ww|] eqn:En.
    + pose proof (skipn_nth_some _ _ _ En) as Esk.
      destruct (ww_data ww) as [|x data] eqn:Edata.
      * inversion H; subst z' v; clear H.
        apply (abs_step Z _ DNone sp HI Sd); unfold Z, W; zproj; try reflexivity.
        -- intros j [].
        -- intros D SD. cbn [dapply]. wsimp. rewrite Esk. cbn [map app].
           rewrite !wrun_cons. apply wrun_weq.
           unfold ww_req. rewrite Edata. apply weq_write_nil.
           cbn [wstep fst]. apply dsorted_remove_all. exact SD.
        -- wsimp. rewrite Esk. cbn [map app]. unfold mentioned. cbn [flat_map req_ids ww_req app].
           apply incl_refl.
        -- exists []. wsimp. rewrite Esk. cbn [map app flat_map req_fb ww_req]. reflexivity.
        -- intros id E. discriminate E.
      * destruct (newest W) as [f|] eqn:Enw; [|discriminate H]. destruct ok.
        -- inversion H; subst z' v; clear H.
           rewrite newest_newest_of in Enw. cbn [W w_files] in Enw.
           apply (abs_step Z _ (DAppend (wf_id f) (x :: data)) sp HI Sd); unfold Z, W; zproj; try reflexivity.
           ++ intros j [Hj|[]]. subst j. apply Htouch. left. apply in_map. apply newest_in. exact Enw.
           ++ intros D SD. cbn [dapply]. wsimp. rewrite Esk. cbn [map app].
              rewrite !wrun_cons. apply wrun_weq. cbn [wstep fst snd].
              unfold ww_req. rewrite Edata. apply weq_append_remove; assumption.
           ++ wsimp. rewrite Esk. cbn [map app]. unfold mentioned. cbn [flat_map req_ids ww_req app].
              apply incl_refl.
           ++ exists []. wsimp. rewrite Esk. cbn [map app flat_map req_fb ww_req]. reflexivity.
           ++ intros id E. discriminate E.
        -- inversion H; subst z' v; clear H. zproj. discriminate Hal.
    + inversion H; subst z' v; clear H. rewrite (abs_same Z); unfold Z, W; zproj; try reflexivity; [exact HI|].
      wsimp. rewrite (skipn_nth_none _ _ En). reflexivity.
  - (* BSyncOld *)
    destruct wf as [|f [|f2 rest]].
    + inversion H; subst z' v; clear H. rewrite (abs_same Z); unfold Z, W; zproj; try reflexivity. exact HI.
    + inversion H; subst z' v; clear H. rewrite (abs_same Z); unfold Z, W; zproj; try reflexivity. exact HI.
    + destruct ok.
      * inversion H; subst z' v; clear H.
        apply (abs_step Z _ (DSync (wf_id f)) sp HI Sd); unfold Z, W; zproj; try reflexivity.
        -- intros j [Hj|[]]. subst j. apply Htouch. left. left. reflexivity.
        -- intros D SD. cbn [dapply]. wsimp. apply wrun_weq. apply weq_sync_old. exact SD.
        -- wsimp. unfold mentioned. cbn [map]. intros j Hj. right. exact Hj.
        -- exists [wf_fb f]. wsimp. reflexivity.
        -- intros id E. discriminate E.
      * inversion H; subst z' v; clear H. rewrite (abs_same Z); unfold Z, W; zproj; try reflexivity. exact HI.
  - (* BSetEvict *)
    destruct wf as [|f rest]; [discriminate H|].
    inversion H; subst z' v; clear H.
    apply (abs_evict Z _ f rest sp HI); unfold Z, W; zproj; reflexivity.
  - (* BSyncNew *)
    destruct wf as [|f rest]; [discriminate H|]. destruct ok.
    + inversion H; subst z' v; clear H.
      apply (abs_step Z _ (DSync (wf_id f)) sp HI Sd); unfold Z, W; zproj; try reflexivity.
      * intros j [Hj|[]]. subst j. apply Htouch. left. left. reflexivity.
      * intros D SD. cbn [dapply]. wsimp. apply wrun_weq. apply weq_sync. exact SD.
      * apply incl_refl.
      * exists []. reflexivity.
      * intros id E. discriminate E.
    + inversion H; subst z' v; clear H. rewrite (abs_same Z); unfold Z, W; zproj; try reflexivity. exact HI.
  - (* BCallbacks *)
    destruct (nth_error ws i) as [ww|].
    + destruct (ww_cb ww) as [c|]; inversion H; subst z' v; clear H;
        rewrite (abs_same Z); unfold Z, W; zproj; try reflexivity; exact HI.
    + inversion H; subst z' v; clear H. rewrite (abs_same Z); unfold Z, W; zproj; try reflexivity. exact HI.
  - (* BPostponed *)
    destruct sf.
    + inversion H; subst z' v; clear H. rewrite (abs_same Z); unfold Z, W; zproj; try reflexivity. exact HI.
    + destruct pp as [|id rest].
      * inversion H; subst z' v; clear H. rewrite (abs_same Z); unfold Z, W; zproj; try reflexivity. exact HI.
      * destruct ok.
        -- inversion H; subst z' v; clear H.
           apply (abs_step Z _ (DRemove id) sp HI Sd); unfold Z, W; zproj; try reflexivity.
           ++ intros j [Hj|[]]. subst j. apply Htouch. right. left. left. reflexivity.
           ++ intros D SD. cbn [dapply]. wsimp. rewrite !wrun_cons. cbn [wstep fst snd].
              change (remove_all (id :: rest) D) with (remove_all rest (disk_remove id D)).
              apply weq_refl. apply wrun_sorted. cbn [fst]. apply dsorted_remove_all, dsorted_remove. exact SD.
           ++ wsimp. unfold mentioned. cbn [flat_map req_ids]. intros j Hj.
              rewrite !in_app_iff in *. cbn [In]. tauto.
           ++ exists []. reflexivity.
           ++ intros id' E. inversion E. subst id'. apply Hrem. left. left. reflexivity.
        -- inversion H; subst z' v; clear H. zproj. discriminate Hal.
  - (* BNonFlush *)
    destruct nf as [[u data cb|off prev|rids]|].
    + discriminate H.
    + inversion H; subst z' v; clear H.
      apply (abs_step Z _ DNone sp HI Sd); unfold Z, W; zproj; try reflexivity.
      * intros j [].
      * intros D SD. cbn [dapply]. wsimp. same_state.
        apply weq_refl. cbn [fst]. repeat apply dsorted_remove_all. exact SD.
      * wsimp. unfold mentioned. rewrite map_app. cbn [map wf_id flat_map req_ids app].
        intros j Hj. rewrite ?app_nil_r in *. rewrite ?in_app_iff in *. cbn [In] in *. rewrite ?in_app_iff in *. tauto.
      * exists []. wsimp. rewrite map_app. cbn [map wf_fb wf_id wf_prev_last flat_map req_fb app].
        rewrite app_nil_r. reflexivity.
      * intros id E. discriminate E.
    + destruct sf.
      * inversion H; subst z' v; clear H.
        apply (abs_step Z _ DNone sp HI Sd); unfold Z, W; zproj; try reflexivity.
        -- intros j [].
        -- intros D SD. cbn [dapply]. wsimp. same_state.
           unfold remove_all. rewrite fold_left_app.
           apply weq_refl. cbn [fst]. apply dsorted_remove_all, dsorted_remove_all. exact SD.
        -- wsimp. unfold mentioned. cbn [flat_map req_ids app].
           intros j Hj. rewrite ?app_nil_r in *. rewrite ?in_app_iff in *. cbn [In] in *. rewrite ?in_app_iff in *. tauto.
        -- exists []. reflexivity.
        -- intros id E. discriminate E.
      * inversion H; subst z' v; clear H. rewrite (abs_same Z); unfold Z, W; zproj; try reflexivity. exact HI.
    + inversion H; subst z' v; clear H. rewrite (abs_same Z); unfold Z, W; zproj; try reflexivity. exact HI.
  - (* BUnlink *)
    destruct rem as [|id rest].
    + inversion H; subst z' v; clear H.
      apply (abs_step Z _ DNone sp HI Sd); unfold Z, W; zproj; try reflexivity.
      * intros j [].
      * intros D SD. cbn [dapply]. wsimp. same_state.
        apply weq_refl. cbn [fst]. repeat apply dsorted_remove_all. exact SD.
      * wsimp. unfold mentioned. cbn [flat_map req_ids app].
        intros j Hj. rewrite ?app_nil_r in *. rewrite ?in_app_iff in *. cbn [In] in *. rewrite ?in_app_iff in *. tauto.
      * exists []. reflexivity.
      * intros id E. discriminate E.
    + destruct ok.
      * inversion H; subst z' v; clear H.
        apply (abs_step Z _ (DRemove id) sp HI Sd); unfold Z, W; zproj; try reflexivity.
        -- intros j [Hj|[]]. subst j. apply Htouch. right. right. left. reflexivity.
        -- intros D SD. cbn [dapply]. wsimp. same_state.
           change (remove_all (id :: rest) (remove_all pp D))
             with (remove_all rest (disk_remove id (remove_all pp D))).
           rewrite remove_all_remove_comm.
           apply weq_refl. cbn [fst]. apply dsorted_remove_all, dsorted_remove, dsorted_remove_all. exact SD.
        -- wsimp. unfold mentioned. cbn [flat_map req_ids app].
           intros j Hj. rewrite ?app_nil_r in *. rewrite ?in_app_iff in *. cbn [In] in *. rewrite ?in_app_iff in *. tauto.
        -- exists []. reflexivity.
        -- intros id' E. inversion E. subst id'. apply Hrem. right. left. reflexivity.
      * inversion H; subst z' v; clear H. zproj. discriminate Hal.
  - (* BDone *)
    inversion H; subst z' v; clear H. rewrite (abs_same Z); unfold Z, W; zproj; try reflexivity. exact HI.
Qed.

(* ================================================================== side conditions from the other invariants *)
Lemma creates_cons : forall x l,
  AckDurable.creates (x :: l) = (match x with XCreate id => [id] | _ => [] end) ++ AckDurable.creates l.
Proof. reflexivity. Qed.

Lemma creates_sends : forall q, AckDurable.creates (map XSend q) = [].
Proof. intros q. induction q as [|r q IH]; [reflexivity|]. rewrite map_cons, creates_cons. exact IH. Qed.

Lemma wrun_heads : forall l s s', AckDurable.wrun s l = Some s' ->
  forall id h, In (XWriteHead id h) l ->
  In id (map fst (AckDurable.s_fut s)) \/ In id (AckDurable.creates l).
Proof.
  intros l. induction l as [|a l IH]; intros s s' H id h Hin; [destruct Hin|].
  cbn [AckDurable.wrun] in H. destruct (AckDurable.wstep1 s a) as [s1|] eqn:E1; [|discriminate H].
  rewrite creates_cons. destruct Hin as [Hin|Hin].
  - subst a. cbn [AckDurable.wstep1] in E1.
    destruct (AckDurable.upd_last id (N.of_nat (length h)) (AckDurable.s_fut s)) as [fv|] eqn:Eu; [|discriminate E1].
    apply AckDurable.upd_last_spec in Eu. destruct Eu as (fv' & x & Ea & _).
    left. rewrite Ea, map_app. apply in_or_app. right. left. reflexivity.
  - destruct (IH s1 s' H id h Hin) as [Hf|Hc]; [|right; apply in_or_app; right; exact Hc].
    destruct a as [id0|id0 h0|r]; cbn [AckDurable.wstep1] in E1.
    + inversion E1. subst s1. cbn [AckDurable.s_fut] in Hf. rewrite map_app in Hf.
      apply in_app_or in Hf. destruct Hf as [Hf|[Hf|[]]]; [left; exact Hf|].
      right. apply in_or_app. left. left. exact Hf.
    + destruct (AckDurable.upd_last id0 (N.of_nat (length h0)) (AckDurable.s_fut s)) as [fv|] eqn:Eu; [|discriminate E1].
      inversion E1. subst s1. cbn [AckDurable.s_fut] in Hf.
      apply AckDurable.upd_last_spec in Eu. destruct Eu as (fv' & x & Ea & Eb).
      left. rewrite Ea. rewrite Eb in Hf. rewrite map_app in *. exact Hf.
    + destruct r as [u data cb|off p|ids].
      * destruct (N.eqb (AckDurable.s_end s + N.of_nat (length data)) u); [|discriminate E1].
        inversion E1. subst s1. left. exact Hf.
      * destruct (AckDurable.s_fut s) as [|[i0 x0] fv] eqn:Ef; [discriminate E1|].
        destruct (N.eqb i0 off && N.eqb (AckDurable.s_end s) off && N.ltb off x0); [|discriminate E1].
        inversion E1. subst s1. cbn [AckDurable.s_fut] in Hf. left. right. exact Hf.
      * destruct (AckDurable.s_aw s && forallb (fun i => N.ltb i (AckDurable.s_cur s)) ids); [|discriminate E1].
        inversion E1. subst s1. left. exact Hf.
Qed.

Lemma unl7_unl : forall w, unl7 w = AckDurable.unl w.
Proof. reflexivity. Qed.

Lemma touch_ok : forall z, AckDurable.full z -> w_alive (z_w z) = true ->
  forall i, In i (map wf_id (w_files (z_w z))) \/ In i (w_postponed (z_w z)) \/ In i (unl7 (z_w z)) ->
            ~ In i (xids (z_todo z)).
Proof.
  intros z [B P F U K A] Hal i Hi Hx.
  destruct (A Hal) as [L (old & tin & fc & fut & fl & st & C)].
  pose proof (AckDurable.b_sorted _ B) as S. rewrite (AckDurable.c_disk _ _ _ _ _ _ _ C) in S.
  apply AckDurable.sorted_app_inv in S. destruct S as (_ & S & _).
  apply AckDurable.sorted_app_inv in S. destruct S as (_ & S2 & S3).
  assert (Hfc : In fc (z_disk z)).
  { rewrite (AckDurable.c_disk _ _ _ _ _ _ _ C). apply in_or_app. right. apply in_or_app. right. left. reflexivity. }
  assert (Hle : i <= f_id fc).
  { destruct Hi as [Hi|Hi].
    - rewrite <- (AckDurable.c_files _ _ _ _ _ _ _ C) in Hi. rewrite map_app in Hi.
      apply in_app_or in Hi. destruct Hi as [Hi|[Hi|[]]]; [|lia].
      apply in_map_iff in Hi. destruct Hi as (g0 & E & Hg). subst i.
      specialize (S3 g0 fc Hg (or_introl eq_refl)). lia.
    - pose proof (AckDurable.c_rem _ _ _ _ _ _ _ C) as HR. rewrite Forall_forall in HR.
      assert (Hin : In i (w_postponed (z_w z) ++ AckDurable.unl (z_w z))).
      { apply in_or_app. destruct Hi as [Hi|Hi]; [left; exact Hi|right; rewrite <- unl7_unl; exact Hi]. }
      specialize (HR i Hin). lia. }
  assert (Hgt : f_id fc < i).
  { unfold xids in Hx. apply in_flat_map in Hx. destruct Hx as (x & Hxin & Hxi).
    assert (Hcr : forall c, In c (AckDurable.creates (z_todo z)) -> f_id fc < c).
    { intros c Hc. apply (AckDurable.b_dlt _ B fc c Hfc Hc). }
    destruct x as [id|id h|r]; cbn [xid] in Hxi; [| |destruct Hxi].
    - destruct Hxi as [E|[]]. subst id. apply Hcr. unfold AckDurable.creates. apply in_flat_map.
      exists (XCreate i). split; [exact Hxin|left; reflexivity].
    - destruct Hxi as [E|[]]. subst id.
      pose proof (AckDurable.c_run _ _ _ _ _ _ _ C) as Hrun.
      destruct (wrun_heads _ _ _ Hrun i h) as [Hf|Hc].
      + unfold AckDurable.stream. apply in_or_app. right. exact Hxin.
      + cbn [AckDurable.s_fut] in Hf. rewrite map_map in Hf. apply in_map_iff in Hf.
        destruct Hf as (g0 & E & Hg). cbn [AckDurable.fview fst] in E. subst i.
        apply StronglySorted_inv in S2. destruct S2 as [_ S2]. rewrite Forall_forall in S2. apply (S2 g0 Hg).
      + unfold AckDurable.stream, AckDurable.creates in Hc. rewrite flat_map_app in Hc.
        apply in_app_or in Hc. destruct Hc as [Hc|Hc].
        * fold (AckDurable.creates (map XSend (AckDurable.stream_batch (z_w z) ++ z_queue z))) in Hc.
          rewrite creates_sends in Hc. destruct Hc.
        * apply Hcr. exact Hc. }
  lia.
Qed.

Lemma rem_ok : forall z sp, PurgeFacts.Inv z -> w_alive (z_w z) = true -> KInv (z_core z) sp ->
  forall id, In id (w_postponed (z_w z)) \/ In id (unl7 (z_w z)) ->
  forall i ld, In (i, ld) (m_log (k_sm (z_core z))) -> ld_chunk ld <> id.
Proof.
  intros z sp (gone & rmw & keep & Hc) Hal (HR & [J1 J2] & Hk) id Hid i ld Hl.
  pose proof (ci_alive _ _ _ _ Hc Hal) as Erm.
  assert (Hin : In id rmw).
  { rewrite Erm. unfold w_rm. apply in_or_app. destruct Hid as [Hid|Hid]; [left; exact Hid|right].
    unfold unl7 in Hid. destruct (w_batch (z_w z)) as [b|]; [|destruct Hid].
    unfold batch_rm. destruct (b_pos b); try destruct Hid. exact Hid. }
  specialize (J1 _ Hl). cbn [snd] in J1. rewrite <- (ci_keep _ _ _ _ Hc) in J1.
  pose proof (PurgeFacts.ci_sorted _ _ _ _ Hc) as S. rewrite (ci_present _ _ _ _ Hc) in S.
  assert (S' : StronglySorted N.lt ((gone ++ rmw) ++
             (queue_rm (z_queue z) ++ todo_rm (z_todo z) ++ k_removed (z_core z)) ++ keep ++ todo_cr (z_todo z))).
  { rewrite <- !app_assoc in *. exact S. }
  apply ss_app_inv in S'. destruct S' as (_ & _ & S').
  assert (Hlt : id < ld_chunk ld).
  { apply S'; [apply in_or_app; right; exact Hin|]. apply in_or_app. right. exact J1. }
  lia.
Qed.

(* ================================================================== caller steps *)
Lemma zcall_abs : forall z o z' v, zcall z o = Some (z', v) -> o <> OIdle ->
  exists r, run_op (abs z) o = (Some (abs z'), r).
Proof.
  intros z o z' v H Hni. unfold zcall in H.
  destruct (z_todo z) as [|x t] eqn:Et; [|discriminate H]. destruct (z_dropped z); [discriminate H|].
  assert (Ed : y_disk (abs z) = z_disk z) by (rewrite (abs_todo_nil z Et); reflexivity).
  destruct o as [w|cb|from to| | | | | |cfg']; cbn [run_op].
  - change (y_core (abs z)) with (z_core z).
    destruct (do_write (z_core z) w) as [[[k r] effs]|]; [|discriminate H].
    inversion H; subst z' v; clear H. rewrite (abs_effs z k effs _ Et). eexists. reflexivity.
  - change (y_core (abs z)) with (z_core z).
    destruct (do_flush (z_core z) cb) as [k effs].
    inversion H; subst z' v; clear H. rewrite (abs_effs z k effs _ Et). eexists. reflexivity.
  - change (y_core (abs z)) with (z_core z). rewrite Ed.
    destruct (do_read (z_core z) (z_disk z) from to) as [k items].
    inversion H; subst z' v; clear H. eexists. reflexivity.
  - inversion H; subst z' v. eexists. reflexivity.
  - inversion H; subst z' v. eexists. reflexivity.
  - inversion H; subst z' v. eexists. reflexivity.
  - exfalso. apply Hni. reflexivity.
  - inversion H; subst z' v; clear H. eexists. reflexivity.
  - discriminate H.
Qed.

(* ================================================================== runs *)
Definition zstep_ok (z : sys2) (e : zev) : bool :=
  match e with ZCall o => op_above_bounds (abs z) o | _ => true end.
Fixpoint zrun_ok_c07 (z : sys2) (es : list zev) : bool :=
  match es with
  | [] => true
  | e :: r =>
    zstep_ok z e &&
    match zstep z e with
    | Some (z1, _) => zrun_ok_c07 z1 r
    | None => true
    end
  end.

Definition P7 (z : sys2) : Prop :=
  hist_legal z -> Forall wop_wf (hist z) -> w_alive (z_w z) = true ->
  I7 (abs z) (spec_wops spec0 (hist z)).

Lemma hist_step : forall z e z' v, zstep z e = Some (z', v) ->
  hist z' = hist z \/ exists w, e = ZCall (OW w) /\ hist z' = hist z ++ [w].
Proof.
  intros z e z' v H. destruct e as [o| |k nf|ok|]; cbn [zstep] in H.
  - unfold zcall in H. destruct (z_todo z); [|discriminate H]. destruct (z_dropped z); [discriminate H|].
    destruct o as [w|cb|from to| | | | | |cfg'].
    + destruct (do_write (z_core z) w) as [[[k r] effs]|]; [|discriminate H].
      inversion H; subst z' v. right. exists w. split; [reflexivity|]. unfold hist. zproj.
      rewrite map_app. reflexivity.
    + destruct (do_flush (z_core z) cb) as [k effs]. inversion H; subst z' v. left. reflexivity.
    + destruct (do_read (z_core z) (z_disk z) from to) as [k items]. inversion H; subst z' v. left. reflexivity.
    + inversion H; subst z' v. left. reflexivity.
    + inversion H; subst z' v. left. reflexivity.
    + inversion H; subst z' v. left. reflexivity.
    + destruct (z_queue z); [|discriminate H]. destruct (worker_quiet z); [|discriminate H].
      inversion H; subst z' v. left. reflexivity.
    + inversion H; subst z' v. left. reflexivity.
    + discriminate H.
  - unfold zeff in H. destruct (z_todo z) as [|[id|id data|r] t]; inversion H; subst z' v; left; reflexivity.
  - unfold zrecv in H. left. inv_step H; reflexivity.
  - destruct (zwork_core _ _ _ _ H) as [_ Hg]. left. unfold hist. rewrite Hg. reflexivity.
  - destruct (z_todo z); [|discriminate H]. inversion H; subst z' v. left. reflexivity.
Qed.

Lemma op_eq_idle : forall o : op, o = OIdle \/ o <> OIdle.
Proof. intros o. destruct o; first [left; reflexivity|right; discriminate]. Qed.

Lemma P7_step : forall z e z' v,
  AckDurable.full z -> PurgeFacts.Inv z -> P7 z ->
  zstep z e = Some (z', v) -> zstep_ok z e = true -> P7 z'.
Proof.
  intros z e z' v HF HInv HP H Hok Hleg Hwf Hal.
  pose proof (AckDurable.alive_back _ _ _ _ H Hal) as Hal0.
  assert (Hprev : hist_legal z /\ Forall wop_wf (hist z)).
  { destruct (hist_step _ _ _ _ H) as [E|(w & _ & E)]; unfold hist_legal in *; rewrite E in *.
    - split; assumption.
    - rewrite wops_legal_snoc in Hleg. apply andb_true_iff in Hleg. apply Forall_app in Hwf.
      split; [apply Hleg|apply Hwf]. }
  destruct Hprev as [Hleg0 Hwf0]. specialize (HP Hleg0 Hwf0 Hal0).
  destruct e as [o| |k nf|ok|]; cbn [zstep] in H.
  - (* ZCall *)
    destruct (op_eq_idle o) as [Eo|Eo].
    + subst o. unfold zcall in H. destruct (z_todo z); [|discriminate H].
      destruct (z_dropped z); [discriminate H|]. destruct (z_queue z); [|discriminate H].
      destruct (worker_quiet z); [|discriminate H]. inversion H; subst z' v. exact HP.
    + destruct (zcall_abs _ _ _ _ H Eo) as [r Hr].
      assert (Hsp : spec_wops spec0 (hist z') = spec_op (spec_wops spec0 (hist z)) o /\
                    op_c07 (spec_wops spec0 (hist z)) o = true /\ op_wf o).
      { destruct (hist_step _ _ _ _ (H : zstep z (ZCall o) = Some (z', v))) as [E|(w & Ew & E)].
        - rewrite E. destruct o as [w|cb|from to| | | | | |cfg']; cbn [spec_op op_c07 op_wf];
            try (split; [reflexivity|split; [reflexivity|exact I]]).
          + exfalso. unfold zcall in H. destruct (z_todo z); [|discriminate H].
            destruct (z_dropped z); [discriminate H|].
            destruct (do_write (z_core z) w) as [[[k r0] effs]|]; [|discriminate H].
            inversion H; subst z' v. unfold hist in E. zproj. rewrite map_app in E. cbn [map fst] in E.
            apply (f_equal (@length wop)) in E. rewrite app_length in E. cbn [length] in E. lia.
          + exfalso. unfold zcall in H. destruct (z_todo z); [|discriminate H].
            destruct (z_dropped z); discriminate H.
        - inversion Ew. subst o. rewrite E. rewrite spec_wops_snoc. cbn [spec_op op_c07 op_wf].
          split; [reflexivity|]. unfold hist_legal in Hleg. rewrite E, wops_legal_snoc in Hleg.
          apply andb_true_iff in Hleg. rewrite E in Hwf. apply Forall_app in Hwf. destruct Hwf as [_ Hwf].
          inversion Hwf; subst. split; [apply Hleg|assumption]. }
      destruct Hsp as (Esp & Hc & Hw). rewrite Esp.
      destruct (I7_run_op (abs z) _ o HP Hc Hw Hok) as (y' & r' & Hr' & HI').
      rewrite Hr in Hr'. inversion Hr'. subst y'. exact HI'.
  - (* ZEff *)
    destruct (hist_step _ _ _ _ (H : zstep z ZEff = Some (z', v))) as [E|(w & Ew & _)]; [|discriminate Ew].
    rewrite E, (abs_zeff _ _ _ H). exact HP.
  - (* ZRecv *)
    destruct (hist_step _ _ _ _ (H : zstep z (ZRecv k nf) = Some (z', v))) as [E|(w & Ew & _)]; [|discriminate Ew].
    rewrite E, (abs_zrecv _ _ _ _ _ H). exact HP.
  - (* ZWork *)
    destruct (hist_step _ _ _ _ (H : zstep z (ZWork ok) = Some (z', v))) as [E|(w & Ew & _)]; [|discriminate Ew].
    rewrite E. apply (zwork_I7 z ok z' v _ H Hal).
    + destruct HInv as (gone & rmw & keep & Hc). apply (cinv_dsorted _ _ _ _ Hc).
    + apply (touch_ok z HF Hal0).
    + apply (rem_ok z (spec_wops spec0 (hist z)) HInv Hal0). apply (i_k _ _ HP).
    + exact HP.
  - (* ZDrop *)
    destruct (z_todo z) eqn:Et; [|discriminate H]. inversion H; subst z' v; clear H.
    unfold hist. zproj. assert (Ea : abs (mkSys2 (z_core z) [] (z_disk z) (z_queue z) (z_w z) (z_acks z) true (z_ghost z)) = abs z).
    { unfold abs. zproj. rewrite Et. reflexivity. }
    rewrite Ea. exact HP.
Qed.

Lemma z0_zstart : forall cfg, z0_of cfg = AckFacts.zstart cfg.
Proof. reflexivity. Qed.

Lemma P7_init : forall cfg, P7 (z0_of cfg).
Proof.
  intros cfg _ _ _. change (hist (z0_of cfg)) with (@nil wop). cbn [spec_wops fold_left].
  apply (I7_transfer (sys0 cfg) (abs (z0_of cfg)) spec0 (I7_init cfg)).
  - repeat split; reflexivity.
  - reflexivity.
  - unfold dsorted. cbn. repeat constructor.
  - apply (weq_refl (wfinal (sys0 cfg))). unfold dsorted. cbn. repeat constructor.
  - intros j Hj. exact Hj.
  - intros x Hx. exact Hx.
  - cbn. repeat constructor.
  - intros i ld _ H. exact H.
Qed.

Lemma P7_run : forall es z z' v,
  AckDurable.full z -> PurgeFacts.Inv z -> P7 z ->
  zrun z es = Some (z', v) -> zrun_ok_c07 z es = true -> P7 z'.
Proof.
  intros es. induction es as [|e es IH]; intros z z' v HF HInv HP H Hok; cbn [zrun] in H.
  - inversion H; subst. exact HP.
  - cbn [zrun_ok_c07] in Hok. apply andb_true_iff in Hok. destruct Hok as [Hok1 Hok2].
    destruct (zstep z e) as [[z1 v1]|] eqn:E; [|discriminate H].
    destruct (zrun z1 es) as [[z2 v2]|] eqn:E2; [|discriminate H]. inversion H; subst z2 v. clear H.
    apply (IH z1 z' v2); [| | |exact E2|exact Hok2].
    + eapply AckDurable.full_step; eassumption.
    + eapply inv_zstep; eassumption.
    + eapply P7_step; eassumption.
Qed.

(* ================================================================== C07 on the L2 system *)
(* Every interleaving of caller calls, caller effects, worker receptions and worker
   actions (with failing syncs; the worker thread must still be alive): if the write
   history is Raft-legal and well-formed, and every append is above every eviction
   boundary in force or pending at its call ([zrun_ok_c07], the boundaries being those
   of [abs z]: the one in force, those of the worker's files, of the batch in progress,
   of the queue), then between calls every read returns exactly the reference log. *)
Theorem C07_reads_total_outside_known_L2 : forall cfg es z v,
  zrun (z0_of cfg) es = Some (z, v) ->
  zrun_ok_c07 (z0_of cfg) es = true ->
  hist_legal z -> Forall wop_wf (hist z) ->
  w_alive (z_w z) = true -> z_todo z = [] ->
  let sp := spec_wops spec0 (hist z) in
  m_rs (k_sm (z_core z)) = spec_state sp /\
  (forall from to, read_ok (snd (do_read (z_core z) (z_disk z) from to)) (spec_read sp from to)) /\
  read_ok (do_dump_iter (z_core z) (z_disk z)) (sp_entries sp).
Proof.
  intros cfg es z v Hrun Hok Hleg Hwf Hal Ht sp.
  assert (HP : P7 z).
  { apply (P7_run es (z0_of cfg) z v); [rewrite z0_zstart; apply AckDurable.full_init|apply inv_init|
      apply P7_init|exact Hrun|exact Hok]. }
  pose proof (I7_observes _ _ (HP Hleg Hwf Hal)) as Ho. unfold observes in Ho.
  rewrite (abs_todo_nil z Ht) in Ho. cbn [y_core y_disk] in Ho. exact Ho.
Qed.

(* the boundaries that the hypothesis refers to, spelled out *)
Lemma bounds_abs : forall z,
  bounds (abs z) =
  ch_evictable (m_cache (k_sm (z_core z))) ::
  map snd (map wf_fb (w_files (z_w z)) ++
           flat_map req_fb (wstream (z_w z) ++ z_queue z ++ flat_map xsend (z_todo z))).
Proof. reflexivity. Qed.

(* the hypotheses are satisfiable: a run with a zero-size cache in which the worker is
   caught between the write and the sync of a batch while the caller reads *)
Example C07_L2_inhabited :
  let cfg := mkConfig 0 0 3 100000 true in
  let es := [ZCall (OW (OAppend [((1, 0), [x01]); ((1, 1), []); ((1, 2), [])])); ZEff; ZEff; ZEff; ZEff;
             ZCall (OFlush true); ZEff;
             ZRecv 0 true; ZWork true; ZWork true; ZWork true; ZWork true; ZWork true; ZWork true;
             ZWork true; ZWork true; ZWork true; ZWork true;
             ZRecv 0 false; ZWork true; ZWork true; ZWork true; ZWork true; ZWork true;
             ZCall (OW (OAppend [((2, 3), [])])); ZEff; ZEff; ZEff; ZEff;
             ZCall ODrain; ZCall (ORead 0 10)] in
  exists z v, zrun (z0_of cfg) es = Some (z, v) /\ zrun_ok_c07 (z0_of cfg) es = true /\
    hist_legal z /\ w_alive (z_w z) = true /\ z_todo z = [] /\
    (exists b, w_batch (z_w z) = Some b /\ b_pos b = BSyncNew) /\
    ch_evictable (m_cache (k_sm (z_core z))) = Some (1, 1) /\
    map fst (ch_entries (m_cache (k_sm (z_core z)))) = [(1, 2); (2, 3)].
Proof.
  cbv zeta. eexists. eexists. split; [vm_compute; reflexivity|].
  split; [vm_compute; reflexivity|]. split; [vm_compute; reflexivity|].
  split; [reflexivity|]. split; [reflexivity|]. split; [eexists; split; reflexivity|]. split; reflexivity.
Qed.

Print Assumptions C07_reads_total_outside_known_L2.
