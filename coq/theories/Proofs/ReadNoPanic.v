(* C16, the read path: no ITEM of a read is a panic.
   [RIPanic] has two sources (Model/Core.v): [read_record] returns [Panic] when the
   segment offset lies below the start of the chunk it is read from (the u64 subtraction
   [segment.offset - global_start] of Chunk::read_record underflows: a panic in debug
   builds), and [load_payload] panics when the record it decodes is not an [RAppend].
   Under the journal invariant [journal_wf] every index entry whose chunk is closed points
   at the encoding of its own Append record INSIDE the file of the chunk it names
   (ld_off = ld_chunk + length pre: no underflow, C16_read_record_no_underflow), and the
   file on disk is a byte prefix of the logical file
   (JournalFacts.C11_read_record_is_append): the read sees its own record or too few
   bytes (an error item), never another record. *)
From Coq Require Import List NArith Bool Lia Arith Sorted.
From Coq.Strings Require Import Byte.
From RaftLog Require Import Base.Bytes Model.Types Model.Codec Model.Cache Model.Core
  Model.Recover Model.Run.
From RaftLog Require Import Proofs.CodecFacts Proofs.JournalDisk Proofs.JournalChunk Proofs.JournalFacts.
From RaftLog Require Proofs.NoPanic Proofs.CacheRestart.
From RaftLog Require Import Model.Sys Spec.Durable.
From RaftLog Require Proofs.CrashBase Proofs.CrashJournal Proofs.CrashSteps.
Import ListNotations.
Local Open Scope N_scope.
Local Arguments N.add : simpl never.
Local Arguments N.sub : simpl never.
Local Arguments N.mul : simpl never.
Local Arguments N.eqb : simpl never.
Local Arguments N.ltb : simpl never.
Local Arguments N.leb : simpl never.
Local Arguments N.compare : simpl never.
Local Arguments N.of_nat : simpl never.
Local Arguments enc_record : simpl never.

(* ------------------------------------------------------------------ one item *)
Lemma closed_get_some : forall id cl c, closed_get id cl = Some c ->
  In c cl /\ ck_id (cl_chunk c) = id.
Proof.
  intros id cl c. induction cl as [|c0 r IH]; cbn [closed_get]; [discriminate|].
  destruct (N.eqb_spec id (ck_id (cl_chunk c0))) as [E|E]; intros H.
  - inversion H; subst c0. split; [now left|now symmetry].
  - destruct (IH H) as [H1 H2]. split; [now right|exact H2].
Qed.

(* what a read may see, given only what [load_payload] needs *)
Definition reads_own (cl : list closed) (d : disk) (ld : logdata) : Prop :=
  forall c, In c cl -> ck_id (cl_chunk c) = ld_chunk ld ->
    (exists p, read_record d (cl_chunk c) (ld_off ld) (ld_len ld) = Ret (inl (RAppend (ld_id ld) p))) \/
    read_record d (cl_chunk c) (ld_off ld) (ld_len ld) = Ret (inr EDecodeEof).

Lemma load_payload_no_panic cl d ld : reads_own cl d ld -> load_payload cl d ld <> RIPanic.
Proof.
  intros H. unfold load_payload. destruct (closed_get (ld_chunk ld) cl) as [c|] eqn:Eg; [|discriminate].
  destruct (closed_get_some _ _ _ Eg) as [Hc Eid].
  destruct (H c Hc Eid) as [[p E]|E]; rewrite E; discriminate.
Qed.

Lemma read_items_no_panic ch cl d : forall m hit miss,
  (forall i ld, In (i, ld) m -> reads_own cl d ld) ->
  ~ In RIPanic (fst (fst (read_items ch cl d m hit miss))).
Proof.
  induction m as [|[i ld] m IH]; intros hit miss H; cbn [read_items]; [intros []|].
  assert (Hm : forall i0 ld0, In (i0, ld0) m -> reads_own cl d ld0).
  { intros i0 ld0 Hin. apply (H i0 ld0). now right. }
  destruct (ent_get (ld_id ld) (ch_entries ch)) as [p|].
  - specialize (IH (hit + 1) miss Hm).
    destruct (read_items ch cl d m (hit + 1) miss) as [[items h] ms]. cbn [fst] in *.
    intros [E|Hin]; [discriminate|auto].
  - specialize (IH hit (miss + 1) Hm).
    destruct (read_items ch cl d m hit (miss + 1)) as [[items h] ms]. cbn [fst] in *.
    intros [E|Hin]; [|auto].
    apply (load_payload_no_panic cl d ld); [|exact E]. apply (H i ld). now left.
Qed.

(* ------------------------------------------------------------------ a state with the journal invariant *)
Lemma jw_reads_own y : journal_wf y -> forall i ld, In (i, ld) (m_log (k_sm (y_core y))) ->
  reads_own (k_closed (y_core y)) (y_disk y) ld.
Proof. intros JW i ld Hl c Hc Eid. exact (C11_read_record_is_append y i ld c JW Hl Hc Eid). Qed.

Lemma do_read_no_panic k d from to :
  (forall i ld, In (i, ld) (m_log (k_sm k)) -> reads_own (k_closed k) d ld) ->
  ~ In RIPanic (snd (do_read k d from to)).
Proof.
  intros H. unfold do_read.
  pose proof (read_items_no_panic (m_cache (k_sm k)) (k_closed k) d
                (lm_range from (N.max to from) (m_log (k_sm k))) (k_hit k) (k_miss k)) as Hn.
  destruct (read_items (m_cache (k_sm k)) (k_closed k) d
              (lm_range from (N.max to from) (m_log (k_sm k))) (k_hit k) (k_miss k)) as [[items h] ms].
  cbn [fst snd] in *. apply Hn. intros i ld Hin. apply NoPanic.lm_range_in in Hin. apply (H i ld), Hin.
Qed.

Lemma do_dump_iter_no_panic k d :
  (forall i ld, In (i, ld) (m_log (k_sm k)) -> reads_own (k_closed k) d ld) ->
  ~ In RIPanic (do_dump_iter k d).
Proof.
  intros H. unfold do_dump_iter.
  pose proof (read_items_no_panic (m_cache (k_sm k)) (k_closed k) d (m_log (k_sm k)) 0 0 H) as Hn.
  destruct (read_items (m_cache (k_sm k)) (k_closed k) d (m_log (k_sm k)) 0 0) as [[items h] ms].
  exact Hn.
Qed.

Theorem jw_read_no_panic : forall y, journal_wf y ->
  (forall from to, ~ In RIPanic (snd (do_read (y_core y) (y_disk y) from to))) /\
  ~ In RIPanic (do_dump_iter (y_core y) (y_disk y)).
Proof.
  intros y JW. split; [intros from to; apply do_read_no_panic|apply do_dump_iter_no_panic];
    apply (jw_reads_own y JW).
Qed.

(* ------------------------------------------------------------------ no underflow in read_record *)
(* the subtraction [off - ck_id c] of read_record never underflows for an index entry and
   the closed chunk that load_payload looks up for it *)
Theorem C16_read_record_no_underflow : forall y i ld c, journal_wf y ->
  In (i, ld) (m_log (k_sm (y_core y))) ->
  closed_get (ld_chunk ld) (k_closed (y_core y)) = Some c ->
  ck_id (cl_chunk c) <= ld_off ld.
Proof.
  intros y i ld c JW Il Hg. destruct (closed_get_some _ _ _ Hg) as [Ic Eid].
  pose proof (jw_inv _ JW) as J.
  pose proof (ji_log _ _ _ J) as HL. rewrite Forall_forall in HL.
  destruct (HL _ Il) as (_ & _ & Hseg). cbn [snd] in Hseg.
  assert (Iid : In (ld_chunk ld) (ids (logical y))).
  { rewrite (ji_ids _ _ _ J), <- Eid. unfold chunk_ids. apply in_app_iff. right.
    apply in_app_iff. left. unfold closed_ids.
    apply (in_map (fun c => ck_id (cl_chunk c))). assumption. }
  destruct (Hseg Iid) as (pre & p & post & _ & _ & Eoff & _). unfold blen in Eoff. lia.
Qed.

(* hence read_record does not panic there *)
Corollary C16_read_record_no_panic : forall y i ld c, journal_wf y ->
  In (i, ld) (m_log (k_sm (y_core y))) ->
  closed_get (ld_chunk ld) (k_closed (y_core y)) = Some c ->
  read_record (y_disk y) (cl_chunk c) (ld_off ld) (ld_len ld) <> Panic.
Proof.
  intros y i ld c JW Il Hg. destruct (closed_get_some _ _ _ Hg) as [Ic Eid].
  destruct (C11_read_record_is_append y i ld c JW Il Ic Eid) as [[p E]|E]; rewrite E; discriminate.
Qed.

(* the branch is live in the model: an offset below the chunk's start panics (before any
   I/O: the directory is empty here) *)
Example read_record_underflow_panics : read_record [] (mkChunk 10 [28]) 9 1 = Panic.
Proof. reflexivity. Qed.

(* ... and exactly then *)
Lemma read_record_panic_iff d c off len : read_record d c off len = Panic <-> off < ck_id c.
Proof.
  unfold read_record. destruct (N.ltb_spec off (ck_id c)) as [H|H].
  - split; auto.
  - split; [|lia]. destruct (disk_get (ck_id c) d) as [f|]; [|discriminate].
    destruct (N.ltb _ _); [discriminate|].
    destruct (dec_record _) as [[r rest]| |]; discriminate.
Qed.

(* ------------------------------------------------------------------ C16 for the items of a read *)
(* any history of well-formed operations from an empty directory, restarts anywhere (any
   configuration, cache limits 0 included), every write kind except update_state *)
Theorem C16_read_items_no_panic : forall cfg ops res y,
  forallb CacheRestart.op_c15 ops = true -> Forall op_wf ops ->
  run_case cfg ops = (res, Some y) ->
  (forall from to, ~ In RIPanic (snd (do_read (y_core y) (y_disk y) from to))) /\
  ~ In RIPanic (do_dump_iter (y_core y) (y_disk y)).
Proof.
  intros cfg ops res y Hc Hw H. apply jw_read_no_panic.
  exact (CacheRestart.C11_invariant_restarts cfg ops res y Hc Hw H).
Qed.

(* update_state INCLUDED, restarts excluded *)
Theorem C16_read_items_no_panic_update_state : forall cfg ops res y,
  ops_c11 ops = true -> Forall op_wf ops ->
  run_case cfg ops = (res, Some y) ->
  (forall from to, ~ In RIPanic (snd (do_read (y_core y) (y_disk y) from to))) /\
  ~ In RIPanic (do_dump_iter (y_core y) (y_disk y)).
Proof.
  intros cfg ops res y Hc Hw H. apply jw_read_no_panic.
  exact (C11_invariant cfg ops res y Hc Hw H).
Qed.

(* ------------------------------------------------------------------ every read result of a run *)
Lemma run_ops_read_at : forall ops y res fin items,
  run_ops y ops = (res, fin) -> In (ResRead items) res ->
  exists ops1 o ops2 res1 y1, ops = ops1 ++ o :: ops2 /\ run_ops y ops1 = (res1, Some y1) /\
                              snd (run_op y1 o) = ResRead items.
Proof.
  induction ops as [|o ops IH]; intros y res fin items H Hin; cbn [run_ops] in H.
  - inversion H; subst. destruct Hin.
  - destruct (run_op y o) as [[y1|] r] eqn:Eo.
    + destruct (run_ops y1 ops) as [rs f] eqn:E2. inversion H; subst. destruct Hin as [E|Hin].
      * exists [], o, ops, [], y. split; [reflexivity|]. split; [reflexivity|]. now rewrite Eo.
      * destruct (IH y1 rs fin items E2 Hin) as (ops1 & o1 & ops2 & res1 & y2 & E & Hr & Hs).
        exists (o :: ops1), o1, ops2, (r :: res1), y2. split; [now rewrite E|]. split; [|exact Hs].
        cbn [run_ops]. now rewrite Eo, Hr.
    + inversion H; subst. destruct Hin as [E|[]].
      exists [], o, ops, [], y. split; [reflexivity|]. split; [reflexivity|]. now rewrite Eo.
Qed.

Lemma run_op_read y o items : snd (run_op y o) = ResRead items ->
  (exists from to, items = snd (do_read (y_core y) (y_disk y) from to)) \/
  items = do_dump_iter (y_core y) (y_disk y).
Proof.
  destruct o as [w|cb|from to| | | | | |cfg']; cbn [run_op]; intros H.
  - destruct (do_write (y_core y) w) as [[[k r] effs]|]; discriminate.
  - destruct (do_flush (y_core y) cb). discriminate.
  - left. exists from, to. destruct (do_read (y_core y) (y_disk y) from to) as [k its].
    cbn [snd] in *. now inversion H.
  - right. cbn [snd] in H. now inversion H.
  - discriminate.
  - discriminate.
  - discriminate.
  - discriminate.
  - destruct (open_dir cfg' (y_disk (worker_idle y))); discriminate.
Qed.

(* the run-level statement: every read of the run, not only one after it *)
Theorem C16_run_reads_no_panic : forall cfg ops res fin,
  forallb CacheRestart.op_c15 ops = true -> Forall op_wf ops ->
  run_case cfg ops = (res, fin) ->
  forall items, In (ResRead items) res -> ~ In RIPanic items.
Proof.
  intros cfg ops res fin Hc Hw H items Hin. unfold run_case in H.
  destruct (open_dir cfg []) as [y0|e d'] eqn:EO.
  - destruct (run_ops_read_at ops y0 res fin items H Hin) as (ops1 & o & ops2 & res1 & y1 & E & Hr & Hs).
    subst ops. rewrite forallb_app in Hc. apply andb_true_iff in Hc. destruct Hc as [Hc1 _].
    apply Forall_app in Hw. destruct Hw as [Hw1 _].
    assert (Hrc : run_case cfg ops1 = (res1, Some y1)) by (unfold run_case; now rewrite EO).
    destruct (C16_read_items_no_panic cfg ops1 res1 y1 Hc1 Hw1 Hrc) as [Hrd Hdu].
    destruct (run_op_read y1 o items Hs) as [(from & to & ->)| ->]; [apply Hrd|exact Hdu].
  - inversion H; subst. destruct Hin as [E|[]]. discriminate.
Qed.

Print Assumptions C16_read_record_no_underflow.
Print Assumptions C16_read_record_no_panic.
Print Assumptions read_record_underflow_panics.
Print Assumptions read_record_panic_iff.
Print Assumptions C16_read_items_no_panic.
Print Assumptions C16_read_items_no_panic_update_state.
Print Assumptions C16_run_reads_no_panic.

(* ------------------------------------------------------------------ the theorems are not vacuous *)
(* a cache of zero items, chunks of four records: three appends fill chunk 0 (rotation to
   chunk 114), flush, idle; truncate everything and re-append (1,0): the read returns an
   error item (finding F2 of C07: the entry sits in the open chunk and is evicted); flush,
   restart (again with a zero cache), one more append fills chunk 114 (rotation, its tail
   still queued): the read returns (1,0) from disk and an error item for (1,1).  Error
   items, but no panic item. *)
Definition rn_cfg : config := mkConfig 0 0 4 100000 true.
Definition rn_ops : list op :=
  [OW (OAppend [((5, 0), []); ((5, 1), []); ((5, 2), [])]); OFlush true; OIdle;
   OW (OTruncate 0); OW (OAppend [((1, 0), [])]); ORead 0 1; OFlush false; ORestart rn_cfg;
   OW (OAppend [((1, 1), [])]); ORead 0 5].

Example C16_read_items_nonvacuous : exists res y,
  forallb CacheRestart.op_c15 rn_ops = true /\ Forall op_wf rn_ops /\
  c_max_items rn_cfg = 0 /\ c_capacity rn_cfg = 0 /\
  run_case rn_cfg rn_ops = (res, Some y) /\
  res = [ResW (WOk 82 32); ResUnit; ResUnit; ResW (WOk 148 13); ResW (WOk 161 32);
         ResRead [RIErr KNotFound]; ResUnit; ResOpened; ResW (WOk 193 32);
         ResRead [RIOk (1, 0) []; RIErr KUnexpectedEof]] /\
  map (fun c => ck_id (cl_chunk c)) (k_closed (y_core y)) = [0; 114] /\
  snd (do_read (y_core y) (y_disk y) 0 5) = [RIOk (1, 0) []; RIErr KUnexpectedEof] /\
  do_dump_iter (y_core y) (y_disk y) = [RIOk (1, 0) []; RIErr KUnexpectedEof].
Proof.
  destruct (run_case rn_cfg rn_ops) as [res fin] eqn:Er.
  vm_compute in Er. inversion Er; subst res fin; clear Er.
  eexists. eexists. split; [reflexivity|]. split.
  { unfold rn_ops. repeat constructor; cbn; unfold wf_pair, wf_u64, wf_bytes; cbn; lia. }
  split; [reflexivity|]. split; [reflexivity|]. split; [reflexivity|]. split; [reflexivity|].
  split; [vm_compute; reflexivity|]. split; vm_compute; reflexivity.
Qed.

Print Assumptions C16_read_items_nonvacuous.

(* ================================================================== the small-step system *)
(* the argument of C11_read_record_is_append, for any directory whose files are byte
   prefixes of the journal files [fb] *)
Lemma jinv_reads_own k idl fb d : jinv k idl fb ->
  (forall id f, In id idl -> disk_get id d = Some f -> exists tl, fb id = f_data f ++ tl) ->
  forall i ld, In (i, ld) (m_log (k_sm k)) -> reads_own (k_closed k) d ld.
Proof.
  intros J Hpre i ld Il c Ic Eid.
  pose proof (ji_log _ _ _ J) as HL. rewrite Forall_forall in HL.
  destruct (HL _ Il) as (Wid & _ & Hseg). cbn [snd] in Wid, Hseg.
  assert (Iid : In (ld_chunk ld) idl).
  { rewrite (ji_ids _ _ _ J), <- Eid. unfold chunk_ids. apply in_app_iff. right.
    apply in_app_iff. left. unfold closed_ids.
    apply (in_map (fun c => ck_id (cl_chunk c))). assumption. }
  destruct (Hseg Iid) as (pre & p & post & Wp & Ef & Eoff & Elen).
  unfold read_record. rewrite Eid.
  destruct (N.ltb_spec (ld_off ld) (ld_chunk ld)) as [Hu|_]; [unfold blen in Eoff; lia|].
  destruct (disk_get (ld_chunk ld) d) as [f|] eqn:Eg; [|right; reflexivity].
  destruct (Hpre _ f Iid Eg) as [tl Etl].
  destruct (N.ltb_spec (N.of_nat (length (f_data f))) (ld_off ld - ld_chunk ld + ld_len ld))
    as [L|L]; [right; reflexivity|].
  left. exists p.
  set (e := enc_record (RAppend (ld_id ld) p)) in *.
  assert (Erel : ld_off ld - ld_chunk ld = blen pre) by lia.
  rewrite Erel in *. unfold rec_size in Elen. fold e in Elen.
  assert (Hx : exists w, f_data f = (pre ++ e) ++ w).
  { apply (app_eq_prefix (pre ++ e) (f_data f) tl post).
    - rewrite <- Etl, Ef, app_assoc. reflexivity.
    - rewrite app_length. unfold blen in L. lia. }
  destruct Hx as [w Ew]. rewrite Ew, Elen. unfold blen. rewrite !Nat2N.id.
  rewrite <- app_assoc, skipn_app, skipn_all, Nat.sub_diag. cbn [skipn app].
  rewrite firstn_app, firstn_all, Nat.sub_diag. cbn [firstn]. rewrite app_nil_r.
  rewrite <- (app_nil_r e). unfold e. rewrite dec_enc_record; [reflexivity|].
  simpl. split; assumption.
Qed.

(* Every reachable state of the caller / flush worker / file system (any interleaving, the
   worker at ANY position: bytes buffered in the caller, queued, received, partly written;
   injected write/sync/unlink failures and worker death included; histories with
   update_state included): no item of a read or of a dump iteration is a panic. *)
Theorem C16_read_items_no_panic_sys : forall cfg z,
  zreach cfg z -> CrashSteps.hist_wf z ->
  (forall from to, ~ In RIPanic (snd (do_read (z_core z) (z_disk z) from to))) /\
  ~ In RIPanic (do_dump_iter (z_core z) (z_disk z)).
Proof.
  intros cfg z Hr Hw. destruct (CrashSteps.L2_journal cfg z Hr Hw) as [G J].
  pose proof (CrashJournal.gi_jinv _ _ _ _ (CrashSteps.ji_gi _ _ J)) as Ji.
  pose proof (CrashSteps.ji_hw _ _ J) as HW.
  assert (H : forall i ld, In (i, ld) (m_log (k_sm (z_core z))) ->
                           reads_own (k_closed (z_core z)) (z_disk z) ld).
  { apply (jinv_reads_own _ _ _ _ Ji). intros id f _ Hg.
    assert (Hin : In id (map f_id (z_disk z) ++ CrashBase.creates (z_todo z))).
    { apply in_or_app. left. apply CrashBase.disk_get_ids. congruence. }
    destruct (HW id Hin) as [t Et]. unfold CrashBase.data_of in Et. rewrite Hg in Et.
    exists (CrashBase.theads (z_todo z) id ++ t). now rewrite Et, app_assoc. }
  split; [intros from to; now apply do_read_no_panic|now apply do_dump_iter_no_panic].
Qed.

(* hence every read result that the system hands to the caller *)
Corollary C16_sys_reads_no_panic : forall cfg z e z' v items,
  zreach cfg z -> CrashSteps.hist_wf z -> zstep z e = Some (z', v) ->
  In (VResult (ResRead items)) v -> ~ In RIPanic items.
Proof.
  intros cfg z e z' v items Hr Hw Hs Hin.
  destruct (C16_read_items_no_panic_sys cfg z Hr Hw) as [Hrd Hdu].
  destruct e as [o| |k nf|ok|]; cbn [zstep] in Hs.
  - unfold zcall in Hs. destruct (z_todo z); [|discriminate]. destruct (z_dropped z); [discriminate|].
    destruct o as [w|cb|from to| | | | | |cfg'].
    + destruct (do_write (z_core z) w) as [[[k r] effs]|]; [|discriminate].
      inversion Hs; subst. destruct Hin as [E|[]]. discriminate.
    + destruct (do_flush (z_core z) cb). inversion Hs; subst. destruct Hin as [E|[]]. discriminate.
    + specialize (Hrd from to). destruct (do_read (z_core z) (z_disk z) from to) as [k its].
      inversion Hs; subst. destruct Hin as [E|[]]. inversion E; subst. exact Hrd.
    + inversion Hs; subst. destruct Hin as [E|[]]. inversion E; subst. exact Hdu.
    + inversion Hs; subst. destruct Hin as [E|[]]. discriminate.
    + inversion Hs; subst. destruct Hin as [E|[]]. discriminate.
    + destruct (z_queue z); [|discriminate]. destruct (worker_quiet z); [|discriminate].
      inversion Hs; subst. destruct Hin as [E|[]]. discriminate.
    + inversion Hs; subst. destruct Hin as [E|[]]. discriminate.
    + discriminate.
  - unfold zeff in Hs. destruct (z_todo z) as [|[id|id h|r] t]; [discriminate| | |];
      inversion Hs; subst; repeat (destruct Hin as [Hin|Hin]; [discriminate Hin|]); destruct Hin.
  - exfalso. unfold zrecv in Hs. AckFacts.inv_step Hs; destruct Hin.
  - exfalso. unfold zwork in Hs. AckFacts.inv_step Hs;
      repeat (destruct Hin as [Hin|Hin]; [discriminate Hin|]); destruct Hin.
  - destruct (z_todo z); [|discriminate]. inversion Hs; subst. destruct Hin.
Qed.

Print Assumptions C16_read_items_no_panic_sys.
Print Assumptions C16_sys_reads_no_panic.
