(* C02, part 4: any number of clean close/open cycles.

   The reopened state of RestartFacts.v satisfies [journal_wf] and the invariant [FI]
   again (for every later configuration), so the argument can be iterated:
   [C02_restart_cycles] covers histories in which every restart directly follows a
   flush. *)
From Coq Require Import List NArith Bool Lia Sorted Arith.
From Coq.Strings Require Import Byte.
From RaftLog Require Import Base.Bytes Base.Crc32 Model.Types Model.Codec Model.Cache Model.Core
  Model.Recover Model.Run Spec.Spec Spec.Hist.
From RaftLog Require Import Proofs.OrderFacts Proofs.SmFacts Proofs.Refine.
From RaftLog Require Import Proofs.CodecFacts Proofs.JournalDisk Proofs.JournalChunk Proofs.JournalFacts.
From RaftLog Require Import Proofs.ScanFacts Proofs.RecoverFacts.
From RaftLog Require Import Proofs.RestartSim Proofs.RestartInv Proofs.RestartFacts.
Import ListNotations.
Local Open Scope N_scope.
Local Arguments N.add : simpl never.
Local Arguments N.sub : simpl never.
Local Arguments N.mul : simpl never.
Local Arguments N.eqb : simpl never.
Local Arguments N.ltb : simpl never.
Local Arguments N.leb : simpl never.
Local Arguments N.compare : simpl never.
Local Arguments N.of_nat : simpl never.
Local Arguments enc_record : simpl never.

(* ------------------------------------------------------------------ the closed chunks of a reopened store *)
(* every file but the last becomes a closed chunk whose closing state is the snapshot
   heading the next file *)
Fixpoint closed_exp (G : list jfile) : list closed :=
  match G with
  | [] => []
  | g :: G' =>
    match G' with
    | [] => []
    | g' :: _ => mkClosed (chunk_of (fst g) (snd g)) (head_state (snd g')) false :: closed_exp G'
    end
  end.

Lemma rs_run_head : forall x st tl, rs_run x (RState st :: tl) = rs_run st tl.
Proof. reflexivity. Qed.

Lemma closed_files_exp : forall G gl t0 t cur,
  replay_files t0 (G ++ [gl]) = (t, None) -> Chain cur (G ++ [gl]) ->
  closed_files t0 G = closed_exp (G ++ [gl]).
Proof.
  induction G as [|g G IH]; intros gl t0 t cur Hrep Hch; [reflexivity|].
  cbn [app replay_files] in Hrep.
  destruct (chunk_replay t0 g) as [t1 [e|]] eqn:Ec; [discriminate Hrep|].
  cbn [app Chain] in Hch. destruct Hch as [(st & tl & E1 & E2) Hch'].
  cbn [closed_files app closed_exp]. rewrite Ec. cbn [fst].
  pose proof (IH gl t1 t cur Hrep Hch') as IHg.
  destruct (G ++ [gl]) as [|g' R] eqn:EG; [destruct G; discriminate EG|].
  f_equal; [|exact IHg].
  f_equal. unfold chunk_replay in Ec. apply replay_rs in Ec.
  - rewrite E1, rs_run_head, E2 in Ec. inversion Ec. reflexivity.
  - rewrite ends_from_length, map_length. reflexivity.
Qed.

Lemma closed_exp_in : forall G c, In c (closed_exp G) ->
  exists g, In g G /\ cl_chunk c = chunk_of (fst g) (snd g).
Proof.
  induction G as [|g G IH]; intros c Hc; [destruct Hc|].
  cbn [closed_exp] in Hc. destruct G as [|g' G']; [destruct Hc|].
  destruct Hc as [Hc|Hc].
  - subst c. exists g. split; [left; reflexivity|reflexivity].
  - destruct (IH c Hc) as (x & Hx & E). exists x. split; [right; exact Hx|exact E].
Qed.

Lemma chunk_ok_of fb g : file_ok fb g -> chunk_ok fb (chunk_of (fst g) (snd g)).
Proof.
  intros (H1 & H2 & H3). exists (snd g). split; [exact H2|]. split; [exact H1|]. split; [reflexivity|exact H3].
Qed.

Lemma exp_next : forall g' R o, (R = [] -> o = fst g') ->
  match closed_exp (g' :: R) with [] => o | c' :: _ => ck_id (cl_chunk c') end = fst g'.
Proof.
  intros g' R o H. cbn [closed_exp]. destruct R as [|g'' R']; [apply H; reflexivity|reflexivity].
Qed.

Lemma exp_heads fb : forall G gl, Forall (file_ok fb) (G ++ [gl]) ->
  heads_ok fb (closed_exp (G ++ [gl])) (fst gl).
Proof.
  induction G as [|g G IH]; intros gl HF; [exact I|].
  cbn [app] in HF. inversion HF as [|? ? _ HF']; subst.
  pose proof (IH gl HF') as IHg.
  cbn [app closed_exp]. destruct (G ++ [gl]) as [|g' R] eqn:EG; [destruct G; discriminate EG|].
  cbn [heads_ok cl_state]. split; [|exact IHg].
  assert (En : R = [] -> fst gl = fst g').
  { intros ER. subst R. destruct G as [|x G']; cbn [app] in EG.
    - inversion EG. reflexivity.
    - inversion EG as [[E1 E2]]. destruct G'; discriminate E2. }
  pose proof (exp_next g' R (fst gl) En) as En'.
  match goal with |- exists tl, fb ?x = _ => replace x with (fst g') by (symmetry; exact En') end.
  inversion HF' as [|? ? (F1 & _ & st & tl & F3) _]; subst. rewrite F1, F3. cbn [head_state].
  exists (JournalChunk.encs tl). reflexivity.
Qed.

Lemma exp_bound lg : forall G, GB lg G ->
  forall c e, In c (closed_exp G) -> In e lg -> ld_chunk (snd e) = ck_id (cl_chunk c) ->
  opair_cmp (Some (ld_id (snd e))) (r_last (cl_state c)) <> Gt.
Proof.
  induction G as [|g G IH]; intros HG c e Hc He Hch; [destruct Hc|].
  cbn [GB] in HG. destruct HG as [H1 H2]. cbn [closed_exp] in Hc.
  destruct G as [|g' G']; [destruct Hc|]. destruct Hc as [Hc|Hc].
  - subst c. cbn [cl_state cl_chunk chunk_of ck_id] in *. apply H1; assumption.
  - apply (IH H2 c e Hc He Hch).
Qed.

(* ------------------------------------------------------------------ the reopened state is a journal again *)
Lemma reopen_jw cfg1 y sp n b y' :
  FI cfg1 y sp n b -> y_queue y = [] -> k_pending (y_core y) = [] ->
  reopened cfg1 y sp n b y' ->
  journal_wf y' /\ logical y' = logical y /\
  exists G0 o rs,
    GJ y (G0 ++ [(o, rs)]) /\ GB (m_log (k_sm (y_core y))) (G0 ++ [(o, rs)]) /\
    o = ck_id (k_open (y_core y)) /\
    k_open (y_core y') = chunk_of o rs /\
    k_closed (y_core y') = closed_exp (G0 ++ [(o, rs)]) /\
    map fst G0 = k_removed (y_core y) ++ closed_ids (y_core y).
Proof.
  intros F Hq Hpend RO.
  pose proof (fi_jw _ _ _ _ _ F) as JW. pose proof (jw_inv _ JW) as J.
  pose proof (C11_idle_disk_is_journal y JW Hq Hpend) as El.
  destruct (ro_shape _ _ _ _ _ _ RO) as (G0 & o & rs & pl & GJy & GC & GBd & _ & Eo & Eop & Ecl & Efl & Hrep).
  destruct GJy as [Gids Gfiles].
  rewrite (closed_files_exp G0 (o, rs) _ _ _ Hrep GC) in Ecl.
  assert (EG0 : map fst G0 = k_removed (y_core y) ++ closed_ids (y_core y)).
  { rewrite (ji_idl_split _ _ _ J), map_app in Gids. cbn [map fst] in Gids.
    apply app_inj_tail in Gids. apply Gids. }
  assert (Ew : wfinal y' = (y_disk y, [mkWF o pl])).
  { unfold wfinal, wproj, wrun. rewrite (ro_queue _ _ _ _ _ _ RO), (ro_disk _ _ _ _ _ _ RO), Efl. reflexivity. }
  assert (Eopen : ck_id (k_open (y_core y')) = o) by (rewrite Eop; reflexivity).
  assert (Ecids : closed_ids (y_core y') = map fst G0).
  { unfold closed_ids. rewrite Ecl, <- (closed_files_exp G0 (o, rs) _ _ _ Hrep GC).
    apply closed_files_ids. }
  destruct (jw_build y' (ids (logical y)) (file_bytes (logical y))) as (JW' & Hids' & Hfb').
  - rewrite (ro_disk _ _ _ _ _ _ RO). apply (jw_sorted _ JW).
  - rewrite Eopen, Ew. cbn [fst]. rewrite <- El, Eo. apply (ji_open_in _ _ _ J).
  - rewrite Eopen, Ew. cbn [snd]. exists [], pl. reflexivity.
  - rewrite Eopen, Efl, (ro_queue _ _ _ _ _ _ RO). unfold mentioned. cbn.
    constructor; [apply N.le_refl|constructor].
  - rewrite Ew. cbn [fst]. rewrite El. reflexivity.
  - constructor.
    + unfold chunk_ids. rewrite (ro_removed _ _ _ _ _ _ RO), Ecids, Eopen. cbn [app].
      rewrite <- Gids, map_app. reflexivity.
    + apply (ji_sorted _ _ _ J).
    + apply (ji_abut _ _ _ J).
    + unfold live_chunks. rewrite Ecl, Eop. apply Forall_app. split.
      * rewrite Forall_forall. intros ch Hch. apply in_map_iff in Hch. destruct Hch as (c & Ec & Hc).
        destruct (closed_exp_in _ _ Hc) as (g & Hg & Eg). subst ch. rewrite Eg.
        apply chunk_ok_of. rewrite Forall_forall in Gfiles. apply Gfiles. exact Hg.
      * constructor; [|constructor]. apply (chunk_ok_of _ (o, rs)).
        rewrite Forall_forall in Gfiles. apply Gfiles. apply in_or_app. right. left. reflexivity.
    + rewrite Ecl, Eopen. apply (exp_heads _ G0 (o, rs)). exact Gfiles.
    + rewrite (ro_rs _ _ _ _ _ _ RO). apply (ji_rs _ _ _ J).
    + rewrite (ro_log _ _ _ _ _ _ RO), Eopen, Eo. apply (ji_log _ _ _ J).
  - rewrite Eopen, Ew, (ro_pending _ _ _ _ _ _ RO), app_nil_r. cbn [fst]. rewrite El. reflexivity.
  - intros j _. rewrite Ew. cbn [fst]. rewrite El. reflexivity.
  - split; [exact JW'|]. split.
    + rewrite (C11_idle_disk_is_journal y' JW' (ro_queue _ _ _ _ _ _ RO) (ro_pending _ _ _ _ _ _ RO)).
      rewrite (ro_disk _ _ _ _ _ _ RO). symmetry. exact El.
    + exists G0, o, rs. split; [constructor; assumption|]. split; [exact GBd|]. split; [exact Eo|].
      split; [exact Eop|]. split; [exact Ecl|exact EG0].
Qed.

Lemma reopen_FI cfg1 cfg2 y sp n b y' :
  FI cfg1 y sp n b -> FI cfg2 y sp n b ->
  y_queue y = [] -> k_pending (y_core y) = [] ->
  open_dir cfg1 (y_disk y) = OpenOk y' -> FI cfg2 y' sp n b.
Proof.
  intros F1 F2 Hq Hpend Ho.
  destruct (reopen cfg1 y sp n b F1 Hq Hpend) as (y'' & Ho' & RO).
  rewrite Ho in Ho'. inversion Ho'; subst y''. clear Ho'.
  destruct (reopen_jw cfg1 y sp n b y' F1 Hq Hpend RO)
    as (JW' & El' & G0 & o & rs & GJy & GBd & Eo & Eop & Ecl & EG0).
  pose proof (ro_inv _ _ _ _ _ _ RO) as (HR & HB & _).
  assert (Ecids : closed_ids (y_core y') ++ [ck_id (k_open (y_core y'))] =
                  k_removed (y_core y) ++ closed_ids (y_core y) ++ [ck_id (k_open (y_core y))]).
  { pose proof (ji_ids _ _ _ (jw_inv _ JW')) as E. rewrite El' in E.
    rewrite (ji_ids _ _ _ (jw_inv _ (fi_jw _ _ _ _ _ F1))) in E. unfold chunk_ids in E.
    rewrite (ro_removed _ _ _ _ _ _ RO) in E. cbn [app] in E. symmetry. exact E. }
  constructor.
  - exact JW'.
  - exact HR.
  - exact HB.
  - apply (fi_room _ _ _ _ _ F2).
  - destruct (fi_g _ _ _ _ _ F2) as (G & [Ga Gb] & Gc & Gd & Ge & Gf). exists G.
    split; [|split; [|split; [|split]]].
    + constructor; rewrite El'; assumption.
    + eapply Fam_ext; [apply (ro_rs _ _ _ _ _ _ RO)|apply (ro_log _ _ _ _ _ _ RO)|exact Gc].
    + rewrite (ro_rs _ _ _ _ _ _ RO). exact Gd.
    + rewrite (ro_log _ _ _ _ _ _ RO). exact Ge.
    + exact Gf.
  - unfold live_ok. rewrite (ro_log _ _ _ _ _ _ RO), Ecids. intros e He.
    apply in_or_app. right. apply (fi_live _ _ _ _ _ F1 e He).
  - unfold closed_bound. rewrite (ro_log _ _ _ _ _ _ RO), Ecl. intros c e Hc He Hch.
    apply (exp_bound _ _ GBd c e Hc He Hch).
Qed.

(* ------------------------------------------------------------------ histories with clean restarts *)
(* plain histories in which restarts are allowed, each directly preceded by a flush *)
Fixpoint ops_clean_restarts (sp : spec) (ops : list op) : bool :=
  match ops with
  | [] => true
  | o :: r =>
    match o, r with
    | OFlush _, ORestart _ :: r' => ops_clean_restarts sp r'
    | _, _ => op_plain sp o && ops_clean_restarts (spec_op sp o) r
    end
  end.

Fixpoint restart_cfgs (ops : list op) : list config :=
  match ops with
  | [] => []
  | ORestart c :: r => c :: restart_cfgs r
  | _ :: r => restart_cfgs r
  end.

(* the invariant for a list of configurations at once *)
Definition FIs (cs : list config) (y : sys) (sp : spec) (n b : N) : Prop :=
  Forall (fun c => FI c y sp n b) cs.

Lemma fis_run_op : forall c0 cs y sp o n b,
  FIs (c0 :: cs) y sp (n + N.of_nat (length (op_entries o))) (b + bytes_of (op_entries o)) ->
  op_plain sp o = true -> op_wf o ->
  exists y' r, run_op y o = (Some y', r) /\ FIs (c0 :: cs) y' (spec_op sp o) n b.
Proof.
  intros c0 cs y sp o n b HF Hp Hwf. unfold FIs in *.
  inversion HF as [|? ? H0 _]; subst.
  destruct (fi_run_op c0 y sp o n b H0 Hp Hwf) as (y' & r & Hop & _).
  exists y', r. split; [exact Hop|].
  rewrite Forall_forall in *. intros c Hc.
  destruct (fi_run_op c y sp o n b (HF c Hc) Hp Hwf) as (y'' & r' & Hop' & F').
  rewrite Hop in Hop'. inversion Hop'; subst. exact F'.
Qed.

Lemma fis_restart : forall c0 cs y sp cb c n b,
  FIs (c0 :: cs) y sp n b -> In c (c0 :: cs) ->
  exists y1 r1 y3, run_op y (OFlush cb) = (Some y1, r1) /\
    run_op y1 (ORestart c) = (Some y3, ResOpened) /\ FIs (c0 :: cs) y3 sp n b.
Proof.
  intros c0 cs y sp cb c n b HF Hc.
  assert (HF0 : FIs (c0 :: cs) y sp (n + N.of_nat (length (op_entries (OFlush cb))))
                    (b + bytes_of (op_entries (OFlush cb)))).
  { unfold FIs in *. eapply Forall_impl; [|exact HF]. intros a Ha.
    eapply FI_mono; [exact Ha|cbn; lia|cbn; lia]. }
  destruct (fis_run_op c0 cs y sp (OFlush cb) n b HF0 eq_refl I) as (y1 & r1 & Hop1 & HF1).
  cbn [spec_op] in HF1.
  assert (Hp1 : k_pending (y_core y1) = []).
  { cbn [run_op] in Hop1. unfold do_flush in Hop1. inversion Hop1; subst y1.
    rewrite JournalFacts.apply_effs_core. reflexivity. }
  assert (HF1' : FIs (c0 :: cs) y1 sp (n + N.of_nat (length (op_entries OIdle)))
                     (b + bytes_of (op_entries OIdle))).
  { unfold FIs in *. eapply Forall_impl; [|exact HF1]. intros a Ha.
    eapply FI_mono; [exact Ha|cbn; lia|cbn; lia]. }
  destruct (fis_run_op c0 cs y1 sp OIdle n b HF1' eq_refl I) as (y2 & r2 & Hop2 & HF2).
  cbn [spec_op] in HF2. cbn [run_op] in Hop2. inversion Hop2; subst y2 r2. clear Hop2.
  assert (Hq2 : y_queue (worker_idle y1) = []) by apply worker_idle_queue.
  assert (Hp2 : k_pending (y_core (worker_idle y1)) = []).
  { destruct (JournalDisk.worker_idle_core y1) as (_ & _ & E & _). rewrite E. exact Hp1. }
  unfold FIs in HF2. rewrite Forall_forall in HF2.
  destruct (reopen c (worker_idle y1) sp n b (HF2 c Hc) Hq2 Hp2) as (y3 & Ho & _).
  exists y1, r1, y3. split; [exact Hop1|]. split.
  - cbn [run_op]. rewrite Ho. reflexivity.
  - unfold FIs. rewrite Forall_forall. intros c2 Hc2.
    apply (reopen_FI c c2 (worker_idle y1) sp n b y3 (HF2 c Hc) (HF2 c2 Hc2) Hq2 Hp2 Ho).
Qed.

Lemma restart_cfgs_cons_incl o r c : In c (restart_cfgs r) -> In c (restart_cfgs (o :: r)).
Proof. intros H. destruct o; cbn [restart_cfgs]; try exact H. right. exact H. Qed.

Lemma fis_run_ops : forall m ops, (length ops <= m)%nat ->
  forall c0 cs y sp res fin n b,
  FIs (c0 :: cs) y sp (n + N.of_nat (length (Hist.appended ops))) (b + appended_bytes ops) ->
  (forall c, In c (restart_cfgs ops) -> In c (c0 :: cs)) ->
  ops_clean_restarts sp ops = true -> Forall op_wf ops -> run_ops y ops = (res, fin) ->
  exists y', fin = Some y' /\ FIs (c0 :: cs) y' (spec_ops sp ops) n b.
Proof.
  induction m as [|m IH]; intros ops Hlen c0 cs y sp res fin n b HF Hcs Hp Hwf Hrun.
  - destruct ops; [|cbn in Hlen; lia].
    cbn [run_ops] in Hrun. inversion Hrun. subst. exists y. split; [reflexivity|].
    cbn [spec_ops fold_left]. unfold FIs in *. eapply Forall_impl; [|exact HF].
    intros a Ha. eapply FI_mono; [exact Ha|lia|lia].
  - destruct ops as [|o r].
    { cbn [run_ops] in Hrun. inversion Hrun. subst. exists y. split; [reflexivity|].
      cbn [spec_ops fold_left]. unfold FIs in *. eapply Forall_impl; [|exact HF].
      intros a Ha. eapply FI_mono; [exact Ha|lia|lia]. }
    assert (Hplain : op_plain sp o && ops_clean_restarts (spec_op sp o) r = true ->
                     exists y', fin = Some y' /\ FIs (c0 :: cs) y' (spec_ops sp (o :: r)) n b).
    { intros Hp'. apply andb_true_iff in Hp'. destruct Hp' as [Hp1 Hp2].
      inversion Hwf as [|? ? Hw1 Hw2]; subst.
      assert (F1 : FIs (c0 :: cs) y sp
                ((n + N.of_nat (length (Hist.appended r))) + N.of_nat (length (op_entries o)))
                ((b + appended_bytes r) + bytes_of (op_entries o))).
      { unfold FIs in *. eapply Forall_impl; [|exact HF]. intros a Ha.
        eapply FI_mono; [exact Ha| |].
        - rewrite appended_cons, app_length, Nat2N.inj_add. lia.
        - rewrite !appended_bytes_of, appended_cons, bytes_of_app. lia. }
      destruct (fis_run_op c0 cs y sp o _ _ F1 Hp1 Hw1) as (y' & r0 & Hop & F').
      cbn [run_ops] in Hrun. rewrite Hop in Hrun.
      destruct (run_ops y' r) as [rs fin'] eqn:Er. inversion Hrun. subst.
      cbn [spec_ops fold_left].
      apply (IH r ltac:(cbn [length] in Hlen; lia) c0 cs y' (spec_op sp o) rs fin n b F'); try assumption.
      intros c Hc. apply Hcs. apply restart_cfgs_cons_incl. exact Hc. }
    destruct o as [w|cb|from to| | | | | |cfg]; try (apply Hplain; exact Hp).
    destruct r as [|o2 r']; [apply Hplain; exact Hp|].
    destruct o2 as [w2|cb2|from2 to2| | | | | |c]; try (apply Hplain; exact Hp).
    (* OFlush cb :: ORestart c :: r' *)
    cbn [ops_clean_restarts] in Hp.
    inversion Hwf as [|? ? _ Hwf1]; subst. inversion Hwf1 as [|? ? _ Hwf2]; subst.
    assert (Hc : In c (c0 :: cs)) by (apply Hcs; cbn [restart_cfgs]; left; reflexivity).
    assert (F1 : FIs (c0 :: cs) y sp (n + N.of_nat (length (Hist.appended r'))) (b + appended_bytes r')).
    { exact HF. }
    destruct (fis_restart c0 cs y sp cb c _ _ F1 Hc) as (y1 & r1 & y3 & Hop1 & Hop2 & F3).
    cbn [run_ops] in Hrun. rewrite Hop1 in Hrun. cbv beta iota in Hrun.
    rewrite Hop2 in Hrun. cbv beta iota in Hrun.
    destruct (run_ops y3 r') as [rs3 fin3] eqn:Er3. cbv beta iota in Hrun.
    inversion Hrun; subst. clear Hrun.
    cbn [spec_ops fold_left spec_op].
    apply (IH r' ltac:(cbn [length] in Hlen; lia) c0 cs y3 sp rs3 fin n b F3); try assumption.
    intros c1 Hc1. apply Hcs. cbn [restart_cfgs]. right. exact Hc1.
Qed.

(* any number of clean close/open cycles, under changing chunk and cache limits *)
Theorem C02_restart_cycles : forall cfg ops res fin,
  ops_clean_restarts spec0 ops = true -> Forall op_wf ops ->
  big_cache cfg ops -> (forall c, In c (restart_cfgs ops) -> big_cache c ops) ->
  run_case cfg ops = (res, fin) ->
  exists y, fin = Some y /\ observes y (spec_ops spec0 ops).
Proof.
  intros cfg ops res fin Hp Hwf [B1 B2] Hcs Hrun.
  unfold run_case in Hrun. rewrite JournalFacts.open_dir_nil in Hrun.
  assert (F0 : FIs (cfg :: restart_cfgs ops) (sys0 cfg) spec0
                   (0 + N.of_nat (length (Hist.appended ops))) (0 + appended_bytes ops)).
  { unfold FIs. rewrite Forall_forall. intros c [Hc|Hc].
    - subst c. apply FI_init; lia.
    - destruct (Hcs c Hc) as [C1 C2]. apply FI_init; lia. }
  destruct (fis_run_ops (length ops) ops (le_n _) cfg (restart_cfgs ops) (sys0 cfg) spec0 res fin 0 0 F0)
    as (y & E & F); try assumption.
  - intros c Hc. right. exact Hc.
  - exists y. split; [exact E|]. unfold FIs in F. inversion F as [|? ? Fc _]; subst.
    eapply Inv_observes. apply (FI_Inv _ _ _ _ _ Fc).
Qed.

(* the hypotheses are satisfiable: rotation, purge with chunk removal, two restarts
   under different limits *)
Example C02_cycles_inhabited :
  let cfg := mkConfig 10 100 2 64 true in
  let cfg1 := mkConfig 20 200 3 1000 false in
  let cfg2 := mkConfig 10 100 1 50 true in
  let ops := [OW (OVote (1, 1)); OW (OAppend [((1, 0), []); ((1, 1), []); ((1, 2), [])]);
              OFlush true; ORestart cfg1;
              OW (OPurge (1, 0)); OW (OTruncate 2); OW (OAppend [((2, 2), [])]);
              OFlush false; ORestart cfg2; ORead 0 10; OW (OCommit (2, 2)); OFlush true; OIdle] in
  ops_clean_restarts spec0 ops = true /\ big_cache cfg ops /\
  (forall c, In c (restart_cfgs ops) -> big_cache c ops) /\
  exists res y, run_case cfg ops = (res, Some y) /\
    map fst (sp_entries (spec_ops spec0 ops)) = [(1, 1); (2, 2)].
Proof.
  cbv zeta. split; [vm_compute; reflexivity|]. split; [split; vm_compute; intros H; discriminate H|].
  split.
  - intros c Hc. cbn [restart_cfgs] in Hc. destruct Hc as [Hc|[Hc|[]]]; subst c;
      split; vm_compute; intros H; discriminate H.
  - eexists. eexists. split; vm_compute; reflexivity.
Qed.

Print Assumptions C02_restart_cycles.
