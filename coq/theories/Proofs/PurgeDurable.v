(* Property C08, durability part: a chunk file is unlinked only after the journal up
   to the end offset of the flush that requested the removal is durable in the files
   that remain (C08_removed_after_durable), for every interleaving, batching, crash
   point and injected write/sync/unlink failure.

   The proof carries a byte-accounting invariant [acct] along the stream of requests
   that the worker has not processed yet (rest of its batch, queue, pending effects of
   the call in progress), a layout invariant for the files older than the worker's
   newest file, and the ghost offset [Lw] up to which the worker has written. *)
From Coq Require Import List NArith Lia Bool Arith Sorting.Sorted.
From Coq.Strings Require Import Byte.
From RaftLog Require Import Base.Bytes Model.Types Model.Codec Model.Cache Model.Core
  Model.Recover Model.Run Model.Sys Spec.Durable.
From RaftLog Require Import Proofs.CodecFacts Proofs.AckFacts Proofs.JournalDisk Proofs.JournalChunk
  Proofs.PurgeFacts.
Import ListNotations.
Local Open Scope N_scope.
Local Arguments N.add : simpl never.
Local Arguments N.sub : simpl never.
Local Arguments N.mul : simpl never.
Local Arguments N.min : simpl never.
Local Arguments N.eqb : simpl never.
Local Arguments N.ltb : simpl never.
Local Arguments N.leb : simpl never.
Local Arguments N.compare : simpl never.
Local Arguments N.of_nat : simpl never.
Local Arguments enc_record : simpl never.

Notation blen := JournalChunk.blen.

(* ================================================================== attributes of files by id *)
Definition hl (d : disk) (j : N) : option N :=
  match disk_get j d with Some f => Some (blen (f_data f)) | None => None end.
Definition fsy (d : disk) (j : N) : N :=
  match disk_get j d with Some f => f_synced f | None => 0 end.
Definition fln (d : disk) (j : N) : N :=
  match disk_get j d with Some f => blen (f_data f) | None => 0 end.

Definition upd (h : N -> option N) (id : N) (v : option N) : N -> option N :=
  fun j => if N.eqb j id then v else h j.

Lemma hl_some_in d j l : hl d j = Some l -> In j (ids d).
Proof.
  unfold hl. destruct (disk_get j d) as [f|] eqn:E; [|discriminate]. intros _.
  destruct (in_dec N.eq_dec j (ids d)) as [I|I]; [exact I|]. apply disk_get_None in I. congruence.
Qed.

Lemma hl_in_some d j : In j (ids d) -> exists l, hl d j = Some l.
Proof.
  intros I. apply disk_get_Some_In in I as [f E]. unfold hl. rewrite E. eauto.
Qed.

Lemma hl_fln d j l : hl d j = Some l -> fln d j = l.
Proof. unfold hl, fln. destruct (disk_get j d); intros H; inversion H; reflexivity. Qed.

(* ---- durable_upto over the id list ---- *)
Fixpoint dur_ids (sy : N -> N) (l : list N) (U : N) : Prop :=
  match l with
  | [] => True
  | i :: r =>
    (i < U -> match r with j :: _ => N.min U j | [] => U end <= i + sy i) /\ dur_ids sy r U
  end.

Lemma dur_ids_mono sy sy' l U : (forall i, In i l -> sy i <= sy' i) -> dur_ids sy l U -> dur_ids sy' l U.
Proof.
  induction l as [|i r IH]; intros He H; [exact I|]. cbn [dur_ids] in *. destruct H as [H1 H2]. split.
  - intros Hlt. specialize (H1 Hlt). specialize (He i (or_introl eq_refl)). lia.
  - apply IH; [|exact H2]. intros j Hj. apply He. right. exact Hj.
Qed.

Lemma dur_ids_le sy l U U' : U' <= U -> dur_ids sy l U -> dur_ids sy l U'.
Proof.
  intros Hle. induction l as [|i r IH]; intros H; [exact I|]. cbn [dur_ids] in *. destruct H as [H1 H2].
  split; [|apply IH; exact H2]. intros Hlt. assert (Hi : i < U) by lia. specialize (H1 Hi).
  destruct r as [|j r']; lia.
Qed.

Lemma dur_ids_snoc sy l id U : U <= id -> dur_ids sy l U -> dur_ids sy (l ++ [id]) U.
Proof.
  intros Hle. induction l as [|i r IH]; intros H; cbn [app dur_ids] in *.
  - split; [lia|exact I].
  - destruct H as [H1 H2]. split; [|apply IH; exact H2].
    intros Hlt. specialize (H1 Hlt). destruct r as [|j r']; cbn [app]; lia.
Qed.

Lemma dur_ids_tail sy i r U : dur_ids sy (i :: r) U -> dur_ids sy r U.
Proof. cbn [dur_ids]. tauto. Qed.

Lemma fsy_cons_other f d j : j <> f_id f -> fsy (f :: d) j = fsy d j.
Proof. intros H. unfold fsy. cbn [disk_get]. destruct (N.eqb_spec j (f_id f)); [contradiction|reflexivity]. Qed.

Lemma durable_upto_ids d U : dsorted d -> (durable_upto d U <-> dur_ids (fsy d) (ids d) U).
Proof.
  unfold dsorted, ids. induction d as [|f r IH]; intros S; [split; intros; exact I|].
  cbn [map] in S. apply ss_inv in S as [S1 S2].
  cbn [durable_upto map dur_ids].
  assert (Ef : fsy (f :: r) (f_id f) = f_synced f).
  { unfold fsy. cbn [disk_get]. rewrite N.eqb_refl. reflexivity. }
  assert (Er : forall U', dur_ids (fsy (f :: r)) (map f_id r) U' <-> dur_ids (fsy r) (map f_id r) U').
  { intros U'. rewrite Forall_forall in S2.
    split; apply dur_ids_mono; intros i Hi; rewrite fsy_cons_other; try lia;
      specialize (S2 _ Hi); lia. }
  rewrite Ef, Er, <- (IH S1). destruct r as [|g r']; cbn [map]; tauto.
Qed.

(* ---- layout of the files older than the worker's newest file [n]:
   each is either durable up to the start of its successor, or complete and still
   tracked by the worker ---- *)
Fixpoint old_ids (sy ln : N -> N) (T : list N) (n : N) (l : list N) : Prop :=
  match l with
  | [] => True
  | i :: r =>
    match r with
    | j :: _ => j <= n -> i < n -> (j <= i + sy i \/ (i + ln i = j /\ In i T))
    | [] => True
    end /\ old_ids sy ln T n r
  end.

Lemma old_ids_ext sy ln sy' ln' T T' n l :
  (forall i, In i l -> i < n -> sy i <= sy' i) ->
  (forall i, In i l -> i < n -> In i T -> (In i T' /\ ln' i = ln i) \/ ln i <= sy' i) ->
  old_ids sy ln T n l -> old_ids sy' ln' T' n l.
Proof.
  induction l as [|i r IH]; intros H1 H2 H; [exact I|]. cbn [old_ids] in *. destruct H as [Ha Hb]. split.
  - destruct r as [|j r']; [exact I|]. intros Hj Hi. specialize (Ha Hj Hi).
    specialize (H1 i (or_introl eq_refl) Hi).
    destruct Ha as [Ha|[Ha Ht]]; [left; lia|].
    destruct (H2 i (or_introl eq_refl) Hi Ht) as [[Ht' El]|Hs]; [right; split; [lia|exact Ht']|left; lia].
  - apply IH; [| |exact Hb].
    + intros k Hk. apply H1. right. exact Hk.
    + intros k Hk. apply H2. right. exact Hk.
Qed.

Lemma old_ids_tail sy ln T n i r : old_ids sy ln T n (i :: r) -> old_ids sy ln T n r.
Proof. cbn [old_ids]. tauto. Qed.

Lemma old_ids_snoc sy ln T n l id : n < id -> old_ids sy ln T n l -> old_ids sy ln T n (l ++ [id]).
Proof.
  intros Hlt. induction l as [|i r IH]; intros H; cbn [app old_ids] in *; [tauto|].
  destruct H as [Ha Hb]. split; [|apply IH; exact Hb].
  destruct r as [|j r']; cbn [app]; [intros; lia|exact Ha].
Qed.

(* the newest file changes from n to off: the only new pair is (n, off) *)
Lemma old_ids_append_aux sy ln T n off l :
  StronglySorted N.lt l -> (In n l \/ Forall (fun j => n < j) l) -> n < off ->
  (forall j, In j l -> n < j -> j < off -> False) ->
  n + ln n = off -> In n T ->
  old_ids sy ln T n l -> old_ids sy ln (T ++ [off]) off l.
Proof.
  intros S Hn Hlt Hgap Hc Ht. induction l as [|i r IH]; intros H; [exact I|].
  cbn [old_ids] in *. destruct H as [Ha Hb]. apply ss_inv in S as [S1 S2].
  rewrite Forall_forall in S2. split.
  - destruct r as [|j r']; [exact I|]. intros Hj Hi.
    pose proof (S2 j (or_introl eq_refl)) as Hij.
    destruct (N.le_gt_cases j n) as [Hjn|Hjn].
    + assert (Hin : i < n) by lia. destruct (Ha Hjn Hin) as [G|[G1 G2]]; [left; exact G|right].
      split; [exact G1|apply in_or_app; left; exact G2].
    + assert (Ej : j = off).
      { destruct (N.lt_trichotomy j off) as [L|[E|L]]; [|exact E|lia].
        exfalso. apply (Hgap j); [right; left; reflexivity|lia|exact L]. }
      assert (Ei : i = n).
      { destruct Hn as [[E|[E|Hn]]|Hn].
        - exact E.
        - lia.
        - apply ss_inv in S1 as [_ S3]. rewrite Forall_forall in S3. specialize (S3 _ Hn). lia.
        - exfalso. inversion Hn as [|? ? Hni _]; subst. apply (Hgap i); [left; reflexivity|exact Hni|exact Hi]. }
      subst i j. right. split; [exact Hc|apply in_or_app; left; exact Ht].
  - apply IH; try assumption.
    + destruct Hn as [[E|Hn]|Hn].
      * subst i. right. rewrite Forall_forall. exact S2.
      * left. exact Hn.
      * right. inversion Hn; assumption.
    + intros k Hk. apply Hgap. right. exact Hk.
Qed.

Lemma old_ids_append sy ln T n off l :
  StronglySorted N.lt l -> In n l -> n < off ->
  (forall j, In j l -> n < j -> j < off -> False) ->
  n + ln n = off -> In n T ->
  old_ids sy ln T n l -> old_ids sy ln (T ++ [off]) off l.
Proof. intros S Hn. apply old_ids_append_aux; [exact S|left; exact Hn]. Qed.

(* after a sync pass in which only the newest file [n] was still tracked, everything
   below the written offset is durable *)
Lemma dur_ids_establish sy ln n c Lw l :
  StronglySorted N.lt l -> (In n l \/ Forall (fun j => n < j) l) ->
  old_ids sy ln [n] n l ->
  (forall j, In j l -> n < j -> c <= j) -> Lw <= c -> c <= n + sy n ->
  dur_ids sy l Lw.
Proof.
  intros S Hn Ho Hfut Hlw Hc. induction l as [|i r IH]; [exact I|].
  cbn [old_ids dur_ids] in *. destruct Ho as [Ha Hb]. apply ss_inv in S as [S1 S2].
  rewrite Forall_forall in S2. split.
  - intros Hi. destruct (N.lt_trichotomy i n) as [L|[E|L]].
    + (* older file: n is further right, so there is a successor j <= n *)
      destruct r as [|j r'].
      { exfalso. destruct Hn as [[E|[]]|Hn]; [lia|]. inversion Hn; lia. }
      pose proof (S2 j (or_introl eq_refl)) as Hij.
      assert (Hjn : j <= n).
      { destruct Hn as [[E|[E|Hn]]|Hn]; [lia|lia| |inversion Hn; lia].
        apply ss_inv in S1 as [_ S3]. rewrite Forall_forall in S3. specialize (S3 _ Hn). lia. }
      destruct (Ha Hjn L) as [G|[_ [G|[]]]]; lia.
    + subst i. destruct r as [|j r']; lia.
    + specialize (Hfut i (or_introl eq_refl) L). lia.
  - apply IH; try assumption.
    + destruct Hn as [[E|Hn]|Hn].
      * subst i. right. rewrite Forall_forall. exact S2.
      * left. exact Hn.
      * right. inversion Hn; assumption.
    + intros k Hk. apply Hfut. right. exact Hk.
Qed.

(* ================================================================== byte accounting along the request stream *)
(* a removal request may be carried out once the worker has written up to [lw]:
   every flush that asked for one of its files ended at or below [lw] *)
Definition rm_ok (G : list (list N * N)) (ids : list N) (lw : N) : Prop :=
  forall l U id, In (l, U) G -> In id l -> In id ids -> U <= lw.

Definition kont := (N -> option N) -> N -> N -> N -> Prop.

(* [h]: length of each existing file; [n]: the worker's newest file; [c]: global offset
   of the end of that file; [lw]: end offset of the last write request *)
Fixpoint acct (G : list (list N * N)) (s : list xeff) (K : kont)
         (h : N -> option N) (n c lw : N) : Prop :=
  match s with
  | [] => K h n c lw
  | XCreate id :: s' => c <= id /\ n < id /\ acct G s' K (upd h id (Some 0)) n c lw
  | XWriteHead id data :: s' =>
    c <= id /\ n < id /\ exists l, h id = Some l /\ acct G s' K (upd h id (Some (l + blen data))) n c lw
  | XSend (WWrite u data _) :: s' => c + blen data = u /\ acct G s' K h n u u
  | XSend (WAppendFile off _) :: s' =>
    c = off /\ n < off /\ (forall j, n < j -> j < off -> h j = None) /\
    exists l, h off = Some l /\ 0 < l /\ acct G s' K h off (off + l) lw
  | XSend (WRemove ids) :: s' =>
    rm_ok G ids lw /\ Forall (fun i => i < n) ids /\ acct G s' K h n c lw
  end.

Lemma acct_app G s1 : forall s2 K h n c lw,
  acct G (s1 ++ s2) K h n c lw <-> acct G s1 (acct G s2 K) h n c lw.
Proof.
  induction s1 as [|x s1 IH]; intros s2 K h n c lw; cbn [app]; [reflexivity|].
  destruct x as [id|id data|[u data cb|off prev|ids]]; cbn [acct].
  - rewrite IH. reflexivity.
  - split; intros (H1 & H2 & l & H3 & H4); (split; [exact H1|split; [exact H2|exists l; split; [exact H3|]]]);
      apply IH; exact H4.
  - rewrite IH. reflexivity.
  - split; intros (H1 & H2 & H3 & l & H4 & H5 & H6);
      (split; [exact H1|split; [exact H2|split; [exact H3|exists l; split; [exact H4|split; [exact H5|]]]]]);
      apply IH; exact H6.
  - rewrite IH. reflexivity.
Qed.

Lemma acct_mono G G' s : forall K K' : kont,
  (forall ids lw, incl ids (todo_rm s) -> rm_ok G ids lw -> rm_ok G' ids lw) ->
  (forall h n c lw, K h n c lw -> K' h n c lw) ->
  forall h n c lw, acct G s K h n c lw -> acct G' s K' h n c lw.
Proof.
  induction s as [|x s IH]; intros K K' HG HK h n c lw H; cbn [acct] in *; [apply HK; exact H|].
  assert (HG' : forall ids lw, incl ids (todo_rm s) -> rm_ok G ids lw -> rm_ok G' ids lw).
  { intros ids0 lw0 Hi. apply HG. intros a Ha. unfold todo_rm. cbn [flat_map]. apply in_or_app. right. apply Hi. exact Ha. }
  destruct x as [id|id data|[u data cb|off prev|ids]].
  - destruct H as (H1 & H2 & H3). split; [exact H1|split; [exact H2|]]. eapply IH; eassumption.
  - destruct H as (H1 & H2 & l & H3 & H4). split; [exact H1|split; [exact H2|exists l; split; [exact H3|]]].
    eapply IH; eassumption.
  - destruct H as (H1 & H2). split; [exact H1|]. eapply IH; eassumption.
  - destruct H as (H1 & H2 & H3 & l & H4 & H5 & H6).
    split; [exact H1|split; [exact H2|split; [exact H3|exists l; split; [exact H4|split; [exact H5|]]]]].
    eapply IH; eassumption.
  - destruct H as (H1 & H2 & H3). split; [|split; [exact H2|eapply IH; eassumption]].
    apply HG; [|exact H1]. intros a Ha. unfold todo_rm. cbn [flat_map xrm_of rm_of]. apply in_or_app. left. exact Ha.
Qed.

Definition kext (K : kont) : Prop :=
  forall h h' n c lw, (forall j, n < j -> h j = h' j) -> K h n c lw -> K h' n c lw.

Lemma upd_agree (h h' : N -> option N) n id v :
  (forall j, n < j -> h j = h' j) -> forall j, n < j -> upd h id v j = upd h' id v j.
Proof. intros H j Hj. unfold upd. destruct (N.eqb j id); [reflexivity|apply H; exact Hj]. Qed.

Lemma acct_ext G s : forall K, kext K -> forall h h' n c lw,
  (forall j, n < j -> h j = h' j) -> acct G s K h n c lw -> acct G s K h' n c lw.
Proof.
  induction s as [|x s IH]; intros K HK h h' n c lw He H; cbn [acct] in *; [eapply HK; eassumption|].
  destruct x as [id|id data|[u data cb|off prev|ids]].
  - destruct H as (H1 & H2 & H3). split; [exact H1|split; [exact H2|]].
    eapply IH; [exact HK| |exact H3]. apply upd_agree. exact He.
  - destruct H as (H1 & H2 & l & H3 & H4). split; [exact H1|split; [exact H2|exists l]].
    split; [rewrite <- He by exact H2; exact H3|].
    eapply IH; [exact HK| |exact H4]. apply upd_agree. exact He.
  - destruct H as (H1 & H2). split; [exact H1|]. eapply IH; eassumption.
  - destruct H as (H1 & H2 & H3 & l & H4 & H5 & H6).
    split; [exact H1|split; [exact H2|split]].
    + intros j Hj1 Hj2. rewrite <- He by exact Hj1. apply H3; assumption.
    + exists l. split; [rewrite <- He by exact H2; exact H4|split; [exact H5|]].
      eapply IH; [exact HK| |exact H6]. intros j Hj. apply He. lia.
  - destruct H as (H1 & H2 & H3). split; [exact H1|split; [exact H2|]]. eapply IH; eassumption.
Qed.

(* sends do not change the file lengths, and the cursor only moves forward *)
Lemma acct_sends_end G rs : forall (K : kont) h n c lw,
  acct G (map XSend rs) K h n c lw -> exists n' c' lw', K h n' c' lw' /\ c <= c' /\ n <= n'.
Proof.
  induction rs as [|r rs IH]; intros K h n c lw H; cbn [map acct] in H.
  - exists n, c, lw. split; [exact H|lia].
  - destruct r as [u data cb|off prev|ids].
    + destruct H as (H1 & H2). apply IH in H2 as (n' & c' & lw' & Hk & Hc & Hn).
      exists n', c', lw'. split; [exact Hk|lia].
    + destruct H as (H1 & H2 & H3 & l & H4 & H5 & H6). apply IH in H6 as (n' & c' & lw' & Hk & Hc & Hn).
      exists n', c', lw'. split; [exact Hk|lia].
    + destruct H as (H1 & H2 & H3). apply IH in H3 as (n' & c' & lw' & Hk & Hc & Hn).
      exists n', c', lw'. split; [exact Hk|lia].
Qed.

(* a file beyond the final cursor changes (created, or its head written, by the caller):
   the requests in front are not affected *)
Lemma acct_sends_upd G rs (K K' : kont) id v h :
  (forall n c lw, K h n c lw -> c <= id /\ n < id /\ K' (upd h id v) n c lw) ->
  forall n c lw, acct G (map XSend rs) K h n c lw -> acct G (map XSend rs) K' (upd h id v) n c lw.
Proof.
  intros HK. induction rs as [|r rs IH]; intros n c lw H; cbn [map acct] in *.
  - apply HK. exact H.
  - destruct r as [u data cb|off prev|ids].
    + destruct H as (H1 & H2). split; [exact H1|]. apply IH. exact H2.
    + destruct H as (H1 & H2 & H3 & l & H4 & H5 & H6).
      destruct (acct_sends_end _ _ _ _ _ _ _ H6) as (n' & c' & lw' & Hk & Hc & Hn).
      destruct (HK _ _ _ Hk) as (Hk1 & Hk2 & _).
      assert (Hid : off < id) by lia.
      split; [exact H1|split; [exact H2|split]].
      * intros j Hj1 Hj2. unfold upd. destruct (N.eqb_spec j id) as [E|E]; [lia|]. apply H3; assumption.
      * exists l. split; [|split; [exact H5|apply IH; exact H6]].
        unfold upd. destruct (N.eqb_spec off id) as [E|E]; [lia|exact H4].
    + destruct H as (H1 & H2 & H3). split; [exact H1|split; [exact H2|]]. apply IH. exact H3.
Qed.

Section Fin.
Variables (oid E pend : N).
(* at the end of the stream the worker's newest file is the open chunk, what is still
   buffered by the caller fills it up to the journal end, and no file lies beyond it *)
Definition kfin : kont := fun h n c lw =>
  n = oid /\ c + pend = E /\ forall j, n < j -> h j = None.

Lemma kfin_ext : kext kfin.
Proof.
  intros h h' n c lw He (H1 & H2 & H3). split; [exact H1|split; [exact H2|]].
  intros j Hj. rewrite <- He by exact Hj. apply H3. exact Hj.
Qed.

Lemma acct_future G s : forall h n c lw j, acct G s kfin h n c lw -> h j <> None -> n < j -> c <= j.
Proof.
  induction s as [|x s IH]; intros h n c lw j H Hj Hn; cbn [acct] in H.
  - destruct H as (_ & _ & H). exfalso. apply Hj. apply H. exact Hn.
  - destruct x as [id|id data|[u data cb|off prev|ids]].
    + destruct H as (H1 & H2 & H3). destruct (N.eq_dec j id) as [Ej|Ej]; [lia|].
      eapply IH; [exact H3| |exact Hn]. unfold upd. destruct (N.eqb_spec j id); [contradiction|exact Hj].
    + destruct H as (H1 & H2 & l & H3 & H4). destruct (N.eq_dec j id) as [Ej|Ej]; [lia|].
      eapply IH; [exact H4| |exact Hn]. unfold upd. destruct (N.eqb_spec j id); [contradiction|exact Hj].
    + destruct H as (H1 & H2). specialize (IH _ _ _ _ _ H2 Hj Hn). lia.
    + destruct H as (H1 & H2 & H3 & l & H4 & H5 & H6).
      destruct (N.lt_trichotomy j off) as [L|[Eo|L]].
      * exfalso. apply Hj. apply H3; assumption.
      * lia.
      * specialize (IH _ _ _ _ _ H6 Hj L). lia.
    + destruct H as (H1 & H2 & H3). eapply IH; eassumption.
Qed.

Lemma acct_bound G s : forall h n c lw, acct G s kfin h n c lw -> c <= E /\ Forall (fun x => c <= x) (todo_cr s).
Proof.
  induction s as [|x s IH]; intros h n c lw H; cbn [acct] in H.
  - destruct H as (_ & H & _). split; [lia|constructor].
  - unfold todo_cr. cbn [flat_map]. fold (todo_cr s).
    destruct x as [id|id data|[u data cb|off prev|ids]]; cbn [xcr_of app].
    + destruct H as (H1 & H2 & H3). apply IH in H3 as [H3 H4]. split; [exact H3|constructor; assumption].
    + destruct H as (H1 & H2 & l & H3 & H4). apply IH in H4. exact H4.
    + destruct H as (H1 & H2). apply IH in H2 as [H2 H3]. split; [lia|].
      eapply Forall_impl; [|exact H3]. cbn beta. intros a Ha. lia.
    + destruct H as (H1 & H2 & H3 & l & H4 & H5 & H6). apply IH in H6 as [H6 H7]. split; [lia|].
      eapply Forall_impl; [|exact H7]. cbn beta. intros a Ha. lia.
    + destruct H as (H1 & H2 & H3). apply IH in H3. exact H3.
Qed.
End Fin.

(* ================================================================== the caller side of the accounting *)
Definition kfin_of (k : core) : kont :=
  kfin (ck_id (k_open k)) (ck_end (k_open k)) (blen (k_pending k)).

Definition open_pos (k : core) : Prop := ck_id (k_open k) < ck_end (k_open k).

Lemma blen_pos (b : bytes) : b <> [] -> 0 < blen b.
Proof. destruct b; [congruence|]. intros _. unfold blen. cbn [length]. lia. Qed.

Lemma res_acct G k k' effs : aa_res k k' effs -> open_pos k ->
  open_pos k' /\ ck_end (k_open k) <= ck_end (k_open k') /\
  Forall (fun x => ck_end (k_open k) <= x) (todo_cr (X effs)) /\
  forall h n c lw, kfin_of k h n c lw -> acct G (X effs) (kfin_of k') h n c lw.
Proof.
  intros H Hp. unfold open_pos, kfin_of in *. destruct H as [|k' data Hd Ho Hpe _ _ _|k' data head prev st Hd Hh Ho Hpe _ _ _].
  - split; [exact Hp|]. split; [lia|]. split; [constructor|]. intros h n c lw Hk. exact Hk.
  - rewrite Ho, Hpe. rewrite JournalChunk.ck_id_push, JournalChunk.ck_end_push, blen_app.
    fold (blen data). split; [lia|]. split; [lia|]. split; [constructor|].
    intros h n c lw (H1 & H2 & H3). cbn [X flat_map acct]. split; [exact H1|split; [lia|exact H3]].
  - rewrite Ho, Hpe. rewrite JournalChunk.ck_id_push, JournalChunk.ck_end_push. cbn [ck_id].
    replace (ck_end (mkChunk (ck_end (k_open k) + N.of_nat (length data)) []))
      with (ck_end (k_open k) + N.of_nat (length data)) by reflexivity.
    fold (blen data). fold (blen head).
    pose proof (blen_pos _ Hh) as Hhp.
    split; [lia|]. split; [lia|]. split; [repeat constructor; lia|].
    intros h n c lw (H1 & H2 & H3).
    set (off := ck_end (k_open k) + blen data).
    cbn [X flat_map expand_eff app acct].
    split; [lia|]. split; [lia|]. split; [lia|]. split; [lia|].
    exists 0. split; [unfold upd; rewrite N.eqb_refl; reflexivity|].
    split; [rewrite blen_app; lia|].
    split; [reflexivity|]. split; [lia|]. split.
    { intros j Hj1 Hj2. unfold upd. destruct (N.eqb_spec j off) as [Ej|Ej]; [lia|]. apply H3. exact Hj1. }
    exists (0 + blen head). split; [unfold upd; rewrite N.eqb_refl; reflexivity|].
    split; [lia|]. unfold kfin. split; [reflexivity|]. split; [change (blen []) with 0; lia|].
    intros j Hj. unfold upd. destruct (N.eqb_spec j off) as [Ej|Ej]; [lia|]. apply H3. lia.
Qed.

Lemma chain_acct G k k' effs : aa_chain k k' effs -> open_pos k ->
  open_pos k' /\ ck_end (k_open k) <= ck_end (k_open k') /\
  Forall (fun x => ck_end (k_open k) <= x) (todo_cr (X effs)) /\
  forall h n c lw, kfin_of k h n c lw -> acct G (X effs) (kfin_of k') h n c lw.
Proof.
  induction 1 as [k|k k1 k2 e1 e2 Hr Hc IH]; intros Hp.
  - split; [exact Hp|]. split; [lia|]. split; [constructor|]. intros h n c lw Hk. exact Hk.
  - destruct (res_acct G _ _ _ Hr Hp) as (Hp1 & Hle1 & Hf1 & Ha1).
    destruct (IH Hp1) as (Hp2 & Hle2 & Hf2 & Ha2).
    split; [exact Hp2|]. split; [lia|]. rewrite X_app, todo_cr_app. split.
    + apply Forall_app. split; [exact Hf1|]. eapply Forall_impl; [|exact Hf2]. cbn beta. intros a Ha. lia.
    + intros h n c lw Hk. apply acct_app. eapply acct_mono; [intros ? ? _ Hr'; exact Hr'| |apply Ha1; exact Hk].
      intros h' n' c' lw' Hk'. apply Ha2. exact Hk'.
Qed.

Lemma post_purge_kfin k1 k' : post_purge k1 k' -> kfin_of k' = kfin_of k1.
Proof. intros (Ho & Hp & _). unfold kfin_of. rewrite Ho, Hp. reflexivity. Qed.

(* ================================================================== the request stream of a state *)
Definition nf_list (o : option wreq) : list wreq := match o with Some r => [r] | None => [] end.
Definition batch_stream (b : batch) : list wreq :=
  match b_pos b with
  | BWrite i => map req_of_ww (skipn i (b_writes b)) ++ nf_list (b_nf b)
  | BUnlink _ | BDone => []
  | _ => nf_list (b_nf b)
  end.
Definition w_stream (w : worker) : list wreq :=
  match w_batch w with Some b => batch_stream b | None => [] end.
Definition stream (z : sys2) : list xeff := map XSend (w_stream (z_w z) ++ z_queue z) ++ z_todo z.

Definition unlink_rem (w : worker) : list N :=
  match w_batch w with
  | Some b => match b_pos b with BUnlink rem => rem | _ => [] end
  | None => []
  end.
(* removals that will be carried out without a further write *)
Definition accepted (w : worker) : list N := w_postponed w ++ unlink_rem w.

Definition zG (z : sys2) := g_removals (z_ghost z).

Record ainv (z : sys2) (Lw : N) (nf : wfile) (ln : N) : Prop := mkAinv {
  a_newest : newest (z_w z) = Some nf;
  a_len : hl (z_disk z) (wf_id nf) = Some ln;
  a_pos : 0 < ln;
  a_acct : acct (zG z) (stream z) (kfin_of (z_core z)) (hl (z_disk z)) (wf_id nf) (wf_id nf + ln) Lw;
  a_lw : Lw <= wf_id nf + ln;
  a_lt : Forall (fun i => i < wf_id nf) (accepted (z_w z));
  a_acc : rm_ok (zG z) (accepted (z_w z)) Lw }.
Definition AInv (z : sys2) (Lw : N) : Prop := exists nf ln, ainv z Lw nf ln.

Lemma todo_rm_sends rs : todo_rm (map XSend rs) = queue_rm rs.
Proof. unfold todo_rm, queue_rm. induction rs as [|r rs IH]; [reflexivity|]. cbn [map flat_map xrm_of]. rewrite IH. reflexivity. Qed.

Lemma queue_rm_writes l : queue_rm (map req_of_ww l) = [].
Proof. unfold queue_rm. induction l as [|w l IH]; [reflexivity|]. cbn [map flat_map req_of_ww rm_of app]. exact IH. Qed.

Lemma queue_rm_nf o : queue_rm (nf_list o) = match o with Some r => rm_of r | None => [] end.
Proof. destruct o; [|reflexivity]. unfold queue_rm. cbn. apply app_nil_r. Qed.

Lemma w_stream_rm w : incl (queue_rm (w_stream w)) (w_rm w).
Proof.
  unfold w_stream, w_rm. destruct (w_batch w) as [b|]; [|intros a []].
  unfold batch_stream, batch_rm. intros a Ha. apply in_or_app. right.
  destruct (b_pos b); try (rewrite queue_rm_nf in Ha; exact Ha); try contradiction.
  rewrite queue_rm_app, queue_rm_writes, queue_rm_nf in Ha. exact Ha.
Qed.

Lemma accepted_rm w : incl (accepted w) (w_rm w).
Proof.
  unfold accepted, unlink_rem, w_rm. intros a Ha. apply in_app_or in Ha as [Ha|Ha]; apply in_or_app; [left; exact Ha|right].
  destruct (w_batch w) as [b|]; [|contradiction]. unfold batch_rm. destruct (b_pos b); try contradiction. exact Ha.
Qed.

(* ids requested by the caller and not yet sent are different from everything the
   worker or the queue still holds, and from everything already deleted *)
Lemma cinv_disj z gone rmw keep id : cinv z gone rmw keep -> In id (k_removed (z_core z)) ->
  In id gone \/ In id (rmw ++ queue_rm (z_queue z) ++ todo_rm (z_todo z)) -> False.
Proof.
  intros Hc Hk Hd. pose proof (ci_sorted _ _ _ _ Hc) as S. rewrite (ci_present _ _ _ _ Hc) in S.
  apply ss_NoDup in S.
  set (A := rmw ++ queue_rm (z_queue z) ++ todo_rm (z_todo z)) in *.
  replace (gone ++ (rmw ++ queue_rm (z_queue z) ++ todo_rm (z_todo z) ++ k_removed (z_core z) ++ keep) ++ todo_cr (z_todo z))
    with ((gone ++ A) ++ k_removed (z_core z) ++ keep ++ todo_cr (z_todo z)) in S
    by (unfold A; rewrite <- !app_assoc; reflexivity).
  eapply nodup_app_disj; [exact S| |apply in_or_app; left; exact Hk].
  apply in_or_app. exact Hd.
Qed.

Lemma cinv_removed_lt z gone rmw keep id : cinv z gone rmw keep -> In id (k_removed (z_core z)) ->
  id < ck_id (k_open (z_core z)).
Proof.
  intros Hc Hk. pose proof (ci_sorted _ _ _ _ Hc) as S. rewrite (ci_present _ _ _ _ Hc) in S.
  rewrite <- !app_assoc in S. do 4 apply ss_suffix in S. rewrite (ci_keep _ _ _ _ Hc) in S.
  apply ss_app_inv in S as (_ & _ & S). apply S; [exact Hk|]. unfold tail_ids. apply in_or_app. right. left. reflexivity.
Qed.

Lemma ainv_zcall z o z' v Lw : Inv z -> w_alive (z_w z) = true -> AInv z Lw ->
  zcall z o = Some (z', v) -> AInv z' Lw.
Proof.
  intros (gone & rmw & keep & Hc) Hal Hz H. pose proof Hz as (nf & ln & [A1 A2 A3 A4 A5 A6 A7]). unfold zcall in H.
  destruct (z_todo z) as [|x t] eqn:Et; [|discriminate]. destruct (z_dropped z) eqn:Ed; [discriminate|].
  unfold stream in A4. rewrite Et, app_nil_r in A4.
  pose proof (ci_core _ _ _ _ Hc) as [Hop _].
  assert (Hsame : forall k', core_eqj (z_core z) k' -> AInv (set_core z k') Lw).
  { intros k' (_ & Eo & Ep & _). exists nf, ln. constructor; zproj; try assumption.
    unfold stream, kfin_of. zproj. rewrite Et, app_nil_r, Eo, Ep. exact A4. }
  destruct o as [w|cb|from to| | | | | |cfg'].
  - (* write *)
    destruct (do_write (z_core z) w) as [[[k r] effs]|] eqn:Ew; [|discriminate].
    inversion H; subst z' v; clear H.
    apply do_write_inv in Ew as (k1 & Hch & Hpp).
    destruct (chain_acct (zG z) _ _ _ Hch Hop) as (_ & _ & _ & Hacc).
    exists nf, ln. constructor; zproj; try assumption.
    unfold stream, zG. zproj. fold (X effs). rewrite (post_purge_kfin _ _ Hpp).
    apply acct_app. eapply acct_mono; [intros ? ? _ Hr'; exact Hr'| |exact A4].
    intros h n c lw Hk. apply Hacc. exact Hk.
  - (* flush *)
    destruct (do_flush (z_core z) cb) as [k effs] eqn:Ef.
    inversion H; subst z' v; clear H. unfold do_flush in Ef. inversion Ef; subst k effs; clear Ef.
    set (kr := k_removed (z_core z)) in *.
    set (E := ck_end (k_open (z_core z))).
    set (G' := match kr with [] => zG z | a :: l => zG z ++ [(a :: l, E)] end).
    assert (HG : forall ids lw, (forall id, In id ids -> In id kr -> False) -> rm_ok (zG z) ids lw -> rm_ok G' ids lw).
    { intros ids lw Hd Hr. unfold G'. destruct kr as [|a rl] eqn:Ekr; [exact Hr|].
      intros l U id Hin Hl Hi. apply in_app_or in Hin as [Hin|[Hin|[]]]; [eapply Hr; eassumption|].
      inversion Hin; subst l U. exfalso. eapply Hd; eassumption. }
    assert (Hrmw : rmw = w_rm (z_w z)) by (apply (ci_alive _ _ _ _ Hc); exact Hal).
    exists nf, ln. constructor; zproj; try assumption.
    + unfold stream, zG. zproj. fold G'. apply acct_app.
      eapply acct_mono; [| |exact A4].
      * intros ids lw Hi. apply HG. intros id Hid Hk. eapply cinv_disj; [exact Hc|exact Hk|]. right.
        specialize (Hi _ Hid). rewrite todo_rm_sends, queue_rm_app in Hi.
        apply in_app_or in Hi as [Hi|Hi]; [apply w_stream_rm in Hi; rewrite Hrmw; in_app|in_app].
      * intros h n c lw (K1 & K2 & K3). unfold kfin_of in *. zproj. cbn [k_open k_pending].
        fold kr. fold E in K2 |- *.
        assert (Hfin : kfin (ck_id (k_open (z_core z))) E (blen []) h n E E).
        { split; [exact K1|split; [change (blen []) with 0; lia|exact K3]]. }
        destruct kr as [|a rl] eqn:Ekr; cbn [flat_map expand_eff app acct].
        -- split; [exact K2|exact Hfin].
        -- split; [exact K2|]. split; [|split; [|exact Hfin]].
           ++ intros l U id Hin Hl Hi. unfold G' in Hin. apply in_app_or in Hin as [Hin|[Hin|[]]].
              ** exfalso. eapply cinv_disj; [exact Hc|fold kr; rewrite Ekr; exact Hi|].
                 eapply (ci_removed _ _ _ _ Hc); eassumption.
              ** inversion Hin; subst. lia.
           ++ rewrite Forall_forall. intros id Hi. rewrite K1. eapply cinv_removed_lt; [exact Hc|].
              fold kr. rewrite Ekr. exact Hi.
    + unfold zG. zproj. fold G'. apply HG; [|exact A7].
      intros id Hid Hk. eapply cinv_disj; [exact Hc|exact Hk|]. right.
      apply accepted_rm in Hid. rewrite Hrmw. in_app.
  - destruct (do_read (z_core z) (z_disk z) from to) as [k items] eqn:Er.
    inversion H; subst z' v; clear H. apply Hsame.
    pose proof (do_read_eqj (z_core z) (z_disk z) from to) as E. rewrite Er in E. exact E.
  - inversion H; subst z' v. exact Hz.
  - inversion H; subst z' v. exact Hz.
  - inversion H; subst z' v. exact Hz.
  - destruct (z_queue z); [|discriminate]. destruct (worker_quiet z); [|discriminate].
    inversion H; subst z' v. exact Hz.
  - inversion H; subst z' v; clear H. apply Hsame. apply core_eqj_cache.
  - discriminate.
Qed.

Lemma hl_put_new d id j : hl (disk_put (mkFile id [] 0) d) j = upd (hl d) id (Some 0) j.
Proof. unfold hl, upd. rewrite disk_get_put. cbn [f_id]. destruct (N.eqb j id); reflexivity. Qed.

Lemma hl_append d id data l j : hl d id = Some l ->
  hl (disk_append id data d) j = upd (hl d) id (Some (l + blen data)) j.
Proof.
  unfold hl, upd. intros H. rewrite disk_get_append.
  destruct (disk_get id d) as [g|] eqn:E; [|discriminate]. inversion H; subst l.
  destruct (N.eqb j id); [|reflexivity]. cbn [f_data]. rewrite blen_app. reflexivity.
Qed.

Lemma hl_append_none d id data j : hl d id = None -> hl (disk_append id data d) j = hl d j.
Proof.
  unfold hl. intros H. rewrite disk_get_append. destruct (disk_get id d) as [g|] eqn:E; [discriminate|reflexivity].
Qed.

Lemma hl_sync d id j : hl (disk_sync id d) j = hl d j.
Proof.
  unfold hl. rewrite disk_get_sync. destruct (disk_get id d) as [g|] eqn:E; [|reflexivity].
  destruct (N.eqb_spec j id) as [Ej|Ej]; [|reflexivity]. subst j. rewrite E. reflexivity.
Qed.

Lemma hl_remove d id j : hl (disk_remove id d) j = if N.eqb j id then None else hl d j.
Proof. unfold hl. rewrite disk_get_remove. destruct (N.eqb j id); reflexivity. Qed.

Lemma ainv_zeff z z' v Lw : AInv z Lw -> zeff z = Some (z', v) -> AInv z' Lw.
Proof.
  intros (nf & ln & [A1 A2 A3 A4 A5 A6 A7]) H. unfold zeff in H.
  destruct (z_todo z) as [|x t] eqn:Et; [discriminate|].
  unfold stream in A4. rewrite Et in A4. apply acct_app in A4.
  destruct x as [id|id data|r]; inversion H; subst z' v; clear H.
  - (* create *)
    destruct (acct_sends_end _ _ _ _ _ _ _ A4) as (n' & c' & lw' & (K1 & K2 & _) & Hc' & Hn').
    exists nf, ln. constructor; zproj; try assumption.
    + rewrite hl_put_new. unfold upd. destruct (N.eqb_spec (wf_id nf) id); [lia|exact A2].
    + unfold stream. zproj. apply acct_app.
      eapply acct_ext with (h := upd (hl (z_disk z)) id (Some 0)).
      * intros h h' n c lw He Hk. eapply acct_ext; [apply kfin_ext|exact He|exact Hk].
      * intros j _. symmetry. apply hl_put_new.
      * eapply acct_sends_upd; [|exact A4]. intros n c lw Hk. exact Hk.
  - (* head *)
    destruct (acct_sends_end _ _ _ _ _ _ _ A4) as (n' & c' & lw' & (K1 & K2 & l & K3 & _) & Hc' & Hn').
    exists nf, ln. constructor; zproj; try assumption.
    + rewrite (hl_append _ _ _ _ _ K3). unfold upd. destruct (N.eqb_spec (wf_id nf) id); [lia|exact A2].
    + unfold stream. zproj. apply acct_app.
      eapply acct_ext with (h := upd (hl (z_disk z)) id (Some (l + blen data))).
      * intros h h' n c lw He Hk. eapply acct_ext; [apply kfin_ext|exact He|exact Hk].
      * intros j _. symmetry. apply hl_append. exact K3.
      * eapply acct_sends_upd; [|exact A4]. intros n c lw (Q1 & Q2 & l2 & Q3 & Q4).
        split; [exact Q1|split; [exact Q2|]]. rewrite K3 in Q3. inversion Q3; subst l2. exact Q4.
  - (* send *)
    exists nf, ln. constructor; zproj; try assumption.
    unfold stream. zproj. rewrite app_assoc, map_app, <- app_assoc. cbn [map app].
    apply acct_app. exact A4.
Qed.

Lemma ainv_zrecv z k nf0 z' v Lw : AInv z Lw -> zrecv z k nf0 = Some (z', v) -> AInv z' Lw.
Proof.
  intros (nf & ln & [A1 A2 A3 A4 A5 A6 A7]) H. unfold zrecv in H.
  destruct (z_w z) as [wf al ba sf pp] eqn:Ew. zproj.
  destruct al; [|discriminate]. destruct ba as [b|]; [discriminate|].
  destruct (z_queue z) as [|r q] eqn:Eq; [discriminate|].
  unfold stream in A4. rewrite Ew, Eq in A4. unfold w_stream in A4. zproj. cbn [app] in A4.
  unfold accepted, unlink_rem in A6, A7. zproj.
  assert (Hfin : forall onf q' ws pos, r :: q = batch_stream (mkBatch ws onf pos true) ++ q' ->
            (forall rem, pos <> BUnlink rem) ->
            AInv (set_w (set_queue z q') (mkWorker wf true (Some (mkBatch ws onf pos true)) sf pp)) Lw).
  { intros onf q' ws pos Hq Hp. exists nf, ln. constructor; zproj; try assumption.
    - unfold stream, w_stream. zproj. rewrite <- Hq. exact A4.
    - unfold accepted, unlink_rem. zproj. destruct pos; try exact A6. exfalso. eapply Hp. reflexivity.
    - unfold accepted, unlink_rem. zproj. destruct pos; try exact A7. exfalso. eapply Hp. reflexivity. }
  destruct r as [u data cb|off prev|rids].
  - destruct (take_writes k q) as [[ws rest]|] eqn:Et; [|discriminate].
    apply take_writes_spec in Et.
    destruct nf0.
    + destruct rest as [|r2 rest2]; [discriminate|].
      destruct r2 as [u2 d2 c2|off2 prev2|rids2]; [discriminate| |];
        inversion H; subst z' v; clear H; unfold w_set_batch; zproj;
        apply Hfin; try discriminate;
        unfold batch_stream; zproj; cbn [skipn map req_of_ww ww_upto ww_data ww_cb nf_list app];
        rewrite Et, <- app_assoc; reflexivity.
    + assert (H' : Some (set_w (set_queue z rest)
                (w_set_batch (mkWorker wf true None sf pp) (Some (mkBatch (mkWW u data cb :: ws) None (BWrite 0) true))), @nil vis)
                = Some (z', v)) by (destruct rest as [|[] ?]; exact H).
      inversion H'; subst z' v; clear H H'. unfold w_set_batch; zproj.
      apply Hfin; try discriminate.
      unfold batch_stream; zproj; cbn [skipn map req_of_ww ww_upto ww_data ww_cb nf_list app].
      rewrite Et, app_nil_r. reflexivity.
  - destruct (Nat.eqb k 0 && negb nf0); [|discriminate].
    inversion H; subst z' v; clear H. unfold w_set_batch; zproj.
    apply Hfin; try discriminate. reflexivity.
  - destruct (Nat.eqb k 0 && negb nf0); [|discriminate].
    inversion H; subst z' v; clear H. unfold w_set_batch; zproj.
    apply Hfin; try discriminate. reflexivity.
Qed.

(* ================================================================== worker actions *)
Lemma rm_ok_le G ids lw lw' : lw <= lw' -> rm_ok G ids lw -> rm_ok G ids lw'.
Proof. intros Hle H l U id H1 H2 H3. specialize (H _ _ _ H1 H2 H3). lia. Qed.

Lemma rm_ok_incl G ids ids' lw : incl ids' ids -> rm_ok G ids lw -> rm_ok G ids' lw.
Proof. intros Hi H l U id H1 H2 H3. eapply H; [exact H1|exact H2|apply Hi; exact H3]. Qed.

Lemma rm_ok_app G a b lw : rm_ok G a lw -> rm_ok G b lw -> rm_ok G (a ++ b) lw.
Proof. intros Ha Hb l U id H1 H2 H3. apply in_app_or in H3 as [H3|H3]; [eapply Ha|eapply Hb]; eassumption. Qed.

Lemma Forall_incl {A} (P : A -> Prop) l l' : incl l' l -> Forall P l -> Forall P l'.
Proof. intros Hi H. rewrite Forall_forall in *. intros x Hx. apply H, Hi, Hx. Qed.

Lemma newest_files wf al ba sf pp : newest (mkWorker wf al ba sf pp) = match rev wf with f :: _ => Some f | [] => None end.
Proof. reflexivity. Qed.

Lemma rev_head_tail {A} (f : A) l : l <> [] ->
  match rev (f :: l) with x :: _ => Some x | [] => None end = match rev l with x :: _ => Some x | [] => None end.
Proof.
  intros Hl. cbn [rev]. destruct (rev l) as [|x r] eqn:E; [|reflexivity].
  exfalso. apply Hl. rewrite <- (rev_involutive l), E. reflexivity.
Qed.

Definition new_lw (z : sys2) (Lw : N) : N :=
  match w_batch (z_w z) with
  | Some b =>
    match b_pos b with
    | BWrite i => match nth_error (b_writes b) i with Some ww => ww_upto ww | None => Lw end
    | _ => Lw
    end
  | None => Lw
  end.

Lemma ainv_same z z' Lw nf ln : ainv z Lw nf ln -> newest (z_w z') = Some nf ->
  (forall j, hl (z_disk z') j = hl (z_disk z) j) -> stream z' = stream z -> zG z' = zG z ->
  kfin_of (z_core z') = kfin_of (z_core z) -> incl (accepted (z_w z')) (accepted (z_w z)) ->
  ainv z' Lw nf ln.
Proof.
  intros [A1 A2 A3 A4 A5 A6 A7] Hn Hh Hs Hg Hk Hi. constructor; try assumption.
  - rewrite Hh. exact A2.
  - rewrite Hs, Hg, Hk. eapply acct_ext; [apply kfin_ext| |exact A4]. intros j _. symmetry. apply Hh.
  - eapply Forall_incl; eassumption.
  - rewrite Hg. eapply rm_ok_incl; eassumption.
Qed.

Lemma ainv_remove z z' Lw nf ln id : ainv z Lw nf ln -> newest (z_w z') = Some nf ->
  z_disk z' = disk_remove id (z_disk z) -> In id (accepted (z_w z)) ->
  stream z' = stream z -> zG z' = zG z ->
  kfin_of (z_core z') = kfin_of (z_core z) -> incl (accepted (z_w z')) (accepted (z_w z)) ->
  ainv z' Lw nf ln.
Proof.
  intros [A1 A2 A3 A4 A5 A6 A7] Hn Hd Hid Hs Hg Hk Hi.
  assert (Hlt : id < wf_id nf). { rewrite Forall_forall in A6. apply A6. exact Hid. }
  constructor; try assumption.
  - rewrite Hd, hl_remove. destruct (N.eqb_spec (wf_id nf) id); [lia|exact A2].
  - rewrite Hs, Hg, Hk, Hd. eapply acct_ext; [apply kfin_ext| |exact A4].
    intros j Hj. rewrite hl_remove. destruct (N.eqb_spec j id); [lia|reflexivity].
  - eapply Forall_incl; eassumption.
  - rewrite Hg. eapply rm_ok_incl; eassumption.
Qed.

Ltac wk_inv H := inversion H; subst; clear H; zproj.
Ltac same_tac A := eapply ainv_same; [exact A|..]; zproj; try assumption; try reflexivity;
  try (unfold accepted, unlink_rem; zproj; apply incl_refl).

Lemma ainv_zwork z ok z' v Lw : AInv z Lw -> zwork z ok = Some (z', v) -> w_alive (z_w z') = true ->
  AInv z' (new_lw z Lw) /\ Lw <= new_lw z Lw.
Proof.
  intros (nfile & ln & A) H Hal'. pose proof A as [A1 A2 A3 A4 A5 A6 A7].
  unfold zwork in H. unfold new_lw.
  destruct z as [k t d q w a dr g]. zproj.
  destruct w as [wf al ba sf pp]. zproj.
  destruct al; [|discriminate]. destruct ba as [b|]; [|discriminate].
  destruct b as [ws nf pos bok]. zproj.
  unfold stream, w_stream, batch_stream in A4. zproj.
  destruct pos as [i| | | |i| | |rem|].
  - (* BWrite *)
    destruct (nth_error ws i) as [ww|] eqn:En.
    + rewrite (skipn_nth_cons _ _ _ En) in A4. cbn [map app req_of_ww acct] in A4. destruct A4 as [Hu A4].
      destruct (ww_data ww) as [|x data] eqn:Ed.
      * wk_inv H. change (blen []) with 0 in Hu. split; [|lia].
        exists nfile, ln. constructor; zproj; try assumption.
        -- unfold stream, w_stream, batch_stream. zproj. replace (wf_id nfile + ln) with (ww_upto ww) by lia. exact A4.
        -- lia.
        -- eapply rm_ok_le; [|exact A7]. lia.
      * rewrite A1 in H. destruct ok; [|wk_inv H; discriminate]. wk_inv H.
        set (data' := x :: data) in *. split; [|lia].
        exists nfile, (ln + blen data'). constructor; zproj; try assumption.
        -- rewrite (hl_append _ _ _ _ _ A2). unfold upd. rewrite N.eqb_refl. reflexivity.
        -- lia.
        -- unfold stream, w_stream, batch_stream. zproj.
           replace (wf_id nfile + (ln + blen data')) with (ww_upto ww) by lia.
           eapply acct_ext; [apply kfin_ext| |exact A4].
           intros j Hj. rewrite (hl_append _ _ _ _ _ A2). unfold upd. destruct (N.eqb_spec j (wf_id nfile)); [lia|reflexivity].
        -- lia.
        -- eapply rm_ok_le; [|exact A7]. lia.
    + wk_inv H. split; [|lia]. exists nfile, ln. same_tac A.
      unfold stream, w_stream, batch_stream. zproj. rewrite (skipn_nth_none _ _ En). reflexivity.
  - (* BSyncOld *)
    split; [|lia]. destruct wf as [|f [|f2 rest]].
    + wk_inv H. exists nfile, ln. same_tac A.
    + wk_inv H. exists nfile, ln. same_tac A.
    + destruct ok.
      * wk_inv H. exists nfile, ln. same_tac A.
        -- rewrite newest_files in *. rewrite <- A1. symmetry. apply rev_head_tail. discriminate.
        -- intros j. apply hl_sync.
      * wk_inv H. exists nfile, ln. same_tac A.
  - (* BSetEvict *)
    split; [|lia]. destruct wf as [|f rest]; [discriminate|]. wk_inv H. exists nfile, ln. same_tac A.
  - (* BSyncNew *)
    split; [|lia]. destruct wf as [|f rest]; [discriminate|]. destruct ok.
    + wk_inv H. exists nfile, ln. same_tac A. intros j. apply hl_sync.
    + wk_inv H. exists nfile, ln. same_tac A.
  - (* BCallbacks *)
    split; [|lia]. destruct (nth_error ws i) as [ww|].
    + destruct (ww_cb ww) as [c|]; wk_inv H; exists nfile, ln; same_tac A.
    + wk_inv H. exists nfile, ln. same_tac A.
  - (* BPostponed *)
    split; [|lia]. destruct sf.
    + wk_inv H. exists nfile, ln. same_tac A.
    + destruct pp as [|id rest].
      * wk_inv H. exists nfile, ln. same_tac A.
      * destruct ok; [|wk_inv H; discriminate]. wk_inv H. exists nfile, ln.
        eapply ainv_remove with (id := id); [exact A|..]; zproj; try assumption; try reflexivity;
          unfold accepted, unlink_rem; zproj.
        -- left. reflexivity.
        -- intros x Hx. right. exact Hx.
  - (* BNonFlush *)
    split; [|lia]. destruct nf as [[u data cb|off prev|rids]|].
    + discriminate.
    + wk_inv H. cbn [nf_list map app acct] in A4.
      destruct A4 as (H1 & H2 & H3 & l & H4 & H5 & H6).
      exists (mkWF off prev), l. constructor; unfold w_set_pos, w_set_batch; zproj; cbn [wf_id]; try assumption.
      * rewrite newest_files, rev_unit. reflexivity.
      * lia.
      * unfold accepted, unlink_rem in *. zproj. eapply Forall_impl; [|exact A6]. cbn beta. intros x Hx. lia.
    + cbn [nf_list map app acct] in A4. destruct A4 as (H1 & H2 & H3).
      unfold accepted, unlink_rem in A6, A7. zproj. rewrite app_nil_r in A6, A7.
      destruct sf; wk_inv H; exists nfile, ln; constructor; zproj; try assumption;
        unfold stream, w_stream, batch_stream, accepted, unlink_rem; zproj; rewrite ?app_nil_r;
        try exact H3; try (apply Forall_app; split; assumption); try (apply rm_ok_app; assumption).
    + wk_inv H. exists nfile, ln. same_tac A.
  - (* BUnlink *)
    split; [|lia]. destruct rem as [|id rest].
    + wk_inv H. exists nfile, ln. same_tac A.
    + destruct ok; [|wk_inv H; discriminate]. wk_inv H. exists nfile, ln.
      eapply ainv_remove with (id := id); [exact A|..]; zproj; try assumption; try reflexivity;
          unfold accepted, unlink_rem; zproj.
      * apply in_or_app. right. left. reflexivity.
      * intros x Hx. apply in_app_or in Hx as [Hx|Hx]; apply in_or_app; [left; exact Hx|right; right; exact Hx].
  - (* BDone *)
    split; [|lia]. wk_inv H. exists nfile, ln. same_tac A.
Qed.

(* ================================================================== synced lengths under disk operations *)
Lemma fsy_append i x d j : fsy (disk_append i x d) j = fsy d j.
Proof.
  unfold fsy. rewrite disk_get_append. destruct (disk_get i d) as [g|] eqn:E; [|reflexivity].
  destruct (N.eqb_spec j i) as [Ej|Ej]; [|reflexivity]. subst j. rewrite E. reflexivity.
Qed.

Lemma fln_append_other i x d j : j <> i -> fln (disk_append i x d) j = fln d j.
Proof.
  intros Hj. unfold fln. rewrite disk_get_append. destruct (disk_get i d) as [g|] eqn:E; [|reflexivity].
  destruct (N.eqb_spec j i); [contradiction|reflexivity].
Qed.

Lemma fsy_sync i d j : fsy (disk_sync i d) j = if N.eqb j i then fln d i else fsy d j.
Proof.
  unfold fsy, fln. rewrite disk_get_sync. destruct (disk_get i d) as [g|] eqn:E.
  - destruct (N.eqb j i); reflexivity.
  - destruct (N.eqb_spec j i) as [Ej|Ej]; [subst j; rewrite E|]; reflexivity.
Qed.

Lemma fln_sync i d j : fln (disk_sync i d) j = fln d j.
Proof.
  unfold fln. rewrite disk_get_sync. destruct (disk_get i d) as [g|] eqn:E; [|reflexivity].
  destruct (N.eqb_spec j i) as [Ej|Ej]; [|reflexivity]. subst j. rewrite E. reflexivity.
Qed.

Lemma fsy_remove i d j : j <> i -> fsy (disk_remove i d) j = fsy d j.
Proof. intros Hj. unfold fsy. rewrite disk_get_remove. destruct (N.eqb_spec j i); [contradiction|reflexivity]. Qed.
Lemma fln_remove i d j : j <> i -> fln (disk_remove i d) j = fln d j.
Proof. intros Hj. unfold fln. rewrite disk_get_remove. destruct (N.eqb_spec j i); [contradiction|reflexivity]. Qed.

Lemma fsy_put_other f d j : j <> f_id f -> fsy (disk_put f d) j = fsy d j.
Proof. intros Hj. unfold fsy. rewrite disk_get_put. destruct (N.eqb_spec j (f_id f)); [contradiction|reflexivity]. Qed.
Lemma fln_put_other f d j : j <> f_id f -> fln (disk_put f d) j = fln d j.
Proof. intros Hj. unfold fln. rewrite disk_get_put. destruct (N.eqb_spec j (f_id f)); [contradiction|reflexivity]. Qed.

Lemma fsy_le_fln d j : Forall synced_le d -> fsy d j <= fln d j.
Proof.
  intros H. unfold fsy, fln. destruct (disk_get j d) as [f|] eqn:E; [|lia].
  apply JournalDisk.disk_get_In in E. rewrite Forall_forall in H. apply (H f E).
Qed.

Definition durd (d : disk) (U : N) : Prop := dur_ids (fsy d) (ids d) U.

Lemma durd_append i x d U : dsorted d -> durd d U -> durd (disk_append i x d) U.
Proof.
  intros S H. unfold durd. rewrite ids_append by exact S.
  eapply dur_ids_mono; [|exact H]. intros j _. rewrite fsy_append. lia.
Qed.

Lemma durd_sync i d U : dsorted d -> Forall synced_le d -> durd d U -> durd (disk_sync i d) U.
Proof.
  intros S Hle H. unfold durd. rewrite ids_sync by exact S.
  eapply dur_ids_mono; [|exact H]. intros j _. rewrite fsy_sync.
  destruct (N.eqb_spec j i) as [E|E]; [subst j; apply fsy_le_fln; exact Hle|lia].
Qed.

Lemma durd_remove_head id l d U : dsorted d -> ids d = id :: l -> durd d U -> durd (disk_remove id d) U.
Proof.
  intros S E H. unfold durd in *. unfold dsorted in S. rewrite E in S.
  rewrite (ids_remove_head _ _ _ E S). rewrite E in H. apply dur_ids_tail in H.
  eapply dur_ids_mono; [|exact H]. intros j Hj. rewrite fsy_remove; [lia|].
  apply ss_inv in S as [_ S]. rewrite Forall_forall in S. specialize (S _ Hj). lia.
Qed.

Lemma durd_create id d U : Forall (fun j => j < id) (ids d) -> U <= id -> durd d U ->
  durd (disk_put (mkFile id [] 0) d) U.
Proof.
  intros F Hle H. unfold durd in *. rewrite disk_put_last by exact F.
  replace (ids (d ++ [mkFile id [] 0])) with (ids d ++ [id]) by (unfold ids; rewrite map_app; reflexivity).
  apply dur_ids_snoc; [exact Hle|]. eapply dur_ids_mono; [|exact H].
  intros j Hj. rewrite <- disk_put_last by exact F. rewrite fsy_put_other; [lia|].
  cbn [f_id]. rewrite Forall_forall in F. specialize (F _ Hj). lia.
Qed.

Lemma removed_after_durable_of d U : dsorted d -> durd d U -> durable_upto d U.
Proof. intros S H. apply durable_upto_ids; assumption. Qed.

(* ================================================================== the sync invariant *)
Definition late (w : worker) : Prop :=
  match w_batch w with
  | None => True
  | Some b => match b_pos b with
              | BCallbacks _ | BPostponed | BNonFlush | BUnlink _ | BDone => True
              | _ => False
              end
  end.

(* after the loop over the older files only the newest file is tracked *)
Definition sync_tail (w : worker) : Prop :=
  match w_batch w with
  | Some b => match b_pos b with BSetEvict | BSyncNew => exists f, w_files w = [f] | _ => True end
  | None => True
  end.

Record winv (z : sys2) (Lw : N) : Prop := mkWinv {
  w_ainv : AInv z Lw;
  w_old : forall nf, newest (z_w z) = Some nf ->
          old_ids (fsy (z_disk z)) (fln (z_disk z)) (map wf_id (w_files (z_w z))) (wf_id nf) (ids (z_disk z));
  w_tail : sync_tail (z_w z);
  w_clean : w_sync_failed (z_w z) = false -> late (z_w z) -> durd (z_disk z) Lw }.

Record sinv (z : sys2) (Lw : N) : Prop := mkSinv {
  s_le : Forall synced_le (z_disk z);
  s_u3 : forall l U, In (l, U) (zG z) ->
         (durd (z_disk z) U /\ U <= Lw) \/ (forall id, In id l -> In id (ids (z_disk z)));
  s_bound : Lw <= ck_end (k_open (z_core z)) /\ Forall (fun x => Lw <= x) (todo_cr (z_todo z));
  s_alive : w_alive (z_w z) = true -> winv z Lw }.

Definition DInv (z : sys2) : Prop := Inv z /\ exists Lw, sinv z Lw.

Lemma todo_cr_sends rs : todo_cr (map XSend rs) = [].
Proof. unfold todo_cr. induction rs as [|r rs IH]; [reflexivity|]. cbn [map flat_map xcr_of app]. exact IH. Qed.

Lemma ainv_bound z Lw : AInv z Lw ->
  Lw <= ck_end (k_open (z_core z)) /\ Forall (fun x => Lw <= x) (todo_cr (z_todo z)).
Proof.
  intros (nf & ln & [A1 A2 A3 A4 A5 A6 A7]). unfold kfin_of in A4. apply acct_bound in A4 as [B1 B2].
  unfold stream in B2. rewrite todo_cr_app, todo_cr_sends in B2. cbn [app] in B2.
  split; [lia|]. eapply Forall_impl; [|exact B2]. cbn beta. intros a Ha. lia.
Qed.

Lemma ainv_todo_ge z Lw nf ln id t : ainv z Lw nf ln ->
  (z_todo z = XCreate id :: t \/ exists data, z_todo z = XWriteHead id data :: t) -> wf_id nf < id.
Proof.
  intros [A1 A2 A3 A4 A5 A6 A7] Ht. unfold stream in A4. apply acct_app in A4.
  apply acct_sends_end in A4 as (n' & c' & lw' & Hk & Hc & Hn).
  destruct Ht as [Et|[data Et]]; rewrite Et in Hk; cbn [acct] in Hk.
  - destruct Hk as (_ & Hk & _). lia.
  - destruct Hk as (_ & Hk & _). lia.
Qed.

Lemma newest_in w nf : newest w = Some nf -> In nf (w_files w).
Proof.
  unfold newest. destruct (rev (w_files w)) as [|f r] eqn:E; [discriminate|]. intros H. inversion H; subst f.
  apply in_rev. rewrite E. left. reflexivity.
Qed.

(* ---- caller events ---- *)
Lemma sinv_zcall z o z' v Lw : Inv z -> sinv z Lw -> zcall z o = Some (z', v) -> sinv z' Lw.
Proof.
  intros Hinv Hs H. pose proof Hs as [S1 S2 S3 S4]. pose proof Hinv as (gone & rmw & keep & Hc).
  assert (Hal : w_alive (z_w z) = true -> AInv z' Lw).
  { intros Ha. eapply ainv_zcall; [exact Hinv|exact Ha|apply (w_ainv _ _ (S4 Ha))|exact H]. }
  unfold zcall in H.
  destruct (z_todo z) as [|x t] eqn:Et; [|discriminate]. destruct (z_dropped z) eqn:Ed; [discriminate|].
  pose proof (ci_core _ _ _ _ Hc) as [Hop _].
  assert (Hsame : forall k', core_eqj (z_core z) k' -> (w_alive (z_w z) = true -> AInv (set_core z k') Lw) ->
            sinv (set_core z k') Lw).
  { intros k' (_ & Eo & _) Ha. constructor; zproj; try assumption.
    - rewrite Eo, Et. exact S3.
    - intros Hw. specialize (S4 Hw). destruct S4 as [W1 W2 W3 W4]. constructor; zproj; try assumption. apply Ha. exact Hw. }
  destruct o as [w|cb|from to| | | | | |cfg'].
  - destruct (do_write (z_core z) w) as [[[k r] effs]|] eqn:Ew; [|discriminate].
    inversion H; subst z' v; clear H.
    apply do_write_inv in Ew as (k1 & Hch & (Eo & _)).
    destruct (chain_acct [] _ _ _ Hch Hop) as (_ & Hle & Hf & _).
    constructor; zproj; try assumption.
    + fold (X effs). rewrite Eo. split; [lia|]. eapply Forall_impl; [|exact Hf]. cbn beta. intros a Ha. lia.
    + intros Hw. specialize (S4 Hw). destruct S4 as [W1 W2 W3 W4]. constructor; zproj; try assumption. apply Hal. exact Hw.
  - destruct (do_flush (z_core z) cb) as [k effs] eqn:Ef.
    inversion H; subst z' v; clear H.
    pose proof (do_flush_ok _ _ _ _ (ci_core _ _ _ _ Hc) Ef) as (_ & _ & _ & Mc & _).
    unfold do_flush in Ef. inversion Ef; subst k effs; clear Ef.
    constructor; zproj; try assumption.
    + unfold zG. zproj. intros l U Hin.
      destruct (k_removed (z_core z)) as [|a rl] eqn:Er; [apply S2; exact Hin|].
      apply in_app_or in Hin as [Hin|[Hin|[]]]; [apply S2; exact Hin|].
      inversion Hin; subst l U. right. intros id Hid.
      rewrite (ci_present _ _ _ _ Hc), Er. in_app.
    + cbn [k_open]. split; [apply S3|]. fold (X (ESend (WWrite (ck_end (k_open (z_core z))) (k_pending (z_core z))
            (if cb then Some (k_next_cb (z_core z)) else None)) :: match k_removed (z_core z) with [] => [] | n :: l => [ESend (WRemove (n :: l))] end)).
      rewrite Mc. constructor.
    + intros Hw. specialize (S4 Hw). destruct S4 as [W1 W2 W3 W4]. constructor; zproj; try assumption. apply Hal. exact Hw.
  - destruct (do_read (z_core z) (z_disk z) from to) as [k items] eqn:Er.
    inversion H; subst z' v; clear H. apply Hsame; [|exact Hal].
    pose proof (do_read_eqj (z_core z) (z_disk z) from to) as E. rewrite Er in E. exact E.
  - inversion H; subst z' v. exact Hs.
  - inversion H; subst z' v. exact Hs.
  - inversion H; subst z' v. exact Hs.
  - destruct (z_queue z); [|discriminate]. destruct (worker_quiet z); [|discriminate].
    inversion H; subst z' v. exact Hs.
  - inversion H; subst z' v; clear H. apply Hsame; [apply core_eqj_cache|exact Hal].
  - discriminate.
Qed.

Lemma sinv_zeff z z' v Lw : Inv z -> sinv z Lw -> zeff z = Some (z', v) -> sinv z' Lw.
Proof.
  intros Hinv Hs H. pose proof Hs as [S1 S2 S3 S4]. pose proof Hinv as (gone & rmw & keep & Hc).
  pose proof (cinv_dsorted _ _ _ _ Hc) as Sd.
  assert (Hal : w_alive (z_w z) = true -> AInv z' Lw).
  { intros Ha. eapply ainv_zeff; [apply (w_ainv _ _ (S4 Ha))|exact H]. }
  assert (Hle : Forall synced_le (z_disk z')).
  { eapply synced_le_step; [|exact S1]. eapply (zstep_disk z ZEff). exact H. }
  unfold zeff in H. destruct (z_todo z) as [|x t] eqn:Et; [discriminate|].
  destruct x as [id|id data|r]; inversion H; subst z' v; clear H; zproj.
  - (* create *)
    assert (F : Forall (fun j => j < id) (ids (z_disk z))).
    { pose proof (ci_sorted _ _ _ _ Hc) as S. rewrite Et in S. apply ss_suffix in S.
      cbn [todo_cr flat_map xcr_of app] in S. apply ss_app_inv in S as (_ & _ & S).
      rewrite Forall_forall. intros j Hj. apply S; [exact Hj|left; reflexivity]. }
    assert (Hid : Lw <= id).
    { destruct S3 as [_ S3]. cbn [todo_cr flat_map xcr_of app] in S3. inversion S3; assumption. }
    assert (Hput : disk_put (mkFile id [] 0) (z_disk z) = z_disk z ++ [mkFile id [] 0]) by (apply disk_put_last; exact F).
    assert (Hids : ids (disk_put (mkFile id [] 0) (z_disk z)) = ids (z_disk z) ++ [id]).
    { rewrite Hput. unfold ids. rewrite map_app. reflexivity. }
    constructor; zproj; try assumption.
    + intros l U Hin. destruct (S2 _ _ Hin) as [[D1 D2]|D].
      * left. split; [apply durd_create; [exact F|lia|exact D1]|exact D2].
      * right. intros j Hj. rewrite Hids. apply in_or_app. left. apply D. exact Hj.
    + split; [apply S3|]. destruct S3 as [_ S3]. cbn [todo_cr flat_map xcr_of app] in S3. inversion S3; assumption.
    + intros Hw. specialize (S4 Hw). destruct S4 as [W1 W2 W3 W4]. constructor; zproj; try assumption.
      * apply Hal. exact Hw.
      * intros nf Hn. specialize (W2 nf Hn). rewrite Hids.
        destruct W1 as (nf' & ln & A). pose proof (a_newest _ _ _ _ A) as Hn'. rewrite Hn in Hn'. inversion Hn'; subst nf'.
        apply old_ids_snoc.
        -- pose proof (hl_some_in _ _ _ (a_len _ _ _ _ A)) as Hin'. rewrite Forall_forall in F. apply F. exact Hin'.
        -- eapply old_ids_ext; [| |exact W2].
           ++ intros i Hi _. rewrite fsy_put_other; [lia|]. cbn [f_id]. rewrite Forall_forall in F. specialize (F _ Hi). lia.
           ++ intros i Hi _ Ht. left. split; [exact Ht|]. rewrite fln_put_other; [reflexivity|].
              cbn [f_id]. rewrite Forall_forall in F. specialize (F _ Hi). lia.
      * intros Hsf Hl. apply durd_create; [exact F|exact Hid|]. apply W4; assumption.
  - (* head *)
    constructor; zproj.
    + exact Hle.
    + intros l U Hin. destruct (S2 _ _ Hin) as [[D1 D2]|D].
      * left. split; [apply durd_append; assumption|exact D2].
      * right. intros j Hj. rewrite ids_append by exact Sd. apply D. exact Hj.
    + split; [apply S3|]. destruct S3 as [_ S3]. exact S3.
    + intros Hw. specialize (S4 Hw). destruct S4 as [W1 W2 W3 W4]. constructor; zproj; try assumption.
      * apply Hal. exact Hw.
      * intros nf Hn. specialize (W2 nf Hn). rewrite ids_append by exact Sd.
        destruct W1 as (nf' & ln & A). pose proof (a_newest _ _ _ _ A) as Hn'. rewrite Hn in Hn'. inversion Hn'; subst nf'.
        assert (Hlt : wf_id nf < id) by (eapply ainv_todo_ge; [exact A|right; eexists; exact Et]).
        eapply old_ids_ext; [| |exact W2].
        -- intros i _ _. rewrite fsy_append. lia.
        -- intros i _ Hi Ht. left. split; [exact Ht|]. apply fln_append_other. lia.
      * intros Hsf Hl. apply durd_append; [exact Sd|]. apply W4; assumption.
  - (* send *)
    constructor; zproj.
    + exact Hle.
    + exact S2.
    + split; [apply S3|]. destruct S3 as [_ S3]. exact S3.
    + intros Hw. specialize (S4 Hw). destruct S4 as [W1 W2 W3 W4]. constructor; zproj; try assumption. apply Hal. exact Hw.
Qed.

Lemma zrecv_shape z k nf z' v : zrecv z k nf = Some (z', v) ->
  exists b q', z' = set_w (set_queue z q')
                     (mkWorker (w_files (z_w z)) true (Some b) (w_sync_failed (z_w z)) (w_postponed (z_w z))) /\
            (b_pos b = BWrite 0 \/ b_pos b = BNonFlush) /\ w_batch (z_w z) = None /\ w_alive (z_w z) = true /\
            (forall u d c, b_nf b <> Some (WWrite u d c)).
Proof.
  intros H. unfold zrecv in H.
  destruct (z_w z) as [wf al ba sf pp] eqn:Ew. zproj.
  destruct al; [|discriminate]. destruct ba as [b|]; [discriminate|].
  destruct (z_queue z) as [|r q] eqn:Eq; [discriminate|].
  destruct r as [u data cb|off prev|rids].
  - destruct (take_writes k q) as [[ws rest]|] eqn:Et; [|discriminate].
    destruct nf.
    + destruct rest as [|r2 rest2]; [discriminate|].
      destruct r2 as [u2 d2 c2|off2 prev2|rids2]; [discriminate| |];
        inversion H; subst z' v; clear H; unfold w_set_batch; zproj; eexists _, _; (split; [reflexivity|split; [left; reflexivity|repeat split; intros; discriminate]]).
    + assert (H' : Some (set_w (set_queue z rest)
                (w_set_batch (mkWorker wf true None sf pp) (Some (mkBatch (mkWW u data cb :: ws) None (BWrite 0) true))), @nil vis)
                = Some (z', v)) by (destruct rest as [|[] ?]; exact H).
      inversion H'; subst z' v; clear H H'. unfold w_set_batch; zproj. eexists _, _; (split; [reflexivity|split; [left; reflexivity|repeat split; intros; discriminate]]).
  - destruct (Nat.eqb k 0 && negb nf); [|discriminate].
    inversion H; subst z' v; clear H. unfold w_set_batch; zproj. eexists _, _; (split; [reflexivity|split; [right; reflexivity|repeat split; intros; discriminate]]).
  - destruct (Nat.eqb k 0 && negb nf); [|discriminate].
    inversion H; subst z' v; clear H. unfold w_set_batch; zproj. eexists _, _; (split; [reflexivity|split; [right; reflexivity|repeat split; intros; discriminate]]).
Qed.

Lemma sinv_zrecv z k nf z' v Lw : sinv z Lw -> zrecv z k nf = Some (z', v) -> sinv z' Lw.
Proof.
  intros Hs H. pose proof Hs as [S1 S2 S3 S4].
  assert (Hal : w_alive (z_w z) = true -> AInv z' Lw).
  { intros Ha. eapply ainv_zrecv; [apply (w_ainv _ _ (S4 Ha))|exact H]. }
  destruct (zrecv_shape _ _ _ _ _ H) as (b & q' & -> & Hp & Hb & Ha & _). clear H.
  specialize (S4 Ha). destruct S4 as [W1 W2 W3 W4].
  constructor; zproj; try assumption.
  intros _. constructor; zproj; try assumption.
  - apply Hal. exact Ha.
  - unfold sync_tail. zproj. destruct Hp as [Hp|Hp]; rewrite Hp; exact I.
  - intros Hsf Hl. unfold late in Hl. zproj. apply W4; [exact Hsf|]. unfold late. rewrite Hb. exact I.
Qed.

Lemma sinv_zdrop z Lw : sinv z Lw -> z_todo z = [] ->
  sinv (mkSys2 (z_core z) [] (z_disk z) (z_queue z) (z_w z) (z_acks z) true (z_ghost z)) Lw.
Proof.
  intros [S1 S2 S3 S4] Et. constructor; zproj; try assumption.
  - rewrite <- Et. exact S3.
  - intros Hw. specialize (S4 Hw). destruct S4 as [W1 W2 W3 W4]. constructor; zproj; try assumption.
    destruct W1 as (nf & ln & [A1 A2 A3 A4 A5 A6 A7]). exists nf, ln. constructor; zproj; try assumption.
    unfold stream in *. zproj. rewrite <- Et. exact A4.
Qed.

(* ---- worker actions ---- *)
Lemma zwork_dead z ok z' v : zwork z ok = Some (z', v) -> w_alive (z_w z') = false ->
  z' = set_w z (w_die (z_w z)).
Proof.
  intros H Hd. unfold zwork in H.
  destruct z as [k t d q w a dr g]. zproj.
  destruct w as [wf al ba sf pp]. zproj.
  destruct al; [|discriminate]. destruct ba as [b|]; [|discriminate].
  destruct b as [ws nf pos bok]. zproj.
  destruct pos as [i| | | |i| | |rem|].
  - destruct (nth_error ws i) as [ww|].
    + destruct (ww_data ww) as [|x data].
      * wk_inv H. discriminate.
      * destruct (newest _) as [f|]; [|discriminate]. destruct ok; wk_inv H; [discriminate|reflexivity].
    + wk_inv H. discriminate.
  - destruct wf as [|f [|f2 rest]]; [wk_inv H; discriminate|wk_inv H; discriminate|].
    destruct ok; wk_inv H; discriminate.
  - destruct wf as [|f rest]; [discriminate|]. wk_inv H. discriminate.
  - destruct wf as [|f rest]; [discriminate|]. destruct ok; wk_inv H; discriminate.
  - destruct (nth_error ws i) as [ww|]; [destruct (ww_cb ww)|]; wk_inv H; discriminate.
  - destruct sf; [wk_inv H; discriminate|]. destruct pp as [|id rest]; [wk_inv H; discriminate|].
    destruct ok; wk_inv H; [discriminate|reflexivity].
  - destruct nf as [[u data cb|off prev|rids]|]; [discriminate| | |]; try (wk_inv H; discriminate).
    destruct sf; wk_inv H; discriminate.
  - destruct rem as [|id rest]; [wk_inv H; discriminate|]. destruct ok; wk_inv H; [discriminate|reflexivity].
  - wk_inv H. discriminate.
Qed.

Lemma sinv_build z z' Lw Lw' :
  sinv z Lw -> Lw <= Lw' -> zG z' = zG z -> Forall synced_le (z_disk z') ->
  (forall U, durd (z_disk z) U -> durd (z_disk z') U) ->
  (forall id, In id (ids (z_disk z)) -> In id (ids (z_disk z'))) ->
  w_alive (z_w z') = true -> winv z' Lw' -> sinv z' Lw'.
Proof.
  intros [S1 S2 S3 S4] Hle Hg Hsl Hd Hp Ha Hw. constructor.
  - exact Hsl.
  - rewrite Hg. intros l U Hin. destruct (S2 _ _ Hin) as [[D1 D2]|D].
    + left. split; [apply Hd; exact D1|lia].
    + right. intros id Hid. apply Hp, D, Hid.
  - apply ainv_bound. apply Hw.
  - intros _. exact Hw.
Qed.

Lemma sinv_build_rm z z' Lw id l' :
  sinv z Lw -> dsorted (z_disk z) -> ids (z_disk z) = id :: l' -> z_disk z' = disk_remove id (z_disk z) ->
  zG z' = zG z -> In id (accepted (z_w z)) -> w_alive (z_w z) = true ->
  w_sync_failed (z_w z) = false -> late (z_w z) ->
  w_alive (z_w z') = true -> winv z' Lw -> sinv z' Lw.
Proof.
  intros [S1 S2 S3 S4] Sd Ei Ed Hg Hid Ha Hsf Hl Ha' Hw.
  specialize (S4 Ha). destruct S4 as [(nf & ln & A) W2 W3 W4].
  assert (Hi' : ids (z_disk z') = l') by (rewrite Ed; apply ids_remove_head; [exact Ei|rewrite <- Ei; exact Sd]).
  constructor.
  - rewrite Ed. unfold disk_remove. rewrite Forall_forall in *. intros f Hf. apply filter_In in Hf. apply S1, Hf.
  - rewrite Hg. intros l U Hin.
    destruct (in_dec N.eq_dec id l) as [Hil|Hil].
    + left. assert (HU : U <= Lw) by (eapply (a_acc _ _ _ _ A); eassumption).
      split; [|exact HU]. rewrite Ed. eapply durd_remove_head; [exact Sd|exact Ei|].
      eapply dur_ids_le; [exact HU|]. apply W4; assumption.
    + destruct (S2 _ _ Hin) as [[D1 D2]|D].
      * left. split; [|exact D2]. rewrite Ed. eapply durd_remove_head; eassumption.
      * right. intros j Hj. specialize (D _ Hj). rewrite Ei in D. rewrite Hi'.
        destruct D as [D|D]; [subst j; contradiction|exact D].
  - apply ainv_bound. apply Hw.
  - intros _. exact Hw.
Qed.

Ltac build_same Hs HLw Hle :=
  eapply sinv_build; [exact Hs|exact HLw|reflexivity|exact Hle|intros ? HU; exact HU|intros ? Hid; exact Hid|reflexivity|].
Ltac wk_inv2 H := inversion H; subst; clear H; unfold w_set_pos, w_set_batch, w_die in *; zproj.
Ltac newest_same A1 nf' := intros nf' Hn'; rewrite newest_files in *; rewrite A1 in Hn'; inversion Hn'; subst nf'.

Lemma sinv_zwork z ok z' v Lw : Inv z -> sinv z Lw -> zwork z ok = Some (z', v) -> exists Lw', sinv z' Lw'.
Proof.
  intros Hinv Hs H. pose proof Hinv as (gone & rmw & keep & Hc).
  pose proof (cinv_dsorted _ _ _ _ Hc) as Sd.
  assert (Hle : Forall synced_le (z_disk z')).
  { eapply synced_le_step; [|apply Hs]. eapply (zstep_disk z (ZWork ok)). exact H. }
  assert (Ha : w_alive (z_w z) = true).
  { unfold zwork in H. destruct (w_alive (z_w z)); [reflexivity|discriminate]. }
  destruct (w_alive (z_w z')) eqn:Ha'.
  2:{ pose proof (zwork_dead _ _ _ _ H Ha') as ->. exists Lw. destruct Hs as [S1 S2 S3 S4].
      constructor; zproj; try assumption. intros Hw. unfold w_die in Hw. zproj. discriminate. }
  pose proof (s_alive _ _ Hs Ha) as [W1 W2 W3 W4].
  destruct (ainv_zwork _ _ _ _ _ W1 H Ha') as [HA' HLw].
  exists (new_lw z Lw).
  pose proof (ci_flags _ _ _ _ Hc Ha) as Fl.
  pose proof (ci_alive _ _ _ _ Hc Ha) as Erm. pose proof (ci_present _ _ _ _ Hc) as Epr. rewrite Erm in Epr.
  destruct W1 as (nfile & ln & A). pose proof A as [A1 A2 A3 A4 A5 A6 A7].
  specialize (W2 _ A1).
  unfold zwork in H. unfold new_lw in *. unfold w_rm in Epr.
  destruct z as [k t d q w a dr g]. zproj.
  destruct w as [wf al ba sf pp]. zproj. subst al.
  destruct ba as [b|]; [|discriminate].
  destruct b as [ws nf pos bok]. zproj.
  destruct pos as [i| | | |i| | |rem|].
  - (* BWrite *)
    destruct (nth_error ws i) as [ww|] eqn:En.
    + destruct (ww_data ww) as [|x data] eqn:Ed.
      * wk_inv2 H. build_same Hs HLw Hle. constructor; zproj.
        -- exact HA'.
        -- newest_same A1 nf'. exact W2.
        -- exact I.
        -- intros _ [].
      * rewrite A1 in H. destruct ok; [|wk_inv2 H; discriminate]. wk_inv2 H.
        eapply sinv_build; [exact Hs|exact HLw|reflexivity|exact Hle| | |reflexivity|]; zproj.
        -- intros U HU. apply durd_append; assumption.
        -- intros id Hid. rewrite ids_append by exact Sd. exact Hid.
        -- constructor; zproj.
           ++ exact HA'.
           ++ newest_same A1 nf'. rewrite ids_append by exact Sd.
              eapply old_ids_ext; [| |exact W2].
              ** intros j _ _. rewrite fsy_append. lia.
              ** intros j _ Hj Ht. left. split; [exact Ht|]. apply fln_append_other. lia.
           ++ exact I.
           ++ intros _ [].
    + wk_inv2 H. build_same Hs HLw Hle. constructor; zproj.
      * exact HA'.
      * newest_same A1 nf'. exact W2.
      * exact I.
      * intros _ [].
  - (* BSyncOld *)
    destruct wf as [|f [|f2 rest]].
    + rewrite newest_files in A1. discriminate.
    + wk_inv2 H. build_same Hs HLw Hle. constructor; zproj.
      * exact HA'.
      * newest_same A1 nf'. exact W2.
      * eexists. reflexivity.
      * intros _ [].
    + destruct ok.
      * wk_inv2 H.
        eapply sinv_build; [exact Hs|exact HLw|reflexivity|exact Hle| | |reflexivity|]; zproj.
        -- intros U HU. apply durd_sync; [exact Sd|apply Hs|exact HU].
        -- intros id Hid. rewrite ids_sync by exact Sd. exact Hid.
        -- constructor; zproj.
           ++ exact HA'.
           ++ intros nf' Hn'. rewrite newest_files in *. rewrite rev_head_tail in A1 by discriminate.
              rewrite A1 in Hn'. inversion Hn'; subst nf'. rewrite ids_sync by exact Sd.
              eapply old_ids_ext; [| |exact W2].
              ** intros j _ _. rewrite fsy_sync. destruct (N.eqb_spec j (wf_id f)) as [E|E]; [|lia].
                 subst j. apply fsy_le_fln. apply Hs.
              ** intros j _ _ Ht. rewrite fsy_sync, fln_sync.
                 destruct (N.eqb_spec j (wf_id f)) as [E|E]; [right; subst j; lia|].
                 left. split; [|reflexivity]. cbn [map] in Ht. destruct Ht as [Ht|Ht]; [congruence|exact Ht].
           ++ exact I.
           ++ intros _ [].
      * wk_inv2 H. build_same Hs HLw Hle. constructor; zproj.
        -- exact HA'.
        -- newest_same A1 nf'. exact W2.
        -- exact I.
        -- intros Hsf. discriminate.
  - (* BSetEvict *)
    destruct wf as [|f rest]; [discriminate|]. wk_inv2 H. build_same Hs HLw Hle. constructor; zproj.
    + exact HA'.
    + newest_same A1 nf'. exact W2.
    + exact W3.
    + intros _ [].
  - (* BSyncNew *)
    destruct wf as [|f rest]; [discriminate|].
    unfold sync_tail in W3. zproj. destruct W3 as [f0 W3]. inversion W3; subst f0 rest. clear W3.
    assert (nfile = f) by (rewrite newest_files in A1; cbn in A1; congruence). subst nfile.
    destruct ok.
    + wk_inv2 H.
      assert (Hold : old_ids (fsy (disk_sync (wf_id f) d)) (fln (disk_sync (wf_id f) d)) [wf_id f] (wf_id f) (ids d)).
      { eapply old_ids_ext; [| |exact W2].
        - intros j _ _. rewrite fsy_sync. destruct (N.eqb_spec j (wf_id f)) as [E|E]; [|lia].
          subst j. apply fsy_le_fln. apply Hs.
        - intros j _ _ Ht. left. split; [exact Ht|apply fln_sync]. }
      eapply sinv_build; [exact Hs|exact HLw|reflexivity|exact Hle| | |reflexivity|]; zproj.
      * intros U HU. apply durd_sync; [exact Sd|apply Hs|exact HU].
      * intros id Hid. rewrite ids_sync by exact Sd. exact Hid.
      * constructor; zproj.
        -- exact HA'.
        -- newest_same A1 nf'. rewrite ids_sync by exact Sd. exact Hold.
        -- exact I.
        -- intros _ _. unfold durd. rewrite ids_sync by exact Sd.
           eapply dur_ids_establish with (n := wf_id f) (c := wf_id f + ln).
           ++ exact Sd.
           ++ left. eapply hl_some_in. exact A2.
           ++ exact Hold.
           ++ intros j Hj Hn. unfold kfin_of in A4. eapply acct_future; [exact A4| |exact Hn].
              apply hl_in_some in Hj as [l Hl]. rewrite Hl. discriminate.
           ++ exact A5.
           ++ rewrite fsy_sync, N.eqb_refl, (hl_fln _ _ _ A2). lia.
    + wk_inv2 H. build_same Hs HLw Hle. constructor; zproj.
      * exact HA'.
      * newest_same A1 nf'. exact W2.
      * exact I.
      * intros Hsf. discriminate.
  - (* BCallbacks *)
    destruct (nth_error ws i) as [ww|]; [destruct (ww_cb ww) as [c|]|]; wk_inv2 H;
      (eapply sinv_build; [exact Hs|exact HLw|reflexivity|exact Hle|intros ? HU; exact HU|intros ? Hid; exact Hid|reflexivity|];
       constructor; zproj;
       [exact HA'|newest_same A1 nf'; exact W2|exact I|intros Hsf _; apply W4; [exact Hsf|exact I]]).
  - (* BPostponed *)
    destruct sf.
    + wk_inv2 H. build_same Hs HLw Hle. constructor; zproj.
      * exact HA'.
      * newest_same A1 nf'. exact W2.
      * exact I.
      * intros Hsf. discriminate.
    + destruct pp as [|id rest].
      * wk_inv2 H. build_same Hs HLw Hle. constructor; zproj.
        -- exact HA'.
        -- newest_same A1 nf'. exact W2.
        -- exact I.
        -- intros Hsf _. apply W4; [exact Hsf|exact I].
      * destruct ok; [|wk_inv2 H; discriminate]. wk_inv2 H. cbn [app] in Epr.
        eapply sinv_build_rm with (id := id); [exact Hs|exact Sd|exact Epr|reflexivity|reflexivity| |reflexivity|reflexivity|exact I|reflexivity|]; zproj.
        -- unfold accepted. zproj. left. reflexivity.
        -- assert (Hi' : ids (disk_remove id d) = (rest ++ batch_rm (mkBatch ws nf BPostponed bok)) ++ queue_rm q ++ todo_rm t ++ k_removed k ++ keep).
           { apply ids_remove_head; [exact Epr|]. rewrite <- Epr. exact Sd. }
           assert (Hne : forall j, In j (ids (disk_remove id d)) -> j <> id).
           { intros j Hj. rewrite Hi' in Hj. unfold dsorted in Sd. rewrite Epr in Sd. apply ss_inv in Sd as [_ Sd'].
             rewrite Forall_forall in Sd'. specialize (Sd' _ Hj). lia. }
           constructor; zproj.
           ++ exact HA'.
           ++ newest_same A1 nf'. rewrite Epr in W2. apply old_ids_tail in W2. rewrite Hi'.
              eapply old_ids_ext; [| |exact W2].
              ** intros j Hj _. rewrite fsy_remove; [lia|]. apply Hne. rewrite Hi'. exact Hj.
              ** intros j Hj _ Ht. left. split; [exact Ht|]. apply fln_remove. apply Hne. rewrite Hi'. exact Hj.
           ++ exact I.
           ++ intros Hsf _. eapply durd_remove_head; [exact Sd|exact Epr|]. apply W4; [reflexivity|exact I].
  - (* BNonFlush *)
    destruct nf as [[u data cb|off prev|rids]|].
    + discriminate.
    + wk_inv2 H.
      unfold stream, w_stream, batch_stream in A4. zproj. cbn [nf_list map app acct] in A4.
      destruct A4 as (H1 & H2 & H3 & l & H4 & H5 & H6).
      build_same Hs HLw Hle. constructor; zproj.
      * exact HA'.
      * intros nf' Hn'. rewrite newest_files, rev_unit in Hn'. inversion Hn'; subst nf'. cbn [wf_id].
        rewrite map_app. cbn [map wf_id].
        apply old_ids_append with (n := wf_id nfile).
        -- exact Sd.
        -- eapply hl_some_in. exact A2.
        -- exact H2.
        -- intros j Hj Hj1 Hj2. apply hl_in_some in Hj as [lj Hlj]. rewrite (H3 j Hj1 Hj2) in Hlj. discriminate.
        -- rewrite (hl_fln _ _ _ A2). exact H1.
        -- apply in_map. apply (newest_in _ _ A1).
        -- exact W2.
      * exact I.
      * intros Hsf _. apply W4; [exact Hsf|exact I].
    + destruct sf; wk_inv2 H; build_same Hs HLw Hle; constructor; zproj.
      * exact HA'.
      * newest_same A1 nf'. exact W2.
      * exact I.
      * intros Hsf. discriminate.
      * exact HA'.
      * newest_same A1 nf'. exact W2.
      * exact I.
      * intros Hsf _. apply W4; [exact Hsf|exact I].
    + wk_inv2 H. build_same Hs HLw Hle. constructor; zproj.
      * exact HA'.
      * newest_same A1 nf'. exact W2.
      * exact I.
      * intros Hsf _. apply W4; [exact Hsf|exact I].
  - (* BUnlink *)
    destruct rem as [|id rest].
    + wk_inv2 H. build_same Hs HLw Hle. constructor; zproj.
      * exact HA'.
      * newest_same A1 nf'. exact W2.
      * exact I.
      * intros Hsf _. apply W4; [exact Hsf|exact I].
    + destruct Fl as [Fl1 Fl2]. pose proof (Fl1 _ eq_refl) as Hsf0. subst sf.
      assert (pp = []) as ->.
      { cbn [early_post] in Fl2. destruct Fl2 as [Fl2|[Fl2|Fl2]]; [discriminate|exact Fl2|discriminate]. }
      destruct ok; [|wk_inv2 H; discriminate]. wk_inv2 H. unfold batch_rm in Epr. zproj. cbn [app] in Epr.
      eapply sinv_build_rm with (id := id); [exact Hs|exact Sd|exact Epr|reflexivity|reflexivity| |reflexivity|reflexivity|exact I|reflexivity|]; zproj.
      * unfold accepted, unlink_rem. zproj. left. reflexivity.
      * assert (Hi' : ids (disk_remove id d) = rest ++ queue_rm q ++ todo_rm t ++ k_removed k ++ keep).
        { apply ids_remove_head; [exact Epr|]. rewrite <- Epr. exact Sd. }
        assert (Hne : forall j, In j (ids (disk_remove id d)) -> j <> id).
        { intros j Hj. rewrite Hi' in Hj. unfold dsorted in Sd. rewrite Epr in Sd. apply ss_inv in Sd as [_ Sd'].
          rewrite Forall_forall in Sd'. specialize (Sd' _ Hj). lia. }
        constructor; zproj.
        -- exact HA'.
        -- newest_same A1 nf'. rewrite Epr in W2. apply old_ids_tail in W2. rewrite Hi'.
           eapply old_ids_ext; [| |exact W2].
           ++ intros j Hj _. rewrite fsy_remove; [lia|]. apply Hne. rewrite Hi'. exact Hj.
           ++ intros j Hj _ Ht. left. split; [exact Ht|]. apply fln_remove. apply Hne. rewrite Hi'. exact Hj.
        -- exact I.
        -- intros Hsf _. eapply durd_remove_head; [exact Sd|exact Epr|]. apply W4; [reflexivity|exact I].
  - (* BDone *)
    wk_inv2 H. build_same Hs HLw Hle. constructor; zproj.
    + exact HA'.
    + newest_same A1 nf'. exact W2.
    + exact I.
    + intros Hsf _. apply W4; [exact Hsf|exact I].
Qed.

(* ================================================================== the invariant holds in every reachable state *)
Lemma dinv_zstep z e z' v : DInv z -> zstep z e = Some (z', v) -> DInv z'.
Proof.
  intros (Hinv & Lw & Hs) H. split; [eapply inv_zstep; eassumption|].
  destruct e as [o| |k nf|ok|]; cbn [zstep] in H.
  - exists Lw. eapply sinv_zcall; eassumption.
  - exists Lw. eapply sinv_zeff; eassumption.
  - exists Lw. eapply sinv_zrecv; eassumption.
  - eapply sinv_zwork; eassumption.
  - destruct (z_todo z) eqn:Et; [|discriminate]. inversion H; subst z' v. exists Lw. apply sinv_zdrop; assumption.
Qed.

Lemma sinv_init cfg : sinv (z0_of cfg) 0.
Proof.
  pose proof (blen_enc_pos (RState (m_rs (sm_new cfg)))) as Hpos. fold (PurgeFacts.head0 cfg) in Hpos.
  assert (Hhl : hl [mkFile 0 (PurgeFacts.head0 cfg) 0] 0 = Some (blen (PurgeFacts.head0 cfg))) by reflexivity.
  constructor; unfold z0_of, sys2_of; zproj; cbn [y_core y_disk y_queue y_files y_acks].
  - constructor; [|constructor]. unfold synced_le. cbn [f_synced f_data]. lia.
  - intros l U [].
  - split; [lia|constructor].
  - intros _. constructor; zproj.
    + exists (mkWF 0 None), (blen (PurgeFacts.head0 cfg)). constructor; zproj; cbn [wf_id].
      * reflexivity.
      * exact Hhl.
      * exact Hpos.
      * unfold stream, w_stream. zproj. cbn [app map acct]. unfold kfin_of, kfin, PurgeFacts.core0. cbn [k_open k_pending].
        rewrite JournalChunk.ck_id_push, JournalChunk.ck_end_push. cbn [ck_id].
        replace (ck_end (mkChunk 0 [])) with 0 by reflexivity. change (blen []) with 0.
        split; [reflexivity|]. split; [lia|].
        intros j Hj. unfold hl. cbn [disk_get f_id]. destruct (N.eqb_spec j 0); [lia|reflexivity].
      * lia.
      * constructor.
      * intros l U id [].
    + intros nf _. cbn [ids map old_ids]. split; exact I.
    + exact I.
    + intros _ _. unfold durd. cbn [ids map dur_ids f_id]. split; [lia|exact I].
Qed.

Theorem zreach_DInv cfg z : zreach cfg z -> DInv z.
Proof.
  intros (z0 & es & v & H0 & Hr). apply zinit_empty in H0. subst z0.
  eapply (zrun_inv DInv); [intros; eapply dinv_zstep; eassumption| |exact Hr].
  split; [apply inv_init|]. exists 0. apply sinv_init.
Qed.

(* ================================================================== C08: removed only after durable *)
Theorem C08_removed_after_durable : forall cfg z, zreach cfg z -> removed_after_durable z.
Proof.
  intros cfg z Hr. destruct (zreach_DInv _ _ Hr) as ((gone & rmw & keep & Hc) & Lw & Hs).
  intros l U id Hin Hid Hnone.
  destruct (s_u3 _ _ Hs _ _ Hin) as [[D _]|D].
  - apply durable_upto_ids; [eapply cinv_dsorted; exact Hc|exact D].
  - exfalso. apply disk_get_None in Hnone. apply Hnone. apply D. exact Hid.
Qed.

Print Assumptions C08_removed_after_durable.
