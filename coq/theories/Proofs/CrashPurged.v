(* C03: crash safety of the L2 system, including crash images in which older chunk
   files have already been removed after a purge (C03_prefix).
   Uses: the suffix replay (CrashSuffix), the facts about removal requests
   (CrashRemoved), C08 (a chunk file is unlinked only after the flush that carried its
   removal request is durable) and the analysis of crash images (CrashRecover). *)
From Coq Require Import List NArith Bool Lia Arith Sorting.Sorted.
From Coq Require Import ZifyBool ZifyN ZifyNat.
From Coq.Strings Require Import Byte.
From RaftLog Require Import Base.Bytes Model.Types Model.Codec Model.Cache Model.Core
  Model.Recover Model.Run Model.Sys Spec.Spec Spec.Hist Spec.Durable.
From RaftLog Require Import Proofs.CodecFacts Proofs.NoPanic Proofs.ScanFacts Proofs.RecoverFacts
  Proofs.OrderFacts Proofs.Refine.
From RaftLog Require Proofs.JournalDisk Proofs.JournalChunk Proofs.JournalFacts Proofs.PurgeFacts
  Proofs.PurgeDurable.
From RaftLog Require Import Proofs.CrashBase Proofs.CrashJournal Proofs.CrashSteps Proofs.CrashRecover
  Proofs.CrashSpec Proofs.CrashPrefix Proofs.CrashFacts Proofs.CrashSuffix Proofs.CrashRemoved.
Import ListNotations.
Local Open Scope N_scope.
Local Arguments N.add : simpl never.
Local Arguments N.sub : simpl never.
Local Arguments N.mul : simpl never.
Local Arguments N.eqb : simpl never.
Local Arguments N.ltb : simpl never.
Local Arguments N.leb : simpl never.
Local Arguments N.compare : simpl never.
Local Arguments N.of_nat : simpl never.
Local Arguments enc_record : simpl never.

(* ------------------------------------------------------------------ what is durable is in the image *)
Section Bound.
Variables (cfg : config) (z : sys2) (d' : disk) (G A Go C : list jfile) (o : N) (recs : list record).
Variables (j : nat) (tl : bytes) (older' : list file) (nf' : file) (U : N).
Hypothesis Hr : zreach cfg z.
Hypothesis J : JI z G.
Hypothesis Hc : crash_image z d'.
Hypothesis EG : G = A ++ (Go ++ [(o, recs)]) ++ C.
Hypothesis HC : map fst C = creates (z_todo z).
Hypothesis Hpre : Forall2 (fun f g => f_id f = fst g /\ bprefix (f_data f) (encs (snd g)))
                          (z_disk z) (Go ++ [(o, recs)]).
Hypothesis Ed : d' = older' ++ [nf'].
Hypothesis Edat : f_data nf' = encs (firstn j recs) ++ tl.
Hypothesis Htl : tail_shape tl.
Hypothesis Hdur : durable_upto (z_disk z) U.
Hypothesis HU : In U (AD.flushed_us z).

(* a record of the newest file (its head snapshot included) that ends at or below U is
   intact in the image *)
Lemma durable_records i e : nth_error (ends_from o (map rec_size recs)) i = Some e -> e <= U ->
  (S i <= j)%nat.
Proof.
  intros Hn He. destruct (ends_from_nth _ _ _ _ Hn) as [Hil Ee].
  pose proof (AF.C04_synced_le_written cfg z Hr) as Hsyn.
  destruct (Forall2_snoc_inv_r _ _ _ _ Hpre) as (dpre & f & Edisk & _ & (Efid & Hbp)).
  simpl in Efid, Hbp.
  assert (Himg : file_image f nf').
  { unfold crash_image in Hc. rewrite Edisk, Ed in Hc. apply Forall2_last_inv in Hc. apply Hc. }
  pose proof (gi_ok _ _ _ _ (ji_gi _ _ J)) as Hok. rewrite EG, !Forall_app in Hok.
  destruct Hok as (_ & (_ & Hokl) & _). pose proof (Forall_inv Hokl) as [Hwf _]. simpl in Hwf.
  assert (Hou : f_id f < U).
  { rewrite Efid. pose proof (CorruptFacts.encs_length_pos (firstn (S i) recs)) as Hp.
    destruct recs; [simpl in Hil; lia|]. specialize (Hp ltac:(discriminate)). lia. }
  rewrite Edisk in Hdur. pose proof (durable_last _ _ _ Hdur Hou) as Hds.
  rewrite Forall_forall in Hsyn.
  assert (Hfin : In f (z_disk z)) by (rewrite Edisk; apply in_or_app; right; now left).
  specialize (Hsyn f Hfin). simpl in Hsyn.
  set (m := length (encs (firstn (S i) recs))) in *.
  assert (Hm1 : (m <= N.to_nat (f_synced f))%nat) by lia.
  assert (Hm2 : (m <= length (f_data f))%nat) by lia.
  pose proof (image_keeps f nf' Himg m Hm1 Hm2) as Hk.
  apply (intact_records recs j tl i (f_data nf') Hwf Htl Edat); [lia|].
  fold m. rewrite Hk. rewrite (bprefix_firstn _ _ Hbp), firstn_firstn.
  replace (Nat.min m (length (f_data f))) with m by lia.
  rewrite (encs_firstn_skipn (S i) recs). apply firstn_app_exact.
Qed.

(* the journalled records that end at or below U are among those recovered *)
Lemma nb_bound : (nb G U <= length (jrecs (A ++ Go ++ [(o, firstn j recs)])))%nat.
Proof.
  pose proof (AD.f_b _ (full_reach cfg z Hr)) as B.
  unfold nb. rewrite EG, !rec_ends_app, !filter_app, !app_length.
  rewrite jrecs_app, jrecs_last, !app_length.
  assert (H0 : (length (filter (fun e => N.leb e U) (rec_ends A)) <= length (jrecs A))%nat).
  { rewrite <- rec_ends_length. apply filter_len_le. }
  assert (H1 : (length (filter (fun e => N.leb e U) (rec_ends Go)) <= length (jrecs Go))%nat).
  { rewrite <- rec_ends_length. apply filter_len_le. }
  assert (H3 : length (filter (fun e => N.leb e U) (rec_ends C)) = 0%nat).
  { apply filter_none_len. intros e He. unfold rec_ends in He. apply in_flat_map in He.
    destruct He as (g & Hg & He). apply in_fends_gt in He.
    assert (HUg : U <= fst g).
    { apply (AD.b_usc _ B U (fst g)); [exact HU|].
      change AD.creates with creates. rewrite <- HC. now apply in_map. }
    lia. }
  assert (H2 : (length (filter (fun e => N.leb e U) (rec_ends [(o, recs)])) <=
                length (List.tl (firstn j recs)))%nat).
  { unfold rec_ends. cbn [flat_map]. rewrite app_nil_r. apply fends_bound.
    intros i e Hn He. eapply durable_records; eauto. }
  lia.
Qed.

End Bound.

(* ------------------------------------------------------------------ small facts *)
Lemma split_unique : forall (L1 L2 : list jfile) c a b R1 R2,
  StronglySorted N.lt (map fst (L1 ++ (c, a) :: R1)) ->
  L1 ++ (c, a) :: R1 = L2 ++ (c, b) :: R2 -> L1 = L2 /\ a = b /\ R1 = R2.
Proof.
  induction L1 as [|x L1 IH]; intros L2 c a b R1 R2 Hs E.
  - destruct L2 as [|y L2]; cbn [app] in E.
    + inversion E; subst. auto.
    + exfalso. inversion E; subst. cbn [app map fst] in Hs. apply JournalDisk.ss_inv in Hs.
      destruct Hs as [_ Hs]. rewrite Forall_forall in Hs.
      assert (Hin : In c (map fst (L2 ++ (c, b) :: R2))).
      { rewrite map_app. apply in_or_app. right. now left. }
      specialize (Hs c Hin). lia.
  - destruct L2 as [|y L2]; cbn [app] in E.
    + exfalso. inversion E; subst. cbn [app map fst] in Hs. apply JournalDisk.ss_inv in Hs.
      destruct Hs as [_ Hs]. rewrite Forall_forall in Hs.
      assert (Hin : In c (map fst (L1 ++ (c, a) :: R1))).
      { rewrite map_app. apply in_or_app. right. now left. }
      specialize (Hs c Hin). lia.
    + inversion E as [[Ex E']]. subst y. cbn [app map] in Hs. apply JournalDisk.ss_inv in Hs.
      destruct Hs as [Hs _]. destruct (IH _ _ _ _ _ _ Hs E') as (-> & -> & ->). auto.
Qed.

Lemma ss_parts (A P : list N) : StronglySorted N.lt (A ++ P) ->
  forall a b, In a A -> In b P -> a < b.
Proof. intros H. apply JournalDisk.ss_app_inv in H. apply H. Qed.

Lemma ss_head_le lo (P1 : list N) : StronglySorted N.lt (lo :: P1) -> forall x, In x P1 -> lo <= x.
Proof.
  intros H x Hx. apply JournalDisk.ss_inv in H. destruct H as [_ H]. rewrite Forall_forall in H.
  specialize (H x Hx). lia.
Qed.

(* ------------------------------------------------------------------ the recovered state *)
(* replaying the files [P] that are left, when the files [A] have been removed *)
Lemma recovered_gen cfg' A P s1 :
  files_ok spec0 (A ++ P) -> StronglySorted N.lt (map fst (A ++ P)) ->
  RS.replay_files (sm_new cfg') P = (s1, None) ->
  (A <> [] -> P <> [] /\
     ple (sp_last (run_recs spec0 (jrecs A))) (sp_purged (run_recs spec0 (jrecs (A ++ P))))) ->
  PL.R0 s1 (run_recs spec0 (jrecs (A ++ P))).
Proof.
  intros Hf Hs Hrep HA. destruct A as [|a0 A0].
  - cbn [app] in *. destruct (replay_files_spec P (sm_new cfg') spec0 (R0_new cfg') Hf) as (t1 & E1 & H1).
    rewrite Hrep in E1. inversion E1; subst t1. exact H1.
  - destruct (HA ltac:(discriminate)) as [HP Hpg]. destruct P as [|[lo rs0] P1]; [congruence|].
    rewrite map_app in Hs.
    apply (suffix_replay cfg' (a0 :: A0) lo rs0 P1 s1 Hf).
    + intros a Ha. apply (ss_parts _ _ Hs a lo Ha). now left.
    + apply ss_head_le. apply JournalDisk.ss_app_inv in Hs. apply Hs.
    + exact Hrep.
    + exact Hpg.
Qed.

Lemma chunk_replay_nil t o : RS.chunk_replay t (o, []) = (RS.chunk_pre t, None).
Proof. reflexivity. Qed.

Lemma jrecs_cut_nil (X : list jfile) o : jrecs (X ++ [(o, @nil record)]) = jrecs X.
Proof. rewrite jrecs_last. cbn [List.tl]. apply app_nil_r. Qed.

(* recovery replays the files that are left, the newest one cut after j records *)
Lemma recovered cfg' A Go o recs j s1 :
  files_ok spec0 (A ++ Go ++ [(o, recs)]) ->
  StronglySorted N.lt (map fst (A ++ Go ++ [(o, recs)])) ->
  RS.replay_files (sm_new cfg') (Go ++ [(o, firstn j recs)]) = (s1, None) ->
  (A <> [] -> (Go <> [] \/ (1 <= j)%nat) /\
     ple (sp_last (run_recs spec0 (jrecs A)))
         (sp_purged (run_recs spec0 (jrecs (A ++ Go ++ [(o, firstn j recs)]))))) ->
  PL.R0 s1 (run_recs spec0 (jrecs (A ++ Go ++ [(o, firstn j recs)]))).
Proof.
  intros Hf Hs Hrep HA.
  assert (Hids : map fst (A ++ Go ++ [(o, firstn j recs)]) = map fst (A ++ Go ++ [(o, recs)])).
  { rewrite !map_app. reflexivity. }
  destruct j as [|j'].
  - cbn [firstn] in *.
    assert (Ej : jrecs (A ++ Go ++ [(o, @nil record)]) = jrecs (A ++ Go)) by (rewrite app_assoc; apply jrecs_cut_nil).
    rewrite Ej in *.
    apply RS.replay_files_snoc_inv in Hrep. destruct Hrep as (t1 & Hr1 & Hr2).
    rewrite chunk_replay_nil in Hr2. inversion Hr2; subst s1.
    rewrite app_assoc in Hf. apply files_ok_app in Hf. destruct Hf as [Hf _].
    assert (Hs' : StronglySorted N.lt (map fst (A ++ Go))).
    { rewrite app_assoc, map_app in Hs. apply JournalDisk.ss_app_inv in Hs. apply Hs. }
    eapply R0_eq; [| |apply (recovered_gen cfg' A Go t1 Hf Hs' Hr1)]; try reflexivity.
    intros HAne. destruct (HA HAne) as [[HG|HG] Hp]; [|lia]. split; assumption.
  - assert (Hf' : files_ok spec0 (A ++ Go ++ [(o, firstn (S j') recs)])).
    { rewrite app_assoc in *. apply files_ok_cut; [exact Hf|lia]. }
    apply (recovered_gen cfg' A _ s1 Hf'); [now rewrite Hids|exact Hrep|].
    intros HAne. destruct (HA HAne) as [_ Hp]. split; [destruct Go; discriminate|exact Hp].
Qed.

Lemma jrecs_one o (rs : list record) : jrecs [(o, rs)] = List.tl rs.
Proof. unfold jrecs. cbn [flat_map snd]. apply app_nil_r. Qed.

Lemma crash_image_nil z : crash_image z [] -> z_disk z = [].
Proof. unfold crash_image. intros H. inversion H. reflexivity. Qed.

Lemma firstn_prefix_eq {A} (l r : list A) n : (n <= length l)%nat -> firstn n (l ++ r) = firstn n l.
Proof.
  intros H. rewrite firstn_app. replace (n - length l)%nat with 0%nat by lia.
  cbn [firstn]. apply app_nil_r.
Qed.

(* ------------------------------------------------------------------ C03 *)
(* After a crash at ANY reachable state of the two threads and for ANY crash image d'
   (every file keeps at least its synced prefix, at most what was written, possibly
   zero-filled from a record boundary; chunk files already unlinked are absent):
   outside the known failure class gap_class of C05, reopening (with truncation of
   incomplete records enabled) succeeds and the recovered store shows exactly the k-th
   state of the reference log, where the reference states are listed one per journalled
   record (ref_states), k is at least the number of records journalled before any flush
   whose callback reported success (acked z) and at most the number journalled so far
   (issued z): the Raft state equals that reference state and the index map lists
   exactly its entries (index, log id).  No partially written record is visible, and
   removing obsolete chunk files after a purge loses nothing. *)
Theorem C03_prefix : forall cfg cfg' z d',
  zreach cfg z -> hist_wf z -> PL.hist_legal z -> crash_image z d' ->
  ~ gap_class d' -> c_truncate cfg' = true ->
  exists y' k sp, open_dir cfg' d' = OpenOk y' /\
    (acked z <= k)%nat /\ (k <= issued z)%nat /\
    nth_error (ref_states (PL.hist z)) k = Some sp /\
    m_rs (k_sm (y_core y')) = spec_state sp /\
    map f_log (m_log (k_sm (y_core y'))) = map g_ent (sp_entries sp).
Proof.
  intros cfg cfg' z d' Hr Hw Hl Hc Hng Ht.
  destruct (L2_removed cfg z Hr Hw Hl) as (G & J & HSP & HRI).
  assert (Hne : d' <> []).
  { intros ->. apply (disk_nonempty cfg z Hr). now apply crash_image_nil. }
  destruct (crash_open cfg cfg' z d' G Hr J Hc Hng Ht Hne) as
    (Gd & Go & o & recs & j & older' & nf' & tl & y' & s1 & IF & EGd & Ed & Hfm & Eid & Edat & Htl &
     Hopen & Hrep & Hrs & Hlog).
  destruct IF as [_ (A & C & EG & HC) Hids Hpre Himg]. subst Gd.
  pose proof (gi_sorted _ _ _ _ (ji_gi _ _ J)) as Hs.
  pose proof (sc_files _ _ _ (sp_sc _ _ HSP)) as Hfo.
  assert (Hfo1 : files_ok spec0 (A ++ Go ++ [(o, recs)])).
  { rewrite EG, app_assoc in Hfo. apply files_ok_app in Hfo. apply Hfo. }
  assert (Hs1 : StronglySorted N.lt (map fst (A ++ Go ++ [(o, recs)]))).
  { rewrite EG, app_assoc, map_app in Hs. apply JournalDisk.ss_app_inv in Hs. apply Hs. }
  set (Gk := A ++ Go ++ [(o, firstn j recs)]) in *.
  destruct (tl_firstn_prefix recs j) as [rest0 Erest].
  assert (Ejr : jrecs G = jrecs Gk ++ (rest0 ++ jrecs C)).
  { rewrite EG. unfold Gk. rewrite !jrecs_app, !jrecs_one, Erest, <- !app_assoc. reflexivity. }
  (* the purge that made the removed files obsolete is inside the image *)
  assert (HA : A <> [] -> (Go <> [] \/ (1 <= j)%nat) /\
     ple (sp_last (run_recs spec0 (jrecs A))) (sp_purged (run_recs spec0 (jrecs Gk)))).
  { intros HAne. destruct (exists_last HAne) as (A0 & [c rsc] & EA).
    assert (Hcr : map fst (A ++ Go ++ [(o, recs)]) = g_created (z_ghost z)).
    { pose proof (gi_ids _ _ _ _ (ji_gi _ _ J)) as Hi.
      rewrite EG, app_assoc, map_app, HC in Hi. apply app_inv_tail in Hi. exact Hi. }
    assert (HcA : In c (map fst A)).
    { rewrite EA, map_app. apply in_or_app. right. now left. }
    assert (Hcc : In c (g_created (z_ghost z))).
    { rewrite <- Hcr, map_app. apply in_or_app. now left. }
    assert (Hcd : ~ In c (map f_id (z_disk z))).
    { rewrite <- Hids. intros Hin. rewrite map_app in Hs1.
      pose proof (ss_parts _ _ Hs1 c c HcA Hin). lia. }
    destruct (gone_requested cfg z c Hr Hcc Hcd) as (l & U & Hlu & Hcl).
    assert (Hnone : disk_get c (z_disk z) = None) by (apply disk_get_none_ids; exact Hcd).
    pose proof (PurgeDurable.C08_removed_after_durable cfg z Hr l U c Hlu Hcl Hnone) as Hdur.
    pose proof (ri_us _ _ HRI l U Hlu) as HU.
    destruct (ri_rem _ _ HRI l U c Hlu Hcl) as (Ga & rsc' & x & st & tl0 & Gb & n & EG2 & Hhd & Hn & Hp).
    assert (EG1 : G = A0 ++ (c, rsc) :: ((Go ++ [(o, recs)]) ++ C)).
    { rewrite EG, EA, <- !app_assoc. reflexivity. }
    assert (Hs2 : StronglySorted N.lt (map fst (A0 ++ (c, rsc) :: ((Go ++ [(o, recs)]) ++ C)))).
    { rewrite <- EG1. exact Hs. }
    rewrite EG1 in EG2. destruct (split_unique _ _ _ _ _ _ _ Hs2 EG2) as (<- & <- & Erest2).
    (* the head of the first file that is left *)
    assert (Est : st = spec_state (run_recs spec0 (jrecs A))).
    { rewrite EG in Hfo. apply files_ok_app in Hfo. destruct Hfo as [_ Hfo].
      rewrite Erest2 in Hfo. cbn [files_ok snd] in Hfo. destruct Hfo as (tl1 & E1 & _).
      now inversion E1. }
    assert (Hnb : (nb G U <= length (jrecs Gk))%nat).
    { unfold Gk. eapply (nb_bound cfg z d' G A Go C o recs j tl older' nf' U); eauto. }
    split.
    - destruct Go as [|g0 Go']; [|left; discriminate]. right.
      cbn [app] in Erest2. inversion Erest2; subst x recs.
      eapply (durable_records cfg z d' G A [] C o (RState st :: tl0) j tl older' nf' U); eauto.
      reflexivity.
    - assert (Hn2 : (n <= length (jrecs Gk))%nat) by lia.
      rewrite Ejr, (firstn_prefix_eq _ _ _ Hn2) in Hp.
      rewrite <- (firstn_skipn n (jrecs Gk)), run_recs_app.
      unfold ple in *. eapply opair_le_trans; [|apply run_recs_purged].
      rewrite Est in Hp. exact Hp. }
  pose proof (recovered cfg' A Go o recs j s1 Hfo1 Hs1 Hrep HA) as HR0. fold Gk in HR0.
  exists y', (length (jrecs Gk)), (run_recs spec0 (jrecs Gk)).
  split; [exact Hopen|]. split; [|split; [|split; [|split]]].
  - unfold acked. apply list_max_le. rewrite Forall_forall. intros x Hx.
    apply in_map_iff in Hx. destruct Hx as (e & <- & He).
    destruct e as [[[cb|] U] n]; simpl; [|lia].
    destruct (existsb (fun a => N.eqb (fst a) cb && snd a) (z_acks z)) eqn:Ea; [|lia].
    apply existsb_exists in Ea. destruct Ea as ([c' b'] & Hain & Hab). simpl in Hab.
    apply andb_true_iff in Hab. destruct Hab as [Hc' Hb']. apply N.eqb_eq in Hc'. subst c' b'.
    pose proof (AD.C04_ack_after_sync cfg z Hr cb U n He Hain) as Hdur.
    destruct (sp_fl _ _ HSP _ _ _ He) as [_ Hnb].
    eapply Nat.le_trans; [exact Hnb|].
    unfold Gk. eapply (nb_bound cfg z d' G A Go C o recs j tl older' nf' U); eauto.
    unfold AD.flushed_us. apply in_map_iff. exists (Some cb, U, n). split; [reflexivity|exact He].
  - unfold issued. rewrite <- (sp_tr _ _ HSP), rtrace_length, Ejr, app_length. lia.
  - unfold ref_states. rewrite <- (sp_tr _ _ HSP), Ejr. apply rtrace_nth.
  - rewrite Hrs. apply (PL.R0_rs _ _ HR0).
  - rewrite Hlog. apply (PL.R0_log _ _ HR0).
Qed.

Print Assumptions C03_prefix.

(* ------------------------------------------------------------------ the theorem is not vacuous *)
(* three appends fill chunk 0 (four records with its head snapshot): rotation to chunk
   114; purge up to (1,2) makes chunk 0 obsolete; flush with callback; the worker writes,
   syncs, acknowledges and UNLINKS chunk 0; then a vote is journalled and written but not
   synced *)
Definition pex_cfg : config := mkConfig 10 1000 4 1000 true.
Definition pex_events : list zev :=
  let W := ZWork true in
  [ZCall (OW (OAppend [((1, 0), [])])); ZCall (OW (OAppend [((1, 1), [])]));
   ZCall (OW (OAppend [((1, 2), [])])); ZEff; ZEff; ZEff; ZEff;
   ZCall (OW (OPurge (1, 2))); ZCall (OFlush true); ZEff; ZEff;
   ZRecv 0 true; W; W; W; W; W; W; W; W; W; W;
   ZRecv 0 true; W; W; W; W; W; W; W; W; W; W; W; W; W;
   ZCall (OW (OVote (2, 2))); ZCall (OFlush false); ZEff; ZRecv 0 false; W].

Definition pex_z : sys2 :=
  match zrun (AF.zstart pex_cfg) pex_events with Some (z, _) => z | None => AF.zstart pex_cfg end.
(* the crash cuts the last record: the only file loses its last 3 bytes *)
Definition pex_d : disk := cut_last (z_disk pex_z) 87.

Lemma pex_reach : zreach pex_cfg pex_z.
Proof.
  unfold pex_z. destruct (zrun (AF.zstart pex_cfg) pex_events) as [[z vis]|] eqn:E.
  - exists (AF.zstart pex_cfg), pex_events, vis. split; [apply AF.zinit_eq|exact E].
  - exfalso. vm_compute in E. discriminate.
Qed.

Lemma pex_hist : PL.hist pex_z =
  [OAppend [((1, 0), [])]; OAppend [((1, 1), [])]; OAppend [((1, 2), [])]; OPurge (1, 2); OVote (2, 2)].
Proof. vm_compute. reflexivity. Qed.

(* a reachable state in which chunk file 0 was created and HAS been unlinked (the only
   file left is chunk 114), with an acknowledged flush behind four journalled records
   and five journalled records in all, and a crash image that cuts the last record:
   all hypotheses of C03_prefix hold *)
Example C03_prefix_nonvacuous_purged :
  zreach pex_cfg pex_z /\ hist_wf pex_z /\ PL.hist_legal pex_z /\ crash_image pex_z pex_d /\
  ~ gap_class pex_d /\ c_truncate pex_cfg = true /\
  In 0 (g_created (z_ghost pex_z)) /\ map f_id (z_disk pex_z) = [114] /\ map f_id pex_d = [114] /\
  acked pex_z = 4%nat /\ issued pex_z = 5%nat /\
  map (fun f => length (f_data f)) (z_disk pex_z) = [90]%nat /\
  map (fun f => length (f_data f)) pex_d = [87]%nat.
Proof.
  split; [apply pex_reach|].
  split. { unfold hist_wf. change (map fst (g_writes (z_ghost pex_z))) with (PL.hist pex_z).
           rewrite pex_hist. repeat constructor; vm_compute; reflexivity. }
  split. { unfold PL.hist_legal. rewrite pex_hist. vm_compute. reflexivity. }
  split.
  { apply (cut_last_image pex_cfg pex_z 87 (removelast (z_disk pex_z)) (last (z_disk pex_z) (mkFile 0 [] 0))).
    - apply pex_reach.
    - vm_compute. reflexivity.
    - vm_compute. discriminate.
    - vm_compute. lia. }
  split.
  { intros (pre & f & g & post & Eq & _).
    assert (Hl : length pex_d = 1%nat) by (vm_compute; reflexivity).
    rewrite Eq, app_length in Hl. simpl in Hl. lia. }
  split; [reflexivity|]. split; [vm_compute; tauto|].
  split; [vm_compute; reflexivity|]. split; [vm_compute; reflexivity|].
  split; [vm_compute; reflexivity|]. split; [vm_compute; reflexivity|].
  split; vm_compute; reflexivity.
Qed.

(* the conclusion of C03_prefix for this image: the reopened store shows the reference
   state after k records with 4 <= k <= 5 *)
Example C03_prefix_example : exists y' k sp, open_dir pex_cfg pex_d = OpenOk y' /\
  (4 <= k)%nat /\ (k <= 5)%nat /\ nth_error (ref_states (PL.hist pex_z)) k = Some sp /\
  m_rs (k_sm (y_core y')) = spec_state sp /\
  map f_log (m_log (k_sm (y_core y'))) = map g_ent (sp_entries sp).
Proof.
  destruct C03_prefix_nonvacuous_purged as (H1 & H2 & H3 & H4 & H5 & H6 & _ & _ & _ & H8 & H9 & _).
  destruct (C03_prefix pex_cfg pex_cfg pex_z pex_d H1 H2 H3 H4 H5 H6)
    as (y' & k & sp & Ho & Ha & Hi & Hn & Hrs & Hlg).
  exists y', k, sp. rewrite H8 in Ha. rewrite H9 in Hi. auto 10.
Qed.

Print Assumptions C03_prefix_nonvacuous_purged.
