(* The synced marks of the start directory do not matter for crash recoverability: a run
   from [d] is matched step by step by a run from [reboot d] (all files marked synced)
   whose states differ in the marks only; the journal invariant does not read the marks. *)
From Coq Require Import List NArith Bool Lia Arith Sorting.Sorted.
From Coq Require Import ZifyBool ZifyN ZifyNat.
From Coq.Strings Require Import Byte.
From RaftLog Require Import Base.Bytes Model.Types Model.Codec Model.Cache Model.Core
  Model.Recover Model.Run Model.Sys Spec.Durable.
From RaftLog Require Import Proofs.CodecFacts Proofs.NoPanic Proofs.ScanFacts Proofs.RecoverFacts.
From RaftLog Require Proofs.CorruptFacts Proofs.PurgeFacts Proofs.JournalChunk Proofs.JournalFacts.
From RaftLog Require Import Proofs.CrashBase Proofs.CrashJournal Proofs.CrashSteps.
Import ListNotations.
Local Open Scope N_scope.
Local Arguments N.add : simpl never.
Local Arguments N.sub : simpl never.
Local Arguments N.mul : simpl never.
Local Arguments N.eqb : simpl never.
Local Arguments N.ltb : simpl never.
Local Arguments N.leb : simpl never.
Local Arguments N.compare : simpl never.
Local Arguments N.of_nat : simpl never.
Local Arguments enc_record : simpl never.

From RaftLog Require Import Proofs.CrashRecover.
From RaftLog Require Proofs.AckFacts Proofs.RestartShape Proofs.RestartSys Proofs.RestartCrash.

From RaftLog Require Import Proofs.CrashRecover.
From RaftLog Require Proofs.AckFacts Proofs.RestartShape Proofs.RestartSys Proofs.RestartCrash Proofs.RestartChain.
Module RC := RestartCrash.
Module RSy := RestartSys.
Module RCh := RestartChain.
Notation deq := RCh.deq.
Notation feq := RCh.feq.

(* ------------------------------------------------------------------ the disk up to synced marks *)
Lemma deq_ids d1 d2 : deq d1 d2 -> map f_id d1 = map f_id d2.
Proof. induction 1 as [|a b l1 l2 [E _] _ IH]; cbn [map]; [reflexivity|]. now rewrite E, IH. Qed.

Lemma deq_data d1 d2 id : deq d1 d2 -> data_of d1 id = data_of d2 id.
Proof.
  intros H. pose proof (RCh.deq_get id _ _ H) as Hg. unfold data_of.
  destruct (disk_get id d1); destruct (disk_get id d2); try contradiction; [apply Hg|reflexivity].
Qed.

Lemma deq_append id data d1 d2 : deq d1 d2 -> deq (disk_append id data d1) (disk_append id data d2).
Proof.
  intros H. pose proof (RCh.deq_get id _ _ H) as Hg. unfold disk_append.
  destruct (disk_get id d1); destruct (disk_get id d2); try contradiction; [|exact H].
  apply RCh.deq_put; [|exact H]. destruct Hg as [_ Hg]. split; cbn [f_id f_data]; [reflexivity|now rewrite Hg].
Qed.

Lemma deq_sync id d1 d2 : deq d1 d2 -> deq (disk_sync id d1) (disk_sync id d2).
Proof.
  intros H. pose proof (RCh.deq_get id _ _ H) as Hg. unfold disk_sync.
  destruct (disk_get id d1); destruct (disk_get id d2); try contradiction; [|exact H].
  apply RCh.deq_put; [|exact H]. destruct Hg as [_ Hg]. split; cbn [f_id f_data]; [reflexivity|exact Hg].
Qed.

Lemma read_record_deq d1 d2 c off len : deq d1 d2 -> read_record d1 c off len = read_record d2 c off len.
Proof.
  intros H. pose proof (RCh.deq_get (ck_id c) _ _ H) as Hg. unfold read_record.
  destruct (disk_get (ck_id c) d1); destruct (disk_get (ck_id c) d2); try contradiction; [|reflexivity].
  destruct Hg as [_ Hg]. now rewrite Hg.
Qed.

Lemma read_items_deq ch cl d1 d2 : deq d1 d2 -> forall m h ms,
  read_items ch cl d1 m h ms = read_items ch cl d2 m h ms.
Proof.
  intros H. induction m as [|[i ld] m IH]; intros h ms; cbn [read_items]; [reflexivity|].
  rewrite !IH. unfold load_payload. destruct (closed_get (ld_chunk ld) cl); [|reflexivity].
  now rewrite (read_record_deq d1 d2 _ _ _ H).
Qed.

(* ------------------------------------------------------------------ steps do not read the marks *)
Definition with_disk (z : sys2) (d : disk) : sys2 :=
  mkSys2 (z_core z) (z_todo z) d (z_queue z) (z_w z) (z_acks z) (z_dropped z) (z_ghost z).

Ltac fin Hd := eexists; split; [reflexivity|]; cbn [z_disk set_disk set_w set_todo set_core set_queue set_ghost add_ack];
  auto using deq_append, deq_sync, RCh.deq_remove.

Lemma zstep_sim z e z' v d2 : deq (z_disk z) d2 -> zstep z e = Some (z', v) ->
  exists d2', zstep (with_disk z d2) e = Some (with_disk z' d2', v) /\ deq (z_disk z') d2'.
Proof.
  intros Hd H. destruct z as [k t d q w a dr g]. cbn [z_disk] in Hd.
  destruct e as [o| |kk nf|ok|]; cbn [zstep] in *.
  - unfold zcall, with_disk in *. cbn [z_core z_todo z_disk z_queue z_w z_acks z_dropped z_ghost] in *.
    destruct t; [|discriminate]. destruct dr; [discriminate|].
    destruct o as [wo|cb|from to| | | | | |cfg'].
    + destruct (do_write k wo) as [[[k' r] effs]|]; [|discriminate]. inversion H; subst. fin Hd.
    + destruct (do_flush k cb) as [k' effs]. inversion H; subst. fin Hd.
    + unfold do_read in *. rewrite <- (read_items_deq _ _ d d2 Hd).
      destruct (read_items _ _ d _ _ _) as [[items h] ms]. inversion H; subst. fin Hd.
    + unfold do_dump_iter in *. rewrite <- (read_items_deq _ _ d d2 Hd). inversion H; subst. fin Hd.
    + inversion H; subst. fin Hd.
    + inversion H; subst. fin Hd.
    + unfold worker_quiet in *. cbn [z_w] in *. destruct q; [|discriminate].
      destruct (w_batch w); [discriminate|]. inversion H; subst. fin Hd.
    + inversion H; subst. fin Hd.
    + discriminate.
  - unfold zeff, with_disk in *. cbn [z_core z_todo z_disk z_queue z_w z_acks z_dropped z_ghost] in *.
    destruct t as [|[id|id data|r] t]; [discriminate| | |]; inversion H; subst; fin Hd.
    apply RCh.deq_put; [split; reflexivity|exact Hd].
  - unfold zrecv, with_disk in *. cbn [z_core z_todo z_disk z_queue z_w z_acks z_dropped z_ghost] in *.
    AckFacts.inv_step H; fin Hd.
  - unfold zwork, with_disk in *. cbn [z_core z_todo z_disk z_queue z_w z_acks z_dropped z_ghost] in *.
    AckFacts.inv_step H; fin Hd.
  - unfold with_disk in *. cbn [z_core z_todo z_disk z_queue z_w z_acks z_dropped z_ghost] in *.
    destruct t; [|discriminate]. inversion H; subst. fin Hd.
Qed.

Lemma zrun_sim es : forall z z' v d2, deq (z_disk z) d2 -> zrun z es = Some (z', v) ->
  exists d2', zrun (with_disk z d2) es = Some (with_disk z' d2', v) /\ deq (z_disk z') d2'.
Proof.
  induction es as [|e es IH]; intros z z' v d2 Hd H; cbn [zrun] in *.
  - inversion H; subst. eauto.
  - destruct (zstep z e) as [[z1 v1]|] eqn:E; [|discriminate].
    destruct (zrun z1 es) as [[z2 v2]|] eqn:E2; [|discriminate]. inversion H; subst.
    destruct (zstep_sim _ _ _ _ _ Hd E) as (d1' & S1 & Hd1).
    destruct (IH _ _ _ _ Hd1 E2) as (d2' & S2 & Hd2).
    exists d2'. rewrite S1, S2. auto.
Qed.

Lemma image_analysis_s z d' G : PurgeFacts.Inv z -> disk_sorted (z_disk z) -> JI z G -> crash_image z d' ->
  exists Gd, image_facts z d' G Gd.
Proof.
  intros Hinv Hfull J Hc.
  destruct Hinv as (gone & rmw & keep & Hci).
  pose proof (PurgeFacts.ci_created _ _ _ _ Hci) as Hcr. unfold JournalDisk.ids in Hcr.
  pose proof (gi_ids _ _ _ _ (ji_gi _ _ J)) as Hi. rewrite Hcr, <- !app_assoc in Hi.
  apply map_split3 in Hi. destruct Hi as (A & Gd & C & EG & _ & Hd & HC).
  pose proof (gi_sorted _ _ _ _ (ji_gi _ _ J)) as Hs.
  pose proof (gi_ok _ _ _ _ (ji_gi _ _ J)) as Hok.
  assert (Hsd : disk_sorted (z_disk z)) by exact Hfull.
  assert (Hpre : Forall2 (fun f g => f_id f = fst g /\ bprefix (f_data f) (encs (snd g))) (z_disk z) Gd).
  { apply Forall2_and; [apply Forall2_map_eq; now symmetry|].
    intros f g Hf Hg Eid. pose proof (ji_hw _ _ J (f_id f)) as H.
    rewrite (data_of_in _ _ Hsd Hf) in H.
    assert (Hg' : In (fst g, snd g) G).
    { rewrite EG. apply in_or_app. right. apply in_or_app. left. now destruct g. }
    unfold gbytes in H. rewrite Eid, (glook_sorted G _ _ Hs Hg') in H.
    eapply bprefix_trans; [apply bprefix_app|]. apply H. apply in_or_app. left.
    rewrite <- Eid. now apply in_map. }
  cut (Forall2 img_rel d' Gd).
  { intros Himg. exists Gd. constructor; [exact J|eauto|exact Hd|exact Hpre|exact Himg]. }
  assert (Hokd : Forall gfile_ok Gd).
  { rewrite EG, !Forall_app in Hok. tauto. }
  assert (Hpre' : Forall2 (fun f g => (f_id f = fst g /\ bprefix (f_data f) (encs (snd g))) /\ gfile_ok g)
                          (z_disk z) Gd).
  { apply Forall2_and; [exact Hpre|]. intros f g _ Hg _. rewrite Forall_forall in Hokd. now apply Hokd. }
  eapply Forall2_compose; [|exact Hc|exact Hpre'].
  intros f f' g Hi [[Eid Hp] [Hwf _]]. apply file_image_of in Hi. destruct Hi as [Ei Him].
  split; [congruence|].
  destruct (image_shape (snd g) (f_data f) (f_data f') (f_synced f) Hwf Hp Him)
    as (j & tl & E & Ht & Hwj & Hl & _).
  exists j, tl. repeat (split; [assumption|]). apply bprefix_length in Hp. lia.
Qed.

Lemma crash_open_s cfg' z d' G : PurgeFacts.Inv z -> disk_sorted (z_disk z) -> JI z G -> crash_image z d' ->
  ~ gap_class d' -> c_truncate cfg' = true -> d' <> [] ->
  exists Gd Go o recs j older' nf' tl y' s1,
    image_facts z d' G Gd /\ Gd = Go ++ [(o, recs)] /\
    d' = older' ++ [nf'] /\ Forall2 RF.file_match older' Go /\ f_id nf' = o /\
    f_data nf' = encs (firstn j recs) ++ tl /\ tail_shape tl /\
    open_dir cfg' d' = OpenOk y' /\
    RS.replay_files (sm_new cfg') (Go ++ [(o, firstn j recs)]) = (s1, None) /\
    m_rs (k_sm (y_core y')) = m_rs s1 /\ m_log (k_sm (y_core y')) = m_log s1.
Proof.
  intros Hinv Hfull J0 Hc Hng Ht Hne.
  destruct (image_analysis_s z d' G Hinv Hfull J0 Hc) as (Gd & IF).
  pose proof IF as [J (A & C & EG & _) Hids Hpre Himg].
  destruct (exists_last Hne) as (older' & nf' & Ed). subst d'.
  assert (HGd : Gd <> []).
  { intros ->. apply Forall2_length in Himg. rewrite app_length in Himg. simpl in Himg. lia. }
  destruct (exists_last HGd) as (Go & [o recs] & EGd). subst Gd.
  pose proof (gi_sorted _ _ _ _ (ji_gi _ _ J)) as Hs.
  pose proof (gi_ok _ _ _ _ (ji_gi _ _ J)) as Hok.
  pose proof (gi_abut _ _ _ _ (ji_gi _ _ J)) as Hab.
  pose proof (Chain_runs _ _ (gi_chain _ _ _ _ (ji_gi _ _ J))) as Hrun.
  rewrite EG in Hs, Hok, Hab, Hrun. rewrite !map_app in Hs.
  rewrite !Forall_app in Hok, Hrun.
  destruct Hok as (_ & [Hoko Hokl] & _). destruct Hrun as (_ & [Hruno Hrunl] & _).
  apply Abut_app in Hab. destruct Hab as [_ Hab]. apply Abut_app in Hab. destruct Hab as [Hab _].
  assert (Hsd : StronglySorted N.lt (map fst (Go ++ [(o, recs)]))).
  { rewrite map_app. eapply ss_sub. exact Hs. }
  pose proof (older_complete _ _ _ _ Himg Hab Hng) as Hfm.
  destruct (Forall2_last_inv _ _ _ _ _ Himg) as [_ (Eid & j & tl & Edat & Htl & Hwj & Hl)].
  simpl in Eid, Edat, Hwj, Hl.
  destruct (replay_files_ok Go (sm_new cfg') Hruno) as [t Hrep].
  assert (Hjok : Forall RF.jfile_ok Go).
  { eapply Forall_impl; [|exact Hoko]. intros g [Hg1 (st & tl0 & E)]. split; [exact Hg1|].
    rewrite E. discriminate. }
  destruct (RF.open_older_replay cfg' older' Go (o, recs) (acc0 cfg' (older' ++ [nf'])) t Hfm
              Hjok Hab Hsd eq_refl eq_refl (Forall_nil _) Hrep)
    as (a' & Ho & Hsm & Hlast & Hdisk & Hclosed & Hgap).
  pose proof (Forall_inv Hrunl) as Hrl.
  destruct (chunk_replay_prefix (o, recs) j t Hrl) as [s1 Hs1]. simpl in Hs1.
  assert (Hidlt : Forall (fun g => f_id g < o) older').
  { assert (Hm : map f_id older' = map fst Go).
    { clear - Hfm. induction Hfm as [|f g l1 l2 [E _] _ IH]; simpl; [reflexivity|]. now rewrite E, IH. }
    rewrite map_app in Hsd. simpl in Hsd. apply JournalDisk.ss_app_inv in Hsd.
    destruct Hsd as (_ & _ & Hlt). rewrite Forall_forall. intros g Hg.
    apply Hlt; [|now left]. rewrite <- Hm. now apply in_map. }
  assert (Hgap' : oa_prev_end a' = Some o \/ older' = []).
  { destruct (list_eq_dec N.eq_dec (map f_id older') []) as [E0|E0].
    - right. destruct older'; [reflexivity|discriminate].
    - left. assert (Hne' : older' <> []) by (intros ->; apply E0; reflexivity).
      pose proof (open_older_prev cfg' _ _ _ Ho (or_introl Hne')) as Hp.
      unfold gap_at in Hgap. cbn [fst] in Hgap. destruct (oa_prev_end a') as [p|]; [|congruence].
      destruct (N.eqb_spec p o) as [E1|E1]; [now rewrite E1|discriminate]. }
  destruct nf' as [nid ndata nsyn]. simpl in Eid, Edat. subst nid ndata.
  assert (Hrep1 : replay (sm_pre a') o o (firstn j recs)
                         (ends_from o (map rec_size (firstn j recs))) = (s1, None)).
  { rewrite (RF.sm_pre_chunk_pre a') by (rewrite Hlast, Hsm; reflexivity). rewrite Hsm. exact Hs1. }
  destruct (C10_longest_prefix_open cfg' older' o nsyn (firstn j recs) tl a' Ho Hidlt Hgap' Hwj Htl s1
              (or_introl Ht) Hrep1) as (y' & Hopen & Hrs & Hlog & _).
  exists (Go ++ [(o, recs)]), Go, o, recs, j, older', (mkFile o (encs (firstn j recs) ++ tl) nsyn), tl, y', s1.
  split; [exact IF|]. split; [reflexivity|]. split; [reflexivity|]. split; [exact Hfm|].
  split; [reflexivity|]. split; [reflexivity|]. split; [exact Htl|]. split; [exact Hopen|].
  split; [|split; assumption].
  eapply RS.replay_files_snoc; [exact Hrep|exact Hs1].
Qed.

(* ------------------------------------------------------------------ the start states *)
Lemma zinit_sim cfg d z0 : zinit cfg d = Some z0 ->
  exists d2, zinit cfg (RCh.reboot d) = Some (with_disk z0 d2) /\ deq (z_disk z0) d2.
Proof.
  unfold zinit. intros H. pose proof (RCh.open_dir_deq cfg d (RCh.reboot d)) as Hq.
  assert (Hdq : deq d (RCh.reboot d)).
  { clear. unfold RCh.deq, RCh.reboot. induction d; cbn [map]; constructor; [split; reflexivity|assumption]. }
  specialize (Hq Hdq).
  destruct (open_dir cfg d) as [y1|e1 r1]; [|discriminate].
  destruct (open_dir cfg (RCh.reboot d)) as [y2|e2 r2]; [|contradiction].
  destruct Hq as (Hc & Hqu & Hf & Ha & Hd). inversion H; subst z0. exists (y_disk y2).
  split; [|exact Hd]. unfold sys2_of, with_disk.
  cbn [z_core z_todo z_disk z_queue z_w z_acks z_dropped z_ghost].
  rewrite Hc, Hqu, Hf, Ha, (deq_ids _ _ Hd). reflexivity.
Qed.

(* ------------------------------------------------------------------ the journal invariant does not read the marks *)
Lemma JI_deq z d2 G : deq (z_disk z) d2 -> JI (with_disk z d2) G -> JI z G.
Proof.
  intros Hd [Gi Ti Hw He]. unfold with_disk in *.
  cbn [z_core z_todo z_disk z_queue z_w z_acks z_dropped z_ghost] in *.
  pose proof (deq_ids _ _ Hd) as Hi.
  constructor; try assumption.
  - intros id Hin. rewrite (deq_data _ _ id Hd). apply Hw. rewrite <- Hi. exact Hin.
  - intros Hal. specialize (He Hal). unfold cur0, AD.stream in *.
    cbn [z_core z_todo z_disk z_queue z_w z_acks z_dropped z_ghost] in *.
    destruct He as [E1 E2 E3 E4]. constructor; try assumption.
    intros id Hin. rewrite (deq_data _ _ id Hd). apply E2. rewrite <- Hi. exact Hin.
Qed.

Lemma hist_wf_with_disk z d2 : hist_wf z -> hist_wf (with_disk z d2).
Proof. intros H. exact H. Qed.

Lemma sorted_of_sorted_ids d : StronglySorted N.lt (map f_id d) -> disk_sorted d.
Proof.
  induction d as [|f d IH]; intros H; [constructor|]. cbn [map] in H. inversion H as [|? ? Hs Hf]; subst.
  constructor; [now apply IH|]. rewrite Forall_map in Hf. exact Hf.
Qed.

(* ------------------------------------------------------------------ C05 whatever the marks of the start directory *)
Theorem C05_recovers_outside_known_from_any_marks : forall cfg cfg' d z d',
  disk_sorted d -> RC.dir_chained d -> RSy.zreach_from cfg d z -> hist_wf z -> crash_image z d' ->
  ~ gap_class d' -> c_truncate cfg' = true ->
  exists y', open_dir cfg' d' = OpenOk y' /\ sys_ok y' /\
             (forall ops res fin, run_ops y' ops = (res, fin) -> ~ In ResPanic res).
Proof.
  intros cfg cfg' d z d' Hs Hch Hr Hw Hc Hng Ht.
  assert (Hinv : PurgeFacts.Inv z) by (eapply RC.Inv_from; eauto).
  assert (Hsz : disk_sorted (z_disk z)).
  { destruct Hinv as (gone & rmw & keep & Hci). apply sorted_of_sorted_ids.
    exact (PurgeFacts.cinv_dsorted _ _ _ _ Hci). }
  assert (HJ : exists G, JI z G).
  { destruct Hr as (z0 & es & vis & H0 & Hrun).
    destruct (zinit_sim _ _ _ H0) as (d0 & H0' & Hd0).
    destruct (zrun_sim es _ _ _ _ Hd0 Hrun) as (d2 & Hrun' & Hd2).
    assert (Hok : RC.dir_ok (RCh.reboot d)).
    { assert (Hall : Forall (fun f => f_synced f = N.of_nat (length (f_data f))) (RCh.reboot d))
        by apply RCh.reboot_full.
      split; [split|split].
      - eapply RCh.sorted_same_ids; [|exact Hs]. symmetry. apply RCh.reboot_ids.
      - eapply Forall_impl; [|exact Hall]. intros f E. unfold AckFacts.synced_le. rewrite E. lia.
      - unfold RSy.older_synced. now apply RCh.Forall_removelast.
      - unfold RC.dir_chained, RCh.reboot in *. rewrite map_map. exact Hch. }
    assert (Hr' : RSy.zreach_from cfg (RCh.reboot d) (with_disk z d2)) by (eexists _, es, vis; eauto).
    destruct (RC.L2_journal_from cfg _ _ Hok Hr' (hist_wf_with_disk z d2 Hw)) as [G J].
    exists G. eapply JI_deq; eauto. }
  destruct HJ as [G J].
  assert (Hsd : disk_sorted d').
  { eapply sorted_of_ids; [apply crash_image_ids; eauto|exact Hsz]. }
  assert (Hex : exists y', open_dir cfg' d' = OpenOk y').
  { destruct d' as [|f0 l0] eqn:Ed.
    - eexists. reflexivity.
    - rewrite <- Ed in *.
      destruct (crash_open_s cfg' z d' G Hinv Hsz J Hc Hng Ht) as
        (Gd & Go & o & recs & j & older' & nf' & tl & y' & s1 & _ & _ & _ & _ & _ & _ & _ & Ho & _).
      + rewrite Ed. discriminate.
      + eauto. }
  destruct Hex as [y' Ho]. exists y'. split; [exact Ho|].
  pose proof (open_dir_ok cfg' d' y' Hsd Ho) as Hok. split; [exact Hok|].
  intros ops res fin Hrun. apply (run_ops_ok ops y' res fin Hok Hrun).
Qed.

Print Assumptions C05_recovers_outside_known_from_any_marks.
