(* Property C11 (sequential part): the on-disk journal is an exact, gap-free record of
   the accepted writes.

   [logical y] is the directory as it will be once the worker has processed its queue
   and the caller's buffered bytes are flushed.  [journal_wf y] says that this
   directory consists of the files named by removed ++ closed ++ [open], strictly
   increasing and abutting, that every live chunk file is the concatenation of
   well-formed records starting with a state snapshot and matching the chunk's
   offset table, that the worker's newest file (after the queue) is the open chunk,
   and that every index-map entry points at the encoding of its own Append record.

   Depends on JournalDisk.v (directory/worker facts) and JournalChunk.v (caller-side
   invariant [jinv] and its preservation lemmas). *)
From Coq Require Import List NArith Lia Bool Arith Sorting.Sorted.
From Coq.Strings Require Import Byte.
From RaftLog Require Import Base.Bytes Model.Types Model.Codec Model.Cache Model.Core
  Model.Recover Model.Run.
From RaftLog Require Import Proofs.CodecFacts Proofs.JournalDisk Proofs.JournalChunk.
Import ListNotations.
Local Open Scope N_scope.
Local Arguments N.add : simpl never.
Local Arguments N.sub : simpl never.
Local Arguments N.mul : simpl never.
Local Arguments N.eqb : simpl never.
Local Arguments N.ltb : simpl never.
Local Arguments N.leb : simpl never.
Local Arguments N.compare : simpl never.
Local Arguments N.of_nat : simpl never.
Local Arguments enc_record : simpl never.

Definition logical (y : sys) : disk :=
  disk_append (ck_id (k_open (y_core y))) (k_pending (y_core y)) (y_disk (worker_idle y)).

Record journal_wf (y : sys) : Prop := mkJW {
  jw_sorted : dsorted (y_disk y);
  jw_inv : jinv (y_core y) (ids (logical y)) (file_bytes (logical y));
  jw_newest : exists older pl,
      snd (wfinal y) = older ++ [mkWF (ck_id (k_open (y_core y))) pl];
  jw_bound : Forall (fun i => i <= ck_id (k_open (y_core y)))
                    (mentioned (y_files y) (y_queue y)) }.

(* ------------------------------------------------------------------ effects *)
Lemma apply_effs_core effs : forall y, y_core (apply_effs y effs) = y_core y.
Proof.
  unfold apply_effs. induction effs as [|e effs IH]; intros y; simpl; [reflexivity|].
  rewrite IH. destruct e; reflexivity.
Qed.

Lemma apply_effs_with_core effs : forall y k,
  apply_effs (with_core y k) effs = with_core (apply_effs y effs) k.
Proof.
  unfold apply_effs. induction effs as [|e effs IH]; intros y k; simpl; [reflexivity|].
  rewrite <- IH. f_equal. destruct e; reflexivity.
Qed.

Lemma apply_effs_app e1 e2 y : apply_effs y (e1 ++ e2) = apply_effs (apply_effs y e1) e2.
Proof. unfold apply_effs. apply fold_left_app. Qed.

Lemma with_core_with_core y k k' : with_core (with_core y k) k' = with_core y k'.
Proof. reflexivity. Qed.

Lemma wfinal_send y r : wfinal (apply_eff y (ESend r)) = wstep (wfinal y) r.
Proof. unfold wfinal, wrun. simpl. rewrite fold_left_app. reflexivity. Qed.

Lemma wfinal_create y id head :
  dsorted (y_disk y) -> ~ In id (mentioned (y_files y) (y_queue y)) ->
  wfinal (apply_eff y (ECreate id head)) =
  (disk_put (mkFile id head 0) (fst (wfinal y)), snd (wfinal y)).
Proof.
  intros S H. unfold wfinal, wproj. simpl.
  apply (wrun_put_comm (mkFile id head 0)); assumption.
Qed.

Lemma wfinal_idle y : wfinal (worker_idle y) = wfinal y.
Proof. unfold wfinal at 1. rewrite worker_idle_queue, worker_idle_proj. reflexivity. Qed.

Lemma mentioned_snoc fs q r : mentioned fs (q ++ [r]) = mentioned fs q ++ req_ids r.
Proof. unfold mentioned. rewrite flat_map_app. simpl. rewrite app_nil_r, app_assoc. reflexivity. Qed.

Lemma wrun_files_mentioned q : forall s j,
  In j (map wf_id (snd (wrun q s))) -> In j (mentioned (snd s) q).
Proof.
  unfold wrun, mentioned. induction q as [|r q IH]; intros s j H; simpl in *.
  - rewrite app_nil_r. assumption.
  - apply IH in H. rewrite !in_app_iff in *. destruct H as [H|H]; [|tauto].
    apply wstep_files_ids in H. tauto.
Qed.

Lemma logical_eq y :
  logical y = disk_append (ck_id (k_open (y_core y))) (k_pending (y_core y)) (fst (wfinal y)).
Proof. unfold logical. rewrite worker_idle_disk. reflexivity. Qed.

Lemma wfinal_sorted y : dsorted (y_disk y) -> dsorted (fst (wfinal y)).
Proof. intros S. unfold wfinal. apply wrun_sorted. exact S. Qed.

(* ------------------------------------------------------------------ reading off the invariant *)
Section JWFacts.
Variable y : sys.
Hypothesis JW : journal_wf y.
Let k := y_core y.
Let o := ck_id (k_open k).
Let FD := fst (wfinal y).

Lemma jw_FD_sorted : dsorted FD.
Proof. apply wfinal_sorted, (jw_sorted _ JW). Qed.

Lemma jw_ids_FD : ids (logical y) = ids FD.
Proof. rewrite logical_eq. apply ids_append, jw_FD_sorted. Qed.

Lemma jw_open_in_FD : In o (ids FD).
Proof. rewrite <- jw_ids_FD. apply (ji_open_in _ _ _ (jw_inv _ JW)). Qed.

Lemma jw_fb_open : file_bytes (logical y) o = file_bytes FD o ++ k_pending k.
Proof. rewrite logical_eq. apply fb_append_same, jw_open_in_FD. Qed.

Lemma jw_fb_other j : j <> o -> file_bytes (logical y) j = file_bytes FD j.
Proof. intros H. rewrite logical_eq. apply fb_append_other, H. Qed.

Lemma jw_logical_sorted : dsorted (logical y).
Proof. rewrite logical_eq. apply dsorted_append, jw_FD_sorted. Qed.
End JWFacts.

(* building the invariant from a description of the final worker state *)
Lemma jw_build y' idl fb' :
  dsorted (y_disk y') ->
  In (ck_id (k_open (y_core y'))) (ids (fst (wfinal y'))) ->
  (exists older pl,
      snd (wfinal y') = older ++ [mkWF (ck_id (k_open (y_core y'))) pl]) ->
  Forall (fun i => i <= ck_id (k_open (y_core y'))) (mentioned (y_files y') (y_queue y')) ->
  idl = ids (fst (wfinal y')) ->
  jinv (y_core y') idl fb' ->
  fb' (ck_id (k_open (y_core y'))) =
    file_bytes (fst (wfinal y')) (ck_id (k_open (y_core y'))) ++ k_pending (y_core y') ->
  (forall j, j <> ck_id (k_open (y_core y')) -> fb' j = file_bytes (fst (wfinal y')) j) ->
  journal_wf y' /\ ids (logical y') = idl /\ forall j, file_bytes (logical y') j = fb' j.
Proof.
  intros S Io Hnew Hb Eidl J Eo Eother.
  pose proof (wfinal_sorted _ S) as SF.
  assert (Hids : ids (logical y') = idl).
  { rewrite logical_eq, ids_append by assumption. symmetry; assumption. }
  assert (Hfb : forall j, file_bytes (logical y') j = fb' j).
  { intros j. rewrite logical_eq.
    destruct (N.eq_dec j (ck_id (k_open (y_core y')))) as [E|E].
    - subst j. rewrite fb_append_same by assumption. symmetry; assumption.
    - rewrite fb_append_other by assumption. symmetry. apply Eother. assumption. }
  split; [|split; assumption].
  constructor; try assumption.
  rewrite Hids. apply jinv_ext with (fb := fb'); assumption.
Qed.

(* ------------------------------------------------------------------ steps that do not touch the journal *)
Lemma logical_core_eqj y y' : wfinal y' = wfinal y -> core_eqj (y_core y) (y_core y') ->
  logical y' = logical y.
Proof.
  intros Ew (E1 & E2 & E3 & E4 & E5 & E6 & E7). rewrite !logical_eq, Ew, E2, E3. reflexivity.
Qed.

Lemma jw_core_eqj y y' : journal_wf y ->
  y_disk y' = y_disk y -> y_files y' = y_files y -> y_queue y' = y_queue y ->
  core_eqj (y_core y) (y_core y') -> journal_wf y'.
Proof.
  intros JW Ed Ef Eq Ec.
  assert (Ew : wfinal y' = wfinal y) by (unfold wfinal, wproj; rewrite Ed, Ef, Eq; reflexivity).
  pose proof (logical_core_eqj _ _ Ew Ec) as El.
  pose proof Ec as (E1 & E2 & E3 & E4 & E5 & E6 & E7).
  constructor.
  - rewrite Ed. apply (jw_sorted _ JW).
  - rewrite El. apply jinv_core_eqj with (k := y_core y); [apply (jw_inv _ JW)|exact Ec].
  - rewrite Ew, E2. apply (jw_newest _ JW).
  - rewrite Ef, Eq, E2. apply (jw_bound _ JW).
Qed.

Lemma jw_with_core y k' : journal_wf y -> core_eqj (y_core y) k' -> journal_wf (with_core y k').
Proof. intros JW Ec. apply (jw_core_eqj y); auto. Qed.

Lemma jw_idle y : journal_wf y -> journal_wf (worker_idle y).
Proof.
  intros JW.
  pose proof (worker_idle_core y) as Ec.
  pose proof (logical_core_eqj _ _ (wfinal_idle y) Ec) as El.
  pose proof Ec as (E1 & E2 & E3 & E4 & E5 & E6 & E7).
  constructor.
  - rewrite worker_idle_disk. apply wfinal_sorted, (jw_sorted _ JW).
  - rewrite El. apply jinv_core_eqj with (k := y_core y); [apply (jw_inv _ JW)|exact Ec].
  - rewrite wfinal_idle, E2. apply (jw_newest _ JW).
  - rewrite worker_idle_queue, worker_idle_files, E2.
    pose proof (jw_bound _ JW) as HB. rewrite Forall_forall in *. intros j Ij.
    apply HB. unfold mentioned in Ij. simpl in Ij. rewrite app_nil_r in Ij.
    unfold wfinal in Ij. apply wrun_files_mentioned in Ij. exact Ij.
Qed.

(* ------------------------------------------------------------------ an accepted record *)
Lemma jw_appended y r sm1 :
  journal_wf y -> wf_record r ->
  rs_validate (m_rs (k_sm (y_core y))) r = None ->
  sm_apply (k_sm (y_core y)) r (ck_id (k_open (y_core y)))
           (ck_end (k_open (y_core y)), rec_size r) = (sm1, None) ->
  let o := ck_id (k_open (y_core y)) in
  let y1 := with_core y (appended (y_core y) r sm1) in
  journal_wf y1 /\ ids (logical y1) = ids (logical y) /\
  file_bytes (logical y1) o = file_bytes (logical y) o ++ enc_record r /\
  (forall j, j <> o -> file_bytes (logical y1) j = file_bytes (logical y) j).
Proof.
  intros JW Hr Hv Hs o y1.
  set (fb' := fun j => if N.eqb j o then file_bytes (logical y) o ++ enc_record r
                       else file_bytes (logical y) j).
  assert (Eo : fb' o = file_bytes (logical y) o ++ enc_record r).
  { unfold fb'. rewrite N.eqb_refl. reflexivity. }
  assert (Eother : forall j, j <> o -> fb' j = file_bytes (logical y) j).
  { intros j Hj. unfold fb'. destruct (N.eqb_spec j o); [contradiction|reflexivity]. }
  destruct (jw_build y1 (ids (logical y)) fb') as (JW1 & Hids & Hfb).
  - apply (jw_sorted _ JW).
  - apply (jw_open_in_FD _ JW).
  - apply (jw_newest _ JW).
  - apply (jw_bound _ JW).
  - apply (jw_ids_FD _ JW).
  - apply jinv_append with (fb := file_bytes (logical y)); try assumption. apply (jw_inv _ JW).
  - change (fb' o = file_bytes (fst (wfinal y)) o ++ (k_pending (y_core y) ++ enc_record r)).
    rewrite Eo. unfold o. rewrite (jw_fb_open _ JW), app_assoc. reflexivity.
  - intros j Hj. change (j <> o) in Hj. rewrite Eother by assumption.
    apply (jw_fb_other y j). assumption.
  - split; [assumption|]. split; [assumption|]. split.
    + rewrite Hfb. exact Eo.
    + intros j Hj. rewrite Hfb. apply Eother. assumption.
Qed.

(* ------------------------------------------------------------------ rotation *)
Lemma jw_rotated y1 :
  journal_wf y1 ->
  let k1 := y_core y1 in
  let off := ck_end (k_open k1) in
  let y2 := apply_effs (with_core y1 (rotated k1)) (rotate_effs k1) in
  journal_wf y2 /\ ids (logical y2) = ids (logical y1) ++ [off] /\
  file_bytes (logical y2) off = enc_record (RState (m_rs (k_sm k1))) /\
  (forall j, j <> off -> file_bytes (logical y2) j = file_bytes (logical y1) j).
Proof.
  intros JW k1 off y2.
  pose proof (jw_inv _ JW) as J. fold k1 in J.
  set (o := ck_id (k_open k1)) in *.
  set (head := enc_record (RState (m_rs (k_sm k1)))).
  set (lastid := r_last (m_rs (k_sm k1))).
  set (nf := mkFile off head 0).
  set (FD := fst (wfinal y1)).
  pose proof (jw_FD_sorted _ JW) as SFD. fold FD in SFD.
  pose proof (jw_ids_FD _ JW) as EFD. fold FD in EFD.
  pose proof (jw_open_in_FD _ JW) as IoFD. fold k1 o FD in IoFD.
  assert (Hoff : off = o + blen (file_bytes (logical y1) o)) by apply (ji_open_end _ _ _ J).
  assert (Hlt : o < off).
  { pose proof (chunk_ok_nonempty _ _ (ji_open_ok _ _ _ J)). fold o in H. lia. }
  assert (Hall : Forall (fun j => j < off) (ids FD)).
  { rewrite Forall_forall. intros j Ij. rewrite <- EFD in Ij.
    pose proof (ji_ids_le _ _ _ J j Ij). fold o in H. lia. }
  assert (Hfresh : ~ In off (mentioned (y_files y1) (y_queue y1))).
  { intros I. pose proof (jw_bound _ JW) as HB. rewrite Forall_forall in HB.
    specialize (HB _ I). fold k1 o in HB. lia. }
  destruct (jw_newest _ JW) as (older & pl & Enew). fold k1 o in Enew.
  pose proof (jw_sorted _ JW) as Sd.
  assert (Eput : disk_put nf FD = FD ++ [nf]) by (apply disk_put_last; exact Hall).
  assert (Sput : dsorted (disk_put nf FD)) by (apply dsorted_put, SFD).
  (* the final worker state after the rotation effects *)
  assert (HF : exists FD2 older2,
             wfinal y2 = (FD2, older2 ++ [mkWF off lastid]) /\ dsorted FD2 /\
             ids FD2 = ids FD ++ [off] /\
             file_bytes FD2 o = file_bytes FD o ++ k_pending k1 /\
             (forall j, j <> o -> file_bytes FD2 j = file_bytes (disk_put nf FD) j) /\
             y_disk y2 = disk_put nf (y_disk y1) /\ y_files y2 = y_files y1 /\
             Forall (fun i => i <= off) (mentioned (y_files y2) (y_queue y2))).
  { assert (HB : Forall (fun i => i <= off) (mentioned (y_files y1) (y_queue y1))).
    { eapply Forall_impl; [|apply (jw_bound _ JW)]. simpl. fold k1 o. intros a Ha. lia. }
    unfold y2, rotate_effs. fold off head lastid.
    destruct (k_pending k1) as [|b p1] eqn:Ep.
    - cbn [app apply_effs fold_left].
      rewrite wfinal_send, wfinal_create by (first [exact Sd|exact Hfresh]).
      change (wfinal (with_core y1 (rotated k1))) with (wfinal y1). fold nf FD.
      exists (disk_put nf FD), (snd (wfinal y1)).
      split; [reflexivity|]. split; [assumption|]. split.
      { rewrite Eput. unfold ids. rewrite map_app. reflexivity. }
      split.
      { rewrite fb_put. destruct (N.eqb_spec o (f_id nf)) as [E|E]; [simpl in E; lia|].
        rewrite app_nil_r. reflexivity. }
      split; [reflexivity|]. split; [reflexivity|]. split; [reflexivity|].
      simpl. rewrite mentioned_snoc. apply Forall_app. split; [assumption|].
      constructor; [apply N.le_refl|constructor].
    - cbn [app apply_effs fold_left].
      rewrite !wfinal_send, wfinal_create by (first [exact Sd|exact Hfresh]).
      change (wfinal (with_core y1 (rotated k1))) with (wfinal y1). fold nf FD.
      rewrite Enew.
      destruct (wstep_write older (mkWF o pl) (disk_put nf FD) off (b :: p1) None Sput)
        as (W1 & W2 & W3 & W4 & W5).
      cbn [wf_id] in W4, W5.
      set (s := wstep (disk_put nf FD, older ++ [mkWF o pl]) (WWrite off (b :: p1) None)) in *.
      exists (fst s), [mkWF o pl].
      split; [simpl; rewrite W1; reflexivity|]. split; [assumption|]. split.
      { rewrite W2, Eput. unfold ids. rewrite map_app. reflexivity. }
      split.
      { rewrite W4.
        - rewrite fb_put. destruct (N.eqb_spec o (f_id nf)) as [E|E]; [simpl in E; lia|].
          reflexivity.
        - apply In_ids_put. right. assumption. }
      split; [exact W5|]. split; [reflexivity|]. split; [reflexivity|].
      simpl. rewrite !mentioned_snoc. simpl. rewrite app_nil_r.
      apply Forall_app. split; [assumption|].
      constructor; [apply N.le_refl|constructor]. }
  destruct HF as (FD2 & older2 & Ew & SFD2 & Eids2 & Efo & Efother & Edisk & Efiles & Hb2).
  assert (Ecore : y_core y2 = rotated k1).
  { unfold y2. rewrite apply_effs_core. reflexivity. }
  set (fb' := fun j => if N.eqb j off then head else file_bytes (logical y1) j).
  assert (Eh : fb' off = head) by (unfold fb'; rewrite N.eqb_refl; reflexivity).
  assert (Eother : forall j, j <> off -> fb' j = file_bytes (logical y1) j).
  { intros j Hj. unfold fb'. destruct (N.eqb_spec j off); [contradiction|reflexivity]. }
  assert (Eopen2 : ck_id (k_open (y_core y2)) = off) by (rewrite Ecore; reflexivity).
  destruct (jw_build y2 (ids (logical y1) ++ [off]) fb') as (JW2 & Hids & Hfb).
  - rewrite Edisk. apply dsorted_put, (jw_sorted _ JW).
  - rewrite Eopen2, Ew. simpl. rewrite Eids2. apply in_app_iff. right. left. reflexivity.
  - rewrite Eopen2, Ew. simpl. eauto.
  - rewrite Eopen2. exact Hb2.
  - rewrite Ew. simpl. rewrite Eids2, EFD. reflexivity.
  - rewrite Ecore. apply jinv_rotate with (fb := file_bytes (logical y1)); assumption.
  - rewrite Eopen2, Ecore, Ew. simpl. rewrite app_nil_r, Eh.
    rewrite Efother by lia. rewrite fb_put. simpl. rewrite N.eqb_refl. reflexivity.
  - rewrite Eopen2, Ew. simpl. intros j Hj. rewrite Eother by assumption.
    destruct (N.eq_dec j o) as [E|E].
    + subst j. rewrite Efo. apply (jw_fb_open _ JW).
    + rewrite Efother by assumption. rewrite fb_put. simpl.
      destruct (N.eqb_spec j off); [contradiction|].
      apply (jw_fb_other y1 j). assumption.
  - split; [assumption|]. split; [assumption|]. split.
    + rewrite Hfb. exact Eh.
    + intros j Hj. rewrite Hfb. apply Eother. assumption.
Qed.

(* ------------------------------------------------------------------ append_and_apply *)
Lemma append_step y r k' w effs :
  journal_wf y -> wf_record r ->
  append_and_apply (y_core y) r = Ret (k', w, effs) ->
  let y' := apply_effs (with_core y k') effs in
  let oid := ck_id (k_open (y_core y)) in
  journal_wf y' /\ y_core y' = k' /\
  (forall off len, w = WOk off len ->
    file_bytes (logical y') oid = file_bytes (logical y) oid ++ enc_record r /\
    off = oid + N.of_nat (length (file_bytes (logical y) oid)) /\ len = rec_size r /\
    (forall id, id <> oid -> id <> ck_id (k_open k') ->
                file_bytes (logical y') id = file_bytes (logical y) id) /\
    (ck_id (k_open k') <> oid ->
       ck_id (k_open k') = oid + N.of_nat (length (file_bytes (logical y') oid)) /\
       file_bytes (logical y') (ck_id (k_open k')) = enc_record (RState (m_rs (k_sm k'))))).
Proof.
  intros JW Hr H. cbv zeta. set (oid := ck_id (k_open (y_core y))).
  split; [|split; [rewrite apply_effs_core; reflexivity|]].
  - apply append_and_apply_cases in H as [(Ek & Ee & e & Ew)|(sm1 & Hv & Hs & Ew & Ht)].
    + subst k' effs w. apply jw_with_core; [assumption|apply core_eqj_refl].
    + destruct (jw_appended y r sm1 JW Hr Hv Hs) as (JW1 & _).
      eapply try_close_cases in Ht as [(F & Ek & Ee)|(F & Ek & Ee)]; [| |reflexivity].
      * subst k' effs. exact JW1.
      * subst k' effs. apply (jw_rotated _ JW1).
  - intros off len E. subst w.
    apply append_and_apply_cases in H as [(Ek & Ee & e & Ew)|(sm1 & Hv & Hs & Ew & Ht)];
      [discriminate|].
    inversion Ew; subst off len; clear Ew.
    destruct (jw_appended y r sm1 JW Hr Hv Hs) as (JW1 & Hids1 & Hfo1 & Hfother1).
    set (k1 := appended (y_core y) r sm1) in *. set (y1 := with_core y k1) in *.
    fold oid in Hfo1, Hfother1.
    pose proof (ji_open_end _ _ _ (jw_inv _ JW)) as Hend. fold oid in Hend.
    eapply try_close_cases in Ht as [(F & Ek & Ee)|(F & Ek & Ee)]; [| |reflexivity].
    + subst k' effs. change (apply_effs (with_core y k1) []) with y1.
      split; [assumption|]. split; [exact Hend|]. split; [reflexivity|].
      split; [intros id H1 _; apply Hfother1; assumption|].
      intros Hne. exfalso. apply Hne. reflexivity.
    + destruct (jw_rotated y1 JW1) as (JW2 & Hids2 & Hfoff2 & Hfother2).
      change (y_core y1) with k1 in *.
      subst k' effs.
      change (apply_effs (with_core y (rotated k1)) (rotate_effs k1))
        with (apply_effs (with_core y1 (rotated k1)) (rotate_effs k1)).
      pose proof (ji_open_end _ _ _ (jw_inv _ JW1)) as Hend1.
      change (y_core y1) with k1 in Hend1. change (ck_id (k_open k1)) with oid in Hend1.
      assert (Hlt : oid < ck_end (k_open k1)).
      { pose proof (chunk_ok_nonempty _ _ (ji_open_ok _ _ _ (jw_inv _ JW1))) as Hp.
        change (ck_id (k_open (y_core y1))) with oid in Hp. lia. }
      split; [rewrite Hfother2 by lia; assumption|]. split; [exact Hend|].
      split; [reflexivity|]. split.
      { intros id H1 H2. change (ck_id (k_open (rotated k1))) with (ck_end (k_open k1)) in H2.
        rewrite Hfother2 by assumption. apply Hfother1. assumption. }
      intros _. change (ck_id (k_open (rotated k1))) with (ck_end (k_open k1)). split.
      { rewrite Hfother2 by lia. exact Hend1. }
      exact Hfoff2.
Qed.

Lemma append_step_jw y r k' w effs :
  journal_wf y -> wf_record r -> append_and_apply (y_core y) r = Ret (k', w, effs) ->
  journal_wf (apply_effs (with_core y k') effs).
Proof. intros JW Hr H. apply (append_step y r k' w effs JW Hr H). Qed.

(* ------------------------------------------------------------------ purge, flush *)
Lemma jw_purged y upto rm rest :
  journal_wf y -> pop_obsolete upto (k_closed (y_core y)) = (rm, rest) ->
  journal_wf (with_core y (purged_core (y_core y) rm rest)).
Proof.
  intros JW H.
  assert (El : logical (with_core y (purged_core (y_core y) rm rest)) = logical y).
  { rewrite !logical_eq. reflexivity. }
  constructor.
  - apply (jw_sorted _ JW).
  - rewrite El. apply jinv_purge with (upto := upto); [apply (jw_inv _ JW)|exact H].
  - apply (jw_newest _ JW).
  - apply (jw_bound _ JW).
Qed.

Lemma filter_none {A} (p : A -> bool) l : (forall x, In x l -> p x = false) -> filter p l = [].
Proof.
  induction l as [|a l IH]; intros H; [reflexivity|]. simpl.
  rewrite (H a) by (left; reflexivity). apply IH. intros x Ix. apply H. right; assumption.
Qed.

Lemma filter_all {A} (p : A -> bool) l : (forall x, In x l -> p x = true) -> filter p l = l.
Proof.
  induction l as [|a l IH]; intros H; [reflexivity|]. simpl.
  rewrite (H a) by (left; reflexivity). f_equal. apply IH. intros x Ix. apply H. right; assumption.
Qed.

Lemma mem_false j l : ~ In j l -> mem j l = false.
Proof.
  intros H. destruct (mem j l) eqn:E; [|reflexivity]. apply mem_In in E. contradiction.
Qed.

Lemma filter_notmem_app rm rest : StronglySorted N.lt (rm ++ rest) ->
  filter (fun j => negb (mem j rm)) (rm ++ rest) = rest.
Proof.
  intros S. apply ss_app_inv in S as (_ & _ & S). rewrite filter_app.
  rewrite filter_none, filter_all; [reflexivity| |].
  - intros x Ix. rewrite mem_false; [reflexivity|]. intros I. specialize (S _ _ I Ix). lia.
  - intros x Ix. apply mem_In in Ix. rewrite Ix. reflexivity.
Qed.

Definition flush_effs (W : wreq) (rm : list N) : list eff :=
  ESend W :: match rm with [] => [] | ids => [ESend (WRemove ids)] end.

Lemma wfinal_flush y k' W rm :
  wfinal (apply_effs (with_core y k') (flush_effs W rm)) =
  (remove_all rm (fst (wstep (wfinal y) W)), snd (wstep (wfinal y) W)).
Proof.
  unfold flush_effs. destruct rm as [|a rm]; cbn [apply_effs fold_left]; rewrite ?wfinal_send;
    change (wfinal (with_core y k')) with (wfinal y).
  - apply (surjective_pairing (wstep (wfinal y) W)).
  - reflexivity.
Qed.

Lemma flush_effs_sys y k' W rm :
  let y' := apply_effs (with_core y k') (flush_effs W rm) in
  y_disk y' = y_disk y /\ y_files y' = y_files y /\
  mentioned (y_files y') (y_queue y') = mentioned (y_files y) (y_queue y) ++ req_ids W ++ rm.
Proof.
  unfold flush_effs. destruct rm as [|a rm]; cbn [apply_effs fold_left]; simpl;
    rewrite ?mentioned_snoc; simpl; rewrite ?app_nil_r, <- ?app_assoc; auto.
Qed.

Lemma jw_flush y cb :
  journal_wf y ->
  journal_wf (apply_effs (with_core y (fst (do_flush (y_core y) cb))) (snd (do_flush (y_core y) cb))).
Proof.
  intros JW.
  pose proof (jw_inv _ JW) as J.
  pose proof (jw_FD_sorted _ JW) as SFD.
  pose proof (jw_ids_FD _ JW) as EFD.
  pose proof (jw_open_in_FD _ JW) as IoFD.
  destruct (jw_newest _ JW) as (older & pl & Enew).
  remember (y_core y) as k eqn:Ek.
  remember (ck_id (k_open k)) as o eqn:Eo.
  remember (k_removed k) as rm eqn:Erm.
  remember (fst (wfinal y)) as FD eqn:EFDdef.
  assert (Ewf : wfinal y = (FD, older ++ [mkWF o pl])).
  { rewrite (surjective_pairing (wfinal y)), <- EFDdef, Enew. reflexivity. }
  remember (if cb then Some (k_next_cb k) else None) as cbo eqn:Ecbo.
  remember (if cb then k_next_cb k + 1 else k_next_cb k) as cbn eqn:Ecbn.
  remember (WWrite (ck_end (k_open k)) (k_pending k) cbo) as W eqn:EW.
  destruct (wstep_write older (mkWF o pl) FD (ck_end (k_open k)) (k_pending k) cbo SFD)
    as (W1 & W2 & W3 & W4 & W5).
  cbn [wf_id] in W4, W5. specialize (W4 IoFD). rewrite <- EW in *.
  remember (wstep (FD, older ++ [mkWF o pl]) W) as s1 eqn:Es1.
  assert (Hrm_lt : forall j, In j rm -> j < o).
  { intros j Ij. subst rm o. apply (ji_removed_lt _ _ _ J). assumption. }
  assert (Edo : do_flush k cb = (flushed_core k cbn, flush_effs W rm)).
  { unfold do_flush, flush_effs, flushed_core. subst. destruct (k_removed (y_core y)); reflexivity. }
  rewrite Edo. cbn [fst snd].
  remember (apply_effs (with_core y (flushed_core k cbn)) (flush_effs W rm)) as y' eqn:Ey'.
  assert (Ew : wfinal y' = (remove_all rm (fst s1), [mkWF o pl])).
  { subst y'. rewrite wfinal_flush, Ewf, <- Es1, W1. reflexivity. }
  destruct (flush_effs_sys y (flushed_core k cbn) W rm) as (Edisk & Efiles & Ement).
  rewrite <- Ey' in Edisk, Efiles, Ement.
  assert (Ecore : y_core y' = flushed_core k cbn).
  { subst y'. rewrite apply_effs_core. reflexivity. }
  assert (Eopen' : ck_id (k_open (y_core y')) = o) by (rewrite Ecore; subst o; reflexivity).
  assert (Hsort : StronglySorted N.lt (rm ++ closed_ids k ++ [o])).
  { pose proof (ji_sorted _ _ _ J) as S. rewrite (ji_ids _ _ _ J) in S.
    unfold chunk_ids in S. subst rm o. exact S. }
  assert (Eids' : ids (remove_all rm (fst s1)) = closed_ids k ++ [o]).
  { rewrite ids_remove_all, W2, <- EFD, (ji_ids _ _ _ J). unfold chunk_ids.
    rewrite <- Erm, <- Eo. apply filter_notmem_app. exact Hsort. }
  assert (Hnot : forall j, In j (closed_ids k ++ [o]) -> mem j rm = false).
  { intros j Ij. apply mem_false. intros I.
    apply ss_app_inv in Hsort as (_ & _ & S). specialize (S _ _ I Ij). lia. }
  set (fb' := fun j => if mem j rm then [] else file_bytes (logical y) j).
  destruct (jw_build y' (closed_ids k ++ [o]) fb') as (JW' & _ & _).
  - rewrite Edisk. apply (jw_sorted _ JW).
  - rewrite Eopen', Ew. simpl. rewrite Eids'. apply in_app_iff. right. left. reflexivity.
  - rewrite Eopen', Ew. simpl. exists [], pl. reflexivity.
  - rewrite Eopen', Ement. apply Forall_app. split.
    + pose proof (jw_bound _ JW) as HB. rewrite <- Ek, <- Eo in HB. exact HB.
    + subst W. simpl. rewrite Forall_forall. intros j Ij. specialize (Hrm_lt _ Ij). lia.
  - rewrite Ew. simpl. symmetry. exact Eids'.
  - rewrite Ecore, Eo. apply jinv_flush with (idl := ids (logical y)) (fb := file_bytes (logical y)); [exact J|].
    rewrite <- Eo. intros j Ij. unfold fb'. rewrite (Hnot j Ij). reflexivity.
  - rewrite Eopen', Ecore, Ew. simpl. rewrite app_nil_r. unfold fb'.
    rewrite fb_remove_all.
    rewrite (Hnot o) by (apply in_app_iff; right; left; reflexivity).
    rewrite W4. subst o k FD. apply (jw_fb_open _ JW).
  - rewrite Eopen', Ew. simpl. intros j Hj. unfold fb'. rewrite fb_remove_all.
    destruct (mem j rm); [reflexivity|]. rewrite W5 by assumption.
    subst o k FD. apply (jw_fb_other y j). assumption.
  - exact JW'.
Qed.

(* ------------------------------------------------------------------ caller operations *)
Definition wop_wf (w : wop) : Prop :=
  match w with
  | OVote v => wf_pair v
  | OAppend es => Forall (fun e => wf_pair (fst e) /\ wf_bytes (snd e)) es
  | OTruncate _ => True
  | OPurge u => wf_pair u
  | OCommit id => wf_pair id
  | OUser u => wf_opt wf_bytes u
  | OUpdateState st => wf_rstate st
  end.
Definition op_wf (o : op) : Prop := match o with OW w => wop_wf w | _ => True end.
Definition op_c11 (o : op) : bool := match o with ORestart _ => false | _ => true end.
Definition ops_c11 (ops : list op) : bool := forallb op_c11 ops.

Lemma jw_noop y : journal_wf y -> journal_wf (apply_effs (with_core y (y_core y)) []).
Proof. intros JW. apply jw_with_core; [assumption|apply core_eqj_refl]. Qed.

Lemma jw_do_append es : forall k acc effs0 k' w effs,
  Forall (fun e => wf_pair (fst e) /\ wf_bytes (snd e)) es ->
  do_append k es acc effs0 = Ret (k', w, effs) ->
  exists effs1, effs = effs0 ++ effs1 /\
    forall y, y_core y = k -> journal_wf y -> journal_wf (apply_effs (with_core y k') effs1).
Proof.
  induction es as [|[id p] es IH]; intros k acc effs0 k' w effs Hwf H; simpl in H.
  - inversion H; subst. exists []. rewrite app_nil_r. split; [reflexivity|].
    intros y Hy JW. subst k'. apply jw_noop. assumption.
  - inversion Hwf as [|? ? Hw1 Hw2]; subst.
    destruct (append_and_apply k (RAppend id p)) as [[[k1 w1] ef]|] eqn:Ea; [|discriminate].
    destruct w1 as [off len|e].
    + destruct (IH _ _ _ _ _ _ Hw2 H) as (effs2 & E2 & Hstep).
      exists (ef ++ effs2). split; [rewrite E2, app_assoc; reflexivity|].
      intros y Hy JW. subst k.
      destruct (append_step y (RAppend id p) k1 _ ef JW Hw1 Ea) as (JW1 & Hc1 & _).
      specialize (Hstep _ Hc1 JW1).
      rewrite apply_effs_app, !apply_effs_with_core.
      rewrite !apply_effs_with_core in Hstep. exact Hstep.
    + inversion H; subst. exists ef. split; [reflexivity|].
      intros y Hy JW. subst k.
      apply (append_step y (RAppend id p) k' _ ef JW Hw1 Ea).
Qed.

Lemma lm_get_In i m d : lm_get i m = Some d -> In (i, d) m.
Proof.
  induction m as [|[i' d'] m IH]; simpl; [discriminate|].
  destruct (N.eqb_spec i i') as [E|E]; intros H.
  - inversion H; subst. left; reflexivity.
  - right. apply IH. assumption.
Qed.

Lemma jw_do_write y w k' res effs :
  journal_wf y -> wop_wf w -> do_write (y_core y) w = Ret (k', res, effs) ->
  journal_wf (apply_effs (with_core y k') effs).
Proof.
  intros JW Hw H.
  pose proof (jw_inv _ JW) as J.
  pose proof (ji_rs _ _ _ J) as (Wv & Wl & Wc & Wp & Wu).
  destruct w as [v|es|i|upto|id|u|st]; simpl in H, Hw.
  - apply (append_step y (RVote v) _ _ _ JW Hw H).
  - destruct (wal_last_segment (y_core y)) as [w0|]; [|discriminate].
    destruct (jw_do_append _ _ _ _ _ _ _ Hw H) as (effs1 & E & Hstep).
    simpl in E. subst effs1. apply Hstep; [reflexivity|assumption].
  - destruct (N.eqb i (next_index (r_purged (m_rs (k_sm (y_core y)))))).
    { apply (append_step y (RTrunc (r_purged (m_rs (k_sm (y_core y))))) _ _ _ JW Wp H). }
    destruct (N.eqb i 0).
    { inversion H; subst. apply jw_noop. assumption. }
    unfold lm_get_id in H.
    destruct (lm_get (i - 1) (m_log (k_sm (y_core y)))) as [d|] eqn:El.
    + apply lm_get_In in El. pose proof (ji_log _ _ _ J) as HL. rewrite Forall_forall in HL.
      destruct (HL _ El) as (Wd & _). simpl in Wd.
      apply (append_step y (RTrunc (Some (ld_id d))) _ _ _ JW Wd H).
    + inversion H; subst. apply jw_noop. assumption.
  - destruct (N.ltb (lid_index upto) (next_index (r_purged (m_rs (k_sm (y_core y)))))).
    { destruct (wal_last_segment (y_core y)) as [w0|]; [|discriminate].
      inversion H; subst. apply jw_noop. assumption. }
    destruct (append_and_apply (y_core y) (RPurge upto)) as [[[k1 w1] ef]|] eqn:Ea; [|discriminate].
    destruct (append_step y (RPurge upto) k1 w1 ef JW Hw Ea) as (JW1 & Hc1 & _).
    destruct w1 as [off len|e].
    + destruct (pop_obsolete upto (k_closed k1)) as [rm rest] eqn:Ep.
      inversion H; subst k' res effs. clear H.
      rewrite apply_effs_with_core.
      rewrite <- (with_core_with_core (apply_effs y ef) k1).
      rewrite <- apply_effs_with_core.
      rewrite <- Hc1 in Ep.
      pose proof (jw_purged _ upto rm rest JW1 Ep) as JWp.
      rewrite Hc1 in JWp. exact JWp.
    + inversion H; subst. exact JW1.
  - apply (append_step y (RCommit id) _ _ _ JW Hw H).
  - refine (append_step_jw y (RState (rs_set_user (m_rs (k_sm (y_core y))) u)) _ _ _ JW _ H).
    simpl. unfold wf_rstate. simpl. tauto.
  - apply (append_step y (RState st) _ _ _ JW Hw H).
Qed.

Lemma do_read_core k d from to : core_eqj k (fst (do_read k d from to)).
Proof.
  unfold do_read.
  destruct (read_items (m_cache (k_sm k)) (k_closed k) d
              (lm_range from (N.max to from) (m_log (k_sm k))) (k_hit k) (k_miss k))
    as [[items h] ms].
  simpl. repeat split.
Qed.

Lemma jw_run_op y o y' res :
  journal_wf y -> op_c11 o = true -> op_wf o -> run_op y o = (Some y', res) -> journal_wf y'.
Proof.
  intros JW Hc Hw H. destruct o as [w|cb|from to| | | | | |cfg]; unfold run_op in H.
  - destruct (do_write (y_core y) w) as [[[k r] effs]|] eqn:E; [|discriminate].
    inversion H; subst. apply (jw_do_write y w k r effs JW Hw E).
  - pose proof (jw_flush y cb JW) as JF.
    destruct (do_flush (y_core y) cb) as [k effs]. inversion H; subst. exact JF.
  - pose proof (do_read_core (y_core y) (y_disk y) from to) as Ec.
    destruct (do_read (y_core y) (y_disk y) from to) as [k items]. inversion H; subst.
    apply jw_with_core; assumption.
  - inversion H; subst. assumption.
  - inversion H; subst. assumption.
  - inversion H; subst. assumption.
  - inversion H; subst. apply jw_idle. assumption.
  - inversion H; subst. apply jw_with_core; [assumption|apply core_eqj_cache].
  - discriminate.
Qed.

Lemma jw_run_ops ops : forall y res y',
  journal_wf y -> ops_c11 ops = true -> Forall op_wf ops ->
  run_ops y ops = (res, Some y') -> journal_wf y'.
Proof.
  induction ops as [|o ops IH]; intros y res y' JW Hc Hw H; simpl in H.
  - inversion H; subst. assumption.
  - simpl in Hc. apply andb_true_iff in Hc as [Hc1 Hc2].
    inversion Hw as [|? ? Hw1 Hw2]; subst.
    destruct (run_op y o) as [[y1|] r1] eqn:E.
    + destruct (run_ops y1 ops) as [rs fin] eqn:E2. inversion H; subst.
      apply (IH y1 rs y'); try assumption. apply (jw_run_op y o y1 r1); assumption.
    + inversion H.
Qed.

(* ------------------------------------------------------------------ the initial state *)
Definition sys0 (cfg : config) : sys :=
  let head := enc_record (RState rstate0) in
  mkSys (mkCore cfg (sm_new cfg) (ck_push (mkChunk 0 []) (N.of_nat (length head))) [] [] [] 0 0 0)
        [mkFile 0 head 0] [] [mkWF 0 None] [].

Lemma open_dir_nil cfg : open_dir cfg [] = OpenOk (sys0 cfg).
Proof. reflexivity. Qed.

Lemma jw_init cfg : journal_wf (sys0 cfg).
Proof.
  set (head := enc_record (RState rstate0)).
  set (fb' := fun j => if N.eqb j 0 then head else []).
  assert (W0 : wf_rstate rstate0) by (unfold wf_rstate; simpl; tauto).
  destruct (jw_build (sys0 cfg) [0] fb') as (JW & _ & _).
  - unfold dsorted. simpl. repeat constructor.
  - simpl. left. reflexivity.
  - exists [], None. reflexivity.
  - simpl. repeat constructor. apply N.le_refl.
  - reflexivity.
  - constructor.
    + reflexivity.
    + repeat constructor.
    + simpl. auto.
    + unfold live_chunks. simpl. constructor; [|constructor].
      apply (chunk_ok_fresh fb' rstate0 0 W0). reflexivity.
    + simpl. exact I.
    + exact W0.
    + simpl. constructor.
  - reflexivity.
  - intros j Hj. simpl in Hj. unfold fb'. destruct (N.eqb_spec j 0); [contradiction|].
    unfold file_bytes. simpl. destruct (N.eqb_spec j 0); [contradiction|reflexivity].
  - exact JW.
Qed.

(* ================================================================== the theorems *)
Theorem C11_invariant : forall cfg ops res y,
  ops_c11 ops = true -> Forall op_wf ops ->
  run_case cfg ops = (res, Some y) -> journal_wf y.
Proof.
  intros cfg ops res y Hc Hw H. unfold run_case in H. rewrite open_dir_nil in H.
  apply (jw_run_ops ops (sys0 cfg) res y); try assumption. apply jw_init.
Qed.

Theorem C11_write_appends : forall y r k' off len effs, journal_wf y ->
  append_and_apply (y_core y) r = Ret (k', WOk off len, effs) -> wf_record r ->
  let y' := apply_effs (with_core y k') effs in
  let oid := ck_id (k_open (y_core y)) in
  file_bytes (logical y') oid = file_bytes (logical y) oid ++ enc_record r /\
  off = oid + N.of_nat (length (file_bytes (logical y) oid)) /\ len = rec_size r /\
  (forall id, id <> oid -> id <> ck_id (k_open k') ->
     file_bytes (logical y') id = file_bytes (logical y) id) /\
  (ck_id (k_open k') <> oid ->
     ck_id (k_open k') = oid + N.of_nat (length (file_bytes (logical y') oid)) /\
     file_bytes (logical y') (ck_id (k_open k')) = enc_record (RState (m_rs (k_sm k')))).
Proof.
  intros y r k' off len effs JW H Hr.
  destruct (append_step y r k' _ effs JW Hr H) as (_ & _ & Hd).
  apply (Hd off len eq_refl).
Qed.

(* the write preserves the invariant (so the theorem above can be iterated) *)
Theorem C11_write_preserves : forall y r k' w effs, journal_wf y -> wf_record r ->
  append_and_apply (y_core y) r = Ret (k', w, effs) ->
  journal_wf (apply_effs (with_core y k') effs).
Proof. intros y r k' w effs JW Hr H. apply (append_step y r k' w effs JW Hr H). Qed.

Theorem C11_on_disk_size : forall y, journal_wf y ->
  do_on_disk_size (y_core y) =
  nsum (map (fun id => N.of_nat (length (file_bytes (logical y) id)))
            (closed_ids (y_core y) ++ [ck_id (k_open (y_core y))])).
Proof.
  intros y JW. pose proof (jw_inv _ JW) as J.
  set (k := y_core y) in *. set (fb := file_bytes (logical y)) in *.
  pose proof (ji_abut _ _ _ J) as A. rewrite (ji_ids _ _ _ J) in A. unfold chunk_ids in A.
  apply abut_app_r in A.
  pose proof (ji_open_end _ _ _ J) as He.
  unfold do_on_disk_size. fold k. rewrite He.
  change (fun id => N.of_nat (length (fb id))) with (fun id => blen (fb id)).
  unfold closed_ids in *. destruct (k_closed k) as [|c cs]; simpl map in *.
  - simpl app in *. apply (abut_total fb [] _ _ A). reflexivity.
  - change ((ck_id (cl_chunk c) :: map (fun c0 => ck_id (cl_chunk c0)) cs) ++ [ck_id (k_open k)])
      with (ck_id (cl_chunk c) :: (map (fun c0 => ck_id (cl_chunk c0)) cs ++ [ck_id (k_open k)]))
      in *.
    apply (abut_total fb _ _ _ A).
    rewrite app_comm_cons. apply last_last.
Qed.

Theorem C11_idle_disk_is_journal : forall y, journal_wf y ->
  y_queue y = [] -> k_pending (y_core y) = [] -> logical y = y_disk y.
Proof.
  intros y JW Hq Hp. rewrite logical_eq, Hp. unfold wfinal. rewrite Hq. simpl.
  apply disk_append_nil, (jw_sorted _ JW).
Qed.

(* (e): every file on the real disk holds a prefix of its logical file *)
Theorem C11_disk_is_prefix : forall y id f, dsorted (y_disk y) ->
  disk_get id (y_disk y) = Some f -> In id (ids (logical y)) ->
  exists tl, file_bytes (logical y) id = f_data f ++ tl.
Proof.
  intros y id f S Hf I.
  pose proof (wfinal_sorted _ S) as SF.
  rewrite logical_eq in *. rewrite ids_append in I by assumption.
  destruct (disk_get_Some_In _ _ I) as [g Hg].
  destruct (wrun_extends (y_queue y) (wproj y) id f g S Hf Hg) as [tl E].
  set (o := ck_id (k_open (y_core y))) in *.
  destruct (N.eq_dec id o) as [Eo|Eo].
  - subst id. rewrite fb_append_same by assumption.
    unfold file_bytes. fold (wfinal y). rewrite Hg, E, <- app_assoc. eauto.
  - rewrite fb_append_other by assumption.
    unfold file_bytes. fold (wfinal y). rewrite Hg, E. eauto.
Qed.

Lemma app_eq_prefix {A} (u : list A) : forall x y v,
  x ++ y = u ++ v -> (length u <= length x)%nat -> exists w, x = u ++ w.
Proof.
  induction u as [|a u IH]; intros x y v H L.
  - exists x. reflexivity.
  - destruct x as [|b x]; [simpl in L; lia|].
    simpl in H. inversion H; subst. simpl in L.
    destruct (IH x y v H2 ltac:(lia)) as [w Ew]. exists w. subst x. reflexivity.
Qed.

(* reading an index-map entry that lives in a closed chunk yields its own Append
   record, or Eof while the bytes are not yet written; nothing else *)
Theorem C11_read_record_is_append : forall y i ld c, journal_wf y ->
  In (i, ld) (m_log (k_sm (y_core y))) -> In c (k_closed (y_core y)) ->
  ck_id (cl_chunk c) = ld_chunk ld ->
  (exists p, read_record (y_disk y) (cl_chunk c) (ld_off ld) (ld_len ld)
             = Ret (inl (RAppend (ld_id ld) p))) \/
  read_record (y_disk y) (cl_chunk c) (ld_off ld) (ld_len ld) = Ret (inr EDecodeEof).
Proof.
  intros y i ld c JW Il Ic Eid. pose proof (jw_inv _ JW) as J.
  pose proof (ji_log _ _ _ J) as HL. rewrite Forall_forall in HL.
  destruct (HL _ Il) as (Wid & _ & Hseg). cbn [snd] in Wid, Hseg.
  assert (Iid : In (ld_chunk ld) (ids (logical y))).
  { rewrite (ji_ids _ _ _ J), <- Eid. unfold chunk_ids. apply in_app_iff. right.
    apply in_app_iff. left. unfold closed_ids.
    apply (in_map (fun c => ck_id (cl_chunk c))). assumption. }
  destruct (Hseg Iid) as (pre & p & post & Wp & Ef & Eoff & Elen).
  unfold read_record. rewrite Eid.
  (* the segment starts inside its chunk: no underflow *)
  destruct (N.ltb_spec (ld_off ld) (ld_chunk ld)) as [Hu|_]; [unfold blen in Eoff; lia|].
  destruct (disk_get (ld_chunk ld) (y_disk y)) as [f|] eqn:Eg; [|right; reflexivity].
  destruct (C11_disk_is_prefix y _ f (jw_sorted _ JW) Eg Iid) as [tl Etl].
  destruct (N.ltb_spec (N.of_nat (length (f_data f))) (ld_off ld - ld_chunk ld + ld_len ld))
    as [L|L]; [right; reflexivity|].
  left. exists p.
  set (e := enc_record (RAppend (ld_id ld) p)) in *.
  assert (Erel : ld_off ld - ld_chunk ld = blen pre) by lia.
  rewrite Erel in *. unfold rec_size in Elen. fold e in Elen.
  assert (Hx : exists w, f_data f = (pre ++ e) ++ w).
  { apply (app_eq_prefix (pre ++ e) (f_data f) tl post).
    - rewrite <- Etl, Ef, app_assoc. reflexivity.
    - rewrite app_length. unfold blen in L. lia. }
  destruct Hx as [w Ew]. rewrite Ew, Elen. unfold blen. rewrite !Nat2N.id.
  rewrite <- app_assoc, skipn_app, skipn_all, Nat.sub_diag. cbn [skipn app].
  rewrite firstn_app, firstn_all, Nat.sub_diag. cbn [firstn]. rewrite app_nil_r.
  rewrite <- (app_nil_r e). unfold e. rewrite dec_enc_record; [reflexivity|].
  simpl. split; assumption.
Qed.

(* ------------------------------------------------------------------ readable form of the invariant *)
Theorem C11_structure : forall y, journal_wf y ->
  let k := y_core y in
  let D := logical y in
  let o := ck_id (k_open k) in
  (* (a) the files of the logical directory *)
  ids D = k_removed k ++ map (fun c => ck_id (cl_chunk c)) (k_closed k) ++ [o] /\
  StronglySorted N.lt (ids D) /\
  (* (b) consecutive files abut *)
  (forall pre a b post, ids D = pre ++ a :: b :: post ->
     b = a + N.of_nat (length (file_bytes D a))) /\
  (* (c) every live chunk file is a sequence of well-formed records, headed by a state
     snapshot, and the chunk's offset table is that of these records *)
  (forall c, In c (map cl_chunk (k_closed k) ++ [k_open k]) ->
     exists rs, Forall wf_record rs /\ file_bytes D (ck_id c) = encs rs /\
                ck_ends c = ends_from (ck_id c) (map rec_size rs) /\
                exists st tl, rs = RState st :: tl) /\
  (* the snapshot heading the successor of a closed chunk is that chunk's closing state *)
  heads_ok (file_bytes D) (k_closed k) o /\
  (* (d) after the queue is processed the worker's newest file is the open chunk *)
  (exists older pl, y_files (worker_idle y) = older ++ [mkWF o pl]) /\
  (* (f) index-map entries point at the encoding of their own Append record *)
  (forall i ld, In (i, ld) (m_log (k_sm k)) ->
     wf_pair (ld_id ld) /\ ld_chunk ld <= o /\
     (In (ld_chunk ld) (ids D) ->
      exists pre p post, wf_bytes p /\
        file_bytes D (ld_chunk ld) = pre ++ enc_record (RAppend (ld_id ld) p) ++ post /\
        ld_off ld = ld_chunk ld + N.of_nat (length pre) /\
        ld_len ld = rec_size (RAppend (ld_id ld) p))).
Proof.
  intros y JW k D o. pose proof (jw_inv _ JW) as J. fold k D in J.
  split; [apply (ji_ids _ _ _ J)|]. split; [apply (ji_sorted _ _ _ J)|].
  split; [apply (abut_spec _ _ (ji_abut _ _ _ J))|].
  split.
  { pose proof (ji_chunks _ _ _ J) as HC. rewrite Forall_forall in HC. exact HC. }
  split; [apply (ji_heads _ _ _ J)|].
  split; [rewrite worker_idle_files; apply (jw_newest _ JW)|].
  intros i ld I. pose proof (ji_log _ _ _ J) as HL. rewrite Forall_forall in HL.
  apply (HL _ I).
Qed.

(* ------------------------------------------------------------------ rotation as an invariant *)
(* after every caller operation the open chunk is below its limits, unless it holds
   nothing but its head snapshot (limits so small that the head alone exceeds them) *)
Definition nf_ok (k : core) : Prop :=
  is_full (k_cfg k) (k_open k) = true -> ck_records (k_open k) = 1.

Lemma nf_core_eqj k k' : nf_ok k -> core_eqj k k' -> nf_ok k'.
Proof. intros H (E1 & E2 & _). unfold nf_ok. rewrite E1, E2. exact H. Qed.

Lemma nf_append_and_apply k r k' w effs :
  nf_ok k -> append_and_apply k r = Ret (k', w, effs) -> nf_ok k'.
Proof.
  intros Hk H.
  apply append_and_apply_cases in H as [(Ek & _)|(sm1 & _ & _ & _ & Ht)]; [subst; exact Hk|].
  eapply try_close_cases in Ht as [(F & Ek & _)|(_ & Ek & _)]; [| |reflexivity]; subst k'.
  - intros F'. rewrite F in F'. discriminate.
  - intros _. reflexivity.
Qed.

Lemma nf_do_append es : forall k acc effs0 k' w effs,
  nf_ok k -> do_append k es acc effs0 = Ret (k', w, effs) -> nf_ok k'.
Proof.
  induction es as [|[id p] es IH]; intros k acc effs0 k' w effs Hk H; simpl in H.
  - inversion H; subst. exact Hk.
  - destruct (append_and_apply k (RAppend id p)) as [[[k1 w1] ef]|] eqn:Ea; [|discriminate].
    pose proof (nf_append_and_apply _ _ _ _ _ Hk Ea) as H1.
    destruct w1 as [off len|e].
    + apply (IH _ _ _ _ _ _ H1 H).
    + inversion H; subst. exact H1.
Qed.

Lemma nf_do_write k w k' res effs : nf_ok k -> do_write k w = Ret (k', res, effs) -> nf_ok k'.
Proof.
  intros Hk H. destruct w as [v|es|i|upto|id|u|st]; simpl in H.
  - apply (nf_append_and_apply _ _ _ _ _ Hk H).
  - destruct (wal_last_segment k) as [w0|]; [|discriminate]. apply (nf_do_append _ _ _ _ _ _ _ Hk H).
  - destruct (N.eqb i (next_index (r_purged (m_rs (k_sm k))))).
    { apply (nf_append_and_apply _ _ _ _ _ Hk H). }
    destruct (N.eqb i 0); [inversion H; subst; exact Hk|].
    destruct (lm_get_id k (i - 1)); [|inversion H; subst; exact Hk].
    apply (nf_append_and_apply _ _ _ _ _ Hk H).
  - destruct (N.ltb (lid_index upto) (next_index (r_purged (m_rs (k_sm k))))).
    { destruct (wal_last_segment k); [|discriminate]. inversion H; subst. exact Hk. }
    destruct (append_and_apply k (RPurge upto)) as [[[k1 w1] ef]|] eqn:Ea; [|discriminate].
    pose proof (nf_append_and_apply _ _ _ _ _ Hk Ea) as H1.
    destruct w1 as [off len|e].
    + destruct (pop_obsolete upto (k_closed k1)) as [rm rest]. inversion H; subst. exact H1.
    + inversion H; subst. exact H1.
  - apply (nf_append_and_apply _ _ _ _ _ Hk H).
  - apply (nf_append_and_apply _ _ _ _ _ Hk H).
  - apply (nf_append_and_apply _ _ _ _ _ Hk H).
Qed.

Lemma nf_run_op y o y' res :
  nf_ok (y_core y) -> op_c11 o = true -> run_op y o = (Some y', res) -> nf_ok (y_core y').
Proof.
  intros Hk Hc H. destruct o as [w|cb|from to| | | | | |cfg]; unfold run_op in H.
  - destruct (do_write (y_core y) w) as [[[k r] effs]|] eqn:E; [|discriminate].
    inversion H; subst. rewrite apply_effs_core. apply (nf_do_write _ _ _ _ _ Hk E).
  - unfold do_flush in H. inversion H; subst. rewrite apply_effs_core. exact Hk.
  - pose proof (do_read_core (y_core y) (y_disk y) from to) as Ec.
    destruct (do_read (y_core y) (y_disk y) from to) as [k items]. inversion H; subst.
    apply (nf_core_eqj _ _ Hk Ec).
  - inversion H; subst. exact Hk.
  - inversion H; subst. exact Hk.
  - inversion H; subst. exact Hk.
  - inversion H; subst. apply (nf_core_eqj _ _ Hk (worker_idle_core y)).
  - inversion H; subst. apply (nf_core_eqj _ _ Hk (core_eqj_cache _ _)).
  - discriminate.
Qed.

Lemma nf_run_ops ops : forall y res y',
  nf_ok (y_core y) -> ops_c11 ops = true -> run_ops y ops = (res, Some y') -> nf_ok (y_core y').
Proof.
  induction ops as [|o ops IH]; intros y res y' Hk Hc H; simpl in H.
  - inversion H; subst. assumption.
  - simpl in Hc. apply andb_true_iff in Hc as [Hc1 Hc2].
    destruct (run_op y o) as [[y1|] r1] eqn:E.
    + destruct (run_ops y1 ops) as [rs fin] eqn:E2. inversion H; subst.
      apply (IH y1 rs y'); try assumption. apply (nf_run_op y o y1 r1); assumption.
    + inversion H.
Qed.

Theorem C11_rotation_invariant : forall cfg ops res y,
  ops_c11 ops = true -> run_case cfg ops = (res, Some y) ->
  is_full (k_cfg (y_core y)) (k_open (y_core y)) = true -> ck_records (k_open (y_core y)) = 1.
Proof.
  intros cfg ops res y Hc H. unfold run_case in H. rewrite open_dir_nil in H.
  apply (nf_run_ops ops (sys0 cfg) res y); try assumption.
  intros _. reflexivity.
Qed.

Print Assumptions C11_invariant.
Print Assumptions C11_write_appends.
Print Assumptions C11_on_disk_size.
Print Assumptions C11_idle_disk_is_journal.
Print Assumptions C11_disk_is_prefix.
Print Assumptions C11_read_record_is_append.
Print Assumptions C11_structure.
Print Assumptions C11_rotation_invariant.
Print Assumptions C11_write_preserves.
