(* C02 / C15 bridge: the restart premise of CacheSys.replay_cinv.

   [keeps_last] (RestartSim.v) is CacheSys.heads_ok.  The journal invariants [Chain]
   and [HK] of a flushed idle state discharge it for every file that recovery
   replays, so the cache invariant [cinv] of CacheSys.v holds in the reopened state. *)
From Coq Require Import List NArith Bool Lia.
From RaftLog Require Import Base.Bytes Model.Types Model.Codec Model.Cache Model.Core
  Model.Recover Model.Run Spec.Spec Spec.Hist.
From RaftLog Require Import Proofs.JournalFacts Proofs.RestartSim Proofs.RestartInv Proofs.RestartFacts.
From RaftLog Require Proofs.CacheFacts Proofs.CacheSys.
Import ListNotations.
Local Open Scope N_scope.

Lemma keeps_last_heads_ok : forall recs rs, keeps_last rs recs -> CacheSys.heads_ok rs recs.
Proof.
  induction recs as [|r recs IH]; intros rs H; [exact I|].
  cbn [keeps_last CacheSys.heads_ok] in *. destruct H as [H1 H2]. split; [exact H1|].
  destruct (rs_apply rs r) as [rs'|e]; [apply IH; exact H2|exact I].
Qed.

(* replaying the journal files keeps the cache invariant *)
Lemma replay_files_cinv : forall G t0 t cur,
  CacheSys.cinv t0 -> HK G -> Chain cur G ->
  match G with
  | g :: _ => opair_leb (r_last (m_rs t0)) (r_last (head_state (snd g))) = true
  | [] => True
  end ->
  replay_files t0 G = (t, None) -> CacheSys.cinv t.
Proof.
  induction G as [|g G IH]; intros t0 t cur Hc HK0 HC Hfirst Hrep.
  - cbn [replay_files] in Hrep. inversion Hrep; subst. exact Hc.
  - cbn [replay_files] in Hrep.
    destruct (chunk_replay t0 g) as [t1 [e|]] eqn:Ec; [discriminate Hrep|].
    unfold HK in HK0. inversion HK0 as [|? ? (st & tl & E & Hkl) HK1]; subst.
    cbn [Chain] in HC. destruct HC as [(st' & tl' & E' & Hrun) HC1].
    rewrite E in E'. inversion E'; subst st' tl'. rewrite E in Hfirst. cbn [head_state] in Hfirst.
    assert (Hc1 : CacheSys.cinv t1).
    { unfold chunk_replay in Ec. rewrite E in Ec.
      eapply CacheSys.replay_cinv; [apply (CacheSys.cinv_set_evictable t0 (r_last (m_rs t0)) Hc)| |exact Ec].
      cbn [CacheSys.heads_ok chunk_pre m_rs]. split; [exact Hfirst|].
      cbn. apply keeps_last_heads_ok. exact Hkl. }
    assert (Ers : m_rs t1 = match G with [] => cur | g' :: _ => head_state (snd g') end).
    { unfold chunk_replay in Ec. apply replay_rs in Ec.
      - rewrite E in Ec. cbn [chunk_pre m_rs] in Ec. change (rs_run (m_rs t0) (RState st :: tl)) with (rs_run st tl) in Ec.
        rewrite Hrun in Ec. inversion Ec. reflexivity.
      - rewrite ends_from_length, map_length. reflexivity. }
    apply (IH t1 t cur Hc1 HK1 HC1); [|exact Hrep].
    destruct G as [|g' G']; [exact I|]. rewrite Ers. apply CacheFacts.opair_leb_refl.
Qed.

(* after a clean restart (C02's hypotheses) the cache invariant of C15 holds again *)
Theorem C02_restart_cinv : forall cfg cfg' ops res y,
  ops_plain spec0 ops = true -> Forall op_wf ops ->
  big_cache cfg ops -> big_cache cfg' ops ->
  run_case cfg ops = (res, Some y) ->
  y_queue y = [] -> k_pending (y_core y) = [] ->
  exists y', open_dir cfg' (y_disk y) = OpenOk y' /\ CacheSys.sys_cinv y'.
Proof.
  intros cfg cfg' ops res y Hp Hwf Hb Hb' Hrun Hq Hpend.
  pose proof (FI_of_run cfg cfg' ops [] res y Hp Hwf) as F. rewrite app_nil_r in F.
  specialize (F Hb Hb' Hrun).
  destruct (reopen cfg' y _ _ _ F Hq Hpend) as (y' & Ho & RO).
  exists y'. split; [exact Ho|].
  destruct (ro_shape _ _ _ _ _ _ RO) as (G0 & o & rs & pl & _ & GC & _ & GH & _ & _ & _ & _ & Hrep).
  unfold CacheSys.sys_cinv.
  apply (replay_files_cinv _ _ _ _ (CacheSys.cinv_new cfg') GH GC); [|exact Hrep].
  destruct (G0 ++ [(o, rs)]); [exact I|]. cbn [sm_new m_rs rstate0 r_last]. apply CacheFacts.opair_leb_None.
Qed.

Print Assumptions C02_restart_cinv.
