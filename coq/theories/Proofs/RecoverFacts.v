(* Recovery of a torn or zero-filled tail (property C10, part B):
   [chunk_open] on the three file shapes, the decomposition of [open_loop]
   into "older chunks, then the newest file", and the result of [open_dir]
   when the newest file is complete / cut / zero-tailed, with truncation of
   incomplete records enabled and disabled. *)
From Coq Require Import List NArith Lia Bool Arith.
From Coq.Strings Require Import Byte.
From RaftLog Require Import Base.Bytes Base.Crc32 Model.Types Model.Codec Model.Cache
  Model.Core Model.Recover.
From RaftLog Require Import Proofs.CodecFacts Proofs.ScanFacts.
Import ListNotations.
Local Open Scope N_scope.

(* ================================================================== *)
(* Tail shapes                                                         *)
(* ================================================================== *)

(* what may follow the complete records of the newest file: nothing, a
   non-empty proper prefix of a record (torn write), or zeros *)
Inductive tail_shape : bytes -> Prop :=
| TS_none : tail_shape []
| TS_torn (r : record) (q : bytes) :
    wf_record r -> pprefix q (enc_record r) -> q <> [] -> tail_shape q
| TS_zero (z : nat) : (1 <= z)%nat -> tail_shape (zeros z).

Definition is_nil {A} (l : list A) : bool := match l with [] => true | _ => false end.

Lemma is_nil_true {A} (l : list A) : is_nil l = true <-> l = [].
Proof. destruct l; cbn; split; congruence. Qed.

Lemma is_nil_false {A} (l : list A) : is_nil l = false <-> l <> [].
Proof. destruct l; cbn; split; congruence. Qed.

(* the chunk that [Chunk::open] builds from complete records [rs] *)
Definition chunk_of (id : N) (rs : list record) : chunk :=
  mkChunk id (ends_from id (map rec_size rs)).

(* ================================================================== *)
(* 7. chunk_open on the three shapes                                   *)
(* ================================================================== *)

Lemma chunk_open_of_scan cfg id rs tl e :
  scan_file (encs rs ++ tl) = (sized rs, tl, e) ->
  chunk_open cfg id (encs rs ++ tl) =
  match e with
  | SEnd => inl (mkOC (chunk_of id rs) rs false (encs rs ++ tl))
  | SEof => if c_truncate cfg then inl (mkOC (chunk_of id rs) rs true (encs rs))
            else inr EDecodeEof
  | SInvalid => if all_zero tl && c_truncate cfg
                then inl (mkOC (chunk_of id rs) rs true (encs rs))
                else inr EDecodeInvalid
  | SFuel => inr EDecodeInvalid
  end.
Proof.
  intros H. unfold chunk_open. rewrite H. cbv beta iota zeta.
  rewrite sized_snd, sized_fst, firstn_consumed. reflexivity.
Qed.

Theorem chunk_open_complete : forall cfg id rs,
  Forall wf_record rs ->
  chunk_open cfg id (encs rs) = inl (mkOC (chunk_of id rs) rs false (encs rs)).
Proof.
  intros cfg id rs H.
  pose proof (chunk_open_of_scan cfg id rs [] SEnd) as E.
  rewrite app_nil_r in E. apply E, scan_encs, H.
Qed.

Theorem chunk_open_torn : forall cfg id rs r q,
  Forall wf_record rs -> wf_record r -> pprefix q (enc_record r) -> q <> [] ->
  chunk_open cfg id (encs rs ++ q) =
  if c_truncate cfg then inl (mkOC (chunk_of id rs) rs true (encs rs)) else inr EDecodeEof.
Proof.
  intros cfg id rs r q Hrs Hr Hq Hne.
  exact (chunk_open_of_scan cfg id rs q SEof (scan_torn rs r q Hrs Hr Hq Hne)).
Qed.

Theorem chunk_open_zero_tail : forall cfg id rs z,
  Forall wf_record rs -> (1 <= z)%nat ->
  chunk_open cfg id (encs rs ++ zeros z) =
  if c_truncate cfg then inl (mkOC (chunk_of id rs) rs true (encs rs))
  else inr (if Nat.ltb z 28 then EDecodeEof else EDecodeInvalid).
Proof.
  intros cfg id rs z Hrs Hz.
  destruct (Nat.ltb_spec z 28) as [Hlt|Hge].
  - exact (chunk_open_of_scan cfg id rs _ SEof (scan_zero_tail_short rs z Hrs Hz Hlt)).
  - rewrite (chunk_open_of_scan cfg id rs _ SInvalid (scan_zero_tail_long rs z Hrs Hge)).
    rewrite all_zero_zeros. cbn [andb]. reflexivity.
Qed.

(* every cut of a file of complete records has a tail shape *)
Theorem cut_tail_shape : forall rs p,
  Forall wf_record rs -> (p <= length (encs rs))%nat ->
  exists k q, firstn p (encs rs) = encs (firstn k rs) ++ q /\
              Forall wf_record (firstn k rs) /\ tail_shape q.
Proof.
  intros rs p Hrs Hp. destruct (cut_shape rs p Hp) as [k [q [E Hq]]].
  exists k, q. split; [exact E|]. split; [apply Forall_firstn_, Hrs|].
  destruct q as [|b q]; [constructor|].
  destruct Hq as [Hq|[r [Hn Hq]]]; [discriminate|].
  apply (TS_torn r); [|exact Hq|discriminate].
  rewrite Forall_forall in Hrs. apply Hrs. eapply nth_error_In, Hn.
Qed.

(* the three shapes at once, truncation enabled *)
Theorem chunk_open_tail_truncate : forall cfg id rs tl,
  c_truncate cfg = true -> Forall wf_record rs -> tail_shape tl ->
  chunk_open cfg id (encs rs ++ tl) =
  inl (mkOC (chunk_of id rs) rs (negb (is_nil tl)) (encs rs)).
Proof.
  intros cfg id rs tl Ht Hrs Htl. destruct Htl as [|r q Hr Hq Hne|z Hz].
  - rewrite app_nil_r. apply chunk_open_complete, Hrs.
  - rewrite (chunk_open_torn cfg id rs r q Hrs Hr Hq Hne), Ht.
    destruct q; [congruence|reflexivity].
  - rewrite (chunk_open_zero_tail cfg id rs z Hrs Hz), Ht.
    destruct z; [lia|reflexivity].
Qed.

(* the three shapes at once, truncation disabled *)
Theorem chunk_open_tail_no_truncate : forall cfg id rs tl,
  c_truncate cfg = false -> Forall wf_record rs -> tail_shape tl -> tl <> [] ->
  exists e, (e = EDecodeEof \/ e = EDecodeInvalid) /\
            chunk_open cfg id (encs rs ++ tl) = inr e.
Proof.
  intros cfg id rs tl Ht Hrs Htl Hne. destruct Htl as [|r q Hr Hq Hne'|z Hz].
  - congruence.
  - exists EDecodeEof. split; [left; reflexivity|].
    rewrite (chunk_open_torn cfg id rs r q Hrs Hr Hq Hne'), Ht. reflexivity.
  - exists (if Nat.ltb z 28 then EDecodeEof else EDecodeInvalid). split.
    + destruct (Nat.ltb z 28); auto.
    + rewrite (chunk_open_zero_tail cfg id rs z Hrs Hz), Ht. reflexivity.
Qed.

(* general facts about any successful chunk_open *)
Lemma chunk_open_id cfg id data oc :
  chunk_open cfg id data = inl oc -> ck_id (oc_chunk oc) = id.
Proof.
  unfold chunk_open. destruct (scan_file data) as [[recs rest] e].
  destruct e; cbv beta iota zeta; intros H.
  - inversion H; reflexivity.
  - destruct (c_truncate cfg); inversion H; reflexivity.
  - destruct (all_zero rest && c_truncate cfg); inversion H; reflexivity.
  - discriminate.
Qed.

Lemma chunk_open_truncated cfg id data oc :
  chunk_open cfg id data = inl oc -> oc_truncated oc = true -> c_truncate cfg = true.
Proof.
  unfold chunk_open. destruct (scan_file data) as [[recs rest] e].
  destruct e; cbv beta iota zeta; intros H Ht.
  - inversion H; subst oc. discriminate Ht.
  - destruct (c_truncate cfg); [reflexivity|discriminate H].
  - destruct (c_truncate cfg); [reflexivity|].
    rewrite andb_false_r in H. discriminate H.
  - discriminate.
Qed.

(* ================================================================== *)
(* ends_from, ck_end                                                   *)
(* ================================================================== *)

Lemma ends_from_nil_inv start sizes : ends_from start sizes = [] -> sizes = [].
Proof. destruct sizes; [reflexivity|discriminate]. Qed.

Lemma chunk_of_ends_nonempty id rs : rs <> [] -> ck_ends (chunk_of id rs) <> [].
Proof.
  destruct rs as [|r rs]; [congruence|]. intros _. discriminate.
Qed.

Lemma last_ends_from : forall sizes start d,
  last (ends_from start sizes) d =
  match sizes with [] => d | _ => start + fold_right N.add 0 sizes end.
Proof.
  induction sizes as [|n r IH]; intros start d; [reflexivity|].
  cbn [ends_from]. destruct r as [|m r'].
  - cbn [ends_from last fold_right]. lia.
  - specialize (IH (start + n) d). cbn [ends_from] in *. cbn [last] in *.
    rewrite IH. cbn [fold_right]. lia.
Qed.

Lemma ck_end_chunk_of id rs :
  ck_end (chunk_of id rs) = id + N.of_nat (length (encs rs)).
Proof.
  unfold ck_end, chunk_of. cbn [ck_ends ck_id]. rewrite last_ends_from, encs_length.
  destruct rs as [|r rs]; [cbn; lia|reflexivity].
Qed.

Lemma ck_push_fresh id n : ck_push (mkChunk id []) n = mkChunk id [id + n].
Proof. reflexivity. Qed.

(* ================================================================== *)
(* lists of closed chunks, disks                                       *)
(* ================================================================== *)

Lemma split_last_app {A} (l : list A) (x : A) : split_last (l ++ [x]) = Some (l, x).
Proof.
  induction l as [|a l IH]; [reflexivity|].
  cbn [app split_last]. rewrite IH.
  destruct (l ++ [x]) eqn:E; [|reflexivity].
  destruct l; discriminate E.
Qed.

Lemma closed_insert_last c l :
  Forall (fun c' => ck_id (cl_chunk c') < ck_id (cl_chunk c)) l ->
  closed_insert c l = l ++ [c].
Proof.
  intros H. induction H as [|c' l Hc Hl IH]; [reflexivity|].
  cbn [closed_insert app].
  destruct (N.compare_spec (ck_id (cl_chunk c)) (ck_id (cl_chunk c'))) as [E|E|E];
    try lia.
  rewrite IH. reflexivity.
Qed.

Lemma closed_insert_Forall (P : closed -> Prop) c l :
  P c -> Forall P l -> Forall P (closed_insert c l).
Proof.
  intros Hc H. induction H as [|c' l Hc' Hl IH]; cbn [closed_insert].
  - constructor; [exact Hc|constructor].
  - destruct (N.compare (ck_id (cl_chunk c)) (ck_id (cl_chunk c'))).
    + constructor; assumption.
    + constructor; [exact Hc|]. constructor; assumption.
    + constructor; assumption.
Qed.

Lemma disk_put_Forall (P : file -> Prop) f d :
  P f -> Forall P d -> Forall P (disk_put f d).
Proof.
  intros Hf H. induction H as [|g l Hg Hl IH]; cbn [disk_put].
  - constructor; [exact Hf|constructor].
  - destruct (N.compare (f_id f) (f_id g)).
    + constructor; assumption.
    + constructor; [exact Hf|]. constructor; assumption.
    + constructor; assumption.
Qed.

Lemma disk_get_none x d : Forall (fun g => f_id g <> x) d -> disk_get x d = None.
Proof.
  intros H. induction H as [|g l Hg Hl IH]; [reflexivity|].
  cbn [disk_get]. destruct (N.eqb_spec x (f_id g)) as [E|E]; [congruence|exact IH].
Qed.

Lemma disk_get_remove id d : disk_get id (disk_remove id d) = None.
Proof.
  unfold disk_remove. induction d as [|g d IH]; [reflexivity|].
  cbn [filter]. destruct (N.eqb_spec id (f_id g)) as [E|E]; cbn [negb]; [exact IH|].
  cbn [disk_get]. destruct (N.eqb_spec id (f_id g)); [congruence|exact IH].
Qed.

Lemma disk_remove_put f d : disk_remove (f_id f) (disk_put f d) = disk_remove (f_id f) d.
Proof.
  unfold disk_remove. induction d as [|g d IH].
  - cbn [disk_put filter]. rewrite N.eqb_refl. reflexivity.
  - cbn [disk_put].
    destruct (N.compare_spec (f_id f) (f_id g)) as [E|E|E].
    + cbn [filter]. rewrite N.eqb_refl, <- E, N.eqb_refl. reflexivity.
    + cbn [filter]. rewrite N.eqb_refl. reflexivity.
    + cbn [filter]. rewrite IH. reflexivity.
Qed.

(* ================================================================== *)
(* open_loop = older chunks, then the newest file                      *)
(* ================================================================== *)

(* the state handed to replay: the eviction boundary is set to the last log id
   of the chunks before *)
Definition sm_pre (a : open_acc) : sm :=
  mkSM (m_rs (oa_sm a)) (m_log (oa_sm a))
       (cache_set_evictable (m_cache (oa_sm a)) (oa_last a)).

Definition gap_at (a : open_acc) (id : N) : bool :=
  match oa_prev_end a with Some p => negb (N.eqb p id) | None => false end.

Definition trunc_disk (id : N) (oc : opened_chunk) (d : disk) : disk :=
  if oc_truncated oc
  then disk_put (mkFile id (oc_data oc) (N.of_nat (length (oc_data oc)))) d
  else d.

(* one iteration of the loop for a file that is NOT removed as a record-less
   newest chunk *)
Definition open_step (cfg : config) (f : file) (a : open_acc) : open_acc + (err * disk) :=
  if gap_at a (f_id f) then inr (EGap, oa_disk a)
  else
    match chunk_open cfg (f_id f) (f_data f) with
    | inr e => inr (e, oa_disk a)
    | inl oc =>
      let d1 := trunc_disk (f_id f) oc (oa_disk a) in
      match replay (sm_pre a) (f_id f) (f_id f) (oc_records oc) (ck_ends (oc_chunk oc)) with
      | (s1, Some e) => inr (e, d1)
      | (s1, None) =>
        inl (mkOA s1
               (closed_insert (mkClosed (oc_chunk oc) (m_rs s1) (oc_truncated oc)) (oa_closed a))
               (Some (ck_end (oc_chunk oc))) (r_last (m_rs s1)) d1)
      end
    end.

(* the loop over the files before the newest one *)
Fixpoint open_older (cfg : config) (files : list file) (a : open_acc)
  : open_acc + (err * disk) :=
  match files with
  | [] => inl a
  | f :: rest =>
    match open_step cfg f a with
    | inl a' => open_older cfg rest a'
    | inr e => inr e
    end
  end.

(* the start of [open_dir] *)
Definition acc0 (cfg : config) (d : disk) : open_acc := mkOA (sm_new cfg) [] None None d.

(* the end of [open_dir]: reopen the last closed chunk or create a new one *)
Definition prev_last_of (l : list closed) : option logid :=
  match split_last l with Some (_, c) => r_last (cl_state c) | None => None end.

Definition reusable (l : list closed) : option (list closed * closed) :=
  match split_last l with
  | Some (init, lastc) => if cl_truncated lastc then None else Some (init, lastc)
  | None => None
  end.

Definition open_finish (cfg : config) (r : open_acc + (err * disk)) : open_res :=
  match r with
  | inr (e, d') => OpenErr e d'
  | inl a =>
    match reusable (oa_closed a) with
    | Some (init, lastc) =>
      OpenOk (mkSys (mkCore cfg (oa_sm a) (cl_chunk lastc) [] init [] 0 0 0) (oa_disk a) []
                    [mkWF (ck_id (cl_chunk lastc)) (prev_last_of init)] [])
    | None =>
      let id := match oa_prev_end a with Some p => p | None => 0 end in
      match disk_get id (oa_disk a) with
      | Some _ => OpenErr EExists (oa_disk a)
      | None =>
        let head := enc_record (RState (m_rs (oa_sm a))) in
        OpenOk (mkSys (mkCore cfg (oa_sm a) (ck_push (mkChunk id []) (N.of_nat (length head)))
                              [] (oa_closed a) [] 0 0 0)
                      (disk_put (mkFile id head 0) (oa_disk a)) []
                      [mkWF id (prev_last_of (oa_closed a))] [])
      end
    end
  end.

Lemma open_dir_eq cfg d : open_dir cfg d = open_finish cfg (open_loop cfg d (acc0 cfg d)).
Proof.
  unfold open_dir, open_finish, acc0, reusable, prev_last_of.
  destruct (open_loop cfg d (mkOA (sm_new cfg) [] None None d)) as [a|[e d']];
    [|reflexivity].
  destruct (split_last (oa_closed a)) as [[init lastc]|]; [|reflexivity].
  destruct (cl_truncated lastc); reflexivity.
Qed.

Lemma open_loop_eq cfg f rest a :
  open_loop cfg (f :: rest) a =
  if gap_at a (f_id f) then inr (EGap, oa_disk a)
  else
    match chunk_open cfg (f_id f) (f_data f) with
    | inr e => inr (e, oa_disk a)
    | inl oc =>
      let d1 := trunc_disk (f_id f) oc (oa_disk a) in
      match ck_ends (oc_chunk oc), rest with
      | [], [] =>
        inl (mkOA (oa_sm a) (oa_closed a) (Some (f_id f)) (oa_last a) (disk_remove (f_id f) d1))
      | _, _ =>
        match replay (sm_pre a) (f_id f) (f_id f) (oc_records oc) (ck_ends (oc_chunk oc)) with
        | (s1, Some e) => inr (e, d1)
        | (s1, None) =>
          open_loop cfg rest
            (mkOA s1
               (closed_insert (mkClosed (oc_chunk oc) (m_rs s1) (oc_truncated oc)) (oa_closed a))
               (Some (ck_end (oc_chunk oc))) (r_last (m_rs s1)) d1)
        end
      end
    end.
Proof. reflexivity. Qed.

Lemma open_loop_cons_more cfg f g rest a :
  open_loop cfg (f :: g :: rest) a =
  match open_step cfg f a with
  | inl a' => open_loop cfg (g :: rest) a'
  | inr e => inr e
  end.
Proof.
  rewrite open_loop_eq. unfold open_step.
  destruct (gap_at a (f_id f)); [reflexivity|].
  destruct (chunk_open cfg (f_id f) (f_data f)) as [oc|e]; [|reflexivity].
  cbv zeta.
  destruct (ck_ends (oc_chunk oc)) as [|x l];
    destruct (replay (sm_pre a) (f_id f) (f_id f) (oc_records oc) _) as [s1 [e|]];
    reflexivity.
Qed.

Theorem open_loop_app : forall cfg older f rest a,
  open_loop cfg (older ++ f :: rest) a =
  match open_older cfg older a with
  | inl a' => open_loop cfg (f :: rest) a'
  | inr e => inr e
  end.
Proof.
  intros cfg older f rest. induction older as [|g older IH]; intros a; [reflexivity|].
  cbn [open_older].
  assert (E : open_loop cfg ((g :: older) ++ f :: rest) a =
              match open_step cfg g a with
              | inl a' => open_loop cfg (older ++ f :: rest) a'
              | inr e => inr e
              end).
  { destruct older as [|g' older']; cbn [app]; apply open_loop_cons_more. }
  rewrite E. destruct (open_step cfg g a) as [a'|e]; [apply IH|reflexivity].
Qed.

(* the newest file when it has at least one complete record *)
Lemma open_loop_last_records cfg f a oc :
  chunk_open cfg (f_id f) (f_data f) = inl oc ->
  ck_ends (oc_chunk oc) <> [] ->
  open_loop cfg [f] a = open_step cfg f a.
Proof.
  intros Hoc Hne. rewrite open_loop_eq. unfold open_step.
  destruct (gap_at a (f_id f)); [reflexivity|].
  rewrite Hoc. cbv zeta.
  destruct (ck_ends (oc_chunk oc)) as [|x l]; [congruence|].
  destruct (replay (sm_pre a) (f_id f) (f_id f) (oc_records oc) _) as [s1 [e|]];
    reflexivity.
Qed.

(* the newest file without a complete record: it is removed *)
Lemma open_loop_last_headless cfg f a oc :
  gap_at a (f_id f) = false ->
  chunk_open cfg (f_id f) (f_data f) = inl oc ->
  ck_ends (oc_chunk oc) = [] ->
  open_loop cfg [f] a =
  inl (mkOA (oa_sm a) (oa_closed a) (Some (f_id f)) (oa_last a)
            (disk_remove (f_id f) (trunc_disk (f_id f) oc (oa_disk a)))).
Proof.
  intros Hgap Hoc He. rewrite open_loop_eq, Hgap, Hoc. cbv zeta. rewrite He. reflexivity.
Qed.

Theorem open_dir_newest : forall cfg older f a,
  open_older cfg older (acc0 cfg (older ++ [f])) = inl a ->
  open_dir cfg (older ++ [f]) = open_finish cfg (open_loop cfg [f] a).
Proof.
  intros cfg older f a H. rewrite open_dir_eq, open_loop_app, H. reflexivity.
Qed.

(* ================================================================== *)
(* invariants of the loop over the older chunks                        *)
(* ================================================================== *)

Lemma trunc_disk_Forall (P : file -> Prop) id oc d :
  (forall data syn, P (mkFile id data syn)) -> Forall P d -> Forall P (trunc_disk id oc d).
Proof.
  intros Hf Hd. unfold trunc_disk. destruct (oc_truncated oc); [|exact Hd].
  apply disk_put_Forall; [apply Hf|exact Hd].
Qed.

Lemma open_step_inv cfg f a a' (P Q : N -> Prop) :
  open_step cfg f a = inl a' -> P (f_id f) -> Q (f_id f) ->
  Forall (fun c => P (ck_id (cl_chunk c))) (oa_closed a) ->
  Forall (fun g => Q (f_id g)) (oa_disk a) ->
  Forall (fun c => P (ck_id (cl_chunk c))) (oa_closed a') /\
  Forall (fun g => Q (f_id g)) (oa_disk a') /\
  oa_prev_end a' <> None.
Proof.
  unfold open_step. intros H HP HQ Hc Hd.
  destruct (gap_at a (f_id f)); [discriminate|].
  destruct (chunk_open cfg (f_id f) (f_data f)) as [oc|e] eqn:Eoc; [|discriminate].
  cbv zeta in H.
  destruct (replay (sm_pre a) (f_id f) (f_id f) (oc_records oc) _) as [s1 [e|]];
    [discriminate|].
  inversion H; subst a'. cbn [oa_closed oa_disk oa_prev_end].
  split; [|split; [|discriminate]].
  - apply closed_insert_Forall; [|exact Hc]. cbn [cl_chunk].
    rewrite (chunk_open_id _ _ _ _ Eoc). exact HP.
  - apply (trunc_disk_Forall (fun g => Q (f_id g))); [intros; exact HQ|exact Hd].
Qed.

Lemma open_older_inv cfg (P Q : N -> Prop) : forall older a a',
  open_older cfg older a = inl a' ->
  Forall (fun g => P (f_id g) /\ Q (f_id g)) older ->
  Forall (fun c => P (ck_id (cl_chunk c))) (oa_closed a) ->
  Forall (fun g => Q (f_id g)) (oa_disk a) ->
  Forall (fun c => P (ck_id (cl_chunk c))) (oa_closed a') /\
  Forall (fun g => Q (f_id g)) (oa_disk a').
Proof.
  induction older as [|f older IH]; intros a a' H Hf Hc Hd.
  - inversion H; subst. split; assumption.
  - cbn [open_older] in H. destruct (open_step cfg f a) as [a1|e] eqn:E; [|discriminate].
    inversion Hf as [|? ? [HP HQ] Hf']; subst.
    destruct (open_step_inv cfg f a a1 P Q E HP HQ Hc Hd) as [Hc1 [Hd1 _]].
    exact (IH a1 a' H Hf' Hc1 Hd1).
Qed.

(* with truncation disabled the loop never writes *)
Lemma trunc_disk_no_truncate cfg id data oc d :
  c_truncate cfg = false -> chunk_open cfg id data = inl oc -> trunc_disk id oc d = d.
Proof.
  intros Ht Hoc. unfold trunc_disk. destruct (oc_truncated oc) eqn:E; [|reflexivity].
  rewrite (chunk_open_truncated _ _ _ _ Hoc E) in Ht. discriminate.
Qed.

Lemma open_older_no_truncate cfg : forall older a a',
  c_truncate cfg = false -> open_older cfg older a = inl a' -> oa_disk a' = oa_disk a.
Proof.
  induction older as [|f older IH]; intros a a' Ht H.
  - inversion H; reflexivity.
  - cbn [open_older] in H. destruct (open_step cfg f a) as [a1|e] eqn:E; [|discriminate].
    rewrite (IH a1 a' Ht H). unfold open_step in E.
    destruct (gap_at a (f_id f)); [discriminate|].
    destruct (chunk_open cfg (f_id f) (f_data f)) as [oc|e] eqn:Eoc; [|discriminate].
    cbv zeta in E. rewrite (trunc_disk_no_truncate _ _ _ _ _ Ht Eoc) in E.
    destruct (replay (sm_pre a) (f_id f) (f_id f) (oc_records oc) _) as [s1 [e|]];
      [discriminate|].
    inversion E; reflexivity.
Qed.

(* with truncation disabled a failing loop leaves the directory as it was *)
Theorem open_loop_no_truncate_err : forall cfg files a e d',
  c_truncate cfg = false -> open_loop cfg files a = inr (e, d') -> d' = oa_disk a.
Proof.
  intros cfg files. induction files as [|f rest IH]; intros a e d' Ht H.
  - discriminate.
  - rewrite open_loop_eq in H.
    destruct (gap_at a (f_id f)); [inversion H; reflexivity|].
    destruct (chunk_open cfg (f_id f) (f_data f)) as [oc|e0] eqn:Eoc;
      [|inversion H; reflexivity].
    cbv zeta in H. rewrite (trunc_disk_no_truncate _ _ _ _ _ Ht Eoc) in H.
    assert (G : match replay (sm_pre a) (f_id f) (f_id f) (oc_records oc)
                        (ck_ends (oc_chunk oc)) with
                | (s1, Some e1) => inr (e1, oa_disk a)
                | (s1, None) =>
                  open_loop cfg rest
                    (mkOA s1
                       (closed_insert (mkClosed (oc_chunk oc) (m_rs s1) (oc_truncated oc))
                                      (oa_closed a))
                       (Some (ck_end (oc_chunk oc))) (r_last (m_rs s1)) (oa_disk a))
                end = inr (e, d') -> d' = oa_disk a).
    { destruct (replay (sm_pre a) (f_id f) (f_id f) (oc_records oc) _) as [s1 [e1|]];
        intros G.
      - inversion G; reflexivity.
      - apply (IH _ _ _ Ht) in G. exact G. }
    destruct (ck_ends (oc_chunk oc)) as [|x l]; [destruct rest as [|g rest']|];
      try (apply G; exact H).
    discriminate H.
Qed.

(* ================================================================== *)
(* what the accumulated state must satisfy when the newest file is met *)
(* ================================================================== *)

Record acc_ok (a : open_acc) (id : N) : Prop := {
  ok_gap : gap_at a id = false;
  ok_closed : Forall (fun c => ck_id (cl_chunk c) < id) (oa_closed a);
  ok_disk : Forall (fun g => f_id g <= id) (oa_disk a) }.

Lemma older_acc_ok cfg older id data syn a :
  open_older cfg older (acc0 cfg (older ++ [mkFile id data syn])) = inl a ->
  Forall (fun g => f_id g < id) older ->
  oa_prev_end a = Some id \/ older = [] ->
  acc_ok a id.
Proof.
  intros H Hlt Hgap.
  destruct (open_older_inv cfg (fun x => x < id) (fun x => x <= id) older _ _ H) as [Hc Hd].
  - eapply Forall_impl; [|exact Hlt]. cbv beta. intros g Hg. lia.
  - constructor.
  - cbn [acc0 oa_disk]. apply Forall_app. split.
    + eapply Forall_impl; [|exact Hlt]. cbv beta. intros g Hg. lia.
    + constructor; [cbn [f_id]; lia|constructor].
  - split; [|exact Hc|exact Hd].
    unfold gap_at. destruct Hgap as [E|E].
    + rewrite E, N.eqb_refl. reflexivity.
    + subst older. cbn [open_older] in H. inversion H; subst a. reflexivity.
Qed.

(* ================================================================== *)
(* 8. the newest file, at the level of the accumulated state           *)
(* ================================================================== *)

Section Newest.
Variable cfg : config.
Variable a : open_acc.
Variables id syn : N.
Variable rs : list record.
Hypothesis Hok : acc_ok a id.
Hypothesis Hrs : Forall wf_record rs.

(* complete newest file with at least one record: it is reopened for appending *)
Theorem newest_complete : forall s1,
  rs <> [] ->
  replay (sm_pre a) id id rs (ends_from id (map rec_size rs)) = (s1, None) ->
  open_finish cfg (open_loop cfg [mkFile id (encs rs) syn] a) =
  OpenOk (mkSys (mkCore cfg s1 (chunk_of id rs) [] (oa_closed a) [] 0 0 0) (oa_disk a) []
                [mkWF id (prev_last_of (oa_closed a))] []).
Proof.
  intros s1 Hne Hrep.
  pose proof (chunk_open_complete cfg id rs Hrs) as Hoc.
  rewrite (open_loop_last_records cfg (mkFile id (encs rs) syn) a _ Hoc)
    by (apply chunk_of_ends_nonempty, Hne).
  unfold open_step. cbn [f_id f_data]. rewrite (ok_gap _ _ Hok), Hoc.
  cbv zeta. cbn [oc_records oc_chunk oc_truncated]. unfold chunk_of at 1. cbn [ck_ends].
  rewrite Hrep. unfold trunc_disk. cbn [oc_truncated].
  rewrite closed_insert_last by (cbn [cl_chunk chunk_of ck_id]; exact (ok_closed _ _ Hok)).
  unfold open_finish, reusable. cbn [oa_closed]. rewrite split_last_app.
  cbn [cl_truncated cl_chunk oa_sm oa_disk chunk_of ck_id]. reflexivity.
Qed.

(* newest file with at least one complete record and a discarded tail:
   cut back to the records, a fresh chunk starts at the cut *)
Theorem newest_cut : forall tl s1,
  c_truncate cfg = true -> tail_shape tl -> tl <> [] -> rs <> [] ->
  replay (sm_pre a) id id rs (ends_from id (map rec_size rs)) = (s1, None) ->
  let len := N.of_nat (length (encs rs)) in
  let id' := id + len in
  let head := enc_record (RState (m_rs s1)) in
  open_finish cfg (open_loop cfg [mkFile id (encs rs ++ tl) syn] a) =
  OpenOk (mkSys (mkCore cfg s1 (mkChunk id' [id' + N.of_nat (length head)]) []
                        (oa_closed a ++ [mkClosed (chunk_of id rs) (m_rs s1) true]) [] 0 0 0)
                (disk_put (mkFile id' head 0) (disk_put (mkFile id (encs rs) len) (oa_disk a)))
                [] [mkWF id' (r_last (m_rs s1))] []).
Proof.
  intros tl s1 Ht Htl Htlne Hne Hrep len id' head.
  pose proof (chunk_open_tail_truncate cfg id rs tl Ht Hrs Htl) as Hoc.
  assert (Enil : negb (is_nil tl) = true) by (destruct tl; [congruence|reflexivity]).
  rewrite Enil in Hoc.
  rewrite (open_loop_last_records cfg (mkFile id (encs rs ++ tl) syn) a _ Hoc)
    by (apply chunk_of_ends_nonempty, Hne).
  unfold open_step. cbn [f_id f_data]. rewrite (ok_gap _ _ Hok), Hoc.
  cbv zeta. cbn [oc_records oc_chunk oc_truncated]. unfold chunk_of at 1. cbn [ck_ends].
  rewrite Hrep. unfold trunc_disk. cbn [oc_truncated oc_data].
  rewrite closed_insert_last by (cbn [cl_chunk chunk_of ck_id]; exact (ok_closed _ _ Hok)).
  unfold open_finish, reusable. cbn [oa_closed]. rewrite split_last_app.
  cbn [cl_truncated oa_prev_end oa_disk oa_sm oa_closed].
  rewrite ck_end_chunk_of. fold len. fold id'.
  assert (Hlen : 12 <= len).
  { unfold len. destruct rs as [|r rs']; [congruence|].
    rewrite encs_cons, app_length. pose proof (enc_record_min_len r). lia. }
  rewrite disk_get_none.
  - cbv zeta. fold head. rewrite ck_push_fresh.
    unfold prev_last_of. rewrite split_last_app. reflexivity.
  - apply disk_put_Forall; [cbn [f_id]; lia|].
    eapply Forall_impl; [|exact (ok_disk _ _ Hok)]. cbv beta. intros g Hg. lia.
Qed.

End Newest.

(* newest file without a complete record (empty, torn inside its first record,
   or zeros): the file is removed; the last closed chunk is reopened if there is
   one that was not truncated, otherwise the file is created again with a head
   record. The state is the one accumulated from the older chunks (with the
   eviction boundary as they left it). *)
Theorem newest_headless : forall cfg a id syn tl,
  acc_ok a id -> tail_shape tl -> (tl = [] \/ c_truncate cfg = true) ->
  open_finish cfg (open_loop cfg [mkFile id tl syn] a) =
  match reusable (oa_closed a) with
  | Some (init, lastc) =>
    OpenOk (mkSys (mkCore cfg (oa_sm a) (cl_chunk lastc) [] init [] 0 0 0)
                  (disk_remove id (oa_disk a)) []
                  [mkWF (ck_id (cl_chunk lastc)) (prev_last_of init)] [])
  | None =>
    let head := enc_record (RState (m_rs (oa_sm a))) in
    OpenOk (mkSys (mkCore cfg (oa_sm a) (mkChunk id [id + N.of_nat (length head)]) []
                          (oa_closed a) [] 0 0 0)
                  (disk_put (mkFile id head 0) (disk_remove id (oa_disk a))) []
                  [mkWF id (prev_last_of (oa_closed a))] [])
  end.
Proof.
  intros cfg a id syn tl Hok Htl Hc.
  assert (Hoc : exists t, chunk_open cfg id tl = inl (mkOC (chunk_of id []) [] t tl) \/
                          chunk_open cfg id tl = inl (mkOC (chunk_of id []) [] t [])).
  { destruct Hc as [E|Ht].
    - subst tl. exists false. left. exact (chunk_open_complete cfg id [] (Forall_nil _)).
    - exists (negb (is_nil tl)). right.
      exact (chunk_open_tail_truncate cfg id [] tl Ht (Forall_nil _) Htl). }
  destruct Hoc as [t Hoc].
  assert (E : open_loop cfg [mkFile id tl syn] a =
              inl (mkOA (oa_sm a) (oa_closed a) (Some id) (oa_last a)
                        (disk_remove id (oa_disk a)))).
  { destruct Hoc as [Hoc|Hoc];
      rewrite (open_loop_last_headless cfg (mkFile id tl syn) a _ (ok_gap _ _ Hok) Hoc eq_refl);
      cbn [f_id]; unfold trunc_disk; cbn [oc_truncated oc_data];
      (destruct t; [|reflexivity]);
      rewrite (disk_remove_put (mkFile id _ _)); reflexivity. }
  rewrite E. unfold open_finish. cbn [oa_closed oa_sm oa_disk oa_prev_end].
  destruct (reusable (oa_closed a)) as [[init lastc]|]; [reflexivity|].
  rewrite disk_get_remove. cbv zeta. rewrite ck_push_fresh. reflexivity.
Qed.

(* truncation disabled: an incomplete or zero tail makes the loop fail without
   touching the directory *)
Theorem newest_no_truncate : forall cfg a id syn rs tl,
  acc_ok a id -> Forall wf_record rs -> c_truncate cfg = false ->
  tail_shape tl -> tl <> [] ->
  exists e, (e = EDecodeEof \/ e = EDecodeInvalid) /\
            open_loop cfg [mkFile id (encs rs ++ tl) syn] a = inr (e, oa_disk a).
Proof.
  intros cfg a id syn rs tl Hok Hrs Ht Htl Hne.
  destruct (chunk_open_tail_no_truncate cfg id rs tl Ht Hrs Htl Hne) as [e [He Hoc]].
  exists e. split; [exact He|].
  rewrite open_loop_eq. cbn [f_id f_data]. rewrite (ok_gap _ _ Hok), Hoc. reflexivity.
Qed.

(* ================================================================== *)
(* C10 for open_dir                                                    *)
(* ================================================================== *)

(* replaying nothing *)
Lemma replay_nil s id start ends : replay s id start [] ends = (s, None).
Proof. reflexivity. Qed.

Section C10.
Variable cfg : config.
Variable older : list file.
Variables id syn : N.
Variable rs : list record.
Variable tl : bytes.
Variable a : open_acc.          (* the state accumulated from the older chunks *)

(* the older chunks open without error (possibly after truncations of their own) *)
Hypothesis Holder :
  open_older cfg older (acc0 cfg (older ++ [mkFile id (encs rs ++ tl) syn])) = inl a.
(* the file is the newest one and follows the previous chunk without a gap *)
Hypothesis Hids : Forall (fun g => f_id g < id) older.
Hypothesis Hgap : oa_prev_end a = Some id \/ older = [].
Hypothesis Hrs : Forall wf_record rs.
Hypothesis Htl : tail_shape tl.

Theorem C10_longest_prefix_open : forall s1,
  (* truncation of incomplete records enabled (not needed for a complete file) *)
  c_truncate cfg = true \/ tl = [] ->
  (* the complete records replay without a validation error *)
  replay (sm_pre a) id id rs (ends_from id (map rec_size rs)) = (s1, None) ->
  exists y,
    open_dir cfg (older ++ [mkFile id (encs rs ++ tl) syn]) = OpenOk y /\
    (* Raft state and index map: the older chunks, then exactly the complete records *)
    m_rs (k_sm (y_core y)) = m_rs s1 /\
    m_log (k_sm (y_core y)) = m_log s1 /\
    (rs <> [] -> k_sm (y_core y) = s1) /\
    (rs = [] -> k_sm (y_core y) = oa_sm a) /\
    (* complete file: untouched and reopened for appending *)
    (tl = [] -> rs <> [] ->
       y_disk y = oa_disk a /\ k_open (y_core y) = chunk_of id rs /\
       k_closed (y_core y) = oa_closed a) /\
    (* discarded tail: cut back to the records; a fresh chunk starts at the cut *)
    (tl <> [] -> rs <> [] ->
       let len := N.of_nat (length (encs rs)) in
       let head := enc_record (RState (m_rs s1)) in
       y_disk y = disk_put (mkFile (id + len) head 0)
                           (disk_put (mkFile id (encs rs) len) (oa_disk a)) /\
       k_open (y_core y) = mkChunk (id + len) [id + len + N.of_nat (length head)] /\
       k_closed (y_core y) = oa_closed a ++ [mkClosed (chunk_of id rs) (m_rs s1) true]) /\
    (* no complete record: the file is removed; either the last closed chunk is
       reopened or the file is created again with a head record *)
    (rs = [] ->
       match reusable (oa_closed a) with
       | Some (init, lastc) =>
         y_disk y = disk_remove id (oa_disk a) /\ k_open (y_core y) = cl_chunk lastc /\
         k_closed (y_core y) = init
       | None =>
         let head := enc_record (RState (m_rs (oa_sm a))) in
         y_disk y = disk_put (mkFile id head 0) (disk_remove id (oa_disk a)) /\
         k_open (y_core y) = mkChunk id [id + N.of_nat (length head)] /\
         k_closed (y_core y) = oa_closed a
       end) /\
    (* nothing is queued *)
    k_pending (y_core y) = [] /\ y_queue y = [].
Proof.
  intros s1 Ht Hrep.
  pose proof (older_acc_ok cfg older id _ syn a Holder Hids Hgap) as Hok.
  rewrite (open_dir_newest cfg older _ a Holder).
  destruct rs as [|r rs'] eqn:Ers.
  - (* headless *)
    rewrite replay_nil in Hrep. inversion Hrep; subst s1.
    cbn [encs map concat app].
    rewrite (newest_headless cfg a id syn tl Hok Htl
               (match Ht with or_introl H => or_intror H | or_intror H => or_introl H end)).
    destruct (reusable (oa_closed a)) as [[init lastc]|] eqn:Er.
    + eexists. split; [reflexivity|]. cbn [y_core y_disk y_queue k_sm k_open k_closed k_pending].
      repeat split; try reflexivity; try congruence.
    + eexists. split; [reflexivity|]. cbn [y_core y_disk y_queue k_sm k_open k_closed k_pending].
      repeat split; try reflexivity; try congruence.
  - rewrite <- Ers in *. assert (Hne : rs <> []) by (rewrite Ers; discriminate).
    clear Ers. destruct tl as [|b tl'] eqn:Etl.
    + rewrite app_nil_r.
      rewrite (newest_complete cfg a id syn rs Hok Hrs s1 Hne Hrep).
      eexists. split; [reflexivity|]. cbn [y_core y_disk y_queue k_sm k_open k_closed k_pending].
      repeat split; try reflexivity; try congruence.
    + rewrite <- Etl in *. assert (Htlne : tl <> []) by (rewrite Etl; discriminate).
      clear Etl. destruct Ht as [Ht|Ht]; [|congruence].
      rewrite (newest_cut cfg a id syn rs Hok Hrs tl s1 Ht Htl Htlne Hne Hrep).
      eexists. split; [reflexivity|]. cbn [y_core y_disk y_queue k_sm k_open k_closed k_pending].
      repeat split; try reflexivity; try congruence.
Qed.

Theorem C10_truncate_disabled :
  c_truncate cfg = false -> tl <> [] ->
  exists e, (e = EDecodeEof \/ e = EDecodeInvalid) /\
    open_dir cfg (older ++ [mkFile id (encs rs ++ tl) syn]) =
    OpenErr e (older ++ [mkFile id (encs rs ++ tl) syn]).
Proof.
  intros Ht Hne.
  pose proof (older_acc_ok cfg older id _ syn a Holder Hids Hgap) as Hok.
  destruct (newest_no_truncate cfg a id syn rs tl Hok Hrs Ht Htl Hne) as [e [He E]].
  exists e. split; [exact He|].
  rewrite (open_dir_newest cfg older _ a Holder), E.
  rewrite (open_older_no_truncate cfg older _ a Ht Holder). reflexivity.
Qed.

End C10.

(* with truncation disabled, whatever makes the loop fail, the directory is
   reported as it was found *)
Corollary open_dir_no_truncate_loop_err : forall cfg d e d',
  c_truncate cfg = false -> open_loop cfg d (acc0 cfg d) = inr (e, d') -> d' = d.
Proof.
  intros cfg d e d' Ht H. exact (open_loop_no_truncate_err cfg d _ e d' Ht H).
Qed.

Print Assumptions cut_tail_shape.
Print Assumptions chunk_open_complete.
Print Assumptions chunk_open_torn.
Print Assumptions chunk_open_zero_tail.
Print Assumptions open_loop_app.
Print Assumptions newest_complete.
Print Assumptions newest_cut.
Print Assumptions newest_headless.
Print Assumptions newest_no_truncate.
Print Assumptions C10_longest_prefix_open.
Print Assumptions C10_truncate_disabled.
Print Assumptions open_loop_no_truncate_err.
