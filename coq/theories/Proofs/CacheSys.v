(* C15, system level: along every run without restart and without update_state the
   payload cache of the caller state satisfies [cache_ok] and holds no key above the
   last log id. *)
From Coq Require Import List NArith Bool Lia Sorted.
From RaftLog Require Import Base.Bytes Model.Types Model.Codec Model.Cache Model.Core
  Model.Recover Model.Run.
From RaftLog Require Import Proofs.CacheFacts.
Import ListNotations.
Local Open Scope N_scope.

(* ------------------------------------------------------------------ the histories covered *)
Definition op_no_restart (o : op) : bool :=
  match o with
  | ORestart _ => false
  | OW (OUpdateState _) => false
  | _ => true
  end.
Definition ops_no_restart (ops : list op) : bool := forallb op_no_restart ops.

(* ------------------------------------------------------------------ the invariant *)
Definition cinv (s : sm) : Prop :=
  cache_ok (m_cache s) /\ keys_le (m_cache s) (r_last (m_rs s)).

Definition sys_cinv (y : sys) : Prop := cinv (k_sm (y_core y)).

(* records that may be applied: an installed state must not put [last] below a resident key *)
Definition rec_safe (s : sm) (r : record) : Prop :=
  match r with
  | RState st => keys_le (m_cache s) (r_last st)
  | _ => True
  end.

Lemma cinv_new cfg : cinv (sm_new cfg).
Proof. split; [apply cache_new_ok | apply keys_le_new]. Qed.

(* ------------------------------------------------------------------ sm_apply *)
Lemma rs_apply_valid s r :
  rs_validate s r = None -> exists s', rs_apply s r = inl s'.
Proof. intros H. unfold rs_apply. rewrite H. eexists; reflexivity. Qed.

Lemma rs_apply_last_append s id p s' :
  rs_apply s (RAppend id p) = inl s' -> r_last s' = Some id.
Proof.
  unfold rs_apply. destruct (rs_validate s (RAppend id p)); [discriminate|].
  intros H; inversion H; subst. reflexivity.
Qed.

Lemma rs_apply_last_other s r s' :
  rs_apply s r = inl s' ->
  match r with
  | RVote _ | RCommit _ => r_last s' = r_last s
  | _ => True
  end.
Proof.
  unfold rs_apply. destruct (rs_validate s r); [discriminate|].
  intros H; inversion H; subst. destruct r; try exact I; reflexivity.
Qed.

Lemma rs_apply_last_trunc s o s' :
  rs_apply s (RTrunc o) = inl s' ->
  r_last s' = if opair_ltb o (r_last s) then o else r_last s.
Proof.
  unfold rs_apply. cbn [rs_validate]. intros H; inversion H; subst.
  destruct (opair_ltb o (r_last s)); reflexivity.
Qed.

Lemma rs_apply_last_purge s id s' :
  rs_apply s (RPurge id) = inl s' -> opair_leb (r_last s) (r_last s') = true.
Proof.
  unfold rs_apply. cbn [rs_validate]. intros H; inversion H; subst. clear H.
  destruct (opair_ltb (r_purged s) (Some id)) eqn:E1.
  - cbn [rs_set_purged r_last].
    destruct (opair_ltb (r_last s) (Some id)) eqn:E2; cbn [rs_set_last rs_set_purged r_last].
    + apply opair_ltb_leb. exact E2.
    + apply opair_leb_refl.
  - destruct (opair_ltb (r_last s) (Some id)) eqn:E2; cbn [rs_set_last r_last].
    + apply opair_ltb_leb. exact E2.
    + apply opair_leb_refl.
Qed.

Lemma rs_apply_state s st s' : rs_apply s (RState st) = inl s' -> s' = st.
Proof. unfold rs_apply. cbn [rs_validate]. intros H; inversion H; reflexivity. Qed.

Lemma rs_validate_append_above s id p :
  rs_validate s (RAppend id p) = None -> opair_leb (Some id) (r_last s) = false.
Proof.
  cbn [rs_validate]. destruct (opair_leb (Some id) (r_last s)); [discriminate | reflexivity].
Qed.

(* the cache part of sm_apply *)
Definition cache_apply (c : cache) (r : record) : cache :=
  match r with
  | RAppend id p => cache_insert c id p
  | RTrunc (Some id) => cache_truncate_after c id
  | RTrunc None => cache_clear c
  | RPurge id => cache_purge_upto c id
  | _ => c
  end.

Lemma sm_apply_shape s r ch seg :
  m_cache (fst (sm_apply s r ch seg)) = cache_apply (m_cache s) r /\
  (forall rs', rs_apply (m_rs s) r = inl rs' ->
     m_rs (fst (sm_apply s r ch seg)) = rs' /\ snd (sm_apply s r ch seg) = None) /\
  (forall e, rs_apply (m_rs s) r = inr e ->
     m_rs (fst (sm_apply s r ch seg)) = m_rs s /\ snd (sm_apply s r ch seg) = Some e).
Proof.
  unfold sm_apply.
  destruct (rs_apply (m_rs s) r) as [rs1|e1] eqn:E;
    (destruct r as [v|id p|id|[id|]|id|st]; cbn [fst snd m_cache m_rs cache_apply];
     (split; [reflexivity|]); split; intros x Hx; inversion Hx; subst; split; reflexivity).
Qed.

Lemma cache_apply_evictable c r : ch_evictable (cache_apply c r) = ch_evictable c.
Proof.
  destruct r as [v|id p|id|[id|]|id|st]; cbn [cache_apply]; try reflexivity.
  - apply cache_insert_evictable.
  - apply cache_truncate_after_evictable.
  - apply cache_purge_upto_evictable.
Qed.

Lemma sm_apply_cinv s r ch seg :
  cinv s -> rs_validate (m_rs s) r = None -> rec_safe s r ->
  cinv (fst (sm_apply s r ch seg)) /\ snd (sm_apply s r ch seg) = None.
Proof.
  intros [Hok Hle] Hv Hsafe.
  destruct (rs_apply_valid _ _ Hv) as [rs' Hrs].
  destruct (sm_apply_shape s r ch seg) as (Hc & Hr & _).
  destruct (Hr rs' Hrs) as [Hrs' Hnone]. split; [|exact Hnone].
  unfold cinv. rewrite Hc, Hrs'. clear Hc Hr Hrs' Hnone.
  destruct r as [v|id p|id|[id|]|id|st]; cbn [cache_apply].
  - apply rs_apply_last_other in Hrs. rewrite Hrs. split; assumption.
  - apply rs_validate_append_above in Hv. apply rs_apply_last_append in Hrs. rewrite Hrs.
    split.
    + apply cache_insert_ok; [exact Hok|]. eapply keys_le_below; [exact Hle | exact Hv].
    + eapply keys_le_insert; [exact Hle|].
      apply opair_ltb_leb. apply opair_leb_false_iff. exact Hv.
  - apply rs_apply_last_other in Hrs. rewrite Hrs. split; assumption.
  - apply rs_apply_last_trunc in Hrs. rewrite Hrs. split.
    + apply cache_truncate_after_ok. exact Hok.
    + destruct (opair_ltb (Some id) (r_last (m_rs s))).
      * apply keys_le_truncate_after_key. apply Hok.
      * apply keys_le_truncate_after. exact Hle.
  - split; [apply cache_clear_ok; exact Hok | apply keys_le_clear].
  - apply rs_apply_last_purge in Hrs. split.
    + apply cache_purge_upto_ok. exact Hok.
    + apply keys_le_purge_upto. eapply keys_le_mono; [exact Hle | exact Hrs].
  - apply rs_apply_state in Hrs. subst rs'. split; [exact Hok | exact Hsafe].
Qed.

(* ------------------------------------------------------------------ try_close, append_and_apply *)
Lemma try_close_sm k k' effs : try_close k = Ret (k', effs) -> k_sm k' = k_sm k.
Proof.
  unfold try_close. destruct (is_full (k_cfg k) (k_open k)).
  - destruct (ck_last_segment (k_open k)) as [[s l]|]; [|discriminate].
    intros H; inversion H; subst. reflexivity.
  - intros H; inversion H; subst. reflexivity.
Qed.

(* what an append_and_apply call does to the state machine *)
Lemma append_and_apply_sm k r k' w effs :
  append_and_apply k r = Ret (k', w, effs) ->
  (k' = k /\ exists e, w = WErr e) \/
  (rs_validate (m_rs (k_sm k)) r = None /\
   exists ch seg, k_sm k' = fst (sm_apply (k_sm k) r ch seg) /\
     (snd (sm_apply (k_sm k) r ch seg) = None -> exists o l, w = WOk o l)).
Proof.
  unfold append_and_apply. destruct (index_limit r).
  { intros H; inversion H; subst. left. split; [reflexivity | eexists; reflexivity]. }
  destruct (rs_validate (m_rs (k_sm k)) r) as [e|] eqn:Ev.
  { intros H; inversion H; subst. left. split; [reflexivity | eexists; reflexivity]. }
  destruct (ck_last_segment _) as [seg|] eqn:Es; [|discriminate].
  destruct (sm_apply (k_sm k) r _ seg) as [sm1 oe] eqn:Ea.
  intros H. right. split; [reflexivity|].
  exists (ck_id (ck_push (k_open k) (N.of_nat (length (enc_record r))))), seg.
  rewrite Ea. cbn [fst snd]. destruct oe as [e|].
  - inversion H; subst. split; [reflexivity | discriminate].
  - destruct (try_close _) as [[k2 ef]|] eqn:Et; [|discriminate].
    inversion H; subst. apply try_close_sm in Et. cbn [k_sm] in Et.
    split; [exact Et | intros _; eexists; eexists; reflexivity].
Qed.

Lemma append_and_apply_cinv k r k' w effs :
  cinv (k_sm k) -> rec_safe (k_sm k) r ->
  append_and_apply k r = Ret (k', w, effs) -> cinv (k_sm k').
Proof.
  intros Hinv Hsafe H. apply append_and_apply_sm in H.
  destruct H as [[-> _] | (Hv & ch & seg & Hsm & _)]; [exact Hinv|].
  rewrite Hsm. apply sm_apply_cinv; assumption.
Qed.

(* an accepted call went through the cache operation of its record *)
Lemma append_and_apply_ok_cache k r k' o l effs :
  cinv (k_sm k) -> rec_safe (k_sm k) r ->
  append_and_apply k r = Ret (k', WOk o l, effs) ->
  m_cache (k_sm k') = cache_apply (m_cache (k_sm k)) r.
Proof.
  intros Hinv Hsafe H. apply append_and_apply_sm in H.
  destruct H as [[_ [e He]] | (Hv & ch & seg & Hsm & _)]; [discriminate|].
  rewrite Hsm. apply sm_apply_shape.
Qed.

(* ------------------------------------------------------------------ do_append, do_write *)
Lemma do_append_cinv es : forall k acc effs k' w effs',
  cinv (k_sm k) -> do_append k es acc effs = Ret (k', w, effs') -> cinv (k_sm k').
Proof.
  induction es as [|[id p] r IH]; intros k acc effs k' w effs' Hinv H; cbn [do_append] in H.
  - inversion H; subst. exact Hinv.
  - destruct (append_and_apply k (RAppend id p)) as [[[k1 w1] ef]|] eqn:Ea; [|discriminate].
    assert (Hinv1 : cinv (k_sm k1)).
    { eapply append_and_apply_cinv; [ | | exact Ea]; [exact Hinv | exact I]. }
    destruct w1 as [o l|e].
    + eapply IH; [exact Hinv1 | exact H].
    + inversion H; subst. exact Hinv1.
Qed.

Definition wop_no_update (w : wop) : bool :=
  match w with OUpdateState _ => false | _ => true end.

Lemma do_write_cinv k w k' r effs :
  wop_no_update w = true -> cinv (k_sm k) ->
  do_write k w = Ret (k', r, effs) -> cinv (k_sm k').
Proof.
  intros Hw Hinv H. destruct w as [v|es|i|upto|id|u|st]; cbn [do_write] in H.
  - eapply append_and_apply_cinv; [ | | exact H]; [exact Hinv | exact I].
  - destruct (wal_last_segment k) as [w0|]; [|discriminate].
    eapply do_append_cinv; [exact Hinv | exact H].
  - destruct (N.eqb i (next_index (r_purged (m_rs (k_sm k))))).
    + eapply append_and_apply_cinv; [ | | exact H]; [exact Hinv | exact I].
    + destruct (N.eqb i 0).
      * inversion H; subst. exact Hinv.
      * destruct (lm_get_id k (i - 1)) as [id|].
        -- eapply append_and_apply_cinv; [ | | exact H]; [exact Hinv | exact I].
        -- inversion H; subst. exact Hinv.
  - destruct (N.ltb (lid_index upto) (next_index (r_purged (m_rs (k_sm k))))).
    + destruct (wal_last_segment k) as [w0|]; [|discriminate].
      inversion H; subst. exact Hinv.
    + destruct (append_and_apply k (RPurge upto)) as [[[k1 w1] ef]|] eqn:Ea; [|discriminate].
      assert (Hinv1 : cinv (k_sm k1)).
      { eapply append_and_apply_cinv; [ | | exact Ea]; [exact Hinv | exact I]. }
      destruct w1 as [o l|e].
      * destruct (pop_obsolete upto (k_closed k1)) as [ids rest].
        inversion H; subst. exact Hinv1.
      * inversion H; subst. exact Hinv1.
  - eapply append_and_apply_cinv; [ | | exact H]; [exact Hinv | exact I].
  - eapply append_and_apply_cinv; [ | | exact H]; [exact Hinv|].
    cbn [rec_safe rs_set_user r_last]. apply Hinv.
  - discriminate.
Qed.

(* ------------------------------------------------------------------ effects, flush, read, worker *)
Lemma apply_effs_core es : forall y, y_core (apply_effs y es) = y_core y.
Proof.
  unfold apply_effs. induction es as [|e es IH]; intros y; cbn [fold_left]; [reflexivity|].
  rewrite IH. destruct e; reflexivity.
Qed.

Lemma do_flush_sm k cb : k_sm (fst (do_flush k cb)) = k_sm k.
Proof. reflexivity. Qed.

Lemma do_read_sm k d from to : k_sm (fst (do_read k d from to)) = k_sm k.
Proof.
  unfold do_read. destruct (read_items _ _ _ _ _ _) as [[items h] ms]. reflexivity.
Qed.

Lemma cinv_set_evictable s b :
  cinv s -> cinv (mkSM (m_rs s) (m_log s) (cache_set_evictable (m_cache s) b)).
Proof. intros [H1 H2]. split; [exact H1 | exact H2]. Qed.

Lemma cinv_drain s : cinv s -> cinv (mkSM (m_rs s) (m_log s) (cache_drain (m_cache s))).
Proof.
  intros [H1 H2]. split; cbn [m_cache m_rs].
  - apply cache_drain_ok; exact H1.
  - apply keys_le_drain; exact H2.
Qed.

Lemma worker_step_cinv y r : sys_cinv y -> sys_cinv (worker_step y r).
Proof.
  unfold sys_cinv. intros H. destruct r as [upto data cb|off prev|ids]; cbn [worker_step].
  - destruct (rev (y_files y)) as [|newest older]; [exact H|].
    cbn [y_core]. unfold core_with_cache, core_with_sm. cbn [k_sm].
    apply cinv_set_evictable. exact H.
  - exact H.
  - exact H.
Qed.

Lemma fold_worker_step_cinv q : forall y, sys_cinv y -> sys_cinv (fold_left worker_step q y).
Proof.
  induction q as [|r q IH]; intros y H; cbn [fold_left]; [exact H|].
  apply IH. apply worker_step_cinv. exact H.
Qed.

Lemma worker_idle_cinv y : sys_cinv y -> sys_cinv (worker_idle y).
Proof. intros H. unfold worker_idle. apply fold_worker_step_cinv. exact H. Qed.

(* ------------------------------------------------------------------ run_op, run_ops *)
Lemma run_op_cinv y o y' res :
  op_no_restart o = true -> sys_cinv y -> run_op y o = (Some y', res) -> sys_cinv y'.
Proof.
  intros Ho Hinv H. unfold sys_cinv in *. destruct o as [w|cb|from to| | | | | |cfg]; cbn [run_op] in H.
  - destruct (do_write (y_core y) w) as [[[k r] effs]|] eqn:Ew; [|discriminate].
    inversion H; subst. rewrite apply_effs_core. cbn [with_core y_core].
    eapply do_write_cinv; [|exact Hinv|exact Ew].
    destruct w; try reflexivity. discriminate.
  - pose proof (do_flush_sm (y_core y) cb) as Hs.
    destruct (do_flush (y_core y) cb) as [k effs]. inversion H; subst.
    rewrite apply_effs_core. cbn [with_core y_core]. cbn [fst] in Hs. rewrite Hs. exact Hinv.
  - pose proof (do_read_sm (y_core y) (y_disk y) from to) as Hs.
    destruct (do_read (y_core y) (y_disk y) from to) as [k items]. inversion H; subst.
    cbn [with_core y_core]. cbn [fst] in Hs. rewrite Hs. exact Hinv.
  - inversion H; subst. exact Hinv.
  - inversion H; subst. exact Hinv.
  - inversion H; subst. exact Hinv.
  - inversion H; subst. apply worker_idle_cinv. exact Hinv.
  - inversion H; subst. cbn [with_core y_core]. unfold core_with_cache, core_with_sm. cbn [k_sm].
    apply cinv_drain. exact Hinv.
  - discriminate.
Qed.

Lemma run_ops_cinv ops : forall y res y',
  ops_no_restart ops = true -> sys_cinv y -> run_ops y ops = (res, Some y') -> sys_cinv y'.
Proof.
  induction ops as [|o ops IH]; intros y res y' Hops Hinv H; cbn [run_ops] in H.
  - inversion H; subst. exact Hinv.
  - unfold ops_no_restart in Hops. cbn [forallb] in Hops. apply andb_true_iff in Hops.
    destruct Hops as [Ho Hops].
    destruct (run_op y o) as [[y1|] r1] eqn:Eo; [|discriminate].
    destruct (run_ops y1 ops) as [rs fin] eqn:Er. inversion H; subst.
    eapply IH; [exact Hops | | exact Er].
    eapply run_op_cinv; [exact Ho | exact Hinv | exact Eo].
Qed.

(* ------------------------------------------------------------------ the initial state *)
Lemma open_dir_empty cfg :
  exists y, open_dir cfg [] = OpenOk y /\ k_sm (y_core y) = sm_new cfg.
Proof. eexists. split; reflexivity. Qed.

Lemma open_dir_empty_cinv cfg y : open_dir cfg [] = OpenOk y -> sys_cinv y.
Proof.
  intros H. destruct (open_dir_empty cfg) as (y0 & H0 & Hsm).
  rewrite H0 in H. inversion H; subst. unfold sys_cinv. rewrite Hsm. apply cinv_new.
Qed.

(* the states reached by restart-free runs *)
Definition reachable (cfg : config) (y : sys) : Prop :=
  exists ops res, ops_no_restart ops = true /\ run_case cfg ops = (res, Some y).

Lemma run_case_cinv cfg ops res y :
  ops_no_restart ops = true -> run_case cfg ops = (res, Some y) -> sys_cinv y.
Proof.
  unfold run_case. intros Hops H.
  destruct (open_dir cfg []) as [y0|e d] eqn:Eo; [|discriminate].
  eapply run_ops_cinv; [exact Hops | | exact H].
  eapply open_dir_empty_cinv. exact Eo.
Qed.

Lemma reachable_cinv cfg y : reachable cfg y -> sys_cinv y.
Proof. intros (ops & res & Hops & H). eapply run_case_cinv; eassumption. Qed.

(* ------------------------------------------------------------------ C15 *)
Theorem C15_counts_exact : forall cfg ops res y,
  ops_no_restart ops = true ->
  run_case cfg ops = (res, Some y) ->
  cache_ok (m_cache (k_sm (y_core y))).
Proof. intros cfg ops res y Hops H. apply (run_case_cinv cfg ops res y Hops H). Qed.

(* the same invariant with the key bound, for use by other proofs *)
Theorem C15_keys_le_last : forall cfg ops res y,
  ops_no_restart ops = true ->
  run_case cfg ops = (res, Some y) ->
  keys_le (m_cache (k_sm (y_core y))) (r_last (m_rs (k_sm (y_core y)))).
Proof. intros cfg ops res y Hops H. apply (run_case_cinv cfg ops res y Hops H). Qed.

(* what stat() reports *)
Theorem C15_stat_exact : forall cfg ops res y,
  ops_no_restart ops = true ->
  run_case cfg ops = (res, Some y) ->
  let es := ch_entries (m_cache (k_sm (y_core y))) in
  st_items (do_stat (y_core y)) = N.of_nat (length es) /\
  st_size (do_stat (y_core y)) = total es /\
  NoDup (map fst es).
Proof.
  intros cfg ops res y Hops H es.
  pose proof (C15_counts_exact cfg ops res y Hops H) as [Hs Hsz].
  split; [reflexivity|]. split; [exact Hsz|]. apply sorted_keys_NoDup. exact Hs.
Qed.

(* over a limit after an accepted append: everything resident is pinned.
   First for one journal record, then for a whole accepted append call. *)
Lemma append_pinned k id p k' o l effs :
  cinv (k_sm k) ->
  append_and_apply k (RAppend id p) = Ret (k', WOk o l, effs) ->
  let c' := m_cache (k_sm k') in
  ch_evictable c' = ch_evictable (m_cache (k_sm k)) /\
  (need_evict c' (length (ch_entries c')) (ch_size c') = true ->
   forall id' p', In (id', p') (ch_entries c') -> opair_leb (Some id') (ch_evictable c') = false).
Proof.
  intros Hinv H c'. subst c'.
  rewrite (append_and_apply_ok_cache k (RAppend id p) _ _ _ _ Hinv I H). cbn [cache_apply].
  split; [apply cache_insert_evictable|].
  rewrite cache_insert_evictable. apply C15_over_limit_pinned_cache. apply Hinv.
Qed.

Lemma do_append_pinned es : forall k acc effs k' o l effs',
  es <> [] -> cinv (k_sm k) ->
  do_append k es acc effs = Ret (k', WOk o l, effs') ->
  let c' := m_cache (k_sm k') in
  ch_evictable c' = ch_evictable (m_cache (k_sm k)) /\
  (need_evict c' (length (ch_entries c')) (ch_size c') = true ->
   forall id' p', In (id', p') (ch_entries c') -> opair_leb (Some id') (ch_evictable c') = false).
Proof.
  induction es as [|[id p] r IH]; intros k acc effs k' o l effs' Hne Hinv H; [congruence|].
  cbn [do_append] in H.
  destruct (append_and_apply k (RAppend id p)) as [[[k1 w1] ef]|] eqn:Ea; [|discriminate].
  destruct w1 as [o1 l1|e]; [|discriminate].
  pose proof (append_pinned _ _ _ _ _ _ _ Hinv Ea) as [Hev1 Hpin1].
  destruct r as [|e2 r2].
  - cbn [do_append] in H. inversion H; subst. split; [exact Hev1 | exact Hpin1].
  - assert (Hinv1 : cinv (k_sm k1)).
    { eapply append_and_apply_cinv; [ | | exact Ea]; [exact Hinv | exact I]. }
    assert (Hne2 : e2 :: r2 <> []) by discriminate.
    pose proof (IH _ _ _ _ _ _ _ Hne2 Hinv1 H) as [Hev2 Hpin2].
    split; [congruence | exact Hpin2].
Qed.

Theorem C15_over_limit_pinned : forall cfg ops res y es y' o l,
  ops_no_restart ops = true ->
  run_case cfg ops = (res, Some y) ->
  es <> [] ->
  run_op y (OW (OAppend es)) = (Some y', ResW (WOk o l)) ->
  let c := m_cache (k_sm (y_core y)) in
  let c' := m_cache (k_sm (y_core y')) in
  need_evict c' (length (ch_entries c')) (ch_size c') = true ->
  forall id p, In (id, p) (ch_entries c') -> opair_leb (Some id) (ch_evictable c) = false.
Proof.
  intros cfg ops res y es y' o l Hops Hrun Hne Hop c c'. subst c c'.
  pose proof (run_case_cinv _ _ _ _ Hops Hrun) as Hinv. unfold sys_cinv in Hinv.
  cbn [run_op do_write] in Hop.
  destruct (wal_last_segment (y_core y)) as [w0|]; [|discriminate].
  destruct (do_append (y_core y) es w0 []) as [[[k r] effs]|] eqn:Ea; [|discriminate].
  inversion Hop; subst. rewrite apply_effs_core. cbn [with_core y_core].
  pose proof (do_append_pinned _ _ _ _ _ _ _ _ Hne Hinv Ea) as [Hev Hpin].
  rewrite <- Hev. exact Hpin.
Qed.

(* the single-entry form *)
Corollary C15_over_limit_pinned_single : forall cfg ops res y id0 p0 y' o l,
  ops_no_restart ops = true ->
  run_case cfg ops = (res, Some y) ->
  run_op y (OW (OAppend [(id0, p0)])) = (Some y', ResW (WOk o l)) ->
  let c := m_cache (k_sm (y_core y)) in
  let c' := m_cache (k_sm (y_core y')) in
  c' = cache_insert c id0 p0 /\
  (need_evict c' (length (ch_entries c')) (ch_size c') = true ->
   forall id p, In (id, p) (ch_entries c') -> opair_leb (Some id) (ch_evictable c) = false).
Proof.
  intros cfg ops res y id0 p0 y' o l Hops Hrun Hop c c'. split.
  - subst c c'. pose proof (run_case_cinv _ _ _ _ Hops Hrun) as Hinv. unfold sys_cinv in Hinv.
    cbn [run_op do_write] in Hop.
    destruct (wal_last_segment (y_core y)) as [w0|]; [|discriminate].
    cbn [do_append] in Hop.
    destruct (append_and_apply (y_core y) (RAppend id0 p0)) as [[[k1 w1] ef]|] eqn:Ea; [|discriminate].
    destruct w1 as [o1 l1|e]; inversion Hop; subst.
    rewrite apply_effs_core. cbn [with_core y_core].
    apply (append_and_apply_ok_cache (y_core y) (RAppend id0 p0) _ _ _ _ Hinv I Ea).
  - apply (C15_over_limit_pinned cfg ops res y [(id0, p0)] y' o l Hops Hrun); [discriminate | exact Hop].
Qed.

(* after drain_cache_evictable nothing resident is at or below the boundary *)
Theorem C15_drain : forall cfg ops res y y' r,
  ops_no_restart ops = true ->
  run_case cfg ops = (res, Some y) ->
  run_op y ODrain = (Some y', r) ->
  let c' := m_cache (k_sm (y_core y')) in
  ch_evictable c' = ch_evictable (m_cache (k_sm (y_core y))) /\
  forall id p, In (id, p) (ch_entries c') -> opair_leb (Some id) (ch_evictable c') = false.
Proof.
  intros cfg ops res y y' r Hops Hrun Hop c'. subst c'.
  pose proof (C15_counts_exact _ _ _ _ Hops Hrun) as Hok.
  cbn [run_op] in Hop. inversion Hop; subst.
  cbn [with_core y_core]. unfold core_with_cache, core_with_sm. cbn [k_sm m_cache].
  split; [apply cache_drain_evictable|].
  rewrite cache_drain_evictable. apply C15_drain_cache. exact Hok.
Qed.

(* ------------------------------------------------------------------ towards restarts *)
(* Replay applies records without validating first, but stops at the first refused
   one, so a successful replay step is a validated step. The only way the invariant
   can break is a state record that lowers [last] below a resident key; [heads_ok]
   rules that out and mentions the RaftLogState only (not the cache), so it can be
   discharged from a theorem saying what states the chunk heads on disk carry. *)
Lemma sm_apply_cinv_replay s r ch seg :
  cinv s -> rec_safe s r -> snd (sm_apply s r ch seg) = None ->
  cinv (fst (sm_apply s r ch seg)).
Proof.
  intros Hinv Hsafe Hnone.
  destruct (rs_validate (m_rs s) r) as [e|] eqn:Ev.
  - exfalso. destruct (sm_apply_shape s r ch seg) as (_ & _ & He).
    assert (Hr : rs_apply (m_rs s) r = inr e) by (unfold rs_apply; rewrite Ev; reflexivity).
    destruct (He e Hr) as [_ Hs]. congruence.
  - apply sm_apply_cinv; assumption.
Qed.

Fixpoint heads_ok (rs : rstate) (recs : list record) : Prop :=
  match recs with
  | [] => True
  | r :: rest =>
    match r with RState st => opair_leb (r_last rs) (r_last st) = true | _ => True end /\
    match rs_apply rs r with inl rs' => heads_ok rs' rest | inr _ => True end
  end.

Lemma replay_cinv recs : forall ends s id start s1,
  cinv s -> heads_ok (m_rs s) recs ->
  replay s id start recs ends = (s1, None) -> cinv s1.
Proof.
  induction recs as [|r recs IH]; intros ends s id start s1 Hinv Hh H.
  - cbn [replay] in H. inversion H; subst. exact Hinv.
  - destruct ends as [|e ends]; cbn [replay] in H.
    + inversion H; subst. exact Hinv.
    + cbn [heads_ok] in Hh. destruct Hh as [Hst Hrest].
      destruct (sm_apply s r id (start, e - start)) as [s2 oe] eqn:Ea.
      destruct oe as [er|]; [discriminate|].
      assert (Hsafe : rec_safe s r).
      { destruct r; try exact I. cbn [rec_safe]. eapply keys_le_mono; [apply Hinv | exact Hst]. }
      pose proof (sm_apply_cinv_replay s r id (start, e - start) Hinv Hsafe) as Hc.
      rewrite Ea in Hc. cbn [fst snd] in Hc. specialize (Hc eq_refl).
      eapply IH; [exact Hc | | exact H].
      destruct (rs_apply (m_rs s) r) as [rs'|er] eqn:Er.
      * destruct (sm_apply_shape s r id (start, e - start)) as (_ & Hl & _).
        destruct (Hl rs' Er) as [Hm _]. rewrite Ea in Hm. cbn [fst] in Hm. rewrite Hm. exact Hrest.
      * exfalso. destruct (sm_apply_shape s r id (start, e - start)) as (_ & _ & Hr).
        destruct (Hr er Er) as [_ Hs]. rewrite Ea in Hs. cbn [snd] in Hs. discriminate.
Qed.

Print Assumptions C15_counts_exact.
Print Assumptions replay_cinv.
Print Assumptions C15_keys_le_last.
Print Assumptions C15_stat_exact.
Print Assumptions C15_over_limit_pinned.
Print Assumptions C15_over_limit_pinned_single.
Print Assumptions C15_drain.
