(* C14, second half, from an invariant that does not depend on how the instance was
   started: the worker of a dropped store finishes whenever it tracks at least one file
   and the request drained with a batch is never a write. (PurgeDrain.v derives the
   same facts from the durability invariant of PurgeDurable.v, which needs more of the
   initial directory.) *)
From Coq Require Import List NArith Lia Bool Arith Sorting.Sorted.
From Coq.Strings Require Import Byte.
From RaftLog Require Import Base.Bytes Model.Types Model.Codec Model.Cache Model.Core
  Model.Recover Model.Run Model.Sys Spec.Durable.
From RaftLog Require Import Proofs.CodecFacts Proofs.AckFacts Proofs.JournalDisk Proofs.JournalChunk
  Proofs.PurgeFacts Proofs.PurgeDurable Proofs.PurgeDrain.
Import ListNotations.
Local Open Scope N_scope.

(* a live worker tracks at least one file, and exactly one after the loop over the older files *)
Definition minv (z : sys2) : Prop :=
  w_alive (z_w z) = true -> w_files (z_w z) <> [] /\ sync_tail (z_w z).

Lemma app_ne {A} (l : list A) x : l ++ [x] <> [].
Proof. destruct l; discriminate. Qed.

Lemma minv_zwork z ok z' v : minv z -> zwork z ok = Some (z', v) -> minv z'.
Proof.
  intros Hm H. unfold zwork in H. unfold minv, sync_tail in *.
  destruct z as [k t d q w a dr g]. zproj.
  destruct w as [wf al ba sf pp]. zproj.
  destruct al; [|discriminate]. destruct ba as [b|]; [|discriminate].
  destruct b as [ws nf pos bok]. zproj. destruct (Hm eq_refl) as [Hne Htl]. clear Hm.
  destruct pos as [i| | | |i| | |rem|].
  - destruct (nth_error ws i) as [ww|].
    + destruct (ww_data ww) as [|x data].
      * wk_inv2 H. auto.
      * destruct (newest _) as [f|]; [|discriminate]. destruct ok; wk_inv2 H; [auto|discriminate].
    + wk_inv2 H. auto.
  - destruct wf as [|f [|f2 rest]]; [congruence| |].
    + wk_inv2 H. intros _. split; [discriminate|eauto].
    + destruct ok; wk_inv2 H; intros _; (split; [discriminate|exact I]).
  - destruct wf as [|f rest]; [discriminate|]. wk_inv2 H. intros _. split; [discriminate|exact Htl].
  - destruct wf as [|f rest]; [discriminate|]. destruct ok; wk_inv2 H; intros _; (split; [discriminate|exact I]).
  - destruct (nth_error ws i) as [ww|]; [destruct (ww_cb ww)|]; wk_inv2 H; auto.
  - destruct sf; [wk_inv2 H; auto|]. destruct pp as [|id rest]; [wk_inv2 H; auto|].
    destruct ok; wk_inv2 H; [auto|discriminate].
  - destruct nf as [[u data cb|off prev|rids]|]; [discriminate| | |].
    + wk_inv2 H. intros _. split; [apply app_ne|exact I].
    + destruct sf; wk_inv2 H; auto.
    + wk_inv2 H. auto.
  - destruct rem as [|id rest]; [wk_inv2 H; auto|]. destruct ok; wk_inv2 H; [auto|discriminate].
  - wk_inv2 H. auto.
Qed.

Lemma minv_zstep z e z' v : minv z -> zstep z e = Some (z', v) -> minv z'.
Proof.
  intros Hm H. destruct e as [o| |k nf|ok|]; cbn [zstep] in H.
  - assert (z_w z' = z_w z) as E; [|unfold minv; rewrite E; exact Hm].
    unfold zcall in H. inv_step H; reflexivity.
  - assert (z_w z' = z_w z) as E; [|unfold minv; rewrite E; exact Hm].
    unfold zeff in H. inv_step H; reflexivity.
  - unfold minv, sync_tail in *. unfold zrecv in H.
    destruct (z_w z) as [wf al ba sf pp] eqn:Ew. zproj.
    destruct al; [|discriminate]. destruct ba as [b|]; [discriminate|].
    destruct (Hm eq_refl) as [Hne _].
    destruct (z_queue z) as [|r q]; [discriminate|].
    destruct r as [u data cb|off prev|rids].
    + destruct (take_writes k q) as [[ws rest]|]; [|discriminate].
      destruct nf.
      * destruct rest as [|r2 rest2]; [discriminate|].
        destruct r2; [discriminate| |]; inversion H; subst; zproj; auto.
      * destruct rest as [|[] ?]; inversion H; subst; zproj; auto.
    + destruct (Nat.eqb k 0 && negb nf); [|discriminate]. inversion H; subst; zproj; auto.
    + destruct (Nat.eqb k 0 && negb nf); [|discriminate]. inversion H; subst; zproj; auto.
  - eapply minv_zwork; eassumption.
  - destruct (z_todo z); [|discriminate]. inversion H; subst. exact Hm.
Qed.

Definition Good0 (z : sys2) : Prop := minv z /\ nfinv z.

Lemma good0_zstep z e z' v : Good0 z -> zstep z e = Some (z', v) -> Good0 z'.
Proof. intros [H1 H2] H. split; [eapply minv_zstep|eapply nfinv_zstep]; eassumption. Qed.

Lemma newest_some w : w_files w <> [] -> exists f, newest w = Some f.
Proof.
  unfold newest. intros H. destruct (rev (w_files w)) as [|f r] eqn:E; [|eauto].
  apply (f_equal (@rev _)) in E. rewrite rev_involutive in E. contradiction.
Qed.

Lemma zwork_progress0 z b : Good0 z -> w_alive (z_w z) = true -> w_batch (z_w z) = Some b ->
  exists z' v, zwork z true = Some (z', v) /\ (mu (z_w z') < mu (z_w z))%nat /\ frame z z'.
Proof.
  intros [Hm Hnf] Ha Hb. destruct (Hm Ha) as [Hne W3]. destruct (newest_some _ Hne) as [nfile A1]. clear Hm Hne.
  unfold zwork, frame, nfinv in *.
  destruct z as [k t d q w a dr g]. zproj.
  destruct w as [wf al ba sf pp]. zproj. subst al ba.
  destruct b as [ws nf pos bok]. zproj. unfold sync_tail in W3. zproj.
  destruct pos as [i| | | |i| | |rem|].
  - destruct (nth_error ws i) as [ww|] eqn:En.
    + assert (Hi : (i < length ws)%nat) by (apply nth_error_Some; congruence).
      destruct (ww_data ww) as [|x data].
      * eexists _, _. split; [reflexivity|]. unfold mu, w_set_pos, w_set_batch. zproj. split; [lia|repeat split].
      * rewrite A1. eexists _, _. split; [reflexivity|]. unfold mu, w_set_pos, w_set_batch. zproj. split; [lia|repeat split].
    + eexists _, _. split; [reflexivity|]. unfold mu, w_set_pos, w_set_batch. zproj. split; [lia|repeat split].
  - destruct wf as [|f [|f2 rest]]; eexists _, _; (split; [reflexivity|]); unfold mu, w_set_pos, w_set_batch; zproj;
      cbn [length]; (split; [lia|repeat split]).
  - destruct W3 as [f ->]. eexists _, _. split; [reflexivity|]. unfold mu, w_set_pos, w_set_batch. zproj. split; [lia|repeat split].
  - destruct W3 as [f ->]. eexists _, _. split; [reflexivity|]. unfold mu, w_set_pos, w_set_batch. zproj. split; [lia|repeat split].
  - destruct (nth_error ws i) as [ww|] eqn:En.
    + assert (Hi : (i < length ws)%nat) by (apply nth_error_Some; congruence).
      destruct (ww_cb ww) as [c|]; eexists _, _; (split; [reflexivity|]); unfold mu, w_set_pos, w_set_batch; zproj;
        (split; [lia|repeat split]).
    + eexists _, _. split; [reflexivity|]. unfold mu, w_set_pos, w_set_batch. zproj. split; [lia|repeat split].
  - destruct sf; [|destruct pp as [|id rest]]; eexists _, _; (split; [reflexivity|]); unfold mu, w_set_pos, w_set_batch; zproj;
      cbn [length]; (split; [lia|repeat split]).
  - destruct nf as [[u data cb|off prev|rids]|].
    + exfalso. eapply Hnf. reflexivity.
    + eexists _, _. split; [reflexivity|]. unfold mu, w_set_pos, w_set_batch. zproj. cbn [nf_len]. split; [lia|repeat split].
    + destruct sf; eexists _, _; (split; [reflexivity|]); unfold mu, w_set_pos, w_set_batch; zproj; cbn [nf_len];
        (split; [lia|repeat split]).
    + eexists _, _. split; [reflexivity|]. unfold mu, w_set_pos, w_set_batch. zproj. cbn [nf_len]. split; [lia|repeat split].
  - destruct rem as [|id rest]; eexists _, _; (split; [reflexivity|]); unfold mu, w_set_pos, w_set_batch; zproj;
      cbn [length]; (split; [lia|repeat split]).
  - eexists _, _. split; [reflexivity|]. unfold mu, w_set_pos, w_set_batch. zproj. split; [lia|repeat split].
Qed.

Lemma drain_batch0 n : forall z, (mu (z_w z) <= n)%nat -> Good0 z -> w_alive (z_w z) = true ->
  exists es z' vis, forallb ev_fault_free es = true /\ zrun z es = Some (z', vis) /\
    w_batch (z_w z') = None /\ Good0 z' /\ z_queue z' = z_queue z /\ z_todo z' = z_todo z /\
    z_dropped z' = z_dropped z /\ w_alive (z_w z') = true.
Proof.
  induction n as [|n IH]; intros z Hm Hg Ha.
  - exists [], z, []. split; [reflexivity|]. split; [reflexivity|].
    split; [|split; [exact Hg|repeat split; assumption]].
    unfold mu in Hm. destruct (w_batch (z_w z)) as [b|]; [|reflexivity].
    destruct (b_pos b); cbn in Hm; lia.
  - destruct (w_batch (z_w z)) as [b|] eqn:Eb.
    + destruct (zwork_progress0 _ _ Hg Ha Eb) as (z1 & v1 & Hw & Hlt & (F1 & F2 & F3 & F4)).
      assert (Hg1 : Good0 z1) by (eapply (good0_zstep z (ZWork true)); [exact Hg|exact Hw]).
      destruct (IH z1) as (es & z' & vis & E1 & E2 & E3 & E4 & E5 & E6 & E7 & E8); [lia|exact Hg1|exact F4|].
      exists (ZWork true :: es), z', (v1 ++ vis). split; [cbn [forallb ev_fault_free]; exact E1|].
      split; [cbn [zrun zstep]; rewrite Hw, E2; reflexivity|].
      split; [exact E3|]. split; [exact E4|]. repeat split; congruence.
    + exists [], z, []. split; [reflexivity|]. split; [reflexivity|]. split; [exact Eb|split; [exact Hg|repeat split; assumption]].
Qed.

Lemma drain_queue0 n : forall z, (length (z_queue z) <= n)%nat -> Good0 z -> w_alive (z_w z) = true ->
  z_todo z = [] ->
  exists es z' vis, forallb ev_fault_free es = true /\ zrun z es = Some (z', vis) /\ worker_idle2 z'.
Proof.
  induction n as [|n IH]; intros z Hl Hg Ha Ht.
  - destruct (drain_batch0 _ z (le_n _) Hg Ha) as (es & z' & vis & E1 & E2 & E3 & E4 & E5 & E6 & E7 & E8).
    exists es, z', vis. split; [exact E1|]. split; [exact E2|]. split; [|split; [exact E3|congruence]].
    rewrite E5. destruct (z_queue z); [reflexivity|cbn in Hl; lia].
  - destruct (drain_batch0 _ z (le_n _) Hg Ha) as (es & z1 & vis & E1 & E2 & E3 & E4 & E5 & E6 & E7 & E8).
    destruct (z_queue z1) as [|r q] eqn:Eq.
    + exists es, z1, vis. split; [exact E1|]. split; [exact E2|]. split; [exact Eq|split; [exact E3|congruence]].
    + destruct (zrecv_one _ _ _ E8 E3 Eq) as (z2 & R1 & R2 & R3 & R4 & R5).
      assert (Hg2 : Good0 z2) by (eapply (good0_zstep z1 (ZRecv 0 false)); [exact E4|exact R1]).
      destruct (IH z2) as (es2 & z3 & vis2 & G1 & G2 & G3).
      { rewrite R2. rewrite <- E5 in Hl. cbn [length] in Hl. lia. }
      { exact Hg2. } { exact R5. } { congruence. }
      exists (es ++ ZRecv 0 false :: es2), z3, (vis ++ [] ++ vis2).
      split; [rewrite forallb_app; cbn [forallb ev_fault_free]; rewrite E1, G1; reflexivity|].
      split; [|exact G3].
      clear - E2 R1 G2. revert z vis E2. induction es as [|e es IHes]; intros z vis E2; cbn [zrun app] in *.
      * inversion E2; subst. cbn [zstep]. rewrite R1, G2. reflexivity.
      * destruct (zstep z e) as [[za va]|]; [|discriminate].
        destruct (zrun za es) as [[zb vb]|] eqn:Er; [|discriminate]. inversion E2; subst.
        rewrite (IHes _ _ Er). rewrite app_assoc. reflexivity.
Qed.
