(* C16 -- no argument makes a public operation panic.

   In the model a panic of the real code is the [Panic] outcome of the write path
   (only source: [ck_last_segment] on a chunk without a record), which [run_op]
   reports as [ResPanic].  The invariant that excludes it is "the open chunk has at
   least one record" ([open_nonempty]); it holds after [open_dir] on every directory
   whose file ids are strictly increasing ([disk_sorted]), and every operation
   preserves both.

   Two target statements are FALSE for the model as written and are delivered as
   [_partial] + [_refuted]:
   - [C16_op_no_panic] (for [ORestart] on a system whose disk is not sorted),
   - [C16_next_index_in_range] (the model's indexes are unbounded N; the guard only
     refuses index = U64MAX, so the argument must be assumed to be a u64). *)
From Coq Require Import List NArith Bool Lia Sorting.Sorted.
From Coq.Strings Require Import Byte.
From RaftLog Require Import Base.Bytes Base.Crc32 Model.Types Model.Codec Model.Cache
  Model.Core Model.Recover Model.Run.
Import ListNotations.
Local Open Scope N_scope.

Local Arguments N.add : simpl never.
Local Arguments N.sub : simpl never.
Local Arguments N.mul : simpl never.
Local Arguments N.eqb : simpl never.
Local Arguments N.ltb : simpl never.
Local Arguments N.leb : simpl never.
Local Arguments N.compare : simpl never.
Local Arguments N.of_nat : simpl never.
Local Arguments enc_record : simpl never.

(* ================================================================== chunks *)
Definition open_nonempty (k : core) : Prop := ck_ends (k_open k) <> [].

Lemma ck_last_segment_ret : forall c, ck_ends c <> [] -> exists seg, ck_last_segment c = Ret seg.
Proof.
  intros c H. unfold ck_last_segment. destruct (rev (ck_ends c)) as [|e r] eqn:E.
  - exfalso. apply H. apply (f_equal (@rev N)) in E. rewrite rev_involutive in E. exact E.
  - eexists. reflexivity.
Qed.

Lemma ck_push_nonempty : forall c n, ck_ends (ck_push c n) <> [].
Proof.
  intros c n. unfold ck_push. cbn [ck_ends]. destruct (ck_ends c); discriminate.
Qed.

(* ================================================================== write path *)
Lemma try_close_ok : forall k, open_nonempty k ->
  exists k' effs, try_close k = Ret (k', effs) /\ open_nonempty k'.
Proof.
  intros k H. unfold try_close. destruct (is_full (k_cfg k) (k_open k)).
  - destruct (ck_last_segment_ret _ H) as [[s l] E]. rewrite E.
    eexists. eexists. split; [reflexivity|].
    unfold open_nonempty. cbn [k_open]. apply ck_push_nonempty.
  - exists k, []. split; [reflexivity|exact H].
Qed.

Lemma append_and_apply_ok : forall k r, open_nonempty k ->
  exists k' w effs, append_and_apply k r = Ret (k', w, effs) /\ open_nonempty k'.
Proof.
  intros k r H. unfold append_and_apply.
  destruct (index_limit r). { exists k, (WErr EIndexLimit), []. split; [reflexivity|exact H]. }
  destruct (rs_validate (m_rs (k_sm k)) r) as [e|].
  { exists k, (WErr e), []. split; [reflexivity|exact H]. }
  destruct (ck_last_segment_ret (ck_push (k_open k) (N.of_nat (length (enc_record r))))
              (ck_push_nonempty _ _)) as [seg E].
  rewrite E.
  destruct (sm_apply (k_sm k) r (ck_id (ck_push (k_open k) (N.of_nat (length (enc_record r))))) seg)
    as [sm1 oe].
  destruct oe as [e|].
  - eexists. eexists. eexists. split; [reflexivity|].
    unfold open_nonempty. cbn [k_open]. apply ck_push_nonempty.
  - match goal with |- context [try_close ?k1] =>
      destruct (try_close_ok k1) as (k2 & effs & E2 & H2)
    end.
    { unfold open_nonempty. cbn [k_open]. apply ck_push_nonempty. }
    rewrite E2. eexists. eexists. eexists. split; [reflexivity|exact H2].
Qed.

Lemma wal_last_segment_ok : forall k, open_nonempty k -> exists w, wal_last_segment k = Ret w.
Proof.
  intros k H. unfold wal_last_segment. destruct (ck_last_segment_ret _ H) as [[s l] E].
  rewrite E. eexists. reflexivity.
Qed.

Lemma do_append_ok : forall es k acc effs, open_nonempty k ->
  exists k' w effs', do_append k es acc effs = Ret (k', w, effs') /\ open_nonempty k'.
Proof.
  induction es as [|[id p] es IH]; intros k acc effs H.
  - exists k, acc, effs. split; [reflexivity|exact H].
  - cbn [do_append].
    destruct (append_and_apply_ok k (RAppend id p) H) as (k1 & w & ef & E & H1).
    rewrite E. destruct w as [off len|e].
    + apply IH. exact H1.
    + eexists. eexists. eexists. split; [reflexivity|exact H1].
Qed.

(* one step: with a non-empty open chunk no write panics, whatever the arguments *)
Theorem C16_write_no_panic : forall k w, open_nonempty k ->
  exists k' r effs, do_write k w = Ret (k', r, effs) /\ open_nonempty k'.
Proof.
  intros k w H. destruct w as [v|es|i|upto|id|u|st]; unfold do_write.
  - apply append_and_apply_ok; exact H.
  - destruct (wal_last_segment_ok k H) as [w0 E]. rewrite E. apply do_append_ok; exact H.
  - destruct (N.eqb i (next_index (r_purged (m_rs (k_sm k))))).
    { apply append_and_apply_ok; exact H. }
    destruct (N.eqb i 0).
    { exists k, (WErr EIndexNotFound), []. split; [reflexivity|exact H]. }
    destruct (lm_get_id k (i - 1)) as [id|].
    + apply append_and_apply_ok; exact H.
    + exists k, (WErr EIndexNotFound), []. split; [reflexivity|exact H].
  - destruct (N.ltb (lid_index upto) (next_index (r_purged (m_rs (k_sm k))))).
    + destruct (wal_last_segment_ok k H) as [w0 E]. rewrite E.
      exists k, w0, []. split; [reflexivity|exact H].
    + destruct (append_and_apply_ok k (RPurge upto) H) as (k1 & w & ef & E & H1).
      rewrite E. destruct w as [off len|e].
      * destruct (pop_obsolete upto (k_closed k1)) as [ids rest].
        eexists. eexists. eexists. split; [reflexivity|]. exact H1.
      * eexists. eexists. eexists. split; [reflexivity|exact H1].
  - apply append_and_apply_ok; exact H.
  - apply append_and_apply_ok; exact H.
  - apply append_and_apply_ok; exact H.
Qed.

(* ================================================================== sorted disks *)
Definition file_lt (f g : file) : Prop := f_id f < f_id g.
Definition disk_sorted (d : disk) : Prop := StronglySorted file_lt d.

Lemma disk_sorted_nil : disk_sorted [].
Proof. constructor. Qed.

Lemma disk_put_Forall : forall (P : file -> Prop) f d, P f -> Forall P d -> Forall P (disk_put f d).
Proof.
  intros P f d Hf. induction d as [|g r IH]; intros Hd; cbn [disk_put].
  - constructor; [exact Hf|constructor].
  - inversion Hd as [|g' r' Hg Hr]; subst.
    destruct (N.compare (f_id f) (f_id g)).
    + constructor; assumption.
    + constructor; assumption.
    + constructor; [exact Hg|]. apply IH. exact Hr.
Qed.

Lemma disk_put_sorted : forall f d, disk_sorted d -> disk_sorted (disk_put f d).
Proof.
  intros f d. unfold disk_sorted. induction d as [|g r IH]; intros Hd; cbn [disk_put].
  - constructor; constructor.
  - inversion Hd as [|g' r' Hr Hg]; subst.
    destruct (N.compare_spec (f_id f) (f_id g)) as [C|C|C].
    + constructor; [exact Hr|].
      apply Forall_impl with (P := file_lt g); [|exact Hg]. intros x Hx. unfold file_lt in *. lia.
    + constructor; [exact Hd|].
      constructor; [exact C|].
      apply Forall_impl with (P := file_lt g); [|exact Hg]. intros x Hx. unfold file_lt in *. lia.
    + constructor; [apply IH; exact Hr|].
      apply disk_put_Forall; [exact C|exact Hg].
Qed.

Lemma filter_sorted : forall (p : file -> bool) d, disk_sorted d -> disk_sorted (filter p d).
Proof.
  intros p d. unfold disk_sorted. induction d as [|g r IH]; intros Hd; cbn [filter].
  - constructor.
  - inversion Hd as [|g' r' Hr Hg]; subst. destruct (p g).
    + constructor; [apply IH; exact Hr|].
      rewrite Forall_forall in *. intros x Hx. apply filter_In in Hx. apply Hg. apply Hx.
    + apply IH. exact Hr.
Qed.

Lemma disk_remove_sorted : forall id d, disk_sorted d -> disk_sorted (disk_remove id d).
Proof. intros id d. unfold disk_remove. apply filter_sorted. Qed.

Lemma disk_append_sorted : forall id data d, disk_sorted d -> disk_sorted (disk_append id data d).
Proof.
  intros id data d H. unfold disk_append. destruct (disk_get id d); [apply disk_put_sorted|]; exact H.
Qed.

Lemma disk_sync_sorted : forall id d, disk_sorted d -> disk_sorted (disk_sync id d).
Proof.
  intros id d H. unfold disk_sync. destruct (disk_get id d); [apply disk_put_sorted|]; exact H.
Qed.

Lemma fold_left_inv : forall (A B : Type) (P : A -> Prop) (f : A -> B -> A) (l : list B) (a : A),
  (forall a b, P a -> P (f a b)) -> P a -> P (fold_left f l a).
Proof.
  intros A B P f l. induction l as [|b l IH]; intros a Hf Ha; cbn [fold_left].
  - exact Ha.
  - apply IH; [exact Hf|]. apply Hf. exact Ha.
Qed.

(* ================================================================== effects and the worker *)
Definition sys_ok (y : sys) : Prop := open_nonempty (y_core y) /\ disk_sorted (y_disk y).

Lemma apply_eff_ok : forall y e, sys_ok y -> sys_ok (apply_eff y e).
Proof.
  intros y e [H1 H2]. destruct e as [id head|r]; unfold apply_eff, sys_ok; cbn [y_core y_disk].
  - split; [exact H1|]. apply disk_put_sorted. exact H2.
  - split; assumption.
Qed.

Lemma apply_effs_ok : forall es y, sys_ok y -> sys_ok (apply_effs y es).
Proof.
  intros es y H. unfold apply_effs. apply fold_left_inv; [|exact H]. apply apply_eff_ok.
Qed.

Lemma worker_step_ok : forall y r, sys_ok y -> sys_ok (worker_step y r).
Proof.
  intros y r [H1 H2]. destruct r as [upto data cb|off prev|ids]; unfold worker_step.
  - destruct (rev (y_files y)) as [|newest older]; [split; assumption|].
    unfold sys_ok. cbn [y_core y_disk]. split.
    + unfold open_nonempty, core_with_cache, core_with_sm. cbn [k_open]. exact H1.
    + apply disk_sync_sorted. apply fold_left_inv.
      * intros d f Hd. apply disk_sync_sorted. exact Hd.
      * apply disk_append_sorted. exact H2.
  - split; assumption.
  - unfold sys_ok. cbn [y_core y_disk]. split; [exact H1|].
    apply fold_left_inv; [|exact H2]. intros d i Hd. apply disk_remove_sorted. exact Hd.
Qed.

Lemma worker_idle_ok : forall y, sys_ok y -> sys_ok (worker_idle y).
Proof.
  intros y H. unfold worker_idle. apply fold_left_inv; [apply worker_step_ok|].
  destruct H as [H1 H2]. split; assumption.
Qed.

(* ================================================================== recovery *)
Definition cl_ne (c : closed) : Prop := ck_ends (cl_chunk c) <> [].

Lemma closed_insert_Forall : forall (P : closed -> Prop) c l,
  P c -> Forall P l -> Forall P (closed_insert c l).
Proof.
  intros P c l Hc. induction l as [|c' r IH]; intros Hl; cbn [closed_insert].
  - constructor; [exact Hc|constructor].
  - inversion Hl as [|c'' r' Hc' Hr]; subst.
    destruct (N.compare (ck_id (cl_chunk c)) (ck_id (cl_chunk c'))).
    + constructor; assumption.
    + constructor; assumption.
    + constructor; [exact Hc'|]. apply IH. exact Hr.
Qed.

Lemma chunk_open_id : forall cfg id data oc,
  chunk_open cfg id data = inl oc -> ck_id (oc_chunk oc) = id.
Proof.
  intros cfg id data oc. unfold chunk_open.
  destruct (scan_file data) as [[recs rest] e].
  destruct e.
  - intros H. inversion H. reflexivity.
  - destruct (c_truncate cfg); intros H; inversion H. reflexivity.
  - destruct (all_zero rest && c_truncate cfg); intros H; inversion H. reflexivity.
  - intros H. discriminate H.
Qed.

Lemma split_last_In : forall (A : Type) (l : list A) i z, split_last l = Some (i, z) -> In z l.
Proof.
  intros A l. induction l as [|x r IH]; intros i z H.
  - discriminate H.
  - cbn [split_last] in H. destruct r as [|x' r'].
    + inversion H. left. reflexivity.
    + destruct (split_last (x' :: r')) as [[i' z']|] eqn:E; [|discriminate H].
      inversion H; subst. right. eapply IH. reflexivity.
Qed.

(* either every closed chunk has a record, or the loop is bound to stop with EGap:
   the chunk without a record was not the last file, its end is its own id, and
   all remaining files have a larger id *)
Definition oa_good (a : open_acc) (files : list file) : Prop :=
  Forall cl_ne (oa_closed a) \/
  (files <> [] /\ exists p, oa_prev_end a = Some p /\ Forall (fun f => p < f_id f) files).

Lemma open_loop_inv : forall cfg files a a',
  StronglySorted file_lt files -> disk_sorted (oa_disk a) -> oa_good a files ->
  open_loop cfg files a = inl a' ->
  Forall cl_ne (oa_closed a') /\ disk_sorted (oa_disk a').
Proof.
  intros cfg files. induction files as [|f rest IH]; intros a a' Hs Hd Hg H.
  - cbn [open_loop] in H. inversion H; subst a'. split; [|exact Hd].
    destruct Hg as [Hg|[Hn _]]; [exact Hg|]. exfalso. apply Hn. reflexivity.
  - inversion Hs as [|f' rest' Hsr Hlt]; subst.
    cbn [open_loop] in H.
    match type of H with (if ?g then _ else _) = _ => destruct g eqn:G end; [discriminate H|].
    assert (Hne : Forall cl_ne (oa_closed a)).
    { destruct Hg as [Hg|(_ & p & Ep & Hall)]; [exact Hg|]. exfalso.
      rewrite Ep in G. inversion Hall as [|f0 r0 Hp _]; subst.
      destruct (N.eqb p (f_id f)) eqn:E; [|discriminate G].
      apply N.eqb_eq in E. lia. }
    clear Hg G.
    destruct (chunk_open cfg (f_id f) (f_data f)) as [oc|e] eqn:Eco; [|discriminate H].
    pose proof (chunk_open_id _ _ _ _ Eco) as Hid.
    set (d1 := if oc_truncated oc
               then disk_put (mkFile (f_id f) (oc_data oc) (N.of_nat (length (oc_data oc)))) (oa_disk a)
               else oa_disk a) in *.
    assert (Hd1 : disk_sorted d1).
    { unfold d1. destruct (oc_truncated oc); [apply disk_put_sorted|]; exact Hd. }
    assert (Hend : ck_ends (oc_chunk oc) = [] -> ck_end (oc_chunk oc) = f_id f).
    { intros E0. unfold ck_end. rewrite E0. cbn [last]. exact Hid. }
    destruct (ck_ends (oc_chunk oc)) as [|e0 es] eqn:Ee.
    + destruct rest as [|f2 rest'].
      * inversion H; subst a'. cbn [oa_closed oa_disk]. split; [exact Hne|].
        apply disk_remove_sorted. exact Hd1.
      * match type of H with (match ?c with _ => _ end) = _ => destruct c as [s1 [er|]] eqn:Er end;
          [discriminate H|].
        apply IH in H; [exact H|exact Hsr|exact Hd1|].
        right. split; [discriminate|]. cbn [oa_prev_end].
        exists (f_id f). split; [rewrite (Hend eq_refl); reflexivity|exact Hlt].
    + match type of H with (match ?c with _ => _ end) = _ => destruct c as [s1 [er|]] eqn:Er end;
        [discriminate H|].
      apply IH in H; [exact H|exact Hsr|exact Hd1|].
      left. cbn [oa_closed]. apply closed_insert_Forall; [|exact Hne].
      unfold cl_ne. cbn [cl_chunk]. rewrite Ee. discriminate.
Qed.

(* an opened store has a non-empty open chunk (and a sorted directory) *)
Lemma open_dir_ok : forall cfg d y,
  disk_sorted d -> open_dir cfg d = OpenOk y -> sys_ok y.
Proof.
  intros cfg d y Hd H. unfold open_dir in H.
  destruct (open_loop cfg d (mkOA (sm_new cfg) [] None None d)) as [a|[e d']] eqn:EL;
    [|discriminate H].
  apply open_loop_inv in EL; [|exact Hd|exact Hd|left; constructor].
  destruct EL as [Hne Hda].
  assert (Hcreate : forall y0,
    match disk_get (match oa_prev_end a with Some p => p | None => 0 end) (oa_disk a) with
    | Some _ => OpenErr EExists (oa_disk a)
    | None =>
      OpenOk (mkSys (mkCore cfg (oa_sm a)
                (ck_push (mkChunk (match oa_prev_end a with Some p => p | None => 0 end) [])
                         (N.of_nat (length (enc_record (RState (m_rs (oa_sm a)))))))
                [] (oa_closed a) [] 0 0 0)
              (disk_put (mkFile (match oa_prev_end a with Some p => p | None => 0 end)
                                (enc_record (RState (m_rs (oa_sm a)))) 0) (oa_disk a))
              []
              [mkWF (match oa_prev_end a with Some p => p | None => 0 end)
                    (match split_last (oa_closed a) with
                     | Some (_, c) => r_last (cl_state c) | None => None end)] [])
    end = OpenOk y0 -> sys_ok y0).
  { intros y0 H0.
    destruct (disk_get (match oa_prev_end a with Some p => p | None => 0 end) (oa_disk a));
      [discriminate H0|].
    inversion H0; subst y0. unfold sys_ok. cbn [y_core y_disk]. split.
    - unfold open_nonempty. cbn [k_open]. apply ck_push_nonempty.
    - apply disk_put_sorted. exact Hda. }
  revert H.
  destruct (split_last (oa_closed a)) as [[init lastc]|] eqn:ES.
  - destruct (cl_truncated lastc) eqn:ET; intros H.
    + apply Hcreate. exact H.
    + inversion H; subst y. unfold sys_ok. cbn [y_core y_disk]. split; [|exact Hda].
      unfold open_nonempty. cbn [k_open].
      apply split_last_In in ES. rewrite Forall_forall in Hne. apply (Hne lastc ES).
  - intros H. apply Hcreate. exact H.
Qed.

(* ================================================================== one operation *)
Lemma run_op_ok : forall y o, sys_ok y ->
  snd (run_op y o) <> ResPanic /\ (forall y', fst (run_op y o) = Some y' -> sys_ok y').
Proof.
  intros y o Hy. pose proof Hy as [H1 H2].
  destruct o as [w|cb|from to| | | | | |cfg]; unfold run_op.
  - destruct (C16_write_no_panic (y_core y) w H1) as (k' & r & effs & E & H').
    rewrite E. cbn [fst snd]. split; [discriminate|].
    intros y' Ey. inversion Ey; subst y'. apply apply_effs_ok.
    unfold with_core, sys_ok. cbn [y_core y_disk]. split; assumption.
  - unfold do_flush. cbn [fst snd]. split; [discriminate|].
    intros y' Ey. inversion Ey; subst y'. apply apply_effs_ok.
    unfold with_core, sys_ok. cbn [y_core y_disk]. split; [|exact H2].
    unfold open_nonempty. cbn [k_open]. exact H1.
  - unfold do_read.
    destruct (read_items (m_cache (k_sm (y_core y))) (k_closed (y_core y)) (y_disk y)
                (lm_range from (N.max to from) (m_log (k_sm (y_core y))))
                (k_hit (y_core y)) (k_miss (y_core y))) as [[items h] ms].
    cbn [fst snd]. split; [discriminate|].
    intros y' Ey. inversion Ey; subst y'.
    unfold with_core, sys_ok. cbn [y_core y_disk]. split; [|exact H2].
    unfold open_nonempty. cbn [k_open]. exact H1.
  - cbn [fst snd]. split; [discriminate|]. intros y' Ey. inversion Ey; subst y'. exact Hy.
  - cbn [fst snd]. split; [discriminate|]. intros y' Ey. inversion Ey; subst y'. exact Hy.
  - cbn [fst snd]. split; [discriminate|]. intros y' Ey. inversion Ey; subst y'. exact Hy.
  - cbn [fst snd]. split; [discriminate|]. intros y' Ey. inversion Ey; subst y'.
    apply worker_idle_ok. exact Hy.
  - cbn [fst snd]. split; [discriminate|]. intros y' Ey. inversion Ey; subst y'.
    unfold with_core, sys_ok. cbn [y_core y_disk]. split; [|exact H2].
    unfold open_nonempty, core_with_cache, core_with_sm. cbn [k_open]. exact H1.
  - destruct (open_dir cfg (y_disk (worker_idle y))) as [y2|e d'] eqn:EO; cbn [fst snd].
    + split; [discriminate|]. intros y' Ey. inversion Ey; subst y'.
      eapply open_dir_ok; [|exact EO]. apply worker_idle_ok. exact Hy.
    + split; [discriminate|]. intros y' Ey. discriminate Ey.
Qed.

(* The statement asked for:

     Theorem C16_op_no_panic : forall y o, open_nonempty (y_core y) ->
       (match o with ORead _ _ | ODumpIter => False | _ => True end) ->
       snd (run_op y o) <> ResPanic /\
       (forall y', fst (run_op y o) = Some y' -> open_nonempty (y_core y')).

   is FALSE for [o = ORestart cfg] when the directory of [y] is not sorted (two
   files with the same id and no record: the first is inserted into [oa_closed], the
   second is removed, and the first is re-used as the open chunk); see
   [C16_op_no_panic_refuted].  Added hypothesis: [disk_sorted (y_disk y)], which
   is itself preserved (so the pair is an invariant), and which is not needed when
   [o] is not a restart ([C16_op_no_panic_norestart]). *)
Theorem C16_op_no_panic_partial : forall y o,
  open_nonempty (y_core y) -> disk_sorted (y_disk y) ->
  snd (run_op y o) <> ResPanic /\
  (forall y', fst (run_op y o) = Some y' ->
     open_nonempty (y_core y') /\ disk_sorted (y_disk y')).
Proof.
  intros y o H1 H2. apply (run_op_ok y o). split; assumption.
Qed.

Theorem C16_op_no_panic_norestart : forall y o, open_nonempty (y_core y) ->
  (match o with ORestart _ => False | _ => True end) ->
  snd (run_op y o) <> ResPanic /\
  (forall y', fst (run_op y o) = Some y' -> open_nonempty (y_core y')).
Proof.
  intros y o H1 Ho.
  destruct o as [w|cb|from to| | | | | |cfg]; unfold run_op.
  - destruct (C16_write_no_panic (y_core y) w H1) as (k' & r & effs & E & H').
    rewrite E. cbn [fst snd]. split; [discriminate|].
    intros y' Ey. inversion Ey; subst y'.
    unfold apply_effs. apply fold_left_inv.
    + intros a b Ha. destruct b; exact Ha.
    + exact H'.
  - unfold do_flush. cbn [fst snd]. split; [discriminate|].
    intros y' Ey. inversion Ey; subst y'.
    unfold apply_effs. apply fold_left_inv.
    + intros a b Ha. destruct b; exact Ha.
    + exact H1.
  - unfold do_read.
    destruct (read_items (m_cache (k_sm (y_core y))) (k_closed (y_core y)) (y_disk y)
                (lm_range from (N.max to from) (m_log (k_sm (y_core y))))
                (k_hit (y_core y)) (k_miss (y_core y))) as [[items h] ms].
    cbn [fst snd]. split; [discriminate|].
    intros y' Ey. inversion Ey; subst y'. exact H1.
  - cbn [fst snd]. split; [discriminate|]. intros y' Ey. inversion Ey; subst y'. exact H1.
  - cbn [fst snd]. split; [discriminate|]. intros y' Ey. inversion Ey; subst y'. exact H1.
  - cbn [fst snd]. split; [discriminate|]. intros y' Ey. inversion Ey; subst y'. exact H1.
  - cbn [fst snd]. split; [discriminate|]. intros y' Ey. inversion Ey; subst y'.
    unfold worker_idle. apply fold_left_inv.
    + intros a b Ha. destruct b as [upto data cb|off prev|ids]; unfold worker_step.
      * destruct (rev (y_files a)); exact Ha.
      * exact Ha.
      * exact Ha.
    + exact H1.
  - cbn [fst snd]. split; [discriminate|]. intros y' Ey. inversion Ey; subst y'. exact H1.
  - destruct Ho.
Qed.

Definition refute_cfg : config := mkConfig 10 1000 10 1000 false.
Definition refute_sys : sys :=
  mkSys (mkCore refute_cfg (sm_new refute_cfg) (mkChunk 0 [12]) [] [] [] 0 0 0)
        [mkFile 5 [] 0; mkFile 5 [] 0] [] [] [].

Theorem C16_op_no_panic_refuted : exists y o,
  open_nonempty (y_core y) /\
  (match o with ORead _ _ | ODumpIter => False | _ => True end) /\
  ~ (snd (run_op y o) <> ResPanic /\
     (forall y', fst (run_op y o) = Some y' -> open_nonempty (y_core y'))).
Proof.
  exists refute_sys, (ORestart refute_cfg). split; [|split].
  - unfold open_nonempty. cbn. discriminate.
  - exact I.
  - intros [_ H].
    remember (run_op refute_sys (ORestart refute_cfg)) as res eqn:E.
    vm_compute in E. subst res. cbn [fst] in H.
    specialize (H _ eq_refl). apply H. reflexivity.
Qed.

(* and the next write on that store panics *)
Example C16_unsorted_restart_then_panic :
  fst (run_ops refute_sys [ORestart refute_cfg; OW (OAppend [])]) = [ResOpened; ResPanic].
Proof. vm_compute. reflexivity. Qed.

(* ================================================================== reads *)
Lemma lm_range_inverted : forall from m, lm_range from from m = [].
Proof.
  intros from m. unfold lm_range. induction m as [|[i ld] r IH]; cbn [filter fst].
  - reflexivity.
  - destruct (N.leb from i) eqn:E1; destruct (N.ltb i from) eqn:E2; cbn [andb]; try exact IH.
    apply N.leb_le in E1. apply N.ltb_lt in E2. lia.
Qed.

(* an inverted (or empty) range is simply empty *)
Theorem C16_read_inverted_empty : forall k d from to, (to <= from)%N -> snd (do_read k d from to) = [].
Proof.
  intros k d from to H. unfold do_read. rewrite (N.max_r to from H).
  rewrite lm_range_inverted. cbn [read_items snd]. reflexivity.
Qed.

Theorem C16_read_no_top_panic : forall y from to, snd (run_op y (ORead from to)) <> ResPanic.
Proof.
  intros y from to. unfold run_op.
  destruct (do_read (y_core y) (y_disk y) from to) as [k items]. cbn [snd]. discriminate.
Qed.

Theorem C16_dump_no_top_panic : forall y, snd (run_op y ODumpIter) <> ResPanic.
Proof. intros y. unfold run_op. cbn [snd]. discriminate. Qed.

(* read items are produced for exactly the index-map entries in range, in order *)
Lemma read_items_length : forall ch cl d m hit miss,
  length (fst (fst (read_items ch cl d m hit miss))) = length m.
Proof.
  intros ch cl d m. induction m as [|[i ld] r IH]; intros hit miss; cbn [read_items].
  - reflexivity.
  - destruct (ent_get (ld_id ld) (ch_entries ch)) as [p|].
    + specialize (IH (hit + 1) miss).
      destruct (read_items ch cl d r (hit + 1) miss) as [[items h] ms].
      cbn [fst length] in *. rewrite IH. reflexivity.
    + specialize (IH hit (miss + 1)).
      destruct (read_items ch cl d r hit (miss + 1)) as [[items h] ms].
      cbn [fst length] in *. rewrite IH. reflexivity.
Qed.

Theorem C16_read_items_exact : forall k d from to,
  length (snd (do_read k d from to)) = length (lm_range from (N.max to from) (m_log (k_sm k))).
Proof.
  intros k d from to. unfold do_read.
  pose proof (read_items_length (m_cache (k_sm k)) (k_closed k) d
                (lm_range from (N.max to from) (m_log (k_sm k))) (k_hit k) (k_miss k)) as L.
  destruct (read_items (m_cache (k_sm k)) (k_closed k) d
              (lm_range from (N.max to from) (m_log (k_sm k))) (k_hit k) (k_miss k)) as [[items h] ms].
  cbn [fst snd] in *. exact L.
Qed.

Lemma lm_range_in : forall from to m e,
  In e (lm_range from to m) <-> In e m /\ (from <= fst e < to)%N.
Proof.
  intros from to m e. unfold lm_range. rewrite filter_In.
  rewrite andb_true_iff, N.leb_le, N.ltb_lt. reflexivity.
Qed.

(* ================================================================== histories *)
Lemma run_ops_ok : forall ops y res fin, sys_ok y -> run_ops y ops = (res, fin) ->
  ~ In ResPanic res /\ (forall y', fin = Some y' -> sys_ok y').
Proof.
  induction ops as [|o ops IH]; intros y res fin Hy H; cbn [run_ops] in H.
  - inversion H; subst. split; [intros []|]. intros y' E. inversion E; subst y'. exact Hy.
  - destruct (run_op_ok y o Hy) as [Hr Hn].
    destruct (run_op y o) as [[y1|] r]; cbn [fst snd] in *.
    + destruct (run_ops y1 ops) as [rs f] eqn:E2. inversion H; subst.
      destruct (IH y1 rs fin (Hn y1 eq_refl) E2) as [Hin Hfin].
      split; [|exact Hfin].
      intros [Hi|Hi]; [apply Hr; exact Hi|apply Hin; exact Hi].
    + inversion H; subst. split.
      * intros [Hi|[]]. apply Hr; exact Hi.
      * intros y' E. discriminate E.
Qed.

(* every state reachable from an empty directory by any operations with any
   arguments (restarts with any configuration, update_state, drains included) has a
   non-empty open chunk and a sorted directory *)
Theorem C16_reachable_ok : forall cfg ops res y,
  run_case cfg ops = (res, Some y) -> open_nonempty (y_core y) /\ disk_sorted (y_disk y).
Proof.
  intros cfg ops res y H. unfold run_case in H.
  destruct (open_dir cfg []) as [y0|e d'] eqn:EO.
  - pose proof (open_dir_ok cfg [] y0 disk_sorted_nil EO) as H0.
    destruct (run_ops_ok ops y0 res (Some y) H0 H) as [_ Hf]. apply Hf. reflexivity.
  - inversion H.
Qed.

Theorem C16_no_panic : forall cfg ops res fin,
  run_case cfg ops = (res, fin) -> ~ In ResPanic res.
Proof.
  intros cfg ops res fin H. unfold run_case in H.
  destruct (open_dir cfg []) as [y0|e d'] eqn:EO.
  - pose proof (open_dir_ok cfg [] y0 disk_sorted_nil EO) as H0.
    destruct (run_ops_ok ops y0 res fin H0 H) as [Hin _]. exact Hin.
  - inversion H; subst. intros [Hi|[]]. discriminate Hi.
Qed.

(* a fresh store always opens *)
Theorem C16_init_opens : forall cfg, exists y, open_dir cfg [] = OpenOk y.
Proof. intros cfg. eexists. reflexivity. Qed.

(* ================================================================== arithmetic limits *)
(* the guard refuses exactly Append / Purge at index u64::MAX *)
Theorem C16_index_limit_exact : forall r,
  index_limit r = true <->
  (exists id p, r = RAppend id p /\ lid_index id = U64MAX) \/
  (exists id, r = RPurge id /\ lid_index id = U64MAX).
Proof.
  intros r. split.
  - intros H. destruct r as [v|id p|id|o|id|st]; cbn [index_limit] in H; try discriminate H.
    + left. exists id, p. split; [reflexivity|]. apply N.eqb_eq. exact H.
    + right. exists id. split; [reflexivity|]. apply N.eqb_eq. exact H.
  - intros [(id & p & E & H)|(id & E & H)]; subst r; cbn [index_limit]; apply N.eqb_eq; exact H.
Qed.

Theorem C16_index_limit_refused : forall k r,
  index_limit r = true -> append_and_apply k r = Ret (k, WErr EIndexLimit, []).
Proof. intros k r H. unfold append_and_apply. rewrite H. reflexivity. Qed.

Lemma append_accepted_not_limit : forall k r k' off len effs,
  append_and_apply k r = Ret (k', WOk off len, effs) -> index_limit r = false.
Proof.
  intros k r k' off len effs H. unfold append_and_apply in H.
  destruct (index_limit r); [discriminate H|reflexivity].
Qed.

Definition rec_index_u64 (r : record) : Prop :=
  match r with RAppend id _ | RPurge id => (lid_index id <= U64MAX)%N | _ => True end.

(* The statement asked for:

     C16_next_index_in_range : forall k r k' off len effs,
       append_and_apply k r = Ret (k', WOk off len, effs) ->
       match r with RAppend id _ | RPurge id => (next_index (Some id) <= U64MAX)%N | _ => True end

   is FALSE in the model: indexes are unbounded N and the guard refuses only
   index = U64MAX, so index = U64MAX + 1 is accepted
   ([C16_next_index_in_range_refuted]).  Added hypothesis: the index of the argument
   is a u64 ([rec_index_u64 r]), which the Rust types guarantee. *)
Theorem C16_next_index_in_range_partial : forall k r k' off len effs,
  rec_index_u64 r ->
  append_and_apply k r = Ret (k', WOk off len, effs) ->
  match r with RAppend id _ | RPurge id => (next_index (Some id) <= U64MAX)%N | _ => True end.
Proof.
  intros k r k' off len effs Hu H. apply append_accepted_not_limit in H.
  destruct r as [v|id p|id|o|id|st]; try exact I;
    cbn [index_limit] in H; apply N.eqb_neq in H; unfold rec_index_u64 in Hu;
    unfold next_index; lia.
Qed.

(* stronger form: after an accepted Append / Purge the index is strictly below the limit *)
Theorem C16_accepted_index_below_limit : forall k r k' off len effs,
  rec_index_u64 r ->
  append_and_apply k r = Ret (k', WOk off len, effs) ->
  match r with RAppend id _ | RPurge id => (lid_index id < U64MAX)%N | _ => True end.
Proof.
  intros k r k' off len effs Hu H. apply append_accepted_not_limit in H.
  destruct r as [v|id p|id|o|id|st]; try exact I;
    cbn [index_limit] in H; apply N.eqb_neq in H; unfold rec_index_u64 in Hu; lia.
Qed.

Theorem C16_next_index_in_range_refuted :
  ~ (forall k r k' off len effs,
       append_and_apply k r = Ret (k', WOk off len, effs) ->
       match r with RAppend id _ | RPurge id => (next_index (Some id) <= U64MAX)%N | _ => True end).
Proof.
  intros H.
  pose proof (H (y_core refute_sys) (RPurge (0, U64MAX + 1))) as H'.
  remember (append_and_apply (y_core refute_sys) (RPurge (0, U64MAX + 1))) as res eqn:E.
  vm_compute in E. subst res.
  specialize (H' _ _ _ _ eq_refl). vm_compute in H'. apply H'. reflexivity.
Qed.

Print Assumptions C16_write_no_panic.
Print Assumptions C16_op_no_panic_partial.
Print Assumptions C16_op_no_panic_norestart.
Print Assumptions C16_op_no_panic_refuted.
Print Assumptions C16_read_inverted_empty.
Print Assumptions C16_read_no_top_panic.
Print Assumptions C16_read_items_exact.
Print Assumptions C16_reachable_ok.
Print Assumptions C16_no_panic.
Print Assumptions C16_index_limit_exact.
Print Assumptions C16_next_index_in_range_partial.
Print Assumptions C16_next_index_in_range_refuted.
