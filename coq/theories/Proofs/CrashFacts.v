(* C03 and C05: crash safety and crash recoverability of the L2 system.
   The invariants are in CrashBase/CrashJournal/CrashSteps (journal of the L2 system),
   CrashRecover (shape and recovery of crash images, C05), CrashSpec/CrashPrefix
   (journal against the reference log).  This file proves C03:
   after a crash at any moment, outside the known failure class and as long as no
   chunk file has been deleted, the reopened store shows exactly the reference-log
   state after some number k of journalled records, with
   acked z <= k <= issued z. *)
From Coq Require Import List NArith Bool Lia Arith Sorting.Sorted.
From Coq Require Import ZifyBool ZifyN ZifyNat.
From Coq.Strings Require Import Byte.
From RaftLog Require Import Base.Bytes Model.Types Model.Codec Model.Cache Model.Core
  Model.Recover Model.Run Model.Sys Spec.Spec Spec.Hist Spec.Durable.
From RaftLog Require Import Proofs.CodecFacts Proofs.NoPanic Proofs.ScanFacts Proofs.RecoverFacts
  Proofs.Refine.
From RaftLog Require Proofs.JournalChunk Proofs.JournalFacts Proofs.PurgeFacts.
From RaftLog Require Import Proofs.CrashBase Proofs.CrashJournal Proofs.CrashSteps Proofs.CrashRecover
  Proofs.CrashSpec Proofs.CrashPrefix.
Import ListNotations.
Local Open Scope N_scope.
Local Arguments N.add : simpl never.
Local Arguments N.sub : simpl never.
Local Arguments N.mul : simpl never.
Local Arguments N.eqb : simpl never.
Local Arguments N.ltb : simpl never.
Local Arguments N.leb : simpl never.
Local Arguments N.compare : simpl never.
Local Arguments N.of_nat : simpl never.
Local Arguments enc_record : simpl never.

(* ------------------------------------------------------------------ counting *)
(* number of records journalled so far *)
Definition issued (z : sys2) : nat := length (htrace spec0 (PL.hist z)).

(* number of records journalled before a flush whose callback has reported success *)
Definition ack_of (z : sys2) (e : option N * N * nat) : nat :=
  match e with
  | (Some c, _, n) =>
    if existsb (fun a => N.eqb (fst a) c && snd a) (z_acks z)
    then length (htrace spec0 (firstn n (PL.hist z))) else 0%nat
  | _ => 0%nat
  end.
Definition acked (z : sys2) : nat := list_max (map (ack_of z) (g_flushed (z_ghost z))).

(* ------------------------------------------------------------------ small facts *)
Lemma durable_last l f U : durable_upto (l ++ [f]) U -> f_id f < U -> U <= f_id f + f_synced f.
Proof.
  induction l as [|g l IH]; simpl; intros H Hlt.
  - destruct H as [H _]. apply H. exact Hlt.
  - apply IH; [apply H|exact Hlt].
Qed.

Lemma image_keeps f f' : file_image f f' -> forall m,
  (m <= N.to_nat (f_synced f))%nat -> (m <= length (f_data f))%nat ->
  firstn m (f_data f') = firstn m (f_data f).
Proof.
  intros (_ & n & k & Hs & Hl & E & _) m Hm Hm2.
  rewrite E, firstn_app, firstn_firstn, firstn_length.
  replace (Nat.min m n) with m by lia.
  replace (m - Nat.min n (length (f_data f)))%nat with 0%nat by lia. simpl. now rewrite app_nil_r.
Qed.

Lemma filter_index_bound {A} (p : A -> bool) : forall (l : list A) (j : nat),
  (forall i x, nth_error l i = Some x -> p x = true -> (i < j)%nat) ->
  (length (filter p l) <= j)%nat.
Proof.
  induction l as [|a l IH]; intros j H; simpl; [lia|].
  destruct (p a) eqn:E.
  - pose proof (H 0%nat a eq_refl E). simpl.
    assert (length (filter p l) <= j - 1)%nat; [|lia].
    apply IH. intros i x Hi Hx. pose proof (H (S i) x Hi Hx). lia.
  - apply IH. intros i x Hi Hx. pose proof (H (S i) x Hi Hx). lia.
Qed.

Lemma ends_from_nth rs : forall o i e,
  nth_error (ends_from o (map rec_size rs)) i = Some e ->
  (i < length rs)%nat /\ e = o + N.of_nat (length (encs (firstn (S i) rs))).
Proof.
  induction rs as [|r rs IH]; intros o i e H; simpl in H; [destruct i; discriminate|].
  destruct i as [|i]; simpl in H.
  - inversion H; subst. split; [simpl; lia|]. cbn [firstn]. rewrite encs_cons, encs_nil, app_nil_r.
    reflexivity.
  - destruct (IH _ _ _ H) as [H1 H2]. split; [simpl; lia|].
    rewrite H2. cbn [firstn]. rewrite (encs_cons r), app_length. unfold rec_size. lia.
Qed.

Lemma ends_from_gt rs : forall o e, In e (ends_from o (map rec_size rs)) -> o < e.
Proof.
  induction rs as [|r rs IH]; intros o e H; simpl in H; [destruct H|].
  pose proof (JournalChunk.rec_size_pos r).
  destruct H as [<-|H]; [lia|]. apply IH in H. lia.
Qed.

Lemma tl_firstn_prefix {A} (l : list A) j : exists rest, tl l = tl (firstn j l) ++ rest.
Proof.
  destruct l as [|a l]; [exists []; destruct j; reflexivity|].
  destruct j as [|j]; simpl; [exists l; reflexivity|].
  exists (skipn j l). symmetry. apply firstn_skipn.
Qed.

(* the records that are intact in the image are among the complete records *)
Lemma intact_records recs j tl i data' :
  Forall wf_record recs -> tail_shape tl ->
  data' = encs (firstn j recs) ++ tl -> (S i <= length recs)%nat ->
  firstn (length (encs (firstn (S i) recs))) data' = encs (firstn (S i) recs) ->
  (S i <= j)%nat.
Proof.
  intros Hw Ht Ed Hi Hk.
  assert (Hwj : Forall wf_record (firstn j recs)) by now apply Forall_firstn_.
  assert (Hwi : Forall wf_record (firstn (S i) recs)) by now apply Forall_firstn_.
  destruct (scan_tail_shape _ _ Hwj Ht) as [e Es]. rewrite <- Ed in Es.
  rewrite <- (firstn_skipn (length (encs (firstn (S i) recs))) data'), Hk in Es.
  rewrite (scan_file_encs_app _ _ Hwi) in Es.
  destruct (scan_file (skipn (length (encs (firstn (S i) recs))) data')) as [[rs' tl'] e'].
  assert (E1 := f_equal (fun x => length (fst (fst x))) Es). cbn [fst] in E1.
  rewrite app_length, !sized_length, !firstn_length in E1. lia.
Qed.

Lemma R0_init cfg : PL.R0 (sm_new cfg) spec0.
Proof. constructor; simpl; try reflexivity; [constructor|intros e []]. Qed.

Lemma nth_error_tl {A} (l : list A) i : nth_error (tl l) i = nth_error l (S i).
Proof. destruct l; [destruct i; reflexivity|reflexivity]. Qed.

Lemma length_tl {A} (l : list A) : length (tl l) = (length l - 1)%nat.
Proof. destruct l; simpl; lia. Qed.

Lemma fends_bound o recs j U :
  (forall i e, nth_error (ends_from o (map rec_size recs)) i = Some e -> e <= U -> (S i <= j)%nat) ->
  (length (filter (fun e => N.leb e U) (fends (o, recs))) <= length (tl (firstn j recs)))%nat.
Proof.
  intros H. unfold fends. cbn [fst snd]. rewrite length_tl, firstn_length.
  apply filter_index_bound. intros i x Hn Hx. rewrite nth_error_tl in Hn.
  apply N.leb_le in Hx. pose proof (H _ _ Hn Hx). destruct (ends_from_nth _ _ _ _ Hn) as [Hl _]. lia.
Qed.

Lemma filter_len_le {A} (p : A -> bool) l : (length (filter p l) <= length l)%nat.
Proof. induction l as [|a l IH]; simpl; [lia|]. destruct (p a); simpl; lia. Qed.

Lemma filter_none_len (l : list N) U : (forall e, In e l -> U < e) ->
  length (filter (fun e => N.leb e U) l) = 0%nat.
Proof.
  induction l as [|a l IH]; intros H; simpl; [reflexivity|].
  destruct (N.leb_spec a U) as [Hle|_].
  - pose proof (H a (or_introl eq_refl)). lia.
  - apply IH. intros e He. apply H. now right.
Qed.

Lemma in_fends_gt g e : In e (fends g) -> fst g < e.
Proof.
  unfold fends. intros H. apply ends_from_gt with (rs := snd g).
  destruct (ends_from (fst g) (map rec_size (snd g))); [destruct H|now right].
Qed.

Lemma Forall2_snoc_inv_r {A B} (R : A -> B -> Prop) la lb b :
  Forall2 R la (lb ++ [b]) -> exists la' a, la = la' ++ [a] /\ Forall2 R la' lb /\ R a b.
Proof.
  intros H. apply Forall2_app_inv_r in H. destruct H as (l1 & l2 & H1 & H2 & ->).
  inversion H2 as [|a ? l2' ? Hab H3]; subst. inversion H3; subst. exists l1, a. auto.
Qed.

Lemma firstn_app_exact {A} (a b : list A) : firstn (length a) (a ++ b) = a.
Proof. rewrite firstn_app, Nat.sub_diag, firstn_all. simpl. apply app_nil_r. Qed.

(* ------------------------------------------------------------------ the lower bound *)
Section Bound.
Variables (cfg : config) (z : sys2) (d' : disk) (G Go C : list jfile) (o : N) (recs : list record).
Variables (j : nat) (tl : bytes) (older' : list file) (nf' : file).
Hypothesis Hr : zreach cfg z.
Hypothesis J : JI z G.
Hypothesis HSP : SP z G.
Hypothesis Hc : crash_image z d'.
Hypothesis EG : G = Go ++ [(o, recs)] ++ C.
Hypothesis HC : map fst C = creates (z_todo z).
Hypothesis Hpre : Forall2 (fun f g => f_id f = fst g /\ bprefix (f_data f) (encs (snd g)))
                          (z_disk z) (Go ++ [(o, recs)]).
Hypothesis Ed : d' = older' ++ [nf'].
Hypothesis Edat : f_data nf' = encs (firstn j recs) ++ tl.
Hypothesis Htl : tail_shape tl.

Lemma ack_bound e : In e (g_flushed (z_ghost z)) ->
  (ack_of z e <= length (jrecs (Go ++ [(o, firstn j recs)])))%nat.
Proof.
  intros Hin. destruct e as [[[c|] U] n]; simpl; [|lia].
  destruct (existsb (fun a => N.eqb (fst a) c && snd a) (z_acks z)) eqn:Ea; [|lia].
  apply existsb_exists in Ea. destruct Ea as ([c' b'] & Hain & Hab). simpl in Hab.
  apply andb_true_iff in Hab. destruct Hab as [Hc' Hb']. apply N.eqb_eq in Hc'. subst c' b'.
  pose proof (AD.C04_ack_after_sync cfg z Hr c U n Hin Hain) as Hdur.
  destruct (sp_fl _ _ HSP _ _ _ Hin) as [_ Hnb].
  eapply Nat.le_trans; [exact Hnb|]. clear Hnb.
  pose proof (AD.f_b _ (full_reach cfg z Hr)) as B.
  pose proof (AF.C04_synced_le_written cfg z Hr) as Hsyn.
  destruct (Forall2_snoc_inv_r _ _ _ _ Hpre) as (dpre & f & Edisk & _ & (Efid & Hbp)).
  simpl in Efid, Hbp.
  assert (Himg : file_image f nf').
  { unfold crash_image in Hc. rewrite Edisk, Ed in Hc. apply Forall2_last_inv in Hc. apply Hc. }
  pose proof (gi_ok _ _ _ _ (ji_gi _ _ J)) as Hok. rewrite EG, !Forall_app in Hok.
  destruct Hok as (_ & Hokl & _). pose proof (Forall_inv Hokl) as [Hwf _]. simpl in Hwf.
  unfold nb. rewrite EG, !rec_ends_app, !filter_app, !app_length, jrecs_last.
  rewrite app_length.
  assert (H1 : (length (filter (fun e => N.leb e U) (rec_ends Go)) <= length (jrecs Go))%nat).
  { rewrite <- rec_ends_length. apply filter_len_le. }
  assert (H3 : length (filter (fun e => N.leb e U) (rec_ends C)) = 0%nat).
  { apply filter_none_len. intros e He. unfold rec_ends in He. apply in_flat_map in He.
    destruct He as (g & Hg & He). apply in_fends_gt in He.
    assert (HU : U <= fst g).
    { apply (AD.b_usc _ B U (fst g)).
      - unfold AD.flushed_us. apply in_map_iff. exists (Some c, U, n). split; [reflexivity|exact Hin].
      - change AD.creates with creates. rewrite <- HC. now apply in_map. }
    lia. }
  assert (H2 : (length (filter (fun e => N.leb e U) (rec_ends [(o, recs)])) <=
                length (List.tl (firstn j recs)))%nat).
  { unfold rec_ends. cbn [flat_map]. rewrite app_nil_r. apply fends_bound.
    intros i e Hn He. destruct (ends_from_nth _ _ _ _ Hn) as [Hil Ee].
    assert (Hou : f_id f < U).
    { rewrite Efid. pose proof (CorruptFacts.encs_length_pos (firstn (S i) recs)) as Hp.
      destruct recs; [simpl in Hil; lia|]. specialize (Hp ltac:(discriminate)). lia. }
    rewrite Edisk in Hdur. pose proof (durable_last _ _ _ Hdur Hou) as Hds.
    rewrite Forall_forall in Hsyn. assert (Hfin : In f (z_disk z)) by (rewrite Edisk; apply in_or_app; right; now left).
    specialize (Hsyn f Hfin). simpl in Hsyn.
    set (m := length (encs (firstn (S i) recs))) in *.
    assert (Hm1 : (m <= N.to_nat (f_synced f))%nat) by lia.
    assert (Hm2 : (m <= length (f_data f))%nat) by lia.
    pose proof (image_keeps f nf' Himg m Hm1 Hm2) as Hk.
    apply (intact_records recs j tl i (f_data nf') Hwf Htl Edat); [lia|].
    fold m. rewrite Hk. rewrite (bprefix_firstn _ _ Hbp), firstn_firstn.
    replace (Nat.min m (length (f_data f))) with m by lia.
    rewrite (encs_firstn_skipn (S i) recs). apply firstn_app_exact. }
  lia.
Qed.

End Bound.

(* ------------------------------------------------------------------ C03 *)
(* The full statement (NOT proved here, not known to be false):

   Theorem C03_prefix : forall cfg cfg' z d',
     zreach cfg z -> hist_wf z -> PL.hist_legal z -> crash_image z d' ->
     ~ gap_class d' -> c_truncate cfg' = true ->
     exists y' k sp, open_dir cfg' d' = OpenOk y' /\
       (acked z <= k)%nat /\ (k <= issued z)%nat /\
       nth_error (ref_states (PL.hist z)) k = Some sp /\
       m_rs (k_sm (y_core y')) = spec_state sp /\
       map f_log (m_log (k_sm (y_core y'))) = map g_ent (sp_entries sp).

   What is proved below adds the hypothesis [hd_error (map f_id d') = Some 0]: the
   first chunk file is still present, i.e. no chunk file has been deleted yet (purge
   calls and purge records are allowed, only the physical removal of chunk 0 is not).
   The remaining case needs: replaying a suffix of the journal yields the index map of
   the full replay restricted to the present chunks (a cache-free version of [Sim] of
   RestartSim.v), and that no entry of the k-th reference state lives in a removed
   chunk (C08: a chunk is removed only after the purge record is durable). *)
(* C03 (partial: as long as no chunk file has been deleted, i.e. the first chunk file
   is still present; and outside the known class gap_class of C05).

   After a crash at ANY reachable state of the two threads and for ANY crash image d'
   (every file keeps at least its synced prefix, at most what was written, possibly
   zero-filled from a record boundary): reopening (with truncation of incomplete
   records enabled) succeeds and the recovered store shows exactly the k-th state of
   the reference log, where the reference states are listed one per journalled record
   (ref_states), k is at least the number of records journalled before any flush whose
   callback reported success (acked z) and at most the number journalled so far
   (issued z): the Raft state equals that reference state and the index map lists
   exactly its entries (index, log id).  No partially written record is visible. *)
Theorem C03_prefix_no_purge_partial : forall cfg cfg' z d',
  zreach cfg z -> hist_wf z -> PL.hist_legal z -> crash_image z d' ->
  ~ gap_class d' -> hd_error (map f_id d') = Some 0 -> c_truncate cfg' = true ->
  exists y' k sp, open_dir cfg' d' = OpenOk y' /\
    (acked z <= k)%nat /\ (k <= issued z)%nat /\
    nth_error (ref_states (PL.hist z)) k = Some sp /\
    m_rs (k_sm (y_core y')) = spec_state sp /\
    map f_log (m_log (k_sm (y_core y'))) = map g_ent (sp_entries sp).
Proof.
  intros cfg cfg' z d' Hr Hw Hl Hc Hng Hhd Ht.
  destruct (L2_spec cfg z Hr Hw Hl) as (G & J & HSP).
  assert (Hne : d' <> []) by (intros ->; discriminate).
  destruct (crash_open cfg cfg' z d' G Hr J Hc Hng Ht Hne) as
    (Gd & Go & o & recs & j & older' & nf' & tl & y' & s1 & IF & EGd & Ed & Hfm & Eid & Edat & Htl &
     Hopen & Hrep & Hrs & Hlog).
  destruct IF as [_ (A & C & EG & HC) Hids Hpre Himg]. subst Gd.
  (* the first chunk file is present: nothing precedes the present files in the journal *)
  assert (EA : A = []).
  { pose proof (gi_sorted _ _ _ _ (ji_gi _ _ J)) as Hs. rewrite EG, !map_app in Hs.
    rewrite <- (map_app fst Go) in Hs. rewrite Hids, <- (crash_image_ids _ _ Hc) in Hs.
    destruct (map f_id d') as [|x l]; [discriminate|]. inversion Hhd; subst x.
    destruct A as [|a A']; [reflexivity|]. exfalso.
    apply JournalDisk.ss_app_inv in Hs. destruct Hs as (_ & _ & Hlt).
    specialize (Hlt (fst a) 0 (or_introl eq_refl) (or_introl eq_refl)). lia. }
  subst A. cbn [app] in EG. rewrite <- app_assoc in EG.
  pose proof (sc_files _ _ _ (sp_sc _ _ HSP)) as Hfo. rewrite EG, app_assoc in Hfo.
  apply files_ok_app in Hfo. destruct Hfo as [Hfo _].
  set (Gk := Go ++ [(o, firstn j recs)]) in *.
  assert (HR0 : PL.R0 s1 (run_recs spec0 (jrecs Gk))).
  { destruct j as [|j'].
    - unfold Gk in *. cbn [firstn] in *.
      apply RS.replay_files_snoc_inv in Hrep. destruct Hrep as (t1 & Hr1 & Hr2).
      apply files_ok_app in Hfo. destruct Hfo as [Hfo0 _].
      destruct (replay_files_spec Go (sm_new cfg') spec0 (R0_init cfg') Hfo0) as (t1' & Hr1' & HR1).
      rewrite Hr1 in Hr1'. inversion Hr1'; subst t1'.
      assert (Es1 : s1 = RS.chunk_pre t1) by (unfold RS.chunk_replay in Hr2; simpl in Hr2; congruence).
      rewrite jrecs_last. cbn [List.tl]. rewrite app_nil_r. subst s1.
      eapply R0_eq; [| |exact HR1]; reflexivity.
    - pose proof (files_ok_cut spec0 Go o recs (S j') Hfo ltac:(lia)) as Hcut.
      destruct (replay_files_spec _ (sm_new cfg') spec0 (R0_init cfg') Hcut) as (t1 & Hr1 & HR1).
      unfold Gk in *. rewrite Hrep in Hr1. inversion Hr1; subst t1. exact HR1. }
  destruct (tl_firstn_prefix recs j) as [rest0 Erest].
  assert (Ejr : jrecs G = jrecs Gk ++ (rest0 ++ jrecs C)).
  { rewrite EG, app_assoc, jrecs_app. unfold Gk. rewrite !jrecs_last, Erest, <- !app_assoc. reflexivity. }
  exists y', (length (jrecs Gk)), (run_recs spec0 (jrecs Gk)).
  split; [exact Hopen|]. split; [|split; [|split; [|split]]].
  - unfold acked. apply list_max_le. rewrite Forall_forall. intros x Hx.
    apply in_map_iff in Hx. destruct Hx as (e & <- & He).
    eapply (ack_bound cfg z d' G Go C o recs j tl older' nf'); eauto.
  - unfold issued. rewrite <- (sp_tr _ _ HSP), rtrace_length, Ejr, app_length. lia.
  - unfold ref_states. rewrite <- (sp_tr _ _ HSP), Ejr. apply rtrace_nth.
  - rewrite Hrs. apply (PL.R0_rs _ _ HR0).
  - rewrite Hlog. apply (PL.R0_log _ _ HR0).
Qed.

Print Assumptions C03_prefix_no_purge_partial.

(* ------------------------------------------------------------------ the theorem is not vacuous *)
(* cutting the newest file at byte n (n at least its synced length) is a crash image *)
Definition cut_last (d : disk) (n : nat) : disk :=
  match rev d with
  | [] => []
  | f :: r => rev r ++ [mkFile (f_id f) (firstn n (f_data f)) (f_synced f)]
  end.

Lemma cut_last_image cfg z n pre f : zreach cfg z -> z_disk z = pre ++ [f] ->
  f_synced f <= N.of_nat n -> (n <= length (f_data f))%nat ->
  crash_image z (cut_last (z_disk z) n).
Proof.
  intros Hr Ed Hs Hn. pose proof (AF.C04_synced_le_written cfg z Hr) as Hsyn.
  unfold crash_image, cut_last. rewrite Ed in *. rewrite rev_unit, rev_involutive.
  apply Forall_app in Hsyn. destruct Hsyn as [Hsyn _].
  apply Forall2_app.
  - clear - Hsyn. induction Hsyn as [|g l Hg _ IH]; constructor; [|exact IH].
    split; [reflexivity|]. exists (length (f_data g)), 0%nat. simpl.
    split; [exact Hg|]. split; [lia|]. split; [now rewrite firstn_all, app_nil_r|now left].
  - constructor; [|constructor]. split; [reflexivity|]. exists n, 0%nat. simpl.
    split; [exact Hs|]. split; [lia|]. split; [now rewrite app_nil_r|now left].
Qed.

Definition ex_cfg : config := mkConfig 10 1000 3 1000 true.
Definition ex_events : list zev :=
  let W := ZWork true in
  [ZCall (OW (OVote (1, 2))); ZCall (OFlush true); ZEff; ZRecv 0 false; W; W; W; W; W; W; W; W; W; W;
   ZCall (OW (OCommit (0, 0))); ZEff; ZEff; ZEff; ZEff; ZRecv 0 true; W; W; W; W; W; W; W; W; W; W;
   ZCall (OW (OVote (2, 2))); ZCall (OFlush false); ZEff; ZRecv 0 false; W].

Definition ex_z : sys2 :=
  match zrun (AF.zstart ex_cfg) ex_events with Some (z, _) => z | None => AF.zstart ex_cfg end.
Definition ex_d : disk := cut_last (z_disk ex_z) 75.

Lemma ex_reach : zreach ex_cfg ex_z.
Proof.
  unfold ex_z. destruct (zrun (AF.zstart ex_cfg) ex_events) as [[z vis]|] eqn:E.
  - exists (AF.zstart ex_cfg), ex_events, vis. split; [apply AF.zinit_eq|exact E].
  - exfalso. vm_compute in E. discriminate.
Qed.

Lemma ex_hist : PL.hist ex_z = [OVote (1, 2); OCommit (0, 0); OVote (2, 2)].
Proof. vm_compute. reflexivity. Qed.

(* a reachable state with an acknowledged flush (one record before it), a rotation
   (two chunk files) and three journalled records, and a crash image that cuts the
   last record (the newest file loses its last 3 bytes): all hypotheses of
   C03_prefix_no_purge_partial (hence of C05_recovers_outside_known) hold *)
Example C03_nonvacuous :
  zreach ex_cfg ex_z /\ hist_wf ex_z /\ PL.hist_legal ex_z /\ crash_image ex_z ex_d /\
  ~ gap_class ex_d /\ hd_error (map f_id ex_d) = Some 0 /\ c_truncate ex_cfg = true /\
  acked ex_z = 1%nat /\ issued ex_z = 3%nat /\
  map (fun f => length (f_data f)) (z_disk ex_z) = [74; 78]%nat /\
  map (fun f => length (f_data f)) ex_d = [74; 75]%nat.
Proof.
  split; [apply ex_reach|].
  split. { unfold hist_wf. change (map fst (g_writes (z_ghost ex_z))) with (PL.hist ex_z).
           rewrite ex_hist. repeat constructor; vm_compute; reflexivity. }
  split. { unfold PL.hist_legal. rewrite ex_hist. vm_compute. reflexivity. }
  split.
  { apply (cut_last_image ex_cfg ex_z 75 (removelast (z_disk ex_z)) (last (z_disk ex_z) (mkFile 0 [] 0))).
    - apply ex_reach.
    - vm_compute. reflexivity.
    - vm_compute. discriminate.
    - vm_compute. lia. }
  split.
  { intros (pre & f & g & post & Eq & Hne).
    assert (Hl : length ex_d = 2%nat) by (vm_compute; reflexivity).
    rewrite Eq, app_length in Hl. simpl in Hl.
    destruct pre; [|simpl in Hl; lia]. destruct post; [|simpl in Hl; lia]. simpl in Eq.
    assert (Hf : f = nth 0 ex_d (mkFile 0 [] 0)) by (rewrite Eq; reflexivity).
    assert (Hg : g = nth 1 ex_d (mkFile 0 [] 0)) by (rewrite Eq; reflexivity).
    apply Hne. rewrite Hf, Hg. vm_compute. reflexivity. }
  split; [vm_compute; reflexivity|]. split; [reflexivity|].
  split; [vm_compute; reflexivity|]. split; [vm_compute; reflexivity|].
  split; vm_compute; reflexivity.
Qed.

(* the conclusion of C03 for this image: the reopened store shows the reference state
   after k records with 1 <= k <= 3 *)
Example C03_example : exists y' k sp, open_dir ex_cfg ex_d = OpenOk y' /\
  (1 <= k)%nat /\ (k <= 3)%nat /\ nth_error (ref_states (PL.hist ex_z)) k = Some sp /\
  m_rs (k_sm (y_core y')) = spec_state sp.
Proof.
  destruct C03_nonvacuous as (H1 & H2 & H3 & H4 & H5 & H6 & H7 & H8 & H9 & _).
  destruct (C03_prefix_no_purge_partial ex_cfg ex_cfg ex_z ex_d H1 H2 H3 H4 H5 H6 H7)
    as (y' & k & sp & Ho & Ha & Hi & Hn & Hrs & _).
  exists y', k, sp. rewrite H8 in Ha. rewrite H9 in Hi. auto.
Qed.

Print Assumptions C03_nonvacuous.
