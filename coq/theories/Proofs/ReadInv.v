(* Property C07, part 2: the invariant of a run of the L1 system (sequential worker)
   under which every live entry is readable for any cache limits.

   [I7 y sp]: the cache-free refinement and chunk bookkeeping of PurgeLive.v ([KInv]),
   the journal invariant of JournalFacts.v ([journal_wf]), plus
   - [PL]: the logical file of the chunk of every live entry holds the encoding of
     that entry WITH THE PAYLOAD OF THE REFERENCE LOG at the segment recorded in the
     index map;
   - [CIs ... (OnDisk y)]: every live entry is resident in the cache or its record is
     completely on the real disk in a chunk other than the open one, and the latter
     holds for every live entry at or below the eviction boundary;
   - [EB]: every live entry at or below a boundary that is still pending installation
     (recorded with a file in the worker's file list or in a queued AppendFile) lives in
     a chunk older than that file. *)
From Coq Require Import List NArith Bool Lia Arith Sorted.
From Coq.Strings Require Import Byte.
From RaftLog Require Import Base.Bytes Base.Crc32 Model.Types Model.Codec Model.Cache Model.Core
  Model.Recover Model.Run Spec.Spec Spec.Hist.
From RaftLog Require Proofs.CacheFacts.
From RaftLog Require Import Proofs.CodecFacts Proofs.JournalDisk Proofs.JournalChunk Proofs.JournalFacts
  Proofs.PurgeFacts.
From RaftLog Require Import Proofs.OrderFacts Proofs.SmFacts Proofs.Refine Proofs.PurgeLive Proofs.ReadCache.
Import ListNotations.
Local Open Scope N_scope.
Local Arguments N.add : simpl never.
Local Arguments N.sub : simpl never.
Local Arguments N.mul : simpl never.
Local Arguments N.eqb : simpl never.
Local Arguments N.ltb : simpl never.
Local Arguments N.leb : simpl never.
Local Arguments N.compare : simpl never.
Local Arguments N.of_nat : simpl never.
Local Arguments enc_record : simpl never.

(* ------------------------------------------------------------------ definitions *)
Definition OnDisk (y : sys) (ld : logdata) : Prop :=
  ld_chunk ld <> ck_id (k_open (y_core y)) /\
  exists f, disk_get (ld_chunk ld) (y_disk y) = Some f /\
            ld_off ld - ld_chunk ld + ld_len ld <= blen (f_data f).

Definition PL (y : sys) (sp : spec) : Prop :=
  forall i ld p, In (i, ld) (m_log (k_sm (y_core y))) -> In (ld_id ld, p) (sp_entries sp) ->
    In (ld_chunk ld) (ids (logical y)) ->
    wf_record (RAppend (ld_id ld) p) /\
    exists pre post,
      file_bytes (logical y) (ld_chunk ld) = pre ++ enc_record (RAppend (ld_id ld) p) ++ post /\
      ld_off ld = ld_chunk ld + blen pre /\ ld_len ld = rec_size (RAppend (ld_id ld) p).

(* the eviction boundaries: the one in force, and those recorded at a rotation whose
   file the worker has not dropped yet *)
Definition req_fb (r : wreq) : list (N * option logid) :=
  match r with WAppendFile off p => [(off, p)] | _ => [] end.
Definition wf_fb (f : wfile) : N * option logid := (wf_id f, wf_prev_last f).
(* the boundaries pending installation, each with the chunk file it was recorded for *)
Definition fbounds (y : sys) : list (N * option logid) :=
  map wf_fb (y_files y) ++ flat_map req_fb (y_queue y).
Definition bounds (y : sys) : list (option logid) :=
  ch_evictable (m_cache (k_sm (y_core y))) :: map snd (fbounds y).

Definition EB (y : sys) (sp : spec) : Prop :=
  forall fid b i ld p, In (fid, b) (fbounds y) -> In (i, ld) (m_log (k_sm (y_core y))) ->
    In (ld_id ld, p) (sp_entries sp) -> opair_leb (Some (ld_id ld)) b = true ->
    ld_chunk ld < fid.

Record I7 (y : sys) (sp : spec) : Prop := mkI7 {
  i_k : KInv (y_core y) sp;
  i_jw : journal_wf y;
  i_pl : PL y sp;
  i_ci : CIs (k_sm (y_core y)) sp (OnDisk y);
  i_eb : EB y sp;
  i_ml : StronglySorted N.lt (map fst (fbounds y)) }.

(* ------------------------------------------------------------------ small facts *)
Lemma with_core_self : forall y, with_core y (y_core y) = y.
Proof. intros y. destruct y. reflexivity. Qed.

Lemma log_chunk_le : forall y i ld, journal_wf y -> In (i, ld) (m_log (k_sm (y_core y))) ->
  ld_chunk ld <= ck_id (k_open (y_core y)).
Proof.
  intros y i ld JW Hl. pose proof (ji_log _ _ _ (jw_inv _ JW)) as HL. rewrite Forall_forall in HL.
  destruct (HL _ Hl) as (_ & H & _). exact H.
Qed.

Lemma open_lt_end : forall k, core_ok k -> ck_id (k_open k) < ck_end (k_open k).
Proof. intros k [H _]. exact H. Qed.

Lemma fbounds_same : forall y y',
  y_files y' = y_files y -> flat_map req_fb (y_queue y') = flat_map req_fb (y_queue y) ->
  fbounds y' = fbounds y.
Proof. intros y y' H2 H3. unfold fbounds. rewrite H2, H3. reflexivity. Qed.

Lemma bounds_same : forall y y',
  ch_evictable (m_cache (k_sm (y_core y'))) = ch_evictable (m_cache (k_sm (y_core y))) ->
  y_files y' = y_files y -> flat_map req_fb (y_queue y') = flat_map req_fb (y_queue y) ->
  bounds y' = bounds y.
Proof. intros y y' H1 H2 H3. unfold bounds. rewrite H1, (fbounds_same y y' H2 H3). reflexivity. Qed.

Lemma fbounds_mentioned : forall y fid b, In (fid, b) (fbounds y) ->
  In fid (mentioned (y_files y) (y_queue y)).
Proof.
  intros y fid b H. unfold fbounds, mentioned in *. apply in_app_or in H. apply in_or_app.
  destruct H as [H|H].
  - left. apply in_map_iff in H. destruct H as [f [E Hf]]. inversion E. apply in_map. exact Hf.
  - right. apply in_flat_map in H. destruct H as [r [Hr Hx]]. apply in_flat_map. exists r. split; [exact Hr|].
    destruct r as [u d c|off p|rm]; cbn [req_fb] in Hx; [destruct Hx| |destruct Hx].
    destruct Hx as [Hx|[]]. inversion Hx. left. reflexivity.
Qed.

Lemma bounds_in : forall y fid b, In (fid, b) (fbounds y) -> In b (bounds y).
Proof.
  intros y fid b H. unfold bounds. right. apply in_map_iff. exists (fid, b). split; [reflexivity|exact H].
Qed.

(* ------------------------------------------------------------------ an accepted record, before rotation *)
Lemma I7_appended : forall y sp sp' r sm1,
  I7 y sp -> wf_record r ->
  rs_validate (m_rs (k_sm (y_core y))) r = None ->
  sm_apply (k_sm (y_core y)) r (ck_id (k_open (y_core y)))
           (ck_end (k_open (y_core y)), rec_size r) = (sm1, None) ->
  R0 sm1 sp' -> CIs sm1 sp' (OnDisk y) ->
  (forall i ld p0, In (i, ld) (m_log (k_sm (y_core y))) -> In (ld_id ld, p0) (sp_entries sp') ->
     In (ld_id ld, p0) (sp_entries sp)) ->
  (forall id p, r = RAppend id p ->
     (forall p0, In (id, p0) (sp_entries sp') -> p0 = p) /\
     (forall b, In b (bounds y) -> opair_leb (Some id) b = false)) ->
  I7 (with_core y (appended (y_core y) r sm1)) sp'.
Proof.
  intros y sp sp' r sm1 [(HR & HJ & Hk) JW HPL HC HEB HML] Hr Hv Hs HR1 HC1 Hold Hnew.
  set (k := y_core y) in *. set (o := ck_id (k_open k)) in *.
  destruct (jw_appended y r sm1 JW Hr Hv Hs) as (JW1 & Hids1 & Hfo1 & Hfother1).
  fold k o in Hfo1, Hfother1, Hids1, JW1.
  assert (Hlog : forall i ld, In (i, ld) (m_log sm1) ->
            In (i, ld) (m_log (k_sm k)) \/
            exists id p, r = RAppend id p /\ (i, ld) = (lid_index id, mkLD id o (ck_end (k_open k)) (rec_size r))).
  { intros i ld Hl. pose proof (sm_apply_log (k_sm k) r o (ck_end (k_open k), rec_size r) (i, ld)) as H.
    rewrite Hs in H. cbn [fst snd] in H. apply H. exact Hl. }
  constructor.
  - split; [exact HR1|]. split.
    + apply (J_record k r sm1 _ HJ Hk Hs).
    + apply (appended_ok k r sm1 Hk).
  - exact JW1.
  - intros i ld p Hl Hp Hin. cbn [with_core y_core appended k_sm] in Hl.
    rewrite Hids1 in Hin.
    destruct (Hlog _ _ Hl) as [Hl0|(id & p' & Er & Ee)].
    + destruct (HPL i ld p Hl0 (Hold _ _ _ Hl0 Hp) Hin) as (Hw & pre & post & Ef & Eoff & Elen).
      split; [exact Hw|].
      destruct (N.eq_dec (ld_chunk ld) o) as [Ec|Ec].
      * exists pre, (post ++ enc_record r). rewrite Ec in *. rewrite Hfo1, Ef, <- !app_assoc.
        split; [reflexivity|]. split; assumption.
      * exists pre, post. rewrite (Hfother1 _ Ec). split; [exact Ef|]. split; assumption.
    + inversion Ee. subst i ld. cbn [ld_id ld_chunk ld_off ld_len] in *.
      destruct (Hnew id p' Er) as [Hp' _]. rewrite (Hp' _ Hp). subst r.
      split; [exact Hr|].
      exists (file_bytes (logical y) o), []. rewrite Hfo1, app_nil_r.
      split; [reflexivity|]. split; [|reflexivity].
      apply (ji_open_end _ _ _ (jw_inv _ JW)).
  - cbn [with_core y_core appended k_sm]. eapply CI_mono; [exact HC1|].
    intros i ld _ [H1 H2]. split; [|exact H2].
    cbn [with_core y_core appended k_open]. rewrite ck_id_push. exact H1.
  - intros fid b i ld p Hb Hl Hp Hle. cbn [with_core y_core appended k_sm] in Hl.
    change (fbounds (with_core y (appended k r sm1))) with (fbounds y) in Hb.
    destruct (Hlog _ _ Hl) as [Hl0|(id & p' & Er & Ee)].
    + apply (HEB fid b i ld p Hb Hl0 (Hold _ _ _ Hl0 Hp) Hle).
    + inversion Ee. subst i ld. cbn [ld_id] in Hle.
      destruct (Hnew id p' Er) as [_ Hab]. rewrite (Hab _ (bounds_in _ _ _ Hb)) in Hle. discriminate Hle.
  - exact HML.
Qed.

(* ------------------------------------------------------------------ rotation *)
Lemma rotate_sys : forall y1,
  let k1 := y_core y1 in
  let off := ck_end (k_open k1) in
  let y2 := apply_effs (with_core y1 (rotated k1)) (rotate_effs k1) in
  y_core y2 = rotated k1 /\
  y_disk y2 = disk_put (mkFile off (enc_record (RState (m_rs (k_sm k1)))) 0) (y_disk y1) /\
  y_files y2 = y_files y1 /\
  flat_map req_fb (y_queue y2) = flat_map req_fb (y_queue y1) ++ [(off, r_last (m_rs (k_sm k1)))].
Proof.
  intros y1 k1 off y2. unfold y2, rotate_effs. fold off.
  destruct (k_pending k1) as [|b p1]; cbn [app apply_effs fold_left apply_eff with_core
    y_core y_disk y_files y_queue y_acks]; rewrite ?flat_map_app; cbn [flat_map req_fb app];
    rewrite ?app_nil_r; repeat split; reflexivity.
Qed.

Lemma I7_rotated : forall y1 sp, I7 y1 sp ->
  I7 (apply_effs (with_core y1 (rotated (y_core y1))) (rotate_effs (y_core y1))) sp.
Proof.
  intros y1 sp [(HR & HJ & Hk) JW HPL HC HEB HML].
  destruct (rotate_sys y1) as (Ec & Ed & Ef & Eq). cbv zeta in Ec, Ed, Ef, Eq.
  destruct (jw_rotated y1 JW) as (JW2 & Hids2 & _ & Hfother2). cbv zeta in JW2, Hids2, Hfother2.
  set (k1 := y_core y1) in *. set (off := ck_end (k_open k1)) in *.
  set (y2 := apply_effs (with_core y1 (rotated k1)) (rotate_effs k1)) in *.
  assert (Hlt : ck_id (k_open k1) < off) by (apply open_lt_end; exact Hk).
  assert (Hch : forall i ld, In (i, ld) (m_log (k_sm k1)) -> ld_chunk ld <> off).
  { intros i ld Hl. pose proof (log_chunk_le y1 i ld JW Hl) as H. fold k1 in H. lia. }
  assert (Eopen : ck_id (k_open (y_core y2)) = off).
  { rewrite Ec. unfold rotated. cbn [k_open]. rewrite ck_id_push. reflexivity. }
  assert (Esm : k_sm (y_core y2) = k_sm k1) by (rewrite Ec; reflexivity).
  constructor.
  - rewrite Ec. split; [exact HR|]. split.
    + eapply J_rotate; [exact HJ|exact Hk|exact HR].
    + apply (rotated_ok k1 Hk).
  - exact JW2.
  - intros i ld p Hl Hp Hin. rewrite Esm in Hl. rewrite Hids2 in Hin.
    apply in_app_or in Hin. destruct Hin as [Hin|[Hin|[]]]; [|exfalso; apply (Hch _ _ Hl); symmetry; exact Hin].
    rewrite (Hfother2 _ (Hch _ _ Hl)). apply (HPL i ld p Hl Hp Hin).
  - rewrite Esm. eapply CI_mono; [exact HC|].
    intros i ld Hl [H1 (f & Hf & Hlen)]. split.
    + rewrite Eopen. apply (Hch _ _ Hl).
    + exists f. split; [|exact Hlen]. rewrite Ed, disk_get_put. cbn [f_id].
      destruct (N.eqb_spec (ld_chunk ld) off) as [E|E]; [exfalso; apply (Hch _ _ Hl); exact E|exact Hf].
  - intros fid b i ld p Hb Hl Hp Hle. rewrite Esm in Hl. unfold fbounds in Hb. rewrite Ef, Eq in Hb.
    rewrite app_assoc in Hb. apply in_app_or in Hb. destruct Hb as [Hb|[Hb|[]]].
    + apply (HEB fid b i ld p Hb Hl Hp Hle).
    + inversion Hb. subst fid. pose proof (log_chunk_le y1 i ld JW Hl) as H. fold k1 in H. lia.
  - unfold fbounds. rewrite Ef, Eq, app_assoc, map_app. cbn [map fst].
    apply ss_app; [exact HML|repeat constructor|].
    intros a b Ha [Hb|[]]. subst b. apply in_map_iff in Ha. destruct Ha as [[fid bb] [E Hin]].
    cbn [fst] in E. subst a.
    pose proof (jw_bound _ JW) as HB. rewrite Forall_forall in HB.
    specialize (HB fid (fbounds_mentioned _ _ _ Hin)). fold k1 in HB. lia.
Qed.

Lemma bounds_rotated : forall y1 b,
  In b (bounds (apply_effs (with_core y1 (rotated (y_core y1))) (rotate_effs (y_core y1)))) ->
  In b (bounds y1) \/ b = r_last (m_rs (k_sm (y_core y1))).
Proof.
  intros y1 b Hb. destruct (rotate_sys y1) as (Ec & Ed & Ef & Eq). cbv zeta in Ec, Ed, Ef, Eq.
  unfold bounds, fbounds in *. rewrite Ec, Ef, Eq in Hb. cbn [rotated k_sm] in Hb.
  rewrite app_assoc, map_app in Hb. cbn [map snd] in Hb.
  destruct Hb as [Hb|Hb]; [left; left; exact Hb|].
  apply in_app_or in Hb. destruct Hb as [Hb|[Hb|[]]].
  - left. right. exact Hb.
  - right. symmetry. exact Hb.
Qed.

(* ------------------------------------------------------------------ one record *)
Definition above (y : sys) (id : logid) : Prop :=
  forall b, In b (bounds y) -> opair_cmp b (Some id) = Lt.

Lemma I7_record : forall y sp r w k' res effs,
  I7 y sp -> wf_record r ->
  append_and_apply (y_core y) r = Ret (k', res, effs) ->
  step_sim0 (k_sm (y_core y)) sp r w ->
  step_sim7 (k_sm (y_core y)) sp r w (OnDisk y) ->
  (forall sp', spec_step sp w = Some sp' ->
     (forall i ld p0, In (i, ld) (m_log (k_sm (y_core y))) -> In (ld_id ld, p0) (sp_entries sp') ->
        In (ld_id ld, p0) (sp_entries sp)) /\
     (forall id p, r = RAppend id p ->
        (forall p0, In (id, p0) (sp_entries sp') -> p0 = p) /\
        (rs_validate (m_rs (k_sm (y_core y))) r = None -> above y id))) ->
  let y' := apply_effs (with_core y k') effs in
  I7 y' (fst (spec_one sp w)) /\ res_agrees res (snd (spec_one sp w)) /\
  (forall b, In b (bounds y') -> In b (bounds y) \/ b = r_last (m_rs (k_sm k'))).
Proof.
  intros y sp r w k' res effs HI Hr H HS0 HS7 Hsp y'.
  pose proof HI as [(HR & HJ & Hk) JW HPL HC HEB HML].
  unfold step_sim0 in HS0. unfold step_sim7 in HS7. unfold spec_one.
  destruct (spec_step sp w) as [sp'|] eqn:Esp; cbn [fst snd].
  - destruct HS0 as [HL [HV Hsim]]. destruct (Hsp sp' eq_refl) as [Hold Hnew].
    destruct (aaa_ok (y_core y) r HL HV) as (k2 & off & len & ef2 & c & seg & Ha & _ & _).
    rewrite Ha in H. inversion H; subst k2 res ef2. clear H.
    apply append_and_apply_cases in Ha as [(_ & _ & e & He)|(sm1 & _ & Hs & _ & Ht)]; [discriminate|].
    pose proof (Hsim (ck_id (k_open (y_core y))) (ck_end (k_open (y_core y)), rec_size r)) as HR1.
    pose proof (HS7 (ck_id (k_open (y_core y))) (ck_end (k_open (y_core y)), rec_size r)) as HC1.
    rewrite Hs in HR1, HC1. cbn [fst] in HR1, HC1.
    assert (HI1 : I7 (with_core y (appended (y_core y) r sm1)) sp').
    { apply (I7_appended y sp sp' r sm1 HI Hr HV Hs HR1 HC1 Hold).
      intros id p Er. destruct (Hnew id p Er) as [N1 N2]. split; [exact N1|].
      intros b Hb. apply opair_leb_gt. apply (N2 HV b Hb). }
    assert (Hb1 : bounds (with_core y (appended (y_core y) r sm1)) = bounds y).
    { apply bounds_same; [|reflexivity|reflexivity]. cbn [with_core y_core appended k_sm].
      pose proof (sm_apply_evictable (k_sm (y_core y)) r (ck_id (k_open (y_core y)))
                    (ck_end (k_open (y_core y)), rec_size r)) as H.
      rewrite Hs in H. exact H. }
    eapply try_close_cases in Ht as [(_ & E1 & E2)|(_ & E1 & E2)]; [| |reflexivity].
    + subst k' effs. unfold y'. cbn [apply_effs fold_left].
      split; [exact HI1|]. split; [reflexivity|].
      intros b Hb. left. rewrite <- Hb1. exact Hb.
    + subst k' effs. unfold y'.
      change (apply_effs (with_core y (rotated (appended (y_core y) r sm1)))
                         (rotate_effs (appended (y_core y) r sm1)))
        with (apply_effs (with_core (with_core y (appended (y_core y) r sm1))
                                    (rotated (y_core (with_core y (appended (y_core y) r sm1)))))
                         (rotate_effs (y_core (with_core y (appended (y_core y) r sm1))))).
      split; [apply I7_rotated; exact HI1|]. split; [reflexivity|].
      intros b Hb. apply bounds_rotated in Hb. rewrite Hb1 in Hb.
      destruct Hb as [Hb|Hb]; [left; exact Hb|right; exact Hb].
  - assert (E : k' = y_core y /\ effs = [] /\ res_agrees res false).
    { destruct (index_limit r) eqn:HL.
      - rewrite (aaa_limit _ _ HL) in H. inversion H. repeat split.
      - destruct HS0 as [HS0|[e HS0]]; [discriminate|].
        rewrite (aaa_invalid _ _ e HL HS0) in H. inversion H. repeat split. }
    destruct E as (E1 & E2 & E3). subst k' effs. unfold y'. cbn [apply_effs fold_left].
    rewrite with_core_self. split; [exact HI|]. split; [exact E3|]. intros b Hb. left. exact Hb.
Qed.
