(* C09, decidable core: corruption is reported.

   Part A (record level): what dec_record does with an encoded record in which
   exactly one byte has been altered.
   Part B (directory level): what open_dir does with a chunk that contains a
   damaged record, and with a journal whose middle chunk is missing. *)
From Coq Require Import List NArith Lia Bool Arith Sorted.
From Coq.Strings Require Import Byte.
From RaftLog Require Import Base.Bytes Base.Crc32 Model.Types Model.Codec Model.Cache
  Model.Core Model.Recover.
From RaftLog Require Proofs.Crc32Facts.
From RaftLog Require Import Proofs.CodecFacts Proofs.ScanFacts.
Import ListNotations.

(* ================================================================== *)
(* Part A.0: list splitting                                            *)
(* ================================================================== *)
Section Lists.
Context {A : Type}.

Lemma app_eq_len (x x' y y' : list A) :
  x ++ y = x' ++ y' -> length x = length x' -> x = x' /\ y = y'.
Proof.
  revert x'. induction x as [|a x IH]; intros [|a' x'] E L; cbn [length] in L; try discriminate L.
  - auto.
  - cbn [app] in E. injection E as E1 E2. subst a'.
    destruct (IH x' E2) as [H1 H2]; [lia|]. subst. auto.
Qed.

Lemma app_split_le (x y p q : list A) :
  x ++ y = p ++ q -> length x <= length p -> exists m, p = x ++ m /\ y = m ++ q.
Proof.
  revert p. induction x as [|a x IH]; intros p E L.
  - exists p. auto.
  - destruct p as [|c p]; cbn [length] in L; [lia|].
    cbn [app] in E. injection E as E1 E2. subst c.
    destruct (IH p E2) as [m [H1 H2]]; [lia|]. exists m. subst. auto.
Qed.

Lemma app_split_lt (x y p q : list A) (b : A) :
  x ++ y = p ++ b :: q -> length p < length x -> exists s, x = p ++ b :: s /\ q = s ++ y.
Proof.
  revert x. induction p as [|c p IH]; intros x E L.
  - destruct x as [|a x]; cbn [length] in L; [lia|].
    cbn [app] in E. injection E as E1 E2. subst a. exists x. auto.
  - destruct x as [|a x]; cbn [length] in L; [lia|].
    cbn [app] in E. injection E as E1 E2. subst a.
    destruct (IH x E2) as [s [H1 H2]]; [lia|]. exists s. subst. auto.
Qed.

(* the altered position lies inside the field F of A ++ F ++ B *)
Lemma split_mid (X F B pre suf : list A) (b : A) :
  X ++ F ++ B = pre ++ b :: suf ->
  length X <= length pre < length X + length F ->
  exists m s, pre = X ++ m /\ F = m ++ b :: s /\ suf = s ++ B.
Proof.
  intros E [L1 L2].
  destruct (app_split_le _ _ _ _ E L1) as [m [H1 H2]].
  assert (L3 : length m < length F).
  { subst pre. rewrite app_length in L2. lia. }
  destruct (app_split_lt _ _ _ _ _ H2 L3) as [s [H3 H4]].
  exists m, s. auto.
Qed.

Lemma mid_length (m s : list A) (b b' : A) : length (m ++ b' :: s) = length (m ++ b :: s).
Proof. rewrite !app_length. reflexivity. Qed.

Lemma mid_inj (m s : list A) (b b' : A) : m ++ b :: s = m ++ b' :: s -> b = b'.
Proof. intros E. apply app_inv_head in E. now injection E. Qed.

End Lists.

(* ================================================================== *)
(* Part A.1: fixed-width fields                                        *)
(* ================================================================== *)

Lemma be_enc_inj k a b :
  (a < 256 ^ N.of_nat k)%N -> (b < 256 ^ N.of_nat k)%N -> be_enc k a = be_enc k b -> a = b.
Proof.
  intros Ha Hb E. apply (f_equal be_dec) in E.
  rewrite !be_dec_enc, !N.mod_small in E by assumption. exact E.
Qed.

Lemma enc_u64_inj a b : wf_u64 a -> wf_u64 b -> enc_u64 a = enc_u64 b -> a = b.
Proof.
  unfold wf_u64, enc_u64. rewrite <- pow256_8. apply be_enc_inj.
Qed.

(* any k bytes are the encoding of a k-byte number *)
Lemma be_enc_of_bytes k (x : bytes) :
  length x = k -> (be_dec x < 256 ^ N.of_nat k)%N /\ be_enc k (be_dec x) = x.
Proof.
  intros L. subst k. split; [apply be_dec_lt|apply be_enc_dec].
Qed.

Lemma u64_field_alter v m b s b' :
  enc_u64 v = m ++ b :: s -> exists v', wf_u64 v' /\ enc_u64 v' = m ++ b' :: s.
Proof.
  intros E. exists (be_dec (m ++ b' :: s)).
  assert (L : length (m ++ b' :: s) = 8).
  { rewrite (mid_length m s b b'), <- E. apply enc_u64_length. }
  destruct (be_enc_of_bytes 8 _ L) as [H1 H2].
  unfold wf_u64, enc_u64. rewrite <- pow256_8. auto.
Qed.

Lemma p_u64_bytes (x t : bytes) : length x = 8 -> p_u64 (x ++ t) = DOk (be_dec x, t).
Proof.
  intros L. destruct (be_enc_of_bytes 8 x L) as [H1 H2].
  rewrite <- H2 at 1. apply (g_rt _ _ _ Good_u64). unfold wf_u64. now rewrite <- pow256_8.
Qed.

(* ================================================================== *)
(* Part A.2: one altered byte                                          *)
(* ================================================================== *)

(* the altered position lies in the body: body and checksum split accordingly *)
Lemma alter_in_body r pre b suf :
  enc_record r = pre ++ b :: suf -> length pre < length (enc_body r) ->
  exists s, enc_body r = pre ++ b :: s /\ suf = s ++ enc_u64 (crc32 (enc_body r)).
Proof.
  intros E L. rewrite enc_record_eq in E. exact (app_split_lt _ _ _ _ _ E L).
Qed.

(* the altered position lies in the checksum *)
Lemma alter_in_crc r pre b suf :
  enc_record r = pre ++ b :: suf -> length (enc_body r) <= length pre ->
  exists m, pre = enc_body r ++ m /\ enc_u64 (crc32 (enc_body r)) = m ++ b :: suf.
Proof.
  intros E L. rewrite enc_record_eq in E. exact (app_split_le _ _ _ _ E L).
Qed.

Theorem C09_single_byte_same_length : forall r t pre b suf b' r' t',
  wf_record r -> enc_record r = pre ++ b :: suf -> b <> b' ->
  dec_record (pre ++ b' :: suf ++ t) = DOk (r', t') ->
  length (enc_record r') <> length (enc_record r).
Proof.
  intros r t pre b suf b' r' t' Hwf He Hb Hd Hlen.
  apply dec_record_canonical in Hd as [Hwf' E].
  assert (L : length (pre ++ b' :: suf) = length (enc_record r')).
  { rewrite Hlen, He. apply mid_length. }
  change (pre ++ b' :: suf ++ t) with (pre ++ (b' :: suf) ++ t) in E.
  rewrite app_assoc in E.
  destruct (app_eq_len _ _ _ _ E L) as [E1 _]. symmetry in E1.
  assert (Lb : length (enc_body r') = length (enc_body r)).
  { rewrite !enc_body_len in Hlen. lia. }
  destruct (le_lt_dec (length (enc_body r)) (length pre)) as [Hc|Hc].
  - (* checksum byte: the bodies are the same *)
    destruct (alter_in_crc _ _ _ _ He Hc) as [m [P1 P2]].
    assert (Hc' : length (enc_body r') <= length pre) by lia.
    destruct (alter_in_crc _ _ _ _ E1 Hc') as [m' [P1' P2']].
    rewrite P1 in P1'.
    destruct (app_eq_len _ _ _ _ P1' (eq_sym Lb)) as [B1 B2].
    rewrite <- B1, <- B2, P2 in P2'. apply Hb. exact (mid_inj _ _ _ _ P2').
  - (* body byte: the checksums are the same *)
    destruct (alter_in_body _ _ _ _ He Hc) as [s [P1 P2]].
    assert (Hc' : length pre < length (enc_body r')) by lia.
    destruct (alter_in_body _ _ _ _ E1 Hc') as [s' [P1' P2']].
    rewrite P2 in P2'.
    assert (Ls : length s = length s').
    { apply (f_equal (@length _)) in P2'. rewrite !app_length, !enc_u64_length in P2'. lia. }
    destruct (app_eq_len _ _ _ _ P2' Ls) as [S1 S2]. subst s'.
    apply enc_u64_inj in S2; [|apply crc32_wf_u64|apply crc32_wf_u64].
    rewrite P1, P1' in S2.
    exact (Crc32Facts.crc32_single_byte pre s b b' Hb S2).
Qed.

(* the honest residual: for any position, the altered record is rejected, or
   looks incomplete, or (checksum coincidence on another parse shape) decodes
   to a record of a different length *)
Theorem C09_single_byte_outcomes : forall r t pre b suf b',
  wf_record r -> enc_record r = pre ++ b :: suf -> b <> b' ->
  dec_record (pre ++ b' :: suf ++ t) = DInvalid \/
  dec_record (pre ++ b' :: suf ++ t) = DEof \/
  exists r' t', dec_record (pre ++ b' :: suf ++ t) = DOk (r', t') /\
                wf_record r' /\
                pre ++ b' :: suf ++ t = enc_record r' ++ t' /\
                length (enc_record r') <> length (enc_record r).
Proof.
  intros r t pre b suf b' Hwf He Hb.
  destruct (dec_record (pre ++ b' :: suf ++ t)) as [[r' t']| |] eqn:D; auto.
  right. right. exists r', t'. split; [reflexivity|].
  destruct (dec_record_canonical _ _ _ D) as [W C].
  split; [exact W|]. split; [exact C|].
  exact (C09_single_byte_same_length _ _ _ _ _ _ _ _ Hwf He Hb D).
Qed.

(* never accepted as the same record, nor as any record of that length; in
   particular the decoder never returns the original record *)
Corollary C09_single_byte_not_same : forall r t pre b suf b' t',
  wf_record r -> enc_record r = pre ++ b :: suf -> b <> b' ->
  dec_record (pre ++ b' :: suf ++ t) <> DOk (r, t').
Proof.
  intros r t pre b suf b' t' Hwf He Hb D.
  exact (C09_single_byte_same_length _ _ _ _ _ _ _ _ Hwf He Hb D eq_refl).
Qed.

(* ---- the checksum field ---- *)
Theorem C09_checksum_field : forall r t pre b suf b',
  wf_record r -> enc_record r = pre ++ b :: suf -> b <> b' ->
  length (enc_body r) <= length pre ->
  dec_record (pre ++ b' :: suf ++ t) = DInvalid.
Proof.
  intros r t pre b suf b' Hwf He Hb Hc.
  destruct (alter_in_crc _ _ _ _ He Hc) as [m [P1 P2]].
  assert (L : length (m ++ b' :: suf) = 8).
  { rewrite (mid_length m suf b b'), <- P2. apply enc_u64_length. }
  subst pre.
  replace ((enc_body r ++ m) ++ b' :: suf ++ t) with (enc_body r ++ (m ++ b' :: suf) ++ t)
    by (rewrite <- !app_assoc; reflexivity).
  rewrite dec_record_eq, (g_rt _ _ _ Good_p_body) by assumption.
  rewrite firstn_consumed, (p_u64_bytes _ _ L).
  destruct (N.eqb_spec (be_dec (m ++ b' :: suf)) (crc32 (enc_body r))) as [Ec|Ec]; [|reflexivity].
  exfalso. apply Hb.
  destruct (be_enc_of_bytes 8 _ L) as [_ H2]. rewrite Ec in H2.
  change (be_enc 8) with enc_u64 in H2. rewrite P2 in H2.
  exact (mid_inj _ _ _ _ H2).
Qed.

(* ---- body bytes whose alteration yields the body of another record ---- *)
Lemma altered_body_invalid r r2 pre b b' s t :
  wf_record r2 -> enc_body r = pre ++ b :: s -> enc_body r2 = pre ++ b' :: s -> b <> b' ->
  dec_record (enc_body r2 ++ enc_u64 (crc32 (enc_body r)) ++ t) = DInvalid.
Proof.
  intros W2 E E2 Hb.
  rewrite dec_record_eq, (g_rt _ _ _ Good_p_body) by assumption.
  rewrite firstn_consumed, (g_rt _ _ _ Good_u64) by apply crc32_wf_u64.
  destruct (N.eqb_spec (crc32 (enc_body r)) (crc32 (enc_body r2))) as [Ec|Ec]; [|reflexivity].
  exfalso. rewrite E, E2 in Ec.
  exact (Crc32Facts.crc32_single_byte pre s b b' Hb Ec).
Qed.

(* [reencodes r pre b' s]: the altered body is the body of a well-formed record *)
Lemma C09_reencodable_body : forall r t pre b suf b',
  enc_record r = pre ++ b :: suf -> b <> b' -> length pre < length (enc_body r) ->
  (forall s, enc_body r = pre ++ b :: s ->
             exists r2, wf_record r2 /\ enc_body r2 = pre ++ b' :: s) ->
  dec_record (pre ++ b' :: suf ++ t) = DInvalid.
Proof.
  intros r t pre b suf b' He Hb Hc Hre.
  destruct (alter_in_body _ _ _ _ He Hc) as [s [P1 P2]].
  destruct (Hre s P1) as [r2 [W2 E2]].
  subst suf.
  replace (pre ++ b' :: (s ++ enc_u64 (crc32 (enc_body r))) ++ t)
    with ((pre ++ b' :: s) ++ enc_u64 (crc32 (enc_body r)) ++ t)
    by (rewrite <- !app_assoc; reflexivity).
  rewrite <- E2. exact (altered_body_invalid r r2 pre b b' s t W2 P1 E2 Hb).
Qed.

(* the two u64 after the tag (positions 4..19): vote / log id *)
Lemma alter_pair_bytes tag a c rest pre b b' s :
  wf_u64 a -> wf_u64 c ->
  enc_u32 tag ++ enc_u64 a ++ enc_u64 c ++ rest = pre ++ b :: s ->
  4 <= length pre < 20 ->
  exists a' c', wf_u64 a' /\ wf_u64 c' /\
    enc_u32 tag ++ enc_u64 a' ++ enc_u64 c' ++ rest = pre ++ b' :: s.
Proof.
  intros Wa Wc E L.
  destruct (le_lt_dec 12 (length pre)) as [H|H].
  - (* second number *)
    rewrite !app_assoc in E. rewrite <- (app_assoc _ (enc_u64 c) rest) in E.
    destruct (split_mid (enc_u32 tag ++ enc_u64 a) (enc_u64 c) rest pre s b E) as [m [s0 [P1 [P2 P3]]]].
    { rewrite app_length, enc_u32_length, !enc_u64_length. lia. }
    destruct (u64_field_alter c m b s0 b' P2) as [c' [Wc' Ec']].
    exists a, c'. split; [assumption|]. split; [assumption|].
    subst pre s. rewrite Ec'. rewrite <- !app_assoc. reflexivity.
  - (* first number *)
    destruct (split_mid (enc_u32 tag) (enc_u64 a) (enc_u64 c ++ rest) pre s b E) as [m [s0 [P1 [P2 P3]]]].
    { rewrite enc_u32_length, enc_u64_length. lia. }
    destruct (u64_field_alter a m b s0 b' P2) as [a' [Wa' Ea']].
    exists a', c. split; [assumption|]. split; [assumption|].
    subst pre s. rewrite Ea'. rewrite <- !app_assoc. reflexivity.
Qed.

Definition pair_record (r : record) : Prop :=
  match r with RVote _ | RCommit _ | RPurge _ => True | _ => False end.

Lemma enc_body_pair_record r : pair_record r ->
  exists a c, wf_record r = (wf_u64 a /\ wf_u64 c) /\
    enc_body r = enc_u32 (rec_tag r) ++ enc_u64 a ++ enc_u64 c ++ [] /\
    forall a' c', wf_u64 a' -> wf_u64 c' ->
      exists r2, wf_record r2 /\
        enc_body r2 = enc_u32 (rec_tag r) ++ enc_u64 a' ++ enc_u64 c' ++ [].
Proof.
  intros P. destruct r as [v|id p|id|o|id|st]; try destruct P.
  - exists (fst v), (snd v). split; [reflexivity|]. split.
    + unfold enc_body, enc_payload, enc_pair. now rewrite app_nil_r.
    + intros a' c' Wa Wc. exists (RVote (a', c')). split; [split; assumption|].
      unfold enc_body, enc_payload, enc_pair. cbn [fst snd rec_tag]. now rewrite app_nil_r.
  - exists (fst id), (snd id). split; [reflexivity|]. split.
    + unfold enc_body, enc_payload, enc_pair. now rewrite app_nil_r.
    + intros a' c' Wa Wc. exists (RCommit (a', c')). split; [split; assumption|].
      unfold enc_body, enc_payload, enc_pair. cbn [fst snd rec_tag]. now rewrite app_nil_r.
  - exists (fst id), (snd id). split; [reflexivity|]. split.
    + unfold enc_body, enc_payload, enc_pair. now rewrite app_nil_r.
    + intros a' c' Wa Wc. exists (RPurge (a', c')). split; [split; assumption|].
      unfold enc_body, enc_payload, enc_pair. cbn [fst snd rec_tag]. now rewrite app_nil_r.
Qed.

(* the 16 id / vote bytes of RVote, RCommit, RPurge *)
Theorem C09_fixed_fields : forall r t pre b suf b',
  pair_record r ->
  wf_record r -> enc_record r = pre ++ b :: suf -> b <> b' ->
  4 <= length pre < 20 ->
  dec_record (pre ++ b' :: suf ++ t) = DInvalid.
Proof.
  intros r t pre b suf b' P Hwf He Hb L.
  destruct (enc_body_pair_record r P) as [a [c [W [EB Hmk]]]].
  rewrite W in Hwf. destruct Hwf as [Wa Wc].
  apply (C09_reencodable_body r t pre b suf b' He Hb).
  - rewrite EB, !app_length, enc_u32_length, !enc_u64_length. cbn [length]. lia.
  - intros s Es. rewrite EB in Es.
    destruct (alter_pair_bytes _ _ _ _ _ _ b' _ Wa Wc Es L) as [a' [c' [Wa' [Wc' E']]]].
    destruct (Hmk a' c' Wa' Wc') as [r2 [W2 E2]].
    exists r2. split; [assumption|]. now rewrite E2.
Qed.

Lemma enc_body_append id p :
  enc_body (RAppend id p) =
  enc_u32 1 ++ enc_u64 (fst id) ++ enc_u64 (snd id) ++ enc_u32 (N.of_nat (length p)) ++ p.
Proof.
  unfold enc_body, enc_payload, enc_pair, enc_bytes. cbn [rec_tag].
  rewrite <- !app_assoc. reflexivity.
Qed.

Lemma enc_body_append_length id p : length (enc_body (RAppend id p)) = 24 + length p.
Proof.
  rewrite enc_body_append, !app_length, !enc_u32_length, !enc_u64_length. lia.
Qed.

(* the log id and the payload content of an Append record *)
Theorem C09_append_fixed_fields : forall id p t pre b suf b',
  wf_record (RAppend id p) -> enc_record (RAppend id p) = pre ++ b :: suf -> b <> b' ->
  (4 <= length pre < 20 \/ 24 <= length pre) ->
  dec_record (pre ++ b' :: suf ++ t) = DInvalid.
Proof.
  intros id p t pre b suf b' Hwf He Hb L.
  destruct (le_lt_dec (length (enc_body (RAppend id p))) (length pre)) as [Hc|Hc].
  { exact (C09_checksum_field _ t _ _ _ _ Hwf He Hb Hc). }
  destruct Hwf as [[Wa Wc] Wp].
  apply (C09_reencodable_body _ t pre b suf b' He Hb Hc).
  intros s Es. rewrite enc_body_append in Es.
  destruct L as [L|L].
  - (* log id *)
    destruct (alter_pair_bytes _ _ _ _ _ _ b' _ Wa Wc Es L) as [a' [c' [Wa' [Wc' E']]]].
    exists (RAppend (a', c') p). split; [split; [split; assumption|assumption]|].
    rewrite enc_body_append. exact E'.
  - (* payload content *)
    rewrite enc_body_append_length in Hc.
    rewrite !app_assoc in Es.
    rewrite <- (app_nil_r p) in Es at 2.
    destruct (split_mid _ p [] pre s b Es) as [m [s0 [P1 [P2 P3]]]].
    { rewrite !app_length, !enc_u32_length, !enc_u64_length. lia. }
    exists (RAppend id (m ++ b' :: s0)). split.
    + split; [split; assumption|]. unfold wf_bytes in *.
      rewrite (mid_length m s0 b b'), <- P2. exact Wp.
    + rewrite enc_body_append, (mid_length m s0 b b'), <- P2.
      subst pre s. rewrite app_nil_r, <- !app_assoc. reflexivity.
Qed.


(* ================================================================== *)
(* Part B.0: scanning a sequence of encoded records                    *)
(* ================================================================== *)

Lemma encs_length_ge rs : length rs <= length (encs rs).
Proof.
  induction rs as [|r rs IH]; [apply Nat.le_refl|].
  rewrite encs_cons, app_length. pose proof (enc_record_min_len r) as H.
  cbn [length]. lia.
Qed.

Lemma encs_length_pos rs : rs <> [] -> 0 < length (encs rs).
Proof.
  intros H. destruct rs as [|r rs]; [congruence|].
  pose proof (encs_length_ge (r :: rs)) as L. cbn [length] in L. lia.
Qed.

(* a damaged record after well-formed ones stops the scan right there *)
Lemma scan_file_encs_invalid rs x : Forall wf_record rs -> x <> [] ->
  dec_record x = DInvalid ->
  scan_file (encs rs ++ x) = (sized rs, x, SInvalid).
Proof.
  intros W Hx D. rewrite (scan_file_encs_app rs x W), (scan_file_invalid x Hx D).
  now rewrite app_nil_r.
Qed.

Lemma last_cons {A} (a : A) l d : last (a :: l) d = last l a.
Proof.
  revert a d. induction l as [|b l IH]; intros a d; [reflexivity|].
  change (last (a :: b :: l) d) with (last (b :: l) d).
  rewrite (IH b d). symmetry. apply IH.
Qed.

Lemma ends_from_last rs : forall s d,
  last (ends_from s (map rec_size rs)) d =
  match rs with [] => d | _ => (s + N.of_nat (length (encs rs)))%N end.
Proof.
  induction rs as [|r rs IH]; intros s d; [reflexivity|].
  cbn [map ends_from]. rewrite last_cons, IH.
  rewrite encs_cons, app_length. unfold rec_size.
  destruct rs as [|r' rs'].
  - cbn [encs map concat length]. lia.
  - lia.
Qed.

(* ================================================================== *)
(* Part B.1: one step of the open loop                                 *)
(* ================================================================== *)

(* the step of [open_loop] for a chunk that is kept (not the record-less
   newest chunk) *)
Definition open_one (cfg : config) (f : file) (a : open_acc) : open_acc + (err * disk) :=
  let sm0 := mkSM (m_rs (oa_sm a)) (m_log (oa_sm a))
                  (cache_set_evictable (m_cache (oa_sm a)) (oa_last a)) in
  let id := f_id f in
  let gap := match oa_prev_end a with Some p => negb (N.eqb p id) | None => false end in
  if gap then inr (EGap, oa_disk a)
  else
    match chunk_open cfg id (f_data f) with
    | inr e => inr (e, oa_disk a)
    | inl oc =>
      let d1 := if oc_truncated oc
                then disk_put (mkFile id (oc_data oc) (N.of_nat (length (oc_data oc)))) (oa_disk a)
                else oa_disk a in
      match replay sm0 id id (oc_records oc) (ck_ends (oc_chunk oc)) with
      | (s1, Some e) => inr (e, d1)
      | (s1, None) =>
        inl (mkOA s1 (closed_insert (mkClosed (oc_chunk oc) (m_rs s1) (oc_truncated oc)) (oa_closed a))
                  (Some (ck_end (oc_chunk oc))) (r_last (m_rs s1)) d1)
      end
    end.

Definition open_bind (x : open_acc + (err * disk)) (k : open_acc -> open_acc + (err * disk)) :=
  match x with inl a => k a | inr e => inr e end.

Lemma open_loop_cons cfg f rest a : rest <> [] ->
  open_loop cfg (f :: rest) a = open_bind (open_one cfg f a) (open_loop cfg rest).
Proof.
  intros H. unfold open_bind, open_one. cbn [open_loop].
  destruct (match oa_prev_end a with Some p => negb (N.eqb p (f_id f)) | None => false end);
    [reflexivity|].
  destruct (chunk_open cfg (f_id f) (f_data f)) as [oc|e]; [|reflexivity].
  destruct (ck_ends (oc_chunk oc)) as [|x xs]; destruct rest as [|g rest]; try congruence;
    destruct (replay _ _ _ _ _) as [s1 [e|]]; reflexivity.
Qed.

Lemma open_loop_cons_ends cfg f rest a oc :
  chunk_open cfg (f_id f) (f_data f) = inl oc -> ck_ends (oc_chunk oc) <> [] ->
  open_loop cfg (f :: rest) a = open_bind (open_one cfg f a) (open_loop cfg rest).
Proof.
  intros Hc Hne. destruct rest as [|g rest]; [|apply open_loop_cons; congruence].
  unfold open_bind, open_one. cbn [open_loop].
  destruct (match oa_prev_end a with Some p => negb (N.eqb p (f_id f)) | None => false end);
    [reflexivity|].
  rewrite Hc.
  destruct (ck_ends (oc_chunk oc)) as [|x xs]; [congruence|].
  destruct (replay _ _ _ _ _) as [s1 [e|]]; reflexivity.
Qed.

Lemma open_loop_gap cfg g rest a p :
  oa_prev_end a = Some p -> p <> f_id g -> open_loop cfg (g :: rest) a = inr (EGap, oa_disk a).
Proof.
  intros Hp Hne. cbn [open_loop]. rewrite Hp.
  destruct (N.eqb_spec p (f_id g)) as [E|E]; [congruence|]. reflexivity.
Qed.

(* ---- chunks that scan to the end: no truncation, the disk is not touched ---- *)
Definition scans_end (f : file) : Prop := snd (scan_file (f_data f)) = SEnd.

Lemma chunk_open_send cfg id data : snd (scan_file data) = SEnd ->
  exists oc, chunk_open cfg id data = inl oc /\ oc_truncated oc = false.
Proof.
  intros H. unfold chunk_open. destruct (scan_file data) as [[recs rest] e].
  cbn [snd] in H. subst e. eexists. split; reflexivity.
Qed.

Lemma open_one_send_disk cfg f a : scans_end f ->
  match open_one cfg f a with
  | inl a' => oa_disk a' = oa_disk a
  | inr (e, d) => d = oa_disk a
  end.
Proof.
  intros H. destruct (chunk_open_send cfg (f_id f) (f_data f) H) as [oc [Hc Ht]].
  unfold open_one.
  destruct (match oa_prev_end a with Some p => negb (N.eqb p (f_id f)) | None => false end);
    [reflexivity|].
  rewrite Hc, Ht.
  destruct (replay _ _ _ _ _) as [s1 [e|]]; reflexivity.
Qed.

(* ================================================================== *)
(* Part B.2: a damaged record makes open fail, nothing is modified     *)
(* ================================================================== *)

(* the chunk at which Chunk::open itself fails *)
Lemma open_loop_fails_here cfg f' post a e0 :
  chunk_open cfg (f_id f') (f_data f') = inr e0 ->
  exists e, open_loop cfg (f' :: post) a = inr (e, oa_disk a).
Proof.
  intros Hc. cbn [open_loop].
  destruct (match oa_prev_end a with Some p => negb (N.eqb p (f_id f')) | None => false end);
    [eexists; reflexivity|].
  rewrite Hc. eexists; reflexivity.
Qed.

Lemma open_loop_refuses cfg f' post e0 :
  chunk_open cfg (f_id f') (f_data f') = inr e0 ->
  forall pre, Forall scans_end pre ->
  forall a, exists e, open_loop cfg (pre ++ f' :: post) a = inr (e, oa_disk a).
Proof.
  intros Hc pre. induction pre as [|g pre IH]; intros Hpre a.
  - exact (open_loop_fails_here cfg f' post a e0 Hc).
  - inversion Hpre as [|? ? Hg Hpre']; subst.
    cbn [app]. rewrite open_loop_cons by (destruct pre; discriminate).
    pose proof (open_one_send_disk cfg g a Hg) as Hd.
    destruct (open_one cfg g a) as [a'|[e d]]; cbn [open_bind].
    + destruct (IH Hpre' a') as [e He]. exists e. rewrite He, Hd. reflexivity.
    + exists e. now rewrite Hd.
Qed.

(* Every chunk before the damaged one scans to its end (so it is opened
   without truncation) and Chunk::open refuses the damaged chunk. Then open
   fails (with a gap, validation or decode error) and the directory is exactly
   as it was. Holds whether or not the damaged chunk is the newest. *)
Theorem C09_open_refuses_chunk : forall cfg pre f' post e0,
  Forall scans_end pre ->
  chunk_open cfg (f_id f') (f_data f') = inr e0 ->
  exists e, open_dir cfg (pre ++ f' :: post) = OpenErr e (pre ++ f' :: post).
Proof.
  intros cfg pre f' post e0 Hpre Hc. unfold open_dir.
  destruct (open_loop_refuses cfg f' post e0 Hc pre Hpre
              (mkOA (sm_new cfg) [] None None (pre ++ f' :: post))) as [e He].
  rewrite He. exists e. reflexivity.
Qed.

(* Chunk::open refuses: a rejected record unless (zeros follow and truncation is enabled) *)
Lemma chunk_open_invalid cfg id data recs rest :
  scan_file data = (recs, rest, SInvalid) -> all_zero rest && c_truncate cfg = false ->
  chunk_open cfg id data = inr EDecodeInvalid.
Proof. intros Hs Hz. unfold chunk_open. rewrite Hs, Hz. reflexivity. Qed.

(* ... an incomplete record when truncation is disabled *)
Lemma chunk_open_eof_notrunc cfg id data recs rest :
  scan_file data = (recs, rest, SEof) -> c_truncate cfg = false ->
  chunk_open cfg id data = inr EDecodeEof.
Proof. intros Hs Hz. unfold chunk_open. rewrite Hs, Hz. reflexivity. Qed.

(* the damaged chunk scans to a record that is rejected as InvalidData and the
   bytes from that record on are not all zero (or truncation is disabled) *)
Theorem C09_open_refuses_gen : forall cfg pre f' post recs rest,
  Forall scans_end pre ->
  scan_file (f_data f') = (recs, rest, SInvalid) ->
  all_zero rest && c_truncate cfg = false ->
  exists e, open_dir cfg (pre ++ f' :: post) = OpenErr e (pre ++ f' :: post).
Proof.
  intros cfg pre f' post recs rest Hpre Hs Hz.
  exact (C09_open_refuses_chunk cfg pre f' post _ Hpre
           (chunk_open_invalid cfg (f_id f') (f_data f') recs rest Hs Hz)).
Qed.

Theorem C09_open_refuses : forall cfg pre f post data' recs rest,
  Forall scans_end pre ->
  scan_file data' = (recs, rest, SInvalid) -> all_zero rest = false ->
  exists e, open_dir cfg (pre ++ mkFile (f_id f) data' (f_synced f) :: post)
            = OpenErr e (pre ++ mkFile (f_id f) data' (f_synced f) :: post).
Proof.
  intros cfg pre f post data' recs rest Hpre Hs Hz.
  apply (C09_open_refuses_gen cfg pre (mkFile (f_id f) data' (f_synced f)) post recs rest Hpre Hs).
  now rewrite Hz.
Qed.

(* ================================================================== *)
(* Part B.3: clean images; a missing middle chunk                      *)
(* ================================================================== *)

Definition clean_file (f : file) : Prop :=
  exists rs, rs <> [] /\ Forall wf_record rs /\ f_data f = encs rs.

Definition file_end (f : file) : N := (f_id f + N.of_nat (length (f_data f)))%N.

(* consecutive chunk files abut: the id of a chunk is the end offset of its
   predecessor *)
Fixpoint abut (fs : list file) : Prop :=
  match fs with
  | f :: r => match r with g :: _ => f_id g = file_end f | [] => True end /\ abut r
  | [] => True
  end.

Definition clean_files (fs : list file) : Prop := Forall clean_file fs /\ abut fs.

Lemma abut_mid xs x y ys : abut (xs ++ x :: y :: ys) -> f_id y = file_end x.
Proof.
  induction xs as [|a xs IH]; cbn [app].
  - intros [H _]. exact H.
  - intros [_ H]. exact (IH H).
Qed.

Lemma clean_file_nonempty f : clean_file f -> 0 < length (f_data f).
Proof. intros [rs [Hne [_ E]]]. rewrite E. now apply encs_length_pos. Qed.

Lemma clean_file_lt f : clean_file f -> (f_id f < file_end f)%N.
Proof. intros H. apply clean_file_nonempty in H. unfold file_end. lia. Qed.

(* clean images are strictly sorted by chunk id *)
Lemma abut_lt_all f fs : Forall clean_file (f :: fs) -> abut (f :: fs) ->
  Forall (fun g => (f_id f < f_id g)%N) fs.
Proof.
  revert f. induction fs as [|g fs IH]; intros f HF HA; [constructor|].
  inversion HF as [|? ? Hf HF']; subst.
  destruct HA as [E HA'].
  pose proof (clean_file_lt f Hf) as L.
  constructor; [lia|].
  specialize (IH g HF' HA').
  eapply Forall_impl; [|exact IH]. cbn beta. intros h Hh. lia.
Qed.

Theorem clean_files_sorted fs : clean_files fs ->
  StronglySorted (fun f g => (f_id f < f_id g)%N) fs.
Proof.
  intros [HF HA]. induction fs as [|f fs IH]; [constructor|].
  constructor.
  - apply IH; [now inversion HF|exact (proj2 HA)].
  - now apply abut_lt_all.
Qed.

Lemma clean_file_scans_end f : clean_file f -> scans_end f.
Proof.
  intros [rs [_ [W E]]]. unfold scans_end. rewrite E, scan_encs by assumption. reflexivity.
Qed.

Lemma chunk_open_encs cfg id rs : Forall wf_record rs ->
  chunk_open cfg id (encs rs) =
  inl (mkOC (mkChunk id (ends_from id (map rec_size rs))) rs false (encs rs)).
Proof.
  intros W. unfold chunk_open. rewrite scan_encs by assumption.
  rewrite sized_fst, sized_snd. reflexivity.
Qed.

Lemma chunk_open_clean cfg f : clean_file f ->
  exists oc, chunk_open cfg (f_id f) (f_data f) = inl oc /\ oc_truncated oc = false /\
             ck_ends (oc_chunk oc) <> [] /\ ck_end (oc_chunk oc) = file_end f.
Proof.
  intros [rs [Hne [W E]]]. rewrite E, chunk_open_encs by assumption.
  eexists. split; [reflexivity|]. cbn [oc_truncated oc_chunk ck_ends]. split; [reflexivity|].
  split.
  - destruct rs as [|r rs]; [congruence|]. discriminate.
  - unfold ck_end, file_end. cbn [ck_ends ck_id]. rewrite ends_from_last, E.
    destruct rs; [congruence|reflexivity].
Qed.

Lemma open_loop_cons_clean cfg f rest a : clean_file f ->
  open_loop cfg (f :: rest) a = open_bind (open_one cfg f a) (open_loop cfg rest).
Proof.
  intros H. destruct (chunk_open_clean cfg f H) as [oc [Hc [_ [Hne _]]]].
  exact (open_loop_cons_ends cfg f rest a oc Hc Hne).
Qed.

Lemma open_one_clean_prev_end cfg f a a' : clean_file f ->
  open_one cfg f a = inl a' -> oa_prev_end a' = Some (file_end f).
Proof.
  intros H. destruct (chunk_open_clean cfg f H) as [oc [Hc [_ [_ He]]]].
  unfold open_one.
  destruct (match oa_prev_end a with Some p => negb (N.eqb p (f_id f)) | None => false end);
    [discriminate|].
  rewrite Hc.
  destruct (replay _ _ _ _ _) as [s1 [e|]]; [discriminate|].
  intros E. injection E as E. subst a'. cbn [oa_prev_end]. now rewrite He.
Qed.

Lemma open_loop_app_clean cfg fs gs : Forall clean_file fs -> forall a,
  open_loop cfg (fs ++ gs) a = open_bind (open_loop cfg fs a) (open_loop cfg gs).
Proof.
  induction fs as [|f fs IH]; intros HF a; [reflexivity|].
  inversion HF as [|? ? Hf HF']; subst.
  cbn [app]. rewrite !open_loop_cons_clean by assumption.
  destruct (open_one cfg f a) as [a'|e]; cbn [open_bind]; [|reflexivity].
  exact (IH HF' a').
Qed.

Lemma open_loop_send_disk cfg fs : Forall clean_file fs -> forall a,
  match open_loop cfg fs a with
  | inl a' => oa_disk a' = oa_disk a
  | inr (e, d) => d = oa_disk a
  end.
Proof.
  induction fs as [|f fs IH]; intros HF a; [reflexivity|].
  inversion HF as [|? ? Hf HF']; subst.
  rewrite open_loop_cons_clean by assumption.
  pose proof (open_one_send_disk cfg f a (clean_file_scans_end f Hf)) as Hd.
  destruct (open_one cfg f a) as [a'|[e d]]; cbn [open_bind]; [|exact Hd].
  specialize (IH HF' a').
  destruct (open_loop cfg fs a') as [a''|[e d]]; congruence.
Qed.

Lemma open_loop_clean_prev_end cfg fs l a a' : Forall clean_file fs -> clean_file l ->
  open_loop cfg (fs ++ [l]) a = inl a' -> oa_prev_end a' = Some (file_end l).
Proof.
  intros HF Hl. rewrite open_loop_app_clean by assumption.
  destruct (open_loop cfg fs a) as [a1|e]; cbn [open_bind]; [|discriminate].
  rewrite open_loop_cons_clean by assumption.
  destruct (open_one cfg l a1) as [a2|e] eqn:E1; cbn [open_bind open_loop]; [|discriminate].
  intros E. injection E as E. subst a2.
  exact (open_one_clean_prev_end cfg l a1 a' Hl E1).
Qed.

(* the accumulator with another directory image *)
Definition oa_with_disk (a : open_acc) (d : disk) : open_acc :=
  mkOA (oa_sm a) (oa_closed a) (oa_prev_end a) (oa_last a) d.

Definition res_with_disk (x : open_acc + (err * disk)) (d : disk) : open_acc + (err * disk) :=
  match x with inl a => inl (oa_with_disk a d) | inr (e, _) => inr (e, d) end.

Lemma open_one_with_disk cfg f a d : scans_end f ->
  open_one cfg f (oa_with_disk a d) = res_with_disk (open_one cfg f a) d.
Proof.
  intros H. destruct (chunk_open_send cfg (f_id f) (f_data f) H) as [oc [Hc Ht]].
  unfold open_one, oa_with_disk.
  cbn [oa_sm oa_closed oa_prev_end oa_last oa_disk].
  destruct (match oa_prev_end a with Some p => negb (N.eqb p (f_id f)) | None => false end);
    [reflexivity|].
  rewrite Hc, Ht.
  destruct (replay _ _ _ _ _) as [s1 [e|]]; reflexivity.
Qed.

(* without truncation the directory image is only threaded through *)
Lemma open_loop_with_disk cfg fs d : Forall clean_file fs -> forall a,
  open_loop cfg fs (oa_with_disk a d) = res_with_disk (open_loop cfg fs a) d.
Proof.
  induction fs as [|f fs IH]; intros HF a; [reflexivity|].
  inversion HF as [|? ? Hf HF']; subst.
  rewrite !open_loop_cons_clean by assumption.
  rewrite open_one_with_disk by now apply clean_file_scans_end.
  destruct (open_one cfg f a) as [a'|[e d0]]; cbn [open_bind res_with_disk]; [|reflexivity].
  exact (IH HF' a').
Qed.

Definition acc0 (cfg : config) (d : disk) : open_acc := mkOA (sm_new cfg) [] None None d.

Lemma open_dir_err cfg d e d' :
  open_loop cfg d (acc0 cfg d) = inr (e, d') -> open_dir cfg d = OpenErr e d'.
Proof. intros H. unfold open_dir. fold (acc0 cfg d). now rewrite H. Qed.

Lemma mm_pre_clean pre f post : clean_files (pre ++ f :: post) -> Forall clean_file pre.
Proof. intros [HF _]. apply Forall_app in HF. tauto. Qed.

(* after the chunks before the missing one, the next chunk does not start
   where the previous one ended *)
Lemma mm_gap_after_pre cfg pre f post a :
  clean_files (pre ++ f :: post) -> pre <> [] -> post <> [] ->
  open_loop cfg pre (acc0 cfg (pre ++ post)) = inl a ->
  open_loop cfg post a = inr (EGap, pre ++ post).
Proof.
  intros Hclean Hpre Hpost Ha.
  pose proof (mm_pre_clean _ _ _ Hclean) as HFpre.
  destruct Hclean as [HF HA].
  destruct (exists_last Hpre) as [pre' [l El]].
  destruct post as [|g post']; [congruence|].
  assert (Hf : clean_file f).
  { apply Forall_app in HF. destruct HF as [_ HF]. now inversion HF. }
  assert (E2 : f_id g = file_end f).
  { exact (abut_mid _ _ _ _ HA). }
  pose proof (open_loop_send_disk cfg pre HFpre (acc0 cfg (pre ++ g :: post'))) as Hd.
  rewrite Ha in Hd. cbn [acc0 oa_disk] in Hd.
  subst pre.
  assert (E1 : f_id f = file_end l).
  { rewrite <- app_assoc in HA. cbn [app] in HA. exact (abut_mid _ _ _ _ HA). }
  assert (Hp : oa_prev_end a = Some (file_end l)).
  { apply Forall_app in HFpre. destruct HFpre as [H1 H2].
    pose proof (Forall_inv H2) as Hl.
    exact (open_loop_clean_prev_end cfg pre' l _ a H1 Hl Ha). }
  rewrite (open_loop_gap cfg g post' a (file_end l) Hp), Hd; [reflexivity|].
  pose proof (clean_file_lt f Hf). lia.
Qed.

(* C09, missing middle chunk: if the chunks before the missing one replay
   without error, the open fails with the gap error; nothing is modified *)
Theorem C09_middle_missing : forall cfg pre f post a,
  clean_files (pre ++ f :: post) -> pre <> [] -> post <> [] ->
  open_loop cfg pre (acc0 cfg (pre ++ post)) = inl a ->
  open_dir cfg (pre ++ post) = OpenErr EGap (pre ++ post).
Proof.
  intros cfg pre f post a Hclean Hpre Hpost Ha. apply open_dir_err.
  rewrite (open_loop_app_clean cfg pre post (mm_pre_clean _ _ _ Hclean)), Ha. cbn [open_bind].
  exact (mm_gap_after_pre cfg pre f post a Hclean Hpre Hpost Ha).
Qed.

(* whatever happens in the earlier chunks, the open is refused and nothing is modified *)
Theorem C09_middle_missing_refused : forall cfg pre f post,
  clean_files (pre ++ f :: post) -> pre <> [] -> post <> [] ->
  exists e, open_dir cfg (pre ++ post) = OpenErr e (pre ++ post).
Proof.
  intros cfg pre f post Hclean Hpre Hpost.
  pose proof (mm_pre_clean _ _ _ Hclean) as HFpre.
  destruct (open_loop cfg pre (acc0 cfg (pre ++ post))) as [a|[e d]] eqn:Ha.
  - exists EGap. exact (C09_middle_missing cfg pre f post a Hclean Hpre Hpost Ha).
  - exists e. apply open_dir_err.
    rewrite (open_loop_app_clean cfg pre post HFpre), Ha. cbn [open_bind].
    pose proof (open_loop_send_disk cfg pre HFpre (acc0 cfg (pre ++ post))) as Hd.
    rewrite Ha in Hd. cbn [acc0 oa_disk] in Hd. now rewrite Hd.
Qed.

(* if the complete image opened, the image without the middle chunk is
   refused with the gap error *)
Theorem C09_middle_missing_of_open : forall cfg pre f post y,
  clean_files (pre ++ f :: post) -> pre <> [] -> post <> [] ->
  open_dir cfg (pre ++ f :: post) = OpenOk y ->
  open_dir cfg (pre ++ post) = OpenErr EGap (pre ++ post).
Proof.
  intros cfg pre f post y Hclean Hpre Hpost Hy.
  pose proof (mm_pre_clean _ _ _ Hclean) as HFpre.
  unfold open_dir in Hy. fold (acc0 cfg (pre ++ f :: post)) in Hy.
  rewrite (open_loop_app_clean cfg pre (f :: post) HFpre) in Hy.
  destruct (open_loop cfg pre (acc0 cfg (pre ++ f :: post))) as [a|[e d]] eqn:Ha;
    cbn [open_bind] in Hy; [|discriminate Hy].
  pose proof (open_loop_with_disk cfg pre (pre ++ post) HFpre (acc0 cfg (pre ++ f :: post))) as Hw.
  rewrite Ha in Hw. cbn [res_with_disk] in Hw.
  exact (C09_middle_missing cfg pre f post _ Hclean Hpre Hpost Hw).
Qed.

(* ---- Part A and Part B together: a rejected record in a clean chunk ---- *)
Theorem C09_open_refuses_record : forall cfg pre id synced post rs x,
  Forall scans_end pre -> Forall wf_record rs ->
  dec_record x = DInvalid -> all_zero x = false ->
  exists e, open_dir cfg (pre ++ mkFile id (encs rs ++ x) synced :: post)
            = OpenErr e (pre ++ mkFile id (encs rs ++ x) synced :: post).
Proof.
  intros cfg pre id synced post rs x Hpre W D Hz.
  apply (C09_open_refuses_gen cfg pre (mkFile id (encs rs ++ x) synced) post (sized rs) x Hpre);
    [|now rewrite Hz].
  cbn [f_data]. apply scan_file_encs_invalid; try assumption.
  intros E. subst x. discriminate Hz.
Qed.

(* ================================================================== *)
(* Part B.4: the hypotheses are satisfiable; the first chunk is special *)
(* ================================================================== *)
Module Witness.
Local Open Scope N_scope.
Definition cfg := mkConfig 10 1000 2 1000 true.
Definition rs0 := [RState rstate0; RVote (1,1)].
Definition rs1 := [RState (mkRState (Some (1,1)) None None None None); RAppend (1,0) [x61]].
Definition rs2 := [RState (mkRState (Some (1,1)) (Some (1,0)) None None None); RCommit (1,0)].
Definition f0 := mkFile 0 (encs rs0) 0.
Definition f1 := mkFile (file_end f0) (encs rs1) 0.
Definition f2 := mkFile (file_end f1) (encs rs2) 0.
Definition is_ok (r : open_res) : bool := match r with OpenOk _ => true | OpenErr _ _ => false end.

Lemma wf_small a c : (a < 100 -> c < 100 -> wf_pair (a, c))%N.
Proof. unfold wf_pair, wf_u64. cbn [fst snd]. assert (100 < 2 ^ 64)%N by reflexivity. lia. Qed.

Lemma clean_image : clean_files ([f0] ++ f1 :: [f2]).
Proof.
  split.
  - repeat constructor.
    + exists rs0. split; [discriminate|]. split; [|reflexivity].
      repeat constructor; cbn; auto using wf_small; apply wf_small; lia.
    + exists rs1. split; [discriminate|]. split; [|reflexivity].
      repeat constructor; cbn; auto; try (apply wf_small; lia).
    + exists rs2. split; [discriminate|]. split; [|reflexivity].
      repeat constructor; cbn; auto; try (apply wf_small; lia).
  - cbn. auto.
Qed.

Lemma complete_opens : is_ok (open_dir cfg ([f0] ++ f1 :: [f2])) = true.
Proof. vm_compute. reflexivity. Qed.

(* the theorem applies: removing the middle chunk gives the gap error *)
Lemma middle_missing_refused : open_dir cfg [f0; f2] = OpenErr EGap [f0; f2].
Proof.
  pose proof complete_opens as H.
  destruct (open_dir cfg ([f0] ++ f1 :: [f2])) as [y|e d] eqn:E; [|discriminate H].
  exact (C09_middle_missing_of_open cfg [f0] f1 [f2] y clean_image
           ltac:(discriminate) ltac:(discriminate) E).
Qed.

(* [pre <> []] is necessary: a missing FIRST chunk is not detected (it looks
   like a purged chunk), the open succeeds on the remaining chunks *)
Lemma first_missing_not_detected : is_ok (open_dir cfg [f1; f2]) = true.
Proof. vm_compute. reflexivity. Qed.
End Witness.

Print Assumptions C09_single_byte_same_length.
Print Assumptions C09_single_byte_outcomes.
Print Assumptions C09_checksum_field.
Print Assumptions C09_fixed_fields.
Print Assumptions C09_append_fixed_fields.
Print Assumptions C09_open_refuses_chunk.
Print Assumptions C09_open_refuses.
Print Assumptions C09_open_refuses_record.
Print Assumptions clean_files_sorted.
Print Assumptions C09_middle_missing.
Print Assumptions C09_middle_missing_refused.
Print Assumptions C09_middle_missing_of_open.
Print Assumptions Witness.middle_missing_refused.
