(* C09, decidable core: corruption is reported.

   Part A (record level): what dec_record does with an encoded record in which
   exactly one byte has been altered.
   Part B (directory level): what open_dir does with a chunk that contains a
   damaged record, and with a journal whose middle chunk is missing. *)
From Coq Require Import List NArith Lia Bool Arith.
From Coq.Strings Require Import Byte.
From RaftLog Require Import Base.Bytes Base.Crc32 Model.Types Model.Codec Model.Cache
  Model.Core Model.Recover.
From RaftLog Require Proofs.Crc32Facts.
From RaftLog Require Import Proofs.CodecFacts.
Import ListNotations.

(* ================================================================== *)
(* Part A.0: list splitting                                            *)
(* ================================================================== *)
Section Lists.
Context {A : Type}.

Lemma app_eq_len (x x' y y' : list A) :
  x ++ y = x' ++ y' -> length x = length x' -> x = x' /\ y = y'.
Proof.
  revert x'. induction x as [|a x IH]; intros [|a' x'] E L; cbn [length] in L; try discriminate L.
  - auto.
  - cbn [app] in E. injection E as E1 E2. subst a'.
    destruct (IH x' E2) as [H1 H2]; [lia|]. subst. auto.
Qed.

Lemma app_split_le (x y p q : list A) :
  x ++ y = p ++ q -> length x <= length p -> exists m, p = x ++ m /\ y = m ++ q.
Proof.
  revert p. induction x as [|a x IH]; intros p E L.
  - exists p. auto.
  - destruct p as [|c p]; cbn [length] in L; [lia|].
    cbn [app] in E. injection E as E1 E2. subst c.
    destruct (IH p E2) as [m [H1 H2]]; [lia|]. exists m. subst. auto.
Qed.

Lemma app_split_lt (x y p q : list A) (b : A) :
  x ++ y = p ++ b :: q -> length p < length x -> exists s, x = p ++ b :: s /\ q = s ++ y.
Proof.
  revert x. induction p as [|c p IH]; intros x E L.
  - destruct x as [|a x]; cbn [length] in L; [lia|].
    cbn [app] in E. injection E as E1 E2. subst a. exists x. auto.
  - destruct x as [|a x]; cbn [length] in L; [lia|].
    cbn [app] in E. injection E as E1 E2. subst a.
    destruct (IH x E2) as [s [H1 H2]]; [lia|]. exists s. subst. auto.
Qed.

(* the altered position lies inside the field F of A ++ F ++ B *)
Lemma split_mid (X F B pre suf : list A) (b : A) :
  X ++ F ++ B = pre ++ b :: suf ->
  length X <= length pre < length X + length F ->
  exists m s, pre = X ++ m /\ F = m ++ b :: s /\ suf = s ++ B.
Proof.
  intros E [L1 L2].
  destruct (app_split_le _ _ _ _ E L1) as [m [H1 H2]].
  assert (L3 : length m < length F).
  { subst pre. rewrite app_length in L2. lia. }
  destruct (app_split_lt _ _ _ _ _ H2 L3) as [s [H3 H4]].
  exists m, s. auto.
Qed.

Lemma mid_length (m s : list A) (b b' : A) : length (m ++ b' :: s) = length (m ++ b :: s).
Proof. rewrite !app_length. reflexivity. Qed.

Lemma mid_inj (m s : list A) (b b' : A) : m ++ b :: s = m ++ b' :: s -> b = b'.
Proof. intros E. apply app_inv_head in E. now injection E. Qed.

End Lists.

(* ================================================================== *)
(* Part A.1: fixed-width fields                                        *)
(* ================================================================== *)

Lemma be_enc_inj k a b :
  (a < 256 ^ N.of_nat k)%N -> (b < 256 ^ N.of_nat k)%N -> be_enc k a = be_enc k b -> a = b.
Proof.
  intros Ha Hb E. apply (f_equal be_dec) in E.
  rewrite !be_dec_enc, !N.mod_small in E by assumption. exact E.
Qed.

Lemma enc_u64_inj a b : wf_u64 a -> wf_u64 b -> enc_u64 a = enc_u64 b -> a = b.
Proof.
  unfold wf_u64, enc_u64. rewrite <- pow256_8. apply be_enc_inj.
Qed.

(* any k bytes are the encoding of a k-byte number *)
Lemma be_enc_of_bytes k (x : bytes) :
  length x = k -> (be_dec x < 256 ^ N.of_nat k)%N /\ be_enc k (be_dec x) = x.
Proof.
  intros L. subst k. split; [apply be_dec_lt|apply be_enc_dec].
Qed.

Lemma u64_field_alter v m b s b' :
  enc_u64 v = m ++ b :: s -> exists v', wf_u64 v' /\ enc_u64 v' = m ++ b' :: s.
Proof.
  intros E. exists (be_dec (m ++ b' :: s)).
  assert (L : length (m ++ b' :: s) = 8).
  { rewrite (mid_length m s b b'), <- E. apply enc_u64_length. }
  destruct (be_enc_of_bytes 8 _ L) as [H1 H2].
  unfold wf_u64, enc_u64. rewrite <- pow256_8. auto.
Qed.

Lemma p_u64_bytes (x t : bytes) : length x = 8 -> p_u64 (x ++ t) = DOk (be_dec x, t).
Proof.
  intros L. destruct (be_enc_of_bytes 8 x L) as [H1 H2].
  rewrite <- H2 at 1. apply (g_rt _ _ _ Good_u64). unfold wf_u64. now rewrite <- pow256_8.
Qed.

(* ================================================================== *)
(* Part A.2: one altered byte                                          *)
(* ================================================================== *)

(* the altered position lies in the body: body and checksum split accordingly *)
Lemma alter_in_body r pre b suf :
  enc_record r = pre ++ b :: suf -> length pre < length (enc_body r) ->
  exists s, enc_body r = pre ++ b :: s /\ suf = s ++ enc_u64 (crc32 (enc_body r)).
Proof.
  intros E L. rewrite enc_record_eq in E. exact (app_split_lt _ _ _ _ _ E L).
Qed.

(* the altered position lies in the checksum *)
Lemma alter_in_crc r pre b suf :
  enc_record r = pre ++ b :: suf -> length (enc_body r) <= length pre ->
  exists m, pre = enc_body r ++ m /\ enc_u64 (crc32 (enc_body r)) = m ++ b :: suf.
Proof.
  intros E L. rewrite enc_record_eq in E. exact (app_split_le _ _ _ _ E L).
Qed.

Theorem C09_single_byte_same_length : forall r t pre b suf b' r' t',
  wf_record r -> enc_record r = pre ++ b :: suf -> b <> b' ->
  dec_record (pre ++ b' :: suf ++ t) = DOk (r', t') ->
  length (enc_record r') <> length (enc_record r).
Proof.
  intros r t pre b suf b' r' t' Hwf He Hb Hd Hlen.
  apply dec_record_canonical in Hd as [Hwf' E].
  assert (L : length (pre ++ b' :: suf) = length (enc_record r')).
  { rewrite Hlen, He. apply mid_length. }
  change (pre ++ b' :: suf ++ t) with (pre ++ (b' :: suf) ++ t) in E.
  rewrite app_assoc in E.
  destruct (app_eq_len _ _ _ _ E L) as [E1 _]. symmetry in E1.
  assert (Lb : length (enc_body r') = length (enc_body r)).
  { rewrite !enc_body_len in Hlen. lia. }
  destruct (le_lt_dec (length (enc_body r)) (length pre)) as [Hc|Hc].
  - (* checksum byte: the bodies are the same *)
    destruct (alter_in_crc _ _ _ _ He Hc) as [m [P1 P2]].
    assert (Hc' : length (enc_body r') <= length pre) by lia.
    destruct (alter_in_crc _ _ _ _ E1 Hc') as [m' [P1' P2']].
    rewrite P1 in P1'.
    destruct (app_eq_len _ _ _ _ P1' (eq_sym Lb)) as [B1 B2].
    rewrite <- B1, <- B2, P2 in P2'. apply Hb. exact (mid_inj _ _ _ _ P2').
  - (* body byte: the checksums are the same *)
    destruct (alter_in_body _ _ _ _ He Hc) as [s [P1 P2]].
    assert (Hc' : length pre < length (enc_body r')) by lia.
    destruct (alter_in_body _ _ _ _ E1 Hc') as [s' [P1' P2']].
    rewrite P2 in P2'.
    assert (Ls : length s = length s').
    { apply (f_equal (@length _)) in P2'. rewrite !app_length, !enc_u64_length in P2'. lia. }
    destruct (app_eq_len _ _ _ _ P2' Ls) as [S1 S2]. subst s'.
    apply enc_u64_inj in S2; [|apply crc32_wf_u64|apply crc32_wf_u64].
    rewrite P1, P1' in S2.
    exact (Crc32Facts.crc32_single_byte pre s b b' Hb S2).
Qed.

(* the honest residual: for any position, the altered record is rejected, or
   looks incomplete, or (checksum coincidence on another parse shape) decodes
   to a record of a different length *)
Theorem C09_single_byte_outcomes : forall r t pre b suf b',
  wf_record r -> enc_record r = pre ++ b :: suf -> b <> b' ->
  dec_record (pre ++ b' :: suf ++ t) = DInvalid \/
  dec_record (pre ++ b' :: suf ++ t) = DEof \/
  exists r' t', dec_record (pre ++ b' :: suf ++ t) = DOk (r', t') /\
                wf_record r' /\
                pre ++ b' :: suf ++ t = enc_record r' ++ t' /\
                length (enc_record r') <> length (enc_record r).
Proof.
  intros r t pre b suf b' Hwf He Hb.
  destruct (dec_record (pre ++ b' :: suf ++ t)) as [[r' t']| |] eqn:D; auto.
  right. right. exists r', t'. split; [reflexivity|].
  destruct (dec_record_canonical _ _ _ D) as [W C].
  split; [exact W|]. split; [exact C|].
  exact (C09_single_byte_same_length _ _ _ _ _ _ _ _ Hwf He Hb D).
Qed.

(* never accepted as the same record, nor as any record of that length; in
   particular the decoder never returns the original record *)
Corollary C09_single_byte_not_same : forall r t pre b suf b' t',
  wf_record r -> enc_record r = pre ++ b :: suf -> b <> b' ->
  dec_record (pre ++ b' :: suf ++ t) <> DOk (r, t').
Proof.
  intros r t pre b suf b' t' Hwf He Hb D.
  exact (C09_single_byte_same_length _ _ _ _ _ _ _ _ Hwf He Hb D eq_refl).
Qed.

(* ---- the checksum field ---- *)
Theorem C09_checksum_field : forall r t pre b suf b',
  wf_record r -> enc_record r = pre ++ b :: suf -> b <> b' ->
  length (enc_body r) <= length pre ->
  dec_record (pre ++ b' :: suf ++ t) = DInvalid.
Proof.
  intros r t pre b suf b' Hwf He Hb Hc.
  destruct (alter_in_crc _ _ _ _ He Hc) as [m [P1 P2]].
  assert (L : length (m ++ b' :: suf) = 8).
  { rewrite (mid_length m suf b b'), <- P2. apply enc_u64_length. }
  subst pre.
  replace ((enc_body r ++ m) ++ b' :: suf ++ t) with (enc_body r ++ (m ++ b' :: suf) ++ t)
    by (rewrite <- !app_assoc; reflexivity).
  rewrite dec_record_eq, (g_rt _ _ _ Good_p_body) by assumption.
  rewrite firstn_consumed, (p_u64_bytes _ _ L).
  destruct (N.eqb_spec (be_dec (m ++ b' :: suf)) (crc32 (enc_body r))) as [Ec|Ec]; [|reflexivity].
  exfalso. apply Hb.
  destruct (be_enc_of_bytes 8 _ L) as [_ H2]. rewrite Ec in H2.
  change (be_enc 8) with enc_u64 in H2. rewrite P2 in H2.
  exact (mid_inj _ _ _ _ H2).
Qed.

(* ---- body bytes whose alteration yields the body of another record ---- *)
Lemma altered_body_invalid r r2 pre b b' s t :
  wf_record r2 -> enc_body r = pre ++ b :: s -> enc_body r2 = pre ++ b' :: s -> b <> b' ->
  dec_record (enc_body r2 ++ enc_u64 (crc32 (enc_body r)) ++ t) = DInvalid.
Proof.
  intros W2 E E2 Hb.
  rewrite dec_record_eq, (g_rt _ _ _ Good_p_body) by assumption.
  rewrite firstn_consumed, (g_rt _ _ _ Good_u64) by apply crc32_wf_u64.
  destruct (N.eqb_spec (crc32 (enc_body r)) (crc32 (enc_body r2))) as [Ec|Ec]; [|reflexivity].
  exfalso. rewrite E, E2 in Ec.
  exact (Crc32Facts.crc32_single_byte pre s b b' Hb Ec).
Qed.

(* [reencodes r pre b' s]: the altered body is the body of a well-formed record *)
Lemma C09_reencodable_body : forall r t pre b suf b',
  enc_record r = pre ++ b :: suf -> b <> b' -> length pre < length (enc_body r) ->
  (forall s, enc_body r = pre ++ b :: s ->
             exists r2, wf_record r2 /\ enc_body r2 = pre ++ b' :: s) ->
  dec_record (pre ++ b' :: suf ++ t) = DInvalid.
Proof.
  intros r t pre b suf b' He Hb Hc Hre.
  destruct (alter_in_body _ _ _ _ He Hc) as [s [P1 P2]].
  destruct (Hre s P1) as [r2 [W2 E2]].
  subst suf.
  replace (pre ++ b' :: (s ++ enc_u64 (crc32 (enc_body r))) ++ t)
    with ((pre ++ b' :: s) ++ enc_u64 (crc32 (enc_body r)) ++ t)
    by (rewrite <- !app_assoc; reflexivity).
  rewrite <- E2. exact (altered_body_invalid r r2 pre b b' s t W2 P1 E2 Hb).
Qed.

(* the two u64 after the tag (positions 4..19): vote / log id *)
Lemma alter_pair_bytes tag a c rest pre b b' s :
  wf_u64 a -> wf_u64 c ->
  enc_u32 tag ++ enc_u64 a ++ enc_u64 c ++ rest = pre ++ b :: s ->
  4 <= length pre < 20 ->
  exists a' c', wf_u64 a' /\ wf_u64 c' /\
    enc_u32 tag ++ enc_u64 a' ++ enc_u64 c' ++ rest = pre ++ b' :: s.
Proof.
  intros Wa Wc E L.
  destruct (le_lt_dec 12 (length pre)) as [H|H].
  - (* second number *)
    rewrite !app_assoc in E. rewrite <- (app_assoc _ (enc_u64 c) rest) in E.
    destruct (split_mid (enc_u32 tag ++ enc_u64 a) (enc_u64 c) rest pre s b E) as [m [s0 [P1 [P2 P3]]]].
    { rewrite app_length, enc_u32_length, !enc_u64_length. lia. }
    destruct (u64_field_alter c m b s0 b' P2) as [c' [Wc' Ec']].
    exists a, c'. split; [assumption|]. split; [assumption|].
    subst pre s. rewrite Ec'. rewrite <- !app_assoc. reflexivity.
  - (* first number *)
    destruct (split_mid (enc_u32 tag) (enc_u64 a) (enc_u64 c ++ rest) pre s b E) as [m [s0 [P1 [P2 P3]]]].
    { rewrite enc_u32_length, enc_u64_length. lia. }
    destruct (u64_field_alter a m b s0 b' P2) as [a' [Wa' Ea']].
    exists a', c. split; [assumption|]. split; [assumption|].
    subst pre s. rewrite Ea'. rewrite <- !app_assoc. reflexivity.
Qed.

Definition pair_record (r : record) : Prop :=
  match r with RVote _ | RCommit _ | RPurge _ => True | _ => False end.

Lemma enc_body_pair_record r : pair_record r ->
  exists a c, wf_record r = (wf_u64 a /\ wf_u64 c) /\
    enc_body r = enc_u32 (rec_tag r) ++ enc_u64 a ++ enc_u64 c ++ [] /\
    forall a' c', wf_u64 a' -> wf_u64 c' ->
      exists r2, wf_record r2 /\
        enc_body r2 = enc_u32 (rec_tag r) ++ enc_u64 a' ++ enc_u64 c' ++ [].
Proof.
  intros P. destruct r as [v|id p|id|o|id|st]; try destruct P.
  - exists (fst v), (snd v). split; [reflexivity|]. split.
    + unfold enc_body, enc_payload, enc_pair. now rewrite app_nil_r.
    + intros a' c' Wa Wc. exists (RVote (a', c')). split; [split; assumption|].
      unfold enc_body, enc_payload, enc_pair. cbn [fst snd rec_tag]. now rewrite app_nil_r.
  - exists (fst id), (snd id). split; [reflexivity|]. split.
    + unfold enc_body, enc_payload, enc_pair. now rewrite app_nil_r.
    + intros a' c' Wa Wc. exists (RCommit (a', c')). split; [split; assumption|].
      unfold enc_body, enc_payload, enc_pair. cbn [fst snd rec_tag]. now rewrite app_nil_r.
  - exists (fst id), (snd id). split; [reflexivity|]. split.
    + unfold enc_body, enc_payload, enc_pair. now rewrite app_nil_r.
    + intros a' c' Wa Wc. exists (RPurge (a', c')). split; [split; assumption|].
      unfold enc_body, enc_payload, enc_pair. cbn [fst snd rec_tag]. now rewrite app_nil_r.
Qed.

(* the 16 id / vote bytes of RVote, RCommit, RPurge *)
Theorem C09_fixed_fields : forall r t pre b suf b',
  pair_record r ->
  wf_record r -> enc_record r = pre ++ b :: suf -> b <> b' ->
  4 <= length pre < 20 ->
  dec_record (pre ++ b' :: suf ++ t) = DInvalid.
Proof.
  intros r t pre b suf b' P Hwf He Hb L.
  destruct (enc_body_pair_record r P) as [a [c [W [EB Hmk]]]].
  rewrite W in Hwf. destruct Hwf as [Wa Wc].
  apply (C09_reencodable_body r t pre b suf b' He Hb).
  - rewrite EB, !app_length, enc_u32_length, !enc_u64_length. cbn [length]. lia.
  - intros s Es. rewrite EB in Es.
    destruct (alter_pair_bytes _ _ _ _ _ _ b' _ Wa Wc Es L) as [a' [c' [Wa' [Wc' E']]]].
    destruct (Hmk a' c' Wa' Wc') as [r2 [W2 E2]].
    exists r2. split; [assumption|]. now rewrite E2.
Qed.

Lemma enc_body_append id p :
  enc_body (RAppend id p) =
  enc_u32 1 ++ enc_u64 (fst id) ++ enc_u64 (snd id) ++ enc_u32 (N.of_nat (length p)) ++ p.
Proof.
  unfold enc_body, enc_payload, enc_pair, enc_bytes. cbn [rec_tag].
  rewrite <- !app_assoc. reflexivity.
Qed.

Lemma enc_body_append_length id p : length (enc_body (RAppend id p)) = 24 + length p.
Proof.
  rewrite enc_body_append, !app_length, !enc_u32_length, !enc_u64_length. lia.
Qed.

(* the log id and the payload content of an Append record *)
Theorem C09_append_fixed_fields : forall id p t pre b suf b',
  wf_record (RAppend id p) -> enc_record (RAppend id p) = pre ++ b :: suf -> b <> b' ->
  (4 <= length pre < 20 \/ 24 <= length pre) ->
  dec_record (pre ++ b' :: suf ++ t) = DInvalid.
Proof.
  intros id p t pre b suf b' Hwf He Hb L.
  destruct (le_lt_dec (length (enc_body (RAppend id p))) (length pre)) as [Hc|Hc].
  { exact (C09_checksum_field _ t _ _ _ _ Hwf He Hb Hc). }
  destruct Hwf as [[Wa Wc] Wp].
  apply (C09_reencodable_body _ t pre b suf b' He Hb Hc).
  intros s Es. rewrite enc_body_append in Es.
  destruct L as [L|L].
  - (* log id *)
    destruct (alter_pair_bytes _ _ _ _ _ _ b' _ Wa Wc Es L) as [a' [c' [Wa' [Wc' E']]]].
    exists (RAppend (a', c') p). split; [split; [split; assumption|assumption]|].
    rewrite enc_body_append. exact E'.
  - (* payload content *)
    rewrite enc_body_append_length in Hc.
    rewrite !app_assoc in Es.
    rewrite <- (app_nil_r p) in Es at 2.
    destruct (split_mid _ p [] pre s b Es) as [m [s0 [P1 [P2 P3]]]].
    { rewrite !app_length, !enc_u32_length, !enc_u64_length. lia. }
    exists (RAppend id (m ++ b' :: s0)). split.
    + split; [split; assumption|]. unfold wf_bytes in *.
      rewrite (mid_length m s0 b b'), <- P2. exact Wp.
    + rewrite enc_body_append, (mid_length m s0 b b'), <- P2.
      subst pre s. rewrite app_nil_r, <- !app_assoc. reflexivity.
Qed.

Print Assumptions C09_single_byte_same_length.
Print Assumptions C09_single_byte_outcomes.
Print Assumptions C09_checksum_field.
Print Assumptions C09_fixed_fields.
Print Assumptions C09_append_fixed_fields.
