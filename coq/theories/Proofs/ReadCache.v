(* Property C07, part 1: the payload cache under eviction.

   [CI lg ch sp Q]: the cache [ch] agrees with the reference log [sp] on every entry it
   holds, and every live entry (index map [lg]) is either resident or satisfies [Q]
   ("readable from its chunk file"); every live entry at or below the eviction boundary
   satisfies [Q].  No cache budget: eviction, purge and drain are allowed; they only
   drop entries at or below the boundary.  The one operation that could drop an entry
   without [Q] is the insertion of an id that is not above the boundary: that is the
   hypothesis of [CI_append] (finding F2). *)
From Coq Require Import List NArith Bool Lia Sorted.
From RaftLog Require Import Base.Bytes Base.Crc32 Model.Types Model.Codec Model.Cache Model.Core
  Model.Recover Model.Run Spec.Spec Spec.Hist.
From RaftLog Require Proofs.CacheFacts.
From RaftLog Require Import Proofs.JournalDisk Proofs.JournalChunk Proofs.PurgeFacts.
From RaftLog Require Import Proofs.OrderFacts Proofs.SmFacts Proofs.Refine Proofs.PurgeLive.
Import ListNotations.
Local Open Scope N_scope.

Record CI (lg : logmap) (ch : cache) (sp : spec) (Q : logdata -> Prop) : Prop := mkCI {
  ci_sorted : StronglySorted clt (ch_entries ch);
  ci_le : forall e, In e (ch_entries ch) -> opair_cmp (Some (fst e)) (sp_last sp) <> Gt;
  ci_val : forall id p p', In (id, p) (sp_entries sp) -> In (id, p') (ch_entries ch) -> p' = p;
  ci_res : forall i ld p, In (i, ld) lg -> In (ld_id ld, p) (sp_entries sp) ->
     In (ld_id ld, p) (ch_entries ch) \/ Q ld;
  ci_ev : forall i ld p, In (i, ld) lg -> In (ld_id ld, p) (sp_entries sp) ->
     opair_leb (Some (ld_id ld)) (ch_evictable ch) = true -> Q ld }.

(* ------------------------------------------------------------------ sorted association lists *)
Lemma ent_get_clt_in : forall es k v, StronglySorted clt es -> In (k, v) es -> ent_get k es = Some v.
Proof.
  intros es k v. induction es as [|[k' v'] r IH]; intros S Hin; [destruct Hin|].
  apply StronglySorted_inv in S. destruct S as [S F]. rewrite Forall_forall in F.
  cbn [ent_get]. destruct Hin as [Hin|Hin].
  - inversion Hin. subst. rewrite pair_eqb_refl. reflexivity.
  - destruct (pair_eqb k k') eqn:E.
    + apply pair_eqb_eq in E. subst k'. specialize (F _ Hin). unfold clt in F. cbn [fst] in F.
      rewrite pair_cmp_refl in F. discriminate F.
    + apply IH; assumption.
Qed.

Lemma ent_get_some_in : forall es k v, ent_get k es = Some v -> In (k, v) es.
Proof.
  intros es k v. induction es as [|[k' v'] r IH]; intros H; cbn [ent_get] in H; [discriminate|].
  destruct (pair_eqb k k') eqn:E.
  - apply pair_eqb_eq in E. subst k'. inversion H. subst. left. reflexivity.
  - right. apply IH. exact H.
Qed.

(* ------------------------------------------------------------------ generic preservation *)
Lemma CI_sub : forall lg ch sp Q lg' ch' sp',
  CI lg ch sp Q ->
  incl lg' lg -> incl (sp_entries sp') (sp_entries sp) ->
  StronglySorted clt (ch_entries ch') -> incl (ch_entries ch') (ch_entries ch) ->
  ch_evictable ch' = ch_evictable ch ->
  (forall e, In e (ch_entries ch') -> opair_cmp (Some (fst e)) (sp_last sp') <> Gt) ->
  (forall id p, In (id, p) (sp_entries sp') -> In (id, p) (ch_entries ch) ->
     In (id, p) (ch_entries ch') \/ opair_leb (Some id) (ch_evictable ch) = true) ->
  CI lg' ch' sp' Q.
Proof.
  intros lg ch sp Q lg' ch' sp' [C1 C2 C3 C4 C5] Hlg Hsp Hs Hch Hev Hle Hkeep.
  constructor.
  - exact Hs.
  - exact Hle.
  - intros id p p' Hp Hp'. apply (C3 id p p'); [apply Hsp; exact Hp|apply Hch; exact Hp'].
  - intros i ld p Hl Hp.
    destruct (C4 i ld p (Hlg _ Hl) (Hsp _ Hp)) as [Hin|HQ]; [|right; exact HQ].
    destruct (Hkeep _ _ Hp Hin) as [Hin'|Hb]; [left; exact Hin'|right].
    apply (C5 i ld p (Hlg _ Hl) (Hsp _ Hp) Hb).
  - intros i ld p Hl Hp Hb. rewrite Hev in Hb. apply (C5 i ld p (Hlg _ Hl) (Hsp _ Hp) Hb).
Qed.

Lemma CI_mono : forall lg ch sp (Q Q' : logdata -> Prop),
  CI lg ch sp Q -> (forall i ld, In (i, ld) lg -> Q ld -> Q' ld) -> CI lg ch sp Q'.
Proof.
  intros lg ch sp Q Q' [C1 C2 C3 C4 C5] H. constructor; try assumption.
  - intros i ld p Hl Hp. destruct (C4 i ld p Hl Hp) as [Hin|HQ]; [left; exact Hin|right; eapply H; eassumption].
  - intros i ld p Hl Hp Hb. eapply H; [exact Hl|]. eapply C5; eassumption.
Qed.

(* a change of the scalar spec state *)
Lemma CI_spec_eq : forall lg ch sp sp' Q,
  sp_entries sp' = sp_entries sp -> sp_purged sp' = sp_purged sp -> CI lg ch sp Q -> CI lg ch sp' Q.
Proof.
  intros lg ch sp sp' Q He Hp [C1 C2 C3 C4 C5].
  assert (HL : sp_last sp' = sp_last sp) by (rewrite !sp_last_olast, He, Hp; reflexivity).
  constructor; rewrite ?He, ?HL; assumption.
Qed.

(* a new boundary and a new notion of "readable from disk" (the worker has run) *)
Lemma CI_reboot : forall lg ch sp (Q Q' : logdata -> Prop) ch',
  CI lg ch sp Q -> ch_entries ch' = ch_entries ch ->
  (forall i ld, In (i, ld) lg -> Q ld -> Q' ld) ->
  (forall i ld p, In (i, ld) lg -> In (ld_id ld, p) (sp_entries sp) ->
     opair_leb (Some (ld_id ld)) (ch_evictable ch') = true -> Q' ld) ->
  CI lg ch' sp Q'.
Proof.
  intros lg ch sp Q Q' ch' [C1 C2 C3 C4 C5] He HQ Hev. constructor; rewrite ?He; try assumption.
  - intros i ld p Hl Hp. destruct (C4 i ld p Hl Hp) as [Hin|H]; [left; exact Hin|right; eapply HQ; eassumption].
Qed.

(* ------------------------------------------------------------------ drain *)
Lemma CI_drain : forall lg ch sp Q, CI lg ch sp Q -> CI lg (cache_drain ch) sp Q.
Proof.
  intros lg ch sp Q HC. pose proof HC as [C1 C2 C3 C4 C5].
  destruct (CacheFacts.cache_drain_entries ch) as [pre [E Hpre]].
  assert (Hincl : incl (ch_entries (cache_drain ch)) (ch_entries ch)).
  { intros x Hx. rewrite E. apply in_or_app. right. exact Hx. }
  eapply CI_sub; [exact HC|apply incl_refl|apply incl_refl| |exact Hincl| | |].
  - rewrite E in C1. apply SS_app_inv in C1. apply C1.
  - apply CacheFacts.cache_drain_evictable.
  - intros e He. apply C2. apply Hincl. exact He.
  - intros id p _ Hin. rewrite E in Hin. apply in_app_or in Hin. destruct Hin as [Hin|Hin].
    + right. apply (Hpre _ Hin).
    + left. exact Hin.
Qed.

(* ------------------------------------------------------------------ insertion *)
Lemma CI_insert : forall lg ch sp Q (id : logid) (p : payload) ld0,
  CI lg ch sp Q ->
  opair_cmp (sp_last sp) (Some id) = Lt ->
  (forall e, In e (sp_entries sp) -> fst e <> id) ->
  (forall i ld, In (i, ld) lg -> exists p0, In (ld_id ld, p0) (sp_entries sp)) ->
  ld_id ld0 = id ->
  opair_ltb (ch_evictable ch) (Some id) = true ->
  CI (lm_insert (lid_index id) ld0 lg) (cache_insert ch id p)
     (mkSpec (sp_vote sp) (sp_entries sp ++ [(id, p)]) (sp_committed sp) (sp_purged sp) (sp_user sp)) Q.
Proof.
  intros lg ch sp Q id p ld0 [C1 C2 C3 C4 C5] Hlt Hfresh Hlog Hid Hab.
  assert (F3 : forall e, In e (ch_entries ch) -> pair_cmp (fst e) id = Lt).
  { intros e He. exact (opair_le_lt_trans _ _ _ (C2 e He) Hlt). }
  destruct (CacheFacts.cache_insert_entries ch id p) as [pre [E Hpre]].
  rewrite (ent_insert_end id p _ F3) in E.
  set (es' := ch_entries (cache_insert ch id p)) in *.
  change (ch_entries ch ++ [(id, p)] = pre ++ es') in E.
  assert (Sall : StronglySorted clt (ch_entries ch ++ [(id, p)])).
  { apply SS_app_intro; [exact C1|apply SS_single|].
    intros a x Ha [Hx|[]]. subst x. unfold clt. cbn [fst]. apply F3. exact Ha. }
  assert (Hsub : forall x, In x es' -> In x (ch_entries ch) \/ x = (id, p)).
  { intros x Hx. assert (Hx' : In x (ch_entries ch ++ [(id, p)])) by (rewrite E; apply in_or_app; right; exact Hx).
    apply in_app_or in Hx'. destruct Hx' as [Hx'|[Hx'|[]]]; [left; exact Hx'|right; symmetry; exact Hx']. }
  assert (Hsplit : forall x, In x (ch_entries ch) \/ x = (id, p) ->
            opair_leb (Some (fst x)) (ch_evictable ch) = true \/ In x es').
  { intros x Hx. assert (Hx' : In x (pre ++ es')).
    { rewrite <- E. apply in_or_app. destruct Hx as [Hx|Hx]; [left; exact Hx|right; left; symmetry; exact Hx]. }
    apply in_app_or in Hx'. destruct Hx' as [Hx'|Hx']; [left; apply Hpre; exact Hx'|right; exact Hx']. }
  assert (Hnb : opair_leb (Some id) (ch_evictable ch) = false).
  { rewrite opair_ltb_negb_leb in Hab. apply negb_true_iff in Hab. exact Hab. }
  assert (Hnew : forall p0, In (id, p0) (sp_entries sp ++ [(id, p)]) -> p0 = p).
  { intros p0 Hp0. apply in_app_or in Hp0. destruct Hp0 as [Hp0|[Hp0|[]]].
    - exfalso. apply (Hfresh _ Hp0). reflexivity.
    - inversion Hp0. reflexivity. }
  assert (Hold : forall i ld p0, In (i, ld) lg -> In (ld_id ld, p0) (sp_entries sp ++ [(id, p)]) ->
            In (ld_id ld, p0) (sp_entries sp)).
  { intros i ld p0 Hl Hp0. apply in_app_or in Hp0. destruct Hp0 as [Hp0|[Hp0|[]]]; [exact Hp0|].
    exfalso. inversion Hp0 as [[H1 H2]]. destruct (Hlog _ _ Hl) as [p1 Hp1].
    apply (Hfresh _ Hp1). cbn [fst]. symmetry. exact H1. }
  assert (Hev : ch_evictable (cache_insert ch id p) = ch_evictable ch) by apply CacheFacts.cache_insert_evictable.
  constructor; cbn [sp_entries]; fold es'.
  - rewrite E in Sall. apply SS_app_inv in Sall. apply Sall.
  - rewrite sp_last_olast. cbn [sp_entries]. rewrite olast_snoc. cbn [fst].
    intros e He. destruct (Hsub _ He) as [H|H].
    + cbn [opair_cmp]. rewrite (F3 _ H). discriminate.
    + subst e. cbn [fst opair_cmp]. rewrite pair_cmp_refl. discriminate.
  - intros id0 p0 p' Hp0 Hp'. destruct (Hsub _ Hp') as [H|H].
    + apply (C3 id0 p0 p'); [|exact H].
      apply in_app_or in Hp0. destruct Hp0 as [Hp0|[Hp0|[]]]; [exact Hp0|].
      exfalso. inversion Hp0. subst id0. specialize (F3 _ H). cbn [fst] in F3.
      rewrite pair_cmp_refl in F3. discriminate F3.
    + inversion H. subst id0 p'. symmetry. apply Hnew. exact Hp0.
  - intros i ld p0 Hl Hp0. apply In_lm_insert in Hl. destruct Hl as [Hl|Hl].
    + inversion Hl. subst i ld. rewrite Hid in *. rewrite (Hnew _ Hp0).
      destruct (Hsplit (id, p) (or_intror eq_refl)) as [H|H]; [|left; exact H].
      cbn [fst] in H. rewrite Hnb in H. discriminate H.
    + pose proof (Hold _ _ _ Hl Hp0) as Hp1.
      destruct (C4 i ld p0 Hl Hp1) as [Hin|HQ]; [|right; exact HQ].
      destruct (Hsplit _ (or_introl Hin)) as [H|H]; [right|left; exact H].
      cbn [fst] in H. apply (C5 i ld p0 Hl Hp1 H).
  - rewrite Hev. intros i ld p0 Hl Hp0 Hb. apply In_lm_insert in Hl. destruct Hl as [Hl|Hl].
    + inversion Hl. subst i ld. rewrite Hid in Hb. rewrite Hnb in Hb. discriminate Hb.
    + apply (C5 i ld p0 Hl (Hold _ _ _ Hl Hp0) Hb).
Qed.

(* ------------------------------------------------------------------ facts about the reference log *)
Lemma trunc_facts : forall s sp o, R0 s sp ->
  (o = sp_purged sp \/ exists id p, o = Some id /\ In (id, p) (sp_entries sp)) ->
  let f := fun e : logid * payload => N.ltb (lid_index (fst e)) (next_index o) in
  let sp' := mkSpec (sp_vote sp) (filter f (sp_entries sp)) (sp_committed sp) (sp_purged sp) (sp_user sp) in
  sp_last sp' = o /\
  (forall e, In e (filter f (sp_entries sp)) -> opair_cmp (Some (fst e)) o <> Gt).
Proof.
  intros s sp o HR Ho f sp'. destruct Ho as [Ho|[id [p [Ho Hin]]]].
  - subst o.
    assert (Hnil : filter f (sp_entries sp) = []).
    { apply filter_all_false. intros x Hx. destruct (R0_purged _ _ HR x Hx) as [_ Hi].
      unfold f. apply N.ltb_ge. exact Hi. }
    split.
    + rewrite sp_last_olast. unfold sp'. cbn [sp_entries sp_purged]. rewrite Hnil. reflexivity.
    + rewrite Hnil. intros e [].
  - subst o. split.
    + rewrite sp_last_olast. unfold sp'. cbn [sp_entries sp_purged]. unfold f. cbn [next_index].
      apply (trunc_last _ _ id p (R0_sorted _ _ HR) Hin).
    + intros e He. apply filter_In in He. destruct He as [He1 He2]. unfold f in He2.
      cbn [next_index] in He2. apply N.ltb_lt in He2. cbn [opair_cmp].
      apply (sorted_mono_le _ e (id, p) (R0_sorted _ _ HR) He1 Hin). cbn [fst]. lia.
Qed.

Lemma purge_facts : forall s sp u, R0 s sp ->
  ((exists p, In (u, p) (sp_entries sp)) \/
   (opair_cmp (sp_last sp) (Some u) = Lt /\ forall l, sp_last sp = Some l -> lid_index l < lid_index u)) ->
  let f := fun e : logid * payload => N.ltb (lid_index u) (lid_index (fst e)) in
  let sp' := mkSpec (sp_vote sp) (filter f (sp_entries sp)) (sp_committed sp)
                    (if opair_ltb (sp_purged sp) (Some u) then Some u else sp_purged sp) (sp_user sp) in
  opair_cmp (sp_last sp) (sp_last sp') <> Gt.
Proof.
  intros s sp u HR Ho f sp'.
  set (nl := if opair_ltb (sp_last sp) (Some u) then Some u else sp_last sp).
  assert (P : opair_cmp (sp_purged sp) (Some u) = Lt /\
              olast (filter f (sp_entries sp)) (Some u) = nl /\
              opair_cmp (sp_last sp) nl <> Gt).
  { destruct Ho as [[p Hin]|[Hlt Hidx]].
    - destruct (entry_le_last0 s sp (u, p) HR Hin) as [l [Hl [H1 _]]]. cbn [fst] in H1.
      assert (Hnl : nl = sp_last sp).
      { unfold nl. rewrite Hl.
        assert (E : opair_ltb (Some l) (Some u) = false) by (apply opair_ltb_ge; exact H1).
        rewrite E. reflexivity. }
      split; [apply (R0_purged _ _ HR (u, p) Hin)|]. split.
      + rewrite Hnl, sp_last_olast. apply (purge_last _ _ u p (R0_sorted _ _ HR) Hin).
      + rewrite Hnl. apply opair_eq_le.
    - assert (Hnl : nl = Some u).
      { unfold nl. assert (E : opair_ltb (sp_last sp) (Some u) = true) by (apply opair_ltb_lt; exact Hlt).
        rewrite E. reflexivity. }
      assert (Hnil : filter f (sp_entries sp) = []).
      { apply filter_all_false. intros x Hx.
        destruct (entry_le_last0 s sp x HR Hx) as [l [Hl [_ H2]]]. specialize (Hidx l Hl).
        unfold f. apply N.ltb_ge. lia. }
      split; [|split].
      + destruct (purged_le_last0 s sp HR) as [Q1 _]. eapply opair_le_lt_trans; eassumption.
      + rewrite Hnil, Hnl. reflexivity.
      + rewrite Hnl, Hlt. discriminate. }
  destruct P as [P1 [P2 P4]].
  assert (P1' : opair_ltb (sp_purged sp) (Some u) = true) by (apply opair_ltb_lt; exact P1).
  assert (HL : sp_last sp' = nl).
  { rewrite sp_last_olast. unfold sp'. cbn [sp_entries sp_purged]. rewrite P1'. exact P2. }
  rewrite HL. exact P4.
Qed.

(* ------------------------------------------------------------------ one record *)
Definition sm_log_cache_same (r : record) : Prop :=
  match r with RAppend _ _ | RTrunc _ | RPurge _ => False | _ => True end.

Lemma sm_apply_same : forall s r c seg, sm_log_cache_same r ->
  m_log (fst (sm_apply s r c seg)) = m_log s /\ m_cache (fst (sm_apply s r c seg)) = m_cache s.
Proof.
  intros s r c seg H. unfold sm_apply.
  destruct r as [v|id p|id|o|id|st]; cbn [sm_log_cache_same] in H; try destruct H;
    destruct (rs_apply (m_rs s) _); split; reflexivity.
Qed.

Lemma sm_apply_evictable : forall s r c seg,
  ch_evictable (m_cache (fst (sm_apply s r c seg))) = ch_evictable (m_cache s).
Proof.
  intros s r c seg. unfold sm_apply.
  destruct r as [v|id p|id|o|id|st]; destruct (rs_apply (m_rs s) _); cbn [fst m_cache]; try reflexivity.
  - apply CacheFacts.cache_insert_evictable.
  - apply CacheFacts.cache_insert_evictable.
  - destruct o; [apply CacheFacts.cache_truncate_after_evictable|reflexivity].
  - destruct o; [apply CacheFacts.cache_truncate_after_evictable|reflexivity].
  - apply CacheFacts.cache_purge_upto_evictable.
  - apply CacheFacts.cache_purge_upto_evictable.
Qed.

Definition CIs (s : sm) (sp : spec) (Q : logdata -> Prop) : Prop := CI (m_log s) (m_cache s) sp Q.

Definition step_sim7 (s : sm) (sp : spec) (r : record) (w : swrite) (Q : logdata -> Prop) : Prop :=
  match spec_step sp w with
  | Some sp' => forall c seg, CIs (fst (sm_apply s r c seg)) sp' Q
  | None => True
  end.

Lemma sim7_same : forall s sp r w Q, CIs s sp Q -> sm_log_cache_same r ->
  (forall sp', spec_step sp w = Some sp' ->
     sp_entries sp' = sp_entries sp /\ sp_purged sp' = sp_purged sp) ->
  step_sim7 s sp r w Q.
Proof.
  intros s sp r w Q HC Hr Hw. unfold step_sim7.
  destruct (spec_step sp w) as [sp'|] eqn:E; [|exact I].
  destruct (Hw sp' eq_refl) as [He Hp]. intros c seg. unfold CIs.
  destruct (sm_apply_same s r c seg Hr) as [E1 E2]. rewrite E1, E2.
  eapply CI_spec_eq; eassumption.
Qed.

Lemma sim7_vote : forall s sp v Q, CIs s sp Q -> step_sim7 s sp (RVote v) (SVote v) Q.
Proof.
  intros s sp v Q HC. apply sim7_same; [exact HC|exact I|].
  intros sp' H. cbn [spec_step] in H. destruct (ovote_accepts (sp_vote sp) v); [|discriminate].
  inversion H. split; reflexivity.
Qed.

Lemma sim7_commit : forall s sp id Q, CIs s sp Q -> step_sim7 s sp (RCommit id) (SCommit id) Q.
Proof.
  intros s sp id Q HC. apply sim7_same; [exact HC|exact I|].
  intros sp' H. cbn [spec_step] in H. destruct (opair_leb (sp_committed sp) (Some id)); [|discriminate].
  inversion H. split; reflexivity.
Qed.

Lemma sim7_user : forall s sp st u Q, CIs s sp Q -> step_sim7 s sp (RState st) (SUser u) Q.
Proof.
  intros s sp st u Q HC. apply sim7_same; [exact HC|exact I|].
  intros sp' H. cbn [spec_step] in H. inversion H. split; reflexivity.
Qed.

Lemma CI_append : forall s sp Q (id : logid) (p : payload),
  R0 s sp -> CIs s sp Q ->
  opair_cmp (sp_last sp) (Some id) = Lt ->
  rs_validate (m_rs s) (RAppend id p) = None ->
  opair_ltb (ch_evictable (m_cache s)) (Some id) = true ->
  forall c seg,
    CIs (fst (sm_apply s (RAppend id p) c seg))
      (mkSpec (sp_vote sp) (sp_entries sp ++ [(id, p)]) (sp_committed sp) (sp_purged sp) (sp_user sp)) Q.
Proof.
  intros s sp Q id p HR HC Hlt HV Hab c seg. unfold CIs.
  rewrite (sm_apply_append s id p c seg HV). cbn [m_log m_cache].
  apply CI_insert; [exact HC|exact Hlt| | |reflexivity|exact Hab].
  - intros e He E. destruct (entry_le_last0 s sp e HR He) as [l [Hl [H1 _]]].
    rewrite Hl in Hlt. cbn [opair_cmp] in Hlt. rewrite E in H1.
    apply H1. rewrite (pair_cmp_opp l id), Hlt. reflexivity.
  - intros i ld Hl. destruct (log_key_in0 s sp (i, ld) HR Hl) as [b [Hb [_ Hid]]].
    cbn [snd] in Hid. exists (snd b). rewrite Hid. destruct b. exact Hb.
Qed.

Lemma sim7_entry : forall s sp (id : logid) (p : payload) Q, R0 s sp -> CIs s sp Q ->
  (rs_validate (m_rs s) (RAppend id p) = None ->
   opair_ltb (ch_evictable (m_cache s)) (Some id) = true) ->
  step_sim7 s sp (RAppend id p) (SEntry id p) Q.
Proof.
  intros s sp id p Q HR HC Hab. unfold step_sim7. cbn [spec_step].
  pose proof (entry_validate (m_rs s) id p) as HV.
  assert (HL : r_last (m_rs s) = sp_last sp) by (rewrite (R0_rs _ _ HR); reflexivity).
  rewrite HL in HV.
  destruct (opair_ltb (sp_last sp) (Some id) &&
            match sp_last sp with Some l => N.eqb (lid_index id) (lid_index l + 1) | None => true end) eqn:E1;
    cbn [andb]; [|exact I].
  destruct (negb (N.eqb (lid_index id) U64MAX)); [|exact I].
  intros c seg.
  assert (HV' : rs_validate (m_rs s) (RAppend id p) = None) by (apply HV; reflexivity).
  apply andb_true_iff in E1. destruct E1 as [E1 _].
  apply CI_append; [exact HR|exact HC|apply opair_ltb_lt; exact E1|exact HV'|apply Hab; exact HV'].
Qed.

Lemma CI_trunc : forall s sp o Q, R0 s sp -> CIs s sp Q ->
  (o = sp_purged sp \/ exists id p, o = Some id /\ In (id, p) (sp_entries sp)) ->
  forall c seg,
    CIs (fst (sm_apply s (RTrunc o) c seg))
      (mkSpec (sp_vote sp) (filter (fun e => N.ltb (lid_index (fst e)) (next_index o)) (sp_entries sp))
              (sp_committed sp) (sp_purged sp) (sp_user sp)) Q.
Proof.
  intros s sp o Q HR HC Ho c seg. unfold CIs. rewrite sm_apply_trunc. cbn [m_log m_cache].
  destruct (trunc_facts s sp o HR Ho) as [T2 T3].
  pose proof HC as [C1 C2 C3 C4 C5].
  assert (Hlg : incl (lm_keep_lt (next_index o) (m_log s)) (m_log s)).
  { intros x Hx. unfold lm_keep_lt in Hx. apply filter_In in Hx. apply Hx. }
  destruct o as [key|].
  - pose proof (cache_truncate_after_entries (m_cache s) key C1) as Hce.
    eapply CI_sub; [exact HC|exact Hlg| | | | | |]; cbn [sp_entries].
    + intros x Hx. apply filter_In in Hx. apply Hx.
    + rewrite Hce. apply SS_filter. exact C1.
    + rewrite Hce. intros x Hx. apply filter_In in Hx. apply Hx.
    + apply CacheFacts.cache_truncate_after_evictable.
    + rewrite T2, Hce. intros e He. apply filter_In in He. destruct He as [_ He].
      apply negb_true_iff in He. apply pair_ltb_ge in He. exact He.
    + intros id p Hp Hin. left. rewrite Hce. apply filter_In. split; [exact Hin|].
      cbn [fst]. apply negb_true_iff. apply pair_ltb_ge. apply (T3 _ Hp).
  - eapply CI_sub; [exact HC|exact Hlg| | | | | |]; cbn [sp_entries].
    + intros x Hx. apply filter_In in Hx. apply Hx.
    + cbn. constructor.
    + cbn. intros x [].
    + reflexivity.
    + cbn. intros e [].
    + intros id p Hp _. exfalso. apply filter_In in Hp. destruct Hp as [_ Hp].
      cbn [next_index] in Hp. apply N.ltb_lt in Hp. lia.
Qed.

Lemma CI_purge : forall s sp u Q, R0 s sp -> CIs s sp Q ->
  ((exists p, In (u, p) (sp_entries sp)) \/
   (opair_cmp (sp_last sp) (Some u) = Lt /\ forall l, sp_last sp = Some l -> lid_index l < lid_index u)) ->
  forall c seg,
    CIs (fst (sm_apply s (RPurge u) c seg))
      (mkSpec (sp_vote sp) (filter (fun e => N.ltb (lid_index u) (lid_index (fst e))) (sp_entries sp))
              (sp_committed sp)
              (if opair_ltb (sp_purged sp) (Some u) then Some u else sp_purged sp) (sp_user sp)) Q.
Proof.
  intros s sp u Q HR HC Ho c seg. unfold CIs. rewrite sm_apply_purge. cbn [m_log m_cache].
  pose proof (purge_facts s sp u HR Ho) as P4. cbv zeta in P4.
  pose proof HC as [C1 C2 C3 C4 C5].
  destruct (CacheFacts.cache_purge_upto_entries (m_cache s) u) as [pre [E Hpre]].
  assert (Hincl : incl (ch_entries (cache_purge_upto (m_cache s) u)) (ch_entries (m_cache s))).
  { intros x Hx. rewrite E. apply in_or_app. right. exact Hx. }
  eapply CI_sub; [exact HC| | | |exact Hincl| | |]; cbn [sp_entries].
  - intros x Hx. unfold lm_keep_ge in Hx. apply filter_In in Hx. apply Hx.
  - intros x Hx. apply filter_In in Hx. apply Hx.
  - rewrite E in C1. apply SS_app_inv in C1. apply C1.
  - apply CacheFacts.cache_purge_upto_evictable.
  - intros e He. eapply opair_le_trans; [apply C2; apply Hincl; exact He|exact P4].
  - intros id p _ Hin. rewrite E in Hin. apply in_app_or in Hin. destruct Hin as [Hin|Hin].
    + right. apply (Hpre _ Hin).
    + left. exact Hin.
Qed.

(* ------------------------------------------------------------------ the fresh store *)
Lemma CI_init : forall cfg Q, CIs (sm_new cfg) spec0 Q.
Proof.
  intros cfg Q. constructor; cbn.
  - constructor.
  - intros e [].
  - intros id p p' [].
  - intros i ld p [].
  - intros i ld p [].
Qed.
