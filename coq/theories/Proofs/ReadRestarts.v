(* Property C07 across clean restarts, continued.

   Part 1: the side condition [restart_ok] of ReadRestart.C07_restart_reads_total follows
   from the other hypotheses.  [HB]: every eviction boundary pending installation
   (worker file list, queued AppendFile) is the last log id of the snapshot that heads
   its chunk file on disk, or is [None] for the oldest file of the directory.  So the
   boundary a restart installs for the newest file ([restart_bound]) is [None] or the
   [wf_prev_last] of the newest worker file, and [EB] of [I7] gives [restart_ok].

   Part 2: histories with any number of clean restarts (OFlush; ORestart cfg'), each
   under its own configuration with any cache limits. *)
From Coq Require Import List NArith Bool Lia Arith Sorted.
From Coq.Strings Require Import Byte.
From RaftLog Require Import Base.Bytes Base.Crc32 Model.Types Model.Codec Model.Cache Model.Core
  Model.Recover Model.Run Spec.Spec Spec.Hist.
From RaftLog Require Proofs.CacheFacts Proofs.CacheSys Proofs.NoPanic.
From RaftLog Require Import Proofs.ScanFacts Proofs.RecoverFacts.
From RaftLog Require Import Proofs.CodecFacts Proofs.JournalDisk Proofs.JournalChunk Proofs.JournalFacts
  Proofs.PurgeFacts.
From RaftLog Require Import Proofs.OrderFacts Proofs.SmFacts Proofs.Refine Proofs.PurgeLive Proofs.ReadCache
  Proofs.ReadInv Proofs.ReadFacts.
From RaftLog Require Import Proofs.RestartSim Proofs.RestartInv Proofs.RestartFacts Proofs.RestartCycles
  Proofs.RestartCache Proofs.CacheRestart Proofs.ReadRestart.
Import ListNotations.
Local Open Scope N_scope.
Local Arguments N.add : simpl never.
Local Arguments N.sub : simpl never.
Local Arguments N.mul : simpl never.
Local Arguments N.eqb : simpl never.
Local Arguments N.ltb : simpl never.
Local Arguments N.leb : simpl never.
Local Arguments N.compare : simpl never.
Local Arguments N.of_nat : simpl never.
Local Arguments enc_record : simpl never.

(* ================================================================== the pending boundaries and the file heads *)
Definition HBE (d : disk) (x : N * option logid) : Prop :=
  forall f, disk_get (fst x) d = Some f ->
    (exists st rest, f_data f = enc_record (RState st) ++ rest /\ wf_rstate st /\ r_last st = snd x) \/
    (snd x = None /\ forall j g, disk_get j d = Some g -> fst x <= j).
Definition HB (y : sys) : Prop := forall x, In x (fbounds y) -> HBE (y_disk y) x.

(* what the effects of a caller step create and announce *)
Definition eff_creates (e : eff) : list (N * bytes) :=
  match e with ECreate id head => [(id, head)] | _ => [] end.
Definition eff_app (e : eff) : list (N * option logid) :=
  match e with ESend r => req_fb r | _ => [] end.
Definition creates (effs : list eff) := flat_map eff_creates effs.
Definition appfiles (effs : list eff) := flat_map eff_app effs.

Definition eok (effs : list eff) : Prop :=
  Forall2 (fun c a => fst c = fst a /\
             exists st, wf_rstate st /\ snd c = enc_record (RState st) /\ snd a = r_last st)
          (creates effs) (appfiles effs).

Lemma eok_nil : eok [].
Proof. constructor. Qed.

Lemma eok_app a b : eok a -> eok b -> eok (a ++ b).
Proof. unfold eok, creates, appfiles. rewrite !flat_map_app. apply Forall2_app. Qed.

Lemma eok_rotate k1 : wf_rstate (m_rs (k_sm k1)) -> eok (rotate_effs k1).
Proof.
  intros W. unfold eok, creates, appfiles, rotate_effs.
  assert (E : forall mid, (forall e, In e mid -> eff_creates e = [] /\ eff_app e = []) ->
            Forall2 (fun c a => fst c = fst a /\
                       exists st, wf_rstate st /\ snd c = enc_record (RState st) /\ snd a = r_last st)
              (flat_map eff_creates ([ECreate (ck_end (k_open k1)) (enc_record (RState (m_rs (k_sm k1))))] ++ mid ++
                                     [ESend (WAppendFile (ck_end (k_open k1)) (r_last (m_rs (k_sm k1))))]))
              (flat_map eff_app ([ECreate (ck_end (k_open k1)) (enc_record (RState (m_rs (k_sm k1))))] ++ mid ++
                                 [ESend (WAppendFile (ck_end (k_open k1)) (r_last (m_rs (k_sm k1))))]))).
  { intros mid Hmid. rewrite !flat_map_app.
    assert (E1 : flat_map eff_creates mid = []).
    { clear - Hmid. induction mid as [|e mid IH]; [reflexivity|]. cbn [flat_map].
      destruct (Hmid e (or_introl eq_refl)) as [A _]. rewrite A, IH; [reflexivity|].
      intros e' He'. apply Hmid. right. exact He'. }
    assert (E2 : flat_map eff_app mid = []).
    { clear - Hmid. induction mid as [|e mid IH]; [reflexivity|]. cbn [flat_map].
      destruct (Hmid e (or_introl eq_refl)) as [_ A]. rewrite A, IH; [reflexivity|].
      intros e' He'. apply Hmid. right. exact He'. }
    rewrite E1, E2. cbn [flat_map eff_creates eff_app req_fb app].
    constructor; [|constructor]. split; [reflexivity|]. exists (m_rs (k_sm k1)). split; [exact W|split; reflexivity]. }
  apply E. intros e He. destruct (k_pending k1); [destruct He|].
  destruct He as [He|[]]. subst e. split; reflexivity.
Qed.

Lemma aaa_eok k r k' w effs : append_and_apply k r = Ret (k', w, effs) ->
  wf_rstate (m_rs (k_sm k)) -> wf_record r -> wf_rstate (m_rs (k_sm k')) /\ eok effs.
Proof.
  intros H W Wr. apply append_and_apply_cases in H.
  destruct H as [(E1 & E2 & _)|(sm1 & Hv & Hs & _ & Ht)].
  - subst. split; [exact W|apply eok_nil].
  - destruct (sm_apply_ok _ _ _ _ _ _ Hv Hs) as [_ Ha].
    pose proof (rs_apply_wf _ _ _ W Wr Ha) as W1.
    eapply try_close_cases in Ht as [(_ & E1 & E2)|(_ & E1 & E2)]; [| |reflexivity]; subst.
    + split; [exact W1|apply eok_nil].
    + split; [exact W1|apply eok_rotate; exact W1].
Qed.

Lemma do_append_eok : forall es k acc effs0 k' w effs,
  do_append k es acc effs0 = Ret (k', w, effs) ->
  Forall (fun e => wf_pair (fst e) /\ wf_bytes (snd e)) es ->
  wf_rstate (m_rs (k_sm k)) -> eok effs0 -> eok effs.
Proof.
  induction es as [|[id p] es IH]; intros k acc effs0 k' w effs H Hwf W H0; cbn [do_append] in H.
  - inversion H; subst. exact H0.
  - inversion Hwf as [|? ? Hw1 Hw2]; subst. cbn [fst snd] in Hw1.
    destruct (append_and_apply k (RAppend id p)) as [[[k1 w1] ef]|] eqn:E; [|discriminate H].
    destruct (aaa_eok _ _ _ _ _ E W Hw1) as [W1 He].
    destruct w1 as [off len|e].
    + apply (IH k1 _ _ _ _ _ H Hw2 W1). apply eok_app; assumption.
    + inversion H; subst. apply eok_app; assumption.
Qed.

Lemma do_write_eok y w k' r effs : journal_wf y -> wop_wf w ->
  do_write (y_core y) w = Ret (k', r, effs) -> eok effs.
Proof.
  intros JW Hw H. pose proof (jw_inv _ JW) as Jv.
  pose proof (ji_rs _ _ _ Jv) as W. pose proof W as (Wv & Wl & Wc & Wp & Wu).
  destruct w as [v|es|i|u|id|u|st]; cbn [do_write wop_wf] in *.
  - apply (aaa_eok _ _ _ _ _ H W Hw).
  - destruct (wal_last_segment (y_core y)) as [w0|]; [|discriminate H].
    apply (do_append_eok _ _ _ _ _ _ _ H Hw W eok_nil).
  - destruct (N.eqb i (next_index (r_purged (m_rs (k_sm (y_core y)))))).
    { apply (aaa_eok _ _ _ _ _ H W). exact Wp. }
    destruct (N.eqb i 0); [inversion H; apply eok_nil|].
    unfold lm_get_id in H. destruct (lm_get (i - 1) (m_log (k_sm (y_core y)))) as [d|] eqn:El;
      [|inversion H; apply eok_nil].
    apply (aaa_eok _ _ _ _ _ H W). cbn [wf_record wf_opt]. apply lm_get_In in El.
    pose proof (ji_log _ _ _ Jv) as HL. rewrite Forall_forall in HL. destruct (HL _ El) as (Wd & _). exact Wd.
  - destruct (N.ltb (lid_index u) (next_index (r_purged (m_rs (k_sm (y_core y)))))).
    { destruct (wal_last_segment (y_core y)); [|discriminate H]. inversion H. apply eok_nil. }
    destruct (append_and_apply (y_core y) (RPurge u)) as [[[k1 res] ef]|] eqn:Ea; [|discriminate H].
    destruct (aaa_eok _ _ _ _ _ Ea W Hw) as [_ He].
    destruct res as [off len|e]; [|inversion H; subst; exact He].
    destruct (pop_obsolete u (k_closed k1)). inversion H; subst. exact He.
  - apply (aaa_eok _ _ _ _ _ H W Hw).
  - apply (aaa_eok _ _ _ _ _ H W). cbn [wf_record]. unfold wf_rstate. cbn. tauto.
  - apply (aaa_eok _ _ _ _ _ H W Hw).
Qed.

(* ------------------------------------------------------------------ the system after the effects *)
Definition puts (cs : list (N * bytes)) (d : disk) : disk :=
  fold_left (fun d c => disk_put (mkFile (fst c) (snd c) 0) d) cs d.

Lemma apply_effs_shape : forall effs y,
  y_disk (apply_effs y effs) = puts (creates effs) (y_disk y) /\
  y_files (apply_effs y effs) = y_files y /\
  flat_map req_fb (y_queue (apply_effs y effs)) = flat_map req_fb (y_queue y) ++ appfiles effs.
Proof.
  unfold apply_effs, creates, appfiles, puts.
  induction effs as [|e effs IH]; intros y; cbn [fold_left flat_map].
  - rewrite app_nil_r. repeat split.
  - destruct (IH (apply_eff y e)) as (A & B & C). rewrite A, B, C. destruct e as [id head|r];
      cbn [apply_eff y_disk y_files y_queue eff_creates eff_app app fold_left fst snd].
    + repeat split.
    + rewrite flat_map_app. cbn [flat_map]. rewrite app_nil_r, <- app_assoc. repeat split.
Qed.

Lemma puts_get : forall cs d j f, disk_get j (puts cs d) = Some f ->
  (exists h, In (j, h) cs /\ f = mkFile j h 0) \/ (~ In j (map fst cs) /\ disk_get j d = Some f).
Proof.
  unfold puts. induction cs as [|[i h] cs IH]; intros d j f H; cbn [fold_left] in H.
  - right. split; [intros []|exact H].
  - cbn [fst snd] in H. destruct (IH _ j f H) as [(h' & Hin & E)|[Hn Hg]].
    + left. exists h'. split; [right; exact Hin|exact E].
    + rewrite disk_get_put in Hg. cbn [f_id] in Hg. destruct (N.eqb_spec j i) as [E|E].
      * inversion Hg. subst. left. exists h. split; [left; reflexivity|reflexivity].
      * right. split; [|exact Hg]. cbn [map fst]. intros [Hi|Hi]; [apply E; symmetry; exact Hi|apply Hn; exact Hi].
Qed.

Lemma nodup_fst_fun {A B} (l : list (A * B)) a b b' :
  NoDup (map fst l) -> In (a, b) l -> In (a, b') l -> b = b'.
Proof.
  induction l as [|[x z] l IH]; intros N H1 H2; [destruct H1|].
  cbn [map fst] in N. inversion N as [|? ? Hn N']; subst.
  destruct H1 as [H1|H1]; destruct H2 as [H2|H2].
  - inversion H1; inversion H2; subst. reflexivity.
  - inversion H1; subst. exfalso. apply Hn. apply (in_map fst _ _ H2).
  - inversion H2; subst. exfalso. apply Hn. apply (in_map fst _ _ H1).
  - apply IH; assumption.
Qed.

Lemma ss_lt_nodup l : StronglySorted N.lt l -> NoDup l.
Proof.
  induction l as [|a l IH]; intros S; [constructor|].
  apply StronglySorted_inv in S. destruct S as [S F]. constructor; [|apply IH; exact S].
  intros Hi. rewrite Forall_forall in F. specialize (F a Hi). lia.
Qed.

Definition ceok (c : N * bytes) (a : N * option logid) : Prop :=
  fst c = fst a /\ exists st, wf_rstate st /\ snd c = enc_record (RState st) /\ snd a = r_last st.

Lemma ceok_fst : forall cs als, Forall2 ceok cs als -> map fst cs = map fst als.
Proof.
  intros cs als H. induction H as [|c a cs als [E _] _ IH]; [reflexivity|]. cbn [map]. rewrite E, IH. reflexivity.
Qed.

Lemma ceok_in : forall cs als fid b, Forall2 ceok cs als -> In (fid, b) als ->
  exists st, wf_rstate st /\ In (fid, enc_record (RState st)) cs /\ b = r_last st.
Proof.
  intros cs als fid b H. induction H as [|c a cs als (E & st & W & E1 & E2) _ IH]; intros Hx; [destruct Hx|].
  destruct Hx as [Hx|Hx].
  - subst a. cbn [fst snd] in *. exists st. split; [exact W|]. split; [|exact E2].
    left. destruct c as [c1 c2]. cbn [fst snd] in *. subst. reflexivity.
  - destruct (IH Hx) as (st' & W' & Hin & Eb). exists st'. split; [exact W'|]. split; [right; exact Hin|exact Eb].
Qed.

Lemma HB_effs y k' effs : HB y -> eok effs ->
  StronglySorted N.lt (map fst (fbounds (apply_effs (with_core y k') effs))) ->
  HB (apply_effs (with_core y k') effs).
Proof.
  intros H He HS.
  destruct (apply_effs_shape effs (with_core y k')) as (Ed & Ef & Eq).
  cbn [with_core y_disk y_files y_queue] in Ed, Ef, Eq.
  set (y' := apply_effs (with_core y k') effs) in *.
  assert (Efb : fbounds y' = fbounds y ++ appfiles effs).
  { unfold fbounds. rewrite Ef, Eq, app_assoc. reflexivity. }
  rewrite Efb, map_app in HS.
  assert (Hc : map fst (creates effs) = map fst (appfiles effs)).
  { apply ceok_fst. exact He. }
  pose proof (ss_app_inv _ _ HS) as (S1 & S2 & S12).
  assert (Nc : NoDup (map fst (creates effs))) by (rewrite Hc; apply ss_lt_nodup; exact S2).
  intros x Hx. rewrite Efb in Hx. unfold HBE. rewrite Ed. intros f Hf.
  apply puts_get in Hf. apply in_app_or in Hx. destruct Hx as [Hx|Hx].
  - (* an old boundary: its file is untouched, new files are younger *)
    destruct Hf as [(h & Hin & _)|[Hn Hg]].
    { exfalso. assert (H1 : In (fst x) (map fst (creates effs))) by (apply (in_map fst _ _ Hin)).
      rewrite Hc in H1. specialize (S12 (fst x) (fst x) (in_map fst _ _ Hx) H1). lia. }
    destruct (H x Hx f Hg) as [HA|[HB1 HB2]]; [left; exact HA|right].
    split; [exact HB1|]. intros j g Hg'. apply puts_get in Hg'.
    destruct Hg' as [(h & Hin & _)|[_ Hg']]; [|apply (HB2 j g Hg')].
    assert (H1 : In j (map fst (creates effs))) by (apply (in_map fst _ _ Hin)).
    rewrite Hc in H1. specialize (S12 (fst x) j (in_map fst _ _ Hx) H1). lia.
  - (* a boundary announced by this step: the file was created with the snapshot *)
    left. destruct x as [fid b]. cbn [fst snd] in *.
    assert (Hst : exists st, wf_rstate st /\ In (fid, enc_record (RState st)) (creates effs) /\ b = r_last st).
    { apply (ceok_in _ _ fid b He Hx). }
    destruct Hst as (st & W & Hin & Eb).
    destruct Hf as [(h & Hin' & Ef')|[Hn _]].
    + rewrite (nodup_fst_fun _ _ _ _ Nc Hin' Hin) in Ef'. subst f. cbn [f_data].
      exists st, []. rewrite app_nil_r. split; [reflexivity|]. split; [exact W|symmetry; exact Eb].
    + exfalso. apply Hn. apply (in_map fst _ _ Hin).
Qed.

(* ------------------------------------------------------------------ the worker *)
Definition dext (d d' : disk) : Prop :=
  forall j f', disk_get j d' = Some f' -> exists f tl, disk_get j d = Some f /\ f_data f' = f_data f ++ tl.

Lemma dext_refl d : dext d d.
Proof. intros j f H. exists f, []. rewrite app_nil_r. split; [exact H|reflexivity]. Qed.

Lemma dext_trans d1 d2 d3 : dext d1 d2 -> dext d2 d3 -> dext d1 d3.
Proof.
  intros A B j f3 H3. destruct (B j f3 H3) as (f2 & t2 & H2 & E2). destruct (A j f2 H2) as (f1 & t1 & H1 & E1).
  exists f1, (t1 ++ t2). split; [exact H1|]. rewrite E2, E1, app_assoc. reflexivity.
Qed.

Lemma dext_append i x d : dext d (disk_append i x d).
Proof.
  intros j f' H. rewrite disk_get_append in H. destruct (disk_get i d) as [g|] eqn:E.
  - destruct (N.eqb_spec j i) as [Ej|Ej].
    + inversion H; subst. exists g, x. split; [exact E|reflexivity].
    + exists f', []. rewrite app_nil_r. split; [exact H|reflexivity].
  - exists f', []. rewrite app_nil_r. split; [exact H|reflexivity].
Qed.

Lemma dext_sync i d : dext d (disk_sync i d).
Proof.
  intros j f' H. rewrite disk_get_sync in H. destruct (disk_get i d) as [g|] eqn:E.
  - destruct (N.eqb_spec j i) as [Ej|Ej].
    + inversion H; subst. exists g, []. rewrite app_nil_r. split; [exact E|reflexivity].
    + exists f', []. rewrite app_nil_r. split; [exact H|reflexivity].
  - exists f', []. rewrite app_nil_r. split; [exact H|reflexivity].
Qed.

Lemma dext_remove i d : dext d (disk_remove i d).
Proof.
  intros j f' H. rewrite disk_get_remove in H. destruct (N.eqb j i); [discriminate H|].
  exists f', []. rewrite app_nil_r. split; [exact H|reflexivity].
Qed.

Lemma dext_fold {A} (f : disk -> A -> disk) : (forall d a, dext d (f d a)) ->
  forall l d, dext d (fold_left f l d).
Proof.
  intros Hf l. induction l as [|a l IH]; intros d; cbn [fold_left]; [apply dext_refl|].
  eapply dext_trans; [apply Hf|apply IH].
Qed.

Lemma worker_step_dext y r : dext (y_disk y) (y_disk (worker_step y r)).
Proof.
  destruct r as [upto data cb|off prev|rm]; cbn [worker_step].
  - destruct (rev (y_files y)) as [|newest older]; [apply dext_refl|]. cbn [y_disk].
    eapply dext_trans; [apply dext_append|]. eapply dext_trans; [|apply dext_sync].
    apply (dext_fold (fun d f => disk_sync (wf_id f) d)). intros d a. apply dext_sync.
  - apply dext_refl.
  - cbn [y_disk]. apply (dext_fold (fun d i => disk_remove i d)). intros d a. apply dext_remove.
Qed.

Lemma worker_idle_dext y : dext (y_disk y) (y_disk (worker_idle y)).
Proof.
  unfold worker_idle.
  change (y_disk y) with (y_disk (mkSys (y_core y) (y_disk y) [] (y_files y) (y_acks y))) at 1.
  generalize (mkSys (y_core y) (y_disk y) [] (y_files y) (y_acks y)).
  induction (y_queue y) as [|r q IH]; intros s; cbn [fold_left]; [apply dext_refl|].
  eapply dext_trans; [apply worker_step_dext|apply IH].
Qed.

Lemma HBE_dext d d' x : dext d d' -> HBE d x -> HBE d' x.
Proof.
  intros Hd H f' Hf'. destruct (Hd _ _ Hf') as (f & tl & Hf & E).
  destruct (H f Hf) as [(st & rest & E1 & W & El)|[H1 H2]].
  - left. exists st, (rest ++ tl). rewrite E, E1, app_assoc. split; [reflexivity|]. split; assumption.
  - right. split; [exact H1|]. intros j g Hg. destruct (Hd _ _ Hg) as (g0 & _ & Hg0 & _). apply (H2 j g0 Hg0).
Qed.

Lemma HB_idle y : HB y -> HB (worker_idle y).
Proof.
  intros H x Hx. destruct (idle_bounds y) as [Hfb _].
  apply (HBE_dext (y_disk y)); [apply worker_idle_dext|]. apply H. apply Hfb. exact Hx.
Qed.

Lemma HB_same y y' : HB y -> y_disk y' = y_disk y -> fbounds y' = fbounds y -> HB y'.
Proof. intros H Ed Ef x Hx. rewrite Ed. rewrite Ef in Hx. apply H. exact Hx. Qed.

(* ------------------------------------------------------------------ one operation *)
Lemma HB_run_op y sp o y' r : HB y -> I7 y sp -> I7 y' (spec_op sp o) -> op_wf o -> not_restart o = true ->
  run_op y o = (Some y', r) -> HB y'.
Proof.
  intros H HI HI' Hw Hn Hop.
  destruct o as [w|cb|from to| | | | | |cfg]; cbn [run_op not_restart op_wf] in *; try discriminate Hn.
  - destruct (do_write (y_core y) w) as [[[k' r0] effs]|] eqn:Ew; [|discriminate Hop].
    inversion Hop; subst y' r. apply HB_effs; [exact H| |apply (i_ml _ _ HI')].
    apply (do_write_eok y w k' r0 effs (i_jw _ _ HI) Hw Ew).
  - destruct (flush_sys y cb) as (Ed & Ef & Eq & _). cbv zeta in Ed, Ef, Eq.
    destruct (do_flush (y_core y) cb) as [k effs]. cbn [fst snd] in *. inversion Hop; subst y' r.
    apply (HB_same y); [exact H|exact Ed|apply fbounds_same; assumption].
  - destruct (do_read (y_core y) (y_disk y) from to) as [k items]. inversion Hop; subst y' r.
    apply (HB_same y); [exact H|reflexivity|reflexivity].
  - inversion Hop; subst. exact H.
  - inversion Hop; subst. exact H.
  - inversion Hop; subst. exact H.
  - inversion Hop; subst. apply HB_idle. exact H.
  - inversion Hop; subst. apply (HB_same y); [exact H|reflexivity|reflexivity].
Qed.

Lemma HB_init cfg : HB (sys0 cfg).
Proof.
  intros x Hx. unfold fbounds in Hx. cbn [sys0 y_files y_queue map wf_fb wf_id wf_prev_last flat_map app] in Hx.
  destruct Hx as [Hx|[]]. subst x. intros f Hf. cbn [sys0 y_disk fst] in Hf.
  cbn [disk_get f_id] in Hf. rewrite N.eqb_refl in Hf. inversion Hf; subst f. cbn [f_data snd].
  left. exists rstate0, []. rewrite app_nil_r. split; [reflexivity|]. split; [|reflexivity]. unfold wf_rstate. cbn. tauto.
Qed.

(* ================================================================== the boundary a restart installs *)
Lemma newest_fb y : journal_wf y -> y_queue y = [] ->
  exists pl, In (ck_id (k_open (y_core y)), pl) (fbounds y).
Proof.
  intros JW Hq. destruct (jw_newest _ JW) as (older & pl & E).
  rewrite (wfinal_idle_state y Hq) in E. cbn [snd] in E. exists pl. unfold fbounds. rewrite E, map_app.
  apply in_or_app. left. apply in_or_app. right. left. reflexivity.
Qed.

Lemma sorted_head_le f d g : dsorted (f :: d) -> In g (f :: d) -> f_id f <= f_id g.
Proof.
  unfold dsorted, ids. cbn [map]. intros S [E|Hi]; [subst; lia|].
  apply StronglySorted_inv in S. destruct S as [_ F]. rewrite Forall_forall in F.
  specialize (F (f_id g) (in_map f_id _ _ Hi)). lia.
Qed.

Lemma bound_facts y pl : HB y -> dsorted (y_disk y) ->
  In (ck_id (k_open (y_core y)), pl) (fbounds y) ->
  (restart_bound y = None \/ restart_bound y = pl) /\
  HBE (y_disk y) (ck_id (k_open (y_core y)), restart_bound y).
Proof.
  intros H Sd Hin. unfold restart_bound, disk_bound, HBE. cbn [fst snd].
  set (o := ck_id (k_open (y_core y))) in *.
  destruct (y_disk y) as [|f0 d0] eqn:Ed.
  { split; [left; reflexivity|]. intros f Hf. discriminate Hf. }
  rewrite <- Ed in *.
  assert (Hmin : forall j g, disk_get j (y_disk y) = Some g -> f_id f0 <= j).
  { intros j g Hg. rewrite <- (disk_get_id _ _ _ Hg). apply (sorted_head_le f0 d0); [rewrite <- Ed; exact Sd|].
    rewrite <- Ed. apply (disk_get_In _ _ _ Hg). }
  destruct (N.eqb_spec (f_id f0) o) as [E0|E0].
  { split; [left; reflexivity|]. intros f Hf. right. split; [reflexivity|]. rewrite <- E0. exact Hmin. }
  destruct (disk_get o (y_disk y)) as [fo|] eqn:Eo.
  2:{ split; [left; reflexivity|]. intros f Hf. discriminate Hf. }
  destruct (H _ Hin fo Eo) as [(st & rest & E1 & W & El)|[_ Hm]]; cbn [fst snd] in *.
  - rewrite E1, (dec_enc_record (RState st) rest W). split; [right; exact El|].
    intros f Hf. inversion Hf; subst f. left. exists st, rest. split; [exact E1|]. split; [exact W|reflexivity].
  - exfalso. assert (H0 : disk_get (f_id f0) (y_disk y) = Some f0).
    { rewrite Ed. cbn [disk_get]. rewrite N.eqb_refl. reflexivity. }
    specialize (Hm _ _ H0). specialize (Hmin _ _ Eo). lia.
Qed.

(* the side condition of ReadRestart.C07_restart_reads_total is implied *)
Lemma restart_ok_holds y sp : I7 y sp -> HB y -> y_queue y = [] -> restart_ok y = true.
Proof.
  intros HI H Hq. pose proof HI as [(HR & _ & _) JW _ _ HEB _].
  destruct (newest_fb y JW Hq) as (pl & Hin).
  destruct (bound_facts y pl H (jw_sorted _ JW) Hin) as [Hb _].
  unfold restart_ok. apply forallb_forall. intros [i ld] Hl. cbn [snd].
  destruct (N.eqb_spec (ld_chunk ld) (ck_id (k_open (y_core y)))) as [Ec|Ec]; [|reflexivity].
  cbn [negb orb]. destruct Hb as [Hb|Hb]; rewrite Hb; [reflexivity|].
  rewrite opair_ltb_negb_leb. apply negb_true_iff.
  destruct (opair_leb (Some (ld_id ld)) pl) eqn:Ele; [|reflexivity]. exfalso.
  destruct (log_key_in0 _ sp (i, ld) HR Hl) as [[id p] [Hp [_ Hid]]]. cbn [fst snd] in Hid. subst id.
  pose proof (HEB _ pl i ld p Hin Hl Hp Ele) as Hlt. lia.
Qed.

Lemma run_HB : forall ops y sp res y', I7 y sp -> HB y ->
  ops_c07 sp ops = true -> Forall op_wf ops -> run_ok_c07b y ops = true ->
  run_ops y ops = (res, Some y') -> HB y'.
Proof.
  induction ops as [|o ops IH]; intros y sp res y' HI H Hc Hw Hok Hrun.
  - cbn [run_ops] in Hrun. inversion Hrun; subst. exact H.
  - cbn [ops_c07] in Hc. apply andb_true_iff in Hc. destruct Hc as [Hc1 Hc2].
    inversion Hw as [|? ? Hw1 Hw2]; subst.
    cbn [run_ok_c07b] in Hok. apply andb_true_iff in Hok. destruct Hok as [Hok1 Hok2].
    destruct (I7_run_op y sp o HI Hc1 Hw1 Hok1) as (y1 & r0 & Hop & HI1).
    assert (Hn : not_restart o = true) by (destruct o; try reflexivity; discriminate Hc1).
    pose proof (HB_run_op y sp o y1 r0 H HI HI1 Hw1 Hn Hop) as H1.
    cbn [run_ops] in Hrun. rewrite Hop in Hrun, Hok2.
    destruct (run_ops y1 ops) as [rs fin] eqn:Er. inversion Hrun; subst.
    apply (IH y1 (spec_op sp o) rs y' HI1 H1 Hc2 Hw2 Hok2 Er).
Qed.

Lemma run_case_restart_ok cfg ops res y :
  ops_c07 spec0 ops = true -> Forall op_wf ops ->
  (match open_dir cfg [] with OpenOk y0 => run_ok_c07b y0 ops = true | _ => False end) ->
  run_case cfg ops = (res, Some y) -> y_queue y = [] -> restart_ok y = true.
Proof.
  intros Hc Hw Hok Hrun Hq. unfold run_case in Hrun. rewrite open_dir_nil in Hrun, Hok.
  destruct (I7_run_ops ops (sys0 cfg) spec0 res (Some y) (I7_init cfg) Hc Hw Hok Hrun) as (y0 & E & HI).
  inversion E; subst y0.
  apply (restart_ok_holds y _ HI); [|exact Hq].
  apply (run_HB ops (sys0 cfg) spec0 res y (I7_init cfg) (HB_init cfg) Hc Hw Hok Hrun).
Qed.

(* ================================================================== one restart, no side condition *)
Theorem C07_restart_reads_total_strong : forall cfg cfg' ops res y,
  ops_c07 spec0 ops = true -> Forall op_wf ops ->
  (match open_dir cfg [] with OpenOk y0 => run_ok_c07b y0 ops = true | _ => False end) ->
  run_case cfg ops = (res, Some y) ->
  y_queue y = [] -> k_pending (y_core y) = [] ->
  exists y', open_dir cfg' (y_disk y) = OpenOk y' /\ observes y' (spec_ops spec0 ops) /\
             I7 y' (spec_ops spec0 ops).
Proof.
  intros cfg cfg' ops res y Hc Hw Hok Hrun Hq Hpend.
  apply (C07_restart_reads_total cfg cfg' ops res y Hc Hw Hok Hrun Hq Hpend).
  apply (run_case_restart_ok cfg ops res y Hc Hw Hok Hrun Hq).
Qed.

Theorem C07_restart_continue_strong : forall cfg cfg' ops ops2 res y,
  ops_c07 spec0 ops = true -> Forall op_wf ops ->
  (match open_dir cfg [] with OpenOk y0 => run_ok_c07b y0 ops = true | _ => False end) ->
  run_case cfg ops = (res, Some y) ->
  y_queue y = [] -> k_pending (y_core y) = [] ->
  exists y', open_dir cfg' (y_disk y) = OpenOk y' /\
    forall res2 fin,
      ops_c07 (spec_ops spec0 ops) ops2 = true -> Forall op_wf ops2 -> run_ok_c07b y' ops2 = true ->
      run_ops y' ops2 = (res2, fin) ->
      exists y2, fin = Some y2 /\ observes y2 (spec_ops spec0 (ops ++ ops2)) /\
                 I7 y2 (spec_ops spec0 (ops ++ ops2)).
Proof.
  intros cfg cfg' ops ops2 res y Hc Hw Hok Hrun Hq Hpend.
  apply (C07_restart_continue cfg cfg' ops ops2 res y Hc Hw Hok Hrun Hq Hpend).
  apply (run_case_restart_ok cfg ops res y Hc Hw Hok Hrun Hq).
Qed.

Print Assumptions C07_restart_reads_total_strong.
Print Assumptions C07_restart_continue_strong.

(* ================================================================== Part 2: any number of clean restarts *)
(* one restart from any state whose journal side is shadowed by a big-cache store *)
Lemma restart_gen cfg' cB' y yB sp n b :
  I7 y sp -> JI y -> HB y -> yeq y yB -> FI cB' yB sp n b ->
  cfgq cfg' cB' -> c_truncate cfg' = c_truncate cB' ->
  y_queue y = [] -> k_pending (y_core y) = [] ->
  exists y' yB', open_dir cfg' (y_disk y) = OpenOk y' /\ open_dir cB' (y_disk yB) = OpenOk yB' /\
    yeq y' yB' /\ I7 y' sp /\ CacheRestart.CI y' /\ HB y'.
Proof.
  intros HI HJI HHB Hyy F Hcq Htr Hq Hpend.
  pose proof (restart_ok_holds y sp HI HHB Hq) as Hrok.
  destruct (JI_reopen cfg' y HJI Hq) as (y' & Hopen & HJI' & Hcinv').
  pose proof Hyy as [Hkk Hdd Hqq Hff Haa]. pose proof Hkk as [Kc [Kr Kl] Ko Kp Kcl Krm Kcb].
  assert (HqB : y_queue yB = []) by (rewrite <- Hqq; exact Hq).
  assert (HpendB : k_pending (y_core yB) = []) by (rewrite <- Kp; exact Hpend).
  destruct (reopen cB' yB _ _ _ F HqB HpendB) as (yB' & HoB & RO).
  pose proof (reopen_FI cB' cB' yB _ _ _ yB' F F HqB HpendB HoB) as FB'.
  pose proof (open_dir_yeq cfg' cB' (y_disk y) Hcq Htr) as Hoy.
  rewrite Hopen in Hoy. pose proof HoB as HoB0. rewrite <- Hdd in HoB. rewrite HoB in Hoy.
  pose proof Hoy as [Hkk' Hdd' Hqq' Hff' Haa']. pose proof Hkk' as [Kc' [Kr' Kl'] Ko' Kp' Kcl' Krm' Kcb'].
  pose proof (fi_jw _ _ _ _ _ F) as JWB.
  pose proof (C11_idle_disk_is_journal yB JWB HqB HpendB) as ElB.
  destruct (ro_shape _ _ _ _ _ _ RO) as (G0 & o & rs & pl & GJy & GC & _ & _ & Eo & _ & _ & _ & HrepB).
  destruct GJy as [Gids Gfiles]. rewrite ElB, <- Hdd in Gids, Gfiles.
  assert (Hab : abut (file_bytes (y_disk y)) (map fst (G0 ++ [(o, rs)]))).
  { pose proof (ji_abut _ _ _ (jw_inv _ JWB)) as A. rewrite ElB, <- Hdd in A. rewrite Gids. exact A. }
  assert (Sd : dsorted (y_disk y)) by (rewrite Hdd; apply (jw_sorted _ JWB)).
  destruct (reopen_cache cfg' cB' (y_disk y) G0 o rs (k_sm (y_core yB')) _ Sd (eq_sym Gids) Gfiles Hab GC HrepB)
    as (t & Hopen2 & Hseq & Hev & HCL & HPR).
  rewrite Hopen in Hopen2. inversion Hopen2 as [Ey']. clear Hopen2.
  assert (Eo' : o = ck_id (k_open (y_core y))) by (rewrite Eo, Ko; reflexivity).
  assert (Ebnd : disk_bound (y_disk y) o = restart_bound y) by (unfold restart_bound; rewrite Eo'; reflexivity).
  rewrite Ebnd in *.
  exists y', yB'. split; [exact Hopen|]. split; [exact HoB0|]. split; [exact Hoy|].
  assert (HI' : I7 y' sp).
  { apply (I7_reopened y y' sp (k_sm (y_core yB')) HI Hq Hpend Hrok (JI_jw _ HJI') Hcinv').
    - rewrite Ey'. reflexivity.
    - rewrite Ey'. reflexivity.
    - rewrite Ey'. reflexivity.
    - rewrite Ey'. cbn [y_core k_open chunk_of ck_id]. exact Eo'.
    - rewrite Ey'. cbn [y_files]. rewrite Eo'. reflexivity.
    - rewrite Ey'. cbn [y_core k_sm]. exact Hev.
    - rewrite Kr', (ro_rs _ _ _ _ _ _ RO), <- Kr. reflexivity.
    - rewrite Kl', (ro_log _ _ _ _ _ _ RO), <- Kl. reflexivity.
    - pose proof (fi_live _ _ _ _ _ FB') as HL. unfold live_ok, closed_ids in *.
      rewrite Kl', Kcl', Ko'. exact HL.
    - pose proof (fi_cb _ _ _ _ _ FB') as HB0. unfold closed_bound in *. rewrite Kl', Kcl'. exact HB0.
    - rewrite Ey'. cbn [y_core k_sm]. exact HCL.
    - rewrite Ey'. cbn [y_core k_sm]. rewrite <- Eo'. exact HPR.
    - apply (R_hit _ _ (fi_R _ _ _ _ _ FB')). }
  split; [exact HI'|]. split; [split; assumption|].
  (* the boundary of the reopened store heads its file *)
  destruct (newest_fb y (i_jw _ _ HI) Hq) as (pl0 & Hin0).
  destruct (bound_facts y pl0 HHB Sd Hin0) as [_ HE].
  intros x Hx. unfold fbounds in Hx. rewrite Ey' in Hx.
  cbn [y_files y_queue map wf_fb wf_id wf_prev_last flat_map app] in Hx. destruct Hx as [Hx|[]]. subst x.
  rewrite Ey'. cbn [y_disk]. rewrite Eo'. exact HE.
Qed.

(* ------------------------------------------------------------------ the invariant of a run with restarts *)
Record MI (cs : list config) (y : sys) (sp : spec) (n b : N) : Prop := mkMI {
  mi_i7 : I7 y sp;
  mi_ci : CacheRestart.CI y;
  mi_hb : HB y;
  mi_sh : exists yB, yeq y yB /\ FIs cs yB sp n b }.

Lemma MI_mono cs y sp n b n' b' : MI cs y sp n b -> n' <= n -> b' <= b -> MI cs y sp n' b'.
Proof.
  intros [A B C (yB & D1 & D2)] Hn Hb. constructor; try assumption. exists yB. split; [exact D1|].
  unfold FIs in *. eapply Forall_impl; [|exact D2]. intros a Ha. eapply FI_mono; [exact Ha|exact Hn|exact Hb].
Qed.

Lemma op_c07_shadow sp o : op_c07 sp o = true ->
  op_plain sp (undrain o) = true /\ op_c15 o = true /\ not_restart o = true /\
  op_entries (undrain o) = op_entries o /\ spec_op sp (undrain o) = spec_op sp o.
Proof.
  intros H. destruct o as [w|cb|from to| | | | | |c]; cbn [op_c07] in H; try discriminate H;
    cbn [undrain op_plain op_c15 not_restart]; repeat split; try assumption.
  destruct w; try reflexivity. discriminate H.
Qed.

Lemma op_wf_undrain1 o : op_wf o -> op_wf (undrain o).
Proof. destruct o; intros H; try exact H; exact I. Qed.

Lemma mi_run_op c0 cs y sp o n b :
  MI (c0 :: cs) y sp (n + N.of_nat (length (op_entries o))) (b + bytes_of (op_entries o)) ->
  op_c07 sp o = true -> op_wf o -> op_above_bounds y o = true ->
  exists y' r, run_op y o = (Some y', r) /\ MI (c0 :: cs) y' (spec_op sp o) n b.
Proof.
  intros [HI HCI HHB (yB & Hyy & HF)] Hc Hw Hab.
  destruct (op_c07_shadow sp o Hc) as (Hp & H15 & Hnr & Eent & Esp).
  destruct (I7_run_op y sp o HI Hc Hw Hab) as (y' & r & Hop & HI').
  exists y', r. split; [exact Hop|].
  rewrite <- Eent in HF.
  destruct (fis_run_op c0 cs yB sp (undrain o) n b HF Hp (op_wf_undrain1 o Hw)) as (yB' & rB & HopB & HF').
  rewrite Esp in HF'.
  constructor.
  - exact HI'.
  - apply (CI_run_op y o y' r HCI H15 Hw Hop).
  - apply (HB_run_op y sp o y' r HHB HI HI' Hw Hnr Hop).
  - exists yB'. split; [|exact HF'].
    pose proof (run_op_yeq y yB o Hyy Hnr) as H. rewrite Hop, HopB in H. exact H.
Qed.

Lemma mi_restart c0 cs y sp cb c cB n b :
  MI (c0 :: cs) y sp n b -> In cB (c0 :: cs) -> cfgq c cB -> c_truncate c = c_truncate cB ->
  exists y1 r1 y3, run_op y (OFlush cb) = (Some y1, r1) /\
    run_op y1 (ORestart c) = (Some y3, ResOpened) /\ MI (c0 :: cs) y3 sp n b.
Proof.
  intros HM HcB Hcq Htr.
  assert (HM0 : MI (c0 :: cs) y sp (n + N.of_nat (length (op_entries (OFlush cb))))
                   (b + bytes_of (op_entries (OFlush cb)))).
  { eapply MI_mono; [exact HM|cbn; lia|cbn; lia]. }
  destruct (mi_run_op c0 cs y sp (OFlush cb) n b HM0 eq_refl I eq_refl) as (y1 & r1 & Hop1 & HM1).
  cbn [spec_op] in HM1.
  assert (Hp1 : k_pending (y_core y1) = []).
  { cbn [run_op] in Hop1. unfold do_flush in Hop1. inversion Hop1; subst y1.
    rewrite JournalFacts.apply_effs_core. reflexivity. }
  assert (HM1' : MI (c0 :: cs) y1 sp (n + N.of_nat (length (op_entries OIdle))) (b + bytes_of (op_entries OIdle))).
  { eapply MI_mono; [exact HM1|cbn; lia|cbn; lia]. }
  destruct (mi_run_op c0 cs y1 sp OIdle n b HM1' eq_refl I eq_refl) as (y2 & r2 & Hop2 & HM2).
  cbn [spec_op] in HM2. cbn [run_op] in Hop2. inversion Hop2; subst y2 r2. clear Hop2.
  assert (Hq2 : y_queue (worker_idle y1) = []) by apply worker_idle_queue.
  assert (Hp2 : k_pending (y_core (worker_idle y1)) = []).
  { destruct (JournalDisk.worker_idle_core y1) as (_ & _ & E & _). rewrite E. exact Hp1. }
  destruct HM2 as [HI2 [HJI2 _] HHB2 (yB & Hyy & HF)].
  pose proof HF as HF0. unfold FIs in HF0. rewrite Forall_forall in HF0.
  destruct (restart_gen c cB (worker_idle y1) yB sp n b HI2 HJI2 HHB2 Hyy (HF0 cB HcB) Hcq Htr Hq2 Hp2)
    as (y3 & yB3 & Ho & HoB & Hyy3 & HI3 & HCI3 & HHB3).
  exists y1, r1, y3. split; [exact Hop1|]. split.
  - cbn [run_op]. rewrite Ho. reflexivity.
  - constructor; try assumption. exists yB3. split; [exact Hyy3|].
    pose proof Hyy as [Hkk _ Hqq _ _]. pose proof Hkk as [_ _ _ Kp _ _ _].
    assert (HqB : y_queue yB = []) by (rewrite <- Hqq; exact Hq2).
    assert (HpB : k_pending (y_core yB) = []) by (rewrite <- Kp; exact Hp2).
    unfold FIs. rewrite Forall_forall. intros c2 Hc2.
    apply (reopen_FI cB c2 yB sp n b yB3 (HF0 cB HcB) (HF0 c2 Hc2) HqB HpB HoB).
Qed.

(* legal histories with clean restarts: every restart directly preceded by a flush *)
Fixpoint ops_c07r (sp : spec) (ops : list op) : bool :=
  match ops with
  | [] => true
  | o :: r =>
    match o, r with
    | OFlush _, ORestart _ :: r' => ops_c07r sp r'
    | _, _ => op_c07 sp o && ops_c07r (spec_op sp o) r
    end
  end.

(* the run-time check: [run_ok_c07b] follows the run through the restarts (the bounds of a
   reopened store are those the restart installed); nothing has to be tested at a restart
   itself, since [restart_ok] is implied ([restart_ok_holds]) *)
Definition run_ok_c07r (y : sys) (ops : list op) : bool := run_ok_c07b y ops.

Lemma mi_run_ops : forall m ops, (length ops <= m)%nat ->
  forall c0 cs y sp res fin n b,
  MI (c0 :: cs) y sp (n + N.of_nat (length (Hist.appended ops))) (b + appended_bytes ops) ->
  (forall c, In c (restart_cfgs ops) ->
     exists cB, In cB (c0 :: cs) /\ cfgq c cB /\ c_truncate c = c_truncate cB) ->
  ops_c07r sp ops = true -> Forall op_wf ops -> run_ok_c07r y ops = true -> run_ops y ops = (res, fin) ->
  exists y', fin = Some y' /\ MI (c0 :: cs) y' (spec_ops sp ops) n b.
Proof.
  unfold run_ok_c07r.
  induction m as [|m IH]; intros ops Hlen c0 cs y sp res fin n b HM Hcs Hp Hwf Hok Hrun.
  - destruct ops; [|cbn in Hlen; lia].
    cbn [run_ops] in Hrun. inversion Hrun. subst. exists y. split; [reflexivity|].
    cbn [spec_ops fold_left]. eapply MI_mono; [exact HM|lia|lia].
  - destruct ops as [|o r].
    { cbn [run_ops] in Hrun. inversion Hrun. subst. exists y. split; [reflexivity|].
      cbn [spec_ops fold_left]. eapply MI_mono; [exact HM|lia|lia]. }
    assert (Hplain : op_c07 sp o && ops_c07r (spec_op sp o) r = true ->
                     exists y', fin = Some y' /\ MI (c0 :: cs) y' (spec_ops sp (o :: r)) n b).
    { intros Hp'. apply andb_true_iff in Hp'. destruct Hp' as [Hp1 Hp2].
      inversion Hwf as [|? ? Hw1 Hw2]; subst.
      cbn [run_ok_c07b] in Hok. apply andb_true_iff in Hok. destruct Hok as [Hok1 Hok2].
      assert (M1 : MI (c0 :: cs) y sp
                ((n + N.of_nat (length (Hist.appended r))) + N.of_nat (length (op_entries o)))
                ((b + appended_bytes r) + bytes_of (op_entries o))).
      { eapply MI_mono; [exact HM| |].
        - rewrite appended_cons, app_length, Nat2N.inj_add. lia.
        - rewrite !appended_bytes_of, appended_cons, bytes_of_app. lia. }
      destruct (mi_run_op c0 cs y sp o _ _ M1 Hp1 Hw1 Hok1) as (y' & r0 & Hop & M').
      cbn [run_ops] in Hrun. rewrite Hop in Hrun, Hok2.
      destruct (run_ops y' r) as [rs fin'] eqn:Er. inversion Hrun. subst.
      cbn [spec_ops fold_left].
      apply (IH r ltac:(cbn [length] in Hlen; lia) c0 cs y' (spec_op sp o) rs fin n b M'); try assumption.
      intros c Hc. apply Hcs. apply restart_cfgs_cons_incl. exact Hc. }
    destruct o as [w|cb|from to| | | | | |cfg]; try (apply Hplain; exact Hp).
    destruct r as [|o2 r']; [apply Hplain; exact Hp|].
    destruct o2 as [w2|cb2|from2 to2| | | | | |c]; try (apply Hplain; exact Hp).
    (* OFlush cb :: ORestart c :: r' *)
    cbn [ops_c07r] in Hp.
    inversion Hwf as [|? ? _ Hwf1]; subst. inversion Hwf1 as [|? ? _ Hwf2]; subst.
    destruct (Hcs c) as (cB & HcB & Hcq & Htr); [cbn [restart_cfgs]; left; reflexivity|].
    assert (M1 : MI (c0 :: cs) y sp (n + N.of_nat (length (Hist.appended r'))) (b + appended_bytes r')).
    { exact HM. }
    destruct (mi_restart c0 cs y sp cb c cB _ _ M1 HcB Hcq Htr) as (y1 & r1 & y3 & Hop1 & Hop2 & M3).
    cbn [run_ok_c07b] in Hok. rewrite Hop1 in Hok. cbn [op_above_bounds andb] in Hok.
    rewrite Hop2 in Hok.
    cbn [run_ops] in Hrun. rewrite Hop1 in Hrun. cbv beta iota in Hrun.
    rewrite Hop2 in Hrun. cbv beta iota in Hrun.
    destruct (run_ops y3 r') as [rs3 fin3] eqn:Er3. cbv beta iota in Hrun.
    inversion Hrun; subst. clear Hrun.
    cbn [spec_ops fold_left spec_op].
    apply (IH r' ltac:(cbn [length] in Hlen; lia) c0 cs y3 sp rs3 fin n b M3); try assumption.
    intros c1 Hc1. apply Hcs. cbn [restart_cfgs]. right. exact Hc1.
Qed.

(* ================================================================== C07 across any number of clean restarts *)
Theorem C07_restarts_reads_total : forall cfg ops res fin,
  ops_c07r spec0 ops = true -> Forall op_wf ops ->
  (match open_dir cfg [] with OpenOk y0 => run_ok_c07r y0 ops = true | _ => False end) ->
  run_case cfg ops = (res, fin) ->
  exists y, fin = Some y /\ observes y (spec_ops spec0 ops).
Proof.
  intros cfg ops res fin Hp Hwf Hok Hrun.
  unfold run_case in Hrun. rewrite open_dir_nil in Hrun, Hok.
  set (big := fun c => big_of c ops).
  assert (M0 : MI (big cfg :: map big (restart_cfgs ops)) (sys0 cfg) spec0
                  (0 + N.of_nat (length (Hist.appended ops))) (0 + appended_bytes ops)).
  { constructor.
    - apply I7_init.
    - apply CacheRestart.CI_init.
    - apply HB_init.
    - exists (sys0 (big cfg)). split; [apply sys0_yeq; split; reflexivity|].
      unfold FIs. rewrite Forall_forall. intros c Hc.
      assert (Ec : exists c1, c = big c1).
      { destruct Hc as [Hc|Hc]; [exists cfg; symmetry; exact Hc|].
        apply in_map_iff in Hc. destruct Hc as (c1 & E & _). exists c1. symmetry. exact E. }
      destruct Ec as [c1 Ec]. subst c. apply FI_init; unfold big, big_of; cbn [c_max_items c_capacity]; lia. }
  destruct (mi_run_ops (length ops) ops (le_n _) (big cfg) (map big (restart_cfgs ops)) (sys0 cfg) spec0
              res fin 0 0 M0) as (y & E & M); try assumption.
  - intros c Hc. exists (big c). split; [right; apply in_map; exact Hc|]. split; [split; reflexivity|reflexivity].
  - exists y. split; [exact E|]. apply I7_observes. apply (mi_i7 _ _ _ _ _ M).
Qed.

Print Assumptions C07_restarts_reads_total.

(* the hypotheses are satisfiable: a zero-size cache with chunks of three records, a restart
   under a one-item cache with chunks of four, truncation and re-append above the
   boundaries, drain, purge, a second restart under a zero-size cache with chunks of two,
   a further append; the last read and the snapshot iteration return the reference log *)
Example C07_restarts_hyps_inhabited :
  let cfg := mkConfig 0 0 3 100000 true in
  let cfg1 := mkConfig 1 10 4 100000 false in
  let cfg2 := mkConfig 0 0 2 100000 true in
  let ops := [OW (OAppend [((1, 0), [x01]); ((1, 1), []); ((1, 2), [])]); OFlush true; ORestart cfg1;
              OW (OTruncate 2); OW (OAppend [((2, 2), []); ((2, 3), [x02])]); ODrain; ORead 0 10;
              OW (OPurge (1, 0)); OFlush false; ORestart cfg2;
              OW (OAppend [((3, 4), [x03])]); ORead 0 10; ODumpIter] in
  ops_c07r spec0 ops = true /\ Forall op_wf ops /\
  (match open_dir cfg [] with OpenOk y0 => run_ok_c07r y0 ops = true | _ => False end) /\
  restart_cfgs ops = [cfg1; cfg2] /\
  sp_entries (spec_ops spec0 ops) = [((1, 1), []); ((2, 2), []); ((2, 3), [x02]); ((3, 4), [x03])] /\
  exists res y, run_case cfg ops = (res, Some y) /\
    nth 11 res ResPanic =
      ResRead [RIOk (1, 1) []; RIOk (2, 2) []; RIOk (2, 3) [x02]; RIOk (3, 4) [x03]] /\
    ch_entries (m_cache (k_sm (y_core y))) = [((2, 3), [x02]); ((3, 4), [x03])].
Proof.
  cbv zeta. split; [vm_compute; reflexivity|]. split.
  { repeat constructor; cbn; unfold wf_pair, wf_u64, wf_bytes; cbn; lia. }
  split; [vm_compute; reflexivity|]. split; [reflexivity|]. split; [vm_compute; reflexivity|].
  eexists. eexists. split; [vm_compute; reflexivity|]. split; vm_compute; reflexivity.
Qed.

Print Assumptions C07_restarts_hyps_inhabited.
