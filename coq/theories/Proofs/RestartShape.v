(* The shape of the state that [open_dir] builds from ANY directory that opens
   (not only from directories left by an earlier run): which files exist afterwards,
   how they relate to the chunk list of the new core, and which files are completely
   synced. Used by RestartSys.v to start the L2 invariants at [zinit cfg d]. *)
From Coq Require Import List NArith Bool Lia Arith Sorting.Sorted.
From Coq Require Import ZifyBool ZifyN ZifyNat.
From Coq.Strings Require Import Byte.
From RaftLog Require Import Base.Bytes Model.Types Model.Codec Model.Cache Model.Core
  Model.Recover Model.Run Model.Sys Spec.Durable.
From RaftLog Require Import Proofs.CodecFacts Proofs.NoPanic Proofs.ScanFacts Proofs.RecoverFacts
  Proofs.AckFacts.
From RaftLog Require Proofs.AckDurable.
Import ListNotations.
Local Open Scope N_scope.
Arguments N.add : simpl never.
Arguments N.sub : simpl never.
Arguments N.mul : simpl never.
Arguments N.eqb : simpl never.
Arguments N.ltb : simpl never.
Arguments N.leb : simpl never.
Arguments N.min : simpl never.
Arguments N.compare : simpl never.
Arguments N.of_nat : simpl never.
Arguments N.to_nat : simpl never.
Local Arguments enc_record : simpl never.

Module AD := AckDurable.
Notation fend := AD.fend.
Notation full_synced := AD.full_synced.
Notation contig := AD.contig.

(* ------------------------------------------------------------------ lists *)
Lemma list_rev_case {A} (l : list A) : l = [] \/ exists l0 x, l = l0 ++ [x].
Proof.
  destruct l as [|a l] using rev_ind; [now left|]. right. eauto.
Qed.

Lemma split_last_spec {A} (l : list A) : forall i x, split_last l = Some (i, x) -> l = i ++ [x].
Proof.
  induction l as [|a l IH]; intros i x H; cbn [split_last] in H; [discriminate|].
  destruct l as [|b l'].
  - inversion H; subst. reflexivity.
  - destruct (split_last (b :: l')) as [[i' z]|] eqn:E; [|discriminate].
    inversion H; subst. cbn [app]. f_equal. now apply IH.
Qed.

Lemma split_last_none {A} (l : list A) : split_last l = None -> l = [].
Proof.
  destruct (list_rev_case l) as [->|(l0 & x & ->)]; [reflexivity|].
  rewrite split_last_app. discriminate.
Qed.

Lemma Forall_removelast {A} (P : A -> Prop) (l : list A) : Forall P l -> Forall P (removelast l).
Proof.
  destruct (list_rev_case l) as [->|(l0 & x & ->)]; [auto|].
  rewrite removelast_last, Forall_app. tauto.
Qed.

Lemma contig_snoc' l g : contig l ->
  (forall l0 f, l = l0 ++ [f] -> fend f = f_id g) -> contig (l ++ [g]).
Proof.
  intros Hc Hl. destruct (list_rev_case l) as [->|(l0 & f & ->)].
  - simpl. auto.
  - apply AD.contig_snoc; [exact Hc|]. eapply Hl; reflexivity.
Qed.

Lemma disk_remove_last P p : disk_sorted (P ++ [p]) -> disk_remove (f_id p) (P ++ [p]) = P.
Proof.
  intros Hs. apply AD.sorted_app_inv in Hs. destruct Hs as (_ & _ & Hlt).
  unfold disk_remove. rewrite filter_app. cbn [filter]. rewrite N.eqb_refl. cbn [negb].
  rewrite app_nil_r. apply AD.disk_remove_absent.
  rewrite Forall_forall. intros f Hf. specialize (Hlt f p Hf (or_introl eq_refl)). lia.
Qed.

(* ------------------------------------------------------------------ Chunk::open on any bytes *)
Lemma chunk_open_shape cfg id data oc :
  chunk_open cfg id data = inl oc ->
  exists rs, oc_chunk oc = chunk_of id rs /\
    ((oc_truncated oc = false /\ oc_data oc = data /\ data = encs rs) \/
     (oc_truncated oc = true /\ oc_data oc = encs rs)).
Proof.
  intros H. destruct (scan_file data) as [[recs rest] e] eqn:Es.
  destruct (scan_file_sound _ _ _ _ Es) as (E1 & _ & E3).
  pose proof (scan_file_end _ _ _ _ Es) as Hend.
  apply sized_of_sound in E3. remember (map fst recs) as rs eqn:Ers. clear Ers.
  subst data recs. rewrite (chunk_open_of_scan _ _ _ _ _ Es) in H.
  exists rs. destruct e.
  - subst rest. inversion H; subst oc. cbn [oc_chunk oc_truncated oc_data].
    split; [reflexivity|]. left. rewrite app_nil_r. auto.
  - destruct (c_truncate cfg); [|discriminate]. inversion H; subst oc.
    cbn [oc_chunk oc_truncated oc_data]. split; [reflexivity|]. right. auto.
  - destruct (all_zero rest && c_truncate cfg); [|discriminate]. inversion H; subst oc.
    cbn [oc_chunk oc_truncated oc_data]. split; [reflexivity|]. right. auto.
  - discriminate.
Qed.

Lemma chunk_of_ends_nil id rs : ck_ends (chunk_of id rs) = [] -> rs = [].
Proof. destruct rs; [reflexivity|discriminate]. Qed.

Lemma encs_pos rs : rs <> [] -> 0 < N.of_nat (length (encs rs)).
Proof.
  destruct rs as [|r rs]; [congruence|]. intros _.
  pose proof (encs_nonempty r rs) as H. destruct (encs (r :: rs)); [congruence|]. simpl. lia.
Qed.

(* ------------------------------------------------------------------ the loop over the files *)
(* a processed file and the closed chunk made from it *)
Definition frel (p : file) (c : closed) : Prop :=
  f_id p = ck_id (cl_chunk c) /\ fend p = ck_end (cl_chunk c) /\ f_id p < fend p /\
  (cl_truncated c = true -> full_synced p).

Lemma frel_cids P cl : Forall2 frel P cl -> map f_id P = cids cl.
Proof.
  induction 1 as [|p c P cl H _ IH]; [reflexivity|]. unfold cids in *. cbn [map].
  destruct H as (H & _). now rewrite H, IH.
Qed.

Section Loop.
(* [Q]: what is known of every file but the newest; [S]: what is known of every file;
   both hold of a file that has just been truncated and synced *)
Variables Q S : file -> Prop.
Hypothesis HQ : forall id data, Q (mkFile id data (N.of_nat (length data))).
Hypothesis HS : forall id data, S (mkFile id data (N.of_nat (length data))).

Lemma Q_full f : full_synced f -> Q f.
Proof. destruct f as [id data syn]. unfold AD.full_synced. cbn [f_synced f_data]. intros ->. apply HQ. Qed.

Lemma open_loop_shape cfg : forall files a P a',
  open_loop cfg files a = inl a' ->
  oa_disk a = P ++ files ->
  disk_sorted (P ++ files) ->
  Forall S (P ++ files) ->
  Forall Q (removelast (P ++ files)) ->
  Forall2 frel P (oa_closed a) ->
  contig P ->
  (P = [] -> oa_prev_end a = None) ->
  (forall P0 pl, P = P0 ++ [pl] -> oa_prev_end a = Some (fend pl)) ->
  disk_sorted (oa_disk a') /\ Forall S (oa_disk a') /\
  Forall Q (removelast (oa_disk a')) /\ Forall2 frel (oa_disk a') (oa_closed a') /\
  contig (oa_disk a') /\
  (forall P0 pl, oa_disk a' = P0 ++ [pl] -> oa_prev_end a' = Some (fend pl)).
Proof.
  induction files as [|f rest IH]; intros a P a' H Hd Hs Hle HQr Hrel Hc Hp0 Hp1.
  - cbn [open_loop] in H. inversion H; subst a'. rewrite app_nil_r in *. rewrite Hd.
    repeat split; assumption.
  - rewrite open_loop_eq in H.
    destruct (gap_at a (f_id f)) eqn:Egap; [discriminate|].
    destruct (chunk_open cfg (f_id f) (f_data f)) as [oc|e] eqn:Eoc; [|discriminate].
    cbv zeta in H.
    destruct (chunk_open_shape _ _ _ _ Eoc) as (rs & Ech & Hcase).
    (* the file as the loop leaves it *)
    set (p' := if oc_truncated oc then mkFile (f_id f) (oc_data oc) (N.of_nat (length (oc_data oc))) else f).
    assert (Hid : f_id p' = f_id f) by (unfold p'; destruct (oc_truncated oc); reflexivity).
    assert (Hend : fend p' = ck_end (oc_chunk oc)).
    { rewrite Ech, ck_end_chunk_of. unfold p', AD.fend.
      destruct Hcase as [(-> & E1 & E2)|(-> & E1)].
      - rewrite <- E2. reflexivity.
      - cbn [f_id f_data]. rewrite E1. reflexivity. }
    assert (Hle' : S p').
    { unfold p'. destruct (oc_truncated oc).
      - apply HS.
      - rewrite Forall_app in Hle. destruct Hle as [_ Hle]. now inversion Hle. }
    assert (Htr : oc_truncated oc = true -> full_synced p').
    { unfold p'. intros ->. reflexivity. }
    assert (Hd1 : trunc_disk (f_id f) oc (oa_disk a) = P ++ p' :: rest).
    { unfold trunc_disk, p'. rewrite Hd. destruct (oc_truncated oc); [|reflexivity].
      apply AD.disk_put_mid; [reflexivity|exact Hs]. }
    assert (Hs1 : disk_sorted (P ++ p' :: rest)).
    { rewrite <- Hd1. unfold trunc_disk. rewrite Hd. destruct (oc_truncated oc); [|exact Hs].
      apply disk_put_sorted. exact Hs. }
    assert (Hle1 : Forall S (P ++ p' :: rest)).
    { rewrite Forall_app in *. destruct Hle as [Ha Hb]. split; [exact Ha|].
      inversion Hb; subst. constructor; assumption. }
    assert (Hgap : forall P0 pl, P = P0 ++ [pl] -> fend pl = f_id f).
    { intros P0 pl E. specialize (Hp1 _ _ E). unfold gap_at in Egap. rewrite Hp1 in Egap.
      apply negb_false_iff in Egap. now apply N.eqb_eq in Egap. }
    rewrite Hd1 in H.
    destruct (ck_ends (oc_chunk oc)) as [|e0 el] eqn:Eends; [destruct rest as [|g rest']|].
    + (* the newest file has no complete record: it is removed *)
      inversion H; subst a'. cbn [oa_disk oa_closed oa_prev_end].
      rewrite <- Hid, disk_remove_last by exact Hs1.
      rewrite removelast_last in HQr.
      apply AD.sorted_app_inv in Hs1. destruct Hs1 as (Hs1 & _).
      rewrite Forall_app in Hle. destruct Hle as [Hle _].
      repeat split; try assumption.
      * now apply Forall_removelast.
      * intros P0 pl E. rewrite Hid. f_equal. symmetry. eapply Hgap; eauto.
    + (* an older file without a complete record: the next file would need the same name *)
      exfalso. rewrite Ech in Eends. apply chunk_of_ends_nil in Eends. subst rs.
      destruct (replay (sm_pre a) (f_id f) (f_id f) (oc_records oc) []) as [s1 [er|]]; [discriminate|].
      apply AD.sorted_app_inv in Hs1. destruct Hs1 as (_ & Hs1 & _).
      inversion Hs1 as [|? ? _ Hf]; subst. inversion Hf as [|? ? Hlt _]; subst. unfold file_lt in Hlt.
      clear - H Hlt Ech Hid.
      rewrite open_loop_eq in H. unfold gap_at in H. cbn [oa_prev_end] in H.
      rewrite Ech, ck_end_chunk_of in H. change (encs []) with (@nil byte) in H.
      cbn [length] in H. destruct (N.eqb_spec (f_id f + N.of_nat 0) (f_id g)) as [E|E]; [lia|].
      cbn [negb] in H. discriminate.
    + (* a file with records *)
      assert (Hrs : rs <> []).
      { intros ->. rewrite Ech in Eends. discriminate. }
      assert (Hpos : f_id p' < fend p').
      { rewrite Hend, Ech, ck_end_chunk_of, Hid. pose proof (encs_pos _ Hrs). lia. }
      assert (H' : match replay (sm_pre a) (f_id f) (f_id f) (oc_records oc) (e0 :: el) with
                   | (s1, Some er) => inr (er, P ++ p' :: rest)
                   | (s1, None) =>
                     open_loop cfg rest
                       (mkOA s1 (closed_insert (mkClosed (oc_chunk oc) (m_rs s1) (oc_truncated oc)) (oa_closed a))
                             (Some (ck_end (oc_chunk oc))) (r_last (m_rs s1)) (P ++ p' :: rest))
                   end = inl a') by (destruct rest; exact H).
      clear H.
      destruct (replay (sm_pre a) (f_id f) (f_id f) (oc_records oc) (e0 :: el)) as [s1 [er|]]; [discriminate|].
      set (cl := mkClosed (oc_chunk oc) (m_rs s1) (oc_truncated oc)) in *.
      assert (Hins : closed_insert cl (oa_closed a) = oa_closed a ++ [cl]).
      { apply closed_insert_last. pose proof (frel_cids _ _ Hrel) as Ec.
        assert (Hall : Forall (fun x => x < ck_id (cl_chunk cl)) (cids (oa_closed a))).
        { rewrite <- Ec. unfold cl. cbn [cl_chunk]. rewrite (chunk_open_id _ _ _ _ Eoc).
          apply AD.sorted_app_inv in Hs. destruct Hs as (_ & _ & Hlt).
          rewrite Forall_forall. intros x Hx. apply in_map_iff in Hx. destruct Hx as (g & <- & Hg).
          apply Hlt; [exact Hg|now left]. }
        unfold cids in Hall. rewrite Forall_map in Hall. exact Hall. }
      rewrite Hins in H'.
      eapply (IH _ (P ++ [p'])) in H'; cbn [oa_disk oa_closed oa_prev_end].
      * exact H'.
      * rewrite <- app_assoc. reflexivity.
      * rewrite <- app_assoc. exact Hs1.
      * rewrite <- app_assoc. exact Hle1.
      * destruct rest as [|g rest'].
        -- rewrite app_nil_r, removelast_last. rewrite removelast_last in HQr. exact HQr.
        -- rewrite removelast_app in HQr by discriminate.
           rewrite removelast_app by discriminate.
           change (removelast (f :: g :: rest')) with (f :: removelast (g :: rest')) in HQr.
           rewrite !Forall_app in *. destruct HQr as [HQ1 HQ2]. inversion HQ2 as [|? ? HQf HQ3]; subst.
           repeat split; try assumption. constructor; [|constructor].
           unfold p'. destruct (oc_truncated oc); [apply HQ|exact HQf].
      * apply Forall2_app; [exact Hrel|]. constructor; [|constructor].
        unfold frel, cl. cbn [cl_chunk cl_truncated]. rewrite (chunk_open_id _ _ _ _ Eoc).
        repeat split; assumption.
      * apply contig_snoc'; [exact Hc|]. intros l0 g E. rewrite Hid. eapply Hgap; eauto.
      * intros E. destruct P; discriminate.
      * intros P0 pl E. apply app_inj_tail in E. destruct E as [_ <-]. now rewrite Hend.
Qed.
End Loop.

(* ------------------------------------------------------------------ the result of open_dir *)
Record opened (S : file -> Prop) (y : sys) (old : list file) (fc : file) : Prop := {
  o_disk : y_disk y = old ++ [fc];
  o_sorted : disk_sorted (y_disk y);
  o_le : Forall S (y_disk y);
  o_contig : contig (old ++ [fc]);
  o_closed : map f_id old = cids (k_closed (y_core y));
  o_id : f_id fc = ck_id (k_open (y_core y));
  o_end : fend fc = ck_end (k_open (y_core y));
  o_pos : f_id fc < fend fc;
  o_pending : k_pending (y_core y) = [];
  o_removed : k_removed (y_core y) = [];
  o_cb : k_next_cb (y_core y) = 0;
  o_queue : y_queue y = [];
  o_acks : y_acks y = [];
  o_files : exists pl, y_files y = [mkWF (f_id fc) pl] }.

Lemma reusable_some l init lastc : reusable l = Some (init, lastc) ->
  l = init ++ [lastc] /\ cl_truncated lastc = false.
Proof.
  unfold reusable. destruct (split_last l) as [[i x]|] eqn:E; [|discriminate].
  destruct (cl_truncated x) eqn:Et; [discriminate|]. intros H. inversion H; subst.
  split; [now apply split_last_spec|exact Et].
Qed.

Lemma reusable_none l : reusable l = None ->
  l = [] \/ exists init lastc, l = init ++ [lastc] /\ cl_truncated lastc = true.
Proof.
  unfold reusable. destruct (split_last l) as [[i x]|] eqn:E.
  - destruct (cl_truncated x) eqn:Et; [|discriminate]. intros _. right. exists i, x.
    split; [now apply split_last_spec|exact Et].
  - intros _. left. now apply split_last_none.
Qed.

Section Shape.
Variables Q S : file -> Prop.
Hypothesis HQ : forall id data, Q (mkFile id data (N.of_nat (length data))).
Hypothesis HS : forall id data, S (mkFile id data (N.of_nat (length data))).
Hypothesis HS0 : forall id data, S (mkFile id data 0).

Theorem open_dir_shape cfg d y :
  open_dir cfg d = OpenOk y -> disk_sorted d -> Forall S d -> Forall Q (removelast d) ->
  exists old fc, opened S y old fc /\ Forall Q old.
Proof.
  intros H Hs Hle HQd. rewrite open_dir_eq in H.
  destruct (open_loop cfg d (acc0 cfg d)) as [a|[e d']] eqn:El; [|discriminate].
  apply (open_loop_shape Q S HQ HS cfg d (acc0 cfg d) []) in El; cbn [app acc0 oa_disk oa_closed oa_prev_end];
    try assumption; try reflexivity; try constructor.
  2:{ intros P0 pl E. destruct P0; discriminate. }
  destruct El as (Hs' & Hle' & HQ' & Hrel & Hc & Hprev).
  unfold open_finish in H.
  destruct (reusable (oa_closed a)) as [[init lastc]|] eqn:Er.
  - (* the last closed chunk is reopened *)
    apply reusable_some in Er. destruct Er as [Ecl Etr]. inversion H; subst y; clear H.
    rewrite Ecl in Hrel. apply Forall2_app_inv_r in Hrel.
    destruct Hrel as (old & l2 & Hr1 & Hr2 & ED). inversion Hr2 as [|fc ? ? ? Hfc Hnil]; subst.
    inversion Hnil; subst. destruct Hfc as (Hid & Hend & Hpos & _).
    exists old, fc. rewrite ED in *. rewrite removelast_last in HQ'. split; [|exact HQ'].
    constructor; cbn [y_disk y_core y_queue y_acks y_files k_closed k_open k_pending k_removed k_next_cb];
      try assumption; try reflexivity.
    + now apply frel_cids.
    + rewrite Hid. eauto.
  - (* a new chunk file is created *)
    apply reusable_none in Er.
    set (id := match oa_prev_end a with Some p => p | None => 0 end) in *.
    destruct (disk_get id (oa_disk a)) eqn:Eg; [discriminate|].
    inversion H; subst y; clear H.
    set (head := enc_record (RState (m_rs (oa_sm a)))) in *.
    set (nf := mkFile id head 0).
    assert (Hhead : 0 < N.of_nat (length head)).
    { pose proof (enc_record_min_len (RState (m_rs (oa_sm a)))). unfold head. lia. }
    assert (Hlt : AD.ids_lt (oa_disk a) id).
    { destruct (list_rev_case (oa_disk a)) as [E|(P0 & pl & E)]; [rewrite E; constructor|].
      pose proof (Hprev _ _ E) as Hp. unfold id. rewrite Hp.
      assert (Hpl : f_id pl < fend pl).
      { rewrite E in Hrel. apply Forall2_app_inv_l in Hrel.
        destruct Hrel as (c1 & c2 & _ & Hr2 & _). inversion Hr2 as [|? c ? ? Hf _]; subst. apply Hf. }
      rewrite E in Hs' |- *. apply AD.sorted_app_inv in Hs'. destruct Hs' as (_ & _ & Hlt).
      unfold AD.ids_lt. rewrite Forall_app. split.
      - rewrite Forall_forall. intros f Hf. specialize (Hlt f pl Hf (or_introl eq_refl)). lia.
      - constructor; [exact Hpl|constructor]. }
    assert (Hput : disk_put nf (oa_disk a) = oa_disk a ++ [nf]) by (apply AD.disk_put_end; exact Hlt).
    exists (oa_disk a), nf. split.
    + constructor; cbn [y_disk y_core y_queue y_acks y_files k_closed k_open k_pending k_removed k_next_cb].
      * exact Hput.
      * apply disk_put_sorted. exact Hs'.
      * apply disk_put_Forall; [|exact Hle']. apply HS0.
      * apply contig_snoc'; [exact Hc|]. intros l0 f E. cbn [f_id nf]. unfold id.
        now rewrite (Hprev _ _ E).
      * now apply frel_cids.
      * reflexivity.
      * rewrite ck_end_push. reflexivity.
      * unfold AD.fend, nf. cbn [f_id f_data]. lia.
      * reflexivity.
      * reflexivity.
      * reflexivity.
      * reflexivity.
      * reflexivity.
      * eauto.
    + destruct Er as [Ecl|(init & lastc & Ecl & Etr)].
      * rewrite Ecl in Hrel. inversion Hrel. constructor.
      * rewrite Ecl in Hrel. apply Forall2_app_inv_r in Hrel.
        destruct Hrel as (old & l2 & Hr1 & Hr2 & ED). inversion Hr2 as [|fc ? ? ? Hfc Hnil]; subst.
        inversion Hnil; subst. destruct Hfc as (_ & _ & _ & Hfull).
        rewrite ED in *. rewrite removelast_last in HQ'. rewrite Forall_app. split; [exact HQ'|].
        constructor; [|constructor]. apply (Q_full Q HQ). now apply Hfull.
Qed.
End Shape.

Print Assumptions open_dir_shape.
