(* Facts about the record iterator [scan] / [scan_file] of Model/Recover.v
   (property C10, part A):
     - the fuel never runs out;
     - a file made of complete records scans to exactly these records;
     - a torn tail (proper prefix of a record) stops with SEof, keeping the
       complete records; every cut position of a file of records has this shape;
     - a zero tail stops with SEof (fewer than 28 zero bytes) or SInvalid;
     - whatever is scanned is the canonical encoding of the records returned. *)
From Coq Require Import List NArith Lia Bool Arith.
From Coq.Strings Require Import Byte.
From RaftLog Require Import Base.Bytes Base.Crc32 Model.Types Model.Codec Model.Cache
  Model.Core Model.Recover.
From RaftLog Require Import Proofs.CodecFacts.
Import ListNotations.

Definition encs (rs : list record) : bytes := concat (map enc_record rs).
Definition sized (rs : list record) : list (record * N) := map (fun r => (r, rec_size r)) rs.

Lemma encs_nil : encs [] = [].
Proof. reflexivity. Qed.

Lemma encs_cons r rs : encs (r :: rs) = enc_record r ++ encs rs.
Proof. reflexivity. Qed.

Lemma encs_app rs1 rs2 : encs (rs1 ++ rs2) = encs rs1 ++ encs rs2.
Proof. unfold encs. rewrite map_app, concat_app. reflexivity. Qed.

Lemma sized_fst rs : map fst (sized rs) = rs.
Proof.
  unfold sized. rewrite map_map. cbn [fst]. apply map_id.
Qed.

Lemma sized_snd rs : map snd (sized rs) = map rec_size rs.
Proof.
  unfold sized. rewrite map_map. reflexivity.
Qed.

Lemma sized_app rs1 rs2 : sized (rs1 ++ rs2) = sized rs1 ++ sized rs2.
Proof. apply map_app. Qed.

Lemma sized_length rs : length (sized rs) = length rs.
Proof. apply map_length. Qed.

Lemma encs_length rs :
  N.of_nat (length (encs rs)) = fold_right N.add 0%N (map rec_size rs).
Proof.
  induction rs as [|r rs IH]; [reflexivity|].
  rewrite encs_cons, app_length, Nat2N.inj_add, IH. reflexivity.
Qed.

Lemma encs_nonempty r rs : encs (r :: rs) <> [].
Proof.
  rewrite encs_cons. intros H. apply (f_equal (@length byte)) in H.
  rewrite app_length in H. pose proof (enc_record_min_len r). cbn [length] in H. lia.
Qed.

(* ------------------------------------------------------------------ *)
(* 1. Fuel                                                             *)
(* ------------------------------------------------------------------ *)

Lemma scan_eq_S fuel bs :
  scan (S fuel) bs =
  match bs with
  | [] => ([], [], SEnd)
  | _ =>
    match dec_record bs with
    | DOk (r, rest) =>
      let '(rs, tl, e) := scan fuel rest in
      ((r, N.of_nat (length bs - length rest)) :: rs, tl, e)
    | DEof => ([], bs, SEof)
    | DInvalid => ([], bs, SInvalid)
    end
  end.
Proof.
  cbn [scan]. destruct bs as [|b bs]; [reflexivity|].
  destruct (dec_record (b :: bs)) as [[r rest]| |]; reflexivity.
Qed.

Lemma dec_record_shorter bs r t :
  dec_record bs = DOk (r, t) -> length t < length bs.
Proof.
  intros H. apply dec_record_consumed_min in H. lia.
Qed.

(* with enough fuel the iterator does not stop for lack of fuel *)
Lemma scan_no_fuel : forall fuel bs,
  length bs < fuel -> snd (scan fuel bs) <> SFuel.
Proof.
  induction fuel as [|fuel IH]; intros bs Hlt; [lia|].
  rewrite scan_eq_S. destruct bs as [|b bs]; [discriminate|].
  destruct (dec_record (b :: bs)) as [[r rest]| |] eqn:E; try discriminate.
  pose proof (dec_record_shorter _ _ _ E) as Hs.
  specialize (IH rest ltac:(lia)).
  destruct (scan fuel rest) as [[rs tl] e]. exact IH.
Qed.

(* more fuel gives the same result *)
Lemma scan_fuel_indep : forall f1 f2 bs,
  length bs < f1 -> length bs < f2 -> scan f1 bs = scan f2 bs.
Proof.
  induction f1 as [|f1 IH]; intros f2 bs H1 H2; [lia|].
  destruct f2 as [|f2]; [lia|].
  rewrite !scan_eq_S. destruct bs as [|b bs]; [reflexivity|].
  destruct (dec_record (b :: bs)) as [[r rest]| |] eqn:E; try reflexivity.
  pose proof (dec_record_shorter _ _ _ E) as Hs.
  rewrite (IH f2 rest) by lia. reflexivity.
Qed.

Lemma scan_file_fuel fuel bs : length bs < fuel -> scan fuel bs = scan_file bs.
Proof.
  intros H. unfold scan_file. apply scan_fuel_indep; lia.
Qed.

Theorem scan_file_no_fuel : forall bs, let '(_, _, e) := scan_file bs in e <> SFuel.
Proof.
  intros bs. pose proof (scan_no_fuel (S (length bs)) bs ltac:(lia)) as H.
  unfold scan_file. destruct (scan (S (length bs)) bs) as [[rs tl] e]. exact H.
Qed.

(* the unfolding equation of [scan_file], free of fuel *)
Lemma scan_file_eq bs :
  scan_file bs =
  match bs with
  | [] => ([], [], SEnd)
  | _ =>
    match dec_record bs with
    | DOk (r, rest) =>
      let '(rs, tl, e) := scan_file rest in
      ((r, N.of_nat (length bs - length rest)) :: rs, tl, e)
    | DEof => ([], bs, SEof)
    | DInvalid => ([], bs, SInvalid)
    end
  end.
Proof.
  unfold scan_file at 1. rewrite scan_eq_S.
  destruct bs as [|b bs]; [reflexivity|].
  destruct (dec_record (b :: bs)) as [[r rest]| |] eqn:E; try reflexivity.
  pose proof (dec_record_shorter _ _ _ E) as Hs.
  rewrite (scan_file_fuel (length (b :: bs)) rest) by lia. reflexivity.
Qed.

Lemma scan_file_nil : scan_file [] = ([], [], SEnd).
Proof. reflexivity. Qed.

Lemma scan_file_eof bs : bs <> [] -> dec_record bs = DEof -> scan_file bs = ([], bs, SEof).
Proof.
  intros Hne E. rewrite scan_file_eq, E. destruct bs; [congruence|reflexivity].
Qed.

Lemma scan_file_invalid bs :
  bs <> [] -> dec_record bs = DInvalid -> scan_file bs = ([], bs, SInvalid).
Proof.
  intros Hne E. rewrite scan_file_eq, E. destruct bs; [congruence|reflexivity].
Qed.

Lemma scan_file_record r t :
  wf_record r ->
  scan_file (enc_record r ++ t) =
  let '(rs, tl, e) := scan_file t in ((r, rec_size r) :: rs, tl, e).
Proof.
  intros Hr. rewrite scan_file_eq, (dec_enc_record r t Hr).
  rewrite app_length, Nat.add_sub.
  destruct (enc_record r ++ t) as [|b bs] eqn:E; [|reflexivity].
  apply (f_equal (@length byte)) in E. rewrite app_length in E.
  pose proof (enc_record_min_len r). cbn [length] in E. lia.
Qed.

(* complete records in front of anything *)
Lemma scan_file_encs_app rs t :
  Forall wf_record rs ->
  scan_file (encs rs ++ t) =
  let '(rs', tl, e) := scan_file t in (sized rs ++ rs', tl, e).
Proof.
  intros H. induction H as [|r rs Hr Hrs IH].
  - cbn [encs map concat sized app]. destruct (scan_file t) as [[rs' tl] e]. reflexivity.
  - rewrite encs_cons, <- app_assoc, (scan_file_record r _ Hr), IH.
    destruct (scan_file t) as [[rs' tl] e]. reflexivity.
Qed.

(* ------------------------------------------------------------------ *)
(* 2. Complete records                                                 *)
(* ------------------------------------------------------------------ *)

Theorem scan_encs : forall rs,
  Forall wf_record rs -> scan_file (encs rs) = (sized rs, [], SEnd).
Proof.
  intros rs H. rewrite <- (app_nil_r (encs rs)), (scan_file_encs_app rs [] H).
  rewrite scan_file_nil, app_nil_r. reflexivity.
Qed.

(* ------------------------------------------------------------------ *)
(* 3. Torn tail                                                        *)
(* ------------------------------------------------------------------ *)

Theorem scan_torn : forall rs r q,
  Forall wf_record rs -> wf_record r -> pprefix q (enc_record r) -> q <> [] ->
  scan_file (encs rs ++ q) = (sized rs, q, SEof).
Proof.
  intros rs r q Hrs Hr Hq Hne.
  rewrite (scan_file_encs_app rs q Hrs).
  rewrite (scan_file_eof q Hne (dec_record_prefix_eof r q Hr Hq)), app_nil_r. reflexivity.
Qed.

(* ------------------------------------------------------------------ *)
(* 4. Every cut position                                               *)
(* ------------------------------------------------------------------ *)

Lemma pprefix_firstn (p : nat) (x : bytes) : p < length x -> pprefix (firstn p x) x.
Proof.
  intros H. exists (skipn p x). split.
  - intros E. apply (f_equal (@length byte)) in E. rewrite skipn_length in E.
    cbn [length] in E. lia.
  - symmetry. apply firstn_skipn.
Qed.

Theorem cut_shape : forall rs p,
  p <= length (encs rs) ->
  exists k q,
    firstn p (encs rs) = encs (firstn k rs) ++ q /\
    (q = [] \/ exists r, nth_error rs k = Some r /\ pprefix q (enc_record r)).
Proof.
  induction rs as [|r rs IH]; intros p Hp.
  - exists 0, []. split; [|left; reflexivity].
    cbn [encs map concat] in *. rewrite firstn_nil. reflexivity.
  - rewrite encs_cons in *. rewrite app_length in Hp.
    destruct (Nat.lt_ge_cases p (length (enc_record r))) as [Hlt|Hge].
    + exists 0, (firstn p (enc_record r)). split.
      * rewrite firstn_app. replace (p - length (enc_record r)) with 0 by lia.
        cbn [firstn encs map concat app]. rewrite app_nil_r. reflexivity.
      * right. exists r. split; [reflexivity|]. apply pprefix_firstn, Hlt.
    + destruct (IH (p - length (enc_record r)) ltac:(lia)) as [k [q [E Hq]]].
      exists (S k), q. split.
      * rewrite firstn_app, firstn_all2 by lia. rewrite E.
        cbn [firstn]. rewrite encs_cons, app_assoc. reflexivity.
      * destruct Hq as [Hq|[r' [Hn Hq]]]; [left; exact Hq|].
        right. exists r'. split; [exact Hn|exact Hq].
Qed.

Lemma Forall_firstn_ {A} (P : A -> Prop) (l : list A) k : Forall P l -> Forall P (firstn k l).
Proof.
  intros H. revert k. induction H as [|x l Hx Hl IH]; intros k.
  - rewrite firstn_nil. constructor.
  - destruct k as [|k]; cbn [firstn]; constructor; auto.
Qed.

(* cutting a file of complete records anywhere leaves exactly the complete
   records before the cut *)
Theorem scan_cut : forall rs p,
  Forall wf_record rs -> p <= length (encs rs) ->
  exists k q,
    firstn p (encs rs) = encs (firstn k rs) ++ q /\
    (q = [] \/ exists r, nth_error rs k = Some r /\ pprefix q (enc_record r)) /\
    scan_file (firstn p (encs rs)) =
      (sized (firstn k rs), q, match q with [] => SEnd | _ => SEof end).
Proof.
  intros rs p Hrs Hp.
  destruct (cut_shape rs p Hp) as [k [q [E Hq]]].
  exists k, q. split; [exact E|]. split; [exact Hq|].
  pose proof (Forall_firstn_ _ _ k Hrs) as Hk.
  rewrite E. destruct q as [|b q].
  - rewrite app_nil_r. apply scan_encs, Hk.
  - destruct Hq as [Hq|[r [Hn Hq]]]; [discriminate|].
    apply (scan_torn _ r); [exact Hk| |exact Hq|discriminate].
    rewrite Forall_forall in Hrs. apply Hrs. eapply nth_error_In, Hn.
Qed.

(* ------------------------------------------------------------------ *)
(* 5. Zero tail                                                        *)
(* ------------------------------------------------------------------ *)

Lemma zeros_app a b : zeros (a + b) = zeros a ++ zeros b.
Proof. unfold zeros. apply repeat_app. Qed.

Lemma zeros_length z : length (zeros z) = z.
Proof. apply repeat_length. Qed.

Lemma all_zero_zeros z : all_zero (zeros z) = true.
Proof.
  induction z as [|z IH]; [reflexivity|].
  unfold zeros, all_zero in *. cbn [repeat forallb]. rewrite IH. reflexivity.
Qed.

Lemma zeros_nonempty z : 1 <= z -> zeros z <> [].
Proof. destruct z; [lia|discriminate]. Qed.

(* the checksum of the 20 zero bytes that form the body "RVote (0,0)" *)
Lemma crc32_zeros20 : crc32 (zeros 20) = 0x0FD59B8D%N.
Proof. vm_compute. reflexivity. Qed.

Lemma crc32_zeros20_nonzero : crc32 (zeros 20) <> 0%N.
Proof. rewrite crc32_zeros20. discriminate. Qed.

Lemma enc_body_vote0 : enc_body (RVote (0%N, 0%N)) = zeros 20.
Proof. vm_compute. reflexivity. Qed.

Lemma enc_u64_0 : enc_u64 0 = zeros 8.
Proof. vm_compute. reflexivity. Qed.

Lemma dec_record_zeros_short z : z < 28 -> dec_record (zeros z) = DEof.
Proof.
  intros H.
  do 28 (destruct z as [|z]; [vm_compute; reflexivity|]). lia.
Qed.

Lemma dec_record_zeros28 t : dec_record (zeros 28 ++ t) = DInvalid.
Proof.
  change 28 with (20 + 8). rewrite zeros_app, <- app_assoc.
  rewrite dec_record_eq, <- enc_body_vote0.
  rewrite (g_rt _ _ _ Good_p_body) by (cbn; unfold wf_pair, wf_u64; cbn; split; reflexivity).
  rewrite firstn_consumed, <- enc_u64_0.
  rewrite (g_rt _ _ _ Good_u64) by reflexivity.
  rewrite enc_body_vote0.
  destruct (N.eqb_spec 0%N (crc32 (zeros 20))) as [E|E]; [|reflexivity].
  exfalso. apply crc32_zeros20_nonzero. symmetry. exact E.
Qed.

Lemma dec_record_zeros_long z : 28 <= z -> dec_record (zeros z) = DInvalid.
Proof.
  intros H. replace z with (28 + (z - 28)) by lia.
  rewrite zeros_app. apply dec_record_zeros28.
Qed.

Theorem scan_zero_tail_short : forall rs z,
  Forall wf_record rs -> 1 <= z -> z < 28 ->
  scan_file (encs rs ++ zeros z) = (sized rs, zeros z, SEof).
Proof.
  intros rs z Hrs H1 H2. rewrite (scan_file_encs_app rs _ Hrs).
  rewrite (scan_file_eof _ (zeros_nonempty z H1) (dec_record_zeros_short z H2)), app_nil_r.
  reflexivity.
Qed.

Theorem scan_zero_tail_long : forall rs z,
  Forall wf_record rs -> 28 <= z ->
  scan_file (encs rs ++ zeros z) = (sized rs, zeros z, SInvalid).
Proof.
  intros rs z Hrs H. rewrite (scan_file_encs_app rs _ Hrs).
  rewrite (scan_file_invalid _ (zeros_nonempty z ltac:(lia)) (dec_record_zeros_long z H)),
    app_nil_r.
  reflexivity.
Qed.

(* ------------------------------------------------------------------ *)
(* 6. Characterisation of anything scanned                             *)
(* ------------------------------------------------------------------ *)

Lemma scan_sound : forall fuel bs recs rest e,
  scan fuel bs = (recs, rest, e) ->
  bs = encs (map fst recs) ++ rest /\
  Forall wf_record (map fst recs) /\
  Forall (fun x => snd x = rec_size (fst x)) recs.
Proof.
  induction fuel as [|fuel IH]; intros bs recs rest e H.
  - cbn [scan] in H. inversion H; subst. repeat split; constructor.
  - rewrite scan_eq_S in H. destruct bs as [|b bs].
    + inversion H; subst. repeat split; constructor.
    + destruct (dec_record (b :: bs)) as [[r t]| |] eqn:E.
      * destruct (scan fuel t) as [[rs tl] e'] eqn:Es.
        inversion H; subst recs rest e.
        destruct (IH _ _ _ _ Es) as [E1 [E2 E3]].
        pose proof (dec_record_consumed _ _ _ E) as Hsz.
        apply dec_record_canonical in E as [Hwf Eb].
        cbn [map fst]. rewrite encs_cons, <- app_assoc, <- E1.
        split; [exact Eb|]. split; constructor; auto.
      * inversion H; subst. repeat split; constructor.
      * inversion H; subst. repeat split; constructor.
Qed.

Theorem scan_file_sound : forall bs recs rest e,
  scan_file bs = (recs, rest, e) ->
  bs = encs (map fst recs) ++ rest /\
  Forall wf_record (map fst recs) /\
  Forall (fun x => snd x = rec_size (fst x)) recs.
Proof. intros bs recs rest e. apply scan_sound. Qed.

(* the records returned are [sized] of their first components *)
Lemma sized_of_sound recs :
  Forall (fun x : record * N => snd x = rec_size (fst x)) recs -> recs = sized (map fst recs).
Proof.
  intros H. induction H as [|[r n] l Hx Hl IH]; [reflexivity|].
  cbn [map fst sized]. cbn [fst snd] in Hx. subst n. f_equal. exact IH.
Qed.

(* how the iterator stopped, in terms of the unread rest *)
Theorem scan_file_end : forall bs recs rest e,
  scan_file bs = (recs, rest, e) ->
  match e with
  | SEnd => rest = []
  | SEof => rest <> [] /\ dec_record rest = DEof
  | SInvalid => rest <> [] /\ dec_record rest = DInvalid
  | SFuel => False
  end.
Proof.
  intros bs. remember (length bs) as n eqn:En. revert bs En.
  induction n as [n IH] using lt_wf_ind. intros bs En recs rest e H.
  rewrite scan_file_eq in H. destruct bs as [|b bs].
  - inversion H; subst. reflexivity.
  - destruct (dec_record (b :: bs)) as [[r t]| |] eqn:E.
    + destruct (scan_file t) as [[rs tl] e'] eqn:Es.
      inversion H; subst recs rest e.
      pose proof (dec_record_shorter _ _ _ E) as Hs.
      exact (IH (length t) ltac:(lia) t eq_refl _ _ _ Es).
    + inversion H; subst. split; [discriminate|exact E].
    + inversion H; subst. split; [discriminate|exact E].
Qed.

Print Assumptions scan_file_no_fuel.
Print Assumptions scan_encs.
Print Assumptions scan_torn.
Print Assumptions scan_cut.
Print Assumptions scan_zero_tail_short.
Print Assumptions scan_zero_tail_long.
Print Assumptions scan_file_sound.
Print Assumptions scan_file_end.
