(* C15, cache level: facts about the payload cache of Model/Cache.v.
   Order facts for pair_cmp, the accounting invariant [cache_ok], the shape of the
   entries after every operation, lookups, and the two cache-level C15 statements. *)
From Coq Require Import List NArith Bool Lia Sorted.
From RaftLog Require Import Base.Bytes Model.Types Model.Cache.
Import ListNotations.
Local Open Scope N_scope.

(* ------------------------------------------------------------------ definitions *)
Definition key_lt (a b : logid) : Prop := pair_cmp a b = Lt.
Definition sorted_keys (es : list (logid * payload)) : Prop :=
  StronglySorted key_lt (map fst es).
Definition total (es : list (logid * payload)) : N :=
  fold_right (fun e acc => (psize (snd e) + acc)%N) 0%N es.
Definition cache_ok (c : cache) : Prop :=
  sorted_keys (ch_entries c) /\ ch_size c = total (ch_entries c).
Definition keys_le (c : cache) (b : option logid) : Prop :=
  forall id p, In (id, p) (ch_entries c) -> opair_leb (Some id) b = true.

(* ------------------------------------------------------------------ pair_cmp is a strict total order *)
Lemma pair_cmp_Lt_iff (a b : N * N) :
  pair_cmp a b = Lt <-> (fst a < fst b \/ (fst a = fst b /\ snd a < snd b)).
Proof.
  unfold pair_cmp. destruct (N.compare_spec (fst a) (fst b)) as [E|E|E].
  - rewrite N.compare_lt_iff. lia.
  - split; [intros _; lia | reflexivity].
  - split; [discriminate | lia].
Qed.

Lemma pair_cmp_Gt_iff (a b : N * N) :
  pair_cmp a b = Gt <-> (fst b < fst a \/ (fst a = fst b /\ snd b < snd a)).
Proof.
  unfold pair_cmp. destruct (N.compare_spec (fst a) (fst b)) as [E|E|E].
  - rewrite N.compare_gt_iff. lia.
  - split; [discriminate | lia].
  - split; [intros _; lia | reflexivity].
Qed.

Lemma pair_cmp_Eq_iff (a b : N * N) :
  pair_cmp a b = Eq <-> (fst a = fst b /\ snd a = snd b).
Proof.
  unfold pair_cmp. destruct (N.compare_spec (fst a) (fst b)) as [E|E|E].
  - rewrite N.compare_eq_iff. lia.
  - split; [discriminate | lia].
  - split; [discriminate | lia].
Qed.

Lemma pair_cmp_eq (a b : N * N) : pair_cmp a b = Eq <-> a = b.
Proof.
  rewrite pair_cmp_Eq_iff. destruct a as [a1 a2], b as [b1 b2]; cbn [fst snd].
  split.
  - intros [H1 H2]; subst; reflexivity.
  - intros H; inversion H; split; reflexivity.
Qed.

Lemma pair_cmp_refl (a : N * N) : pair_cmp a a = Eq.
Proof. apply pair_cmp_eq; reflexivity. Qed.

Lemma pair_cmp_antisym (a b : N * N) : pair_cmp a b = CompOpp (pair_cmp b a).
Proof.
  destruct (pair_cmp b a) eqn:E; cbn [CompOpp].
  - apply pair_cmp_Eq_iff in E. apply pair_cmp_Eq_iff. lia.
  - apply pair_cmp_Lt_iff in E. apply pair_cmp_Gt_iff. lia.
  - apply pair_cmp_Gt_iff in E. apply pair_cmp_Lt_iff. lia.
Qed.

Lemma pair_cmp_lt_trans (a b c : N * N) :
  pair_cmp a b = Lt -> pair_cmp b c = Lt -> pair_cmp a c = Lt.
Proof. rewrite !pair_cmp_Lt_iff. lia. Qed.

Lemma pair_cmp_lt_irrefl (a : N * N) : pair_cmp a a <> Lt.
Proof. rewrite pair_cmp_refl. discriminate. Qed.

Lemma pair_cmp_Gt_Lt (a b : N * N) : pair_cmp a b = Gt <-> pair_cmp b a = Lt.
Proof. rewrite pair_cmp_Gt_iff, pair_cmp_Lt_iff. lia. Qed.

Lemma key_lt_trans (a b c : logid) : key_lt a b -> key_lt b c -> key_lt a c.
Proof. apply pair_cmp_lt_trans. Qed.

Lemma key_lt_irrefl (a : logid) : ~ key_lt a a.
Proof. apply pair_cmp_lt_irrefl. Qed.

(* trichotomy *)
Lemma pair_cmp_total (a b : N * N) :
  pair_cmp a b = Lt \/ a = b \/ pair_cmp b a = Lt.
Proof.
  destruct (pair_cmp a b) eqn:E.
  - right; left; apply pair_cmp_eq; exact E.
  - left; reflexivity.
  - right; right; apply pair_cmp_Gt_Lt; exact E.
Qed.

(* ------------------------------------------------------------------ boolean comparisons *)
Lemma pair_ltb_iff (a b : N * N) : pair_ltb a b = true <-> pair_cmp a b = Lt.
Proof. unfold pair_ltb. destruct (pair_cmp a b); split; congruence. Qed.

Lemma pair_leb_iff (a b : N * N) : pair_leb a b = true <-> pair_cmp a b <> Gt.
Proof. unfold pair_leb. destruct (pair_cmp a b); split; congruence. Qed.

Lemma pair_leb_false_iff (a b : N * N) : pair_leb a b = false <-> pair_cmp b a = Lt.
Proof.
  rewrite <- pair_cmp_Gt_Lt. unfold pair_leb.
  destruct (pair_cmp a b); split; congruence.
Qed.

Lemma pair_ltb_false_iff (a b : N * N) : pair_ltb a b = false <-> pair_leb b a = true.
Proof.
  unfold pair_ltb, pair_leb. rewrite (pair_cmp_antisym b a).
  destruct (pair_cmp a b); cbn [CompOpp]; split; congruence.
Qed.

Lemma pair_leb_lt_or_eq (a b : N * N) :
  pair_leb a b = true <-> (pair_cmp a b = Lt \/ a = b).
Proof.
  rewrite <- pair_cmp_eq. unfold pair_leb.
  destruct (pair_cmp a b); split; intros H.
  - right; reflexivity.
  - reflexivity.
  - left; reflexivity.
  - reflexivity.
  - discriminate.
  - destruct H as [H|H]; discriminate.
Qed.

Lemma pair_eqb_iff (a b : N * N) : pair_eqb a b = true <-> a = b.
Proof.
  unfold pair_eqb. rewrite andb_true_iff, !N.eqb_eq.
  destruct a as [a1 a2], b as [b1 b2]; cbn [fst snd]. split.
  - intros [H1 H2]; subst; reflexivity.
  - intros H; inversion H; split; reflexivity.
Qed.

Lemma pair_eqb_cmp (a b : N * N) : pair_eqb a b = true <-> pair_cmp a b = Eq.
Proof. rewrite pair_eqb_iff, pair_cmp_eq. reflexivity. Qed.

Lemma pair_eqb_refl (a : N * N) : pair_eqb a a = true.
Proof. apply pair_eqb_iff; reflexivity. Qed.

Lemma pair_eqb_neq (a b : N * N) : a <> b -> pair_eqb a b = false.
Proof.
  intros H. destruct (pair_eqb a b) eqn:E; [|reflexivity].
  apply pair_eqb_iff in E. contradiction.
Qed.

Lemma pair_leb_refl (a : N * N) : pair_leb a a = true.
Proof. apply pair_leb_lt_or_eq. right; reflexivity. Qed.

Lemma pair_leb_trans (a b c : N * N) :
  pair_leb a b = true -> pair_leb b c = true -> pair_leb a c = true.
Proof.
  rewrite !pair_leb_iff, !pair_cmp_Gt_iff. lia.
Qed.

Lemma pair_lt_leb (a b : N * N) : pair_cmp a b = Lt -> pair_leb a b = true.
Proof. intros H. apply pair_leb_lt_or_eq. left; exact H. Qed.

Lemma pair_lt_le_trans (a b c : N * N) :
  pair_cmp a b = Lt -> pair_leb b c = true -> pair_cmp a c = Lt.
Proof. rewrite pair_leb_iff, pair_cmp_Gt_iff, !pair_cmp_Lt_iff. lia. Qed.

Lemma pair_le_lt_trans (a b c : N * N) :
  pair_leb a b = true -> pair_cmp b c = Lt -> pair_cmp a c = Lt.
Proof. rewrite pair_leb_iff, pair_cmp_Gt_iff, !pair_cmp_Lt_iff. lia. Qed.

(* options: None < Some _ *)
Lemma opair_leb_Some (a b : N * N) : opair_leb (Some a) (Some b) = pair_leb a b.
Proof. reflexivity. Qed.
Lemma opair_ltb_Some (a b : N * N) : opair_ltb (Some a) (Some b) = pair_ltb a b.
Proof. reflexivity. Qed.
Lemma opair_leb_Some_None (a : N * N) : opair_leb (Some a) None = false.
Proof. reflexivity. Qed.
Lemma opair_leb_None (b : option (N * N)) : opair_leb None b = true.
Proof. destruct b; reflexivity. Qed.
Lemma opair_ltb_None_Some (b : N * N) : opair_ltb None (Some b) = true.
Proof. reflexivity. Qed.
Lemma opair_ltb_None_r (a : option (N * N)) : opair_ltb a None = false.
Proof. destruct a; reflexivity. Qed.

Lemma opair_cmp_antisym (a b : option (N * N)) : opair_cmp a b = CompOpp (opair_cmp b a).
Proof. destruct a, b; cbn [opair_cmp CompOpp]; auto using pair_cmp_antisym. Qed.

Lemma opair_cmp_eq (a b : option (N * N)) : opair_cmp a b = Eq <-> a = b.
Proof.
  destruct a as [a|], b as [b|]; cbn [opair_cmp]; try (split; congruence).
  rewrite pair_cmp_eq. split; congruence.
Qed.

Lemma opair_leb_refl (a : option (N * N)) : opair_leb a a = true.
Proof. destruct a as [a|]; [apply pair_leb_refl | reflexivity]. Qed.

Lemma opair_leb_trans (a b c : option (N * N)) :
  opair_leb a b = true -> opair_leb b c = true -> opair_leb a c = true.
Proof.
  destruct a as [a|], b as [b|], c as [c|]; try reflexivity; try discriminate.
  rewrite !opair_leb_Some. apply pair_leb_trans.
Qed.

Lemma opair_ltb_false_iff (a b : option (N * N)) :
  opair_ltb a b = false <-> opair_leb b a = true.
Proof.
  destruct a as [a|], b as [b|]; try (split; (reflexivity || discriminate)).
  rewrite opair_ltb_Some, opair_leb_Some. apply pair_ltb_false_iff.
Qed.

Lemma opair_leb_false_iff (a b : option (N * N)) :
  opair_leb a b = false <-> opair_ltb b a = true.
Proof.
  destruct a as [a|], b as [b|]; try (split; (reflexivity || discriminate)).
  rewrite opair_ltb_Some, opair_leb_Some, pair_leb_false_iff, pair_ltb_iff. reflexivity.
Qed.

Lemma opair_ltb_leb (a b : option (N * N)) : opair_ltb a b = true -> opair_leb a b = true.
Proof. unfold opair_ltb, opair_leb. destruct (opair_cmp a b); congruence. Qed.

(* [id <= b] and [k > b] give [id < k] *)
Lemma opair_le_gt_lt (id k : N * N) (b : option (N * N)) :
  opair_leb (Some id) b = true -> opair_leb (Some k) b = false -> pair_cmp id k = Lt.
Proof.
  destruct b as [b|]; [|discriminate].
  rewrite !opair_leb_Some, pair_leb_false_iff. apply pair_le_lt_trans.
Qed.

(* [b < id] and [id' >= id] give [b < id'] *)
Lemma opair_gt_mono (id id' : N * N) (b : option (N * N)) :
  opair_leb (Some id) b = false -> pair_leb id id' = true -> opair_leb (Some id') b = false.
Proof.
  destruct b as [b|]; [|reflexivity].
  rewrite !opair_leb_Some, !pair_leb_false_iff. apply pair_lt_le_trans.
Qed.

(* ------------------------------------------------------------------ sorted lists *)
Lemma SSorted_app_iff {A} (R : A -> A -> Prop) (l1 l2 : list A) :
  StronglySorted R (l1 ++ l2) <->
  StronglySorted R l1 /\ StronglySorted R l2 /\ (forall x y, In x l1 -> In y l2 -> R x y).
Proof.
  induction l1 as [|a l1 IH]; cbn [app].
  - split.
    + intros H. split; [constructor|]. split; [exact H|]. intros x y [].
    + intros (_ & H & _). exact H.
  - split.
    + intros H. inversion H as [|a' l' Hs Hf]; subst.
      apply IH in Hs. destruct Hs as (H1 & H2 & H3).
      rewrite Forall_app in Hf. destruct Hf as [Hf1 Hf2].
      split; [constructor; assumption|]. split; [assumption|].
      intros x y [Hx|Hx] Hy.
      * subst x. rewrite Forall_forall in Hf2. apply Hf2; exact Hy.
      * apply H3; assumption.
    + intros (H1 & H2 & H3). inversion H1 as [|a' l' Hs Hf]; subst.
      constructor.
      * apply IH. split; [assumption|]. split; [assumption|].
        intros x y Hx Hy. apply H3; [right; exact Hx | exact Hy].
      * rewrite Forall_app. split; [assumption|].
        rewrite Forall_forall. intros y Hy. apply H3; [left; reflexivity | exact Hy].
Qed.

Lemma sorted_keys_nil : sorted_keys [].
Proof. constructor. Qed.

Lemma sorted_keys_app_iff (l1 l2 : list (logid * payload)) :
  sorted_keys (l1 ++ l2) <->
  sorted_keys l1 /\ sorted_keys l2 /\
  (forall e1 e2, In e1 l1 -> In e2 l2 -> key_lt (fst e1) (fst e2)).
Proof.
  unfold sorted_keys. rewrite map_app, SSorted_app_iff. split.
  - intros (H1 & H2 & H3). split; [assumption|]. split; [assumption|].
    intros e1 e2 He1 He2. apply H3; apply in_map; assumption.
  - intros (H1 & H2 & H3). split; [assumption|]. split; [assumption|].
    intros x y Hx Hy. apply in_map_iff in Hx. apply in_map_iff in Hy.
    destruct Hx as (e1 & <- & He1). destruct Hy as (e2 & <- & He2). apply H3; assumption.
Qed.

Lemma sorted_keys_suffix (pre es : list (logid * payload)) :
  sorted_keys (pre ++ es) -> sorted_keys es.
Proof. intros H. apply sorted_keys_app_iff in H. tauto. Qed.

Lemma sorted_keys_prefix (es suf : list (logid * payload)) :
  sorted_keys (es ++ suf) -> sorted_keys es.
Proof. intros H. apply sorted_keys_app_iff in H. tauto. Qed.

Lemma sorted_keys_cons_iff (e : logid * payload) (es : list (logid * payload)) :
  sorted_keys (e :: es) <->
  sorted_keys es /\ (forall e', In e' es -> key_lt (fst e) (fst e')).
Proof.
  change (e :: es) with ([e] ++ es). rewrite sorted_keys_app_iff. split.
  - intros (_ & H2 & H3). split; [assumption|]. intros e' He'. apply H3; [left; reflexivity|exact He'].
  - intros (H2 & H3). split; [repeat constructor|]. split; [assumption|].
    intros e1 e2 [<-|[]] He2. apply H3; exact He2.
Qed.

(* in a sorted list a key occurs once *)
Lemma sorted_keys_functional (es : list (logid * payload)) k v v' :
  sorted_keys es -> In (k, v) es -> In (k, v') es -> v = v'.
Proof.
  induction es as [|e es IH]; intros Hs H1 H2; [destruct H1|].
  apply sorted_keys_cons_iff in Hs. destruct Hs as [Hs Hlt].
  destruct H1 as [H1|H1], H2 as [H2|H2].
  - congruence.
  - subst e. apply Hlt in H2. cbn [fst] in H2. exfalso. exact (key_lt_irrefl _ H2).
  - subst e. apply Hlt in H1. cbn [fst] in H1. exfalso. exact (key_lt_irrefl _ H1).
  - apply IH; assumption.
Qed.

Lemma sorted_keys_NoDup (es : list (logid * payload)) :
  sorted_keys es -> NoDup (map fst es).
Proof.
  induction es as [|e es IH]; intros Hs; cbn [map]; [constructor|].
  apply sorted_keys_cons_iff in Hs. destruct Hs as [Hs Hlt].
  constructor; [|apply IH; exact Hs].
  intros Hin. apply in_map_iff in Hin. destruct Hin as (e' & Heq & He').
  apply Hlt in He'. rewrite Heq in He'. exact (key_lt_irrefl _ He').
Qed.

(* ------------------------------------------------------------------ total *)
Lemma total_nil : total [] = 0.
Proof. reflexivity. Qed.

Lemma total_cons e es : total (e :: es) = psize (snd e) + total es.
Proof. reflexivity. Qed.

Lemma total_app (l1 l2 : list (logid * payload)) : total (l1 ++ l2) = total l1 + total l2.
Proof.
  induction l1 as [|e l1 IH]; cbn [app].
  - rewrite total_nil. lia.
  - rewrite !total_cons, IH. lia.
Qed.

Lemma total_rev (l : list (logid * payload)) : total (rev l) = total l.
Proof.
  induction l as [|e l IH]; cbn [rev]; [reflexivity|].
  rewrite total_app, IH, !total_cons, total_nil. lia.
Qed.

(* ------------------------------------------------------------------ ent_insert, ent_get *)
Lemma ent_insert_in k v es e :
  In e (ent_insert k v es) -> e = (k, v) \/ In e es.
Proof.
  induction es as [|[k' v'] r IH]; cbn [ent_insert]; intros H.
  - destruct H as [H|[]]. left; congruence.
  - destruct (pair_cmp k k') eqn:E.
    + destruct H as [H|H]; [left; congruence | right; right; exact H].
    + destruct H as [H|H]; [left; congruence | right; exact H].
    + destruct H as [H|H]; [right; left; exact H|].
      apply IH in H. destruct H as [H|H]; [left; exact H | right; right; exact H].
Qed.

Lemma ent_insert_in_new k v es : In (k, v) (ent_insert k v es).
Proof.
  induction es as [|[k' v'] r IH]; cbn [ent_insert]; [left; reflexivity|].
  destruct (pair_cmp k k'); [left; reflexivity | left; reflexivity | right; exact IH].
Qed.

Lemma ent_insert_in_old k v es e :
  In e es -> fst e <> k -> In e (ent_insert k v es).
Proof.
  induction es as [|[k' v'] r IH]; cbn [ent_insert]; intros H Hne; [destruct H|].
  destruct (pair_cmp k k') eqn:E.
  - apply pair_cmp_eq in E. subst k'. destruct H as [H|H].
    + subst e. cbn [fst] in Hne. congruence.
    + right; exact H.
  - right; exact H.
  - destruct H as [H|H]; [left; exact H | right; apply IH; assumption].
Qed.

Lemma ent_insert_sorted k v es : sorted_keys es -> sorted_keys (ent_insert k v es).
Proof.
  induction es as [|[k' v'] r IH]; cbn [ent_insert]; intros Hs.
  - repeat constructor.
  - pose proof Hs as Hs0. apply sorted_keys_cons_iff in Hs. destruct Hs as [Hr Hlt].
    destruct (pair_cmp k k') eqn:E.
    + apply pair_cmp_eq in E. subst k'. apply sorted_keys_cons_iff. split; [exact Hr|].
      intros e' He'. apply Hlt in He'. exact He'.
    + apply sorted_keys_cons_iff. split; [exact Hs0|].
      intros e' [<-|He']; cbn [fst]; [exact E|].
      apply Hlt in He'. cbn [fst] in He'. eapply key_lt_trans; [exact E | exact He'].
    + apply sorted_keys_cons_iff. split; [apply IH; exact Hr|].
      intros e' He'. apply ent_insert_in in He'. destruct He' as [->|He']; cbn [fst].
      * apply pair_cmp_Gt_Lt. exact E.
      * apply Hlt in He'. exact He'.
Qed.

(* appending above every resident key *)
Lemma ent_insert_above k v es :
  (forall e, In e es -> key_lt (fst e) k) -> ent_insert k v es = es ++ [(k, v)].
Proof.
  induction es as [|[k' v'] r IH]; cbn [ent_insert app]; intros H; [reflexivity|].
  assert (Hk : key_lt k' k) by (apply (H (k', v')); left; reflexivity).
  unfold key_lt in Hk. apply pair_cmp_Gt_Lt in Hk. rewrite Hk.
  rewrite IH; [reflexivity|]. intros e He. apply H. right; exact He.
Qed.

Lemma ent_insert_total_fresh k v es :
  ~ In k (map fst es) -> total (ent_insert k v es) = total es + psize v.
Proof.
  induction es as [|[k' v'] r IH]; cbn [ent_insert map fst]; intros Hn.
  - rewrite total_cons, total_nil. cbn [snd]. lia.
  - destruct (pair_cmp k k') eqn:E.
    + apply pair_cmp_eq in E. exfalso. apply Hn. left; congruence.
    + rewrite !total_cons. cbn [snd]. lia.
    + rewrite !total_cons, IH; [cbn [snd]; lia|].
      intros Hin. apply Hn. right; exact Hin.
Qed.

Lemma ent_insert_length_fresh k v es :
  ~ In k (map fst es) -> length (ent_insert k v es) = S (length es).
Proof.
  induction es as [|[k' v'] r IH]; cbn [ent_insert map fst]; intros Hn; [reflexivity|].
  destruct (pair_cmp k k') eqn:E.
  - apply pair_cmp_eq in E. exfalso. apply Hn. left; congruence.
  - reflexivity.
  - cbn [length]. rewrite IH; [reflexivity|]. intros Hin. apply Hn. right; exact Hin.
Qed.

Lemma above_not_in k (es : list (logid * payload)) :
  (forall id p, In (id, p) es -> key_lt id k) -> ~ In k (map fst es).
Proof.
  intros H Hin. apply in_map_iff in Hin. destruct Hin as ([id p] & Heq & He).
  cbn [fst] in Heq. subst id. apply H in He. exact (key_lt_irrefl _ He).
Qed.

Lemma ent_get_insert_same k v es : ent_get k (ent_insert k v es) = Some v.
Proof.
  induction es as [|[k' v'] r IH]; cbn [ent_insert ent_get].
  - rewrite pair_eqb_refl. reflexivity.
  - destruct (pair_cmp k k') eqn:E; cbn [ent_get].
    + rewrite pair_eqb_refl. reflexivity.
    + rewrite pair_eqb_refl. reflexivity.
    + assert (Hne : pair_eqb k k' = false).
      { destruct (pair_eqb k k') eqn:E2; [|reflexivity].
        apply pair_eqb_cmp in E2. congruence. }
      rewrite Hne. exact IH.
Qed.

Lemma ent_get_insert_other k k' v es :
  k' <> k -> ent_get k' (ent_insert k v es) = ent_get k' es.
Proof.
  intros Hne. induction es as [|[k2 v2] r IH]; cbn [ent_insert ent_get].
  - rewrite (pair_eqb_neq _ _ Hne). reflexivity.
  - destruct (pair_cmp k k2) eqn:E; cbn [ent_get].
    + apply pair_cmp_eq in E. subst k2. rewrite (pair_eqb_neq _ _ Hne). reflexivity.
    + rewrite (pair_eqb_neq _ _ Hne). reflexivity.
    + rewrite IH. reflexivity.
Qed.

Lemma ent_get_in k v es : ent_get k es = Some v -> In (k, v) es.
Proof.
  induction es as [|[k' v'] r IH]; cbn [ent_get]; intros H; [discriminate|].
  destruct (pair_eqb k k') eqn:E.
  - apply pair_eqb_iff in E. left; congruence.
  - right; apply IH; exact H.
Qed.

Lemma ent_get_sorted k v es : sorted_keys es -> (ent_get k es = Some v <-> In (k, v) es).
Proof.
  intros Hs. split; [apply ent_get_in|].
  induction es as [|[k' v'] r IH]; intros H; [destruct H|].
  apply sorted_keys_cons_iff in Hs. destruct Hs as [Hr Hlt]. cbn [ent_get].
  destruct H as [H|H].
  - inversion H; subst. rewrite pair_eqb_refl. reflexivity.
  - destruct (pair_eqb k k') eqn:E.
    + apply pair_eqb_iff in E. subst k'. apply Hlt in H. cbn [fst] in H.
      exfalso. exact (key_lt_irrefl _ H).
    + apply IH; assumption.
Qed.

Lemma ent_get_none k (es : list (logid * payload)) :
  ent_get k es = None <-> ~ In k (map fst es).
Proof.
  induction es as [|[k' v'] r IH]; cbn [ent_get map fst In].
  - split; [intros _ [] | reflexivity].
  - destruct (pair_eqb k k') eqn:E.
    + apply pair_eqb_iff in E. split; [discriminate|]. intros H. exfalso. apply H. left; congruence.
    + rewrite IH. split.
      * intros H [H1|H1]; [|exact (H H1)]. subst k'. rewrite pair_eqb_refl in E. discriminate.
      * intros H H1. apply H. right; exact H1.
Qed.

(* ------------------------------------------------------------------ the loops *)
(* every loop pops from one end; it returns a suffix of its input, the popped part
   satisfies the loop condition, the size stays exact, and the head of what is left
   fails the condition *)

Definition head_fails (f : logid -> bool) (es : list (logid * payload)) : Prop :=
  match es with [] => True | (id, _) :: _ => f id = false end.

Ltac nil_pre :=
  exists []; split; [reflexivity | split; [intros ? [] | split; [intros Hs0; exact Hs0 | ]]].

Lemma drain_loop_spec b es sz es' sz' :
  drain_loop b es sz = (es', sz') ->
  exists pre, es = pre ++ es' /\
    (forall e, In e pre -> opair_leb (Some (fst e)) b = true) /\
    (sz = total es -> sz' = total es') /\
    head_fails (fun id => opair_leb (Some id) b) es'.
Proof.
  revert sz. induction es as [|[id p] r IH]; intros sz H; cbn [drain_loop] in H.
  - inversion H; subst. nil_pre. exact I.
  - destruct (opair_leb (Some id) b) eqn:E.
    + apply IH in H. destruct H as (pre & Hes & Hpre & Hsz & Hhd).
      exists ((id, p) :: pre). split; [cbn [app]; congruence|].
      split; [|split; [|exact Hhd]].
      * intros e [<-|He]; [exact E | apply Hpre; exact He].
      * intros Hs. apply Hsz. rewrite Hs, total_cons. cbn [snd]. lia.
    + inversion H; subst. nil_pre. exact E.
Qed.

Lemma purge_loop_spec key b es sz es' sz' :
  purge_loop key b es sz = (es', sz') ->
  exists pre, es = pre ++ es' /\
    (forall e, In e pre -> pair_leb (fst e) key = true /\ opair_leb (Some (fst e)) b = true) /\
    (sz = total es -> sz' = total es') /\
    head_fails (fun id => pair_leb id key && opair_leb (Some id) b) es'.
Proof.
  revert sz. induction es as [|[id p] r IH]; intros sz H; cbn [purge_loop] in H.
  - inversion H; subst. nil_pre. exact I.
  - destruct (pair_leb id key && opair_leb (Some id) b) eqn:E.
    + apply IH in H. destruct H as (pre & Hes & Hpre & Hsz & Hhd).
      exists ((id, p) :: pre). split; [cbn [app]; congruence|].
      split; [|split; [|exact Hhd]].
      * intros e [<-|He]; [apply andb_true_iff in E; exact E | apply Hpre; exact He].
      * intros Hs. apply Hsz. rewrite Hs, total_cons. cbn [snd]. lia.
    + inversion H; subst. nil_pre. exact E.
Qed.

Lemma evict_loop_spec c es sz es' sz' :
  evict_loop c es sz = (es', sz') ->
  exists pre, es = pre ++ es' /\
    (forall e, In e pre -> opair_leb (Some (fst e)) (ch_evictable c) = true) /\
    (sz = total es -> sz' = total es') /\
    (need_evict c (length es') sz' = false \/
     head_fails (fun id => opair_leb (Some id) (ch_evictable c)) es').
Proof.
  revert sz. induction es as [|[id p] r IH]; intros sz H; cbn [evict_loop] in H.
  - inversion H; subst. nil_pre. right; exact I.
  - destruct (need_evict c (length ((id, p) :: r)) sz) eqn:En.
    + destruct (opair_leb (Some id) (ch_evictable c)) eqn:E.
      * apply IH in H. destruct H as (pre & Hes & Hpre & Hsz & Hhd).
        exists ((id, p) :: pre). split; [cbn [app]; congruence|].
        split; [|split; [|exact Hhd]].
        -- intros e [<-|He]; [exact E | apply Hpre; exact He].
        -- intros Hs. apply Hsz. rewrite Hs, total_cons. cbn [snd]. lia.
      * inversion H; subst. nil_pre. right; exact E.
    + inversion H; subst. nil_pre. left; exact En.
Qed.

Lemma pop_last_loop_spec key res sz r sz' :
  pop_last_loop key res sz = (r, sz') ->
  exists pre, res = pre ++ r /\
    (forall e, In e pre -> pair_ltb key (fst e) = true) /\
    (sz = total res -> sz' = total r) /\
    head_fails (fun id => pair_ltb key id) r.
Proof.
  revert sz. induction res as [|[id p] t IH]; intros sz H; cbn [pop_last_loop] in H.
  - inversion H; subst. nil_pre. exact I.
  - destruct (pair_ltb key id) eqn:E.
    + apply IH in H. destruct H as (pre & Hes & Hpre & Hsz & Hhd).
      exists ((id, p) :: pre). split; [cbn [app]; congruence|].
      split; [|split; [|exact Hhd]].
      * intros e [<-|He]; [exact E | apply Hpre; exact He].
      * intros Hs. apply Hsz. rewrite Hs, total_cons. cbn [snd]. lia.
    + inversion H; subst. nil_pre. exact E.
Qed.

(* in a sorted list whose head is above a boundary, everything is *)
Lemma head_above_all (b : option logid) (es : list (logid * payload)) :
  sorted_keys es ->
  head_fails (fun id => opair_leb (Some id) b) es ->
  forall id p, In (id, p) es -> opair_leb (Some id) b = false.
Proof.
  destruct es as [|[id0 p0] r]; intros Hs Hh id p Hin; [destruct Hin|].
  cbn [head_fails] in Hh. apply sorted_keys_cons_iff in Hs. destruct Hs as [_ Hlt].
  destruct Hin as [Hin|Hin].
  - inversion Hin; subst. exact Hh.
  - apply Hlt in Hin. cbn [fst] in Hin. eapply opair_gt_mono; [exact Hh|].
    apply pair_lt_leb. exact Hin.
Qed.

(* ------------------------------------------------------------------ unfolding the operations *)
Lemma cache_insert_eq c k v :
  cache_insert c k v =
  cache_with c (snd (evict_loop c (ent_insert k v (ch_entries c)) (ch_size c + psize v)))
               (fst (evict_loop c (ent_insert k v (ch_entries c)) (ch_size c + psize v))).
Proof. unfold cache_insert. destruct (evict_loop _ _ _) as [es' sz']. reflexivity. Qed.

Lemma cache_drain_eq c :
  cache_drain c =
  cache_with c (snd (drain_loop (ch_evictable c) (ch_entries c) (ch_size c)))
               (fst (drain_loop (ch_evictable c) (ch_entries c) (ch_size c))).
Proof. unfold cache_drain. destruct (drain_loop _ _ _) as [es' sz']. reflexivity. Qed.

Lemma cache_purge_upto_eq c key :
  cache_purge_upto c key =
  cache_with c (snd (purge_loop key (ch_evictable c) (ch_entries c) (ch_size c)))
               (fst (purge_loop key (ch_evictable c) (ch_entries c) (ch_size c))).
Proof. unfold cache_purge_upto. destruct (purge_loop _ _ _ _) as [es' sz']. reflexivity. Qed.

Lemma cache_truncate_after_eq c key :
  cache_truncate_after c key =
  cache_with c (snd (pop_last_loop key (rev (ch_entries c)) (ch_size c)))
               (rev (fst (pop_last_loop key (rev (ch_entries c)) (ch_size c)))).
Proof. unfold cache_truncate_after. destruct (pop_last_loop _ _ _) as [es' sz']. reflexivity. Qed.

(* ------------------------------------------------------------------ the untouched fields *)
Lemma cache_insert_evictable c k v : ch_evictable (cache_insert c k v) = ch_evictable c.
Proof. rewrite cache_insert_eq. reflexivity. Qed.
Lemma cache_insert_max_items c k v : ch_max_items (cache_insert c k v) = ch_max_items c.
Proof. rewrite cache_insert_eq. reflexivity. Qed.
Lemma cache_insert_capacity c k v : ch_capacity (cache_insert c k v) = ch_capacity c.
Proof. rewrite cache_insert_eq. reflexivity. Qed.

Lemma cache_drain_evictable c : ch_evictable (cache_drain c) = ch_evictable c.
Proof. rewrite cache_drain_eq. reflexivity. Qed.
Lemma cache_drain_max_items c : ch_max_items (cache_drain c) = ch_max_items c.
Proof. rewrite cache_drain_eq. reflexivity. Qed.
Lemma cache_drain_capacity c : ch_capacity (cache_drain c) = ch_capacity c.
Proof. rewrite cache_drain_eq. reflexivity. Qed.

Lemma cache_purge_upto_evictable c key : ch_evictable (cache_purge_upto c key) = ch_evictable c.
Proof. rewrite cache_purge_upto_eq. reflexivity. Qed.
Lemma cache_purge_upto_max_items c key : ch_max_items (cache_purge_upto c key) = ch_max_items c.
Proof. rewrite cache_purge_upto_eq. reflexivity. Qed.
Lemma cache_purge_upto_capacity c key : ch_capacity (cache_purge_upto c key) = ch_capacity c.
Proof. rewrite cache_purge_upto_eq. reflexivity. Qed.

Lemma cache_truncate_after_evictable c key :
  ch_evictable (cache_truncate_after c key) = ch_evictable c.
Proof. rewrite cache_truncate_after_eq. reflexivity. Qed.
Lemma cache_truncate_after_max_items c key :
  ch_max_items (cache_truncate_after c key) = ch_max_items c.
Proof. rewrite cache_truncate_after_eq. reflexivity. Qed.
Lemma cache_truncate_after_capacity c key :
  ch_capacity (cache_truncate_after c key) = ch_capacity c.
Proof. rewrite cache_truncate_after_eq. reflexivity. Qed.

Lemma cache_clear_evictable c : ch_evictable (cache_clear c) = ch_evictable c.
Proof. reflexivity. Qed.
Lemma cache_clear_max_items c : ch_max_items (cache_clear c) = ch_max_items c.
Proof. reflexivity. Qed.
Lemma cache_clear_capacity c : ch_capacity (cache_clear c) = ch_capacity c.
Proof. reflexivity. Qed.

Lemma cache_set_evictable_max_items c b : ch_max_items (cache_set_evictable c b) = ch_max_items c.
Proof. reflexivity. Qed.
Lemma cache_set_evictable_capacity c b : ch_capacity (cache_set_evictable c b) = ch_capacity c.
Proof. reflexivity. Qed.
Lemma cache_set_evictable_evictable c b : ch_evictable (cache_set_evictable c b) = b.
Proof. reflexivity. Qed.
Lemma cache_set_evictable_entries c b : ch_entries (cache_set_evictable c b) = ch_entries c.
Proof. reflexivity. Qed.
Lemma cache_set_evictable_size c b : ch_size (cache_set_evictable c b) = ch_size c.
Proof. reflexivity. Qed.

Lemma need_evict_ext c c' n sz :
  ch_max_items c' = ch_max_items c -> ch_capacity c' = ch_capacity c ->
  need_evict c' n sz = need_evict c n sz.
Proof. intros H1 H2. unfold need_evict. rewrite H1, H2. reflexivity. Qed.

(* ------------------------------------------------------------------ entries after each operation *)
(* insert: the inserted list loses a prefix of evictable entries *)
Lemma cache_insert_entries c k v :
  exists pre, ent_insert k v (ch_entries c) = pre ++ ch_entries (cache_insert c k v) /\
    (forall e, In e pre -> opair_leb (Some (fst e)) (ch_evictable c) = true).
Proof.
  rewrite cache_insert_eq. cbn [cache_with ch_entries].
  destruct (evict_loop c (ent_insert k v (ch_entries c)) (ch_size c + psize v)) as [es' sz'] eqn:E.
  apply evict_loop_spec in E. destruct E as (pre & H1 & H2 & _). exists pre. split; assumption.
Qed.

Lemma cache_purge_upto_entries c key :
  exists pre, ch_entries c = pre ++ ch_entries (cache_purge_upto c key) /\
    (forall e, In e pre -> pair_leb (fst e) key = true /\
                           opair_leb (Some (fst e)) (ch_evictable c) = true).
Proof.
  rewrite cache_purge_upto_eq. cbn [cache_with ch_entries].
  destruct (purge_loop key (ch_evictable c) (ch_entries c) (ch_size c)) as [es' sz'] eqn:E.
  apply purge_loop_spec in E. destruct E as (pre & H1 & H2 & _). exists pre. split; assumption.
Qed.

Lemma cache_drain_entries c :
  exists pre, ch_entries c = pre ++ ch_entries (cache_drain c) /\
    (forall e, In e pre -> opair_leb (Some (fst e)) (ch_evictable c) = true).
Proof.
  rewrite cache_drain_eq. cbn [cache_with ch_entries].
  destruct (drain_loop (ch_evictable c) (ch_entries c) (ch_size c)) as [es' sz'] eqn:E.
  apply drain_loop_spec in E. destruct E as (pre & H1 & H2 & _). exists pre. split; assumption.
Qed.

(* truncate_after: a prefix stays; what goes is above the key *)
Lemma cache_truncate_after_entries_prefix c key :
  exists suf, ch_entries c = ch_entries (cache_truncate_after c key) ++ suf /\
    (forall e, In e suf -> pair_ltb key (fst e) = true).
Proof.
  rewrite cache_truncate_after_eq. cbn [cache_with ch_entries].
  destruct (pop_last_loop key (rev (ch_entries c)) (ch_size c)) as [r sz'] eqn:E.
  apply pop_last_loop_spec in E. destruct E as (pre & H1 & H2 & _). cbn [fst].
  exists (rev pre). split.
  - rewrite <- rev_app_distr, <- H1, rev_involutive. reflexivity.
  - intros e He. apply in_rev in He. apply H2; exact He.
Qed.

Lemma filter_all_true {A} (f : A -> bool) l : (forall x, In x l -> f x = true) -> filter f l = l.
Proof.
  induction l as [|a l IH]; intros H; cbn [filter]; [reflexivity|].
  rewrite (H a (or_introl eq_refl)), IH; [reflexivity|]. intros x Hx. apply H. right; exact Hx.
Qed.

Lemma filter_all_false {A} (f : A -> bool) l : (forall x, In x l -> f x = false) -> filter f l = [].
Proof.
  induction l as [|a l IH]; intros H; cbn [filter]; [reflexivity|].
  rewrite (H a (or_introl eq_refl)), IH; [reflexivity|]. intros x Hx. apply H. right; exact Hx.
Qed.

Lemma cache_truncate_after_entries c key :
  sorted_keys (ch_entries c) ->
  ch_entries (cache_truncate_after c key) =
  filter (fun e => pair_leb (fst e) key) (ch_entries c).
Proof.
  intros Hs. rewrite cache_truncate_after_eq. cbn [cache_with ch_entries].
  destruct (pop_last_loop key (rev (ch_entries c)) (ch_size c)) as [r sz'] eqn:E.
  apply pop_last_loop_spec in E. destruct E as (pre & H1 & H2 & _ & Hh). cbn [fst].
  assert (Hes : ch_entries c = rev r ++ rev pre).
  { rewrite <- rev_app_distr, <- H1, rev_involutive. reflexivity. }
  rewrite Hes in Hs |- *. rewrite filter_app.
  rewrite (filter_all_false _ (rev pre)).
  2:{ intros e He. apply in_rev in He. apply H2 in He.
      apply pair_ltb_iff in He. apply pair_leb_false_iff. exact He. }
  rewrite app_nil_r. symmetry. apply filter_all_true.
  intros e He. destruct r as [|[id p] t]; [destruct He|].
  cbn [head_fails] in Hh. apply pair_ltb_false_iff in Hh.
  cbn [rev] in He, Hs. apply in_app_or in He. destruct He as [He|[<-|[]]]; [|exact Hh].
  apply sorted_keys_prefix in Hs. apply sorted_keys_app_iff in Hs.
  destruct Hs as (_ & _ & H3). specialize (H3 e (id, p) He (or_introl eq_refl)).
  cbn [fst] in H3. eapply pair_leb_trans; [apply pair_lt_leb; exact H3 | exact Hh].
Qed.

Lemma cache_clear_entries c : ch_entries (cache_clear c) = [].
Proof. reflexivity. Qed.

(* every operation except insert only removes entries *)
Lemma cache_truncate_after_incl c key :
  incl (ch_entries (cache_truncate_after c key)) (ch_entries c).
Proof.
  destruct (cache_truncate_after_entries_prefix c key) as (suf & H & _).
  intros e He. rewrite H. apply in_or_app. left; exact He.
Qed.
Lemma cache_purge_upto_incl c key : incl (ch_entries (cache_purge_upto c key)) (ch_entries c).
Proof.
  destruct (cache_purge_upto_entries c key) as (pre & H & _).
  intros e He. rewrite H. apply in_or_app. right; exact He.
Qed.
Lemma cache_drain_incl c : incl (ch_entries (cache_drain c)) (ch_entries c).
Proof.
  destruct (cache_drain_entries c) as (pre & H & _).
  intros e He. rewrite H. apply in_or_app. right; exact He.
Qed.
Lemma cache_insert_incl c k v :
  incl (ch_entries (cache_insert c k v)) ((k, v) :: ch_entries c).
Proof.
  destruct (cache_insert_entries c k v) as (pre & H & _).
  intros e He. assert (Hin : In e (ent_insert k v (ch_entries c))).
  { rewrite H. apply in_or_app. right; exact He. }
  apply ent_insert_in in Hin. destruct Hin as [->|Hin]; [left; reflexivity | right; exact Hin].
Qed.

(* ------------------------------------------------------------------ cache_ok is preserved *)
Lemma cache_new_ok mi cap : cache_ok (cache_new mi cap).
Proof. split; [apply sorted_keys_nil | reflexivity]. Qed.

Lemma cache_insert_ok_fresh c k v :
  cache_ok c -> ~ In k (map fst (ch_entries c)) -> cache_ok (cache_insert c k v).
Proof.
  intros [Hs Hsz] Hn. rewrite cache_insert_eq. unfold cache_ok. cbn [cache_with ch_entries ch_size].
  destruct (evict_loop c (ent_insert k v (ch_entries c)) (ch_size c + psize v)) as [es' sz'] eqn:E.
  apply evict_loop_spec in E. destruct E as (pre & H1 & _ & H3 & _). cbn [fst snd]. split.
  - apply (sorted_keys_suffix pre). rewrite <- H1. apply ent_insert_sorted. exact Hs.
  - apply H3. rewrite ent_insert_total_fresh by exact Hn. rewrite Hsz. reflexivity.
Qed.

Lemma cache_insert_ok c k v :
  cache_ok c -> (forall id p, In (id, p) (ch_entries c) -> key_lt id k) ->
  cache_ok (cache_insert c k v).
Proof.
  intros Hok H. apply cache_insert_ok_fresh; [exact Hok|]. apply above_not_in. exact H.
Qed.

Lemma cache_truncate_after_ok c key : cache_ok c -> cache_ok (cache_truncate_after c key).
Proof.
  intros [Hs Hsz]. rewrite cache_truncate_after_eq. unfold cache_ok.
  cbn [cache_with ch_entries ch_size].
  destruct (pop_last_loop key (rev (ch_entries c)) (ch_size c)) as [r sz'] eqn:E.
  apply pop_last_loop_spec in E. destruct E as (pre & H1 & _ & H3 & _). cbn [fst snd].
  assert (Hes : ch_entries c = rev r ++ rev pre).
  { rewrite <- rev_app_distr, <- H1, rev_involutive. reflexivity. }
  split.
  - rewrite Hes in Hs. apply sorted_keys_prefix in Hs. exact Hs.
  - rewrite total_rev. apply H3. rewrite total_rev. exact Hsz.
Qed.

Lemma cache_purge_upto_ok c key : cache_ok c -> cache_ok (cache_purge_upto c key).
Proof.
  intros [Hs Hsz]. rewrite cache_purge_upto_eq. unfold cache_ok.
  cbn [cache_with ch_entries ch_size].
  destruct (purge_loop key (ch_evictable c) (ch_entries c) (ch_size c)) as [es' sz'] eqn:E.
  apply purge_loop_spec in E. destruct E as (pre & H1 & _ & H3 & _). cbn [fst snd]. split.
  - rewrite H1 in Hs. apply sorted_keys_suffix in Hs. exact Hs.
  - apply H3. exact Hsz.
Qed.

Lemma cache_drain_ok c : cache_ok c -> cache_ok (cache_drain c).
Proof.
  intros [Hs Hsz]. rewrite cache_drain_eq. unfold cache_ok.
  cbn [cache_with ch_entries ch_size].
  destruct (drain_loop (ch_evictable c) (ch_entries c) (ch_size c)) as [es' sz'] eqn:E.
  apply drain_loop_spec in E. destruct E as (pre & H1 & _ & H3 & _). cbn [fst snd]. split.
  - rewrite H1 in Hs. apply sorted_keys_suffix in Hs. exact Hs.
  - apply H3. exact Hsz.
Qed.

Lemma cache_clear_ok c : cache_ok c -> cache_ok (cache_clear c).
Proof. intros _. split; [apply sorted_keys_nil | reflexivity]. Qed.

Lemma cache_set_evictable_ok c b : cache_ok c -> cache_ok (cache_set_evictable c b).
Proof. intros H. exact H. Qed.

(* ------------------------------------------------------------------ keys_le *)
Lemma keys_le_new mi cap b : keys_le (cache_new mi cap) b.
Proof. intros id p []. Qed.

Lemma keys_le_mono c b b' : keys_le c b -> opair_leb b b' = true -> keys_le c b'.
Proof. intros H Hb id p Hin. eapply opair_leb_trans; [apply (H id p Hin) | exact Hb]. Qed.

Lemma keys_le_incl c c' b : incl (ch_entries c') (ch_entries c) -> keys_le c b -> keys_le c' b.
Proof. intros Hi H id p Hin. apply (H id p). apply Hi. exact Hin. Qed.

Lemma keys_le_set_evictable c b e : keys_le c b -> keys_le (cache_set_evictable c e) b.
Proof. intros H. exact H. Qed.

Lemma keys_le_clear c b : keys_le (cache_clear c) b.
Proof. intros id p []. Qed.

Lemma keys_le_drain c b : keys_le c b -> keys_le (cache_drain c) b.
Proof. apply keys_le_incl, cache_drain_incl. Qed.

Lemma keys_le_purge_upto c key b : keys_le c b -> keys_le (cache_purge_upto c key) b.
Proof. apply keys_le_incl, cache_purge_upto_incl. Qed.

Lemma keys_le_truncate_after c key b : keys_le c b -> keys_le (cache_truncate_after c key) b.
Proof. apply keys_le_incl, cache_truncate_after_incl. Qed.

(* after truncate_after every resident key is <= the truncation key *)
Lemma keys_le_truncate_after_key c key :
  sorted_keys (ch_entries c) -> keys_le (cache_truncate_after c key) (Some key).
Proof.
  intros Hs id p Hin. rewrite cache_truncate_after_entries in Hin by exact Hs.
  apply filter_In in Hin. destruct Hin as [_ Hle]. exact Hle.
Qed.

(* an insert above the bound makes the inserted key the bound *)
Lemma keys_le_insert c k v b :
  keys_le c b -> opair_leb b (Some k) = true -> keys_le (cache_insert c k v) (Some k).
Proof.
  intros H Hb id p Hin. apply cache_insert_incl in Hin. destruct Hin as [Hin|Hin].
  - inversion Hin; subst. apply opair_leb_refl.
  - eapply opair_leb_trans; [apply (H id p Hin) | exact Hb].
Qed.

(* keys <= bound < k : every resident key is below k *)
Lemma keys_le_below c b k :
  keys_le c b -> opair_leb (Some k) b = false ->
  forall id p, In (id, p) (ch_entries c) -> key_lt id k.
Proof. intros H Hk id p Hin. eapply opair_le_gt_lt; [apply (H id p Hin) | exact Hk]. Qed.

(* ------------------------------------------------------------------ C15 at the cache level *)
(* over a limit after an insert: every resident entry is above the boundary *)
Theorem C15_over_limit_pinned_sorted c k v :
  sorted_keys (ch_entries c) ->
  let c' := cache_insert c k v in
  need_evict c' (length (ch_entries c')) (ch_size c') = true ->
  forall id p, In (id, p) (ch_entries c') -> opair_leb (Some id) (ch_evictable c) = false.
Proof.
  intros Hs c'. subst c'.
  rewrite (need_evict_ext c (cache_insert c k v))
    by (apply cache_insert_max_items || apply cache_insert_capacity).
  rewrite cache_insert_eq. cbn [cache_with ch_entries ch_size].
  destruct (evict_loop c (ent_insert k v (ch_entries c)) (ch_size c + psize v)) as [es' sz'] eqn:E.
  apply evict_loop_spec in E. destruct E as (pre & H1 & _ & _ & H4). cbn [fst snd].
  intros Hne. destruct H4 as [H4|H4]; [congruence|].
  apply head_above_all; [|exact H4].
  apply (sorted_keys_suffix pre). rewrite <- H1. apply ent_insert_sorted. exact Hs.
Qed.

Theorem C15_over_limit_pinned_cache c k v :
  cache_ok c ->
  let c' := cache_insert c k v in
  need_evict c' (length (ch_entries c')) (ch_size c') = true ->
  forall id p, In (id, p) (ch_entries c') -> opair_leb (Some id) (ch_evictable c) = false.
Proof. intros [Hs _]. apply C15_over_limit_pinned_sorted. exact Hs. Qed.

(* after a drain nothing resident is at or below the boundary *)
Theorem C15_drain_sorted c :
  sorted_keys (ch_entries c) ->
  forall id p, In (id, p) (ch_entries (cache_drain c)) -> opair_leb (Some id) (ch_evictable c) = false.
Proof.
  intros Hs. rewrite cache_drain_eq. cbn [cache_with ch_entries].
  destruct (drain_loop (ch_evictable c) (ch_entries c) (ch_size c)) as [es' sz'] eqn:E.
  apply drain_loop_spec in E. destruct E as (pre & H1 & _ & _ & H4). cbn [fst].
  apply head_above_all; [|exact H4].
  rewrite H1 in Hs. apply sorted_keys_suffix in Hs. exact Hs.
Qed.

Theorem C15_drain_cache c :
  cache_ok c ->
  forall id p, In (id, p) (ch_entries (cache_drain c)) -> opair_leb (Some id) (ch_evictable c) = false.
Proof. intros [Hs _]. apply C15_drain_sorted. exact Hs. Qed.

(* the reported numbers: item count = number of distinct resident keys, size = payload bytes *)
Lemma cache_ok_counts c :
  cache_ok c ->
  NoDup (map fst (ch_entries c)) /\ ch_size c = total (ch_entries c).
Proof. intros [Hs Hsz]. split; [apply sorted_keys_NoDup; exact Hs | exact Hsz]. Qed.

Print Assumptions cache_insert_ok.
Print Assumptions cache_truncate_after_entries.
Print Assumptions ent_get_sorted.
Print Assumptions C15_over_limit_pinned_cache.
Print Assumptions C15_drain_cache.
