(* C14, end to end: after the caller has dropped the store and the worker has finished
   (fault-free run), the directory itself opens again and shows everything journalled
   before the last flush call.
   - the directory of a reachable state is one of its own crash images (self_image);
   - at a fault-free state whose worker is idle the directory is outside gap_class
     (idle_no_gap): every file but the newest holds its whole journal file;
   - every byte journalled before the last flush call is on disk (SE, idle_written);
   - C14_reopen_after_drop, with the lower bound [flushed_recs]. *)
From Coq Require Import List NArith Bool Lia Arith Sorting.Sorted.
From Coq Require Import ZifyBool ZifyN ZifyNat.
From Coq.Strings Require Import Byte.
From RaftLog Require Import Base.Bytes Model.Types Model.Codec Model.Cache Model.Core
  Model.Recover Model.Run Model.Sys Spec.Spec Spec.Hist Spec.Durable.
From RaftLog Require Import Proofs.CodecFacts Proofs.NoPanic Proofs.ScanFacts Proofs.RecoverFacts
  Proofs.OrderFacts Proofs.Refine.
From RaftLog Require Proofs.JournalDisk Proofs.JournalChunk Proofs.JournalFacts Proofs.PurgeFacts
  Proofs.PurgeDurable.
From RaftLog Require Import Proofs.CrashBase Proofs.CrashJournal Proofs.CrashSteps Proofs.CrashRecover
  Proofs.CrashSpec Proofs.CrashPrefix Proofs.CrashFacts Proofs.CrashSuffix Proofs.CrashRemoved
  Proofs.CrashPurged.
Import ListNotations.
Local Open Scope N_scope.
Local Arguments N.add : simpl never.
Local Arguments N.sub : simpl never.
Local Arguments N.mul : simpl never.
Local Arguments N.eqb : simpl never.
Local Arguments N.ltb : simpl never.
Local Arguments N.leb : simpl never.
Local Arguments N.compare : simpl never.
Local Arguments N.of_nat : simpl never.
Local Arguments enc_record : simpl never.

(* ------------------------------------------------------------------ the directory is a crash image of itself *)
Lemma self_image cfg z : zreach cfg z -> crash_image z (z_disk z).
Proof.
  intros Hr. pose proof (AF.C04_synced_le_written cfg z Hr) as Hs.
  unfold crash_image. induction Hs as [|f l Hf _ IH]; constructor; [|exact IH].
  split; [reflexivity|]. exists (length (f_data f)), 0%nat.
  split; [exact Hf|]. split; [lia|]. split; [|now left].
  cbn [zeros]. now rewrite firstn_all, app_nil_r.
Qed.

(* ------------------------------------------------------------------ fault-free runs *)
Lemma ff_reach cfg z : zreach_ff cfg z -> zreach cfg z.
Proof. intros (z0 & es & vis & H0 & _ & Hr). exists z0, es, vis. auto. Qed.

Lemma ff_alive cfg z : zreach_ff cfg z -> w_alive (z_w z) = true.
Proof.
  intros H. cut (PurgeFacts.ffinv z); [intros Hf; apply Hf|].
  revert z H. apply (AF.zreach_ff_ind PurgeFacts.ffinv).
  - repeat split.
  - intros z e z' v He Hf Hs. eapply PurgeFacts.ff_zstep; eauto.
Qed.

Lemma idle_stream z : worker_idle2 z -> AD.stream z = [].
Proof.
  intros (Hq & Hb & Ht). unfold AD.stream, AD.stream_batch. now rewrite Hb, Hq, Ht.
Qed.

(* ------------------------------------------------------------------ an idle worker has written everything *)
(* fault-free, worker idle: every file holds its whole journal file, except that the
   newest one (the open chunk) still lacks the bytes the caller has not sent yet *)
Lemma idle_content cfg z G : zreach_ff cfg z -> JI z G -> worker_idle2 z ->
  forall f, In f (z_disk z) ->
    f_data f ++ (if N.eqb (ck_id (k_open (z_core z))) (f_id f) then k_pending (z_core z) else [])
    = gbytes G (f_id f).
Proof.
  intros Hff J Hi f Hf.
  pose proof (ji_e _ _ J (ff_alive _ _ Hff)) as HE. rewrite (idle_stream _ Hi) in HE.
  pose proof (ei_E _ _ _ _ _ HE (f_id f)) as H. cbn [pw creates AD.creates flat_map] in H.
  assert (Hsd : disk_sorted (z_disk z)).
  { apply AD.b_sorted, AD.f_b. eapply full_reach, ff_reach; eauto. }
  rewrite (data_of_in _ _ Hsd Hf) in H. apply H.
  rewrite app_nil_r. now apply in_map.
Qed.

Lemma Forall2_cons_inv_l {A B} (R : A -> B -> Prop) a la lb :
  Forall2 R (a :: la) lb -> exists b lb', lb = b :: lb' /\ R a b /\ Forall2 R la lb'.
Proof. intros H. inversion H; subst. eauto. Qed.

Lemma idle_no_gap cfg z : zreach_ff cfg z -> hist_wf z -> worker_idle2 z -> ~ gap_class (z_disk z).
Proof.
  intros Hff Hw Hi (pre & f & g & post & Ed & Hne).
  pose proof (ff_reach _ _ Hff) as Hr.
  destruct (L2_journal cfg z Hr Hw) as [G J].
  destruct (image_analysis cfg z (z_disk z) G Hr J (self_image cfg z Hr)) as (Gd & IF).
  destruct IF as [_ (A & C & EG & _) Hids Hpre _].
  pose proof (AD.f_b _ (full_reach cfg z Hr)) as B.
  pose proof (AD.b_sorted _ B) as Hsd. pose proof (AD.b_dle _ B) as Hdle.
  pose proof (gi_sorted _ _ _ _ (ji_gi _ _ J)) as Hs.
  pose proof (gi_ok _ _ _ _ (ji_gi _ _ J)) as Hok.
  pose proof (gi_abut _ _ _ _ (ji_gi _ _ J)) as Hab.
  rewrite EG in Hab. apply Abut_app in Hab. destruct Hab as [_ Hab].
  apply Abut_app in Hab. destruct Hab as [Hab _].
  rewrite Ed in Hpre. apply Forall2_app_inv_l in Hpre.
  destruct Hpre as (G1 & G2 & _ & Hp2 & EGd).
  apply Forall2_cons_inv_l in Hp2. destruct Hp2 as (gf & G2' & -> & [Ef _] & Hp2).
  apply Forall2_cons_inv_l in Hp2. destruct Hp2 as (gg & G2'' & -> & [Eg _] & _).
  rewrite EGd in Hab. apply Abut_app in Hab. destruct Hab as [_ Hab].
  cbn [RF.Abut] in Hab. destruct Hab as [Hab _].
  (* f is not the open chunk *)
  assert (Hfin : In f (z_disk z)) by (rewrite Ed; apply in_or_app; right; now left).
  assert (Hgin : In g (z_disk z)) by (rewrite Ed; apply in_or_app; right; right; now left).
  assert (Hlt : f_id f < f_id g).
  { rewrite Ed in Hsd. apply AD.sorted_app_inv in Hsd. destruct Hsd as (_ & Hsd & _).
    inversion Hsd as [|? ? _ Hall]; subst. apply (Forall_inv Hall). }
  rewrite Forall_forall in Hdle. pose proof (Hdle g Hgin) as Hgle. cbn beta in Hgle.
  pose proof (idle_content cfg z G Hff J Hi f Hfin) as Hc.
  destruct (N.eqb_spec (ck_id (k_open (z_core z))) (f_id f)) as [E|_]; [lia|].
  rewrite app_nil_r in Hc.
  assert (Hgf : In (fst gf, snd gf) G).
  { rewrite EG, EGd. apply in_or_app. right. apply in_or_app. left. apply in_or_app. right.
    left. now destruct gf. }
  unfold gbytes in Hc. rewrite Ef, (glook_sorted G _ _ Hs Hgf) in Hc.
  assert (Hwf : Forall wf_record (snd gf)).
  { rewrite Forall_forall in Hok. destruct gf as [i rs]. apply (Hok _ Hgf). }
  apply Hne. pose proof (vlen_shape _ _ Hwf TS_none) as Hv. rewrite app_nil_r in Hv.
  rewrite Hc. rewrite jencs_eq. rewrite Hv, Ef, Eg, Hab. reflexivity.
Qed.

(* ------------------------------------------------------------------ what has been sent covers every flush *)
(* the journal end offset of every flush call lies at or below the end of what the
   caller has handed over (everything journalled except [k_pending]) *)
Definition se (k : core) (U : N) : Prop :=
  U + N.of_nat (length (k_pending k)) <= ck_end (k_open k).
Definition SE (z : sys2) : Prop := Forall (se (z_core z)) (AD.flushed_us z).

Lemma se_aa_res k k' effs U : AF.aa_res k k' effs -> se k U -> se k' U.
Proof.
  unfold se. intros H Hs. destruct H as [|k' data _ Ho Hp _ _ _|k' data head prev st _ _ Ho Hp _ _ _].
  - exact Hs.
  - rewrite Ho, Hp, AF.ck_end_push, app_length. lia.
  - rewrite Ho, Hp, AF.ck_end_push, AD.ck_end_empty. cbn [length]. lia.
Qed.

Lemma se_aa_chain k k' effs U : AF.aa_chain k k' effs -> se k U -> se k' U.
Proof. induction 1 as [|k k1 k2 e1 e2 H1 _ IH]; intros Hs; [exact Hs|]. eapply IH, se_aa_res; eauto. Qed.

Lemma se_same k k' U : k_open k' = k_open k -> k_pending k' = k_pending k -> se k U -> se k' U.
Proof. unfold se. intros -> ->. auto. Qed.

Lemma SE_same z z' : k_open (z_core z') = k_open (z_core z) -> k_pending (z_core z') = k_pending (z_core z) ->
  g_flushed (z_ghost z') = g_flushed (z_ghost z) -> SE z -> SE z'.
Proof.
  unfold SE, AD.flushed_us. intros Ho Hp ->. apply Forall_impl. intros U. now apply se_same.
Qed.

Lemma SE_step z e z' v : SE z -> zstep z e = Some (z', v) -> SE z'.
Proof.
  intros S H. destruct e as [o| |k nf|ok|]; cbn [zstep] in H.
  - unfold zcall in H.
    destruct (z_todo z) eqn:Et; [|discriminate]. destruct (z_dropped z); [discriminate|].
    destruct o as [w|cb|from to| | | | | |cfg'].
    + destruct (do_write (z_core z) w) as [[[k r] effs]|] eqn:E; [|discriminate].
      inversion H; subst; clear H.
      destruct (AF.do_write_inv _ _ _ _ _ E) as (k1 & Hch & (Ho & Hp & _)).
      unfold SE, AD.flushed_us in *. cbn [z_core z_ghost set_ghost set_todo set_core g_flushed].
      eapply Forall_impl; [|exact S]. intros U HU.
      eapply se_same; [exact Ho|exact Hp|]. eapply se_aa_chain; eauto.
    + unfold do_flush in H. inversion H; subst; clear H.
      unfold SE, AD.flushed_us in *.
      cbn [z_core z_ghost set_ghost set_todo set_core g_flushed].
      rewrite map_app, Forall_app. split.
      * eapply Forall_impl; [|exact S]. unfold se. cbn [k_open k_pending length]. intros U HU. lia.
      * constructor; [|constructor]. unfold se. cbn [k_open k_pending length fst snd]. lia.
    + destruct (do_read (z_core z) (z_disk z) from to) as [k items] eqn:Er. inversion H; subst; clear H.
      pose proof (AF.do_read_fields (z_core z) (z_disk z) from to) as Hf. rewrite Er in Hf.
      cbn [fst] in Hf. destruct Hf as (Ho & Hp & _).
      eapply SE_same; [| | |exact S]; cbn [z_core z_ghost set_core]; auto.
    + inversion H; subst. exact S.
    + inversion H; subst. exact S.
    + inversion H; subst. exact S.
    + destruct (z_queue z); [|discriminate]. destruct (worker_quiet z); [|discriminate].
      inversion H; subst. exact S.
    + inversion H; subst; clear H. eapply SE_same; [| | |exact S]; reflexivity.
    + discriminate.
  - unfold zeff in H. destruct (z_todo z) as [|[id|id h|r] t]; [discriminate| | |];
      inversion H; subst; clear H; (eapply SE_same; [| | |exact S]; reflexivity).
  - destruct (AD.zrecv_frame _ _ _ _ _ H) as (_ & Hg & Hc & _).
    eapply SE_same; [| | |exact S]; rewrite ?Hc, ?Hg; reflexivity.
  - destruct (AD.zwork_frame _ _ _ _ H) as (_ & Hg & _ & (Ho & Hp & _) & _).
    eapply SE_same; [exact Ho|exact Hp|now rewrite Hg|exact S].
  - destruct (z_todo z); [|discriminate]. inversion H; subst; clear H.
    eapply SE_same; [| | |exact S]; reflexivity.
Qed.

Lemma SE_reach cfg z : zreach cfg z -> SE z.
Proof.
  revert z. apply (AF.zreach_ind SE); [constructor|]. intros; eapply SE_step; eauto.
Qed.

(* ------------------------------------------------------------------ records that are on disk are recovered *)
(* a record of the newest file that ends at or below an offset covered by what is
   written is among the complete records of that file *)
Lemma written_records recs j tl data o U i e :
  Forall wf_record recs -> tail_shape tl -> data = encs (firstn j recs) ++ tl ->
  bprefix data (encs recs) -> U <= o + N.of_nat (length data) ->
  nth_error (ends_from o (map rec_size recs)) i = Some e -> e <= U -> (S i <= j)%nat.
Proof.
  intros Hwf Htl Ed Hbp HU Hn He. destruct (ends_from_nth _ _ _ _ Hn) as [Hil Ee].
  set (m := length (encs (firstn (S i) recs))) in *.
  assert (Hm : (m <= length data)%nat) by lia.
  apply (intact_records recs j tl i data Hwf Htl Ed); [lia|].
  fold m. rewrite (bprefix_firstn _ _ Hbp), firstn_firstn.
  replace (Nat.min m (length data)) with m by lia.
  rewrite (encs_firstn_skipn (S i) recs). apply firstn_app_exact.
Qed.

Lemma nb_bound_written (A Go : list jfile) o recs j U :
  (forall i e, nth_error (ends_from o (map rec_size recs)) i = Some e -> e <= U -> (S i <= j)%nat) ->
  (nb (A ++ Go ++ [(o, recs)]) U <= length (jrecs (A ++ Go ++ [(o, firstn j recs)])))%nat.
Proof.
  intros H. unfold nb. rewrite !rec_ends_app, !filter_app, !app_length.
  rewrite !jrecs_app, !app_length, !jrecs_one.
  assert (H0 : (length (filter (fun e => N.leb e U) (rec_ends A)) <= length (jrecs A))%nat).
  { rewrite <- rec_ends_length. apply filter_len_le. }
  assert (H1 : (length (filter (fun e => N.leb e U) (rec_ends Go)) <= length (jrecs Go))%nat).
  { rewrite <- rec_ends_length. apply filter_len_le. }
  assert (H2 : (length (filter (fun e => N.leb e U) (rec_ends [(o, recs)])) <=
                length (List.tl (firstn j recs)))%nat).
  { unfold rec_ends. cbn [flat_map]. rewrite app_nil_r. now apply fends_bound. }
  lia.
Qed.

(* ------------------------------------------------------------------ opening without truncation *)
(* [crash_open] of CrashRecover.v with a weaker hypothesis: truncation of incomplete
   records may be disabled if the newest file of the image holds whole records only.
   (The proof is the one of crash_open; only the last step differs.) *)
Definition whole_newest (d' : disk) : Prop :=
  forall pre f, d' = pre ++ [f] -> exists rs, Forall wf_record rs /\ f_data f = encs rs.

Lemma crash_open_gen cfg cfg' z d' G : zreach cfg z -> JI z G -> crash_image z d' ->
  ~ gap_class d' -> c_truncate cfg' = true \/ whole_newest d' -> d' <> [] ->
  exists Gd Go o recs j older' nf' tl y' s1,
    image_facts z d' G Gd /\ Gd = Go ++ [(o, recs)] /\
    d' = older' ++ [nf'] /\ Forall2 RF.file_match older' Go /\ f_id nf' = o /\
    f_data nf' = encs (firstn j recs) ++ tl /\ tail_shape tl /\
    open_dir cfg' d' = OpenOk y' /\
    RS.replay_files (sm_new cfg') (Go ++ [(o, firstn j recs)]) = (s1, None) /\
    m_rs (k_sm (y_core y')) = m_rs s1 /\ m_log (k_sm (y_core y')) = m_log s1.
Proof.
  intros Hr J0 Hc Hng Ht Hne.
  destruct (image_analysis cfg z d' G Hr J0 Hc) as (Gd & IF).
  pose proof IF as [J (A & C & EG & _) Hids Hpre Himg].
  destruct (exists_last Hne) as (older' & nf' & Ed). subst d'.
  assert (HGd : Gd <> []).
  { intros ->. apply Forall2_length in Himg. rewrite app_length in Himg. simpl in Himg. lia. }
  destruct (exists_last HGd) as (Go & [o recs] & EGd). subst Gd.
  pose proof (gi_sorted _ _ _ _ (ji_gi _ _ J)) as Hs.
  pose proof (gi_ok _ _ _ _ (ji_gi _ _ J)) as Hok.
  pose proof (gi_abut _ _ _ _ (ji_gi _ _ J)) as Hab.
  pose proof (Chain_runs _ _ (gi_chain _ _ _ _ (ji_gi _ _ J))) as Hrun.
  rewrite EG in Hs, Hok, Hab, Hrun. rewrite !map_app in Hs.
  rewrite !Forall_app in Hok, Hrun.
  destruct Hok as (_ & [Hoko Hokl] & _). destruct Hrun as (_ & [Hruno Hrunl] & _).
  apply Abut_app in Hab. destruct Hab as [_ Hab]. apply Abut_app in Hab. destruct Hab as [Hab _].
  assert (Hsd : StronglySorted N.lt (map fst (Go ++ [(o, recs)]))).
  { rewrite map_app. eapply ss_sub. exact Hs. }
  pose proof (older_complete _ _ _ _ Himg Hab Hng) as Hfm.
  destruct (Forall2_last_inv _ _ _ _ _ Himg) as [_ (Eid & j & tl & Edat & Htl & Hwj & Hl)].
  simpl in Eid, Edat, Hwj, Hl.
  destruct (replay_files_ok Go (sm_new cfg') Hruno) as [t Hrep].
  assert (Hjok : Forall RF.jfile_ok Go).
  { eapply Forall_impl; [|exact Hoko]. intros g [Hg1 (st & tl0 & E)]. split; [exact Hg1|].
    rewrite E. discriminate. }
  destruct (RF.open_older_replay cfg' older' Go (o, recs) (acc0 cfg' (older' ++ [nf'])) t Hfm
              Hjok Hab Hsd eq_refl eq_refl (Forall_nil _) Hrep)
    as (a' & Ho & Hsm & Hlast & Hdisk & Hclosed & Hgap).
  pose proof (Forall_inv Hrunl) as Hrl.
  destruct (chunk_replay_prefix (o, recs) j t Hrl) as [s1 Hs1]. simpl in Hs1.
  assert (Hidlt : Forall (fun g => f_id g < o) older').
  { assert (Hm : map f_id older' = map fst Go).
    { clear - Hfm. induction Hfm as [|f g l1 l2 [E _] _ IH]; simpl; [reflexivity|]. now rewrite E, IH. }
    rewrite map_app in Hsd. simpl in Hsd. apply JournalDisk.ss_app_inv in Hsd.
    destruct Hsd as (_ & _ & Hlt). rewrite Forall_forall. intros g Hg.
    apply Hlt; [|now left]. rewrite <- Hm. now apply in_map. }
  assert (Hgap' : oa_prev_end a' = Some o \/ older' = []).
  { destruct (list_eq_dec N.eq_dec (map f_id older') []) as [E0|E0].
    - right. destruct older'; [reflexivity|discriminate].
    - left. assert (Hne' : older' <> []) by (intros ->; apply E0; reflexivity).
      pose proof (open_older_prev cfg' _ _ _ Ho (or_introl Hne')) as Hp.
      unfold gap_at in Hgap. cbn [fst] in Hgap. destruct (oa_prev_end a') as [p|]; [|congruence].
      destruct (N.eqb_spec p o) as [E1|E1]; [now rewrite E1|discriminate]. }
  assert (Hor : c_truncate cfg' = true \/ tl = []).
  { destruct Ht as [Ht|Hwh]; [now left|right].
    destruct (Hwh older' nf' eq_refl) as (rs' & Hw' & E').
    destruct (scan_tail_shape (firstn j recs) tl Hwj Htl) as [e Es].
    rewrite <- Edat, E', (scan_encs rs' Hw') in Es. inversion Es; subst. reflexivity. }
  destruct nf' as [nid ndata nsyn]. simpl in Eid, Edat. subst nid ndata.
  assert (Hrep1 : replay (sm_pre a') o o (firstn j recs)
                         (ends_from o (map rec_size (firstn j recs))) = (s1, None)).
  { rewrite (RF.sm_pre_chunk_pre a') by (rewrite Hlast, Hsm; reflexivity). rewrite Hsm. exact Hs1. }
  destruct (C10_longest_prefix_open cfg' older' o nsyn (firstn j recs) tl a' Ho Hidlt Hgap' Hwj Htl s1
              Hor Hrep1) as (y' & Hopen & Hrs & Hlog & _).
  exists (Go ++ [(o, recs)]), Go, o, recs, j, older', (mkFile o (encs (firstn j recs) ++ tl) nsyn), tl, y', s1.
  split; [exact IF|]. split; [reflexivity|]. split; [reflexivity|]. split; [exact Hfm|].
  split; [reflexivity|]. split; [reflexivity|]. split; [exact Htl|]. split; [exact Hopen|].
  split; [|split; assumption].
  eapply RS.replay_files_snoc; [exact Hrep|exact Hs1].
Qed.

(* fault-free, worker idle, nothing left in the caller's buffer: every file holds whole
   records only *)
Lemma idle_whole cfg z G : zreach_ff cfg z -> JI z G -> worker_idle2 z ->
  k_pending (z_core z) = [] -> whole_newest (z_disk z).
Proof.
  intros Hff J Hi Hp pre f Ed.
  assert (Hfin : In f (z_disk z)) by (rewrite Ed; apply in_or_app; right; now left).
  pose proof (idle_content cfg z G Hff J Hi f Hfin) as Hc. rewrite Hp in Hc.
  assert (Hc' : f_data f = gbytes G (f_id f)).
  { destruct (N.eqb _ _) in Hc; now rewrite app_nil_r in Hc. }
  unfold gbytes in Hc'. destruct (glook (f_id f) G) as [rs|] eqn:El.
  - exists rs. split; [|now rewrite Hc', jencs_eq].
    apply glook_In in El. pose proof (gi_ok _ _ _ _ (ji_gi _ _ J)) as Hok.
    rewrite Forall_forall in Hok. apply (Hok _ El).
  - exists []. split; [constructor|exact Hc'].
Qed.

(* ------------------------------------------------------------------ the lower bound *)
(* number of records journalled before the last flush call (with or without callback) *)
Definition flushed_recs (z : sys2) : nat :=
  match rev (g_flushed (z_ghost z)) with
  | [] => 0%nat
  | (_, _, n) :: _ => length (htrace spec0 (firstn n (PL.hist z)))
  end.

(* ---- flushed_recs is at least acked: the flush calls are recorded in call order ---- *)
Definition FM (z : sys2) : Prop :=
  StronglySorted le (map (fun p : option N * N * nat => snd p) (g_flushed (z_ghost z)) ++
                     [length (g_writes (z_ghost z))]).

Lemma FM_same z z' : g_flushed (z_ghost z') = g_flushed (z_ghost z) ->
  g_writes (z_ghost z') = g_writes (z_ghost z) -> FM z -> FM z'.
Proof. unfold FM. intros -> ->. auto. Qed.

Lemma ss_le_last (l : list nat) a b : (a <= b)%nat -> StronglySorted le (l ++ [a]) -> StronglySorted le (l ++ [b]).
Proof.
  rewrite !AF.ss_app. intros Hab (H1 & _ & H3). split; [exact H1|]. split; [repeat constructor|].
  intros x y Hx [<-|[]]. specialize (H3 x a Hx (or_introl eq_refl)). lia.
Qed.

Lemma ss_le_dup (l : list nat) a : StronglySorted le (l ++ [a]) -> StronglySorted le ((l ++ [a]) ++ [a]).
Proof.
  intros H. apply AF.ss_app. split; [exact H|]. split; [repeat constructor|].
  intros x y Hx [<-|[]]. apply AF.ss_app in H. destruct H as (_ & _ & H).
  apply in_app_or in Hx. destruct Hx as [Hx|[<-|[]]]; [|lia]. apply (H x a Hx). now left.
Qed.

Lemma FM_step z e z' v : FM z -> zstep z e = Some (z', v) -> FM z'.
Proof.
  intros S H. destruct e as [o| |k nf|ok|]; cbn [zstep] in H.
  - unfold zcall in H.
    destruct (z_todo z) eqn:Et; [|discriminate]. destruct (z_dropped z); [discriminate|].
    destruct o as [w|cb|from to| | | | | |cfg'].
    + destruct (do_write (z_core z) w) as [[[k r] effs]|] eqn:E; [|discriminate].
      inversion H; subst; clear H. unfold FM in *.
      cbn [z_ghost set_ghost set_todo set_core g_flushed g_writes].
      rewrite app_length. cbn [length]. eapply ss_le_last; [|exact S]. lia.
    + unfold do_flush in H. inversion H; subst; clear H. unfold FM in *.
      cbn [z_ghost set_ghost set_todo set_core g_flushed g_writes].
      rewrite map_app. cbn [map snd]. now apply ss_le_dup.
    + destruct (do_read (z_core z) (z_disk z) from to) as [k items] eqn:Er. inversion H; subst; clear H.
      exact S.
    + inversion H; subst. exact S.
    + inversion H; subst. exact S.
    + inversion H; subst. exact S.
    + destruct (z_queue z); [|discriminate]. destruct (worker_quiet z); [|discriminate].
      inversion H; subst. exact S.
    + inversion H; subst; clear H. exact S.
    + discriminate.
  - unfold zeff in H. destruct (z_todo z) as [|[id|id h|r] t]; [discriminate| | |];
      inversion H; subst; clear H; exact S.
  - destruct (AD.zrecv_frame _ _ _ _ _ H) as (_ & Hg & _). unfold FM in *. now rewrite Hg.
  - destruct (AD.zwork_frame _ _ _ _ H) as (_ & Hg & _). unfold FM in *. now rewrite Hg.
  - destruct (z_todo z); [|discriminate]. inversion H; subst; clear H. exact S.
Qed.

Lemma FM_reach cfg z : zreach cfg z -> FM z.
Proof.
  revert z. apply (AF.zreach_ind FM); [repeat constructor|]. intros; eapply FM_step; eauto.
Qed.

Lemma htrace_firstn_mono s (h : list wop) a b : (a <= b)%nat ->
  (length (htrace s (firstn a h)) <= length (htrace s (firstn b h)))%nat.
Proof.
  intros Hab. replace (firstn a h) with (firstn a (firstn b h)).
  - rewrite <- (firstn_skipn a (firstn b h)) at 2. rewrite htrace_app, app_length. lia.
  - rewrite firstn_firstn. f_equal. lia.
Qed.

(* the new lower bound is at least the one of C03_prefix *)
Lemma acked_le_flushed_recs cfg z : zreach cfg z -> (acked z <= flushed_recs z)%nat.
Proof.
  intros Hr. pose proof (FM_reach cfg z Hr) as HF. unfold FM in HF.
  apply AF.ss_app in HF. destruct HF as (HF & _).
  unfold acked, flushed_recs. apply list_max_le. rewrite Forall_forall. intros x Hx.
  apply in_map_iff in Hx. destruct Hx as (e & <- & He).
  rewrite <- (rev_involutive (g_flushed (z_ghost z))) in He, HF.
  destruct (rev (g_flushed (z_ghost z))) as [|[[cb U] n] rest]; [destruct He|].
  cbn [rev] in He, HF. rewrite map_app in HF. apply AF.ss_app in HF. destruct HF as (_ & _ & HF).
  destruct e as [[[c|] Ue] ne]; cbn [ack_of]; [|lia].
  destruct (existsb _ (z_acks z)); [|lia].
  apply htrace_firstn_mono. apply in_app_or in He. destruct He as [He|[He|[]]].
  - apply (HF ne n); [|now left]. apply in_map_iff. exists (Some c, Ue, ne). auto.
  - inversion He; subst. lia.
Qed.

(* ------------------------------------------------------------------ C14, end to end *)
(* the common part: truncation enabled, or nothing left in the caller's buffer *)
Lemma reopen_gen : forall cfg cfg' z,
  zreach_ff cfg z -> hist_wf z -> PL.hist_legal z -> worker_idle2 z ->
  c_truncate cfg' = true \/ k_pending (z_core z) = [] ->
  exists y' k sp, open_dir cfg' (z_disk z) = OpenOk y' /\
    (flushed_recs z <= k)%nat /\ (k <= issued z)%nat /\
    nth_error (ref_states (PL.hist z)) k = Some sp /\
    m_rs (k_sm (y_core y')) = spec_state sp /\
    map f_log (m_log (k_sm (y_core y'))) = map g_ent (sp_entries sp).
Proof.
  intros cfg cfg' z Hff Hw Hl Hi Ht0.
  pose proof (ff_reach _ _ Hff) as Hr.
  pose proof (self_image cfg z Hr) as Hc.
  pose proof (idle_no_gap cfg z Hff Hw Hi) as Hng.
  set (d' := z_disk z) in Hc, Hng |- *.
  destruct (L2_removed cfg z Hr Hw Hl) as (G & J & HSP & HRI).
  assert (Hne : d' <> []) by (apply (disk_nonempty cfg z Hr)).
  assert (Ht : c_truncate cfg' = true \/ whole_newest d').
  { destruct Ht0 as [Ht0|Ht0]; [now left|right]. apply (idle_whole cfg z G Hff J Hi Ht0). }
  destruct (crash_open_gen cfg cfg' z d' G Hr J Hc Hng Ht Hne) as
    (Gd & Go & o & recs & j & older' & nf' & tl & y' & s1 & IF & EGd & Ed & Hfm & Eid & Edat & Htl &
     Hopen & Hrep & Hrs & Hlog).
  destruct IF as [_ (A & C & EG & HC) Hids Hpre Himg]. subst Gd.
  pose proof (gi_sorted _ _ _ _ (ji_gi _ _ J)) as Hs.
  pose proof (sc_files _ _ _ (sp_sc _ _ HSP)) as Hfo.
  assert (Hfo1 : files_ok spec0 (A ++ Go ++ [(o, recs)])).
  { rewrite EG, app_assoc in Hfo. apply files_ok_app in Hfo. apply Hfo. }
  assert (Hs1 : StronglySorted N.lt (map fst (A ++ Go ++ [(o, recs)]))).
  { rewrite EG, app_assoc, map_app in Hs. apply JournalDisk.ss_app_inv in Hs. apply Hs. }
  set (Gk := A ++ Go ++ [(o, firstn j recs)]) in *.
  destruct (tl_firstn_prefix recs j) as [rest0 Erest].
  assert (Ejr : jrecs G = jrecs Gk ++ (rest0 ++ jrecs C)).
  { rewrite EG. unfold Gk. rewrite !jrecs_app, !jrecs_one, Erest, <- !app_assoc. reflexivity. }
  (* the purge that made the removed files obsolete is inside the image *)
  assert (HA : A <> [] -> (Go <> [] \/ (1 <= j)%nat) /\
     ple (sp_last (run_recs spec0 (jrecs A))) (sp_purged (run_recs spec0 (jrecs Gk)))).
  { intros HAne. destruct (exists_last HAne) as (A0 & [c rsc] & EA).
    assert (Hcr : map fst (A ++ Go ++ [(o, recs)]) = g_created (z_ghost z)).
    { pose proof (gi_ids _ _ _ _ (ji_gi _ _ J)) as Hi'.
      rewrite EG, app_assoc, map_app, HC in Hi'. apply app_inv_tail in Hi'. exact Hi'. }
    assert (HcA : In c (map fst A)).
    { rewrite EA, map_app. apply in_or_app. right. now left. }
    assert (Hcc : In c (g_created (z_ghost z))).
    { rewrite <- Hcr, map_app. apply in_or_app. now left. }
    assert (Hcd : ~ In c (map f_id (z_disk z))).
    { rewrite <- Hids. intros Hin. rewrite map_app in Hs1.
      pose proof (ss_parts _ _ Hs1 c c HcA Hin). lia. }
    destruct (gone_requested cfg z c Hr Hcc Hcd) as (l & U & Hlu & Hcl).
    assert (Hnone : disk_get c (z_disk z) = None) by (apply disk_get_none_ids; exact Hcd).
    pose proof (PurgeDurable.C08_removed_after_durable cfg z Hr l U c Hlu Hcl Hnone) as Hdur.
    pose proof (ri_us _ _ HRI l U Hlu) as HU.
    destruct (ri_rem _ _ HRI l U c Hlu Hcl) as (Ga & rsc' & x & st & tl0 & Gb & n & EG2 & Hhd & Hn & Hp).
    assert (EG1 : G = A0 ++ (c, rsc) :: ((Go ++ [(o, recs)]) ++ C)).
    { rewrite EG, EA, <- !app_assoc. reflexivity. }
    assert (Hs2 : StronglySorted N.lt (map fst (A0 ++ (c, rsc) :: ((Go ++ [(o, recs)]) ++ C)))).
    { rewrite <- EG1. exact Hs. }
    rewrite EG1 in EG2. destruct (split_unique _ _ _ _ _ _ _ Hs2 EG2) as (<- & <- & Erest2).
    assert (Est : st = spec_state (run_recs spec0 (jrecs A))).
    { rewrite EG in Hfo. apply files_ok_app in Hfo. destruct Hfo as [_ Hfo].
      rewrite Erest2 in Hfo. cbn [files_ok snd] in Hfo. destruct Hfo as (tl1 & E1 & _).
      now inversion E1. }
    assert (Hnb : (nb G U <= length (jrecs Gk))%nat).
    { unfold Gk. eapply (nb_bound cfg z d' G A Go C o recs j tl older' nf' U); eauto. }
    split.
    - destruct Go as [|g0 Go']; [|left; discriminate]. right.
      cbn [app] in Erest2. inversion Erest2; subst x recs.
      eapply (durable_records cfg z d' G A [] C o (RState st :: tl0) j tl older' nf' U); eauto.
      reflexivity.
    - assert (Hn2 : (n <= length (jrecs Gk))%nat) by lia.
      rewrite Ejr, (firstn_prefix_eq _ _ _ Hn2) in Hp.
      rewrite <- (firstn_skipn n (jrecs Gk)), run_recs_app.
      unfold ple in *. eapply opair_le_trans; [|apply run_recs_purged].
      rewrite Est in Hp. exact Hp. }
  pose proof (recovered cfg' A Go o recs j s1 Hfo1 Hs1 Hrep HA) as HR0. fold Gk in HR0.
  exists y', (length (jrecs Gk)), (run_recs spec0 (jrecs Gk)).
  split; [exact Hopen|]. split; [|split; [|split; [|split]]].
  - (* everything journalled before the last flush call is on disk *)
    unfold flushed_recs. destruct (rev (g_flushed (z_ghost z))) as [|[[cb U] n] rest] eqn:Erev; [lia|].
    assert (He : In (cb, U, n) (g_flushed (z_ghost z))).
    { apply in_rev. rewrite Erev. now left. }
    destruct (sp_fl _ _ HSP _ _ _ He) as [_ Hnb].
    eapply Nat.le_trans; [exact Hnb|]. clear Hnb.
    (* nothing is about to be created: the journal ends with the newest file on disk *)
    assert (EC : C = []).
    { destruct Hi as (_ & _ & Htd). rewrite Htd in HC. cbn in HC. destruct C; [reflexivity|discriminate]. }
    subst C. rewrite app_nil_r in EG.
    destruct (gi_last _ _ _ _ (ji_gi _ _ J)) as (G0 & rs & EGl).
    assert (Elast : (o, recs) = (ck_id (k_open (z_core z)), rs)).
    { rewrite EG, app_assoc in EGl. apply app_inj_tail in EGl. apply EGl. }
    inversion Elast as [[Eo Ers]]. clear Elast.
    pose proof (JournalChunk.ji_open_end _ _ _ (gi_jinv _ _ _ _ (ji_gi _ _ J))) as Hend.
    rewrite EGl, gbytes_last in Hend by (rewrite <- EGl; exact Hs).
    rewrite <- Eo, <- Ers in Hend.
    (* the newest file *)
    destruct (Forall2_snoc_inv_r _ _ _ _ Hpre) as (dpre & f & Edisk & _ & (Efid & Hbp)).
    cbn [fst snd] in Efid, Hbp.
    assert (Ef : f = nf').
    { unfold d' in Ed. rewrite Edisk in Ed. apply app_inj_tail in Ed. apply Ed. }
    subst f.
    assert (Hfin : In nf' (z_disk z)) by (rewrite Edisk; apply in_or_app; right; now left).
    pose proof (idle_content cfg z G Hff J Hi nf' Hfin) as Hcont.
    rewrite Efid, Eo, N.eqb_refl in Hcont. rewrite <- Eo in Hcont.
    rewrite EG, app_assoc, gbytes_last in Hcont by (rewrite <- app_assoc, <- EG; exact Hs).
    (* U lies below the end of what is on disk *)
    pose proof (SE_reach cfg z Hr) as HSE. unfold SE in HSE. rewrite Forall_forall in HSE.
    assert (HUin : In U (AD.flushed_us z)).
    { unfold AD.flushed_us. apply in_map_iff. exists (cb, U, n). split; [reflexivity|exact He]. }
    pose proof (HSE U HUin) as HUse. unfold se in HUse.
    assert (HUw : U <= o + N.of_nat (length (f_data nf'))).
    { apply (f_equal (@length byte)) in Hcont. rewrite app_length in Hcont.
      rewrite jencs_eq in Hcont.
      change (JournalChunk.blen (JournalChunk.encs recs)) with (N.of_nat (length (encs recs))) in Hend.
      lia. }
    pose proof (gi_ok _ _ _ _ (ji_gi _ _ J)) as Hok. rewrite EG, !Forall_app in Hok.
    destruct Hok as (_ & _ & Hokl). pose proof (Forall_inv Hokl) as [Hwf _]. cbn [snd] in Hwf.
    rewrite EG. unfold Gk. apply nb_bound_written.
    intros i e Hn He'. eapply (written_records recs j tl (f_data nf') o U); eauto.
  - unfold issued. rewrite <- (sp_tr _ _ HSP), rtrace_length, Ejr, app_length. lia.
  - unfold ref_states. rewrite <- (sp_tr _ _ HSP), Ejr. apply rtrace_nth.
  - rewrite Hrs. apply (PL.R0_rs _ _ HR0).
  - rewrite Hlog. apply (PL.R0_log _ _ HR0).
Qed.

(* A store that was dropped after a run without I/O failures and whose worker has finished
   (C14_drain_terminates: it always does; C14_quiescent: nothing changes the directory
   afterwards): its directory opens again (with truncation of incomplete records enabled)
   and the new instance shows exactly the k-th state of the reference log, where k is at
   least the number of records journalled before the LAST flush call, acknowledged or not,
   with or without callback (flushed_recs z), and at most the number journalled so far
   (issued z). *)
Theorem C14_reopen_after_drop : forall cfg cfg' z,
  zreach_ff cfg z -> hist_wf z -> PL.hist_legal z ->
  z_dropped z = true -> worker_idle2 z -> c_truncate cfg' = true ->
  exists y' k sp, open_dir cfg' (z_disk z) = OpenOk y' /\
    (flushed_recs z <= k)%nat /\ (k <= issued z)%nat /\
    nth_error (ref_states (PL.hist z)) k = Some sp /\
    m_rs (k_sm (y_core y')) = spec_state sp /\
    map f_log (m_log (k_sm (y_core y'))) = map g_ent (sp_entries sp).
Proof.
  intros cfg cfg' z Hff Hw Hl _ Hi Ht. apply (reopen_gen cfg cfg' z Hff Hw Hl Hi). now left.
Qed.

(* The same WITHOUT truncation (any cfg'), when the last call before the drop was a flush
   (nothing journalled after it: the caller's buffer is empty): the drained directory holds
   whole records only, so nothing has to be cut. *)
Theorem C14_reopen_after_drop_no_truncate : forall cfg cfg' z,
  zreach_ff cfg z -> hist_wf z -> PL.hist_legal z ->
  z_dropped z = true -> worker_idle2 z -> k_pending (z_core z) = [] ->
  exists y' k sp, open_dir cfg' (z_disk z) = OpenOk y' /\
    (flushed_recs z <= k)%nat /\ (k <= issued z)%nat /\
    nth_error (ref_states (PL.hist z)) k = Some sp /\
    m_rs (k_sm (y_core y')) = spec_state sp /\
    map f_log (m_log (k_sm (y_core y'))) = map g_ent (sp_entries sp).
Proof.
  intros cfg cfg' z Hff Hw Hl _ Hi Hp. apply (reopen_gen cfg cfg' z Hff Hw Hl Hi). now right.
Qed.

Print Assumptions C14_reopen_after_drop.
Print Assumptions C14_reopen_after_drop_no_truncate.

Print Assumptions acked_le_flushed_recs.

(* the weaker lower bound of C03_prefix, as a corollary *)
Corollary C14_reopen_after_drop_acked : forall cfg cfg' z,
  zreach_ff cfg z -> hist_wf z -> PL.hist_legal z ->
  z_dropped z = true -> worker_idle2 z -> c_truncate cfg' = true ->
  exists y' k sp, open_dir cfg' (z_disk z) = OpenOk y' /\
    (acked z <= k)%nat /\ (k <= issued z)%nat /\
    nth_error (ref_states (PL.hist z)) k = Some sp /\
    m_rs (k_sm (y_core y')) = spec_state sp /\
    map f_log (m_log (k_sm (y_core y'))) = map g_ent (sp_entries sp).
Proof.
  intros cfg cfg' z Hff Hw Hl Hd Hi Ht.
  destruct (C14_reopen_after_drop cfg cfg' z Hff Hw Hl Hd Hi Ht) as (y' & k & sp & Ho & Hk & H).
  exists y', k, sp. split; [exact Ho|]. split; [|exact H].
  eapply Nat.le_trans; [apply (acked_le_flushed_recs cfg z (ff_reach _ _ Hff))|exact Hk].
Qed.

Print Assumptions C14_reopen_after_drop_acked.

(* ------------------------------------------------------------------ the theorem is not vacuous *)
(* three appends fill chunk 0 (four records with its head snapshot): rotation to chunk
   114 (create, head, tail of chunk 0, AppendFile); a vote; a flush with callback; a
   commit that is journalled but never flushed; the caller drops the store while the
   rotation and the flush are still queued; the worker drains the queue (two batches),
   acknowledges the flush and stops *)
Definition dr_cfg : config := mkConfig 10 1000 4 1000 true.
Definition dr_events : list zev :=
  let W := ZWork true in
  [ZCall (OW (OAppend [((1, 0), [])])); ZCall (OW (OAppend [((1, 1), [])]));
   ZCall (OW (OAppend [((1, 2), [])])); ZEff; ZEff; ZEff; ZEff;
   ZCall (OW (OVote (2, 2))); ZCall (OFlush true); ZEff;
   ZCall (OW (OCommit (1, 1))); ZDrop;
   ZRecv 0 true; W; W; W; W; W; W; W; W; W; W;
   ZRecv 0 false; W; W; W; W; W; W; W; W; W; W; W].

Definition dr_z : sys2 :=
  match zrun (AF.zstart dr_cfg) dr_events with Some (z, _) => z | None => AF.zstart dr_cfg end.

Lemma dr_reach : zreach_ff dr_cfg dr_z.
Proof.
  unfold dr_z. destruct (zrun (AF.zstart dr_cfg) dr_events) as [[z vis]|] eqn:E.
  - exists (AF.zstart dr_cfg), dr_events, vis. split; [apply AF.zinit_eq|]. split; [reflexivity|exact E].
  - exfalso. vm_compute in E. discriminate.
Qed.

Lemma dr_hist : PL.hist dr_z =
  [OAppend [((1, 0), [])]; OAppend [((1, 1), [])]; OAppend [((1, 2), [])]; OVote (2, 2); OCommit (1, 1)].
Proof. vm_compute. reflexivity. Qed.

(* a fault-free, dropped, drained state with two chunk files, one acknowledged flush
   behind four journalled records and a fifth record that was never flushed (its 28
   bytes are still in the caller's buffer): all hypotheses of C14_reopen_after_drop hold *)
Example C14_reopen_nonvacuous :
  zreach_ff dr_cfg dr_z /\ hist_wf dr_z /\ PL.hist_legal dr_z /\
  z_dropped dr_z = true /\ worker_idle2 dr_z /\ c_truncate dr_cfg = true /\
  flushed_recs dr_z = 4%nat /\ acked dr_z = 4%nat /\ issued dr_z = 5%nat /\
  z_acks dr_z = [(0, true)] /\
  map (fun f => (f_id f, length (f_data f))) (z_disk dr_z) = [(0, 114%nat); (114, 62%nat)] /\
  length (k_pending (z_core dr_z)) = 28%nat.
Proof.
  split; [apply dr_reach|].
  split. { unfold hist_wf. change (map fst (g_writes (z_ghost dr_z))) with (PL.hist dr_z).
           rewrite dr_hist. repeat constructor; vm_compute; reflexivity. }
  split. { unfold PL.hist_legal. rewrite dr_hist. vm_compute. reflexivity. }
  split; [vm_compute; reflexivity|].
  split. { unfold worker_idle2. repeat split; vm_compute; reflexivity. }
  split; [reflexivity|].
  split; [vm_compute; reflexivity|]. split; [vm_compute; reflexivity|].
  split; [vm_compute; reflexivity|]. split; [vm_compute; reflexivity|].
  split; vm_compute; reflexivity.
Qed.

(* the conclusion for this state: the reopened store shows the reference state after k
   records with 4 <= k <= 5 *)
Example C14_reopen_example : exists y' k sp, open_dir dr_cfg (z_disk dr_z) = OpenOk y' /\
  (4 <= k)%nat /\ (k <= 5)%nat /\ nth_error (ref_states (PL.hist dr_z)) k = Some sp /\
  m_rs (k_sm (y_core y')) = spec_state sp /\
  map f_log (m_log (k_sm (y_core y'))) = map g_ent (sp_entries sp).
Proof.
  destruct C14_reopen_nonvacuous as (H1 & H2 & H3 & H4 & H5 & H6 & H7 & _ & H9 & _).
  destruct (C14_reopen_after_drop dr_cfg dr_cfg dr_z H1 H2 H3 H4 H5 H6)
    as (y' & k & sp & Ho & Ha & Hi & Hn & Hrs & Hlg).
  exists y', k, sp. rewrite H7 in Ha. rewrite H9 in Hi. auto 10.
Qed.

Print Assumptions C14_reopen_nonvacuous.
Print Assumptions C14_reopen_example.

(* the same run without the last commit: the last call before the drop is the flush, the
   caller's buffer is empty, and the directory is reopened with truncation DISABLED: all
   hypotheses of C14_reopen_after_drop_no_truncate hold, and k = 4 *)
Definition dr_cfg_nt : config := mkConfig 10 1000 4 1000 false.
Definition dr2_events : list zev :=
  let W := ZWork true in
  [ZCall (OW (OAppend [((1, 0), [])])); ZCall (OW (OAppend [((1, 1), [])]));
   ZCall (OW (OAppend [((1, 2), [])])); ZEff; ZEff; ZEff; ZEff;
   ZCall (OW (OVote (2, 2))); ZCall (OFlush true); ZEff; ZDrop;
   ZRecv 0 true; W; W; W; W; W; W; W; W; W; W;
   ZRecv 0 false; W; W; W; W; W; W; W; W; W; W; W].

Definition dr2_z : sys2 :=
  match zrun (AF.zstart dr_cfg) dr2_events with Some (z, _) => z | None => AF.zstart dr_cfg end.

Lemma dr2_reach : zreach_ff dr_cfg dr2_z.
Proof.
  unfold dr2_z. destruct (zrun (AF.zstart dr_cfg) dr2_events) as [[z vis]|] eqn:E.
  - exists (AF.zstart dr_cfg), dr2_events, vis. split; [apply AF.zinit_eq|]. split; [reflexivity|exact E].
  - exfalso. vm_compute in E. discriminate.
Qed.

Lemma dr2_hist : PL.hist dr2_z =
  [OAppend [((1, 0), [])]; OAppend [((1, 1), [])]; OAppend [((1, 2), [])]; OVote (2, 2)].
Proof. vm_compute. reflexivity. Qed.

Example C14_reopen_no_truncate_nonvacuous :
  zreach_ff dr_cfg dr2_z /\ hist_wf dr2_z /\ PL.hist_legal dr2_z /\
  z_dropped dr2_z = true /\ worker_idle2 dr2_z /\ k_pending (z_core dr2_z) = [] /\
  c_truncate dr_cfg_nt = false /\
  flushed_recs dr2_z = 4%nat /\ issued dr2_z = 4%nat /\ z_acks dr2_z = [(0, true)] /\
  map (fun f => (f_id f, length (f_data f))) (z_disk dr2_z) = [(0, 114%nat); (114, 62%nat)].
Proof.
  split; [apply dr2_reach|].
  split. { unfold hist_wf. change (map fst (g_writes (z_ghost dr2_z))) with (PL.hist dr2_z).
           rewrite dr2_hist. repeat constructor; vm_compute; reflexivity. }
  split. { unfold PL.hist_legal. rewrite dr2_hist. vm_compute. reflexivity. }
  split; [vm_compute; reflexivity|].
  split. { unfold worker_idle2. repeat split; vm_compute; reflexivity. }
  split; [vm_compute; reflexivity|]. split; [reflexivity|].
  split; [vm_compute; reflexivity|]. split; [vm_compute; reflexivity|].
  split; vm_compute; reflexivity.
Qed.

Example C14_reopen_no_truncate_example : exists y' sp,
  open_dir dr_cfg_nt (z_disk dr2_z) = OpenOk y' /\
  nth_error (ref_states (PL.hist dr2_z)) 4 = Some sp /\
  m_rs (k_sm (y_core y')) = spec_state sp /\
  map f_log (m_log (k_sm (y_core y'))) = map g_ent (sp_entries sp).
Proof.
  destruct C14_reopen_no_truncate_nonvacuous as (H1 & H2 & H3 & H4 & H5 & H6 & _ & H7 & H8 & _).
  destruct (C14_reopen_after_drop_no_truncate dr_cfg dr_cfg_nt dr2_z H1 H2 H3 H4 H5 H6)
    as (y' & k & sp & Ho & Ha & Hi & Hn & Hrs & Hlg).
  rewrite H7 in Ha. rewrite H8 in Hi. assert (k = 4%nat) by lia. subst k.
  exists y', sp. auto.
Qed.

Print Assumptions C14_reopen_no_truncate_nonvacuous.
Print Assumptions C14_reopen_no_truncate_example.
