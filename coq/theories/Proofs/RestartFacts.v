(* C02, part 3: reopening a flushed, idle store.

   [open_older_replay]: on files made of complete well-formed records, [open_older]
   does to the state machine what [replay_files] does.
   [reopen]: from the invariant [FI] of RestartInv.v at a flushed idle state,
   [open_dir cfg'] succeeds, leaves the directory untouched, and the reopened caller
   state satisfies the simulation invariant [Inv] of Refine.v again.
   [C02_restart], [C02_restart_continue]. *)
From Coq Require Import List NArith Bool Lia Sorted.
From Coq.Strings Require Import Byte.
From RaftLog Require Import Base.Bytes Base.Crc32 Model.Types Model.Codec Model.Cache Model.Core
  Model.Recover Model.Run Spec.Spec Spec.Hist.
From RaftLog Require Import Proofs.OrderFacts Proofs.SmFacts Proofs.Refine.
From RaftLog Require Import Proofs.CodecFacts Proofs.JournalDisk Proofs.JournalChunk Proofs.JournalFacts.
From RaftLog Require Import Proofs.ScanFacts Proofs.RecoverFacts.
From RaftLog Require Import Proofs.RestartSim Proofs.RestartInv.
Import ListNotations.
Local Open Scope N_scope.
Local Arguments N.add : simpl never.
Local Arguments N.sub : simpl never.
Local Arguments N.mul : simpl never.
Local Arguments N.eqb : simpl never.
Local Arguments N.ltb : simpl never.
Local Arguments N.leb : simpl never.
Local Arguments N.compare : simpl never.
Local Arguments N.of_nat : simpl never.
Local Arguments enc_record : simpl never.

Lemma encs_eq rs : JournalChunk.encs rs = ScanFacts.encs rs.
Proof. reflexivity. Qed.

(* ------------------------------------------------------------------ files and ghost files *)
Definition file_match (f : file) (g : jfile) : Prop :=
  f_id f = fst g /\ f_data f = ScanFacts.encs (snd g).

Definition glen (g : jfile) : N := N.of_nat (length (ScanFacts.encs (snd g))).

Fixpoint Abut (G : list jfile) : Prop :=
  match G with
  | [] => True
  | g :: G' => match G' with [] => True | g' :: _ => fst g' = fst g + glen g end /\ Abut G'
  end.

Definition jfile_ok (g : jfile) : Prop := Forall wf_record (snd g) /\ snd g <> [].

(* the closed chunks that the loop accumulates *)
Fixpoint closed_files (t : sm) (G : list jfile) : list closed :=
  match G with
  | [] => []
  | g :: G' =>
    let t1 := fst (chunk_replay t g) in
    mkClosed (chunk_of (fst g) (snd g)) (m_rs t1) false :: closed_files t1 G'
  end.

Lemma closed_files_ids : forall G t,
  map (fun c => ck_id (cl_chunk c)) (closed_files t G) = map fst G.
Proof.
  induction G as [|g G IH]; intros t; [reflexivity|].
  cbn [closed_files map cl_chunk chunk_of ck_id]. rewrite IH. reflexivity.
Qed.

Lemma hd_snoc {A} (d : A) l : hd d (l ++ [d]) = hd d l.
Proof. destruct l; reflexivity. Qed.

Lemma sm_pre_chunk_pre a : oa_last a = r_last (m_rs (oa_sm a)) -> sm_pre a = chunk_pre (oa_sm a).
Proof. intros H. unfold sm_pre, chunk_pre. rewrite H. reflexivity. Qed.

(* one file *)
Lemma open_step_replay cfg f g a t1 :
  file_match f g -> jfile_ok g ->
  oa_last a = r_last (m_rs (oa_sm a)) ->
  gap_at a (fst g) = false ->
  Forall (fun c => ck_id (cl_chunk c) < fst g) (oa_closed a) ->
  chunk_replay (oa_sm a) g = (t1, None) ->
  open_step cfg f a =
  inl (mkOA t1 (oa_closed a ++ [mkClosed (chunk_of (fst g) (snd g)) (m_rs t1) false])
            (Some (fst g + glen g)) (r_last (m_rs t1)) (oa_disk a)).
Proof.
  intros [Hid Hdata] [Hwf Hne] Hlast Hgap Hcl Hrep.
  unfold open_step. rewrite Hid, Hgap, Hdata, (chunk_open_complete cfg (fst g) (snd g) Hwf).
  cbv zeta. cbn [oc_records oc_chunk oc_truncated]. unfold trunc_disk. cbn [oc_truncated].
  rewrite (sm_pre_chunk_pre a Hlast). unfold chunk_of at 1. cbn [ck_ends].
  unfold chunk_replay in Hrep. rewrite Hrep.
  rewrite RecoverFacts.closed_insert_last by (cbn [cl_chunk chunk_of ck_id]; exact Hcl).
  rewrite ck_end_chunk_of. reflexivity.
Qed.

Lemma open_older_replay cfg : forall fs G gl a t,
  Forall2 file_match fs G -> Forall jfile_ok G -> Abut (G ++ [gl]) ->
  StronglySorted N.lt (map fst (G ++ [gl])) ->
  oa_last a = r_last (m_rs (oa_sm a)) ->
  gap_at a (fst (hd gl G)) = false ->
  Forall (fun c => ck_id (cl_chunk c) < fst (hd gl G)) (oa_closed a) ->
  replay_files (oa_sm a) G = (t, None) ->
  exists a', open_older cfg fs a = inl a' /\ oa_sm a' = t /\
    oa_last a' = r_last (m_rs t) /\ oa_disk a' = oa_disk a /\
    oa_closed a' = oa_closed a ++ closed_files (oa_sm a) G /\
    gap_at a' (fst gl) = false.
Proof.
  intros fs G gl a t HF. revert a t.
  induction HF as [|f g fs G Hm HF IH]; intros a t Hok Hab Hs Hlast Hgap Hcl Hrep.
  - cbn [replay_files] in Hrep. inversion Hrep; subst t. exists a.
    cbn [open_older closed_files hd] in *. rewrite app_nil_r.
    split; [reflexivity|]. split; [reflexivity|]. split; [exact Hlast|]. split; [reflexivity|].
    split; [reflexivity|exact Hgap].
  - inversion Hok as [|? ? Hg Hok']; subst. cbn [hd] in Hgap, Hcl.
    cbn [replay_files] in Hrep.
    destruct (chunk_replay (oa_sm a) g) as [t1 [e|]] eqn:Ec; [discriminate Hrep|].
    cbn [open_older].
    rewrite (open_step_replay cfg f g a t1 Hm Hg Hlast Hgap Hcl Ec).
    cbn [app map] in Hs. apply ss_inv in Hs. destruct Hs as [Hs1 Hs2]. rewrite Forall_forall in Hs2.
    cbn [app Abut] in Hab. destruct Hab as [Hab1 Hab2].
    assert (Hhd : hd gl G = hd gl (G ++ [gl])) by (symmetry; apply hd_snoc).
    assert (Hin : In (fst (hd gl G)) (map fst (G ++ [gl]))).
    { rewrite Hhd. destruct (G ++ [gl]) as [|x l] eqn:E; [destruct G; discriminate E|]. left. reflexivity. }
    destruct (IH (mkOA t1 (oa_closed a ++ [mkClosed (chunk_of (fst g) (snd g)) (m_rs t1) false])
                       (Some (fst g + glen g)) (r_last (m_rs t1)) (oa_disk a)) t Hok' Hab2 Hs1)
      as (a' & H1 & H2 & H3 & H4 & H5 & H6).
    + reflexivity.
    + unfold gap_at. cbn [oa_prev_end].
      destruct (G ++ [gl]) as [|x l] eqn:E; [destruct G; discriminate E|].
      rewrite Hhd. cbn [hd]. rewrite Hab1, N.eqb_refl. reflexivity.
    + cbn [oa_closed]. apply Forall_app. split.
      * eapply Forall_impl; [|exact Hcl]. cbv beta. intros c Hc.
        specialize (Hs2 _ Hin). lia.
      * constructor; [|constructor]. cbn [cl_chunk chunk_of ck_id]. apply Hs2. exact Hin.
    + exact Hrep.
    + exists a'. split; [exact H1|]. split; [exact H2|]. split; [exact H3|]. split; [exact H4|].
      split; [|exact H6].
      rewrite H5. cbn [oa_closed oa_sm closed_files]. rewrite Ec. cbn [fst]. rewrite <- app_assoc. reflexivity.
Qed.

(* ------------------------------------------------------------------ the disk of a flushed idle state *)
Lemma files_match_of d : forall G,
  ids d = map fst G ->
  (forall f, In f d -> forall g, In g G -> f_id f = fst g -> f_data f = ScanFacts.encs (snd g)) ->
  Forall2 file_match d G.
Proof.
  induction d as [|f d IH]; intros [|g G] Hi Hd; cbn [ids map] in Hi; try discriminate Hi.
  - constructor.
  - inversion Hi as [[Hi1 Hi2]]. constructor.
    + split; [exact Hi1|]. apply Hd; [left; reflexivity|left; reflexivity|exact Hi1].
    + apply IH; [exact Hi2|]. intros f' Hf' g' Hg' E. apply Hd; [right; exact Hf'|right; exact Hg'|exact E].
Qed.

Lemma Abut_of fb : forall G, abut fb (map fst G) ->
  (forall g, In g G -> fb (fst g) = JournalChunk.encs (snd g)) -> Abut G.
Proof.
  induction G as [|g G IH]; intros Ha Hf; [exact I|].
  cbn [map abut] in Ha. destruct Ha as [Ha1 Ha2]. cbn [Abut]. split.
  - destruct G as [|g' G']; [exact I|]. cbn [map] in Ha1. rewrite Ha1.
    rewrite (Hf g (or_introl eq_refl)). reflexivity.
  - apply IH; [exact Ha2|]. intros g' Hg'. apply Hf. right. exact Hg'.
Qed.

Lemma ss_head_le : forall a l x, StronglySorted N.lt (a :: l) -> In x (a :: l) -> a <= x.
Proof.
  intros a l x S [E|I]; [lia|]. apply ss_inv in S. destruct S as [_ S].
  rewrite Forall_forall in S. specialize (S x I). lia.
Qed.

Section Reopen.
Variable cfg' : config.

(* everything that the reopening of a flushed idle state yields *)
Record reopened (y : sys) (sp : spec) (n b : N) (y' : sys) : Prop := mkReopened {
  ro_disk : y_disk y' = y_disk y;
  ro_queue : y_queue y' = [];
  ro_pending : k_pending (y_core y') = [];
  ro_removed : k_removed (y_core y') = [];
  ro_cfg : k_cfg (y_core y') = cfg';
  ro_inv : Inv (y_core y') sp n b;
  ro_rs : m_rs (k_sm (y_core y')) = m_rs (k_sm (y_core y));
  ro_log : m_log (k_sm (y_core y')) = m_log (k_sm (y_core y));
  ro_shape : exists G0 o rs pl,
      GJ y (G0 ++ [(o, rs)]) /\
      Chain (m_rs (k_sm (y_core y))) (G0 ++ [(o, rs)]) /\
      GB (m_log (k_sm (y_core y))) (G0 ++ [(o, rs)]) /\
      HK (G0 ++ [(o, rs)]) /\
      o = ck_id (k_open (y_core y)) /\
      k_open (y_core y') = chunk_of o rs /\
      k_closed (y_core y') = closed_files (sm_new cfg') G0 /\
      y_files y' = [mkWF o pl] /\
      replay_files (sm_new cfg') (G0 ++ [(o, rs)]) = (k_sm (y_core y'), None) }.

Lemma reopen : forall y sp n b,
  FI cfg' y sp n b -> y_queue y = [] -> k_pending (y_core y) = [] ->
  exists y', open_dir cfg' (y_disk y) = OpenOk y' /\ reopened y sp n b y'.
Proof.
  intros y sp n b F Hq Hpend.
  pose proof (fi_jw _ _ _ _ _ F) as JW. pose proof (jw_inv _ JW) as J.
  pose proof (C11_idle_disk_is_journal y JW Hq Hpend) as El.
  set (k := y_core y) in *. set (o := ck_id (k_open k)) in *. set (d := y_disk y) in *.
  destruct (fi_g _ _ _ _ _ F) as (G & GJy & GF & GC & GBd & GH). fold k in GF, GC, GBd.
  pose proof GJy as [Gids Gfiles]. rewrite El in Gids, Gfiles.
  pose proof (jw_sorted _ JW) as Sd. fold d in Sd.
  (* the newest file *)
  pose proof Gids as Gids'. rewrite <- El, (ji_idl_split _ _ _ J) in Gids'. fold k o in Gids'.
  apply map_snoc_inv in Gids'. destruct Gids' as (G0 & [o' rs] & EG & EG0 & Eo). cbn [fst] in Eo. subst o' G.
  pose proof Gfiles as Gfiles'. apply Forall_app in Gfiles'. destruct Gfiles' as [_ Gfl].
  inversion Gfl as [|? ? (Fo1 & Fo2 & Fo3) _]; subst. cbn [fst snd] in Fo1, Fo2, Fo3.
  assert (Hrsne : rs <> []) by (destruct Fo3 as (st & tl & E); rewrite E; discriminate).
  (* the files *)
  assert (Hsplit : exists older fl, d = older ++ [fl] /\ ids older = map fst G0 /\ f_id fl = o).
  { unfold ids in Gids. rewrite map_app in Gids. cbn [map fst] in Gids. symmetry in Gids.
    apply map_snoc_inv in Gids. destruct Gids as (older & fl & E1 & E2 & E3).
    exists older, fl. split; [exact E1|]. split; [exact E2|exact E3]. }
  destruct Hsplit as (older & fl & Ed & Eolder & Efl).
  assert (Hdata : forall f, In f d -> forall g, In g (G0 ++ [(o, rs)]) -> f_id f = fst g ->
                  f_data f = ScanFacts.encs (snd g)).
  { intros f Hf g Hg E. rewrite Forall_forall in Gfiles. destruct (Gfiles g Hg) as (H1 & _).
    rewrite <- E in H1. unfold file_bytes in H1. rewrite (In_disk_get d f Sd Hf) in H1. exact H1. }
  assert (HF2 : Forall2 file_match d (G0 ++ [(o, rs)])).
  { apply files_match_of; [symmetry; exact Gids|exact Hdata]. }
  rewrite Ed in HF2. apply Forall2_app_inv_l in HF2.
  destruct HF2 as (G0' & Gl' & HF0 & HFl & EGG).
  assert (EG0' : G0' = G0 /\ Gl' = [(o, rs)]).
  { inversion HFl as [|? g ? ? Hm HFn]; subst. inversion HFn; subst.
    apply app_inj_tail in EGG. destruct EGG as [E1 E2]. subst. auto. }
  destruct EG0' as [E1 E2]. subst G0' Gl'. clear EGG.
  inversion HFl as [|? ? ? ? [_ Hfld] _]; subst. cbn [snd] in Hfld.
  (* the ghost file list is well formed *)
  assert (Hjok : Forall jfile_ok G0).
  { apply Forall_app in Gfiles. destruct Gfiles as [Gf0 _]. eapply Forall_impl; [|exact Gf0].
    intros g (_ & H2 & st & tl & E). split; [exact H2|rewrite E; discriminate]. }
  assert (Hab : Abut (G0 ++ [(o, rs)])).
  { apply (Abut_of (file_bytes d)).
    - pose proof (ji_abut _ _ _ J) as A. rewrite El in A. rewrite <- Gids in A. exact A.
    - intros g Hg. rewrite Forall_forall in Gfiles. apply (Gfiles g Hg). }
  assert (Hss : StronglySorted N.lt (map fst (G0 ++ [(o, rs)]))).
  { unfold dsorted in Sd. rewrite <- Gids in Sd. exact Sd. }
  (* the replay of the whole directory *)
  assert (Hhead : exists g1 Gr, G0 ++ [(o, rs)] = g1 :: Gr) by (destruct G0; cbn [app]; eauto).
  destruct Hhead as (g1 & Gr & EGr).
  pose proof GF as GF1. rewrite EGr in GF1. apply Fam_head in GF1.
  destruct GF1 as (t & Hrep0' & HSim & HBt).
  assert (Hrep : replay_files (sm_new cfg') (G0 ++ [(o, rs)]) = (t, None)) by (rewrite EGr; exact Hrep0').
  destruct (replay_files_snoc_inv _ _ _ _ Hrep) as (t1 & Hrep0 & Hrepl).
  destruct (open_older_replay cfg' older G0 (o, rs) (acc0 cfg' d) t1 HF0 Hjok Hab Hss)
    as (a & Ha1 & Ha2 & Ha3 & Ha4 & Ha5 & Ha6).
  { reflexivity. }
  { reflexivity. }
  { constructor. }
  { exact Hrep0. }
  cbn [acc0 oa_disk oa_closed oa_sm app] in Ha4, Ha5.
  assert (Hok : acc_ok a o).
  { constructor.
    - exact Ha6.
    - rewrite Ha5. rewrite Forall_forall. intros c Hc.
      assert (Hi : In (ck_id (cl_chunk c)) (map fst G0)).
      { rewrite <- closed_files_ids with (t := sm_new cfg'). apply (in_map (fun c => ck_id (cl_chunk c))). exact Hc. }
      apply (ji_pre_lt _ _ _ J). fold k. rewrite <- EG0. exact Hi.
    - rewrite Ha4. rewrite Forall_forall. intros f Hf.
      assert (Hi : In (f_id f) (ids (logical y))) by (rewrite El; apply in_map; exact Hf).
      apply (ji_ids_le _ _ _ J). exact Hi. }
  assert (Hrepl' : replay (sm_pre a) o o rs (ends_from o (map rec_size rs)) = (t, None)).
  { rewrite (sm_pre_chunk_pre a) by (rewrite Ha3, Ha2; reflexivity). rewrite Ha2. exact Hrepl. }
  pose proof (newest_complete cfg' a o (f_synced fl) rs Hok Fo2 t Hrsne Hrepl') as Hnew.
  assert (Efl' : fl = mkFile o (ScanFacts.encs rs) (f_synced fl)).
  { destruct fl as [i dt sy]. cbn [f_id f_data f_synced] in *. subst i dt. reflexivity. }
  eexists. split.
  { fold d. rewrite Ed. rewrite open_dir_eq, open_loop_app.
    change (mkOA (sm_new cfg') [] None None (older ++ [fl])) with (acc0 cfg' (older ++ [fl])) in *.
    rewrite <- Ed, Ha1. rewrite Efl'. exact Hnew. }
  (* the invariant of the reopened state *)
  assert (Hlive : forall e, In e (m_log (k_sm k)) -> fst g1 <= ld_chunk (snd e)).
  { intros e He. pose proof (fi_live _ _ _ _ _ F e He) as Hi. fold k o in Hi.
    assert (Hi' : In (ld_chunk (snd e)) (ids (logical y))).
    { rewrite (ji_ids _ _ _ J). unfold chunk_ids. fold k o. apply in_or_app. right. exact Hi. }
    rewrite El, <- Gids, EGr in Hi'.
    rewrite EGr in Hss. cbn [map] in Hss, Hi'. apply (ss_head_le _ _ _ Hss Hi'). }
  pose proof (Sim_R _ _ _ _ (fi_R _ _ _ _ _ F) HSim Hlive) as HRt.
  constructor; cbn [y_disk y_queue y_core y_files k_pending k_removed k_cfg k_sm k_open k_closed].
  - exact Ha4.
  - reflexivity.
  - reflexivity.
  - reflexivity.
  - reflexivity.
  - split; [exact HRt|]. split; [exact HBt|]. cbn [k_open]. apply chunk_of_ends_nonempty. exact Hrsne.
  - apply (S_rs _ _ _ _ HSim).
  - rewrite (S_log _ _ _ _ HSim). apply filter_all_true. intros e He. unfold in_chunks.
    apply N.leb_le. apply Hlive. exact He.
  - exists G0, o, rs, (prev_last_of (oa_closed a)). split; [exact GJy|].
    split; [exact GC|]. split; [exact GBd|]. split; [exact GH|]. split; [reflexivity|]. split; [reflexivity|].
    split; [exact Ha5|]. split; [reflexivity|exact Hrep].
Qed.

End Reopen.

(* ------------------------------------------------------------------ the theorems *)
Lemma big_cache_app_l cfg a b : big_cache cfg (a ++ b) -> big_cache cfg a.
Proof.
  intros [H1 H2]. unfold big_cache in *. rewrite !appended_bytes_of in *. unfold Hist.appended in *.
  rewrite flat_map_app in *. rewrite app_length, Nat2N.inj_add in H1. rewrite bytes_of_app in H2.
  split; lia.
Qed.

Lemma FI_of_run : forall cfg cfg' ops ops2 res y,
  ops_plain spec0 ops = true -> Forall op_wf ops ->
  big_cache cfg (ops ++ ops2) -> big_cache cfg' (ops ++ ops2) ->
  run_case cfg ops = (res, Some y) ->
  FI cfg' y (spec_ops spec0 ops) (N.of_nat (length (Hist.appended ops2))) (appended_bytes ops2).
Proof.
  intros cfg cfg' ops ops2 res y Hp Hwf [B1 B2] [B1' B2'] Hrun.
  unfold run_case in Hrun. rewrite JournalFacts.open_dir_nil in Hrun.
  assert (Happ : Hist.appended (ops ++ ops2) = Hist.appended ops ++ Hist.appended ops2).
  { unfold Hist.appended. apply flat_map_app. }
  rewrite !appended_bytes_of, Happ in *. rewrite bytes_of_app in *.
  rewrite app_length, Nat2N.inj_add in *.
  set (n2 := N.of_nat (length (Hist.appended ops2))) in *.
  set (b2 := bytes_of (Hist.appended ops2)) in *.
  assert (F0 : FI cfg' (sys0 cfg) spec0 (n2 + N.of_nat (length (Hist.appended ops))) (b2 + appended_bytes ops)).
  { rewrite appended_bytes_of. apply FI_init; lia. }
  destruct (fi_run_ops cfg' ops (sys0 cfg) spec0 res (Some y) n2 b2 F0 Hp Hwf Hrun) as (y1 & E & F).
  inversion E; subst y1. exact F.
Qed.

(* one clean restart: every write flushed and acknowledged, worker idle, reopened
   under any configuration whose cache holds the history *)
Theorem C02_restart : forall cfg cfg' ops res y,
  ops_plain spec0 ops = true -> Forall op_wf ops ->
  big_cache cfg ops -> big_cache cfg' ops ->
  run_case cfg ops = (res, Some y) ->
  y_queue y = [] -> k_pending (y_core y) = [] ->
  exists y', open_dir cfg' (y_disk y) = OpenOk y' /\
             y_disk y' = y_disk y /\
             observes y' (spec_ops spec0 ops) /\
             exists n b, Inv (y_core y') (spec_ops spec0 ops) n b.
Proof.
  intros cfg cfg' ops res y Hp Hwf Hb Hb' Hrun Hq Hpend.
  pose proof (FI_of_run cfg cfg' ops [] res y Hp Hwf) as F. rewrite app_nil_r in F.
  specialize (F Hb Hb' Hrun).
  destruct (reopen cfg' y _ _ _ F Hq Hpend) as (y' & Ho & RO).
  exists y'. split; [exact Ho|]. split; [apply (ro_disk _ _ _ _ _ _ RO)|]. split.
  - eapply Inv_observes. apply (ro_inv _ _ _ _ _ _ RO).
  - eexists. eexists. apply (ro_inv _ _ _ _ _ _ RO).
Qed.

(* ... and it continues to accept writes with the same semantics: any further plain
   history [ops2] run on the reopened store is observed as the reference log after
   [ops ++ ops2] *)
Theorem C02_restart_continue : forall cfg cfg' ops ops2 res y,
  ops_plain spec0 (ops ++ ops2) = true -> Forall op_wf ops ->
  big_cache cfg (ops ++ ops2) -> big_cache cfg' (ops ++ ops2) ->
  run_case cfg ops = (res, Some y) ->
  y_queue y = [] -> k_pending (y_core y) = [] ->
  exists y', open_dir cfg' (y_disk y) = OpenOk y' /\
    forall res2 fin, run_ops y' ops2 = (res2, fin) ->
      exists y2, fin = Some y2 /\ observes y2 (spec_ops spec0 (ops ++ ops2)).
Proof.
  intros cfg cfg' ops ops2 res y Hp Hwf Hb Hb' Hrun Hq Hpend.
  destruct (ops_plain_app _ _ _ Hp) as [Hp1 Hp2].
  pose proof (FI_of_run cfg cfg' ops ops2 res y Hp1 Hwf Hb Hb' Hrun) as F.
  destruct (reopen cfg' y _ _ _ F Hq Hpend) as (y' & Ho & RO).
  exists y'. split; [exact Ho|]. intros res2 fin Hrun2.
  pose proof (ro_inv _ _ _ _ _ _ RO) as HI.
  assert (HI' : Inv (y_core y') (spec_ops spec0 ops)
                    (0 + N.of_nat (length (Hist.appended ops2))) (0 + appended_bytes ops2)).
  { eapply Inv_mono; [exact HI|lia|lia]. }
  destruct (run_ops_sim ops2 y' _ res2 fin 0 0 HI' Hp2 Hrun2) as (y2 & E & HI2).
  exists y2. split; [exact E|]. unfold spec_ops. rewrite fold_left_app.
  eapply Inv_observes. exact HI2.
Qed.

(* the hypotheses of C02_restart are satisfiable on a history that rotates chunks,
   purges (with removal of a chunk file) and truncates, reopened under other limits *)
Example C02_restart_inhabited :
  let cfg := mkConfig 10 100 2 64 true in
  let cfg' := mkConfig 5 50 3 1000 false in
  let ops := [OW (OVote (1, 1)); OW (OAppend [((1, 0), []); ((1, 1), []); ((1, 2), [])]);
              OFlush true; OIdle; OW (OPurge (1, 0)); OW (OTruncate 2); OW (OAppend [((2, 2), [])]);
              OFlush true; OIdle] in
  ops_plain spec0 ops = true /\ big_cache cfg ops /\ big_cache cfg' ops /\
  exists res y, run_case cfg ops = (res, Some y) /\ y_queue y = [] /\ k_pending (y_core y) = [] /\
    map f_id (y_disk y) = [112; 194; 276; 354; 449; 547]%N.
Proof.
  cbv zeta. split; [vm_compute; reflexivity|].
  split; [split; vm_compute; intros H; discriminate H|].
  split; [split; vm_compute; intros H; discriminate H|].
  eexists. eexists. split; [vm_compute; reflexivity|]. split; [reflexivity|]. split; reflexivity.
Qed.

Print Assumptions C02_restart.
Print Assumptions C02_restart_continue.
