(* C02, part 2 (system level): the invariant [FI] carried along a run.

   For a state [y] with [journal_wf y], the files of the logical directory are described
   by a ghost list [G] of (chunk id, records).  [FI] says that every suffix of [G]
   replays under the next configuration [cfg'] to a state related to the live state
   machine by [Sim] (family [Fam]), that head snapshots chain ([Chain]), that every
   index-map entry is stored in a live chunk ([live_ok]) and that entries stored in a
   closed chunk are bounded by its closing last id ([closed_bound]). *)
From Coq Require Import List NArith Bool Lia Sorted.
From Coq.Strings Require Import Byte.
From RaftLog Require Import Base.Bytes Base.Crc32 Model.Types Model.Codec Model.Cache Model.Core
  Model.Recover Model.Run Spec.Spec Spec.Hist.
From RaftLog Require Import Proofs.OrderFacts Proofs.SmFacts Proofs.Refine.
From RaftLog Require Import Proofs.CodecFacts Proofs.JournalDisk Proofs.JournalChunk Proofs.JournalFacts.
From RaftLog Require Import Proofs.RestartSim.
Import ListNotations.
Local Open Scope N_scope.
Local Arguments N.add : simpl never.
Local Arguments N.sub : simpl never.
Local Arguments N.mul : simpl never.
Local Arguments N.eqb : simpl never.
Local Arguments N.ltb : simpl never.
Local Arguments N.leb : simpl never.
Local Arguments N.compare : simpl never.
Local Arguments N.of_nat : simpl never.
Local Arguments enc_record : simpl never.

(* ------------------------------------------------------------------ small facts *)
Lemma rsum_blen rs : rsum rs = blen (encs rs).
Proof.
  induction rs as [|r rs IH]; [reflexivity|].
  rewrite rsum_cons, IH, encs_cons, blen_app. reflexivity.
Qed.

Lemma with_core_self y : with_core y (y_core y) = y.
Proof. destruct y; reflexivity. Qed.

Lemma map_snoc_inv {A B} (f : A -> B) l l1 a : map f l = l1 ++ [a] ->
  exists l0 x, l = l0 ++ [x] /\ map f l0 = l1 /\ f x = a.
Proof.
  intros H. apply map_eq_app in H. destruct H as (l0 & l2 & E & H1 & H2).
  destruct l2 as [|x [|x' l2']]; cbn [map] in H2; try discriminate H2.
  inversion H2. exists l0, x. auto.
Qed.

Lemma pop_obsolete_pre upto cl : forall rm rest, pop_obsolete upto cl = (rm, rest) ->
  exists pre, cl = pre ++ rest /\ rm = map (fun c => ck_id (cl_chunk c)) pre /\
    Forall (fun c => opair_cmp (r_last (cl_state c)) (Some upto) <> Gt) pre.
Proof.
  induction cl as [|c cl IH]; intros rm rest H; cbn [pop_obsolete] in H.
  - inversion H; subst. exists []. auto.
  - destruct (opair_ltb (Some upto) (r_last (cl_state c))) eqn:E.
    + inversion H; subst. exists []. auto.
    + destruct (pop_obsolete upto cl) as [rm' rest'] eqn:E'. inversion H; subst.
      destruct (IH _ _ eq_refl) as (pre & E1 & E2 & E3). exists (c :: pre). subst.
      split; [reflexivity|]. split; [reflexivity|]. constructor; [|exact E3].
      apply opair_ltb_ge. exact E.
Qed.

(* ------------------------------------------------------------------ the ghost journal *)
Definition file_ok (fb : N -> bytes) (g : jfile) : Prop :=
  fb (fst g) = encs (snd g) /\ Forall wf_record (snd g) /\ exists st tl, snd g = RState st :: tl.

Record GJ (y : sys) (G : list jfile) : Prop := mkGJ {
  gj_ids : map fst G = ids (logical y);
  gj_files : Forall (file_ok (file_bytes (logical y))) G }.

Definition live_ok (k : core) : Prop :=
  forall e, In e (m_log (k_sm k)) -> In (ld_chunk (snd e)) (closed_ids k ++ [ck_id (k_open k)]).

Definition closed_bound (k : core) : Prop :=
  forall c e, In c (k_closed k) -> In e (m_log (k_sm k)) ->
    ld_chunk (snd e) = ck_id (cl_chunk c) ->
    opair_cmp (Some (ld_id (snd e))) (r_last (cl_state c)) <> Gt.

Lemma file_ok_ext fb fb' g : fb' (fst g) = fb (fst g) -> file_ok fb g -> file_ok fb' g.
Proof. intros E (H1 & H2 & H3). unfold file_ok. rewrite E. auto. Qed.

Section Inv.
Variable cfg' : config.

Record FI (y : sys) (sp : spec) (n b : N) : Prop := mkFI {
  fi_jw : journal_wf y;
  fi_R : R (k_sm (y_core y)) sp;
  fi_B : Budget (m_cache (k_sm (y_core y))) n b;
  fi_room : n <= c_max_items cfg' /\ b <= c_capacity cfg';
  fi_g : exists G, GJ y G /\ Fam cfg' sp (k_sm (y_core y)) n b G /\
                   Chain (m_rs (k_sm (y_core y))) G /\ GB (m_log (k_sm (y_core y))) G /\ HK G;
  fi_live : live_ok (y_core y);
  fi_cb : closed_bound (y_core y) }.

Lemma jw_open_nonempty y : journal_wf y -> ck_ends (k_open (y_core y)) <> [].
Proof.
  intros JW. destruct (ji_open_ok _ _ _ (jw_inv _ JW)) as (rs & _ & _ & E & st & tl & Ers).
  rewrite E, Ers. discriminate.
Qed.

Lemma FI_Inv y sp n b : FI y sp n b -> Inv (y_core y) sp n b.
Proof.
  intros F. split; [apply (fi_R _ _ _ _ F)|]. split; [apply (fi_B _ _ _ _ F)|].
  apply jw_open_nonempty, (fi_jw _ _ _ _ F).
Qed.

Lemma FI_mono y sp n b n' b' : FI y sp n b -> n' <= n -> b' <= b -> FI y sp n' b'.
Proof.
  intros [A B C D E F G] Hn Hb. constructor; try assumption.
  - eapply Budget_mono; eassumption.
  - lia.
  - destruct E as (G0 & E1 & E2 & E3). exists G0. split; [exact E1|]. split; [|exact E3].
    eapply Fam_mono; eassumption.
Qed.

(* steps that leave the journal and the journal-relevant part of the core alone *)
Lemma FI_frame y y' sp n b : FI y sp n b -> journal_wf y' -> logical y' = logical y ->
  core_eqj (y_core y) (y_core y') ->
  R (k_sm (y_core y')) sp -> Budget (m_cache (k_sm (y_core y'))) n b -> FI y' sp n b.
Proof.
  intros [A B C D E F G] JW El (E1 & E2 & E3 & E4 & E5 & E6 & E7) HR HB.
  constructor; try assumption.
  - destruct E as (G0 & [Ea Eb] & Ec & Ed & Ee & Ef). exists G0. split; [|split; [|split; [|split]]].
    + constructor; rewrite El; assumption.
    + eapply Fam_ext; eassumption.
    + rewrite E6. exact Ed.
    + rewrite E7. exact Ee.
    + exact Ef.
  - unfold live_ok, closed_ids. rewrite E7, E4, E2. exact F.
  - unfold closed_bound. rewrite E7, E4. exact G.
Qed.

(* ------------------------------------------------------------------ an accepted record *)
Lemma FI_appended y sp sp' n0 b0 n b r sm1 :
  FI y sp n0 b0 -> n <= n0 -> b <= b0 -> wf_record r ->
  rs_validate (m_rs (k_sm (y_core y))) r = None ->
  keep_rec (m_rs (k_sm (y_core y))) r ->
  sm_apply (k_sm (y_core y)) r (ck_id (k_open (y_core y)))
           (ck_end (k_open (y_core y)), rec_size r) = (sm1, None) ->
  (forall c seg, R (fst (sm_apply (k_sm (y_core y)) r c seg)) sp' /\
                 Budget (m_cache (fst (sm_apply (k_sm (y_core y)) r c seg))) n b) ->
  (forall lo t c seg, Sim lo sp (k_sm (y_core y)) t -> Budget (m_cache t) n0 b0 -> lo <= c ->
     Sim lo sp' (fst (sm_apply (k_sm (y_core y)) r c seg)) (fst (sm_apply t r c seg)) /\
     Budget (m_cache (fst (sm_apply t r c seg))) n b) ->
  FI (with_core y (JournalChunk.appended (y_core y) r sm1)) sp' n b.
Proof.
  intros F Hn Hb Hr Hv Hkeep Hs Hsim Hstep.
  pose proof (fi_jw _ _ _ _ F) as JW. pose proof (jw_inv _ JW) as J.
  set (k := y_core y) in *. set (o := ck_id (k_open k)) in *.
  destruct (jw_appended y r sm1 JW Hr Hv Hs) as (JW1 & Hids1 & Hfo1 & Hfother1).
  fold k o in Hids1, Hfo1, Hfother1.
  destruct (fi_g _ _ _ _ F) as (G & [Gids Gfiles] & GF & GC & GBd & GH). fold k in GF, GC, GBd.
  rewrite (ji_idl_split _ _ _ J) in Gids. fold k o in Gids.
  apply map_snoc_inv in Gids. destruct Gids as (G0 & [o' rs] & EG & EG0 & Eo). cbn [fst] in Eo. subst o' G.
  apply Forall_app in Gfiles. destruct Gfiles as [Gf0 Gfl].
  inversion Gfl as [|? ? (Fo1 & Fo2 & Fo3) _]; subst. cbn [fst snd] in Fo1, Fo2, Fo3.
  assert (Hend : ck_end (k_open k) = o + rsum rs).
  { rewrite (ji_open_end _ _ _ J). fold k o. rewrite Fo1, rsum_blen. reflexivity. }
  assert (Hpre : forall g, In g G0 -> fst g < o).
  { intros g Hg. apply (ji_pre_lt _ _ _ J). fold k. rewrite <- EG0. apply in_map. exact Hg. }
  assert (Esm : sm1 = fst (sm_apply (k_sm k) r o (o + rsum rs, rec_size r))).
  { rewrite <- Hend, Hs. reflexivity. }
  constructor.
  - exact JW1.
  - cbn [with_core y_core JournalChunk.appended k_sm]. rewrite Esm. apply Hsim.
  - cbn [with_core y_core JournalChunk.appended k_sm]. rewrite Esm. apply Hsim.
  - destruct (fi_room _ _ _ _ F). split; lia.
  - exists (G0 ++ [(o, rs ++ [r])]). split; [|split; [|split; [|split]]].
    + constructor.
      * rewrite Hids1, (ji_idl_split _ _ _ J). fold k o. rewrite map_app, EG0. reflexivity.
      * apply Forall_app. split.
        -- rewrite Forall_forall in *. intros g Hg. apply file_ok_ext with (fb := file_bytes (logical y)).
           ++ apply Hfother1. specialize (Hpre g Hg). lia.
           ++ apply Gf0. exact Hg.
        -- constructor; [|constructor]. unfold file_ok. cbn [fst snd]. split; [|split].
           ++ rewrite Hfo1, Fo1, encs_app, encs_one. reflexivity.
           ++ apply Forall_app. split; [exact Fo2|]. constructor; [exact Hr|constructor].
           ++ destruct Fo3 as (st & tl & E). exists st, (tl ++ [r]). rewrite E. reflexivity.
    + cbn [with_core y_core JournalChunk.appended k_sm]. rewrite Esm.
      apply (Fam_record cfg' G0 o rs r sp sp' (k_sm k) n0 b0 n b GF).
      * rewrite Forall_forall. intros g Hg. specialize (Hpre g Hg). lia.
      * exact Hv.
      * intros lo t HS HB Hlo. apply Hstep; assumption.
    + cbn [with_core y_core JournalChunk.appended k_sm].
      destruct (sm_apply_ok _ _ _ _ _ _ Hv Hs) as [_ Ea].
      apply (Chain_record G0 o rs r _ _ GC Ea).
    + cbn [with_core y_core JournalChunk.appended k_sm]. rewrite Esm.
      apply (GB_record G0 o rs r (m_log (k_sm k)) _ GBd).
      * destruct Fo3 as (st & tl & E). rewrite E. discriminate.
      * intros e He. apply sm_apply_log in He. destruct He as [He|(id & p & _ & Ee)]; [left; exact He|].
        right. subst e. reflexivity.
      * rewrite Forall_forall. intros g Hg. specialize (Hpre g Hg). lia.
    + apply (HK_record G0 o rs r _ GH GC Hkeep).
  - unfold live_ok, closed_ids. cbn [with_core y_core JournalChunk.appended k_sm k_closed k_open].
    rewrite ck_id_push. intros e He. rewrite Esm in He. apply sm_apply_log in He.
    destruct He as [He|(id & p & _ & Ee)].
    + apply (fi_live _ _ _ _ F). exact He.
    + subst e. cbn [snd ld_chunk]. apply in_or_app. right. left. reflexivity.
  - unfold closed_bound. cbn [with_core y_core JournalChunk.appended k_sm k_closed].
    intros c e Hc He Hch. rewrite Esm in He. apply sm_apply_log in He.
    destruct He as [He|(id & p & _ & Ee)].
    + apply (fi_cb _ _ _ _ F c e Hc He Hch).
    + exfalso. subst e. cbn [snd ld_chunk] in Hch.
      pose proof (ji_closed_lt _ _ _ J c Hc) as Hlt. fold k o in Hlt. lia.
Qed.

(* ------------------------------------------------------------------ rotation *)
Lemma FI_rotated y1 sp n b :
  FI y1 sp n b ->
  FI (apply_effs (with_core y1 (rotated (y_core y1))) (rotate_effs (y_core y1))) sp n b.
Proof.
  intros F.
  pose proof (fi_jw _ _ _ _ F) as JW. pose proof (jw_inv _ JW) as J.
  destruct (jw_rotated y1 JW) as (JW2 & Hids2 & Hfoff2 & Hfother2).
  set (k1 := y_core y1) in *. set (o := ck_id (k_open k1)) in *. set (off := ck_end (k_open k1)) in *.
  set (y2 := apply_effs (with_core y1 (rotated k1)) (rotate_effs k1)) in *.
  assert (Ecore : y_core y2 = rotated k1) by (unfold y2; rewrite JournalFacts.apply_effs_core; reflexivity).
  assert (Hlt : o < off).
  { pose proof (chunk_ok_nonempty _ _ (ji_open_ok _ _ _ J)) as Hp. fold k1 o in Hp.
    pose proof (ji_open_end _ _ _ J) as He. fold k1 o off in He. lia. }
  assert (Hci : closed_insert (mkClosed (k_open k1) (m_rs (k_sm k1)) false) (k_closed k1) =
                k_closed k1 ++ [mkClosed (k_open k1) (m_rs (k_sm k1)) false]).
  { apply JournalChunk.closed_insert_last. rewrite Forall_forall. intros c Ic. cbn [cl_chunk].
    apply (ji_closed_lt _ _ _ J). exact Ic. }
  destruct (fi_g _ _ _ _ F) as (G & [Gids Gfiles] & GF & GC & GBd & GH). fold k1 in GF, GC, GBd.
  assert (Hcur : forall e, In e (m_log (k_sm k1)) ->
            opair_cmp (Some (ld_id (snd e))) (r_last (m_rs (k_sm k1))) <> Gt).
  { intros e He. pose proof (fi_R _ _ _ _ F) as HR. fold k1 in HR.
    destruct (log_key_in _ _ e HR He) as (x & Hx1 & _ & Hx3).
    destruct (entry_le_last _ _ x HR Hx1) as (l & Hl & Hl1 & _).
    rewrite (R_rs _ _ HR). cbn [spec_state r_last]. rewrite Hl, Hx3. cbn [opair_cmp]. exact Hl1. }
  assert (Hle : forall e, In e (m_log (k_sm k1)) -> ld_chunk (snd e) <= o).
  { intros e He. pose proof (ji_log _ _ _ J) as HL. rewrite Forall_forall in HL.
    destruct (HL e He) as (_ & H2 & _). exact H2. }
  constructor.
  - exact JW2.
  - rewrite Ecore. apply (fi_R _ _ _ _ F).
  - rewrite Ecore. apply (fi_B _ _ _ _ F).
  - apply (fi_room _ _ _ _ F).
  - exists (G ++ [(off, [RState (m_rs (k_sm k1))])]). rewrite Ecore. cbn [rotated k_sm].
    split; [|split; [|split; [|split]]].
    + constructor.
      * rewrite Hids2, map_app. f_equal. exact Gids.
      * apply Forall_app. split.
        -- rewrite Forall_forall in *. intros g Hg.
           apply file_ok_ext with (fb := file_bytes (logical y1)); [|apply Gfiles; exact Hg].
           apply Hfother2.
           assert (Hi : In (fst g) (ids (logical y1))) by (rewrite <- Gids; apply in_map; exact Hg).
           pose proof (ji_ids_le _ _ _ J _ Hi) as Hx. fold k1 o in Hx. lia.
        -- constructor; [|constructor]. unfold file_ok. cbn [fst snd]. split; [|split].
           ++ rewrite Hfoff2, encs_one. reflexivity.
           ++ constructor; [apply (ji_rs _ _ _ J)|constructor].
           ++ eexists. eexists. reflexivity.
    + apply Fam_rotate; [exact GF| |apply (fi_room _ _ _ _ F)|apply (fi_room _ _ _ _ F)].
      intros e He. specialize (Hle e He). lia.
    + apply Chain_rotate; [|exact GC]. intros E. subst G.
      pose proof (ji_open_in _ _ _ J) as Hi. rewrite <- Gids in Hi. destruct Hi.
    + pose proof Gids as Gids'. rewrite (ji_idl_split _ _ _ J) in Gids'. fold k1 o in Gids'.
      apply map_snoc_inv in Gids'. destruct Gids' as (G0 & [o' rs] & EG & _ & Eo).
      cbn [fst] in Eo. subst o' G. apply GB_rotate; [exact GBd|]. intros e He _. apply Hcur. exact He.
    + apply HK_rotate. exact GH.
  - unfold live_ok, closed_ids. rewrite Ecore. cbn [rotated k_sm k_closed k_open].
    rewrite Hci, map_app, ck_id_push. cbn [map cl_chunk ck_id]. fold o off.
    intros e He. pose proof (fi_live _ _ _ _ F e He) as Hi. fold k1 in Hi. unfold closed_ids in Hi. fold o in Hi.
    apply in_or_app. left. rewrite <- app_nil_r in Hi. rewrite app_nil_r in Hi. exact Hi.
  - unfold closed_bound. rewrite Ecore. cbn [rotated k_sm k_closed]. rewrite Hci.
    intros c e Hc He Hch. apply in_app_or in Hc. destruct Hc as [Hc|[Hc|[]]].
    + apply (fi_cb _ _ _ _ F c e Hc He Hch).
    + subst c. cbn [cl_state cl_chunk] in *. apply Hcur. exact He.
Qed.

(* ------------------------------------------------------------------ one record through append_and_apply *)
Definition step_sim2 (s : sm) (sp : spec) (r : record) (w : swrite) (n0 b0 n b : N) : Prop :=
  match spec_step sp w with
  | Some sp' =>
    forall lo t c seg, Sim lo sp s t -> Budget (m_cache t) n0 b0 -> lo <= c ->
      Sim lo sp' (fst (sm_apply s r c seg)) (fst (sm_apply t r c seg)) /\
      Budget (m_cache (fst (sm_apply t r c seg))) n b
  | None => True
  end.

Lemma aaa_fi : forall y sp n0 b0 n b r w,
  FI y sp n0 b0 -> n <= n0 -> b <= b0 -> wf_record r ->
  keep_rec (m_rs (k_sm (y_core y))) r ->
  step_sim (k_sm (y_core y)) sp r w n b ->
  step_sim2 (k_sm (y_core y)) sp r w n0 b0 n b ->
  exists k' res effs, append_and_apply (y_core y) r = Ret (k', res, effs) /\
    FI (apply_effs (with_core y k') effs) (fst (spec_one sp w)) n b /\
    res_agrees res (snd (spec_one sp w)).
Proof.
  intros y sp n0 b0 n b r w F Hn Hb Hr Hkeep HS HS2.
  unfold step_sim in HS. unfold step_sim2 in HS2. unfold spec_one.
  destruct (spec_step sp w) as [sp'|]; cbn [fst snd].
  - destruct HS as [HL [HV Hsim]].
    destruct (aaa_ok (y_core y) r HL HV) as (k' & off & len & effs & c & seg & Ha & _ & _).
    exists k', (WOk off len), effs. split; [exact Ha|]. split; [|reflexivity].
    apply append_and_apply_cases in Ha.
    destruct Ha as [(_ & _ & e & Ew)|(sm1 & Hv & Hs & Ew & Ht)]; [discriminate Ew|].
    pose proof (FI_appended y sp sp' n0 b0 n b r sm1 F Hn Hb Hr Hv Hkeep Hs Hsim HS2) as F1.
    eapply try_close_cases in Ht; [|reflexivity].
    destruct Ht as [(_ & Ek & Ee)|(_ & Ek & Ee)]; subst k' effs.
    + exact F1.
    + apply (FI_rotated _ _ _ _ F1).
  - assert (F' : FI (apply_effs (with_core y (y_core y)) []) sp n b).
    { cbn [apply_effs fold_left]. rewrite with_core_self. eapply FI_mono; eassumption. }
    destruct (index_limit r) eqn:HL.
    + exists (y_core y), (WErr EIndexLimit), []. split; [apply aaa_limit; exact HL|].
      split; [exact F'|reflexivity].
    + destruct HS as [HS|[e HS]]; [discriminate|].
      exists (y_core y), (WErr e), []. split; [apply aaa_invalid; assumption|].
      split; [exact F'|reflexivity].
Qed.

(* ------------------------------------------------------------------ the record kinds *)
Lemma sim2_vote : forall s sp v n b, step_sim2 s sp (RVote v) (SVote v) n b n b.
Proof.
  intros s sp v n b. unfold step_sim2. cbn [spec_step].
  destruct (ovote_accepts (sp_vote sp) v) eqn:E; [|exact I].
  intros lo t c seg HS HB Hlo.
  assert (HV : forall s0 : sm, r_vote (m_rs s0) = sp_vote sp -> rs_validate (m_rs s0) (RVote v) = None).
  { intros s0 H0. unfold rs_validate. rewrite H0, E. reflexivity. }
  destruct (rs_validate (m_rs s) (RVote v)) as [e|] eqn:V.
  - (* the live side refuses: nothing to relate; both sides keep their state *)
    unfold sm_apply, rs_apply. rewrite (S_rs _ _ _ _ HS), V. cbn [fst m_cache]. split; [|exact HB].
    eapply Sim_same; [exact HS|reflexivity|reflexivity|reflexivity|reflexivity|reflexivity|].
    cbn [m_rs]. first [reflexivity|apply (S_rs _ _ _ _ HS)].
  - assert (Vt : rs_validate (m_rs t) (RVote v) = None) by (rewrite (S_rs _ _ _ _ HS); exact V).
    rewrite (sm_apply_vote s v c seg V), (sm_apply_vote t v c seg Vt). cbn [m_cache].
    split; [|exact HB].
    eapply Sim_same; [exact HS|reflexivity|reflexivity|reflexivity|reflexivity|reflexivity|].
    cbn [m_rs]. rewrite (S_rs _ _ _ _ HS). reflexivity.
Qed.

Lemma sim2_commit : forall s sp id n b, step_sim2 s sp (RCommit id) (SCommit id) n b n b.
Proof.
  intros s sp id n b. unfold step_sim2. cbn [spec_step].
  destruct (opair_leb (sp_committed sp) (Some id)) eqn:E; [|exact I].
  intros lo t c seg HS HB Hlo.
  destruct (rs_validate (m_rs s) (RCommit id)) as [e|] eqn:V.
  - unfold sm_apply, rs_apply. rewrite (S_rs _ _ _ _ HS), V. cbn [fst m_cache]. split; [|exact HB].
    eapply Sim_same; [exact HS|reflexivity|reflexivity|reflexivity|reflexivity|reflexivity|].
    cbn [m_rs]. first [reflexivity|apply (S_rs _ _ _ _ HS)].
  - assert (Vt : rs_validate (m_rs t) (RCommit id) = None) by (rewrite (S_rs _ _ _ _ HS); exact V).
    rewrite (sm_apply_commit s id c seg V), (sm_apply_commit t id c seg Vt). cbn [m_cache].
    split; [|exact HB].
    eapply Sim_same; [exact HS|reflexivity|reflexivity|reflexivity|reflexivity|reflexivity|].
    cbn [m_rs]. rewrite (S_rs _ _ _ _ HS). reflexivity.
Qed.

Lemma sim2_state : forall s sp st u n b,
  step_sim2 s sp (RState st) (SUser u) n b n b.
Proof.
  intros s sp st u n b. unfold step_sim2. cbn [spec_step].
  intros lo t c seg HS HB Hlo. rewrite !sm_apply_state. cbn [m_cache]. split; [|exact HB].
  eapply Sim_same; [exact HS|reflexivity|reflexivity|reflexivity|reflexivity|reflexivity|].
  reflexivity.
Qed.

Lemma sim2_entry : forall s sp id p n b, R s sp ->
  step_sim2 s sp (RAppend id p) (SEntry id p) (n + 1) (b + psize p) n b.
Proof.
  intros s sp id p n b HR. unfold step_sim2. cbn [spec_step].
  pose proof (entry_validate (m_rs s) id p) as HV.
  assert (HL : r_last (m_rs s) = sp_last sp) by (rewrite (R_rs _ _ HR); reflexivity).
  rewrite HL in HV.
  destruct (opair_ltb (sp_last sp) (Some id) &&
            match sp_last sp with Some l => N.eqb (lid_index id) (lid_index l + 1) | None => true end) eqn:E1;
    [|exact I].
  destruct (N.eqb (lid_index id) U64MAX) eqn:E3; cbn [andb negb]; [exact I|].
  intros lo t c seg HS HB Hlo.
  apply andb_true_iff in E1. destruct E1 as [E1 E2].
  apply sim_append; try assumption.
  - apply opair_ltb_lt. exact E1.
  - intros l Hl. rewrite Hl in E2. apply N.eqb_eq in E2. exact E2.
  - apply HV. reflexivity.
Qed.

(* ------------------------------------------------------------------ append *)
Lemma fi_do_append : forall es sp acc effs0 n b y,
  Forall (fun e => wf_pair (fst e) /\ wf_bytes (snd e)) es -> wres_ok acc ->
  FI y sp (n + N.of_nat (length es)) (b + bytes_of es) ->
  exists k' r effs1, do_append (y_core y) es acc effs0 = Ret (k', r, effs0 ++ effs1) /\
    FI (apply_effs (with_core y k') effs1) (fst (spec_append sp es)) n b.
Proof.
  induction es as [|[id p] es IH]; intros sp acc effs0 n b y Hwf Hacc F.
  - exists (y_core y), acc, []. split; [rewrite app_nil_r; reflexivity|].
    cbn [spec_append fst apply_effs fold_left]. rewrite with_core_self.
    eapply FI_mono; [exact F|lia|lia].
  - inversion Hwf as [|? ? Hw1 Hw2]; subst. cbn [fst snd] in Hw1.
    assert (F1 : FI y sp ((n + N.of_nat (length es)) + 1) ((b + bytes_of es) + psize p)).
    { eapply FI_mono; [exact F| |].
      - cbn [length]. rewrite Nat2N.inj_succ. lia.
      - cbn [bytes_of fold_right snd]. fold (bytes_of es). lia. }
    pose proof (core_entry _ _ id p _ _ (fi_R _ _ _ _ F1) (fi_B _ _ _ _ F1)) as HS.
    pose proof (sim2_entry _ _ id p (n + N.of_nat (length es)) (b + bytes_of es) (fi_R _ _ _ _ F1)) as HS2.
    destruct (aaa_fi y sp _ _ (n + N.of_nat (length es)) (b + bytes_of es) (RAppend id p) (SEntry id p)
                F1 ltac:(lia) ltac:(lia) Hw1 I HS HS2) as (k1 & res & ef & Ha & FI1 & Hag).
    cbn [do_append spec_append]. rewrite Ha. unfold spec_one in FI1, Hag.
    destruct (spec_step sp (SEntry id p)) as [sp1|]; cbn [fst snd] in FI1, Hag.
    + destruct res as [off len|e]; [|discriminate Hag].
      set (y1 := apply_effs (with_core y k1) ef) in *.
      assert (Ec1 : y_core y1 = k1) by (unfold y1; rewrite JournalFacts.apply_effs_core; reflexivity).
      destruct (IH sp1 (WOk off len) (effs0 ++ ef) n b y1 Hw2 I FI1) as (k2 & r2 & ef2 & Hd & FI2).
      rewrite Ec1 in Hd. exists k2, r2, (ef ++ ef2). split; [rewrite Hd, app_assoc; reflexivity|].
      rewrite apply_effs_app, !apply_effs_with_core.
      unfold y1 in FI2. rewrite !apply_effs_with_core in FI2. exact FI2.
    + destruct res as [off len|e]; [discriminate Hag|].
      exists k1, (WErr e), ef. split; [reflexivity|]. cbn [fst].
      eapply FI_mono; [exact FI1|lia|lia].
Qed.

(* ------------------------------------------------------------------ purge: popping obsolete chunks *)
Lemma FI_purged y sp n b upto rm rest :
  FI y sp n b -> pop_obsolete upto (k_closed (y_core y)) = (rm, rest) ->
  opair_cmp (Some upto) (sp_purged sp) <> Gt ->
  FI (with_core y (purged_core (y_core y) rm rest)) sp n b.
Proof.
  intros F Hp Hup.
  pose proof (fi_jw _ _ _ _ F) as JW.
  pose proof (jw_purged y upto rm rest JW Hp) as JW'.
  destruct (pop_obsolete_pre _ _ _ _ Hp) as (pre & E1 & E2 & E3).
  assert (El : logical (with_core y (purged_core (y_core y) rm rest)) = logical y).
  { rewrite !logical_eq. reflexivity. }
  constructor.
  - exact JW'.
  - apply (fi_R _ _ _ _ F).
  - apply (fi_B _ _ _ _ F).
  - apply (fi_room _ _ _ _ F).
  - destruct (fi_g _ _ _ _ F) as (G & [Ga Gb] & Gc & Gd & Ge & Gf). exists G.
    split; [|split; [|split; [|split]]]; try assumption.
    constructor; rewrite El; assumption.
  - unfold live_ok, closed_ids. cbn [with_core y_core purged_core k_sm k_closed k_open].
    intros e He. pose proof (fi_live _ _ _ _ F e He) as Hi. unfold closed_ids in Hi.
    rewrite E1, map_app, <- app_assoc in Hi. apply in_app_or in Hi. destruct Hi as [Hi|Hi]; [|exact Hi].
    exfalso. apply in_map_iff in Hi. destruct Hi as (c & Ec & Hc).
    assert (Hc' : In c (k_closed (y_core y))) by (rewrite E1; apply in_or_app; left; exact Hc).
    pose proof (fi_cb _ _ _ _ F c e Hc' He (eq_sym Ec)) as Hb.
    rewrite Forall_forall in E3. specialize (E3 c Hc).
    pose proof (fi_R _ _ _ _ F) as HR.
    destruct (log_key_in _ _ e HR He) as (x & Hx1 & _ & Hx3).
    destruct (R_purged _ _ HR x Hx1) as [Hpg _]. rewrite <- Hx3 in Hpg.
    assert (H1 : opair_cmp (Some (ld_id (snd e))) (Some upto) <> Gt) by (eapply opair_le_trans; eassumption).
    assert (H2 : opair_cmp (Some (ld_id (snd e))) (sp_purged sp) <> Gt) by (eapply opair_le_trans; eassumption).
    apply (opair_lt_not_ge _ _ Hpg H2).
  - unfold closed_bound. cbn [with_core y_core purged_core k_sm k_closed].
    intros c e Hc He Hch. apply (fi_cb _ _ _ _ F c e); [|exact He|exact Hch].
    rewrite E1. apply in_or_app. right. exact Hc.
Qed.

(* ------------------------------------------------------------------ flush: the removed files leave the journal *)
Lemma jw_flush_ex y cb :
  journal_wf y ->
  let y' := apply_effs (with_core y (fst (do_flush (y_core y) cb))) (snd (do_flush (y_core y) cb)) in
  journal_wf y' /\
  ids (logical y') = closed_ids (y_core y) ++ [ck_id (k_open (y_core y))] /\
  (forall j, In j (closed_ids (y_core y) ++ [ck_id (k_open (y_core y))]) ->
     file_bytes (logical y') j = file_bytes (logical y) j) /\
  core_eqj (flushed_core (y_core y) (k_next_cb (y_core y'))) (y_core y').
Proof.
  intros JW.
  pose proof (jw_inv _ JW) as J.
  pose proof (jw_FD_sorted _ JW) as SFD.
  pose proof (jw_ids_FD _ JW) as EFD.
  pose proof (jw_open_in_FD _ JW) as IoFD.
  destruct (jw_newest _ JW) as (older & pl & Enew).
  remember (y_core y) as k eqn:Ek.
  remember (ck_id (k_open k)) as o eqn:Eo.
  remember (k_removed k) as rm eqn:Erm.
  remember (fst (wfinal y)) as FD eqn:EFDdef.
  assert (Ewf : wfinal y = (FD, older ++ [mkWF o pl])).
  { rewrite (surjective_pairing (wfinal y)), <- EFDdef, Enew. reflexivity. }
  remember (if cb then Some (k_next_cb k) else None) as cbo eqn:Ecbo.
  remember (if cb then k_next_cb k + 1 else k_next_cb k) as cbn eqn:Ecbn.
  remember (WWrite (ck_end (k_open k)) (k_pending k) cbo) as W eqn:EW.
  destruct (wstep_write older (mkWF o pl) FD (ck_end (k_open k)) (k_pending k) cbo SFD)
    as (W1 & W2 & W3 & W4 & W5).
  cbn [wf_id] in W4, W5. specialize (W4 IoFD). rewrite <- EW in *.
  remember (wstep (FD, older ++ [mkWF o pl]) W) as s1 eqn:Es1.
  assert (Hrm_lt : forall j, In j rm -> j < o).
  { intros j Ij. subst rm o. apply (ji_removed_lt _ _ _ J). assumption. }
  assert (Edo : do_flush k cb = (flushed_core k cbn, flush_effs W rm)).
  { unfold do_flush, flush_effs, flushed_core. subst. destruct (k_removed (y_core y)); reflexivity. }
  rewrite Edo. cbn [fst snd].
  remember (apply_effs (with_core y (flushed_core k cbn)) (flush_effs W rm)) as y' eqn:Ey'.
  assert (Ew : wfinal y' = (remove_all rm (fst s1), [mkWF o pl])).
  { subst y'. rewrite wfinal_flush, Ewf, <- Es1, W1. reflexivity. }
  destruct (flush_effs_sys y (flushed_core k cbn) W rm) as (Edisk & Efiles & Ement).
  rewrite <- Ey' in Edisk, Efiles, Ement.
  assert (Ecore : y_core y' = flushed_core k cbn).
  { subst y'. rewrite JournalFacts.apply_effs_core. reflexivity. }
  assert (Eopen' : ck_id (k_open (y_core y')) = o) by (rewrite Ecore; subst o; reflexivity).
  assert (Hsort : StronglySorted N.lt (rm ++ closed_ids k ++ [o])).
  { pose proof (ji_sorted _ _ _ J) as S. rewrite (ji_ids _ _ _ J) in S.
    unfold chunk_ids in S. subst rm o. exact S. }
  assert (Eids' : ids (remove_all rm (fst s1)) = closed_ids k ++ [o]).
  { rewrite ids_remove_all, W2, <- EFD, (ji_ids _ _ _ J). unfold chunk_ids.
    rewrite <- Erm, <- Eo. apply filter_notmem_app. exact Hsort. }
  assert (Hnot : forall j, In j (closed_ids k ++ [o]) -> mem j rm = false).
  { intros j Ij. apply mem_false. intros I.
    apply ss_app_inv in Hsort as (_ & _ & S). specialize (S _ _ I Ij). lia. }
  set (fb' := fun j => if mem j rm then [] else file_bytes (logical y) j).
  destruct (jw_build y' (closed_ids k ++ [o]) fb') as (JW' & Hids' & Hfb').
  - rewrite Edisk. apply (jw_sorted _ JW).
  - rewrite Eopen', Ew. simpl. rewrite Eids'. apply in_app_iff. right. left. reflexivity.
  - rewrite Eopen', Ew. simpl. exists [], pl. reflexivity.
  - rewrite Eopen', Ement. apply Forall_app. split.
    + pose proof (jw_bound _ JW) as HB. rewrite <- Ek, <- Eo in HB. exact HB.
    + subst W. simpl. rewrite Forall_forall. intros j Ij. specialize (Hrm_lt _ Ij). lia.
  - rewrite Ew. simpl. symmetry. exact Eids'.
  - rewrite Ecore, Eo. apply jinv_flush with (idl := ids (logical y)) (fb := file_bytes (logical y)); [exact J|].
    rewrite <- Eo. intros j Ij. unfold fb'. rewrite (Hnot j Ij). reflexivity.
  - rewrite Eopen', Ecore, Ew. simpl. rewrite app_nil_r. unfold fb'.
    rewrite fb_remove_all.
    rewrite (Hnot o) by (apply in_app_iff; right; left; reflexivity).
    rewrite W4. subst o k FD. apply (jw_fb_open _ JW).
  - rewrite Eopen', Ew. simpl. intros j Hj. unfold fb'. rewrite fb_remove_all.
    destruct (mem j rm); [reflexivity|]. rewrite W5 by assumption.
    subst o k FD. apply (jw_fb_other y j). assumption.
  - split; [exact JW'|]. split; [exact Hids'|]. split.
    + intros j Ij. rewrite Hfb'. unfold fb'. rewrite (Hnot j Ij). reflexivity.
    + rewrite Ecore. cbn [flushed_core k_next_cb]. apply core_eqj_refl.
Qed.

Lemma FI_flush y sp n b cb :
  FI y sp n b ->
  FI (apply_effs (with_core y (fst (do_flush (y_core y) cb))) (snd (do_flush (y_core y) cb))) sp n b.
Proof.
  intros F. pose proof (fi_jw _ _ _ _ F) as JW. pose proof (jw_inv _ JW) as J.
  destruct (jw_flush_ex y cb JW) as (JW' & Hids & Hfb & Hc).
  set (y' := apply_effs (with_core y (fst (do_flush (y_core y) cb))) (snd (do_flush (y_core y) cb))) in *.
  assert (Ecore : y_core y' = fst (do_flush (y_core y) cb)).
  { unfold y'. rewrite JournalFacts.apply_effs_core. reflexivity. }
  assert (Esm : k_sm (y_core y') = k_sm (y_core y)) by (rewrite Ecore; reflexivity).
  assert (Ecl : k_closed (y_core y') = k_closed (y_core y)) by (rewrite Ecore; reflexivity).
  assert (Eop : k_open (y_core y') = k_open (y_core y)) by (rewrite Ecore; reflexivity).
  constructor.
  - exact JW'.
  - rewrite Esm. apply (fi_R _ _ _ _ F).
  - rewrite Esm. apply (fi_B _ _ _ _ F).
  - apply (fi_room _ _ _ _ F).
  - destruct (fi_g _ _ _ _ F) as (G & [Ga Gb] & Gc & Gd & Ge & Gf).
    rewrite (ji_ids _ _ _ J) in Ga. unfold chunk_ids in Ga.
    apply map_eq_app in Ga. destruct Ga as (G1 & G2 & EG & Ea1 & Ea2). subst G.
    exists G2. rewrite Esm. split; [|split; [|split; [|split]]].
    + constructor; [rewrite Hids; exact Ea2|].
      apply Forall_app in Gb. destruct Gb as [_ Gb]. rewrite Forall_forall in *.
      intros g Hg. apply file_ok_ext with (fb := file_bytes (logical y)); [|apply Gb; exact Hg].
      apply Hfb. rewrite <- Ea2. apply in_map. exact Hg.
    + eapply Fam_app_r. exact Gc.
    + eapply Chain_app_r. exact Gd.
    + eapply GB_app_r. exact Ge.
    + eapply HK_app_r. exact Gf.
  - unfold live_ok, closed_ids. rewrite Esm, Ecl, Eop. apply (fi_live _ _ _ _ F).
  - unfold closed_bound. rewrite Esm, Ecl. apply (fi_cb _ _ _ _ F).
Qed.

(* ------------------------------------------------------------------ caller writes *)
Lemma fi_one : forall y sp n b r w,
  FI y sp n b -> wf_record r -> keep_rec (m_rs (k_sm (y_core y))) r ->
  step_sim (k_sm (y_core y)) sp r w n b -> step_sim2 (k_sm (y_core y)) sp r w n b n b ->
  exists k' res effs, append_and_apply (y_core y) r = Ret (k', res, effs) /\
    FI (apply_effs (with_core y k') effs) (fst (spec_one sp w)) n b /\
    res_agrees res (snd (spec_one sp w)).
Proof.
  intros y sp n b r w F Hr Hk H1 H2.
  apply (aaa_fi y sp n b n b r w F (N.le_refl _) (N.le_refl _) Hr Hk H1 H2).
Qed.

Lemma fi_do_write : forall y sp w n b,
  FI y sp (n + N.of_nat (length (op_entries (OW w)))) (b + bytes_of (op_entries (OW w))) ->
  wop_legal sp w = true -> wop_wf w ->
  exists k' r effs, do_write (y_core y) w = Ret (k', r, effs) /\
    FI (apply_effs (with_core y k') effs) (fst (spec_wop sp w)) n b.
Proof.
  intros y sp w n b F Hleg Hwf.
  assert (F0 : FI y sp n b) by (eapply FI_mono; [exact F|lia|lia]).
  pose proof (fi_R _ _ _ _ F0) as HR. pose proof (fi_B _ _ _ _ F0) as HB.
  pose proof (jw_inv _ (fi_jw _ _ _ _ F0)) as J.
  pose proof (ji_rs _ _ _ J) as (Wv & Wl & Wc & Wp & Wu).
  set (k := y_core y) in *.
  destruct w as [v|es|i|u|id|u|st]; cbn [do_write spec_wop]; cbn [wop_wf] in Hwf.
  - destruct (fi_one y sp n b (RVote v) (SVote v) F0 Hwf I) as (k' & res & effs & Ha & F' & _).
    + apply core_vote; assumption.
    + apply sim2_vote.
    + exists k', res, effs. split; assumption.
  - destruct (wal_last_segment_ok k (jw_open_nonempty _ (fi_jw _ _ _ _ F0))) as [s0 [l0 Hw]]. rewrite Hw.
    destruct (fi_do_append es sp (WOk s0 l0) [] n b y Hwf I F) as (k' & r & effs1 & Hd & F').
    exists k', r, effs1. split; [exact Hd|exact F'].
  - assert (HP : r_purged (m_rs (k_sm k)) = sp_purged sp) by (rewrite (R_rs _ _ HR); reflexivity).
    rewrite HP.
    destruct (N.eqb i (next_index (sp_purged sp))) eqn:E1.
    + apply N.eqb_eq in E1. subst i.
      destruct (fi_one y sp n b (RTrunc (sp_purged sp)) (STruncate (next_index (sp_purged sp))) F0)
        as (k' & res & effs & Ha & F' & _).
      * cbn [wf_record]. rewrite <- HP. exact Wp.
      * exact I.
      * unfold step_sim. cbn [spec_step]. rewrite N.eqb_refl. cbn [orb].
        split; [reflexivity|]. split; [reflexivity|]. intros c seg.
        apply trunc_accept; [exact HR|exact HB|]. left. reflexivity.
      * unfold step_sim2. cbn [spec_step]. rewrite N.eqb_refl. cbn [orb].
        intros lo t c seg HS HBt Hlo. apply sim_trunc; [exact HR|exact HS|exact HBt|].
        left. reflexivity.
      * exists k', res, effs. split; assumption.
    + destruct (N.eqb i 0) eqn:E2.
      * exists k, (WErr EIndexNotFound), []. split; [reflexivity|].
        unfold spec_one. cbn [spec_step]. rewrite E1, E2. cbn [orb negb andb fst].
        cbn [apply_effs fold_left]. unfold k. rewrite with_core_self. exact F0.
      * pose proof (lm_get_rel (m_log (k_sm k)) (sp_entries sp) (i - 1) (R_log _ _ HR)) as HG.
        unfold lm_get_id. destruct (lm_get (i - 1) (m_log (k_sm k))) as [d|] eqn:El.
        -- destruct HG as [p [Hin Hidx]].
           assert (Hh : sp_has_index sp (i - 1) = true).
           { unfold sp_has_index. apply existsb_exists. exists (ld_id d, p).
             split; [exact Hin|]. cbn [fst]. apply N.eqb_eq. exact Hidx. }
           assert (Hi : i = next_index (Some (ld_id d))).
           { cbn [next_index]. apply N.eqb_neq in E2. lia. }
           destruct (fi_one y sp n b (RTrunc (Some (ld_id d))) (STruncate i) F0)
             as (k' & res & effs & Ha & F' & _).
           ++ cbn [wf_record wf_opt]. apply lm_get_In in El.
              pose proof (ji_log _ _ _ J) as HL. rewrite Forall_forall in HL.
              destruct (HL _ El) as (Wd & _). exact Wd.
           ++ exact I.
           ++ unfold step_sim. cbn [spec_step]. rewrite E1, E2, Hh. cbn [orb negb andb].
              split; [reflexivity|]. split; [reflexivity|]. intros c seg.
              rewrite Hi. apply trunc_accept; [exact HR|exact HB|].
              right. exists (ld_id d), p. split; [reflexivity|exact Hin].
           ++ unfold step_sim2. cbn [spec_step]. rewrite E1, E2, Hh. cbn [orb negb andb].
              intros lo t c seg HS HBt Hlo. rewrite Hi.
              apply sim_trunc; [exact HR|exact HS|exact HBt|].
              right. exists (ld_id d), p. split; [reflexivity|exact Hin].
           ++ exists k', res, effs. split; assumption.
        -- exists k, (WErr EIndexNotFound), []. split; [reflexivity|].
           unfold spec_one. cbn [spec_step]. rewrite E1, E2. cbn [orb negb andb].
           unfold sp_has_index. rewrite HG. cbn [fst].
           cbn [apply_effs fold_left]. unfold k. rewrite with_core_self. exact F0.
  - cbn [wop_legal] in Hleg.
    assert (HP : r_purged (m_rs (k_sm k)) = sp_purged sp) by (rewrite (R_rs _ _ HR); reflexivity).
    rewrite HP.
    destruct (N.ltb (lid_index u) (next_index (sp_purged sp))) eqn:E1.
    + destruct (wal_last_segment_ok k (jw_open_nonempty _ (fi_jw _ _ _ _ F0))) as [s0 [l0 Hw]]. rewrite Hw.
      exists k, (WOk s0 l0), []. split; [reflexivity|].
      unfold spec_one. cbn [spec_step]. rewrite E1. cbn [fst].
      cbn [apply_effs fold_left]. unfold k. rewrite with_core_self. exact F0.
    + assert (Hacc : N.eqb (lid_index u) U64MAX = false ->
                (exists p, In (u, p) (sp_entries sp)) \/
                (opair_cmp (sp_last sp) (Some u) = Lt /\
                 forall l, sp_last sp = Some l -> lid_index l < lid_index u)).
      { intros _. unfold purge_legal in Hleg. rewrite E1 in Hleg. cbn [orb] in Hleg.
        apply orb_true_iff in Hleg. destruct Hleg as [Hl|Hl].
        - left. apply existsb_exists in Hl. destruct Hl as [[id p] [Hin He]].
          cbn [fst] in He. apply pair_eqb_eq in He. subst id. exists p. exact Hin.
        - right. apply andb_true_iff in Hl. destruct Hl as [H1 H2].
          split; [apply opair_ltb_lt; exact H1|]. intros l Hl. rewrite Hl in H2.
          apply N.ltb_lt. exact H2. }
      destruct (fi_one y sp n b (RPurge u) (SPurge u) F0 Hwf I) as (k1 & res & ef & Ha & F1 & Hag).
      * unfold step_sim. cbn [spec_step index_limit]. rewrite E1.
        destruct (N.eqb (lid_index u) U64MAX) eqn:E2; [left; reflexivity|].
        split; [reflexivity|]. split; [reflexivity|]. intros c seg.
        apply purge_accept; [exact HR|exact HB|]. apply Hacc. reflexivity.
      * unfold step_sim2. cbn [spec_step]. rewrite E1.
        destruct (N.eqb (lid_index u) U64MAX) eqn:E2; [exact I|].
        intros lo t c seg HS HBt Hlo. apply sim_purge; [exact HR|exact HS|exact HBt|].
        apply Hacc. reflexivity.
      * fold k in Ha. rewrite Ha. destruct res as [off len|e].
        -- destruct (pop_obsolete u (k_closed k1)) as [rm rest] eqn:Ep.
           eexists. eexists. eexists. split; [reflexivity|].
           set (y1 := apply_effs (with_core y k1) ef) in *.
           assert (Ec1 : y_core y1 = k1) by (unfold y1; rewrite JournalFacts.apply_effs_core; reflexivity).
           rewrite <- Ec1 in Ep.
           assert (Hup : opair_cmp (Some u) (sp_purged (fst (spec_one sp (SPurge u)))) <> Gt).
           { unfold spec_one in *. cbn [spec_step] in *. rewrite E1 in *.
             destruct (N.eqb (lid_index u) U64MAX); [discriminate Hag|]. cbn [fst sp_purged].
             destruct (opair_ltb (sp_purged sp) (Some u)) eqn:E3.
             - apply opair_eq_le.
             - apply opair_ltb_ge. exact E3. }
           pose proof (FI_purged y1 _ n b u rm rest F1 Ep Hup) as Fp.
           rewrite Ec1 in Fp. unfold y1 in Fp.
           rewrite apply_effs_with_core in Fp. rewrite with_core_with_core in Fp.
           rewrite apply_effs_with_core. exact Fp.
        -- exists k1, (WErr e), ef. split; [reflexivity|exact F1].
  - destruct (fi_one y sp n b (RCommit id) (SCommit id) F0 Hwf I) as (k' & res & effs & Ha & F' & _).
    + apply core_commit; assumption.
    + apply sim2_commit.
    + exists k', res, effs. split; assumption.
  - destruct (fi_one y sp n b (RState (rs_set_user (m_rs (k_sm k)) u)) (SUser u) F0)
      as (k' & res & effs & Ha & F' & _).
    + cbn [wf_record]. unfold wf_rstate. cbn. tauto.
    + cbn [keep_rec rs_set_user r_last]. apply opair_leb_le. apply opair_eq_le.
    + apply core_user; assumption.
    + apply sim2_state.
    + exists k', res, effs. split; assumption.
  - discriminate Hleg.
Qed.

(* ------------------------------------------------------------------ one caller operation *)
Lemma fi_run_op : forall y sp o n b,
  FI y sp (n + N.of_nat (length (op_entries o))) (b + bytes_of (op_entries o)) ->
  op_plain sp o = true -> op_wf o ->
  exists y' r, run_op y o = (Some y', r) /\ FI y' (spec_op sp o) n b.
Proof.
  intros y sp o n b F Hp Hwf.
  assert (F0 : FI y sp n b) by (eapply FI_mono; [exact F|lia|lia]).
  pose proof (fi_jw _ _ _ _ F0) as JW.
  destruct o as [w|cb|from to| | | | | |cfg].
  - cbn [op_plain] in Hp. cbn [op_wf] in Hwf.
    destruct (fi_do_write y sp w n b F Hp Hwf) as (k' & r & effs & Hd & F').
    cbn [run_op spec_op]. rewrite Hd. eexists. eexists. split; [reflexivity|exact F'].
  - cbn [run_op spec_op]. pose proof (FI_flush y sp n b cb F0) as F'.
    destruct (do_flush (y_core y) cb) as [k effs]. cbn [fst snd] in F'.
    eexists. eexists. split; [reflexivity|exact F'].
  - destruct (run_op_sim y sp (ORead from to) n b (FI_Inv _ _ _ _ F) Hp) as (y' & r & Hop & HI' & _).
    exists y', r. split; [exact Hop|]. cbn [spec_op].
    assert (JW' : journal_wf y') by (apply (jw_run_op y (ORead from to) y' r JW eq_refl I Hop)).
    cbn [run_op] in Hop.
    pose proof (JournalFacts.do_read_core (y_core y) (y_disk y) from to) as Ec.
    destruct (do_read (y_core y) (y_disk y) from to) as [k items]. cbn [fst] in Ec.
    inversion Hop; subst y' r.
    apply (FI_frame y _ sp n b F0 JW'); [|exact Ec|apply HI'|apply HI'].
    apply logical_core_eqj; [reflexivity|exact Ec].
  - cbn [run_op spec_op]. eexists. eexists. split; [reflexivity|exact F0].
  - cbn [run_op spec_op]. eexists. eexists. split; [reflexivity|exact F0].
  - cbn [run_op spec_op]. eexists. eexists. split; [reflexivity|exact F0].
  - destruct (run_op_sim y sp OIdle n b (FI_Inv _ _ _ _ F) Hp) as (y' & r & Hop & HI' & _).
    exists y', r. split; [exact Hop|]. cbn [spec_op].
    cbn [run_op] in Hop. inversion Hop; subst y' r.
    apply (FI_frame y _ sp n b F0 (jw_idle y JW)); [|apply JournalDisk.worker_idle_core|apply HI'|apply HI'].
    apply logical_core_eqj; [apply wfinal_idle|apply JournalDisk.worker_idle_core].
  - discriminate Hp.
  - discriminate Hp.
Qed.

Lemma fi_run_ops : forall ops y sp res fin n b,
  FI y sp (n + N.of_nat (length (Hist.appended ops))) (b + appended_bytes ops) ->
  ops_plain sp ops = true -> Forall op_wf ops -> run_ops y ops = (res, fin) ->
  exists y', fin = Some y' /\ FI y' (spec_ops sp ops) n b.
Proof.
  intros ops. induction ops as [|o r IH]; intros y sp res fin n b F Hp Hwf Hrun.
  - cbn [run_ops] in Hrun. inversion Hrun. subst. exists y. split; [reflexivity|].
    cbn [spec_ops fold_left]. eapply FI_mono; [exact F|lia|lia].
  - cbn [ops_plain] in Hp. apply andb_true_iff in Hp. destruct Hp as [Hp1 Hp2].
    inversion Hwf as [|? ? Hw1 Hw2]; subst.
    assert (F1 : FI y sp
              ((n + N.of_nat (length (Hist.appended r))) + N.of_nat (length (op_entries o)))
              ((b + appended_bytes r) + bytes_of (op_entries o))).
    { eapply FI_mono; [exact F| |].
      - rewrite appended_cons, app_length, Nat2N.inj_add. lia.
      - rewrite !appended_bytes_of, appended_cons, bytes_of_app. lia. }
    destruct (fi_run_op y sp o _ _ F1 Hp1 Hw1) as (y' & r0 & Hop & F').
    cbn [run_ops] in Hrun. rewrite Hop in Hrun.
    destruct (run_ops y' r) as [rs fin'] eqn:Er. inversion Hrun. subst.
    cbn [spec_ops fold_left]. apply (IH y' (spec_op sp o) rs fin n b F' Hp2 Hw2 Er).
Qed.

(* ------------------------------------------------------------------ the fresh store *)
Lemma FI_init : forall cfg n b,
  n <= c_max_items cfg -> b <= c_capacity cfg ->
  n <= c_max_items cfg' -> b <= c_capacity cfg' ->
  FI (sys0 cfg) spec0 n b.
Proof.
  intros cfg n b H1 H2 H3 H4.
  pose proof (jw_init cfg) as JW.
  constructor.
  - exact JW.
  - apply R_init.
  - unfold Budget. cbn. split; lia.
  - split; assumption.
  - exists [(0, [RState rstate0])]. split; [|split; [|split; [|split]]].
    + assert (El : logical (sys0 cfg) = [mkFile 0 (enc_record (RState rstate0)) 0]).
      { rewrite (C11_idle_disk_is_journal _ JW eq_refl eq_refl). reflexivity. }
      constructor; rewrite El.
      * reflexivity.
      * constructor; [|constructor]. unfold file_ok. cbn [fst snd]. split; [|split].
        -- rewrite encs_one. reflexivity.
        -- constructor; [|constructor]. cbn. unfold wf_rstate. cbn. tauto.
        -- eexists. eexists. reflexivity.
    + apply (Fam_rotate cfg' [] spec0 (sm_new cfg) n b 0 I); [intros e []|assumption|assumption].
    + cbn. split; [|exact I]. exists rstate0, []. split; reflexivity.
    + cbn. split; exact I.
    + constructor; [|constructor]. exists rstate0, []. split; [reflexivity|exact I].
  - intros e [].
  - intros c e [].
Qed.

End Inv.
