(* Property C14, second half: after the store has been dropped the worker always
   finishes: from every reachable dropped state with a live worker there is a
   failure-free sequence of worker events that empties the queue and ends the batch
   (C14_drain_terminates). Uses the invariants of PurgeDurable.v to show that no
   worker position is stuck. *)
From Coq Require Import List NArith Lia Bool Arith Sorting.Sorted.
From Coq.Strings Require Import Byte.
From RaftLog Require Import Base.Bytes Model.Types Model.Codec Model.Cache Model.Core
  Model.Recover Model.Run Model.Sys Spec.Durable.
From RaftLog Require Import Proofs.CodecFacts Proofs.AckFacts Proofs.JournalDisk Proofs.JournalChunk
  Proofs.PurgeFacts Proofs.PurgeDurable.
Import ListNotations.
Local Open Scope N_scope.

(* the request drained together with the writes of a batch is never a write *)
Definition nfinv (z : sys2) : Prop :=
  match w_batch (z_w z) with
  | Some b => forall u d c, b_nf b <> Some (WWrite u d c)
  | None => True
  end.

Lemma nfinv_zwork z ok z' v : nfinv z -> zwork z ok = Some (z', v) -> nfinv z'.
Proof.
  intros Hn H. unfold zwork in H. unfold nfinv in *.
  destruct z as [k t d q w a dr g]. zproj.
  destruct w as [wf al ba sf pp]. zproj.
  destruct al; [|discriminate]. destruct ba as [b|]; [|discriminate].
  destruct b as [ws nf pos bok]. zproj.
  destruct pos as [i| | | |i| | |rem|].
  - destruct (nth_error ws i) as [ww|].
    + destruct (ww_data ww) as [|x data].
      * wk_inv2 H. exact Hn.
      * destruct (newest _) as [f|]; [|discriminate]. destruct ok; wk_inv2 H; [exact Hn|exact I].
    + wk_inv2 H. exact Hn.
  - destruct wf as [|f [|f2 rest]]; [wk_inv2 H; exact Hn|wk_inv2 H; exact Hn|].
    destruct ok; wk_inv2 H; exact Hn.
  - destruct wf as [|f rest]; [discriminate|]. wk_inv2 H. exact Hn.
  - destruct wf as [|f rest]; [discriminate|]. destruct ok; wk_inv2 H; exact Hn.
  - destruct (nth_error ws i) as [ww|]; [destruct (ww_cb ww)|]; wk_inv2 H; exact Hn.
  - destruct sf; [wk_inv2 H; exact Hn|]. destruct pp as [|id rest]; [wk_inv2 H; exact Hn|].
    destruct ok; wk_inv2 H; [exact Hn|exact I].
  - destruct nf as [[u data cb|off prev|rids]|]; [discriminate| | |]; try (wk_inv2 H; exact Hn).
    destruct sf; wk_inv2 H; exact Hn.
  - destruct rem as [|id rest]; [wk_inv2 H; exact Hn|]. destruct ok; wk_inv2 H; [exact Hn|exact I].
  - wk_inv2 H. exact I.
Qed.

Lemma nfinv_zstep z e z' v : nfinv z -> zstep z e = Some (z', v) -> nfinv z'.
Proof.
  intros Hn H. destruct e as [o| |k nf|ok|]; cbn [zstep] in H.
  - assert (z_w z' = z_w z) as E; [|unfold nfinv; rewrite E; exact Hn].
    unfold zcall in H. inv_step H; reflexivity.
  - assert (z_w z' = z_w z) as E; [|unfold nfinv; rewrite E; exact Hn].
    unfold zeff in H. inv_step H; reflexivity.
  - destruct (zrecv_shape _ _ _ _ _ H) as (b & q' & -> & _ & _ & _ & Hb). unfold nfinv. zproj. exact Hb.
  - eapply nfinv_zwork; eassumption.
  - destruct (z_todo z); [|discriminate]. inversion H; subst. exact Hn.
Qed.

Definition Good (z : sys2) : Prop := DInv z /\ nfinv z.

Lemma good_zstep z e z' v : Good z -> zstep z e = Some (z', v) -> Good z'.
Proof. intros [H1 H2] H. split; [eapply dinv_zstep|eapply nfinv_zstep]; eassumption. Qed.

Lemma good_reach cfg z : zreach cfg z -> Good z.
Proof.
  intros Hr. split; [eapply zreach_DInv; exact Hr|].
  destruct Hr as (z0 & es & v & H0 & Hr). apply zinit_empty in H0. subst z0.
  eapply (zrun_inv nfinv); [intros; eapply nfinv_zstep; eassumption| |exact Hr]. exact I.
Qed.

(* ---- a measure that every successful worker action decreases ---- *)
Definition nf_len (o : option wreq) : nat :=
  match o with Some (WRemove ids) => length ids | _ => O end.

Definition mu (w : worker) : nat :=
  match w_batch w with
  | None => O
  | Some b =>
    let R := nf_len (b_nf b) in
    let P := length (w_postponed w) in
    let W := length (b_writes b) in
    let F := length (w_files w) in
    match b_pos b with
    | BDone => 1
    | BUnlink ids => 2 + length ids
    | BNonFlush => 3 + R
    | BPostponed => 4 + R + P
    | BCallbacks i => 5 + R + P + (W - i)
    | BSyncNew => 6 + R + P + W
    | BSetEvict => 7 + R + P + W
    | BSyncOld => 8 + R + P + W + F
    | BWrite i => 9 + R + P + W + F + (W - i)
    end
  end%nat.

Definition frame (z z' : sys2) : Prop :=
  z_queue z' = z_queue z /\ z_todo z' = z_todo z /\ z_dropped z' = z_dropped z /\ w_alive (z_w z') = true.

Lemma zwork_progress z b : Good z -> w_alive (z_w z) = true -> w_batch (z_w z) = Some b ->
  exists z' v, zwork z true = Some (z', v) /\ (mu (z_w z') < mu (z_w z))%nat /\ frame z z'.
Proof.
  intros [(Hinv & Lw & Hs) Hnf] Ha Hb.
  pose proof (s_alive _ _ Hs Ha) as [(nfile & ln & A) _ W3 _].
  pose proof (a_newest _ _ _ _ A) as A1. clear A Hs Hinv.
  unfold zwork, frame, nfinv in *.
  destruct z as [k t d q w a dr g]. zproj.
  destruct w as [wf al ba sf pp]. zproj. subst al ba.
  destruct b as [ws nf pos bok]. zproj. unfold sync_tail in W3. zproj.
  destruct pos as [i| | | |i| | |rem|].
  - destruct (nth_error ws i) as [ww|] eqn:En.
    + assert (Hi : (i < length ws)%nat) by (apply nth_error_Some; congruence).
      destruct (ww_data ww) as [|x data].
      * eexists _, _. split; [reflexivity|]. unfold mu, w_set_pos, w_set_batch. zproj. split; [lia|repeat split].
      * rewrite A1. eexists _, _. split; [reflexivity|]. unfold mu, w_set_pos, w_set_batch. zproj. split; [lia|repeat split].
    + eexists _, _. split; [reflexivity|]. unfold mu, w_set_pos, w_set_batch. zproj. split; [lia|repeat split].
  - destruct wf as [|f [|f2 rest]]; eexists _, _; (split; [reflexivity|]); unfold mu, w_set_pos, w_set_batch; zproj;
      cbn [length]; (split; [lia|repeat split]).
  - destruct W3 as [f ->]. eexists _, _. split; [reflexivity|]. unfold mu, w_set_pos, w_set_batch. zproj. split; [lia|repeat split].
  - destruct W3 as [f ->]. eexists _, _. split; [reflexivity|]. unfold mu, w_set_pos, w_set_batch. zproj. split; [lia|repeat split].
  - destruct (nth_error ws i) as [ww|] eqn:En.
    + assert (Hi : (i < length ws)%nat) by (apply nth_error_Some; congruence).
      destruct (ww_cb ww) as [c|]; eexists _, _; (split; [reflexivity|]); unfold mu, w_set_pos, w_set_batch; zproj;
        (split; [lia|repeat split]).
    + eexists _, _. split; [reflexivity|]. unfold mu, w_set_pos, w_set_batch. zproj. split; [lia|repeat split].
  - destruct sf; [|destruct pp as [|id rest]]; eexists _, _; (split; [reflexivity|]); unfold mu, w_set_pos, w_set_batch; zproj;
      cbn [length]; (split; [lia|repeat split]).
  - destruct nf as [[u data cb|off prev|rids]|].
    + exfalso. eapply Hnf. reflexivity.
    + eexists _, _. split; [reflexivity|]. unfold mu, w_set_pos, w_set_batch. zproj. cbn [nf_len]. split; [lia|repeat split].
    + destruct sf; eexists _, _; (split; [reflexivity|]); unfold mu, w_set_pos, w_set_batch; zproj; cbn [nf_len];
        (split; [lia|repeat split]).
    + eexists _, _. split; [reflexivity|]. unfold mu, w_set_pos, w_set_batch. zproj. cbn [nf_len]. split; [lia|repeat split].
  - destruct rem as [|id rest]; eexists _, _; (split; [reflexivity|]); unfold mu, w_set_pos, w_set_batch; zproj;
      cbn [length]; (split; [lia|repeat split]).
  - eexists _, _. split; [reflexivity|]. unfold mu, w_set_pos, w_set_batch. zproj. split; [lia|repeat split].
Qed.

Lemma frame_trans z1 z2 z3 : frame z1 z2 -> frame z2 z3 -> frame z1 z3.
Proof. intros (a1&a2&a3&a4) (b1&b2&b3&b4). repeat split; congruence. Qed.

(* the worker finishes its batch *)
Lemma drain_batch n : forall z, (mu (z_w z) <= n)%nat -> Good z -> w_alive (z_w z) = true ->
  exists es z' vis, forallb ev_fault_free es = true /\ zrun z es = Some (z', vis) /\
    w_batch (z_w z') = None /\ Good z' /\ z_queue z' = z_queue z /\ z_todo z' = z_todo z /\
    z_dropped z' = z_dropped z /\ w_alive (z_w z') = true.
Proof.
  induction n as [|n IH]; intros z Hm Hg Ha.
  - exists [], z, []. split; [reflexivity|]. split; [reflexivity|].
    split; [|split; [exact Hg|repeat split; assumption]].
    unfold mu in Hm. destruct (w_batch (z_w z)) as [b|]; [|reflexivity].
    destruct (b_pos b); cbn in Hm; lia.
  - destruct (w_batch (z_w z)) as [b|] eqn:Eb.
    + destruct (zwork_progress _ _ Hg Ha Eb) as (z1 & v1 & Hw & Hlt & (F1 & F2 & F3 & F4)).
      assert (Hg1 : Good z1) by (eapply (good_zstep z (ZWork true)); [exact Hg|exact Hw]).
      destruct (IH z1) as (es & z' & vis & E1 & E2 & E3 & E4 & E5 & E6 & E7 & E8); [lia|exact Hg1|exact F4|].
      exists (ZWork true :: es), z', (v1 ++ vis). split; [cbn [forallb ev_fault_free]; exact E1|].
      split; [cbn [zrun zstep]; rewrite Hw, E2; reflexivity|].
      split; [exact E3|]. split; [exact E4|]. repeat split; congruence.
    + exists [], z, []. split; [reflexivity|]. split; [reflexivity|]. split; [exact Eb|split; [exact Hg|repeat split; assumption]].
Qed.

(* one request can always be received when the worker has no batch *)
Lemma zrecv_one z r q : w_alive (z_w z) = true -> w_batch (z_w z) = None -> z_queue z = r :: q ->
  exists z', zrecv z 0 false = Some (z', []) /\ z_queue z' = q /\ z_todo z' = z_todo z /\
             z_dropped z' = z_dropped z /\ w_alive (z_w z') = true.
Proof.
  intros Ha Hb Hq. unfold zrecv. rewrite Ha, Hb, Hq.
  destruct r as [u data cb|off prev|rids]; cbn [take_writes Nat.eqb negb andb].
  - eexists. split; [destruct q as [|[] ?]; reflexivity|]. repeat split. zproj. exact Ha.
  - eexists. split; [reflexivity|]. repeat split. zproj. exact Ha.
  - eexists. split; [reflexivity|]. repeat split. zproj. exact Ha.
Qed.

Lemma drain_queue n : forall z, (length (z_queue z) <= n)%nat -> Good z -> w_alive (z_w z) = true ->
  z_todo z = [] ->
  exists es z' vis, forallb ev_fault_free es = true /\ zrun z es = Some (z', vis) /\ worker_idle2 z'.
Proof.
  induction n as [|n IH]; intros z Hl Hg Ha Ht.
  - destruct (drain_batch _ z (le_n _) Hg Ha) as (es & z' & vis & E1 & E2 & E3 & E4 & E5 & E6 & E7 & E8).
    exists es, z', vis. split; [exact E1|]. split; [exact E2|]. split; [|split; [exact E3|congruence]].
    rewrite E5. destruct (z_queue z); [reflexivity|cbn in Hl; lia].
  - destruct (drain_batch _ z (le_n _) Hg Ha) as (es & z1 & vis & E1 & E2 & E3 & E4 & E5 & E6 & E7 & E8).
    destruct (z_queue z1) as [|r q] eqn:Eq.
    + exists es, z1, vis. split; [exact E1|]. split; [exact E2|]. split; [exact Eq|split; [exact E3|congruence]].
    + destruct (zrecv_one _ _ _ E8 E3 Eq) as (z2 & R1 & R2 & R3 & R4 & R5).
      assert (Hg2 : Good z2) by (eapply (good_zstep z1 (ZRecv 0 false)); [exact E4|exact R1]).
      destruct (IH z2) as (es2 & z3 & vis2 & G1 & G2 & G3).
      { rewrite R2. rewrite <- E5 in Hl. cbn [length] in Hl. lia. }
      { exact Hg2. } { exact R5. } { congruence. }
      exists (es ++ ZRecv 0 false :: es2), z3, (vis ++ [] ++ vis2).
      split; [rewrite forallb_app; cbn [forallb ev_fault_free]; rewrite E1, G1; reflexivity|].
      split; [|exact G3].
      clear - E2 R1 G2. revert z vis E2. induction es as [|e es IHes]; intros z vis E2; cbn [zrun app] in *.
      * inversion E2; subst. cbn [zstep]. rewrite R1, G2. reflexivity.
      * destruct (zstep z e) as [[za va]|]; [|discriminate].
        destruct (zrun za es) as [[zb vb]|] eqn:Er; [|discriminate]. inversion E2; subst.
        rewrite (IHes _ _ Er). rewrite app_assoc. reflexivity.
Qed.

Theorem C14_drain_terminates : forall cfg z, zreach cfg z -> z_dropped z = true -> z_todo z = [] ->
  w_alive (z_w z) = true ->
  exists es z' vis, forallb ev_fault_free es = true /\ zrun z es = Some (z', vis) /\ worker_idle2 z'.
Proof.
  intros cfg z Hr _ Ht Ha. eapply drain_queue; [apply le_n|eapply good_reach; exact Hr|exact Ha|exact Ht].
Qed.

Print Assumptions C14_drain_terminates.
