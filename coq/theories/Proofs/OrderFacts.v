(* Order facts for the lexicographic order on log ids / votes ([pair_cmp], [opair_cmp]
   and their boolean versions), and a few list / sortedness utilities used by the
   refinement proof. *)
From Coq Require Import List NArith Bool Lia Sorted.
From RaftLog Require Import Base.Bytes Model.Types.
Import ListNotations.
Local Open Scope N_scope.

(* ------------------------------------------------------------------ pair_cmp *)
Lemma pair_cmp_spec : forall a b : N * N,
  match pair_cmp a b with
  | Lt => fst a < fst b \/ (fst a = fst b /\ snd a < snd b)
  | Eq => a = b
  | Gt => fst b < fst a \/ (fst a = fst b /\ snd b < snd a)
  end.
Proof.
  intros [a1 a2] [b1 b2]. unfold pair_cmp. cbn [fst snd].
  destruct (N.compare_spec a1 b1) as [H|H|H].
  - destruct (N.compare_spec a2 b2) as [H2|H2|H2].
    + subst. reflexivity.
    + right. split; assumption.
    + right. split; assumption.
  - left. assumption.
  - left. assumption.
Qed.

Lemma pair_cmp_refl : forall a, pair_cmp a a = Eq.
Proof.
  intros [a1 a2]. unfold pair_cmp. cbn [fst snd]. rewrite !N.compare_refl. reflexivity.
Qed.

Lemma pair_cmp_eq : forall a b, pair_cmp a b = Eq -> a = b.
Proof. intros a b H. pose proof (pair_cmp_spec a b) as S. rewrite H in S. exact S. Qed.

Lemma pair_cmp_opp : forall a b, pair_cmp b a = CompOpp (pair_cmp a b).
Proof.
  intros a b. pose proof (pair_cmp_spec a b) as S1. pose proof (pair_cmp_spec b a) as S2.
  destruct (pair_cmp a b), (pair_cmp b a); subst; try reflexivity; exfalso; lia.
Qed.

Lemma pair_cmp_lt_trans : forall a b c, pair_cmp a b = Lt -> pair_cmp b c = Lt -> pair_cmp a c = Lt.
Proof.
  intros a b c H1 H2.
  pose proof (pair_cmp_spec a b) as S1. pose proof (pair_cmp_spec b c) as S2.
  pose proof (pair_cmp_spec a c) as S3. rewrite H1 in S1. rewrite H2 in S2.
  destruct (pair_cmp a c); subst; try reflexivity; exfalso; lia.
Qed.

Lemma pair_cmp_le_lt_trans : forall a b c, pair_cmp a b <> Gt -> pair_cmp b c = Lt -> pair_cmp a c = Lt.
Proof.
  intros a b c H1 H2.
  pose proof (pair_cmp_spec a b) as S1. pose proof (pair_cmp_spec b c) as S2.
  pose proof (pair_cmp_spec a c) as S3. rewrite H2 in S2.
  destruct (pair_cmp a b); try congruence; destruct (pair_cmp a c); subst; try reflexivity; exfalso; lia.
Qed.

Lemma pair_cmp_lt_le_trans : forall a b c, pair_cmp a b = Lt -> pair_cmp b c <> Gt -> pair_cmp a c = Lt.
Proof.
  intros a b c H1 H2.
  pose proof (pair_cmp_spec a b) as S1. pose proof (pair_cmp_spec b c) as S2.
  pose proof (pair_cmp_spec a c) as S3. rewrite H1 in S1.
  destruct (pair_cmp b c); try congruence; destruct (pair_cmp a c); subst; try reflexivity; exfalso; lia.
Qed.

Lemma pair_cmp_le_trans : forall a b c, pair_cmp a b <> Gt -> pair_cmp b c <> Gt -> pair_cmp a c <> Gt.
Proof.
  intros a b c H1 H2.
  pose proof (pair_cmp_spec a b) as S1. pose proof (pair_cmp_spec b c) as S2.
  pose proof (pair_cmp_spec a c) as S3.
  destruct (pair_cmp a b); try congruence; destruct (pair_cmp b c); try congruence;
    destruct (pair_cmp a c); subst; try discriminate; exfalso; lia.
Qed.

Lemma pair_eqb_eq : forall a b, pair_eqb a b = true <-> a = b.
Proof.
  intros [a1 a2] [b1 b2]. unfold pair_eqb. cbn [fst snd].
  rewrite andb_true_iff, !N.eqb_eq. split.
  - intros [H1 H2]. subst. reflexivity.
  - intros H. inversion H. split; reflexivity.
Qed.

Lemma pair_eqb_refl : forall a, pair_eqb a a = true.
Proof. intros a. apply pair_eqb_eq. reflexivity. Qed.

Lemma pair_eqb_neq : forall a b, pair_eqb a b = false <-> a <> b.
Proof.
  intros a b. split.
  - intros H E. apply pair_eqb_eq in E. congruence.
  - intros H. destruct (pair_eqb a b) eqn:E; [|reflexivity]. apply pair_eqb_eq in E. contradiction.
Qed.

Lemma pair_cmp_lt_neq : forall a b, pair_cmp a b = Lt -> a <> b.
Proof. intros a b H E. subst. rewrite pair_cmp_refl in H. discriminate. Qed.

Lemma pair_ltb_lt : forall a b, pair_ltb a b = true <-> pair_cmp a b = Lt.
Proof. intros a b. unfold pair_ltb. destruct (pair_cmp a b); split; congruence. Qed.
Lemma pair_ltb_ge : forall a b, pair_ltb a b = false <-> pair_cmp b a <> Gt.
Proof.
  intros a b. unfold pair_ltb. rewrite (pair_cmp_opp a b).
  destruct (pair_cmp a b); cbn; split; congruence.
Qed.
Lemma pair_leb_le : forall a b, pair_leb a b = true <-> pair_cmp a b <> Gt.
Proof. intros a b. unfold pair_leb. destruct (pair_cmp a b); split; congruence. Qed.
Lemma pair_leb_gt : forall a b, pair_leb a b = false <-> pair_cmp b a = Lt.
Proof.
  intros a b. unfold pair_leb. rewrite (pair_cmp_opp a b).
  destruct (pair_cmp a b); cbn; split; congruence.
Qed.

(* ------------------------------------------------------------------ opair_cmp *)
Lemma opair_cmp_refl : forall a, opair_cmp a a = Eq.
Proof. intros [a|]; cbn; [apply pair_cmp_refl|reflexivity]. Qed.

Lemma opair_cmp_eq : forall a b, opair_cmp a b = Eq -> a = b.
Proof.
  intros [a|] [b|] H; cbn in H; try discriminate; [|reflexivity].
  apply pair_cmp_eq in H. subst. reflexivity.
Qed.

Lemma opair_cmp_opp : forall a b, opair_cmp b a = CompOpp (opair_cmp a b).
Proof. intros [a|] [b|]; cbn; try reflexivity. apply pair_cmp_opp. Qed.

Lemma opair_lt_trans : forall a b c, opair_cmp a b = Lt -> opair_cmp b c = Lt -> opair_cmp a c = Lt.
Proof.
  intros [a|] [b|] [c|] H1 H2; cbn in *; try discriminate; try reflexivity.
  eapply pair_cmp_lt_trans; eassumption.
Qed.
Lemma opair_le_lt_trans : forall a b c, opair_cmp a b <> Gt -> opair_cmp b c = Lt -> opair_cmp a c = Lt.
Proof.
  intros [a|] [b|] [c|] H1 H2; cbn in *; try discriminate; try reflexivity; try congruence.
  eapply pair_cmp_le_lt_trans; eassumption.
Qed.
Lemma opair_lt_le_trans : forall a b c, opair_cmp a b = Lt -> opair_cmp b c <> Gt -> opair_cmp a c = Lt.
Proof.
  intros [a|] [b|] [c|] H1 H2; cbn in *; try discriminate; try reflexivity; try congruence.
  eapply pair_cmp_lt_le_trans; eassumption.
Qed.
Lemma opair_le_trans : forall a b c, opair_cmp a b <> Gt -> opair_cmp b c <> Gt -> opair_cmp a c <> Gt.
Proof.
  intros [a|] [b|] [c|] H1 H2; cbn in *; try discriminate; try congruence.
  eapply pair_cmp_le_trans; eassumption.
Qed.

Lemma opair_lt_le : forall a b, opair_cmp a b = Lt -> opair_cmp a b <> Gt.
Proof. intros a b H. rewrite H. discriminate. Qed.
Lemma opair_eq_le : forall a, opair_cmp a a <> Gt.
Proof. intros a. rewrite opair_cmp_refl. discriminate. Qed.
Lemma opair_lt_not_ge : forall a b, opair_cmp a b = Lt -> opair_cmp b a <> Gt -> False.
Proof. intros a b H1 H2. rewrite (opair_cmp_opp a b), H1 in H2. apply H2. reflexivity. Qed.
Lemma opair_le_antisym : forall a b, opair_cmp a b <> Gt -> opair_cmp b a <> Gt -> a = b.
Proof.
  intros a b H1 H2. rewrite (opair_cmp_opp a b) in H2.
  destruct (opair_cmp a b) eqn:E; try congruence.
  - apply opair_cmp_eq. exact E.
  - exfalso. apply H2. reflexivity.
Qed.
Lemma opair_le_None : forall a, opair_cmp a None <> Gt -> a = None.
Proof. intros [a|] H; [exfalso; apply H|]; reflexivity. Qed.
Lemma opair_None_le : forall a, opair_cmp None a <> Gt.
Proof. intros [a|]; cbn; discriminate. Qed.

Lemma opair_ltb_lt : forall a b, opair_ltb a b = true <-> opair_cmp a b = Lt.
Proof. intros a b. unfold opair_ltb. destruct (opair_cmp a b); split; congruence. Qed.
Lemma opair_ltb_ge : forall a b, opair_ltb a b = false <-> opair_cmp b a <> Gt.
Proof.
  intros a b. unfold opair_ltb. rewrite (opair_cmp_opp a b).
  destruct (opair_cmp a b); cbn; split; congruence.
Qed.
Lemma opair_leb_le : forall a b, opair_leb a b = true <-> opair_cmp a b <> Gt.
Proof. intros a b. unfold opair_leb. destruct (opair_cmp a b); split; congruence. Qed.
Lemma opair_leb_gt : forall a b, opair_leb a b = false <-> opair_cmp b a = Lt.
Proof.
  intros a b. unfold opair_leb. rewrite (opair_cmp_opp a b).
  destruct (opair_cmp a b); cbn; split; congruence.
Qed.
Lemma opair_leb_negb_ltb : forall a b, opair_leb a b = negb (opair_ltb b a).
Proof.
  intros a b. unfold opair_leb, opair_ltb. rewrite (opair_cmp_opp a b).
  destruct (opair_cmp a b); reflexivity.
Qed.
Lemma opair_ltb_negb_leb : forall a b, opair_ltb a b = negb (opair_leb b a).
Proof. intros a b. rewrite opair_leb_negb_ltb, negb_involutive. reflexivity. Qed.

(* the [min] computed by truncate in RaftLogState::apply *)
Lemma opair_min_le : forall (o l : option (N * N)),
  opair_cmp o l <> Gt -> (if opair_ltb o l then o else l) = o.
Proof.
  intros o l H. destruct (opair_ltb o l) eqn:E; [reflexivity|].
  apply opair_ltb_ge in E. apply opair_le_antisym; assumption.
Qed.

(* index component of a strict / weak comparison with equal-or-greater term is not needed;
   what the refinement needs is only: *)
Lemma next_index_Some : forall l, next_index (Some l) = lid_index l + 1.
Proof. reflexivity. Qed.

(* ------------------------------------------------------------------ lists *)
Section ListFacts.
  Context {A : Type}.

  Lemma filter_all_true : forall (f : A -> bool) l,
    (forall x, In x l -> f x = true) -> filter f l = l.
  Proof.
    intros f l. induction l as [|a l IH]; intros H; cbn; [reflexivity|].
    rewrite (H a (or_introl eq_refl)). f_equal. apply IH. intros x Hx. apply H. right. exact Hx.
  Qed.

  Lemma filter_all_false : forall (f : A -> bool) l,
    (forall x, In x l -> f x = false) -> filter f l = [].
  Proof.
    intros f l. induction l as [|a l IH]; intros H; cbn; [reflexivity|].
    rewrite (H a (or_introl eq_refl)). apply IH. intros x Hx. apply H. right. exact Hx.
  Qed.

  Lemma filter_rev' : forall (f : A -> bool) l, filter f (rev l) = rev (filter f l).
  Proof.
    intros f l. induction l as [|a l IH]; cbn; [reflexivity|].
    rewrite filter_app, IH. cbn. destruct (f a); cbn; [reflexivity|]. apply app_nil_r.
  Qed.

  Lemma filter_length_le' : forall (f : A -> bool) l, (length (filter f l) <= length l)%nat.
  Proof.
    intros f l. induction l as [|a l IH]; cbn; [lia|]. destruct (f a); cbn; lia.
  Qed.

  Variable Rel : A -> A -> Prop.

  Lemma SS_app_inv : forall l1 l2, StronglySorted Rel (l1 ++ l2) ->
    StronglySorted Rel l1 /\ StronglySorted Rel l2 /\ (forall a b, In a l1 -> In b l2 -> Rel a b).
  Proof.
    intros l1. induction l1 as [|x l1 IH]; intros l2 H; cbn in *.
    - split; [constructor|]. split; [exact H|]. intros a b [].
    - apply StronglySorted_inv in H. destruct H as [H1 H2].
      destruct (IH _ H1) as [S1 [S2 S3]].
      rewrite Forall_forall in H2.
      split; [|split].
      + constructor; [exact S1|]. apply Forall_forall. intros y Hy. apply H2. apply in_or_app. left. exact Hy.
      + exact S2.
      + intros a b [Ha|Ha] Hb.
        * subst. apply H2. apply in_or_app. right. exact Hb.
        * apply S3; assumption.
  Qed.

  Lemma SS_app_intro : forall l1 l2, StronglySorted Rel l1 -> StronglySorted Rel l2 ->
    (forall a b, In a l1 -> In b l2 -> Rel a b) -> StronglySorted Rel (l1 ++ l2).
  Proof.
    intros l1. induction l1 as [|x l1 IH]; intros l2 S1 S2 S3; cbn; [exact S2|].
    apply StronglySorted_inv in S1. destruct S1 as [S1 F1]. rewrite Forall_forall in F1.
    constructor.
    - apply IH; [exact S1|exact S2|]. intros a b Ha Hb. apply S3; [right; exact Ha|exact Hb].
    - apply Forall_forall. intros y Hy. apply in_app_or in Hy. destruct Hy as [Hy|Hy].
      + apply F1. exact Hy.
      + apply S3; [left; reflexivity|exact Hy].
  Qed.

  Lemma SS_single : forall x, StronglySorted Rel [x].
  Proof. intros x. constructor; constructor. Qed.

  Lemma SS_filter : forall (f : A -> bool) l, StronglySorted Rel l -> StronglySorted Rel (filter f l).
  Proof.
    intros f l. induction l as [|a l IH]; intros S; cbn; [constructor|].
    apply StronglySorted_inv in S. destruct S as [S F]. rewrite Forall_forall in F.
    destruct (f a).
    - constructor; [apply IH; exact S|]. apply Forall_forall. intros y Hy.
      apply filter_In in Hy. apply F. apply Hy.
    - apply IH. exact S.
  Qed.

  (* in a strongly sorted list for an irreflexive-on-the-list relation, the position
     determines the relation *)
  Lemma SS_split_rel : forall l1 x l2, StronglySorted Rel (l1 ++ x :: l2) ->
    (forall a, In a l1 -> Rel a x) /\ (forall b, In b l2 -> Rel x b).
  Proof.
    intros l1 x l2 S. apply SS_app_inv in S. destruct S as [_ [S2 S3]].
    apply StronglySorted_inv in S2. destruct S2 as [_ F]. rewrite Forall_forall in F.
    split.
    - intros a Ha. apply S3; [exact Ha|left; reflexivity].
    - exact F.
  Qed.
End ListFacts.

(* filters of two lists with equal images *)
Lemma map_filter_rel : forall {A B C : Type} (P : C -> bool) (f : A -> C) (g : B -> C) l l',
  map f l = map g l' ->
  map f (filter (fun x => P (f x)) l) = map g (filter (fun y => P (g y)) l').
Proof.
  intros A B C P f g l. induction l as [|a l IH]; intros [|b l'] H; cbn in *; try discriminate.
  - reflexivity.
  - injection H as H1 H2. rewrite <- H1. destruct (P (f a)); cbn; [f_equal; [exact H1|]|]; apply IH; exact H2.
Qed.

Lemma map_eq_in_l : forall {A B C : Type} (f : A -> C) (g : B -> C) l l' a,
  map f l = map g l' -> In a l -> exists b, In b l' /\ g b = f a.
Proof.
  intros A B C f g l l' a H Ha.
  assert (Hi : In (f a) (map g l')) by (rewrite <- H; apply in_map; exact Ha).
  apply in_map_iff in Hi. destruct Hi as [b [Hb1 Hb2]]. exists b. split; assumption.
Qed.
