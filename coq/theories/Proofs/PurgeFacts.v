(* Properties C08 (chunk files are deleted oldest-first, only after the purge is
   requested, and all requested removals happen) and C14 (a dropped store whose worker
   has finished is quiescent) over the L2 system of Model/Sys.v.

   Part 1 (this file): pop_obsolete, the bookkeeping invariant [cinv] that ties the
   files present in the directory to the removal requests in flight
   (worker, queue, pending effects, k_removed) and to the caller's chunk list,
   C08_oldest_first, C08_liveness, C14_quiescent, C14_drain_terminates.

   Depends on JournalDisk.v / JournalChunk.v (directory and chunk bookkeeping facts). *)
From Coq Require Import List NArith Lia Bool Arith Sorting.Sorted.
From Coq.Strings Require Import Byte.
From RaftLog Require Import Base.Bytes Model.Types Model.Codec Model.Cache Model.Core
  Model.Recover Model.Run Model.Sys Spec.Durable.
From RaftLog Require Import Proofs.CodecFacts Proofs.CacheFacts Proofs.JournalDisk Proofs.JournalChunk.
Import ListNotations.
Local Open Scope N_scope.
Local Arguments N.add : simpl never.
Local Arguments N.sub : simpl never.
Local Arguments N.mul : simpl never.
Local Arguments N.eqb : simpl never.
Local Arguments N.ltb : simpl never.
Local Arguments N.leb : simpl never.
Local Arguments N.compare : simpl never.
Local Arguments N.of_nat : simpl never.
Local Arguments enc_record : simpl never.

(* ================================================================== pop_obsolete *)
Definition cid (c : closed) : N := ck_id (cl_chunk c).

(* the exact shape: a prefix is popped, every popped chunk closed at or below [upto],
   the first kept chunk closed above it *)
Lemma pop_obsolete_split upto cl ids rest : pop_obsolete upto cl = (ids, rest) ->
  exists popped, cl = popped ++ rest /\ ids = map cid popped /\
    Forall (fun c => opair_leb (r_last (cl_state c)) (Some upto) = true) popped /\
    match rest with c :: _ => opair_ltb (Some upto) (r_last (cl_state c)) = true | [] => True end.
Proof.
  revert ids rest. induction cl as [|c cl IH]; intros ids rest H; cbn [pop_obsolete] in H.
  - inversion H; subst. exists []. repeat split; constructor.
  - destruct (opair_ltb (Some upto) (r_last (cl_state c))) eqn:E.
    + inversion H; subst. exists []. repeat split; [constructor|exact E].
    + destruct (pop_obsolete upto cl) as [ids' rest'] eqn:E'. inversion H; subst.
      destruct (IH _ _ eq_refl) as (popped & E1 & E2 & E3 & E4).
      exists (c :: popped). subst. repeat split; [|exact E4].
      constructor; [|exact E3]. apply opair_ltb_false_iff. exact E.
Qed.

(* The statement asked for quantifies over arbitrary lists of closed chunks; with two
   chunks of the same id it is false (see C08_pop_obsolete_spec_refuted). The added
   hypothesis: the chunk ids of the list are pairwise different (k_closed is sorted
   strictly by chunk id in every reachable state, see [ci_core]).

Theorem C08_pop_obsolete_spec : forall upto cl ids rest, pop_obsolete upto cl = (ids, rest) ->
  map (fun c => ck_id (cl_chunk c)) cl = ids ++ map (fun c => ck_id (cl_chunk c)) rest /\
  (forall c, In c cl -> In (ck_id (cl_chunk c)) ids -> opair_leb (r_last (cl_state c)) (Some upto) = true) /\
  (match rest with c :: _ => opair_ltb (Some upto) (r_last (cl_state c)) = true | [] => True end). *)
Lemma nodup_app_disj {A} (l1 l2 : list A) x : NoDup (l1 ++ l2) -> In x l1 -> In x l2 -> False.
Proof.
  induction l1 as [|a l1 IH]; cbn [app]; intros ND I1 I2; [contradiction|].
  inversion ND as [|? ? Hn ND']; subst. destruct I1 as [E|I1].
  - subst a. apply Hn. apply in_or_app. right. exact I2.
  - apply IH; assumption.
Qed.

Theorem C08_pop_obsolete_spec_partial : forall upto cl ids rest,
  NoDup (map (fun c => ck_id (cl_chunk c)) cl) ->
  pop_obsolete upto cl = (ids, rest) ->
  map (fun c => ck_id (cl_chunk c)) cl = ids ++ map (fun c => ck_id (cl_chunk c)) rest /\
  (forall c, In c cl -> In (ck_id (cl_chunk c)) ids -> opair_leb (r_last (cl_state c)) (Some upto) = true) /\
  (match rest with c :: _ => opair_ltb (Some upto) (r_last (cl_state c)) = true | [] => True end).
Proof.
  intros upto cl ids rest ND H.
  destruct (pop_obsolete_split _ _ _ _ H) as (popped & E1 & E2 & E3 & E4). subst cl ids.
  split; [apply map_app|]. split; [|exact E4].
  intros c Hc Hid. apply in_app_or in Hc as [Hc|Hc].
  - rewrite Forall_forall in E3. apply E3. exact Hc.
  - exfalso. rewrite map_app in ND. eapply nodup_app_disj; [exact ND|exact Hid|].
    apply (in_map (fun c => ck_id (cl_chunk c))). exact Hc.
Qed.

Definition refute_c1 : closed := mkClosed (mkChunk 5 []) (mkRState None (Some (1, 1)) None None None) false.
Definition refute_c2 : closed := mkClosed (mkChunk 5 []) (mkRState None (Some (2, 2)) None None None) false.

Theorem C08_pop_obsolete_spec_refuted : exists upto cl ids rest,
  pop_obsolete upto cl = (ids, rest) /\
  ~ (map (fun c => ck_id (cl_chunk c)) cl = ids ++ map (fun c => ck_id (cl_chunk c)) rest /\
     (forall c, In c cl -> In (ck_id (cl_chunk c)) ids -> opair_leb (r_last (cl_state c)) (Some upto) = true) /\
     (match rest with c :: _ => opair_ltb (Some upto) (r_last (cl_state c)) = true | [] => True end)).
Proof.
  exists (1, 1), [refute_c1; refute_c2], [5], [refute_c2]. split; [reflexivity|].
  intros (_ & H & _). specialize (H refute_c2 (or_intror (or_introl eq_refl)) (or_introl eq_refl)).
  vm_compute in H. discriminate.
Qed.

(* ================================================================== lists *)
Lemma ss_glue (a b c : list N) : StronglySorted N.lt (a ++ b) -> StronglySorted N.lt (b ++ c) ->
  b <> [] -> StronglySorted N.lt (a ++ b ++ c).
Proof.
  intros H1 H2 Hb. apply ss_app_inv in H1 as (Ha & _ & Hab).
  pose proof (ss_app_inv _ _ H2) as (_ & _ & Hbc).
  apply ss_app; [exact Ha|exact H2|].
  intros x y Hx Hy. apply in_app_or in Hy as [Hy|Hy]; [apply Hab; assumption|].
  destruct b as [|b0 b]; [congruence|].
  apply N.lt_trans with b0; [apply Hab; [assumption|left; reflexivity]|].
  apply Hbc; [left; reflexivity|assumption].
Qed.

Lemma ss_suffix (a b : list N) : StronglySorted N.lt (a ++ b) -> StronglySorted N.lt b.
Proof. intros H. apply ss_app_inv in H as (_ & H & _). exact H. Qed.

Lemma ss_prefix (a b : list N) : StronglySorted N.lt (a ++ b) -> StronglySorted N.lt a.
Proof. intros H. apply ss_app_inv in H as (H & _ & _). exact H. Qed.

Lemma ss_disj (a b : list N) x : StronglySorted N.lt (a ++ b) -> In x a -> In x b -> False.
Proof. intros H Ia Ib. apply ss_app_inv in H as (_ & _ & H). specialize (H _ _ Ia Ib). lia. Qed.

Lemma ids_remove_head i d l : ids d = i :: l -> StronglySorted N.lt (i :: l) ->
  ids (disk_remove i d) = l.
Proof.
  intros E S. rewrite ids_remove, E. cbn [filter]. rewrite N.eqb_refl. cbn [negb].
  apply ss_inv in S as [_ F]. clear E. induction l as [|a l IH]; [reflexivity|].
  inversion F as [|? ? Ha F']; subst. cbn [filter].
  destruct (N.eqb_spec i a) as [E|E]; [lia|]. cbn [negb]. f_equal. apply IH. exact F'.
Qed.

(* ================================================================== caller side *)
Definition X (effs : list eff) : list xeff := flat_map expand_eff effs.

Definition rm_of (r : wreq) : list N := match r with WRemove ids => ids | _ => [] end.
Definition queue_rm (q : list wreq) : list N := flat_map rm_of q.
Definition xrm_of (x : xeff) : list N := match x with XSend r => rm_of r | _ => [] end.
Definition todo_rm (t : list xeff) : list N := flat_map xrm_of t.
Definition xcr_of (x : xeff) : list N := match x with XCreate id => [id] | _ => [] end.
Definition todo_cr (t : list xeff) : list N := flat_map xcr_of t.

Definition tail_ids (k : core) : list N := map cid (k_closed k) ++ [ck_id (k_open k)].

Definition core_ok (k : core) : Prop :=
  ck_id (k_open k) < ck_end (k_open k) /\ StronglySorted N.lt (tail_ids k).

Lemma X_app a b : X (a ++ b) = X a ++ X b.
Proof. apply flat_map_app. Qed.
Lemma todo_cr_app a b : todo_cr (a ++ b) = todo_cr a ++ todo_cr b.
Proof. apply flat_map_app. Qed.
Lemma todo_rm_app a b : todo_rm (a ++ b) = todo_rm a ++ todo_rm b.
Proof. apply flat_map_app. Qed.
Lemma queue_rm_app a b : queue_rm (a ++ b) = queue_rm a ++ queue_rm b.
Proof. apply flat_map_app. Qed.

Lemma tail_ids_ne k : tail_ids k <> [].
Proof. unfold tail_ids. intros H. apply app_eq_nil in H as [_ H]. discriminate. Qed.

(* one caller step that does not purge: new chunk files are appended to the chunk list *)
Definition wstep_ok (k k' : core) (effs : list eff) : Prop :=
  core_ok k' /\ k_removed k' = k_removed k /\
  tail_ids k' = tail_ids k ++ todo_cr (X effs) /\ todo_rm (X effs) = [].

Lemma wstep_ok_refl k : core_ok k -> wstep_ok k k [].
Proof. intros H. repeat split; try apply H. cbn. rewrite app_nil_r. reflexivity. Qed.

Lemma wstep_ok_trans k1 k2 k3 e1 e2 : wstep_ok k1 k2 e1 -> wstep_ok k2 k3 e2 -> wstep_ok k1 k3 (e1 ++ e2).
Proof.
  intros (_ & R1 & T1 & M1) (C2 & R2 & T2 & M2).
  split; [exact C2|]. split; [congruence|].
  rewrite X_app, todo_cr_app, todo_rm_app, M1, M2, T2, T1, app_assoc. split; reflexivity.
Qed.

Lemma rotate_effs_cr k : todo_cr (X (rotate_effs k)) = [ck_end (k_open k)].
Proof. unfold rotate_effs. destruct (k_pending k); reflexivity. Qed.
Lemma rotate_effs_rm k : todo_rm (X (rotate_effs k)) = [].
Proof. unfold rotate_effs. destruct (k_pending k); reflexivity. Qed.

Lemma tail_ids_lt k x : StronglySorted N.lt (tail_ids k) -> In x (map cid (k_closed k)) -> x < ck_id (k_open k).
Proof.
  intros S I. apply ss_app_inv in S as (_ & _ & S). apply S; [exact I|left; reflexivity].
Qed.

Lemma blen_enc_pos r : 0 < blen (enc_record r).
Proof. pose proof (rec_size_pos r) as H. rewrite rec_size_blen in H. exact H. Qed.

Lemma rotated_ok k : core_ok k -> wstep_ok k (rotated k) (rotate_effs k).
Proof.
  intros (Hlt & S).
  assert (Hcl : k_closed (rotated k) = k_closed k ++ [mkClosed (k_open k) (m_rs (k_sm k)) false]).
  { unfold rotated. cbn [k_closed]. apply closed_insert_last. rewrite Forall_forall. intros c Hc.
    cbn [cl_chunk]. apply (tail_ids_lt k); [exact S|]. apply in_map_iff. exists c. auto. }
  assert (Ht : tail_ids (rotated k) = tail_ids k ++ [ck_end (k_open k)]).
  { unfold tail_ids at 1. rewrite Hcl, map_app. cbn [map]. unfold rotated. cbn [k_open].
    rewrite ck_id_push. cbn [ck_id]. unfold tail_ids, cid. cbn [cl_chunk]. rewrite <- app_assoc. reflexivity. }
  split; [|split; [reflexivity|split; [rewrite rotate_effs_cr; exact Ht|apply rotate_effs_rm]]].
  split.
  - unfold rotated. cbn [k_open]. rewrite ck_id_push, ck_end_push. cbn [ck_id].
    replace (ck_end (mkChunk (ck_end (k_open k)) [])) with (ck_end (k_open k)) by reflexivity.
    pose proof (blen_enc_pos (RState (m_rs (k_sm k)))). lia.
  - rewrite Ht. apply ss_app; [exact S|repeat constructor|].
    intros a b Ia [Eb|[]]. subst b. unfold tail_ids in Ia. apply in_app_or in Ia as [Ia|[Ea|[]]].
    + pose proof (tail_ids_lt k _ S Ia). lia.
    + subst a. exact Hlt.
Qed.

Lemma appended_ok k r sm1 : core_ok k -> core_ok (appended k r sm1) /\
  tail_ids (appended k r sm1) = tail_ids k /\ k_removed (appended k r sm1) = k_removed k.
Proof.
  intros (Hlt & S). unfold core_ok, tail_ids, appended. cbn [k_open k_closed k_removed].
  rewrite ck_id_push, ck_end_push. repeat split; [|exact S].
  pose proof (rec_size_pos r). lia.
Qed.

Lemma try_close_ok k c n k' effs : k_open k = ck_push c n -> core_ok k ->
  try_close k = Ret (k', effs) -> wstep_ok k k' effs.
Proof.
  intros Ho Hk H. eapply try_close_cases in H as [(_ & E1 & E2)|(_ & E1 & E2)]; [| |exact Ho]; subst.
  - apply wstep_ok_refl. exact Hk.
  - apply rotated_ok. exact Hk.
Qed.

Lemma append_and_apply_ok k r k' w effs : core_ok k ->
  append_and_apply k r = Ret (k', w, effs) -> wstep_ok k k' effs.
Proof.
  intros Hk H. apply append_and_apply_cases in H as [(E1 & E2 & _)|(sm1 & _ & _ & _ & Ht)].
  - subst. apply wstep_ok_refl. exact Hk.
  - destruct (appended_ok k r sm1 Hk) as (Ha & Ta & Ra).
    eapply try_close_ok in Ht; [|reflexivity|exact Ha].
    destruct Ht as (C & R & T & M). repeat split; try apply C; congruence.
Qed.

(* with a single record at most one rotation: the ids of the closed list afterwards are
   a prefix of the old chunk list *)
Lemma append_and_apply_closed k r k' w effs : core_ok k ->
  append_and_apply k r = Ret (k', w, effs) ->
  exists m, tail_ids k = map cid (k_closed k') ++ m /\ m ++ todo_cr (X effs) = [ck_id (k_open k')].
Proof.
  intros Hk H. apply append_and_apply_cases in H as [(E1 & E2 & _)|(sm1 & _ & _ & _ & Ht)].
  - subst. exists [ck_id (k_open k)]. split; reflexivity.
  - destruct (appended_ok k r sm1 Hk) as (Ha & Ta & Ra).
    eapply try_close_cases in Ht as [(_ & E1 & E2)|(_ & E1 & E2)]; [| |reflexivity]; subst.
    + exists [ck_id (k_open k)]. split; [reflexivity|]. unfold appended. cbn [k_open]. rewrite ck_id_push. reflexivity.
    + exists []. destruct (rotated_ok _ Ha) as (_ & _ & T & _). rewrite rotate_effs_cr in *.
      rewrite Ta in T. unfold tail_ids at 1 in T. apply app_inj_tail in T as [T1 T2].
      rewrite app_nil_r. split; [symmetry; exact T1|]. cbn [app]. rewrite T2. reflexivity.
Qed.

Lemma do_append_ok es : forall k acc effs0 k' w effs', core_ok k ->
  do_append k es acc effs0 = Ret (k', w, effs') ->
  exists ef, effs' = effs0 ++ ef /\ wstep_ok k k' ef.
Proof.
  induction es as [|[id p] es IH]; intros k acc effs0 k' w effs' Hk H; cbn [do_append] in H.
  - inversion H; subst. exists []. rewrite app_nil_r. split; [reflexivity|]. apply wstep_ok_refl. exact Hk.
  - destruct (append_and_apply k (RAppend id p)) as [[[k1 w1] ef]|] eqn:E; [|discriminate].
    pose proof (append_and_apply_ok _ _ _ _ _ Hk E) as H1.
    destruct w1 as [o l|e].
    + apply IH in H; [|apply H1]. destruct H as (ef2 & E2 & H2). exists (ef ++ ef2).
      split; [rewrite E2, app_assoc; reflexivity|]. eapply wstep_ok_trans; eassumption.
    + inversion H; subst. exists ef. split; [reflexivity|exact H1].
Qed.

(* the effect of any write call on the chunk bookkeeping *)
Definition write_ok (k k' : core) (effs : list eff) : Prop :=
  exists ids keep, k_removed k' = k_removed k ++ ids /\ tail_ids k = ids ++ keep /\
    tail_ids k' = keep ++ todo_cr (X effs) /\ todo_rm (X effs) = [] /\ core_ok k' /\
    StronglySorted N.lt (tail_ids k ++ todo_cr (X effs)).

Lemma wstep_write_ok k k' effs : wstep_ok k k' effs -> write_ok k k' effs.
Proof.
  intros (C & R & T & M). exists [], (tail_ids k). rewrite app_nil_r.
  repeat split; try assumption; try apply C. rewrite <- T. apply C.
Qed.

Lemma do_write_ok k w k' r effs : core_ok k -> do_write k w = Ret (k', r, effs) -> write_ok k k' effs.
Proof.
  intros Hk H. destruct w as [v|es|i|upto|id|u|st]; cbn [do_write] in H.
  - apply wstep_write_ok. eapply append_and_apply_ok; eassumption.
  - destruct (wal_last_segment k) as [w0|]; [|discriminate].
    apply do_append_ok in H; [|exact Hk]. destruct H as (ef & E & H). cbn [app] in E. subst ef.
    apply wstep_write_ok. exact H.
  - destruct (N.eqb i (next_index (r_purged (m_rs (k_sm k))))).
    { apply wstep_write_ok. eapply append_and_apply_ok; eassumption. }
    destruct (N.eqb i 0).
    { inversion H; subst. apply wstep_write_ok, wstep_ok_refl. exact Hk. }
    destruct (lm_get_id k (i - 1)).
    { apply wstep_write_ok. eapply append_and_apply_ok; eassumption. }
    inversion H; subst. apply wstep_write_ok, wstep_ok_refl. exact Hk.
  - destruct (N.ltb (lid_index upto) (next_index (r_purged (m_rs (k_sm k))))).
    { destruct (wal_last_segment k); [|discriminate]. inversion H; subst.
      apply wstep_write_ok, wstep_ok_refl. exact Hk. }
    destruct (append_and_apply k (RPurge upto)) as [[[k1 w1] ef]|] eqn:E; [|discriminate].
    pose proof (append_and_apply_ok _ _ _ _ _ Hk E) as H1.
    destruct w1 as [o l|e].
    + destruct (pop_obsolete upto (k_closed k1)) as [ids rest] eqn:Ep. inversion H; subst. clear H.
      destruct (pop_obsolete_split _ _ _ _ Ep) as (popped & E1 & E2 & _ & _).
      destruct (append_and_apply_closed _ _ _ _ _ Hk E) as (m & M1 & M2).
      destruct H1 as (C & R & T & M).
      assert (Sall : StronglySorted N.lt (tail_ids k ++ todo_cr (X effs))) by (rewrite <- T; apply C).
      exists ids, (map cid rest ++ m). cbn [k_removed].
      split; [rewrite R; reflexivity|].
      split; [rewrite M1, E1, map_app, <- E2, <- app_assoc; reflexivity|].
      split; [unfold tail_ids; cbn [k_closed k_open]; rewrite <- app_assoc, M2; reflexivity|].
      split; [exact M|]. split; [|exact Sall].
      split; [apply C|]. unfold tail_ids. cbn [k_closed k_open].
      destruct C as [_ C]. unfold tail_ids in C. rewrite E1, map_app, <- app_assoc in C.
      apply ss_suffix in C. exact C.
    + inversion H; subst. apply wstep_write_ok. exact H1.
  - apply wstep_write_ok. eapply append_and_apply_ok; eassumption.
  - apply wstep_write_ok. eapply append_and_apply_ok; eassumption.
  - apply wstep_write_ok. eapply append_and_apply_ok; eassumption.
Qed.

Lemma do_flush_ok k cb k' effs : core_ok k -> do_flush k cb = (k', effs) ->
  core_ok k' /\ tail_ids k' = tail_ids k /\ k_removed k' = [] /\
  todo_cr (X effs) = [] /\ todo_rm (X effs) = k_removed k.
Proof.
  intros Hk H. unfold do_flush in H. inversion H; subst. clear H.
  split; [exact Hk|]. split; [reflexivity|]. split; [reflexivity|].
  destruct (k_removed k) as [|a l]; cbn; [split; reflexivity|]. rewrite app_nil_r. split; reflexivity.
Qed.

(* ================================================================== worker side *)
Definition batch_rm (b : batch) : list N :=
  match b_pos b with
  | BUnlink rem => rem
  | BDone => []
  | _ => match b_nf b with Some r => rm_of r | None => [] end
  end.
(* the removals the worker has accepted and not carried out yet, in execution order *)
Definition w_rm (w : worker) : list N :=
  w_postponed w ++ match w_batch w with Some b => batch_rm b | None => [] end.

Definition early_post (p : wpos) : bool :=
  match p with BCallbacks _ | BPostponed => true | _ => false end.

(* postponed removals exist only while a failed sync is outstanding (or the batch is
   about to carry them out); RemoveChunks is executed only without an outstanding failure *)
Definition wflags (w : worker) : Prop :=
  w_alive w = true ->
  match w_batch w with
  | Some b => (forall rem, b_pos b = BUnlink rem -> w_sync_failed w = false) /\
              (early_post (b_pos b) = true \/ w_postponed w = [] \/ w_sync_failed w = true)
  | None => w_postponed w = [] \/ w_sync_failed w = true
  end.

Ltac zproj := cbn [z_core z_todo z_disk z_queue z_w z_acks z_dropped z_ghost
                   w_files w_alive w_batch w_sync_failed w_postponed
                   b_writes b_nf b_pos b_ok
                   set_core set_todo set_disk set_queue set_w add_ack set_ghost
                   w_set_batch w_set_pos w_die
                   g_writes g_flushed g_removals g_created] in *.

Ltac wk_fin :=
  match goal with H : Some _ = Some _ |- _ => inversion H; subst; clear H end; zproj;
  unfold wflags, w_rm, batch_rm; zproj;
  refine (conj eq_refl (conj eq_refl (conj eq_refl (conj eq_refl (conj _ (conj _ (conj eq_refl _))))))).
Ltac flags_late F2 :=
  intros _; split; [intros ? ?; discriminate
                   |cbn [early_post] in *; destruct F2 as [F2|F2]; [discriminate|right; exact F2]].
Ltac flags_dead := intros ?; discriminate.
Ltac rm_same := left; split; [reflexivity|intros _; reflexivity].

Lemma core_eqj_ok k k' : core_eqj k k' -> core_ok k -> core_ok k' /\ tail_ids k' = tail_ids k /\ k_removed k' = k_removed k.
Proof.
  intros (_ & Eo & _ & Ec & Er & _) (H1 & H2). unfold core_ok, tail_ids. rewrite Eo, Ec, Er.
  repeat split; assumption.
Qed.

(* classification of a worker action *)
Lemma zwork_cases z ok z' v : zwork z ok = Some (z', v) -> dsorted (z_disk z) -> wflags (z_w z) ->
  z_todo z' = z_todo z /\ z_queue z' = z_queue z /\ z_ghost z' = z_ghost z /\
  z_dropped z' = z_dropped z /\ core_eqj (z_core z) (z_core z') /\ wflags (z_w z') /\
  w_alive (z_w z) = true /\
  ((ids (z_disk z') = ids (z_disk z) /\ (w_alive (z_w z') = true -> w_rm (z_w z') = w_rm (z_w z))) \/
   (exists id, w_rm (z_w z) = id :: w_rm (z_w z') /\ z_disk z' = disk_remove id (z_disk z) /\
               w_alive (z_w z') = true /\ ok = true /\ w_sync_failed (z_w z) = false)).
Proof.
  intros H Sd F. unfold zwork in H.
  destruct z as [k t d q w a dr g]. zproj.
  destruct w as [wf al ba sf pp]. zproj.
  destruct al; [|discriminate]. destruct ba as [b|]; [|discriminate].
  destruct b as [ws nf pos bok]. zproj.
  unfold wflags in F. zproj. specialize (F eq_refl). destruct F as [F1 F2].
  destruct pos as [i| | | |i| | |rem|].
  - (* BWrite *)
    destruct (nth_error ws i) as [ww|].
    + destruct (ww_data ww) as [|x data].
      * wk_fin; [apply core_eqj_refl|flags_late F2|rm_same].
      * destruct (newest _) as [f|]; [|discriminate]. destruct ok.
        -- wk_fin; [apply core_eqj_refl|flags_late F2|].
           left. split; [apply ids_append; exact Sd|intros _; reflexivity].
        -- wk_fin; [apply core_eqj_refl|flags_dead|]. left. split; [reflexivity|flags_dead].
    + wk_fin; [apply core_eqj_refl|flags_late F2|rm_same].
  - (* BSyncOld *)
    destruct wf as [|f [|f2 rest]].
    + wk_fin; [apply core_eqj_refl|flags_late F2|rm_same].
    + wk_fin; [apply core_eqj_refl|flags_late F2|rm_same].
    + destruct ok.
      * wk_fin; [apply core_eqj_refl|flags_late F2|].
        left. split; [apply ids_sync; exact Sd|intros _; reflexivity].
      * wk_fin; [apply core_eqj_refl| |rm_same].
        intros _. split; [intros ? ?; discriminate|left; reflexivity].
  - (* BSetEvict *)
    destruct wf as [|f rest]; [discriminate|].
    wk_fin; [apply core_eqj_cache|flags_late F2|rm_same].
  - (* BSyncNew *)
    destruct wf as [|f rest]; [discriminate|]. destruct ok.
    + wk_fin; [apply core_eqj_refl| |].
      * intros _. split; [intros ? ?; discriminate|left; reflexivity].
      * left. split; [apply ids_sync; exact Sd|intros _; reflexivity].
    + wk_fin; [apply core_eqj_refl| |rm_same].
      intros _. split; [intros ? ?; discriminate|left; reflexivity].
  - (* BCallbacks *)
    destruct (nth_error ws i) as [ww|].
    + destruct (ww_cb ww) as [c|].
      * wk_fin; [apply core_eqj_refl| |rm_same].
        intros _. split; [intros ? ?; discriminate|left; reflexivity].
      * wk_fin; [apply core_eqj_refl| |rm_same].
        intros _. split; [intros ? ?; discriminate|left; reflexivity].
    + wk_fin; [apply core_eqj_refl| |rm_same].
      intros _. split; [intros ? ?; discriminate|left; reflexivity].
  - (* BPostponed *)
    destruct sf.
    + wk_fin; [apply core_eqj_refl| |rm_same].
      intros _. split; [intros ? ?; discriminate|right; right; reflexivity].
    + destruct pp as [|id rest].
      * wk_fin; [apply core_eqj_refl| |rm_same].
        intros _. split; [intros ? ?; discriminate|right; left; reflexivity].
      * destruct ok.
        -- wk_fin; [apply core_eqj_refl| |].
           ++ intros _. split; [intros ? ?; discriminate|left; reflexivity].
           ++ right. exists id. repeat split; reflexivity.
        -- wk_fin; [apply core_eqj_refl|flags_dead|]. left. split; [reflexivity|flags_dead].
  - (* BNonFlush *)
    destruct nf as [[u data cb|off prev|rids]|].
    + discriminate.
    + wk_fin; [apply core_eqj_refl|flags_late F2|rm_same].
    + destruct sf.
      * wk_fin; [apply core_eqj_refl| |].
        -- intros _. split; [intros ? ?; discriminate|right; right; reflexivity].
        -- left. split; [reflexivity|intros _; cbn [rm_of]; rewrite app_nil_r; reflexivity].
      * wk_fin; [apply core_eqj_refl| |rm_same].
        intros _. split; [intros ? ?; reflexivity|].
        cbn [early_post] in *. destruct F2 as [F2|F2]; [discriminate|right; exact F2].
    + wk_fin; [apply core_eqj_refl|flags_late F2|rm_same].
  - (* BUnlink *)
    destruct rem as [|id rest].
    + wk_fin; [apply core_eqj_refl|flags_late F2|rm_same].
    + pose proof (F1 _ eq_refl) as Hsf. subst sf.
      assert (pp = []) as ->.
      { cbn [early_post] in F2. destruct F2 as [F2|[F2|F2]]; [discriminate|exact F2|discriminate]. }
      destruct ok.
      * wk_fin; [apply core_eqj_refl| |].
        -- intros _. split; [intros ? ?; reflexivity|right; left; reflexivity].
        -- right. exists id. repeat split; reflexivity.
      * wk_fin; [apply core_eqj_refl|flags_dead|]. left. split; [reflexivity|flags_dead].
  - (* BDone *)
    wk_fin; [apply core_eqj_refl| |rm_same].
    intros _. cbn [early_post] in F2. destruct F2 as [F2|F2]; [discriminate|exact F2].
Qed.

(* ================================================================== the bookkeeping invariant *)
(* [gone]: files deleted so far, oldest first. [rmw]: removals accepted by the worker
   and not yet executed (frozen when the worker thread has ended). [keep]: the
   files of the chunks the caller still lists (closed ++ open) that exist already. *)
Record cinv (z : sys2) (gone rmw keep : list N) : Prop := mkCinv {
  ci_core : core_ok (z_core z);
  ci_alive : w_alive (z_w z) = true -> rmw = w_rm (z_w z);
  ci_present : ids (z_disk z) =
               rmw ++ queue_rm (z_queue z) ++ todo_rm (z_todo z) ++ k_removed (z_core z) ++ keep;
  ci_keep : keep ++ todo_cr (z_todo z) = tail_ids (z_core z);
  ci_created : g_created (z_ghost z) = gone ++ ids (z_disk z);
  ci_sorted : StronglySorted N.lt (gone ++ ids (z_disk z) ++ todo_cr (z_todo z));
  ci_flags : wflags (z_w z);
  ci_removed : forall l U id, In (l, U) (g_removals (z_ghost z)) -> In id l ->
     In id gone \/ In id (rmw ++ queue_rm (z_queue z) ++ todo_rm (z_todo z)) }.

Definition Inv (z : sys2) : Prop := exists gone rmw keep, cinv z gone rmw keep.

Lemma cinv_dsorted z gone rmw keep : cinv z gone rmw keep -> dsorted (z_disk z).
Proof.
  intros H. pose proof (ci_sorted _ _ _ _ H) as S. apply ss_suffix in S. apply ss_prefix in S. exact S.
Qed.

Lemma cinv_frame z z' gone rmw keep : cinv z gone rmw keep ->
  core_eqj (z_core z) (z_core z') -> z_todo z' = z_todo z -> z_queue z' = z_queue z ->
  ids (z_disk z') = ids (z_disk z) ->
  g_created (z_ghost z') = g_created (z_ghost z) -> g_removals (z_ghost z') = g_removals (z_ghost z) ->
  (w_alive (z_w z') = true -> w_alive (z_w z) = true /\ w_rm (z_w z') = w_rm (z_w z)) ->
  wflags (z_w z') -> cinv z' gone rmw keep.
Proof.
  intros [C A P K Cr S F R] Hc Ht Hq Hd Hg1 Hg2 Hw Hf.
  destruct (core_eqj_ok _ _ Hc C) as (C' & T' & R').
  constructor; rewrite ?Ht, ?Hq, ?Hd, ?Hg1, ?Hg2, ?T', ?R'; try assumption.
  intros Ha. destruct (Hw Ha) as [Ha' E]. rewrite E. apply A. exact Ha'.
Qed.

Lemma do_read_eqj k d from to : core_eqj k (fst (do_read k d from to)).
Proof.
  unfold do_read. destruct (read_items _ _ _ _ _ _) as [[items h] ms]. repeat split.
Qed.

Ltac in_app := rewrite ?in_app_iff in *; cbn [In] in *; tauto.

Lemma inv_zcall z o z' v : Inv z -> zcall z o = Some (z', v) -> Inv z'.
Proof.
  intros (gone & rmw & keep & Hc) H. pose proof Hc as [C A P K Cr S F R]. unfold zcall in H.
  destruct (z_todo z) as [|x t] eqn:Et; [|discriminate]. destruct (z_dropped z) eqn:Ed; [discriminate|].
  cbn [todo_rm todo_cr flat_map app] in P, K, S, R. rewrite app_nil_r in K. subst keep.
  destruct o as [w|cb|from to| | | | | |cfg'].
  - (* write *)
    destruct (do_write (z_core z) w) as [[[k r] effs]|] eqn:Ew; [|discriminate].
    inversion H; subst z' v; clear H.
    apply do_write_ok in Ew as (ids0 & keep' & R1 & T1 & T2 & M & C' & S'); [|exact C].
    exists gone, rmw, keep'. constructor; zproj; fold (X effs).
    + exact C'.
    + exact A.
    + rewrite M, R1, P, T1, <- !app_assoc. reflexivity.
    + symmetry. exact T2.
    + exact Cr.
    + assert (P2 : ids (z_disk z) = (rmw ++ queue_rm (z_queue z) ++ k_removed (z_core z)) ++ tail_ids (z_core z))
        by (rewrite P, <- !app_assoc; reflexivity).
      set (P' := rmw ++ queue_rm (z_queue z) ++ k_removed (z_core z)) in *.
      rewrite P2 in S |- *. rewrite app_nil_r in S.
      replace (gone ++ (P' ++ tail_ids (z_core z)) ++ todo_cr (X effs))
        with ((gone ++ P') ++ tail_ids (z_core z) ++ todo_cr (X effs)) by (rewrite <- !app_assoc; reflexivity).
      apply ss_glue; [rewrite <- app_assoc; exact S|exact S'|apply tail_ids_ne].
    + exact F.
    + rewrite M. exact R.
  - (* flush *)
    destruct (do_flush (z_core z) cb) as [k effs] eqn:Ef.
    inversion H; subst z' v; clear H.
    apply do_flush_ok in Ef as (C' & T & R0 & Mc & Mr); [|exact C].
    exists gone, rmw, (tail_ids (z_core z)). constructor; zproj; fold (X effs).
    + exact C'.
    + exact A.
    + rewrite Mr, R0. cbn [app]. exact P.
    + rewrite Mc, T, app_nil_r. reflexivity.
    + exact Cr.
    + rewrite Mc. exact S.
    + exact F.
    + rewrite Mr. intros l U id Hin Hid.
      destruct (k_removed (z_core z)) as [|a rl] eqn:Er.
      * destruct (R _ _ _ Hin Hid) as [G|G]; [left; exact G|right; exact G].
      * apply in_app_or in Hin as [Hin|[Hin|[]]].
        -- destruct (R _ _ _ Hin Hid) as [G|G]; [left; exact G|right; in_app].
        -- inversion Hin; subst. right. in_app.
  - (* read *)
    destruct (do_read (z_core z) (z_disk z) from to) as [k items] eqn:Er.
    inversion H; subst z' v; clear H. exists gone, rmw, (tail_ids (z_core z)).
    eapply cinv_frame; [exact Hc| |reflexivity..| |exact F]; zproj.
    + pose proof (do_read_eqj (z_core z) (z_disk z) from to) as E. rewrite Er in E. exact E.
    + intros Ha. split; [exact Ha|reflexivity].
  - inversion H; subst z' v. exists gone, rmw, (tail_ids (z_core z)). exact Hc.
  - inversion H; subst z' v. exists gone, rmw, (tail_ids (z_core z)). exact Hc.
  - inversion H; subst z' v. exists gone, rmw, (tail_ids (z_core z)). exact Hc.
  - destruct (z_queue z); [|discriminate]. destruct (worker_quiet z); [|discriminate].
    inversion H; subst z' v. exists gone, rmw, (tail_ids (z_core z)). exact Hc.
  - inversion H; subst z' v; clear H. exists gone, rmw, (tail_ids (z_core z)).
    eapply cinv_frame; [exact Hc| |reflexivity..| |exact F]; zproj.
    + apply core_eqj_cache.
    + intros Ha. split; [exact Ha|reflexivity].
  - discriminate.
Qed.

Lemma inv_zeff z z' v : Inv z -> zeff z = Some (z', v) -> Inv z'.
Proof.
  intros (gone & rmw & keep & Hc) H. pose proof Hc as [C A P K Cr S F R]. unfold zeff in H.
  pose proof (cinv_dsorted _ _ _ _ Hc) as Sd.
  destruct (z_todo z) as [|x t] eqn:Et; [discriminate|].
  destruct x as [id|id data|r]; inversion H; subst z' v; clear H.
  - (* create: the new file is the newest *)
    cbn [todo_cr todo_rm flat_map xcr_of xrm_of app] in P, K, S, R.
    fold (todo_cr t) in K, S. fold (todo_rm t) in P, R.
    assert (Hput : disk_put (mkFile id [] 0) (z_disk z) = z_disk z ++ [mkFile id [] 0]).
    { apply disk_put_last. cbn [f_id]. rewrite Forall_forall. intros j Hj.
      apply ss_suffix in S. apply ss_app_inv in S as (_ & _ & S). apply S; [exact Hj|left; reflexivity]. }
    assert (Hids : ids (z_disk z ++ [mkFile id [] 0]) = ids (z_disk z) ++ [id]).
    { unfold ids. rewrite map_app. reflexivity. }
    exists gone, rmw, (keep ++ [id]). constructor; zproj; rewrite ?Hput, ?Hids.
    + exact C.
    + exact A.
    + rewrite P, <- !app_assoc. reflexivity.
    + rewrite <- app_assoc. exact K.
    + rewrite Cr, app_assoc. reflexivity.
    + rewrite <- app_assoc. exact S.
    + exact F.
    + exact R.
  - (* head record written by the caller *)
    exists gone, rmw, keep.
    cbn [todo_cr todo_rm flat_map xcr_of xrm_of app] in P, K, S, R.
    constructor; zproj; rewrite ?ids_append by exact Sd; assumption.
  - (* send *)
    exists gone, rmw, keep.
    cbn [todo_cr todo_rm flat_map xcr_of xrm_of app] in P, K, S, R.
    fold (todo_cr t) in K, S. fold (todo_rm t) in P, R.
    constructor; zproj; try assumption.
    + rewrite queue_rm_app. unfold queue_rm at 2. cbn [flat_map]. rewrite app_nil_r, <- !app_assoc.
      rewrite <- !app_assoc in P. exact P.
    + intros l U id Hin Hid. destruct (R _ _ _ Hin Hid) as [G|G]; [left; exact G|right].
      rewrite queue_rm_app. unfold queue_rm at 2. cbn [flat_map]. rewrite app_nil_r, <- app_assoc. exact G.
Qed.

Lemma take_writes_rm k : forall q ws rest, take_writes k q = Some (ws, rest) -> queue_rm q = queue_rm rest.
Proof.
  induction k as [|k IH]; intros q ws rest H; cbn [take_writes] in H.
  - inversion H; subst. reflexivity.
  - destruct q as [|[u data cb|off prev|rids] q]; try discriminate.
    destruct (take_writes k q) as [[ws' rest']|] eqn:E; [|discriminate]. inversion H; subst.
    unfold queue_rm. cbn [flat_map rm_of app]. apply (IH _ _ _ E).
Qed.

Lemma inv_zrecv z k nf z' v : Inv z -> zrecv z k nf = Some (z', v) -> Inv z'.
Proof.
  intros (gone & rmw & keep & Hc) H. pose proof Hc as [C A P K Cr S F R]. unfold zrecv in H.
  destruct (z_w z) as [wf al ba sf pp] eqn:Ew. zproj.
  destruct al; [|discriminate]. destruct ba as [b|]; [discriminate|].
  specialize (A eq_refl). unfold w_rm in A. zproj. rewrite app_nil_r in A. subst rmw.
  unfold wflags in F. zproj. specialize (F eq_refl).
  destruct (z_queue z) as [|r q] eqn:Eq; [discriminate|].
  assert (Hfin : forall onf q' ws pos, queue_rm (r :: q) = (match onf with Some r' => rm_of r' | None => [] end) ++ queue_rm q' ->
            (forall rem, pos <> BUnlink rem) -> pos <> BDone -> early_post pos = false ->
            Inv (set_w (set_queue z q') (mkWorker wf true (Some (mkBatch ws onf pos true)) sf pp))).
  { intros onf q' ws pos Hq Hp1 Hp2 Hp3.
    exists gone, (pp ++ match onf with Some r' => rm_of r' | None => [] end), keep.
    assert (Eb : batch_rm (mkBatch ws onf pos true) = match onf with Some r' => rm_of r' | None => [] end).
    { unfold batch_rm. zproj. destruct pos; try reflexivity; [exfalso; eapply Hp1; reflexivity|congruence]. }
    constructor; zproj; try assumption.
    - intros _. unfold w_rm. zproj. rewrite Eb. reflexivity.
    - rewrite P, Hq, <- !app_assoc. reflexivity.
    - intros _. zproj. split; [intros rem E; exfalso; eapply Hp1; exact E|right; exact F].
    - intros l U id Hin Hid. destruct (R _ _ _ Hin Hid) as [G|G]; [left; exact G|right].
      rewrite Hq in G. rewrite <- !app_assoc in *. exact G. }
  destruct r as [u data cb|off prev|rids].
  - destruct (take_writes k q) as [[ws rest]|] eqn:Et; [|discriminate].
    apply take_writes_rm in Et.
    destruct nf.
    + destruct rest as [|r2 rest2]; [discriminate|].
      destruct r2 as [u2 d2 c2|off2 prev2|rids2]; [discriminate| |];
        inversion H; subst z' v; clear H; unfold w_set_batch; zproj;
        apply Hfin; try discriminate; try reflexivity;
        unfold queue_rm in *; cbn [flat_map rm_of app] in *; exact Et.
    + assert (H' : Some (set_w (set_queue z rest)
                (w_set_batch (mkWorker wf true None sf pp) (Some (mkBatch (mkWW u data cb :: ws) None (BWrite 0) true))), @nil vis)
                = Some (z', v)) by (destruct rest as [|[] ?]; exact H).
      inversion H'; subst z' v; clear H H'. unfold w_set_batch; zproj.
      apply Hfin; try discriminate; try reflexivity.
      unfold queue_rm in *; cbn [flat_map rm_of app] in *; exact Et.
  - destruct (Nat.eqb k 0 && negb nf); [|discriminate].
    inversion H; subst z' v; clear H. unfold w_set_batch; zproj.
    apply Hfin; try discriminate; reflexivity.
  - destruct (Nat.eqb k 0 && negb nf); [|discriminate].
    inversion H; subst z' v; clear H. unfold w_set_batch; zproj.
    apply Hfin; try discriminate; reflexivity.
Qed.

Lemma inv_zwork z ok z' v : Inv z -> zwork z ok = Some (z', v) -> Inv z'.
Proof.
  intros (gone & rmw & keep & Hc) H. pose proof Hc as [C A P K Cr S F R].
  pose proof (cinv_dsorted _ _ _ _ Hc) as Sd.
  destruct (zwork_cases _ _ _ _ H Sd F) as (Ht & Hq & Hg & _ & He & F' & Ha & Hk).
  specialize (A Ha).
  destruct Hk as [(Hi & Hr)|(id & Hr & Hd & Ha' & _ & _)].
  - exists gone, rmw, keep. eapply cinv_frame; [exact Hc|exact He|exact Ht|exact Hq|exact Hi| | | |exact F'].
    + rewrite Hg. reflexivity.
    + rewrite Hg. reflexivity.
    + intros Ha'. split; [exact Ha|apply Hr; exact Ha'].
  - (* an unlink: the file is the oldest one present *)
    destruct (core_eqj_ok _ _ He C) as (C' & T' & R').
    rewrite Hr in A. subst rmw. cbn [app] in P.
    assert (Hi : ids (z_disk z') = w_rm (z_w z') ++ queue_rm (z_queue z) ++ todo_rm (z_todo z) ++ k_removed (z_core z) ++ keep).
    { rewrite Hd. apply ids_remove_head; [exact P|]. rewrite <- P. exact Sd. }
    exists (gone ++ [id]), (w_rm (z_w z')), keep.
    constructor; rewrite ?Ht, ?Hq, ?Hg, ?T', ?R'; try assumption.
    + intros _. reflexivity.
    + rewrite Cr, P, Hi, <- app_assoc. reflexivity.
    + rewrite P in S. rewrite Hi, <- app_assoc. cbn [app] in S |- *. exact S.
    + intros l U id' Hin Hid. destruct (R _ _ _ Hin Hid) as [G|G]; [left; in_app|].
      cbn [app] in G. destruct G as [G|G]; [left; subst; in_app|right; exact G].
Qed.

Lemma inv_zstep z e z' v : Inv z -> zstep z e = Some (z', v) -> Inv z'.
Proof.
  intros Hi H. destruct e as [o| |k nf|ok|]; cbn [zstep] in H.
  - eapply inv_zcall; eassumption.
  - eapply inv_zeff; eassumption.
  - eapply inv_zrecv; eassumption.
  - eapply inv_zwork; eassumption.
  - destruct (z_todo z) eqn:Et; [|discriminate]. inversion H; subst z' v; clear H.
    destruct Hi as (gone & rmw & keep & Hc). exists gone, rmw, keep.
    eapply cinv_frame; [exact Hc|apply core_eqj_refl|zproj; symmetry; exact Et|reflexivity..| |apply Hc].
    intros Ha. split; [exact Ha|reflexivity].
Qed.

Lemma inv_zrun es : forall z z' v, Inv z -> zrun z es = Some (z', v) -> Inv z'.
Proof.
  induction es as [|e es IH]; intros z z' v Hi H; cbn [zrun] in H.
  - inversion H; subst. exact Hi.
  - destruct (zstep z e) as [[z1 v1]|] eqn:E; [|discriminate].
    destruct (zrun z1 es) as [[z2 v2]|] eqn:E2; [|discriminate]. inversion H; subst.
    eapply IH; [|exact E2]. eapply inv_zstep; eassumption.
Qed.

(* ---- the initial state ---- *)
Definition head0 (cfg : config) : bytes := enc_record (RState (m_rs (sm_new cfg))).
Definition core0 (cfg : config) : core :=
  mkCore cfg (sm_new cfg) (ck_push (mkChunk 0 []) (blen (head0 cfg))) [] [] [] 0 0 0.
Definition z0_of (cfg : config) : sys2 :=
  sys2_of (mkSys (core0 cfg) [mkFile 0 (head0 cfg) 0] [] [mkWF 0 None] []).

Lemma zinit_empty cfg z0 : zinit cfg [] = Some z0 -> z0 = z0_of cfg.
Proof.
  unfold zinit. change (open_dir cfg []) with
    (OpenOk (mkSys (core0 cfg) [mkFile 0 (head0 cfg) 0] [] [mkWF 0 None] [])).
  intros H. inversion H. reflexivity.
Qed.

Lemma inv_init cfg : Inv (z0_of cfg).
Proof.
  exists [], [], [0]. constructor; unfold z0_of, sys2_of; zproj; cbn [y_core y_disk y_queue y_files y_acks].
  - split.
    + unfold core0. cbn [k_open]. rewrite ck_id_push, ck_end_push. cbn [ck_id].
      replace (ck_end (mkChunk 0 [])) with 0 by reflexivity. pose proof (blen_enc_pos (RState (m_rs (sm_new cfg)))).
      unfold head0. lia.
    + unfold tail_ids, core0. cbn. repeat constructor.
  - intros _. reflexivity.
  - reflexivity.
  - reflexivity.
  - reflexivity.
  - cbn. repeat constructor.
  - intros _. zproj. left. reflexivity.
  - intros l U id [].
Qed.

Theorem zreach_Inv cfg z : zreach cfg z -> Inv z.
Proof.
  intros (z0 & es & v & H0 & Hr). apply zinit_empty in H0. subst z0.
  eapply inv_zrun; [apply inv_init|exact Hr].
Qed.

(* ================================================================== C08: oldest first *)
Theorem C08_oldest_first : forall cfg z, zreach cfg z -> files_contiguous z.
Proof.
  intros cfg z Hr. destruct (zreach_Inv _ _ Hr) as (gone & rmw & keep & Hc).
  exists gone, []. rewrite app_nil_r. apply Hc.
Qed.

(* ================================================================== C14: quiescence *)
Theorem C14_quiescent : forall cfg z, zreach cfg z -> z_dropped z = true -> worker_idle2 z -> quiesced z.
Proof.
  intros cfg z _ Hd (Hq & Hb & Ht). split; [exact Hd|].
  intros e. destruct e as [o| |k nf|ok|]; cbn [zstep].
  - left. unfold zcall. rewrite Ht, Hd. reflexivity.
  - left. unfold zeff. rewrite Ht. reflexivity.
  - left. unfold zrecv. rewrite Hb, Hq. destruct (w_alive (z_w z)); reflexivity.
  - left. unfold zwork. rewrite Hb. destruct (w_alive (z_w z)); reflexivity.
  - right. rewrite Ht. eexists. split; reflexivity.
Qed.

(* ================================================================== C08: liveness *)
Definition ffinv (z : sys2) : Prop :=
  w_alive (z_w z) = true /\ w_sync_failed (z_w z) = false /\ w_postponed (z_w z) = [].

Lemma ff_zwork z z' v : ffinv z -> zwork z true = Some (z', v) -> ffinv z'.
Proof.
  intros (Ha & Hs & Hp) H. unfold zwork in H. unfold ffinv.
  destruct z as [k t d q w a dr g]. zproj.
  destruct w as [wf al ba sf pp]. zproj. subst al sf pp.
  destruct ba as [b|]; [|discriminate].
  destruct b as [ws nf pos bok]. zproj.
  destruct pos as [i| | | |i| | |rem|].
  - destruct (nth_error ws i) as [ww|].
    + destruct (ww_data ww) as [|x data].
      * inversion H; subst; zproj. auto.
      * destruct (newest _) as [f|]; [|discriminate]. inversion H; subst; zproj. auto.
    + inversion H; subst; zproj. auto.
  - destruct wf as [|f [|f2 rest]]; inversion H; subst; zproj; auto.
  - destruct wf as [|f rest]; [discriminate|]. inversion H; subst; zproj; auto.
  - destruct wf as [|f rest]; [discriminate|]. inversion H; subst; zproj; auto.
  - destruct (nth_error ws i) as [ww|].
    + destruct (ww_cb ww) as [c|]; inversion H; subst; zproj; auto.
    + inversion H; subst; zproj. auto.
  - inversion H; subst; zproj. auto.
  - destruct nf as [[u data cb|off prev|rids]|]; try discriminate; inversion H; subst; zproj; auto.
  - destruct rem as [|id rest]; inversion H; subst; zproj; auto.
  - inversion H; subst; zproj. auto.
Qed.

Lemma ff_zstep z e z' v : ffinv z -> ev_fault_free e = true -> zstep z e = Some (z', v) -> ffinv z'.
Proof.
  intros Hf He H. destruct e as [o| |k nf|ok|]; cbn [zstep] in H.
  - unfold zcall in H. destruct (z_todo z); [|discriminate]. destruct (z_dropped z); [discriminate|].
    destruct o as [w|cb|from to| | | | | |cfg'].
    + destruct (do_write (z_core z) w) as [[[k r] effs]|]; [|discriminate]. inversion H; subst. exact Hf.
    + destruct (do_flush (z_core z) cb) as [k effs]. inversion H; subst. exact Hf.
    + destruct (do_read (z_core z) (z_disk z) from to) as [k items]. inversion H; subst. exact Hf.
    + inversion H; subst. exact Hf.
    + inversion H; subst. exact Hf.
    + inversion H; subst. exact Hf.
    + destruct (z_queue z); [|discriminate]. destruct (worker_quiet z); [|discriminate]. inversion H; subst. exact Hf.
    + inversion H; subst. exact Hf.
    + discriminate.
  - unfold zeff in H. destruct (z_todo z) as [|[id|id data|r] t]; inversion H; subst; exact Hf.
  - unfold zrecv in H. destruct Hf as (Ha & Hs & Hp). unfold ffinv.
    destruct (z_w z) as [wf al ba sf pp] eqn:Ew. zproj. subst al sf pp.
    destruct ba as [b|]; [discriminate|].
    destruct (z_queue z) as [|r q]; [discriminate|].
    destruct r as [u data cb|off prev|rids].
    + destruct (take_writes k q) as [[ws rest]|]; [|discriminate].
      destruct nf.
      * destruct rest as [|r2 rest2]; [discriminate|].
        destruct r2; [discriminate| |]; inversion H; subst; zproj; auto.
      * destruct rest as [|[] ?]; inversion H; subst; zproj; auto.
    + destruct (Nat.eqb k 0 && negb nf); [|discriminate]. inversion H; subst; zproj; auto.
    + destruct (Nat.eqb k 0 && negb nf); [|discriminate]. inversion H; subst; zproj; auto.
  - cbn [ev_fault_free] in He. subst ok. eapply ff_zwork; eassumption.
  - destruct (z_todo z); [|discriminate]. inversion H; subst. exact Hf.
Qed.

Lemma ff_zrun es : forall z z' v, ffinv z -> forallb ev_fault_free es = true ->
  zrun z es = Some (z', v) -> ffinv z'.
Proof.
  induction es as [|e es IH]; intros z z' v Hi Hf H; cbn [zrun] in H.
  - inversion H; subst. exact Hi.
  - cbn [forallb] in Hf. apply andb_true_iff in Hf as [Hf1 Hf2].
    destruct (zstep z e) as [[z1 v1]|] eqn:E; [|discriminate].
    destruct (zrun z1 es) as [[z2 v2]|] eqn:E2; [|discriminate]. inversion H; subst.
    eapply IH; [|exact Hf2|exact E2]. eapply ff_zstep; eassumption.
Qed.

Theorem C08_liveness : forall cfg z, zreach_ff cfg z -> worker_idle2 z -> removals_done z.
Proof.
  intros cfg z (z0 & es & v & H0 & Hf & Hr) (Hq & Hb & Ht).
  assert (Hreach : zreach cfg z) by (exists z0, es, v; auto).
  destruct (zreach_Inv _ _ Hreach) as (gone & rmw & keep & Hc).
  apply zinit_empty in H0. subst z0.
  assert (Hff : ffinv z).
  { eapply ff_zrun; [|exact Hf|exact Hr]. repeat split. }
  destruct Hff as (Ha & Hs & Hp).
  intros l U id Hin Hid. apply disk_get_None.
  pose proof (ci_alive _ _ _ _ Hc Ha) as Erm. unfold w_rm in Erm. rewrite Hb, Hp in Erm. cbn [app] in Erm.
  destruct (ci_removed _ _ _ _ Hc _ _ _ Hin Hid) as [G|G].
  - intros Hi. pose proof (ci_sorted _ _ _ _ Hc) as S. rewrite Ht in S. cbn [todo_cr flat_map] in S.
    rewrite app_nil_r in S. eapply ss_disj; [exact S|exact G|exact Hi].
  - rewrite Erm, Hq, Ht in G. destruct G.
Qed.

Print Assumptions C08_pop_obsolete_spec_partial.
Print Assumptions C08_pop_obsolete_spec_refuted.
Print Assumptions C14_quiescent.
Print Assumptions C08_oldest_first.
Print Assumptions C08_liveness.
