(* C05 for an instance started on a non-empty directory: the proofs of image_analysis,
   crash_open and C05_recovers_outside_known of CrashRecover.v, with [zreach cfg z]
   replaced by the two facts they use of it (PurgeFacts.Inv z, AckDurable.full z), and the
   journal invariant taken from RestartCrash.v. *)
From Coq Require Import List NArith Bool Lia Arith Sorting.Sorted.
From Coq Require Import ZifyBool ZifyN ZifyNat.
From Coq.Strings Require Import Byte.
From RaftLog Require Import Base.Bytes Model.Types Model.Codec Model.Cache Model.Core
  Model.Recover Model.Run Model.Sys Spec.Durable.
From RaftLog Require Import Proofs.CodecFacts Proofs.NoPanic Proofs.ScanFacts Proofs.RecoverFacts.
From RaftLog Require Proofs.CorruptFacts Proofs.PurgeFacts Proofs.JournalChunk Proofs.JournalFacts.
From RaftLog Require Import Proofs.CrashBase Proofs.CrashJournal Proofs.CrashSteps.
Import ListNotations.
Local Open Scope N_scope.
Local Arguments N.add : simpl never.
Local Arguments N.sub : simpl never.
Local Arguments N.mul : simpl never.
Local Arguments N.eqb : simpl never.
Local Arguments N.ltb : simpl never.
Local Arguments N.leb : simpl never.
Local Arguments N.compare : simpl never.
Local Arguments N.of_nat : simpl never.
Local Arguments enc_record : simpl never.

From RaftLog Require Import Proofs.CrashRecover.
From RaftLog Require Proofs.AckFacts Proofs.RestartShape Proofs.RestartSys Proofs.RestartCrash.

Lemma image_analysis_gen z d' G : PurgeFacts.Inv z -> AD.full z -> JI z G -> crash_image z d' ->
  exists Gd, image_facts z d' G Gd.
Proof.
  intros Hinv Hfull J Hc.
  destruct Hinv as (gone & rmw & keep & Hci).
  pose proof (PurgeFacts.ci_created _ _ _ _ Hci) as Hcr. unfold JournalDisk.ids in Hcr.
  pose proof (gi_ids _ _ _ _ (ji_gi _ _ J)) as Hi. rewrite Hcr, <- !app_assoc in Hi.
  apply map_split3 in Hi. destruct Hi as (A & Gd & C & EG & _ & Hd & HC).
  pose proof (gi_sorted _ _ _ _ (ji_gi _ _ J)) as Hs.
  pose proof (gi_ok _ _ _ _ (ji_gi _ _ J)) as Hok.
  assert (Hsd : disk_sorted (z_disk z)) by (apply AD.b_sorted, AD.f_b; exact Hfull).
  assert (Hpre : Forall2 (fun f g => f_id f = fst g /\ bprefix (f_data f) (encs (snd g))) (z_disk z) Gd).
  { apply Forall2_and; [apply Forall2_map_eq; now symmetry|].
    intros f g Hf Hg Eid. pose proof (ji_hw _ _ J (f_id f)) as H.
    rewrite (data_of_in _ _ Hsd Hf) in H.
    assert (Hg' : In (fst g, snd g) G).
    { rewrite EG. apply in_or_app. right. apply in_or_app. left. now destruct g. }
    unfold gbytes in H. rewrite Eid, (glook_sorted G _ _ Hs Hg') in H.
    eapply bprefix_trans; [apply bprefix_app|]. apply H. apply in_or_app. left.
    rewrite <- Eid. now apply in_map. }
  cut (Forall2 img_rel d' Gd).
  { intros Himg. exists Gd. constructor; [exact J|eauto|exact Hd|exact Hpre|exact Himg]. }
  assert (Hokd : Forall gfile_ok Gd).
  { rewrite EG, !Forall_app in Hok. tauto. }
  assert (Hpre' : Forall2 (fun f g => (f_id f = fst g /\ bprefix (f_data f) (encs (snd g))) /\ gfile_ok g)
                          (z_disk z) Gd).
  { apply Forall2_and; [exact Hpre|]. intros f g _ Hg _. rewrite Forall_forall in Hokd. now apply Hokd. }
  eapply Forall2_compose; [|exact Hc|exact Hpre'].
  intros f f' g Hi [[Eid Hp] [Hwf _]]. apply file_image_of in Hi. destruct Hi as [Ei Him].
  split; [congruence|].
  destruct (image_shape (snd g) (f_data f) (f_data f') (f_synced f) Hwf Hp Him)
    as (j & tl & E & Ht & Hwj & Hl & _).
  exists j, tl. repeat (split; [assumption|]). apply bprefix_length in Hp. lia.
Qed.

Lemma crash_open_gen cfg' z d' G : PurgeFacts.Inv z -> AD.full z -> JI z G -> crash_image z d' ->
  ~ gap_class d' -> c_truncate cfg' = true -> d' <> [] ->
  exists Gd Go o recs j older' nf' tl y' s1,
    image_facts z d' G Gd /\ Gd = Go ++ [(o, recs)] /\
    d' = older' ++ [nf'] /\ Forall2 RF.file_match older' Go /\ f_id nf' = o /\
    f_data nf' = encs (firstn j recs) ++ tl /\ tail_shape tl /\
    open_dir cfg' d' = OpenOk y' /\
    RS.replay_files (sm_new cfg') (Go ++ [(o, firstn j recs)]) = (s1, None) /\
    m_rs (k_sm (y_core y')) = m_rs s1 /\ m_log (k_sm (y_core y')) = m_log s1.
Proof.
  intros Hinv Hfull J0 Hc Hng Ht Hne.
  destruct (image_analysis_gen z d' G Hinv Hfull J0 Hc) as (Gd & IF).
  pose proof IF as [J (A & C & EG & _) Hids Hpre Himg].
  destruct (exists_last Hne) as (older' & nf' & Ed). subst d'.
  assert (HGd : Gd <> []).
  { intros ->. apply Forall2_length in Himg. rewrite app_length in Himg. simpl in Himg. lia. }
  destruct (exists_last HGd) as (Go & [o recs] & EGd). subst Gd.
  pose proof (gi_sorted _ _ _ _ (ji_gi _ _ J)) as Hs.
  pose proof (gi_ok _ _ _ _ (ji_gi _ _ J)) as Hok.
  pose proof (gi_abut _ _ _ _ (ji_gi _ _ J)) as Hab.
  pose proof (Chain_runs _ _ (gi_chain _ _ _ _ (ji_gi _ _ J))) as Hrun.
  rewrite EG in Hs, Hok, Hab, Hrun. rewrite !map_app in Hs.
  rewrite !Forall_app in Hok, Hrun.
  destruct Hok as (_ & [Hoko Hokl] & _). destruct Hrun as (_ & [Hruno Hrunl] & _).
  apply Abut_app in Hab. destruct Hab as [_ Hab]. apply Abut_app in Hab. destruct Hab as [Hab _].
  assert (Hsd : StronglySorted N.lt (map fst (Go ++ [(o, recs)]))).
  { rewrite map_app. eapply ss_sub. exact Hs. }
  pose proof (older_complete _ _ _ _ Himg Hab Hng) as Hfm.
  destruct (Forall2_last_inv _ _ _ _ _ Himg) as [_ (Eid & j & tl & Edat & Htl & Hwj & Hl)].
  simpl in Eid, Edat, Hwj, Hl.
  destruct (replay_files_ok Go (sm_new cfg') Hruno) as [t Hrep].
  assert (Hjok : Forall RF.jfile_ok Go).
  { eapply Forall_impl; [|exact Hoko]. intros g [Hg1 (st & tl0 & E)]. split; [exact Hg1|].
    rewrite E. discriminate. }
  destruct (RF.open_older_replay cfg' older' Go (o, recs) (acc0 cfg' (older' ++ [nf'])) t Hfm
              Hjok Hab Hsd eq_refl eq_refl (Forall_nil _) Hrep)
    as (a' & Ho & Hsm & Hlast & Hdisk & Hclosed & Hgap).
  pose proof (Forall_inv Hrunl) as Hrl.
  destruct (chunk_replay_prefix (o, recs) j t Hrl) as [s1 Hs1]. simpl in Hs1.
  assert (Hidlt : Forall (fun g => f_id g < o) older').
  { assert (Hm : map f_id older' = map fst Go).
    { clear - Hfm. induction Hfm as [|f g l1 l2 [E _] _ IH]; simpl; [reflexivity|]. now rewrite E, IH. }
    rewrite map_app in Hsd. simpl in Hsd. apply JournalDisk.ss_app_inv in Hsd.
    destruct Hsd as (_ & _ & Hlt). rewrite Forall_forall. intros g Hg.
    apply Hlt; [|now left]. rewrite <- Hm. now apply in_map. }
  assert (Hgap' : oa_prev_end a' = Some o \/ older' = []).
  { destruct (list_eq_dec N.eq_dec (map f_id older') []) as [E0|E0].
    - right. destruct older'; [reflexivity|discriminate].
    - left. assert (Hne' : older' <> []) by (intros ->; apply E0; reflexivity).
      pose proof (open_older_prev cfg' _ _ _ Ho (or_introl Hne')) as Hp.
      unfold gap_at in Hgap. cbn [fst] in Hgap. destruct (oa_prev_end a') as [p|]; [|congruence].
      destruct (N.eqb_spec p o) as [E1|E1]; [now rewrite E1|discriminate]. }
  destruct nf' as [nid ndata nsyn]. simpl in Eid, Edat. subst nid ndata.
  assert (Hrep1 : replay (sm_pre a') o o (firstn j recs)
                         (ends_from o (map rec_size (firstn j recs))) = (s1, None)).
  { rewrite (RF.sm_pre_chunk_pre a') by (rewrite Hlast, Hsm; reflexivity). rewrite Hsm. exact Hs1. }
  destruct (C10_longest_prefix_open cfg' older' o nsyn (firstn j recs) tl a' Ho Hidlt Hgap' Hwj Htl s1
              (or_introl Ht) Hrep1) as (y' & Hopen & Hrs & Hlog & _).
  exists (Go ++ [(o, recs)]), Go, o, recs, j, older', (mkFile o (encs (firstn j recs) ++ tl) nsyn), tl, y', s1.
  split; [exact IF|]. split; [reflexivity|]. split; [reflexivity|]. split; [exact Hfm|].
  split; [reflexivity|]. split; [reflexivity|]. split; [exact Htl|]. split; [exact Hopen|].
  split; [|split; assumption].
  eapply RS.replay_files_snoc; [exact Hrep|exact Hs1].
Qed.

Theorem C05_recovers_outside_known_from : forall cfg cfg' d z d',
  RestartCrash.dir_ok d -> RestartSys.zreach_from cfg d z -> hist_wf z -> crash_image z d' ->
  ~ gap_class d' -> c_truncate cfg' = true ->
  exists y', open_dir cfg' d' = OpenOk y' /\ sys_ok y' /\
             (forall ops res fin, run_ops y' ops = (res, fin) -> ~ In ResPanic res).
Proof.
  intros cfg cfg' d z d' Hdok Hr Hw Hc Hng Ht.
  destruct (RestartCrash.full_JI_from cfg d z Hdok Hr) as [Hfull HJ].
  assert (Hinv : PurgeFacts.Inv z) by (eapply RestartCrash.Inv_from; [apply Hdok|exact Hr]).
  assert (Hsd : disk_sorted d').
  { eapply sorted_of_ids; [apply crash_image_ids; eauto|].
    apply AD.b_sorted, AD.f_b. exact Hfull. }
  assert (Hex : exists y', open_dir cfg' d' = OpenOk y').
  { destruct d' as [|f0 l0] eqn:Ed.
    - eexists. reflexivity.
    - rewrite <- Ed in *.
      destruct (HJ Hw) as [G J].
      destruct (crash_open_gen cfg' z d' G Hinv Hfull J Hc Hng Ht) as
        (Gd & Go & o & recs & j & older' & nf' & tl & y' & s1 & _ & _ & _ & _ & _ & _ & _ & Ho & _).
      + rewrite Ed. discriminate.
      + eauto. }
  destruct Hex as [y' Ho]. exists y'. split; [exact Ho|].
  pose proof (open_dir_ok cfg' d' y' Hsd Ho) as Hok. split; [exact Hok|].
  intros ops res fin Hrun. apply (run_ops_ok ops y' res fin Hok Hrun).
Qed.

Print Assumptions C05_recovers_outside_known_from.

(* ================================================================== non-vacuity *)
Import RestartShape RestartSys RestartCrash.
(* the two-file directory of RestartSys.demo_dir after a crash that tore the last record of
   the newest file: 20 of its 34 bytes survive *)
Definition torn_dir : disk :=
  match demo_dir with a :: b :: _ => [a; mkFile (f_id b) (firstn 20 (f_data b)) 0] | _ => [] end.
Example torn_dir_ok :
  dir_ok torn_dir /\ length torn_dir = 2%nat /\ exists z0, zinit demo_cfg torn_dir = Some z0.
Proof.
  split; [|split].
  - split; [|split].
    + split; [vm_compute; repeat constructor|vm_compute; repeat constructor; discriminate].
    + vm_compute. repeat constructor.
    + unfold dir_chained. vm_compute. split; [|split; [|exact I]].
      * intros _. eexists _, _. split; [reflexivity|]. intros H. now elim H.
      * intros H. now elim H.
  - vm_compute. reflexivity.
  - destruct (zinit demo_cfg torn_dir) as [z0|] eqn:E; [eauto|vm_compute in E; discriminate].
Qed.

Lemma crash_image_self z : Forall AckFacts.synced_le (z_disk z) -> crash_image z (z_disk z).
Proof.
  unfold crash_image. induction 1 as [|f l Hf _ IH]; constructor; [|exact IH].
  split; [reflexivity|]. exists (length (f_data f)), 0%nat. unfold AckFacts.synced_le in Hf.
  split; [exact Hf|]. split; [lia|]. split; [|now left].
  rewrite firstn_all. cbn [zeros]. now rewrite app_nil_r.
Qed.

Definition torn_events : list zev :=
  [ZCall (OW (OVote (2, 1))); ZEff; ZEff; ZEff; ZEff; ZRecv 0 false; ZWork true].

(* after reopening the torn directory, a vote that fills the chunk (rotation) and a crash in the
   middle of the worker's batch, right after its write: the directory as it is then is a crash image outside the gap class, so
   by C05_recovers_outside_known_from it opens again *)
Example torn_dir_recovers :
  exists z, zreach_from demo_cfg torn_dir z /\ hist_wf z /\ crash_image z (z_disk z) /\
            ~ gap_class (z_disk z) /\
            exists y', open_dir demo_cfg (z_disk z) = OpenOk y'.
Proof.
  destruct (zinit demo_cfg torn_dir) as [z0|] eqn:E0; [|vm_compute in E0; discriminate].
  destruct (zrun z0 torn_events) as [[z vis]|] eqn:E.
  2:{ vm_compute in E0. inversion E0; subst z0; clear E0. vm_compute in E. discriminate. }
  assert (Hr : zreach_from demo_cfg torn_dir z) by (exists z0, torn_events, vis; auto).
  assert (Hle : Forall AckFacts.synced_le (z_disk z)).
  { apply (C04_synced_le_written_from demo_cfg torn_dir z); [|exact Hr].
    vm_compute. repeat (constructor; [intro Hx; discriminate Hx|]). constructor. }
  assert (Hw : hist_wf z).
  { vm_compute in E0. inversion E0; subst z0; clear E0. vm_compute in E. inversion E; subst; clear E.
    unfold hist_wf. cbn. repeat constructor; cbn; unfold wf_pair; cbn; lia. }
  assert (Hg : ~ gap_class (z_disk z)).
  { vm_compute in E0. inversion E0; subst z0; clear E0. vm_compute in E. inversion E; subst; clear E.
    cbn [z_disk]. intros (pre & f & g & post & Ed & Hne).
    destruct pre as [|a [|b pre]]; inversion Ed; subst.
    - apply Hne. vm_compute. reflexivity.
    - destruct pre; discriminate. }
  exists z. split; [exact Hr|]. split; [exact Hw|]. split; [now apply crash_image_self|]. split; [exact Hg|].
  destruct (C05_recovers_outside_known_from demo_cfg demo_cfg torn_dir z (z_disk z)
              (proj1 torn_dir_ok) Hr Hw (crash_image_self z Hle) Hg eq_refl) as (y' & Ho & _).
  eauto.
Qed.
Print Assumptions torn_dir_ok.
Print Assumptions torn_dir_recovers.

