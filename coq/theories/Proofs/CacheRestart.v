(* C15 with restarts: the payload-cache accounting invariant [CacheSys.cinv] holds along
   every history that may contain [ORestart] anywhere (with any configuration, any
   cache limits), every write kind except [OUpdateState], flushes, reads, drains.

   The journal-side invariant [JI] is cache-size independent and needs no legality of
   the history: [journal_wf] (C11) plus a ghost description of the logical directory
   as a list of (chunk id, records), whose last file is split into the part already
   handed to the worker ([rs1]) and the records still buffered in [k_pending] ([rs2]),
   with the head-snapshot chain [Chain] and the "state records never lower last"
   property [HK] of RestartSim.v.  At a restart the buffered records are lost: the
   directory that recovery sees is the ghost with [rs2] cut off; [Chain] makes the
   replay succeed, [HK] is the premise of [CacheSys.replay_cinv], and the reopened
   state satisfies [JI] again, so the induction continues. *)
From Coq Require Import List NArith Bool Lia Sorted.
From Coq.Strings Require Import Byte.
From RaftLog Require Import Base.Bytes Base.Crc32 Model.Types Model.Codec Model.Cache Model.Core
  Model.Recover Model.Run.
From RaftLog Require Import Proofs.ScanFacts Proofs.RecoverFacts.
From RaftLog Require Import Proofs.CodecFacts Proofs.JournalDisk Proofs.JournalChunk Proofs.JournalFacts.
From RaftLog Require Import Proofs.RestartSim Proofs.RestartInv Proofs.RestartFacts Proofs.RestartCycles
  Proofs.RestartCache.
From RaftLog Require Proofs.CacheFacts Proofs.CacheSys.
Import ListNotations.
Local Open Scope N_scope.
Local Arguments N.add : simpl never.
Local Arguments N.sub : simpl never.
Local Arguments N.mul : simpl never.
Local Arguments N.eqb : simpl never.
Local Arguments N.ltb : simpl never.
Local Arguments N.leb : simpl never.
Local Arguments N.compare : simpl never.
Local Arguments N.of_nat : simpl never.
Local Arguments enc_record : simpl never.

(* ------------------------------------------------------------------ the histories covered *)
Definition op_c15 (o : op) : bool :=
  match o with OW (OUpdateState _) => false | _ => true end.

(* ------------------------------------------------------------------ small facts *)
Lemma rs_run_app_some a b st cur : rs_run st (a ++ b) = Some cur ->
  exists mid, rs_run st a = Some mid /\ rs_run mid b = Some cur.
Proof.
  rewrite rs_run_app. destruct (rs_run st a) as [m|]; [|discriminate].
  intros H. exists m. split; [reflexivity|exact H].
Qed.

Lemma keeps_last_app_l : forall a st b, keeps_last st (a ++ b) -> keeps_last st a.
Proof.
  induction a as [|r a IH]; intros st b H; [exact I|].
  cbn [app keeps_last] in *. destruct H as [H1 H2]. split; [exact H1|].
  destruct (rs_apply st r) as [st1|e]; [|exact I]. eapply IH. exact H2.
Qed.

Lemma head_state_app rs1 rs2 : rs1 <> [] -> head_state (rs1 ++ rs2) = head_state rs1.
Proof. destruct rs1 as [|r rs1]; [congruence|reflexivity]. Qed.

Lemma rs_run_wf : forall rs st x,
  wf_rstate st -> Forall wf_record rs -> rs_run st rs = Some x -> wf_rstate x.
Proof.
  induction rs as [|r rs IH]; intros st x Hs Hw H; cbn [rs_run] in H.
  - inversion H; subst. exact Hs.
  - inversion Hw as [|? ? Hw1 Hw2]; subst.
    destruct (rs_apply st r) as [st1|e] eqn:E; [|discriminate].
    apply (IH st1 x); [|exact Hw2|exact H].
    apply (rs_apply_wf st r st1 Hs Hw1 E).
Qed.

(* ------------------------------------------------------------------ the journal-side invariant *)
Definition ghost_ok (y : sys) (G0 : list jfile) (o : N) (rs1 rs2 : list record) : Prop :=
  GJ y (G0 ++ [(o, rs1 ++ rs2)]) /\ rs1 <> [] /\
  k_pending (y_core y) = encs rs2 /\
  Chain (m_rs (k_sm (y_core y))) (G0 ++ [(o, rs1 ++ rs2)]) /\
  HK (G0 ++ [(o, rs1 ++ rs2)]).

Record JI (y : sys) : Prop := mkJI {
  JI_jw : journal_wf y;
  JI_g : exists G0 o rs1 rs2, ghost_ok y G0 o rs1 rs2 }.

Lemma GJ_last y G0 o rs : journal_wf y -> GJ y (G0 ++ [(o, rs)]) ->
  o = ck_id (k_open (y_core y)) /\
  map fst G0 = k_removed (y_core y) ++ closed_ids (y_core y).
Proof.
  intros JW [Gids _]. pose proof (jw_inv _ JW) as J.
  rewrite (ji_idl_split _ _ _ J), map_app in Gids. cbn [map fst] in Gids.
  apply app_inj_tail in Gids. destruct Gids as [E1 E2]. split; [exact E2|exact E1].
Qed.

Lemma JI_frame y y' : JI y -> journal_wf y' -> logical y' = logical y ->
  core_eqj (y_core y) (y_core y') -> JI y'.
Proof.
  intros [JW (G0 & o & rs1 & rs2 & [Ga Gb] & Hne & Hp & HC & HH)] JW' El
         (E1 & E2 & E3 & E4 & E5 & E6 & E7).
  constructor; [exact JW'|]. exists G0, o, rs1, rs2. split; [|split; [|split; [|split]]].
  - constructor; rewrite El; assumption.
  - exact Hne.
  - rewrite E3. exact Hp.
  - rewrite E6. exact HC.
  - exact HH.
Qed.

Lemma JI_noop y : JI y -> JI (apply_effs (with_core y (y_core y)) []).
Proof. intros F. cbn [apply_effs fold_left]. rewrite with_core_self. exact F. Qed.

(* ------------------------------------------------------------------ an accepted record *)
Lemma JI_appended y r sm1 :
  JI y -> wf_record r ->
  rs_validate (m_rs (k_sm (y_core y))) r = None ->
  keep_rec (m_rs (k_sm (y_core y))) r ->
  sm_apply (k_sm (y_core y)) r (ck_id (k_open (y_core y)))
           (ck_end (k_open (y_core y)), rec_size r) = (sm1, None) ->
  JI (with_core y (JournalChunk.appended (y_core y) r sm1)).
Proof.
  intros [JW (G0 & o' & rs1 & rs2 & GJy & Hne & Hp & HC & HH)] Hr Hv Hkeep Hs.
  pose proof (jw_inv _ JW) as J.
  destruct (GJ_last _ _ _ _ JW GJy) as [Eo EG0]. subst o'.
  destruct (jw_appended y r sm1 JW Hr Hv Hs) as (JW1 & Hids1 & Hfo1 & Hfother1).
  set (k := y_core y) in *. set (o := ck_id (k_open k)) in *.
  destruct GJy as [Gids Gfiles].
  apply Forall_app in Gfiles. destruct Gfiles as [Gf0 Gfl].
  inversion Gfl as [|? ? (Fo1 & Fo2 & Fo3) _]; subst. cbn [fst snd] in Fo1, Fo2, Fo3.
  assert (Hpre : forall g, In g G0 -> fst g < o).
  { intros g Hg. apply (ji_pre_lt _ _ _ J). fold k. rewrite <- EG0. apply in_map. exact Hg. }
  constructor; [exact JW1|].
  exists G0, o, rs1, (rs2 ++ [r]). unfold ghost_ok. rewrite (app_assoc rs1 rs2 [r]).
  split; [|split; [|split; [|split]]].
  - constructor.
    + rewrite Hids1, <- Gids, !map_app. reflexivity.
    + apply Forall_app. split.
      * rewrite Forall_forall in *. intros g Hg.
        apply file_ok_ext with (fb := file_bytes (logical y)).
        -- apply Hfother1. specialize (Hpre g Hg). lia.
        -- apply Gf0. exact Hg.
      * constructor; [|constructor]. unfold file_ok. cbn [fst snd]. split; [|split].
        -- rewrite Hfo1, Fo1, (encs_app (rs1 ++ rs2) [r]), encs_one. reflexivity.
        -- apply Forall_app. split; [exact Fo2|]. constructor; [exact Hr|constructor].
        -- destruct Fo3 as (st & tl & E). exists st, (tl ++ [r]). rewrite E. reflexivity.
  - exact Hne.
  - cbn [with_core y_core JournalChunk.appended k_pending]. fold k.
    rewrite Hp, encs_app, encs_one. reflexivity.
  - cbn [with_core y_core JournalChunk.appended k_sm].
    destruct (sm_apply_ok _ _ _ _ _ _ Hv Hs) as [_ Ea].
    apply (Chain_record G0 o (rs1 ++ rs2) r _ _ HC Ea).
  - apply (HK_record G0 o (rs1 ++ rs2) r _ HH HC Hkeep).
Qed.

(* ------------------------------------------------------------------ rotation *)
Lemma JI_rotated y1 :
  JI y1 -> JI (apply_effs (with_core y1 (rotated (y_core y1))) (rotate_effs (y_core y1))).
Proof.
  intros [JW (G0 & o' & rs1 & rs2 & GJy & Hne & Hp & HC & HH)].
  pose proof (jw_inv _ JW) as J.
  destruct (jw_rotated y1 JW) as (JW2 & Hids2 & Hfoff2 & Hfother2).
  set (k1 := y_core y1) in *. set (o := ck_id (k_open k1)) in *. set (off := ck_end (k_open k1)) in *.
  set (y2 := apply_effs (with_core y1 (rotated k1)) (rotate_effs k1)) in *.
  assert (Ecore : y_core y2 = rotated k1) by (unfold y2; rewrite JournalFacts.apply_effs_core; reflexivity).
  assert (Hlt : o < off).
  { pose proof (chunk_ok_nonempty _ _ (ji_open_ok _ _ _ J)) as Hq. fold k1 o in Hq.
    pose proof (ji_open_end _ _ _ J) as He. fold k1 o off in He. lia. }
  destruct GJy as [Gids Gfiles].
  constructor; [exact JW2|].
  exists (G0 ++ [(o', rs1 ++ rs2)]), off, [RState (m_rs (k_sm k1))], [].
  unfold ghost_ok. rewrite Ecore. cbn [rotated k_sm k_pending app].
  split; [|split; [|split; [|split]]].
  - constructor.
    + rewrite Hids2, map_app. f_equal. exact Gids.
    + apply Forall_app. split.
      * rewrite Forall_forall in *. intros g Hg.
        apply file_ok_ext with (fb := file_bytes (logical y1)); [|apply Gfiles; exact Hg].
        apply Hfother2.
        assert (Hi : In (fst g) (ids (logical y1))) by (rewrite <- Gids; apply in_map; exact Hg).
        pose proof (ji_ids_le _ _ _ J _ Hi) as Hx. fold k1 o in Hx. lia.
      * constructor; [|constructor]. unfold file_ok. cbn [fst snd]. split; [|split].
        -- rewrite Hfoff2, encs_one. reflexivity.
        -- constructor; [apply (ji_rs _ _ _ J)|constructor].
        -- eexists. eexists. reflexivity.
  - discriminate.
  - reflexivity.
  - apply Chain_rotate; [|exact HC]. destruct G0; discriminate.
  - apply HK_rotate. exact HH.
Qed.

(* ------------------------------------------------------------------ append_and_apply *)
Lemma JI_aaa y r k' w effs :
  JI y -> wf_record r -> keep_rec (m_rs (k_sm (y_core y))) r ->
  append_and_apply (y_core y) r = Ret (k', w, effs) ->
  JI (apply_effs (with_core y k') effs).
Proof.
  intros F Hr Hk Ha. apply append_and_apply_cases in Ha.
  destruct Ha as [(Ek & Ee & e & Ew)|(sm1 & Hv & Hs & Ew & Ht)].
  - subst k' effs. apply JI_noop. exact F.
  - pose proof (JI_appended y r sm1 F Hr Hv Hk Hs) as F1.
    eapply try_close_cases in Ht; [|reflexivity].
    destruct Ht as [(_ & Ek & Ee)|(_ & Ek & Ee)]; subst k' effs.
    + exact F1.
    + apply (JI_rotated _ F1).
Qed.

Lemma JI_do_append es : forall y acc effs0 k' w effs,
  Forall (fun e => wf_pair (fst e) /\ wf_bytes (snd e)) es -> JI y ->
  do_append (y_core y) es acc effs0 = Ret (k', w, effs) ->
  exists effs1, effs = effs0 ++ effs1 /\ JI (apply_effs (with_core y k') effs1).
Proof.
  induction es as [|[id p] es IH]; intros y acc effs0 k' w effs Hwf F H; cbn [do_append] in H.
  - inversion H; subst. exists []. rewrite app_nil_r. split; [reflexivity|].
    apply JI_noop. exact F.
  - inversion Hwf as [|? ? Hw1 Hw2]; subst. cbn [fst snd] in Hw1.
    destruct (append_and_apply (y_core y) (RAppend id p)) as [[[k1 w1] ef]|] eqn:Ea; [|discriminate].
    pose proof (JI_aaa y (RAppend id p) k1 w1 ef F Hw1 I Ea) as F1.
    set (y1 := apply_effs (with_core y k1) ef) in *.
    assert (Ec1 : y_core y1 = k1) by (unfold y1; rewrite JournalFacts.apply_effs_core; reflexivity).
    destruct w1 as [off len|e].
    + rewrite <- Ec1 in H.
      destruct (IH y1 _ _ _ _ _ Hw2 F1 H) as (effs2 & E2 & F2).
      exists (ef ++ effs2). split; [rewrite E2, app_assoc; reflexivity|].
      rewrite apply_effs_app, !apply_effs_with_core.
      unfold y1 in F2. rewrite !apply_effs_with_core in F2. exact F2.
    + clear Ec1. inversion H; subst. exists ef. split; [reflexivity|exact F1].
Qed.

(* ------------------------------------------------------------------ purge, flush *)
Lemma JI_purged y upto rm rest :
  JI y -> pop_obsolete upto (k_closed (y_core y)) = (rm, rest) ->
  JI (with_core y (purged_core (y_core y) rm rest)).
Proof.
  intros [JW (G0 & o & rs1 & rs2 & [Ga Gb] & Hne & Hp & HC & HH)] Hpop.
  assert (El : logical (with_core y (purged_core (y_core y) rm rest)) = logical y).
  { rewrite !logical_eq. reflexivity. }
  constructor; [apply (jw_purged y upto rm rest JW Hpop)|].
  exists G0, o, rs1, rs2. split; [|split; [|split; [|split]]].
  - constructor; rewrite El; assumption.
  - exact Hne.
  - exact Hp.
  - exact HC.
  - exact HH.
Qed.

Lemma JI_flush y cb :
  JI y ->
  JI (apply_effs (with_core y (fst (do_flush (y_core y) cb))) (snd (do_flush (y_core y) cb))).
Proof.
  intros [JW (G0 & o' & rs1 & rs2 & GJy & Hne & Hp & HC & HH)].
  pose proof (jw_inv _ JW) as J.
  destruct (GJ_last _ _ _ _ JW GJy) as [Eo EG0]. subst o'.
  destruct (jw_flush_ex y cb JW) as (JW' & Hids & Hfb & Hc).
  set (y' := apply_effs (with_core y (fst (do_flush (y_core y) cb))) (snd (do_flush (y_core y) cb))) in *.
  assert (Ecore : y_core y' = fst (do_flush (y_core y) cb)).
  { unfold y'. rewrite JournalFacts.apply_effs_core. reflexivity. }
  assert (Esm : k_sm (y_core y') = k_sm (y_core y)) by (rewrite Ecore; reflexivity).
  assert (Epend : k_pending (y_core y') = []) by (rewrite Ecore; reflexivity).
  set (o := ck_id (k_open (y_core y))) in *.
  destruct GJy as [Ga Gb].
  apply map_eq_app in EG0. destruct EG0 as (G1 & G2 & EG & Ea1 & Ea2). subst G0.
  rewrite <- app_assoc in Gb, HC, HH.
  constructor; [exact JW'|].
  exists G2, o, (rs1 ++ rs2), []. unfold ghost_ok. rewrite app_nil_r, Esm.
  split; [|split; [|split; [|split]]].
  - constructor.
    + rewrite Hids, map_app. cbn [map fst]. f_equal. exact Ea2.
    + apply Forall_app in Gb. destruct Gb as [_ Gb]. rewrite Forall_forall in *.
      intros g Hg. apply file_ok_ext with (fb := file_bytes (logical y)); [|apply Gb; exact Hg].
      apply Hfb. rewrite <- Ea2.
      change [o] with (map (@fst N (list record)) [(o, rs1 ++ rs2)]).
      rewrite <- map_app. apply in_map. exact Hg.
  - destruct rs1; [congruence|discriminate].
  - rewrite Epend. reflexivity.
  - eapply Chain_app_r. exact HC.
  - eapply HK_app_r. exact HH.
Qed.

(* ------------------------------------------------------------------ caller writes *)
Lemma JI_do_write y w k' res effs :
  JI y -> wop_wf w -> CacheSys.wop_no_update w = true ->
  do_write (y_core y) w = Ret (k', res, effs) ->
  JI (apply_effs (with_core y k') effs).
Proof.
  intros F Hw Hnu H. pose proof (JI_jw _ F) as JW.
  pose proof (jw_inv _ JW) as J.
  pose proof (ji_rs _ _ _ J) as (Wv & Wl & Wc & Wp & Wu).
  destruct w as [v|es|i|upto|id|u|st]; simpl in H, Hw.
  - apply (JI_aaa y (RVote v) _ _ _ F Hw I H).
  - destruct (wal_last_segment (y_core y)) as [w0|]; [|discriminate].
    destruct (JI_do_append es y w0 [] _ _ _ Hw F H) as (effs1 & E & F').
    simpl in E. subst effs1. exact F'.
  - destruct (N.eqb i (next_index (r_purged (m_rs (k_sm (y_core y)))))).
    { apply (JI_aaa y (RTrunc (r_purged (m_rs (k_sm (y_core y))))) _ _ _ F Wp I H). }
    destruct (N.eqb i 0).
    { inversion H; subst. apply JI_noop. exact F. }
    unfold lm_get_id in H.
    destruct (lm_get (i - 1) (m_log (k_sm (y_core y)))) as [d|] eqn:El.
    + apply lm_get_In in El. pose proof (ji_log _ _ _ J) as HL. rewrite Forall_forall in HL.
      destruct (HL _ El) as (Wd & _). simpl in Wd.
      apply (JI_aaa y (RTrunc (Some (ld_id d))) _ _ _ F Wd I H).
    + inversion H; subst. apply JI_noop. exact F.
  - destruct (N.ltb (lid_index upto) (next_index (r_purged (m_rs (k_sm (y_core y)))))).
    { destruct (wal_last_segment (y_core y)) as [w0|]; [|discriminate].
      inversion H; subst. apply JI_noop. exact F. }
    destruct (append_and_apply (y_core y) (RPurge upto)) as [[[k1 w1] ef]|] eqn:Ea; [|discriminate].
    pose proof (JI_aaa y (RPurge upto) k1 w1 ef F Hw I Ea) as F1.
    assert (Hc1 : y_core (apply_effs (with_core y k1) ef) = k1)
      by (rewrite JournalFacts.apply_effs_core; reflexivity).
    destruct w1 as [off len|e].
    + destruct (pop_obsolete upto (k_closed k1)) as [rm rest] eqn:Ep.
      inversion H; subst k' res effs. clear H.
      rewrite apply_effs_with_core.
      rewrite <- (with_core_with_core (apply_effs y ef) k1).
      rewrite <- apply_effs_with_core.
      rewrite <- Hc1 in Ep.
      pose proof (JI_purged _ upto rm rest F1 Ep) as Fp.
      rewrite Hc1 in Fp. exact Fp.
    + inversion H; subst. exact F1.
  - apply (JI_aaa y (RCommit id) _ _ _ F Hw I H).
  - refine (JI_aaa y (RState (rs_set_user (m_rs (k_sm (y_core y))) u)) _ _ _ F _ _ H).
    + simpl. unfold wf_rstate. simpl. tauto.
    + cbn [keep_rec rs_set_user r_last]. apply CacheFacts.opair_leb_refl.
  - discriminate Hnu.
Qed.

(* ------------------------------------------------------------------ one operation other than a restart *)
Lemma JI_run_op y o y' res :
  JI y -> op_c11 o = true -> op_c15 o = true -> op_wf o ->
  run_op y o = (Some y', res) -> JI y'.
Proof.
  intros F Hc Hu Hw H. pose proof (JI_jw _ F) as JW.
  destruct o as [w|cb|from to| | | | | |cfg]; unfold run_op in H.
  - destruct (do_write (y_core y) w) as [[[k r] effs]|] eqn:E; [|discriminate].
    inversion H; subst. apply (JI_do_write y w k r effs F Hw); [|exact E].
    destruct w; try reflexivity. discriminate Hu.
  - pose proof (JI_flush y cb F) as JF.
    destruct (do_flush (y_core y) cb) as [k effs]. inversion H; subst. exact JF.
  - pose proof (do_read_core (y_core y) (y_disk y) from to) as Ec.
    destruct (do_read (y_core y) (y_disk y) from to) as [k items]. inversion H; subst.
    cbn [fst] in Ec.
    apply (JI_frame y); [exact F|apply jw_with_core; assumption| |exact Ec].
    apply logical_core_eqj; [reflexivity|exact Ec].
  - inversion H; subst. exact F.
  - inversion H; subst. exact F.
  - inversion H; subst. exact F.
  - inversion H; subst.
    apply (JI_frame y); [exact F|apply jw_idle; exact JW| |apply worker_idle_core].
    apply logical_core_eqj; [apply wfinal_idle|apply worker_idle_core].
  - inversion H; subst.
    apply (JI_frame y); [exact F|apply jw_with_core; [exact JW|apply core_eqj_cache]|
                         |apply core_eqj_cache].
    apply logical_core_eqj; [reflexivity|apply core_eqj_cache].
  - discriminate Hc.
Qed.

(* ================================================================== restart *)
(* ------------------------------------------------------------------ the replay of a chained journal succeeds *)
Lemma replay_run_ok : forall rs ends s id start x,
  length ends = length rs -> rs_run (m_rs s) rs = Some x ->
  exists s1, replay s id start rs ends = (s1, None) /\ m_rs s1 = x.
Proof.
  induction rs as [|r rs IH]; intros ends s id start x Hl Hr.
  - cbn [rs_run] in Hr. inversion Hr; subst. exists s. split; [apply replay_nil|reflexivity].
  - destruct ends as [|e ends]; [discriminate Hl|]. cbn [replay]. cbn [rs_run] in Hr.
    pose proof (sm_apply_rs s r id (start, e - start)) as Hs.
    destruct (rs_apply (m_rs s) r) as [rs'|er]; [|discriminate Hr].
    destruct (sm_apply s r id (start, e - start)) as [s2 oe]. cbn [fst snd] in Hs.
    destruct Hs as [H1 H2]. subst oe.
    apply (IH ends s2 id e x); [cbn [length] in Hl; lia|rewrite H1; exact Hr].
Qed.

Lemma chunk_replay_ok t g st tl x :
  snd g = RState st :: tl -> rs_run st tl = Some x ->
  exists t1, chunk_replay t g = (t1, None) /\ m_rs t1 = x.
Proof.
  intros E Hr. unfold chunk_replay. apply replay_run_ok.
  - rewrite ends_from_length, map_length. reflexivity.
  - rewrite E, rs_run_head. exact Hr.
Qed.

Lemma replay_files_ok : forall G t0 cur, Chain cur G ->
  exists t, replay_files t0 G = (t, None) /\ (G <> [] -> m_rs t = cur).
Proof.
  induction G as [|g G IH]; intros t0 cur HC.
  - exists t0. split; [reflexivity|congruence].
  - cbn [Chain] in HC. destruct HC as [(st & tl & E & Hr) HC'].
    destruct (chunk_replay_ok t0 g st tl _ E Hr) as (t1 & H1 & H2).
    destruct (IH t1 cur HC') as (t & H3 & H4).
    exists t. cbn [replay_files]. rewrite H1. split; [exact H3|]. intros _.
    destruct G as [|g' G'].
    + cbn [replay_files] in H3. inversion H3; subst t. exact H2.
    + apply H4. discriminate.
Qed.

(* ------------------------------------------------------------------ cutting the buffered records off the last file *)
Lemma Chain_cut : forall G0 o rs1 rs2 cur, rs1 <> [] ->
  Chain cur (G0 ++ [(o, rs1 ++ rs2)]) -> exists cur', Chain cur' (G0 ++ [(o, rs1)]).
Proof.
  induction G0 as [|g G0 IH]; intros o rs1 rs2 cur Hne H.
  - cbn [app Chain snd] in H. destruct H as [(st & tl & E & Hr) _].
    destruct rs1 as [|r1 tl1]; [congruence|]. cbn [app] in E. inversion E; subst r1 tl.
    apply rs_run_app_some in Hr. destruct Hr as (mid & Hm & _).
    exists mid. cbn [app Chain snd]. split; [|exact I]. exists st, tl1. split; [reflexivity|exact Hm].
  - cbn [app Chain] in H. destruct H as [H1 H2].
    destruct (IH o rs1 rs2 cur Hne H2) as (cur' & HC'). exists cur'.
    cbn [app Chain]. split; [|exact HC'].
    destruct H1 as (st & tl & E1 & E2). exists st, tl. split; [exact E1|].
    destruct G0 as [|g' G0']; cbn [app] in *.
    + cbn [snd] in *. rewrite head_state_app in E2 by exact Hne. exact E2.
    + exact E2.
Qed.

Lemma HK_cut G0 o rs1 rs2 : rs1 <> [] ->
  HK (G0 ++ [(o, rs1 ++ rs2)]) -> HK (G0 ++ [(o, rs1)]).
Proof.
  intros Hne H. unfold HK in *. apply Forall_app in H. destruct H as [H0 Hl].
  apply Forall_app. split; [exact H0|]. constructor; [|constructor].
  inversion Hl as [|? ? (st & tl & E & Hk) _]; subst. cbn [snd] in *.
  destruct rs1 as [|r1 tl1]; [congruence|]. cbn [app] in E. inversion E; subst.
  exists st, tl1. split; [reflexivity|]. eapply keeps_last_app_l. exact Hk.
Qed.

(* ------------------------------------------------------------------ the index map built by a replay *)
Definition log_ok (idl : list N) (fb : N -> bytes) (o : N) (lg : logmap) : Prop :=
  Forall (fun e => entry_ok idl fb o (snd e)) lg.

Lemma replay_log_ok idl fb o id : forall rs pre s start s1 oe,
  fb id = pre ++ encs rs -> start = id + blen pre -> id <= o -> Forall wf_record rs ->
  log_ok idl fb o (m_log s) ->
  replay s id start rs (ends_from start (map rec_size rs)) = (s1, oe) ->
  log_ok idl fb o (m_log s1).
Proof.
  induction rs as [|r rs IH]; intros pre s start s1 oe Hfb Hst Hle Hwf Hlog H.
  - rewrite replay_nil in H. inversion H; subst. exact Hlog.
  - cbn [map ends_from replay] in H.
    replace (start + rec_size r - start) with (rec_size r) in H by lia.
    inversion Hwf as [|? ? Hw1 Hw2]; subst.
    assert (Hlog2 : log_ok idl fb o (m_log (fst (sm_apply s r id (id + blen pre, rec_size r))))).
    { unfold log_ok in *. rewrite Forall_forall in *. intros e He. apply sm_apply_log in He.
      destruct He as [He|(lid & p & Er & Ee)].
      - apply Hlog. exact He.
      - subst r e. cbn [snd fst]. unfold entry_ok. cbn [ld_id ld_chunk ld_off ld_len].
        destruct Hw1 as [Wa Wb]. split; [exact Wa|]. split; [exact Hle|]. intros _.
        exists pre, p, (encs rs). split; [exact Wb|]. split; [|split; reflexivity].
        rewrite Hfb, encs_cons. reflexivity. }
    destruct (sm_apply s r id (id + blen pre, rec_size r)) as [s2 [e|]] eqn:Ea.
    + inversion H; subst. exact Hlog2.
    + cbn [fst] in Hlog2.
      apply (IH (pre ++ enc_record r) s2 (id + blen pre + rec_size r) s1 oe); try assumption.
      * rewrite Hfb, encs_cons, app_assoc. reflexivity.
      * rewrite blen_app, rec_size_blen. lia.
Qed.

Lemma replay_files_log_ok idl fb o : forall G t0 t oe,
  (forall g, In g G -> fb (fst g) = encs (snd g) /\ Forall wf_record (snd g) /\ fst g <= o) ->
  log_ok idl fb o (m_log t0) -> replay_files t0 G = (t, oe) -> log_ok idl fb o (m_log t).
Proof.
  induction G as [|g G IH]; intros t0 t oe HG Hlog H; cbn [replay_files] in H.
  - inversion H; subst. exact Hlog.
  - destruct (chunk_replay t0 g) as [t1 oe1] eqn:Ec.
    assert (Hlog1 : log_ok idl fb o (m_log t1)).
    { unfold chunk_replay in Ec. destruct (HG g (or_introl eq_refl)) as (A & B & C).
      apply (replay_log_ok idl fb o (fst g) (snd g) [] (chunk_pre t0) (fst g) t1 oe1); try assumption.
      rewrite blen_nil. lia. }
    destruct oe1 as [e|].
    + inversion H; subst. exact Hlog1.
    + apply (IH t1 t oe); [|exact Hlog1|exact H]. intros g' Hg'. apply HG. right. exact Hg'.
Qed.

(* ------------------------------------------------------------------ open_dir on a directory of complete files *)
Lemma reopen_files cfg' d G0 o rs t :
  dsorted d -> ids d = map fst (G0 ++ [(o, rs)]) ->
  (forall g, In g (G0 ++ [(o, rs)]) -> file_bytes d (fst g) = encs (snd g)) ->
  Forall jfile_ok (G0 ++ [(o, rs)]) ->
  abut (file_bytes d) (map fst (G0 ++ [(o, rs)])) ->
  replay_files (sm_new cfg') (G0 ++ [(o, rs)]) = (t, None) ->
  exists pl, open_dir cfg' d =
    OpenOk (mkSys (mkCore cfg' t (chunk_of o rs) [] (closed_files (sm_new cfg') G0) [] 0 0 0)
                  d [] [mkWF o pl] []).
Proof.
  intros Sd Gids Hfb Hjok Hab Hrep.
  assert (Hsplit : exists older fl, d = older ++ [fl] /\ ids older = map fst G0 /\ f_id fl = o).
  { unfold ids in Gids. rewrite map_app in Gids. cbn [map fst] in Gids.
    apply map_snoc_inv in Gids. destruct Gids as (older & fl & E1 & E2 & E3).
    exists older, fl. split; [exact E1|]. split; [exact E2|exact E3]. }
  destruct Hsplit as (older & fl & Ed & Eolder & Efl).
  assert (Hdata : forall f, In f d -> forall g, In g (G0 ++ [(o, rs)]) -> f_id f = fst g ->
                  f_data f = ScanFacts.encs (snd g)).
  { intros f Hf g Hg E. pose proof (Hfb g Hg) as H1.
    rewrite <- E in H1. unfold file_bytes in H1. rewrite (In_disk_get d f Sd Hf) in H1. exact H1. }
  assert (HF2 : Forall2 file_match d (G0 ++ [(o, rs)])).
  { apply files_match_of; [exact Gids|exact Hdata]. }
  rewrite Ed in HF2. apply Forall2_app_inv_l in HF2.
  destruct HF2 as (G0' & Gl' & HF0 & HFl & EGG).
  assert (EG0' : G0' = G0 /\ Gl' = [(o, rs)]).
  { inversion HFl as [|? g ? ? Hm HFn]; subst. inversion HFn; subst.
    apply app_inj_tail in EGG. destruct EGG as [E1 E2]. subst. auto. }
  destruct EG0' as [E1 E2]. subst G0' Gl'. clear EGG.
  inversion HFl as [|? ? ? ? [_ Hfld] _]; subst. cbn [snd] in Hfld.
  apply Forall_app in Hjok. destruct Hjok as [Hjok0 Hjokl].
  inversion Hjokl as [|? ? [Fo2 Hrsne] _]; subst. cbn [snd] in Fo2, Hrsne.
  set (o := f_id fl) in *.
  assert (Hab' : Abut (G0 ++ [(o, rs)])) by (apply (Abut_of (file_bytes (older ++ [fl]))); assumption).
  assert (Hss : StronglySorted N.lt (map fst (G0 ++ [(o, rs)]))).
  { unfold dsorted in Sd. rewrite Gids in Sd. exact Sd. }
  destruct (replay_files_snoc_inv _ _ _ _ Hrep) as (t1 & Hrep0 & Hrepl).
  destruct (open_older_replay cfg' older G0 (o, rs) (acc0 cfg' (older ++ [fl])) t1 HF0 Hjok0 Hab' Hss)
    as (a & Ha1 & Ha2 & Ha3 & Ha4 & Ha5 & Ha6).
  { reflexivity. }
  { reflexivity. }
  { constructor. }
  { exact Hrep0. }
  cbn [acc0 oa_disk oa_closed oa_sm app] in Ha4, Ha5.
  assert (Hlt0 : forall j, In j (map fst G0) -> j < o).
  { intros j Hj. rewrite map_app in Hss. apply ss_app_inv in Hss. destruct Hss as (_ & _ & S).
    apply (S j o Hj). left. reflexivity. }
  assert (Hok : acc_ok a o).
  { constructor.
    - exact Ha6.
    - rewrite Ha5. rewrite Forall_forall. intros c Hc. apply Hlt0.
      rewrite <- closed_files_ids with (t := sm_new cfg').
      apply (in_map (fun c => ck_id (cl_chunk c))). exact Hc.
    - rewrite Ha4. rewrite Forall_forall. intros f Hf.
      assert (Hi : In (f_id f) (map fst (G0 ++ [(o, rs)]))).
      { rewrite <- Gids. apply in_map. exact Hf. }
      rewrite map_app in Hi. apply in_app_or in Hi. destruct Hi as [Hi|[Hi|[]]].
      + specialize (Hlt0 _ Hi). lia.
      + cbn [fst] in Hi. lia. }
  assert (Hrepl' : replay (sm_pre a) o o rs (ends_from o (map rec_size rs)) = (t, None)).
  { rewrite (sm_pre_chunk_pre a) by (rewrite Ha3, Ha2; reflexivity). rewrite Ha2. exact Hrepl. }
  pose proof (newest_complete cfg' a o (f_synced fl) rs Hok Fo2 t Hrsne Hrepl') as Hnew.
  assert (Efl' : fl = mkFile o (ScanFacts.encs rs) (f_synced fl)).
  { unfold o. clear - Hfld. destruct fl as [i dt sy]. cbn [f_id f_data f_synced] in *. subst dt. reflexivity. }
  exists (prev_last_of (oa_closed a)).
  rewrite open_dir_eq, open_loop_app.
  change (mkOA (sm_new cfg') [] None None (older ++ [fl])) with (acc0 cfg' (older ++ [fl])) in *.
  rewrite Ha1.
  replace (open_loop cfg' [fl] a) with (open_loop cfg' [mkFile o (ScanFacts.encs rs) (f_synced fl)] a)
    by (rewrite <- Efl'; reflexivity).
  rewrite Hnew, Ha4, Ha5. reflexivity.
Qed.

(* ------------------------------------------------------------------ a restart re-establishes everything *)
Lemma wfinal_idle_state y : y_queue y = [] -> wfinal y = (y_disk y, y_files y).
Proof. intros Hq. unfold wfinal, wrun, wproj. rewrite Hq. reflexivity. Qed.

Lemma JI_reopen cfg' y :
  JI y -> y_queue y = [] ->
  exists y', open_dir cfg' (y_disk y) = OpenOk y' /\ JI y' /\ CacheSys.sys_cinv y'.
Proof.
  intros [JW (G0 & o' & rs1 & rs2 & GJy & Hne & Hp & HC & HH)] Hq.
  pose proof (jw_inv _ JW) as J.
  destruct (GJ_last _ _ _ _ JW GJy) as [Eo EG0]. subst o'.
  pose proof (jw_sorted _ JW) as Sd.
  pose proof (jw_ids_FD _ JW) as EidsFD.
  pose proof (jw_fb_open _ JW) as Hfo.
  assert (Hfother : forall j, j <> ck_id (k_open (y_core y)) ->
            file_bytes (logical y) j = file_bytes (fst (wfinal y)) j) by (apply jw_fb_other).
  rewrite (wfinal_idle_state y Hq) in EidsFD, Hfo, Hfother. cbn [fst] in EidsFD, Hfo, Hfother.
  set (k := y_core y) in *. set (o := ck_id (k_open k)) in *. set (d := y_disk y) in *.
  destruct GJy as [Gids Gfiles].
  assert (Hpre : forall j, In j (map fst G0) -> j < o).
  { intros j Hj. apply (ji_pre_lt _ _ _ J). fold k. rewrite <- EG0. exact Hj. }
  assert (Hids_d : ids d = map fst (G0 ++ [(o, rs1)])).
  { rewrite <- EidsFD, <- Gids, !map_app. reflexivity. }
  pose proof Gfiles as Gfiles'. apply Forall_app in Gfiles'. destruct Gfiles' as [Gf0 Gfl].
  inversion Gfl as [|? ? (Fo1 & Fo2 & Fo3) _]; subst. cbn [fst snd] in Fo1, Fo2, Fo3.
  apply Forall_app in Fo2. destruct Fo2 as [Fo2 _].
  assert (Hhead : exists st tl1, rs1 = RState st :: tl1).
  { destruct Fo3 as (st & tl & E). destruct rs1 as [|r1 tl1]; [congruence|].
    cbn [app] in E. inversion E; subst. eauto. }
  assert (Hfo_d : file_bytes d o = encs rs1).
  { rewrite Fo1, Hp, encs_app in Hfo. apply app_inv_tail in Hfo. symmetry. exact Hfo. }
  assert (Hfok : Forall (file_ok (file_bytes d)) (G0 ++ [(o, rs1)])).
  { apply Forall_app. split.
    - rewrite Forall_forall in *. intros g Hg.
      apply file_ok_ext with (fb := file_bytes (logical y)); [|apply Gf0; exact Hg].
      symmetry. apply Hfother. assert (Hl : fst g < o) by (apply Hpre, in_map, Hg). lia.
    - constructor; [|constructor]. unfold file_ok. cbn [fst snd].
      split; [exact Hfo_d|]. split; [exact Fo2|exact Hhead]. }
  assert (Hfb_d : forall g, In g (G0 ++ [(o, rs1)]) -> file_bytes d (fst g) = encs (snd g)).
  { intros g Hg. rewrite Forall_forall in Hfok. apply (Hfok g Hg). }
  assert (Hjok : Forall jfile_ok (G0 ++ [(o, rs1)])).
  { eapply Forall_impl; [|exact Hfok]. intros g (_ & H2 & st & tl & E).
    split; [exact H2|rewrite E; discriminate]. }
  assert (Hab : abut (file_bytes d) (map fst (G0 ++ [(o, rs1)]))).
  { pose proof (ji_abut _ _ _ J) as A. rewrite <- Gids in A. rewrite map_app in A |- *.
    cbn [map fst] in A |- *. eapply abut_change_last; [|exact A].
    intros j Hj. symmetry. apply Hfother. specialize (Hpre j Hj). lia. }
  destruct (Chain_cut G0 o rs1 rs2 _ Hne HC) as (cur' & HC').
  pose proof (HK_cut G0 o rs1 rs2 Hne HH) as HH'.
  destruct (replay_files_ok (G0 ++ [(o, rs1)]) (sm_new cfg') cur' HC') as (t & Hrep & Hrs).
  assert (Hrs' : m_rs t = cur') by (apply Hrs; destruct G0; discriminate). clear Hrs.
  destruct (reopen_files cfg' d G0 o rs1 t Sd Hids_d Hfb_d Hjok Hab Hrep) as (pl & Hopen).
  eexists. split; [exact Hopen|].
  set (k' := mkCore cfg' t (chunk_of o rs1) [] (closed_files (sm_new cfg') G0) [] 0 0 0).
  set (y' := mkSys k' d [] [mkWF o pl] []).
  assert (Ecl : closed_files (sm_new cfg') G0 = closed_exp (G0 ++ [(o, rs1)])).
  { apply (closed_files_exp G0 (o, rs1) _ _ _ Hrep HC'). }
  assert (Wcur : wf_rstate cur').
  { destruct (Chain_cur _ _ _ _ HC') as (st & tl & E & Hrun).
    rewrite E in Fo2. apply Forall_cons_iff in Fo2. destruct Fo2 as [Hw1 Hw2].
    apply (rs_run_wf tl st cur' Hw1 Hw2 Hrun). }
  assert (Hsrt : StronglySorted N.lt (map fst (G0 ++ [(o, rs1)]))).
  { unfold dsorted in Sd. rewrite Hids_d in Sd. exact Sd. }
  assert (JW' : journal_wf y' /\ ids (logical y') = ids d /\
                forall j, file_bytes (logical y') j = file_bytes d j).
  { apply (jw_build y' (ids d) (file_bytes d)).
    - exact Sd.
    - change (In o (ids d)). rewrite Hids_d, map_app. apply in_or_app. right. left. reflexivity.
    - exists [], pl. reflexivity.
    - change (Forall (fun i => i <= o) [o]). constructor; [apply N.le_refl|constructor].
    - reflexivity.
    - constructor.
      + unfold chunk_ids, closed_ids. cbn [y' y_core k' k_removed k_closed k_open chunk_of ck_id app].
        rewrite closed_files_ids, Hids_d, map_app. reflexivity.
      + exact Sd.
      + rewrite Hids_d. exact Hab.
      + unfold live_chunks. cbn [y' y_core k' k_closed k_open]. rewrite Ecl.
        apply Forall_app. split.
        * rewrite Forall_forall. intros ch Hch. apply in_map_iff in Hch. destruct Hch as (c & Ec & Hc).
          destruct (closed_exp_in _ _ Hc) as (g & Hg & Eg). subst ch. rewrite Eg.
          apply chunk_ok_of. rewrite Forall_forall in Hfok. apply Hfok. exact Hg.
        * constructor; [|constructor]. apply (chunk_ok_of _ (o, rs1)).
          rewrite Forall_forall in Hfok. apply Hfok. apply in_or_app. right. left. reflexivity.
      + cbn [y' y_core k' k_closed k_open chunk_of ck_id]. rewrite Ecl.
        apply (exp_heads _ G0 (o, rs1)). exact Hfok.
      + cbn [y' y_core k' k_sm]. rewrite Hrs'. exact Wcur.
      + cbn [y' y_core k' k_sm k_open chunk_of ck_id].
        apply (replay_files_log_ok (ids d) (file_bytes d) o (G0 ++ [(o, rs1)]) (sm_new cfg') t None);
          [| constructor | exact Hrep].
        intros g Hg. rewrite Forall_forall in Hfok. destruct (Hfok g Hg) as (A & B & _).
        split; [exact A|]. split; [exact B|].
        apply in_app_or in Hg. destruct Hg as [Hg|[Hg|[]]].
        * assert (Hl : fst g < o) by (apply Hpre, in_map, Hg). lia.
        * subst g. cbn [fst]. lia.
    - change (file_bytes d o = file_bytes d o ++ []). rewrite app_nil_r. reflexivity.
    - intros j _. reflexivity. }
  destruct JW' as (JW' & Hids' & Hfb').
  split.
  - constructor; [exact JW'|]. exists G0, o, rs1, []. unfold ghost_ok. rewrite app_nil_r.
    split; [|split; [|split; [|split]]].
    + constructor.
      * rewrite Hids', Hids_d. reflexivity.
      * rewrite Forall_forall in *. intros g Hg.
        apply file_ok_ext with (fb := file_bytes d); [apply Hfb'|apply Hfok; exact Hg].
    + exact Hne.
    + reflexivity.
    + cbn [y' y_core k' k_sm]. rewrite Hrs'. exact HC'.
    + exact HH'.
  - unfold CacheSys.sys_cinv. cbn [y' y_core k' k_sm].
    apply (replay_files_cinv _ _ _ _ (CacheSys.cinv_new cfg') HH' HC'); [|exact Hrep].
    clear. destruct G0; cbn [app sm_new m_rs rstate0 r_last]; apply CacheFacts.opair_leb_None.
Qed.

Lemma JI_restart cfg' y :
  JI y ->
  exists y', open_dir cfg' (y_disk (worker_idle y)) = OpenOk y' /\ JI y' /\ CacheSys.sys_cinv y'.
Proof.
  intros F. apply JI_reopen; [|apply worker_idle_queue].
  apply (JI_frame y); [exact F|apply jw_idle, (JI_jw _ F)| |apply worker_idle_core].
  apply logical_core_eqj; [apply wfinal_idle|apply worker_idle_core].
Qed.

(* ------------------------------------------------------------------ the combined invariant along a run *)
Definition CI (y : sys) : Prop := JI y /\ CacheSys.sys_cinv y.

Lemma CI_run_op y o y' res :
  CI y -> op_c15 o = true -> op_wf o -> run_op y o = (Some y', res) -> CI y'.
Proof.
  intros [F C] Hc Hw H.
  destruct o as [w|cb|from to| | | | | |cfg'].
  1-8: match type of H with run_op _ ?o = _ =>
         split; [apply (JI_run_op y o y' res F (eq_refl true) Hc Hw H)
                |apply (CacheSys.run_op_cinv y o y' res Hc C H)] end.
  cbn [run_op] in H. destruct (JI_restart cfg' y F) as (y2 & Ho & F2 & C2).
  rewrite Ho in H. inversion H; subst. split; assumption.
Qed.

(* a restart never fails on these histories *)
Lemma CI_restart_opens y cfg' :
  CI y -> exists y', run_op y (ORestart cfg') = (Some y', ResOpened) /\ CI y'.
Proof.
  intros [F C]. destruct (JI_restart cfg' y F) as (y2 & Ho & F2 & C2).
  exists y2. cbn [run_op]. rewrite Ho. split; [reflexivity|split; assumption].
Qed.

Lemma CI_run_ops ops : forall y res y',
  CI y -> forallb op_c15 ops = true -> Forall op_wf ops ->
  run_ops y ops = (res, Some y') -> CI y'.
Proof.
  induction ops as [|o ops IH]; intros y res y' F Hc Hw H; cbn [run_ops] in H.
  - inversion H; subst. exact F.
  - cbn [forallb] in Hc. apply andb_true_iff in Hc. destruct Hc as [Hc1 Hc2].
    inversion Hw as [|? ? Hw1 Hw2]; subst.
    destruct (run_op y o) as [[y1|] r1] eqn:E; [|discriminate H].
    destruct (run_ops y1 ops) as [rs fin] eqn:E2. inversion H; subst.
    apply (IH y1 rs y'); try assumption. apply (CI_run_op y o y1 r1); assumption.
Qed.

Lemma CI_init cfg : CI (sys0 cfg).
Proof.
  pose proof (jw_init cfg) as JW. split.
  - constructor; [exact JW|]. exists [], 0, [RState rstate0], []. unfold ghost_ok.
    cbn [app]. split; [|split; [|split; [|split]]].
    + assert (El : logical (sys0 cfg) = [mkFile 0 (enc_record (RState rstate0)) 0]).
      { rewrite (C11_idle_disk_is_journal _ JW eq_refl eq_refl). reflexivity. }
      constructor; rewrite El.
      * reflexivity.
      * constructor; [|constructor]. unfold file_ok. cbn [fst snd]. split; [|split].
        -- rewrite encs_one. reflexivity.
        -- constructor; [|constructor]. cbn. unfold wf_rstate. cbn. tauto.
        -- eexists. eexists. reflexivity.
    + discriminate.
    + reflexivity.
    + cbn. split; [|exact I]. exists rstate0, []. split; reflexivity.
    + constructor; [|constructor]. exists rstate0, []. split; [reflexivity|exact I].
  - apply (CacheSys.open_dir_empty_cinv cfg). apply open_dir_nil.
Qed.

Lemma CI_run_case cfg ops res y :
  forallb op_c15 ops = true -> Forall op_wf ops ->
  run_case cfg ops = (res, Some y) -> CI y.
Proof.
  intros Hc Hw H. unfold run_case in H. rewrite open_dir_nil in H.
  apply (CI_run_ops ops (sys0 cfg) res y (CI_init cfg) Hc Hw H).
Qed.

(* ================================================================== C15 with restarts *)
Theorem C15_counts_exact_restarts : forall cfg ops res y,
  forallb op_c15 ops = true -> Forall op_wf ops ->
  run_case cfg ops = (res, Some y) ->
  CacheFacts.cache_ok (m_cache (k_sm (y_core y))).
Proof. intros cfg ops res y Hc Hw H. apply (CI_run_case cfg ops res y Hc Hw H). Qed.

Theorem C15_keys_le_last_restarts : forall cfg ops res y,
  forallb op_c15 ops = true -> Forall op_wf ops ->
  run_case cfg ops = (res, Some y) ->
  CacheFacts.keys_le (m_cache (k_sm (y_core y))) (r_last (m_rs (k_sm (y_core y)))).
Proof. intros cfg ops res y Hc Hw H. apply (CI_run_case cfg ops res y Hc Hw H). Qed.

(* what stat() reports *)
Theorem C15_stat_exact_restarts : forall cfg ops res y,
  forallb op_c15 ops = true -> Forall op_wf ops ->
  run_case cfg ops = (res, Some y) ->
  let es := ch_entries (m_cache (k_sm (y_core y))) in
  st_items (do_stat (y_core y)) = N.of_nat (length es) /\
  st_size (do_stat (y_core y)) = CacheFacts.total es /\
  NoDup (map fst es).
Proof.
  intros cfg ops res y Hc Hw H es.
  pose proof (C15_counts_exact_restarts cfg ops res y Hc Hw H) as [Hs Hsz].
  split; [reflexivity|]. split; [exact Hsz|]. apply CacheFacts.sorted_keys_NoDup. exact Hs.
Qed.

(* after drain_cache_evictable nothing resident is at or below the boundary *)
Theorem C15_drain_restarts : forall cfg ops res y y' r,
  forallb op_c15 ops = true -> Forall op_wf ops ->
  run_case cfg ops = (res, Some y) ->
  run_op y ODrain = (Some y', r) ->
  let c' := m_cache (k_sm (y_core y')) in
  ch_evictable c' = ch_evictable (m_cache (k_sm (y_core y))) /\
  forall id p, In (id, p) (ch_entries c') -> opair_leb (Some id) (ch_evictable c') = false.
Proof.
  intros cfg ops res y y' r Hc Hw Hrun Hop c'. subst c'.
  pose proof (C15_counts_exact_restarts _ _ _ _ Hc Hw Hrun) as Hok.
  cbn [run_op] in Hop. inversion Hop; subst.
  cbn [with_core y_core]. unfold core_with_cache, core_with_sm. cbn [k_sm m_cache].
  split; [apply CacheFacts.cache_drain_evictable|].
  rewrite CacheFacts.cache_drain_evictable. apply CacheFacts.C15_drain_cache. exact Hok.
Qed.

(* over a limit after an accepted append: everything resident is pinned *)
Theorem C15_over_limit_pinned_restarts : forall cfg ops res y es y' o l,
  forallb op_c15 ops = true -> Forall op_wf ops ->
  run_case cfg ops = (res, Some y) ->
  es <> [] ->
  run_op y (OW (OAppend es)) = (Some y', ResW (WOk o l)) ->
  let c := m_cache (k_sm (y_core y)) in
  let c' := m_cache (k_sm (y_core y')) in
  need_evict c' (length (ch_entries c')) (ch_size c') = true ->
  forall id p, In (id, p) (ch_entries c') -> opair_leb (Some id) (ch_evictable c) = false.
Proof.
  intros cfg ops res y es y' o l Hc Hw Hrun Hne Hop c c'. subst c c'.
  pose proof (CI_run_case _ _ _ _ Hc Hw Hrun) as [_ Hinv]. unfold CacheSys.sys_cinv in Hinv.
  cbn [run_op do_write] in Hop.
  destruct (wal_last_segment (y_core y)) as [w0|]; [|discriminate].
  destruct (do_append (y_core y) es w0 []) as [[[k r] effs]|] eqn:Ea; [|discriminate].
  inversion Hop; subst. rewrite CacheSys.apply_effs_core. cbn [with_core y_core].
  pose proof (CacheSys.do_append_pinned _ _ _ _ _ _ _ _ Hne Hinv Ea) as [Hev Hpin].
  rewrite <- Hev. exact Hpin.
Qed.

(* on these histories a restart always succeeds (whatever was left unflushed) *)
Theorem C15_restart_always_opens : forall cfg ops res y cfg',
  forallb op_c15 ops = true -> Forall op_wf ops ->
  run_case cfg ops = (res, Some y) ->
  exists y', run_op y (ORestart cfg') = (Some y', ResOpened).
Proof.
  intros cfg ops res y cfg' Hc Hw Hrun.
  destruct (CI_restart_opens y cfg' (CI_run_case _ _ _ _ Hc Hw Hrun)) as (y' & H & _).
  exists y'. exact H.
Qed.

(* the hypotheses are satisfiable on a history with tiny caches, an unflushed tail
   (an append and a user-data write) lost at the first restart, a Raft-illegal purge
   that removes chunk files, and a second restart *)
Example C15_restarts_inhabited :
  let cfg := mkConfig 1 4 100 10000 true in
  let cfg1 := mkConfig 0 0 3 1000 false in
  let cfg2 := mkConfig 2 1 1 50 true in
  let ops := [OW (OVote (1, 1)); OW (OAppend [((1, 0), [x01; x02; x03]%byte); ((1, 1), [x04]%byte)]);
              OFlush true; OW (OAppend [((1, 2), [x05; x06]%byte)]); OW (OUser (Some [x07]%byte));
              ORestart cfg1; OStat;
              OW (OAppend [((1, 2), [x08]%byte); ((1, 3), [x09]%byte)]);
              OW (OPurge (5, 0)); OW (OTruncate 3); OFlush false; ODrain;
              OW (OAppend [((1, 3), [x0a]%byte)]);
              ORestart cfg2; ORead 0 10; OW (OCommit (1, 3)); OStat] in
  forallb op_c15 ops = true /\ Forall op_wf ops /\
  exists res y, run_case cfg ops = (res, Some y) /\
    r_user (m_rs (k_sm (y_core y))) = None /\
    ch_entries (m_cache (k_sm (y_core y))) = [((1, 3), [x0a]%byte)] /\
    map f_id (y_disk y) = [258; 386; 480].
Proof.
  cbv zeta. split; [reflexivity|]. split.
  - repeat constructor; vm_compute; reflexivity.
  - eexists. eexists. split; [vm_compute; reflexivity|]. split; [reflexivity|]. split; reflexivity.
Qed.

Print Assumptions C15_counts_exact_restarts.
Print Assumptions C15_keys_le_last_restarts.
Print Assumptions C15_stat_exact_restarts.
Print Assumptions C15_drain_restarts.
Print Assumptions C15_over_limit_pinned_restarts.
Print Assumptions C15_restart_always_opens.

(* ================================================================== C11 with restarts *)
(* the structural journal invariant of C11 holds in every state reachable by any history of
   well-formed operations WITH restarts anywhere (any configuration at each restart, unflushed
   bytes lost, cache limits arbitrary); update_state excluded *)
Theorem C11_invariant_restarts : forall cfg ops res y,
  forallb op_c15 ops = true -> Forall op_wf ops ->
  run_case cfg ops = (res, Some y) -> journal_wf y.
Proof.
  intros cfg ops res y Hc Hw H. exact (JI_jw _ (proj1 (CI_run_case cfg ops res y Hc Hw H))).
Qed.
