(* Property C07, part 3 continued: the L2 theorem without the hypothesis that the worker
   thread is alive.  When a write or unlink error ends the worker thread, the requests it
   had received and not carried out are lost; the caller goes on.  The abstraction keeps
   them ([lost], a history variable threaded through the run by [next_lost]): the logical
   journal is then what the directory WOULD hold had the worker gone on, every entry
   above the (now frozen) boundary stays resident, and every entry at or below it was
   completely on disk when the boundary was installed. *)
From Coq Require Import List NArith Bool Lia Arith Sorted.
From Coq.Strings Require Import Byte.
From RaftLog Require Import Base.Bytes Base.Crc32 Model.Types Model.Codec Model.Cache Model.Core
  Model.Recover Model.Run Spec.Spec Spec.Hist Model.Sys Spec.Durable.
From RaftLog Require Proofs.CacheFacts Proofs.NoPanic Proofs.AckFacts Proofs.AckDurable.
From RaftLog Require Import Proofs.CodecFacts Proofs.JournalDisk Proofs.JournalChunk Proofs.JournalFacts
  Proofs.PurgeFacts.
From RaftLog Require Import Proofs.OrderFacts Proofs.SmFacts Proofs.Refine Proofs.PurgeLive Proofs.ReadCache
  Proofs.ReadInv Proofs.ReadFacts Proofs.ReadSys.
Import ListNotations.
Local Open Scope N_scope.

(* the L1 view with an explicit list of requests held by the worker *)
Definition absw (ws : list wreq) (z : sys2) : sys :=
  mkSys (z_core z) (fold_left xdisk (z_todo z) (z_disk z))
        (ws ++ z_queue z ++ flat_map xsend (z_todo z)) (w_files (z_w z)) [].

Lemma abs_absw : forall z, abs z = absw (wstream (z_w z)) z.
Proof. reflexivity. Qed.

Lemma absw_todo_nil : forall ws z, z_todo z = [] ->
  absw ws z = mkSys (z_core z) (z_disk z) (ws ++ z_queue z) (w_files (z_w z)) [].
Proof. intros ws z H. unfold absw. rewrite H. cbn [fold_left flat_map]. rewrite app_nil_r. reflexivity. Qed.

Lemma absw_effs : forall ws z k effs g, z_todo z = [] ->
  absw ws (set_ghost (set_todo (set_core z k) (flat_map expand_eff effs)) g) =
  apply_effs (with_core (absw ws z) k) effs.
Proof.
  intros ws z k effs g H. rewrite (absw_todo_nil ws z H). unfold with_core.
  cbn [y_core y_disk y_queue y_files y_acks]. rewrite apply_effs_expand.
  unfold absw. cbn [set_ghost set_todo set_core z_core z_todo z_disk z_queue z_w].
  rewrite <- app_assoc. reflexivity.
Qed.

Lemma absw_zeff : forall ws z z' v, zeff z = Some (z', v) -> absw ws z' = absw ws z.
Proof.
  intros ws z z' v H. unfold zeff in H. destruct (z_todo z) as [|x t] eqn:Et; [discriminate H|].
  unfold absw. rewrite Et.
  destruct x as [id|id h|r]; inversion H; subst z' v; clear H;
    cbn [set_ghost set_todo set_disk set_queue z_core z_todo z_disk z_queue z_w fold_left xdisk flat_map xsend app].
  - reflexivity.
  - reflexivity.
  - rewrite <- !app_assoc. reflexivity.
Qed.

Lemma zcall_absw : forall ws z o z' v, zcall z o = Some (z', v) -> o <> OIdle ->
  exists r, run_op (absw ws z) o = (Some (absw ws z'), r).
Proof.
  intros ws z o z' v H Hni. unfold zcall in H.
  destruct (z_todo z) as [|x t] eqn:Et; [|discriminate H]. destruct (z_dropped z); [discriminate H|].
  assert (Ed : y_disk (absw ws z) = z_disk z) by (rewrite (absw_todo_nil ws z Et); reflexivity).
  destruct o as [w|cb|from to| | | | | |cfg']; cbn [run_op].
  - change (y_core (absw ws z)) with (z_core z).
    destruct (do_write (z_core z) w) as [[[k r] effs]|]; [|discriminate H].
    inversion H; subst z' v; clear H. rewrite (absw_effs ws z k effs _ Et). eexists. reflexivity.
  - change (y_core (absw ws z)) with (z_core z).
    destruct (do_flush (z_core z) cb) as [k effs].
    inversion H; subst z' v; clear H. rewrite (absw_effs ws z k effs _ Et). eexists. reflexivity.
  - change (y_core (absw ws z)) with (z_core z). rewrite Ed.
    destruct (do_read (z_core z) (z_disk z) from to) as [k items].
    inversion H; subst z' v; clear H. eexists. reflexivity.
  - inversion H; subst z' v. eexists. reflexivity.
  - inversion H; subst z' v. eexists. reflexivity.
  - inversion H; subst z' v. eexists. reflexivity.
  - exfalso. apply Hni. reflexivity.
  - inversion H; subst z' v; clear H. eexists. reflexivity.
  - discriminate H.
Qed.

(* one caller call on the abstract state, whatever the worker holds *)
Lemma zcall_I7w : forall ws z o z' v,
  zcall z o = Some (z', v) ->
  I7 (absw ws z) (spec_wops spec0 (hist z)) ->
  hist_legal z' -> Forall wop_wf (hist z') ->
  op_above_bounds (absw ws z) o = true ->
  I7 (absw ws z') (spec_wops spec0 (hist z')).
Proof.
  intros ws z o z' v H HP Hleg Hwf Hok.
  destruct (op_eq_idle o) as [Eo|Eo].
  - subst o. unfold zcall in H. destruct (z_todo z); [|discriminate H].
    destruct (z_dropped z); [discriminate H|]. destruct (z_queue z); [|discriminate H].
    destruct (worker_quiet z); [|discriminate H]. inversion H; subst z' v. exact HP.
  - destruct (zcall_absw ws _ _ _ _ H Eo) as [r Hr].
    assert (Hsp : spec_wops spec0 (hist z') = spec_op (spec_wops spec0 (hist z)) o /\
                  op_c07 (spec_wops spec0 (hist z)) o = true /\ op_wf o).
    { destruct (hist_step _ _ _ _ (H : zstep z (ZCall o) = Some (z', v))) as [E|(w & Ew & E)].
      - rewrite E. destruct o as [w|cb|from to| | | | | |cfg']; cbn [spec_op op_c07 op_wf];
          try (split; [reflexivity|split; [reflexivity|exact I]]).
        + exfalso. unfold zcall in H. destruct (z_todo z); [|discriminate H].
          destruct (z_dropped z); [discriminate H|].
          destruct (do_write (z_core z) w) as [[[k r0] effs]|]; [|discriminate H].
          inversion H; subst z' v. unfold hist in E. zproj. rewrite map_app in E. cbn [map fst] in E.
          apply (f_equal (@length wop)) in E. rewrite app_length in E. cbn [length] in E. lia.
        + exfalso. unfold zcall in H. destruct (z_todo z); [|discriminate H].
          destruct (z_dropped z); discriminate H.
      - inversion Ew. subst o. rewrite E. rewrite spec_wops_snoc. cbn [spec_op op_c07 op_wf].
        split; [reflexivity|]. unfold hist_legal in Hleg. rewrite E, wops_legal_snoc in Hleg.
        apply andb_true_iff in Hleg. rewrite E in Hwf. apply Forall_app in Hwf. destruct Hwf as [_ Hwf].
        inversion Hwf; subst. split; [apply Hleg|assumption]. }
    destruct Hsp as (Esp & Hc & Hw). rewrite Esp.
    destruct (I7_run_op (absw ws z) _ o HP Hc Hw Hok) as (y' & r' & Hr' & HI').
    rewrite Hr in Hr'. inversion Hr'. subst y'. exact HI'.
Qed.

(* ------------------------------------------------------------------ the end of the worker thread *)
Lemma zwork_die : forall z ok z' v, zwork z ok = Some (z', v) -> w_alive (z_w z') = false ->
  z' = set_w z (w_die (z_w z)).
Proof.
  intros z ok z' v H Hd. unfold zwork in H.
  destruct z as [k t d q w a dr g]. zproj.
  destruct w as [wf al ba sf pp]. zproj.
  destruct al; [|discriminate H]. destruct ba as [b|]; [|discriminate H].
  destruct b as [ws nf pos bok]. zproj.
  destruct pos as [i| | | |i| | |rem|].
  - destruct (nth_error ws i) as [ww|].
    + destruct (ww_data ww) as [|x data].
      * inversion H; subst z'. zproj. discriminate Hd.
      * destruct (newest _) as [f|]; [|discriminate H]. destruct ok; inversion H; subst z'; zproj;
          [discriminate Hd|reflexivity].
    + inversion H; subst z'. zproj. discriminate Hd.
  - destruct wf as [|f [|f2 rest]]; [| |destruct ok]; inversion H; subst z'; zproj; discriminate Hd.
  - destruct wf as [|f rest]; [discriminate H|]. inversion H; subst z'. zproj. discriminate Hd.
  - destruct wf as [|f rest]; [discriminate H|]. destruct ok; inversion H; subst z'; zproj; discriminate Hd.
  - destruct (nth_error ws i) as [ww|].
    + destruct (ww_cb ww) as [c|]; inversion H; subst z'; zproj; discriminate Hd.
    + inversion H; subst z'. zproj. discriminate Hd.
  - destruct sf; [inversion H; subst z'; zproj; discriminate Hd|].
    destruct pp as [|id rest]; [inversion H; subst z'; zproj; discriminate Hd|].
    destruct ok; inversion H; subst z'; zproj; [discriminate Hd|reflexivity].
  - destruct nf as [[u data cb|off prev|rids]|]; [discriminate H| | |];
      try (inversion H; subst z'; zproj; discriminate Hd).
    destruct sf; inversion H; subst z'; zproj; discriminate Hd.
  - destruct rem as [|id rest]; [inversion H; subst z'; zproj; discriminate Hd|].
    destruct ok; inversion H; subst z'; zproj; [discriminate Hd|reflexivity].
  - inversion H; subst z'. zproj. discriminate Hd.
Qed.

Lemma alive_fwd : forall z e z' v, zstep z e = Some (z', v) ->
  w_alive (z_w z) = true -> w_alive (z_w z') = false -> exists ok, e = ZWork ok.
Proof.
  intros z e z' v H Ha Hd. destruct e as [o| |k nf|ok|]; cbn [zstep] in H.
  - exfalso. unfold zcall in H. inv_step H; zproj; congruence.
  - exfalso. unfold zeff in H. inv_step H; zproj; congruence.
  - exfalso. unfold zrecv in H. inv_step H; zproj; congruence.
  - exists ok. reflexivity.
  - exfalso. destruct (z_todo z); [|discriminate H]. inversion H; subst z'. zproj. congruence.
Qed.

Lemma dead_steps : forall z e z' v, zstep z e = Some (z', v) -> w_alive (z_w z) = false ->
  w_alive (z_w z') = false /\ w_files (z_w z') = w_files (z_w z) /\
  ((exists o, e = ZCall o) \/ e = ZEff \/ e = ZDrop).
Proof.
  intros z e z' v H Hd. destruct e as [o| |k nf|ok|]; cbn [zstep] in H.
  - assert (Ew : z_w z' = z_w z) by (unfold zcall in H; inv_step H; reflexivity).
    rewrite Ew. split; [exact Hd|]. split; [reflexivity|]. left. exists o. reflexivity.
  - assert (Ew : z_w z' = z_w z) by (unfold zeff in H; inv_step H; reflexivity).
    rewrite Ew. split; [exact Hd|]. split; [reflexivity|]. right. left. reflexivity.
  - exfalso. unfold zrecv in H. rewrite Hd in H. discriminate H.
  - exfalso. unfold zwork in H. rewrite Hd in H. discriminate H.
  - destruct (z_todo z); [|discriminate H]. inversion H; subst z'. zproj.
    split; [exact Hd|]. split; [reflexivity|]. right. right. reflexivity.
Qed.

(* ------------------------------------------------------------------ runs *)
Definition pend (z : sys2) (lost : list wreq) : list wreq :=
  if w_alive (z_w z) then wstream (z_w z) else lost.
(* what a dying worker thread leaves undone *)
Definition next_lost (z z' : sys2) (lost : list wreq) : list wreq :=
  if w_alive (z_w z) && negb (w_alive (z_w z')) then wstream (z_w z) else lost.

Fixpoint zrun_ok_c07f (z : sys2) (lost : list wreq) (es : list zev) : bool :=
  match es with
  | [] => true
  | e :: r =>
    match e with ZCall o => op_above_bounds (absw (pend z lost) z) o | _ => true end &&
    match zstep z e with
    | Some (z1, _) => zrun_ok_c07f z1 (next_lost z z1 lost) r
    | None => true
    end
  end.

Definition P8 (z : sys2) (lost : list wreq) : Prop :=
  hist_legal z -> Forall wop_wf (hist z) ->
  I7 (absw (pend z lost) z) (spec_wops spec0 (hist z)).

Lemma P8_step : forall z lost e z' v,
  AckDurable.full z -> PurgeFacts.Inv z -> P8 z lost ->
  zstep z e = Some (z', v) ->
  match e with ZCall o => op_above_bounds (absw (pend z lost) z) o | _ => true end = true ->
  P8 z' (next_lost z z' lost).
Proof.
  intros z lost e z' v HF HInv HP H Hok Hleg Hwf.
  assert (Hprev : hist_legal z /\ Forall wop_wf (hist z)).
  { destruct (hist_step _ _ _ _ H) as [E|(w & _ & E)]; unfold hist_legal in *; rewrite E in *.
    - split; assumption.
    - rewrite wops_legal_snoc in Hleg. apply andb_true_iff in Hleg. apply Forall_app in Hwf.
      split; [apply Hleg|apply Hwf]. }
  destruct Hprev as [Hleg0 Hwf0]. specialize (HP Hleg0 Hwf0).
  unfold pend, next_lost in *.
  destruct (w_alive (z_w z')) eqn:Hal'.
  - (* the worker is alive after the step: the step lemma of ReadSys.v *)
    pose proof (AckDurable.alive_back _ _ _ _ H Hal') as Hal. rewrite Hal in *. cbn [andb negb].
    rewrite <- abs_absw in *.
    assert (HP7 : P7 z) by (intros _ _ _; exact HP).
    apply (P7_step z e z' v HF HInv HP7 H); [|exact Hleg|exact Hwf|exact Hal'].
    unfold zstep_ok. exact Hok.
  - destruct (w_alive (z_w z)) eqn:Hal; cbn [andb negb].
    + (* the worker thread ends *)
      destruct (alive_fwd _ _ _ _ H Hal Hal') as [ok Ee]. subst e. cbn [zstep] in H.
      pose proof (zwork_die _ _ _ _ H Hal') as Ez. subst z'.
      assert (Eh : hist (set_w z (w_die (z_w z))) = hist z) by reflexivity.
      rewrite Eh. exact HP.
    + (* the worker thread has ended before *)
      destruct (dead_steps _ _ _ _ H Hal) as (_ & Ef & [[o Ee]|[Ee|Ee]]); subst e; cbn [zstep] in H.
      * apply (zcall_I7w lost z o z' v H HP Hleg Hwf Hok).
      * destruct (hist_step _ _ _ _ (H : zstep z ZEff = Some (z', v))) as [E|(w & Ew & _)]; [|discriminate Ew].
        rewrite E, (absw_zeff lost _ _ _ H). exact HP.
      * destruct (z_todo z) eqn:Et; [|discriminate H]. inversion H; subst z' v; clear H.
        unfold hist. zproj.
        assert (Ea : absw lost (mkSys2 (z_core z) [] (z_disk z) (z_queue z) (z_w z) (z_acks z) true (z_ghost z))
                     = absw lost z).
        { unfold absw. zproj. rewrite Et. reflexivity. }
        rewrite Ea. exact HP.
Qed.

Lemma P8_run : forall es z lost z' v,
  AckDurable.full z -> PurgeFacts.Inv z -> P8 z lost ->
  zrun z es = Some (z', v) -> zrun_ok_c07f z lost es = true ->
  exists lost', P8 z' lost'.
Proof.
  intros es. induction es as [|e es IH]; intros z lost z' v HF HInv HP H Hok; cbn [zrun] in H.
  - inversion H; subst. exists lost. exact HP.
  - cbn [zrun_ok_c07f] in Hok. apply andb_true_iff in Hok. destruct Hok as [Hok1 Hok2].
    destruct (zstep z e) as [[z1 v1]|] eqn:E; [|discriminate H].
    destruct (zrun z1 es) as [[z2 v2]|] eqn:E2; [|discriminate H]. inversion H; subst z2 v. clear H.
    apply (IH z1 (next_lost z z1 lost) z' v2); [| | |exact E2|exact Hok2].
    + eapply AckDurable.full_step; eassumption.
    + eapply inv_zstep; eassumption.
    + eapply P8_step; eassumption.
Qed.

(* Every reachable state of the L2 system between two calls, worker failures of every
   kind included. *)
Theorem C07_reads_total_outside_known_L2_faults : forall cfg es z v,
  zrun (z0_of cfg) es = Some (z, v) ->
  zrun_ok_c07f (z0_of cfg) [] es = true ->
  hist_legal z -> Forall wop_wf (hist z) -> z_todo z = [] ->
  let sp := spec_wops spec0 (hist z) in
  m_rs (k_sm (z_core z)) = spec_state sp /\
  (forall from to, read_ok (snd (do_read (z_core z) (z_disk z) from to)) (spec_read sp from to)) /\
  read_ok (do_dump_iter (z_core z) (z_disk z)) (sp_entries sp).
Proof.
  intros cfg es z v Hrun Hok Hleg Hwf Ht sp.
  assert (HP : exists lost, P8 z lost).
  { apply (P8_run es (z0_of cfg) [] z v); [rewrite z0_zstart; apply AckDurable.full_init|apply inv_init|
      |exact Hrun|exact Hok].
    intros _ _. apply (P7_init cfg); [reflexivity|constructor|reflexivity]. }
  destruct HP as [lost HP].
  pose proof (I7_observes _ _ (HP Hleg Hwf)) as Ho. unfold observes in Ho.
  rewrite (absw_todo_nil _ z Ht) in Ho. cbn [y_core y_disk] in Ho. exact Ho.
Qed.

(* while the worker thread lives the check is the one of ReadSys.v *)
Lemma zrun_ok_alive : forall es z lost z' v,
  zrun z es = Some (z', v) -> w_alive (z_w z') = true ->
  zrun_ok_c07f z lost es = zrun_ok_c07 z es.
Proof.
  intros es. induction es as [|e es IH]; intros z lost z' v H Hal; [reflexivity|].
  cbn [zrun] in H. cbn [zrun_ok_c07f zrun_ok_c07].
  destruct (zstep z e) as [[z1 v1]|] eqn:E; [|discriminate H].
  destruct (zrun z1 es) as [[z2 v2]|] eqn:E2; [|discriminate H]. inversion H; subst z2 v. clear H.
  assert (Hal1 : w_alive (z_w z1) = true).
  { clear IH E. revert z1 v2 E2. induction es as [|e' es IH']; intros z1 v2 E2; cbn [zrun] in E2.
    - inversion E2; subst. exact Hal.
    - destruct (zstep z1 e') as [[z3 v3]|] eqn:E3; [|discriminate E2].
      destruct (zrun z3 es) as [[z4 v4]|] eqn:E4; [|discriminate E2]. inversion E2; subst z4.
      apply (AckDurable.alive_back _ _ _ _ E3). apply (IH' z3 v4 E4). }
  pose proof (AckDurable.alive_back _ _ _ _ E Hal1) as Hal0.
  rewrite (IH z1 (next_lost z z1 lost) z' v2 E2 Hal).
  unfold zstep_ok, pend. rewrite Hal0. reflexivity.
Qed.

(* the hypotheses are satisfiable by a run in which the first write of the worker fails *)
Example C07_L2_faults_inhabited :
  let cfg := mkConfig 0 0 3 100000 true in
  let es := [ZCall (OW (OAppend [((1, 0), [x01]); ((1, 1), []); ((1, 2), [])])); ZEff; ZEff; ZEff; ZEff;
             ZCall (OFlush true); ZEff; ZRecv 0 true; ZWork false;
             ZCall (OW (OAppend [((2, 3), [])])); ZEff; ZEff; ZEff; ZEff; ZCall (ORead 0 10)] in
  exists z v, zrun (z0_of cfg) es = Some (z, v) /\ zrun_ok_c07f (z0_of cfg) [] es = true /\
    hist_legal z /\ w_alive (z_w z) = false /\ z_todo z = [] /\
    map fst (ch_entries (m_cache (k_sm (z_core z)))) = [(1, 0); (1, 1); (1, 2); (2, 3)].
Proof.
  cbv zeta. eexists. eexists. split; [vm_compute; reflexivity|].
  split; [vm_compute; reflexivity|]. split; [vm_compute; reflexivity|].
  split; [reflexivity|]. split; reflexivity.
Qed.

Print Assumptions C07_reads_total_outside_known_L2_faults.
