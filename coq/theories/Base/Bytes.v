(* Byte strings, big-endian fixed-width integers, and the decode-result type.
   No proofs here: this file is part of the executable model. *)
From Coq Require Import List NArith Bool.
From Coq.Strings Require Import Byte.
Import ListNotations.
Local Open Scope N_scope.

Definition bytes := list byte.

Definition b2n (b : byte) : N := Byte.to_N b.
Definition n2b (n : N) : byte :=
  match Byte.of_N (n mod 256) with Some b => b | None => x00 end.

(* [be_enc k n]: the k-byte big-endian encoding of [n mod 256^k]
   (Rust: write_u32::<BigEndian>(n as u32), write_u64::<BigEndian>). *)
Fixpoint be_enc (k : nat) (n : N) : bytes :=
  match k with
  | O => []
  | S k' => n2b (n / 256 ^ N.of_nat k') :: be_enc k' n
  end.

Fixpoint be_dec_acc (acc : N) (bs : bytes) : N :=
  match bs with
  | [] => acc
  | b :: r => be_dec_acc (acc * 256 + b2n b) r
  end.
Definition be_dec (bs : bytes) : N := be_dec_acc 0 bs.

(* Result of a streaming decoder, mirroring the io::ErrorKind distinction that
   drives recovery: UnexpectedEof vs. any other error. *)
Inductive dres (A : Type) : Type := DOk (a : A) | DEof | DInvalid.
Arguments DOk {A} _.
Arguments DEof {A}.
Arguments DInvalid {A}.

(* A parser consumes a prefix of its input and returns the value and the rest. *)
Definition parser (A : Type) := bytes -> dres (A * bytes).

Definition pret {A} (a : A) : parser A := fun bs => DOk (a, bs).
Definition pbind {A B} (p : parser A) (f : A -> parser B) : parser B :=
  fun bs => match p bs with
            | DOk (a, r) => f a r
            | DEof => DEof
            | DInvalid => DInvalid
            end.
Definition pfail {A} : parser A := fun _ => DInvalid.
Definition pmap {A B} (f : A -> B) (p : parser A) : parser B :=
  pbind p (fun a => pret (f a)).
Definition pmapo {A B} (p : parser A) (f : A -> option B) : parser B :=
  pbind p (fun a => match f a with Some b => pret b | None => pfail end).
Definition ppair {A B} (pa : parser A) (pb : parser B) : parser (A * B) :=
  pbind pa (fun a => pbind pb (fun b => pret (a, b))).

(* read_exact of n bytes: UnexpectedEof when fewer are available *)
Fixpoint take_n (n : nat) (bs : bytes) : dres (bytes * bytes) :=
  match n with
  | O => DOk ([], bs)
  | S n' =>
    match bs with
    | [] => DEof
    | b :: r =>
      match take_n n' r with
      | DOk (x, r') => DOk (b :: x, r')
      | DEof => DEof
      | DInvalid => DInvalid
      end
    end
  end.

(* k-byte big-endian unsigned integer *)
Definition p_be (k : nat) : parser N := pmap be_dec (take_n k).

Definition zeros (k : nat) : bytes := repeat x00 k.
Definition is_zero (b : byte) : bool := N.eqb (b2n b) 0.
Definition all_zero (bs : bytes) : bool := forallb is_zero bs.
