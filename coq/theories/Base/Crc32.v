(* Table-driven CRC-32 (IEEE, reflected, as computed by crc32fast). Model part. *)
From Coq Require Import List NArith Bool.
From Coq.Strings Require Import Byte.
Import ListNotations.
Local Open Scope N_scope.

Definition poly : N := 0xEDB88320.
Fixpoint step8 (k : nat) (c : N) : N :=
  match k with
  | O => c
  | S k' => step8 k' (if N.testbit c 0 then N.lxor (N.shiftr c 1) poly else N.shiftr c 1)
  end.
Definition table : list N := Eval vm_compute in map (fun i => step8 8 (N.of_nat i)) (seq 0 256).
Definition tbl (i : N) : N := nth (N.to_nat i) table 0.
Definition upd (c : N) (b : byte) : N :=
  N.lxor (tbl (N.land (N.lxor c (Byte.to_N b)) 0xFF)) (N.shiftr c 8).
Definition crc_run (c : N) (bs : list byte) : N := fold_left upd bs c.
Definition crc32 (bs : list byte) : N := N.lxor (crc_run 0xFFFFFFFF bs) 0xFFFFFFFF.
