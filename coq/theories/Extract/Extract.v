(* Extraction of the executable model and the reference specification.
   Only ExtrOcamlBasic (Extract Inductive for bool, option, unit, prod, list,
   sumbool, sumor, comparison); no Extract Constant. *)
Require Import ExtrOcamlBasic.
From RaftLog Require Import Base.Bytes Base.Crc32 Model.Types Model.Codec Model.Cache
  Model.Core Model.Recover Model.Dump Model.Run Model.Sys Model.Names Model.Lock Spec.Spec Spec.Hist.
Extraction Language OCaml.
Extraction "model.ml"
  enc_record dec_record rec_size crc32
  run_case run_ops open_dir worker_idle scan_file disk_get do_dump_iter
  spec0 spec_apply spec_step spec_read spec_state write_legal swrites_of
  spec_wop wop_legal
  zstep zinit sys2_of process_crash_image
  chunk_file_name parse_chunk_file_name
  dump_ref dump_dir
  l_init lstep.
