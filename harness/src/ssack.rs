//! C04 through the crate's OWN callback implementation (`impl Callback for SyncSender`): the
//! harness's `Cb` type is what every other mode uses, so the shipped implementation would
//! otherwise never run. One bounded channel is shared by all flushes of a case; the caller
//! issues every flush first and drains the channel afterwards, so the worker meets a full
//! (or rendezvous) channel when it delivers. Case line: `SSACK cap n max_records`;
//! result line: `ssack got=<acks received> ok=<of them Ok>`.

use std::io;
use std::sync::mpsc::{sync_channel, RecvTimeoutError, SyncSender};
use std::time::Duration;


use raft_log::api::raft_log_writer::RaftLogWriter;

use crate::proto::{pu, Blob, PVote};

#[derive(Debug, Clone, PartialEq, Eq, Default)]
pub struct HS;

impl raft_log::Types for HS {
    type LogId = (u64, u64);
    type LogPayload = Blob;
    type Vote = PVote;
    type Callback = SyncSender<Result<(), io::Error>>;
    type UserData = Blob;

    fn log_index(log_id: &Self::LogId) -> u64 {
        log_id.1
    }
    fn payload_size(payload: &Self::LogPayload) -> u64 {
        payload.0.len() as u64
    }
}

fn one(line: &str, dir: &str) -> String {
    let t: Vec<&str> = line.split_whitespace().collect();
    if t.len() < 4 || t[0] != "SSACK" {
        return "badcase".to_string();
    }
    let (cap, n, maxrec) = (pu(t[1]) as usize, pu(t[2]), pu(t[3]) as usize);
    let _ = std::fs::remove_dir_all(dir);
    std::fs::create_dir_all(dir).unwrap();
    let mut cfg = raft_log::Config::new(dir);
    cfg.chunk_max_records = Some(maxrec);
    let mut rl = match raft_log::RaftLog::<HS>::open(std::sync::Arc::new(cfg)) {
        Ok(r) => r,
        Err(e) => return format!("openerr {:?}", e.kind()),
    };
    let (tx, rx) = sync_channel::<Result<(), io::Error>>(cap);
    for i in 0..n {
        if rl.append([((1u64, i), Blob(vec![b'a' + (i % 26) as u8; 1 + (i % 7) as usize]))]).is_err() {
            return "appenderr".to_string();
        }
        if rl.flush(Some(tx.clone())).is_err() {
            return "flusherr".to_string();
        }
    }
    drop(tx);
    let (mut got, mut ok) = (0u64, 0u64);
    loop {
        match rx.recv_timeout(Duration::from_secs(10)) {
            Ok(r) => {
                got += 1;
                if r.is_ok() {
                    ok += 1;
                }
            }
            Err(RecvTimeoutError::Disconnected) => break,
            Err(RecvTimeoutError::Timeout) => break,
        }
        if got >= n {
            // everything expected has arrived; a further (duplicate) ack would come at once
            match rx.recv_timeout(Duration::from_millis(50)) {
                Ok(_) => got += 1,
                Err(_) => {}
            }
            break;
        }
    }
    drop(rl);
    let _ = std::fs::remove_dir_all(dir);
    format!("ssack got={} ok={}", got, ok)
}

pub fn main(args: &[String]) {
    let text = std::fs::read_to_string(&args[0]).expect("read cases");
    let root = crate::work_root();
    let mut out = String::new();
    for (i, l) in text.lines().map(|s| s.trim()).filter(|s| !s.is_empty()).enumerate() {
        let dir = format!("{}/ss{}", root, i);
        let r = std::panic::catch_unwind(|| one(l, &dir)).unwrap_or_else(|_| "panic".to_string());
        out.push_str(&r);
        out.push('\n');
    }
    std::fs::write(&args[1], out).expect("write out");
    let _ = std::fs::remove_dir_all(&root);
}
