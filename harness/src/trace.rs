pub fn main(_args: &[String]) {}
pub fn lock_child(_args: &[String]) {}
