//! K-trace: run a scheduled case with the worker gated at its system calls, record the
//! global event order, inject faults, take directory snapshots.
//!
//! Usage: rlharness trace <cases-file> <out-file>
//! Case: `TRACE <cfg> | item ; item ; ...` with items: any caller op of the SEQ protocol
//! (V A T P C U S F R D G Z E), `w N` (up to N worker events), `wi` (worker until idle),
//! `fault <write|sync|unlink> <n>`, `snap`, `drop`, `open <cfg>`.

use std::io::Write;
use std::panic::{catch_unwind, AssertUnwindSafe};

use crate::proto::*;
use crate::shim;
use crate::{exec_op, open_store, OpenRes, Store};

fn idle_ms() -> u64 {
    std::env::var("VERIF_IDLE_MS").ok().and_then(|s| s.parse().ok()).unwrap_or(25)
}

pub fn main(args: &[String]) {
    let cases = std::fs::read_to_string(&args[0]).expect("read cases");
    let mut out = std::io::BufWriter::new(std::fs::File::create(&args[1]).expect("create out"));
    let base = std::env::var("VERIF_WORK").unwrap_or_else(|_| {
        if std::path::Path::new("/dev/shm").is_dir() { "/dev/shm".to_string() } else { std::env::temp_dir().to_string_lossy().to_string() }
    });
    let root = format!("{}/rlt-{}", base, std::process::id());
    for (i, line) in cases.lines().enumerate() {
        let line = line.trim();
        if line.is_empty() {
            continue;
        }
        // every third case names its directory by a detour (`<root>/nc<i>/../t<i>`): the same
        // directory under a spelling that is not its canonical path, on every open of the case
        let dir = if i % 3 == 1 {
            let _ = std::fs::create_dir_all(format!("{}/nc{}", root, i));
            format!("{}/nc{}/../t{}", root, i, i)
        } else {
            format!("{}/t{}", root, i)
        };
        let _ = std::fs::remove_dir_all(&dir);
        std::fs::create_dir_all(&dir).unwrap();
        let r = catch_unwind(AssertUnwindSafe(|| run_trace(line, &dir))).unwrap_or_else(|_| {
            let _ = shim::stop();
            "harness-panic".to_string()
        });
        writeln!(out, "{}", r).unwrap();
        out.flush().unwrap();
        let _ = std::fs::remove_dir_all(&dir);
    }
    let _ = std::fs::remove_dir_all(&root);
    std::process::exit(0);
}

/// One API call of the caller, logged as `c call` / `c ret`. Returns true when the store
/// must not be used any more (panic).
fn call(s: &mut Store, dir: &str, it: &str, idle: u64) -> bool {
    let t: Vec<&str> = it.split_whitespace().collect();
    shim::logline(format!("c call {}", it));
    let creates = shim::count_creates();
    let (res, stop) = exec_op(s, dir, &t);
    // the call may have handed requests to an idle worker (a flush, or a chunk
    // rotation): let it run to its next gate before the result is recorded
    if t[0] == "F" || shim::count_creates() != creates {
        shim::settle(idle);
    }
    shim::logline(format!("c ret {}", res));
    stop
}

/// Is the thread with this tid asleep (state S in /proc)?
fn thread_asleep(tid: i64) -> bool {
    let stat = std::fs::read_to_string(format!("/proc/self/task/{}/stat", tid)).unwrap_or_default();
    match stat.rfind(')') {
        Some(i) => stat[i + 1..].trim_start().starts_with('S'),
        None => false,
    }
}

fn run_trace(line: &str, dir: &str) -> String {
    let rest = line.strip_prefix("TRACE").unwrap_or(line);
    let parts: Vec<&str> = rest.split('|').collect();
    let cfg: Vec<&str> = parts[0].split_whitespace().collect();
    let items: Vec<String> = parts[1].split(';').map(|s| s.trim().to_string()).filter(|s| !s.is_empty()).collect();
    let idle = idle_ms();
    shim::AUTO_SNAP.store(false, std::sync::atomic::Ordering::SeqCst);
    shim::CFAULT_CREATE.store(0, std::sync::atomic::Ordering::SeqCst);
    shim::start(dir);
    shim::logline(format!("c open {}", cfg.join(" ")));
    let mut st: Option<Store> = match open_store(&cfg, dir) {
        OpenRes::Ok(s) => {
            shim::wait_worker_named();
            shim::logline("c opened".to_string());
            Some(s)
        }
        OpenRes::Err(k) => {
            shim::logline(format!("c openerr {}", kind_str(k)));
            None
        }
        OpenRes::Panic => {
            shim::logline("c panic".to_string());
            None
        }
    };
    let mut held_drop: Option<std::thread::JoinHandle<()>> = None;
    let mut kept_snaps: Vec<raft_log::DumpRaftLog<HT>> = Vec::new();
    for it in &items {
        let t: Vec<&str> = it.split_whitespace().collect();
        match t[0] {
            "w" => {
                let n: u64 = t.get(1).map(|s| pu(s)).unwrap_or(1);
                for _ in 0..n {
                    if !shim::worker_step(idle) {
                        break;
                    }
                }
            }
            "wi" => {
                let mut guard = 0;
                while shim::worker_step(idle) {
                    guard += 1;
                    if guard > 10000 {
                        break;
                    }
                }
                shim::logline("c idle".to_string());
            }
            "fault" => shim::add_fault(t[1], pu(t[2])),
            "autosnap" => shim::AUTO_SNAP.store(true, std::sync::atomic::Ordering::SeqCst),
            "DSK" => {
                // a snapshot (dump_data) that outlives the store: kept until the end of the case
                if let Some(s) = st.as_ref() {
                    kept_snaps.push(s.rl.dump_data());
                    shim::logline("c keptsnap".to_string());
                }
            }
            "cfault" => {
                // cfault create N: the N-th creation of a chunk file by the caller fails (disk full)
                shim::CFAULT_CREATE.store(pu(t[2]), std::sync::atomic::Ordering::SeqCst);
            }
            "copyopen" => {
                // the directory as it is now (lock file included) copied aside and opened in this
                // very process while the original owner is still alive: a process-crash image
                // restarted under a pid that is (still, or again) in use
                shim::settle(idle);
                // a sibling directory: its files are not the traced ones
                let img = match dir.rsplit_once('/') {
                    Some((parent, name)) => format!("{}/img-{}", parent, name),
                    None => format!("img-{}", dir),
                };
                let _ = std::fs::remove_dir_all(&img);
                std::fs::create_dir_all(&img).unwrap();
                if let Ok(rd) = std::fs::read_dir(dir) {
                    for e in rd.flatten() {
                        let _ = std::fs::copy(e.path(), format!("{}/{}", img, e.file_name().to_string_lossy()));
                    }
                }
                let r = open_store(&cfg, &img);
                let line = match r {
                    OpenRes::Ok(s) => {
                        drop(s);
                        "c copyopen ok".to_string()
                    }
                    OpenRes::Err(k) => format!("c copyopen err {}", kind_str(k)),
                    OpenRes::Panic => "c copyopen panic".to_string(),
                };
                shim::logline(line);
                let _ = std::fs::remove_dir_all(&img);
            }
            "snap" => {
                shim::settle(idle);
                shim::logline(format!("c snap {}", disk_str(dir)));
                shim::logline(format!("c lockfile {}", hex(&std::fs::read(format!("{}/LOCK", dir)).unwrap_or_default())));
            }
            "drop" => {
                // dropping waits for the worker: it must be free to run
                if let Some(s) = st.take() {
                    shim::logline("c drop".to_string());
                    shim::set_gate(false);
                    drop(s);
                    shim::set_gate(true);
                    shim::logline("c dropped".to_string());
                }
            }
            "dropheld" => {
                // drop while the worker is held at its gate: does drop return before the
                // worker has finished?
                if let Some(s) = st.take() {
                    shim::logline("c drop".to_string());
                    let (tx, rx) = std::sync::mpsc::channel();
                    // `dropheld <ms> cb`: the store is dropped the way a flush callback of ANOTHER
                    // store would drop it: on a thread that carries the FlushWorker's thread name
                    let as_cb = t.get(2).map(|s| *s == "cb").unwrap_or(false);
                    let b = if as_cb {
                        std::thread::Builder::new().name("raft_log_wal_flush_worker".to_string())
                    } else {
                        std::thread::Builder::new()
                    };
                    let h = b
                        .spawn(move || {
                            shim::set_role_override("c");
                            drop(s);
                            let _ = tx.send(());
                        })
                        .unwrap();
                    let wait_ms: u64 = t.get(1).map(|s| pu(s)).unwrap_or(150);
                    let returned = rx.recv_timeout(std::time::Duration::from_millis(wait_ms)).is_ok();
                    shim::logline(format!("c dropheld {}", if returned { "returned" } else { "blocked" }));
                    if returned {
                        let _ = h.join();
                    } else {
                        held_drop = Some(h);
                    }
                }
            }
            "panicheld" => {
                // like dropheld, but the store is dropped by a panic unwinding through its
                // owner (the worker is held at its gate)
                if let Some(s) = st.take() {
                    shim::logline("c drop".to_string());
                    let (tx, rx) = std::sync::mpsc::channel();
                    struct SendOnDrop(std::sync::mpsc::Sender<()>);
                    impl Drop for SendOnDrop {
                        fn drop(&mut self) {
                            let _ = self.0.send(());
                        }
                    }
                    let h = std::thread::spawn(move || {
                        let _after = SendOnDrop(tx); // dropped after the store
                        let _owned = s;
                        panic!("injected panic while owning the store");
                    });
                    let returned = rx.recv_timeout(std::time::Duration::from_millis(150)).is_ok();
                    shim::logline(format!("c dropheld {}", if returned { "returned" } else { "blocked" }));
                    if returned {
                        let _ = h.join();
                    } else {
                        held_drop = Some(h);
                    }
                }
            }
            "release" => {
                shim::set_gate(false);
                if let Some(h) = held_drop.take() {
                    let _ = h.join();
                }
                shim::set_gate(true);
                shim::logline("c dropped".to_string());
            }
            "open" => {
                shim::logline(format!("c open {}", t[1..].join(" ")));
                match open_store(&t[1..], dir) {
                    OpenRes::Ok(s) => {
                        shim::wait_worker_named();
                        shim::logline("c opened".to_string());
                        st = Some(s);
                    }
                    OpenRes::Err(k) => shim::logline(format!("c openerr {}", kind_str(k))),
                    OpenRes::Panic => shim::logline("c panic".to_string()),
                }
            }
            "open2" => {
                // a second attempt on the same directory while the first store (if any) is still
                // alive and keeps its handle; a store obtained this way is dropped at once
                shim::logline(format!("c open2 {}", t[1..].join(" ")));
                match open_store(&t[1..], dir) {
                    OpenRes::Ok(s) => {
                        shim::logline("c open2 opened".to_string());
                        drop(s);
                    }
                    OpenRes::Err(k) => shim::logline(format!("c open2 err {}", kind_str(k))),
                    OpenRes::Panic => shim::logline("c open2 panic".to_string()),
                }
            }
            "burst" => {
                // N rounds of (append one entry, flush with callback) on a helper thread while
                // the worker is held at its gate: the bounded request channel fills up and the
                // caller blocks inside flush. The worker is let through one event at a time
                // only while the caller is asleep (blocked in send).
                let n: u64 = t.get(1).map(|s| pu(s)).unwrap_or(1040);
                // only the last m rounds append an entry before the flush (the others are
                // flushes with nothing pending: they fill the channel without growing the file)
                let m: u64 = t.get(2).map(|s| pu(s)).unwrap_or(n);
                // optional tail, run by the same helper thread once the channel is (nearly) full:
                // `P <term> <index>` then one more flush with a callback
                let tail: Option<String> = if t.len() >= 6 && t[3] == "P" { Some(format!("P {} {}", t[4], t[5])) } else { None };
                if let Some(mut s) = st.take() {
                    let (tx, rx) = std::sync::mpsc::channel();
                    let tid = std::sync::Arc::new(std::sync::atomic::AtomicI64::new(0));
                    let tid2 = tid.clone();
                    let dir2 = dir.to_string();
                    let h = std::thread::spawn(move || {
                        tid2.store(unsafe { libc::syscall(libc::SYS_gettid) } as i64, std::sync::atomic::Ordering::SeqCst);
                        let (term, mut idx) = {
                            let l = s.rl.log_state().last().cloned();
                            match l {
                                Some(x) => (x.0, x.1 + 1),
                                None => (1, 0),
                            }
                        };
                        for k in 0..n {
                            let mut stop = false;
                            if k + m >= n {
                                let a = format!("A {} {} x{:02x}", term, idx, idx & 0xff);
                                stop = call(&mut s, &dir2, &a, idle);
                                idx += 1;
                            }
                            if stop || call(&mut s, &dir2, "F 1", idle) {
                                break;
                            }
                        }
                        if let Some(p) = tail {
                            let _ = call(&mut s, &dir2, &p, idle) || call(&mut s, &dir2, "F 1", idle);
                        }
                        let _ = tx.send(s);
                    });
                    let mut asleep = 0;
                    loop {
                        match rx.recv_timeout(std::time::Duration::from_millis(1)) {
                            Ok(s) => {
                                st = Some(s);
                                break;
                            }
                            Err(std::sync::mpsc::RecvTimeoutError::Timeout) => {
                                let t = tid.load(std::sync::atomic::Ordering::SeqCst);
                                if t != 0 && thread_asleep(t) {
                                    asleep += 1;
                                } else {
                                    asleep = 0;
                                }
                                if asleep >= 3 {
                                    shim::worker_step(idle);
                                    asleep = 0;
                                }
                            }
                            Err(std::sync::mpsc::RecvTimeoutError::Disconnected) => {
                                shim::logline("c panic".to_string());
                                break;
                            }
                        }
                    }
                    let _ = h.join();
                }
            }
            _ => {
                if let Some(s) = st.as_mut() {
                    if call(s, dir, it, idle) {
                        std::mem::forget(st.take());
                    }
                } else {
                    shim::logline(format!("c skipped {}", it));
                }
            }
        }
    }
    // let everything run out
    shim::set_gate(false);
    if let Some(h) = held_drop.take() {
        let _ = h.join();
    }
    std::thread::sleep(std::time::Duration::from_millis(5));
    let snap = disk_str(dir);
    drop(st);
    drop(kept_snaps);
    let mut log = shim::stop();
    log.push(format!("c end {}", snap));
    log.join(" ; ")
}


/// C13: contenders (threads of this process and child processes) race to open, use,
/// drop and reopen one directory. Usage:
///   rlharness lock <dir> <logfile> <threads> <procs> <rounds> <seed>
pub fn lock_main(args: &[String]) {
    let dir = args[0].clone();
    let logfile = args[1].clone();
    let threads: usize = args[2].parse().unwrap();
    let procs: usize = args[3].parse().unwrap();
    let rounds: usize = args[4].parse().unwrap();
    let seed: u64 = args[5].parse().unwrap();
    let _ = std::fs::remove_dir_all(&dir);
    std::fs::create_dir_all(&dir).unwrap();
    let _ = std::fs::remove_file(&logfile);
    std::fs::write(&logfile, b"").unwrap();
    let exe = std::env::current_exe().unwrap();
    let mut kids = Vec::new();
    for p in 0..procs {
        let k = std::process::Command::new(&exe)
            .args(["lockchild", &dir, &logfile, &threads.to_string(), &rounds.to_string(), &(seed + 1000 * (p as u64 + 1)).to_string()])
            .spawn()
            .unwrap();
        kids.push(k);
    }
    lock_contend(&dir, &logfile, threads, rounds, seed);
    for mut k in kids {
        let _ = k.wait();
    }
    std::process::exit(0);
}

pub fn lock_child(args: &[String]) {
    let threads: usize = args[2].parse().unwrap();
    let rounds: usize = args[3].parse().unwrap();
    let seed: u64 = args[4].parse().unwrap();
    lock_contend(&args[0], &args[1], threads, rounds, seed);
    std::process::exit(0);
}

fn lock_contend(dir: &str, logfile: &str, threads: usize, rounds: usize, seed: u64) {
    use std::os::unix::io::IntoRawFd;
    let f = std::fs::OpenOptions::new().append(true).open(logfile).unwrap();
    let fd = f.into_raw_fd();
    shim::start(dir);
    shim::set_gate(false);
    shim::LOCK_LOG_FD.store(fd, std::sync::atomic::Ordering::SeqCst);
    let mut hs = Vec::new();
    for t in 0..threads {
        let dir = dir.to_string();
        let h = std::thread::Builder::new()
            .name(format!("contender{}", t))
            .spawn(move || {
                let mut x = seed.wrapping_mul(6364136223846793005).wrapping_add(1442695040888963407 + t as u64);
                let mut rnd = move || {
                    x ^= x << 13;
                    x ^= x >> 7;
                    x ^= x << 17;
                    x
                };
                for r in 0..rounds {
                    std::thread::sleep(std::time::Duration::from_micros(rnd() % 1500));
                    let use_dump = rnd() % 4 == 0;
                    shim::lock_log("h attempt");
                    if use_dump {
                        let cfg = std::sync::Arc::new(crate::make_config(&["100", "100000", "3", "100000", "1", "64"], &dir));
                        match raft_log::Dump::<HT>::new(cfg) {
                            Ok(d) => {
                                shim::lock_log("h got dump");
                                std::thread::sleep(std::time::Duration::from_micros(rnd() % 800));
                                shim::lock_log("h dropping");
                                drop(d);
                                shim::lock_log("h dropped");
                            }
                            Err(e) => shim::lock_log(&format!("h refused {}", kind_str(e.kind()))),
                        }
                    } else {
                        match open_store(&["100", "100000", "3", "100000", "1", "64"], &dir) {
                            OpenRes::Ok(mut s) => {
                                shim::lock_log("h got store");
                                let idx = {
                                    let l = s.rl.log_state().last().cloned();
                                    l.map(|x| x.1 + 1).unwrap_or(0)
                                };
                                let t2: Vec<String> = vec!["A".into(), "1".into(), idx.to_string(), "x6162".into()];
                                let t3: Vec<&str> = t2.iter().map(|s| s.as_str()).collect();
                                let (res, _) = exec_op(&mut s, &dir, &t3);
                                shim::lock_log(&format!("h append {}", res));
                                if rnd() % 3 == 0 {
                                    // a dump of the live store (read-only) must not affect ownership
                                    use raft_log::DumpApi;
                                    let mut n = 0usize;
                                    let r = s.rl.dump().write_with(|_c, _i, _r| {
                                        n += 1;
                                        Ok(())
                                    });
                                    shim::lock_log(&format!("h dump {} {}", if r.is_ok() { "ok" } else { "err" }, n));
                                    let d = s.rl.dump_data();
                                    drop(d);
                                }
                                if idx >= 4 && rnd() % 2 == 0 {
                                    // purge so that old chunk files are removed
                                    let up = (idx - 2).to_string();
                                    let (res, _) = exec_op(&mut s, &dir, &["P", "1", &up]);
                                    shim::lock_log(&format!("h purge {}", res));
                                }
                                if r % 2 == 0 || idx >= 4 {
                                    let (res, _) = exec_op(&mut s, &dir, &["F", "1"]);
                                    shim::lock_log(&format!("h flush {}", res));
                                }
                                std::thread::sleep(std::time::Duration::from_micros(rnd() % 800));
                                shim::lock_log("h dropping");
                                drop(s);
                                shim::lock_log("h dropped");
                            }
                            OpenRes::Err(k) => shim::lock_log(&format!("h refused {}", kind_str(k))),
                            OpenRes::Panic => shim::lock_log("h panic"),
                        }
                    }
                }
            })
            .unwrap();
        hs.push(h);
    }
    for h in hs {
        let _ = h.join();
    }
}
