//! Syscall interposition (filled in by the trace checks).
pub fn note_callback(_id: u64, _ok: bool) {}
