//! libc symbol interposition inside the harness binary: observes, gates and can fail
//! the file-system calls that raft-log makes (through std and fs2), without any hook
//! in the crate. One global controller: trace cases run one at a time per process.

use std::collections::HashMap;
use std::ffi::CStr;
use std::os::raw::{c_char, c_int, c_void};
use std::sync::{Condvar, Mutex};
use std::time::{Duration, Instant};

#[derive(Clone, Debug)]
pub struct Fault {
    pub kind: String, // write | sync | unlink
    pub skip: u64,    // how many matching worker calls to let pass first
}

pub struct Ctl {
    pub enabled: bool,
    pub dir: String,
    pub log: Vec<String>,
    pub gate_armed: bool,
    pub permits: u64,
    pub at_gate: bool,
    pub events_done: u64,
    pub faults: Vec<Fault>,
    pub fdmap: HashMap<i32, String>, // fd -> "id" of a chunk file, or "LOCK"
    pub hold_unlink_ms: u64,
}

pub static CTL: Mutex<Option<Ctl>> = Mutex::new(None);
/// When >= 0: every logged event is also appended (O_APPEND, one write per line) to this
/// descriptor with a CLOCK_MONOTONIC timestamp and pid.thread-name, for the multi-process
/// lock races.
pub static LOCK_LOG_FD: std::sync::atomic::AtomicI32 = std::sync::atomic::AtomicI32::new(-1);

pub fn now_ns() -> u128 {
    let mut ts = libc::timespec { tv_sec: 0, tv_nsec: 0 };
    unsafe { libc::clock_gettime(libc::CLOCK_MONOTONIC, &mut ts) };
    (ts.tv_sec as u128) * 1_000_000_000 + ts.tv_nsec as u128
}

pub fn lock_log(line: &str) {
    let fd = LOCK_LOG_FD.load(std::sync::atomic::Ordering::Relaxed);
    if fd < 0 {
        return;
    }
    let t = std::thread::current();
    let s = format!("{} {}.{} {}\n", now_ns(), std::process::id(), t.name().unwrap_or("main"), line);
    unsafe { libc::syscall(libc::SYS_write, fd, s.as_ptr(), s.len()) };
}
pub static CV: Condvar = Condvar::new();

thread_local! {
    static IN_SHIM: std::cell::Cell<bool> = const { std::cell::Cell::new(false) };
}

thread_local! {
    /// A harness thread that carries the worker's thread NAME on purpose (a store dropped
    /// "inside another store's flush callback" runs on a thread with that name) is still a
    /// caller thread for logging and gating.
    static ROLE_OVERRIDE: std::cell::Cell<Option<&'static str>> = const { std::cell::Cell::new(None) };
}

pub fn set_role_override(r: &'static str) {
    ROLE_OVERRIDE.with(|c| c.set(Some(r)));
}

fn role() -> &'static str {
    if let Some(r) = ROLE_OVERRIDE.with(|c| c.get()) {
        return r;
    }
    let t = std::thread::current();
    match t.name() {
        Some("raft_log_wal_flush_worker") => "w",
        Some(n) if n.starts_with("reader") => "r",
        _ => "c",
    }
}

pub fn start(dir: &str) {
    let mut g = CTL.lock().unwrap();
    *g = Some(Ctl {
        enabled: true,
        dir: dir.to_string(),
        log: Vec::new(),
        gate_armed: true,
        permits: 0,
        at_gate: false,
        events_done: 0,
        faults: Vec::new(),
        fdmap: HashMap::new(),
        hold_unlink_ms: 0,
    });
}

pub fn stop() -> Vec<String> {
    let mut g = CTL.lock().unwrap();
    let log = g.as_mut().map(|c| std::mem::take(&mut c.log)).unwrap_or_default();
    if let Some(c) = g.as_mut() {
        c.enabled = false;
        c.gate_armed = false;
    }
    CV.notify_all();
    log
}

pub fn logline(s: String) {
    let mut g = CTL.lock().unwrap();
    if let Some(c) = g.as_mut() {
        if c.enabled {
            c.log.push(s);
        }
    }
}

pub fn count_creates() -> usize {
    let g = CTL.lock().unwrap();
    g.as_ref().map(|c| c.log.iter().filter(|l| l.contains(" create ")).count()).unwrap_or(0)
}

pub fn add_fault(kind: &str, skip: u64) {
    let mut g = CTL.lock().unwrap();
    if let Some(c) = g.as_mut() {
        c.faults.push(Fault { kind: kind.to_string(), skip });
    }
}

/// When set, every create / write the CALLER thread performs on a chunk file is followed
/// by a directory snapshot in the log (`c snap ...`): crash points inside API calls.
/// n > 0: the n-th chunk-file creation of the caller thread from now on fails with ENOSPC.
pub static CFAULT_CREATE: std::sync::atomic::AtomicU64 = std::sync::atomic::AtomicU64::new(0);
pub static AUTO_SNAP: std::sync::atomic::AtomicBool = std::sync::atomic::AtomicBool::new(false);

fn auto_snap() {
    if !AUTO_SNAP.load(std::sync::atomic::Ordering::SeqCst) || role() != "c" {
        return;
    }
    let dir = match CTL.lock().unwrap().as_ref() {
        Some(c) if c.enabled => c.dir.clone(),
        _ => return,
    };
    let snap = crate::proto::disk_str(&dir);
    logline(format!("c snap {}", snap));
}

/// Switch observation (logging, gating, faults) off and on again, e.g. while a second store
/// on another directory runs in this process.
pub fn set_enabled(on: bool) {
    let mut g = CTL.lock().unwrap();
    if let Some(c) = g.as_mut() {
        c.enabled = on;
    }
    CV.notify_all();
}

pub fn set_gate(armed: bool) {
    let mut g = CTL.lock().unwrap();
    if let Some(c) = g.as_mut() {
        c.gate_armed = armed;
    }
    CV.notify_all();
}

/// Are all flush-worker threads of this process asleep (blocked in recv, or parked at the
/// gate)? Read from /proc: a worker that is still running towards its next system call is
/// in state R (or D), so "asleep and not at the gate" means idle — no timing guess needed.
pub fn worker_sleeping() -> bool {
    let rd = match std::fs::read_dir("/proc/self/task") {
        Ok(r) => r,
        Err(_) => return true,
    };
    for e in rd.flatten() {
        let p = e.path();
        let comm = std::fs::read_to_string(p.join("comm")).unwrap_or_default();
        if !comm.starts_with("raft_log_wal_fl") {
            continue;
        }
        let stat = std::fs::read_to_string(p.join("stat")).unwrap_or_default();
        // pid (comm) S ...
        if let Some(i) = stat.rfind(')') {
            let st = stat[i + 1..].trim_start().chars().next().unwrap_or('S');
            if st != 'S' {
                return false;
            }
        }
    }
    true
}

/// A freshly spawned thread carries its parent's name until it has run for the first time
/// (it sets its own name), so right after `open` the flush worker may not yet be
/// recognisable in /proc. Wait until it is (bounded).
pub fn wait_worker_named() {
    let hard = Instant::now() + Duration::from_secs(20);
    loop {
        if let Ok(rd) = std::fs::read_dir("/proc/self/task") {
            for e in rd.flatten() {
                let comm = std::fs::read_to_string(e.path().join("comm")).unwrap_or_default();
                if comm.starts_with("raft_log_wal_fl") {
                    return;
                }
            }
        }
        if Instant::now() > hard {
            return;
        }
        std::thread::sleep(Duration::from_micros(200));
    }
}

/// Wait until the worker is parked at the gate (true) or idle (false).
fn wait_parked_or_idle(mut g: std::sync::MutexGuard<'static, Option<Ctl>>, cap_ms: u64) -> (std::sync::MutexGuard<'static, Option<Ctl>>, bool) {
    let hard = Instant::now() + Duration::from_millis(cap_ms);
    let mut asleep = 0;
    loop {
        if g.as_ref().map(|c| c.at_gate).unwrap_or(true) {
            return (g, true);
        }
        drop(g);
        if worker_sleeping() {
            asleep += 1;
        } else {
            asleep = 0;
        }
        g = CTL.lock().unwrap();
        if g.as_ref().map(|c| c.at_gate).unwrap_or(true) {
            return (g, true);
        }
        if asleep >= 3 || Instant::now() > hard {
            return (g, false);
        }
        let (gg, _) = CV.wait_timeout(g, Duration::from_micros(700)).unwrap();
        g = gg;
    }
}

/// Let the worker perform one visible event. Returns false when the worker does not
/// show up at the gate within `idle_ms` (it is idle).
pub fn worker_step(_idle_ms: u64) -> bool {
    let g = CTL.lock().unwrap();
    let (mut g, parked) = wait_parked_or_idle(g, 20000);
    if !parked {
        return false;
    }
    let n = g.as_ref().unwrap().events_done;
    g.as_mut().unwrap().permits += 1;
    CV.notify_all();
    // wait for the event to complete ...
    let hard = Instant::now() + Duration::from_secs(20);
    while g.as_ref().unwrap().events_done == n {
        let (gg, _) = CV.wait_timeout(g, Duration::from_millis(50)).unwrap();
        g = gg;
        if Instant::now() > hard {
            return true;
        }
    }
    // ... and for the worker to reach its next gate (or go idle)
    let _ = wait_parked_or_idle(g, 20000);
    true
}

/// Wait until the worker is parked at the gate or idle.
pub fn settle(_idle_ms: u64) {
    let g = CTL.lock().unwrap();
    let _ = wait_parked_or_idle(g, 20000);
}

/// Called by a gated event of the worker thread before it acts. Returns Some(fail?)
/// when tracing, None when tracing is off.
fn gate_worker(kind: &str) -> Option<bool> {
    let mut g = CTL.lock().unwrap();
    if !g.as_ref().map(|c| c.enabled).unwrap_or(false) {
        return None;
    }
    if g.as_ref().unwrap().gate_armed {
        g.as_mut().unwrap().at_gate = true;
        CV.notify_all();
        loop {
            let c = g.as_mut().unwrap();
            if !c.gate_armed || !c.enabled {
                break;
            }
            if c.permits > 0 {
                c.permits -= 1;
                break;
            }
            g = CV.wait(g).unwrap();
        }
        g.as_mut().unwrap().at_gate = false;
    }
    // fault decision
    let c = g.as_mut().unwrap();
    let mut fail = false;
    let mut i = 0;
    while i < c.faults.len() {
        if c.faults[i].kind == kind {
            if c.faults[i].skip == 0 {
                fail = true;
                c.faults.remove(i);
                break;
            } else {
                c.faults[i].skip -= 1;
                // only the first matching fault entry counts this call
                break;
            }
        }
        i += 1;
    }
    Some(fail)
}

fn event_done(line: String, worker: bool) {
    lock_log(&line);
    let mut g = CTL.lock().unwrap();
    if let Some(c) = g.as_mut() {
        if c.enabled {
            c.log.push(line);
            if worker {
                c.events_done += 1;
            }
        }
    }
    CV.notify_all();
}

pub fn note_callback(id: u64, ok: bool) {
    let r = role();
    if r == "w" {
        if gate_worker("cb").is_none() {
            return;
        }
        event_done(format!("w cb {} {}", id, if ok { "ok" } else { "fail" }), true);
    } else {
        logline(format!("{} cb {} {}", r, id, if ok { "ok" } else { "fail" }));
    }
}

fn tracked(fd: c_int) -> Option<String> {
    let g = CTL.lock().unwrap();
    match g.as_ref() {
        Some(c) if c.enabled => c.fdmap.get(&fd).cloned(),
        _ => None,
    }
}

fn chunk_of_path(path: &str) -> Option<String> {
    let g = CTL.lock().unwrap();
    let c = g.as_ref()?;
    if !c.enabled || !path.starts_with(&c.dir) {
        return None;
    }
    let name = path.rsplit('/').next()?;
    if name == "LOCK" {
        return Some("LOCK".to_string());
    }
    crate::proto::parse_chunk_name(name).map(|id| id.to_string())
}

unsafe fn set_errno(e: c_int) {
    *libc::__errno_location() = e;
}

fn guard<T>(f: impl FnOnce() -> T, fallback: impl FnOnce() -> T) -> T {
    let nested = IN_SHIM.try_with(|c| c.replace(true)).unwrap_or(true);
    if nested {
        return fallback();
    }
    let r = f();
    let _ = IN_SHIM.try_with(|c| c.set(false));
    r
}

#[no_mangle]
pub unsafe extern "C" fn open64(path: *const c_char, flags: c_int, mode: libc::mode_t) -> c_int {
    let raw = || libc::syscall(libc::SYS_openat, libc::AT_FDCWD, path, flags | libc::O_LARGEFILE, mode as c_int) as c_int;
    guard(
        || {
            let p = CStr::from_ptr(path).to_string_lossy().to_string();
            let what = chunk_of_path(&p);
            // injected failure of a chunk-file creation on the caller thread (disk full)
            let inject = what.as_deref().map(|id| id != "LOCK").unwrap_or(false)
                && flags & libc::O_CREAT != 0
                && flags & libc::O_EXCL != 0
                && role() == "c"
                && CFAULT_CREATE.fetch_update(std::sync::atomic::Ordering::SeqCst, std::sync::atomic::Ordering::SeqCst, |v| if v > 0 { Some(v - 1) } else { None }) == Ok(1);
            let fd = if inject {
                set_errno(libc::ENOSPC);
                -1
            } else {
                raw()
            };
            if let Some(id) = what {
                let creat = flags & libc::O_CREAT != 0 && flags & libc::O_EXCL != 0;
                let mut g = CTL.lock().unwrap();
                if let Some(c) = g.as_mut() {
                    if fd >= 0 {
                        c.fdmap.insert(fd, id.clone());
                    }
                    if id != "LOCK" && creat {
                        let l = format!("{} create {} {}", role(), id, if fd >= 0 { "ok" } else { "fail" });
                        lock_log(&l);
                        c.log.push(l);
                    } else if id == "LOCK" {
                        let l = format!("{} openlock {}", role(), if fd >= 0 { "ok" } else { "fail" });
                        lock_log(&l);
                        c.log.push(l);
                    } else {
                        lock_log(&format!("{} openchunk {}", role(), id));
                    }
                }
                drop(g);
                if id != "LOCK" && creat && fd >= 0 {
                    auto_snap();
                }
            }
            fd
        },
        raw,
    )
}

#[no_mangle]
pub unsafe extern "C" fn open(path: *const c_char, flags: c_int, mode: libc::mode_t) -> c_int {
    open64(path, flags, mode)
}

#[no_mangle]
pub unsafe extern "C" fn close(fd: c_int) -> c_int {
    let raw = || libc::syscall(libc::SYS_close, fd) as c_int;
    guard(
        || {
            if let Ok(mut g) = CTL.try_lock() {
                if let Some(c) = g.as_mut() {
                    c.fdmap.remove(&fd);
                }
            }
            raw()
        },
        raw,
    )
}

#[no_mangle]
pub unsafe extern "C" fn write(fd: c_int, buf: *const c_void, count: libc::size_t) -> libc::ssize_t {
    let raw = || libc::syscall(libc::SYS_write, fd, buf, count) as libc::ssize_t;
    guard(
        || match tracked(fd) {
            Some(id) if id != "LOCK" => {
                let r = role();
                if r == "w" {
                    let fail = gate_worker("write").unwrap_or(false);
                    let res = if fail {
                        set_errno(libc::EIO);
                        -1
                    } else {
                        raw()
                    };
                    event_done(format!("w write {} {} {}", id, count, if res >= 0 && res as usize == count { "ok".to_string() } else if res >= 0 { format!("short{}", res) } else { "fail".to_string() }), true);
                    res
                } else {
                    let res = raw();
                    event_done(format!("{} write {} {} {}", r, id, count, if res >= 0 { "ok" } else { "fail" }), false);
                    auto_snap();
                    res
                }
            }
            _ => raw(),
        },
        raw,
    )
}

unsafe fn sync_common(fd: c_int, nr: libc::c_long, name: &str) -> c_int {
    let raw = || libc::syscall(nr, fd) as c_int;
    guard(
        || match tracked(fd) {
            Some(id) if id != "LOCK" => {
                let r = role();
                if r == "w" {
                    let fail = gate_worker("sync").unwrap_or(false);
                    let res = if fail {
                        set_errno(libc::EIO);
                        -1
                    } else {
                        raw()
                    };
                    event_done(format!("w {} {} {}", name, id, if res == 0 { "ok" } else { "fail" }), true);
                    res
                } else {
                    let res = raw();
                    event_done(format!("{} {} {} {}", r, name, id, if res == 0 { "ok" } else { "fail" }), false);
                    res
                }
            }
            _ => raw(),
        },
        raw,
    )
}

#[no_mangle]
pub unsafe extern "C" fn fdatasync(fd: c_int) -> c_int {
    sync_common(fd, libc::SYS_fdatasync, "sync")
}

#[no_mangle]
pub unsafe extern "C" fn fsync(fd: c_int) -> c_int {
    sync_common(fd, libc::SYS_fsync, "fsync")
}

#[no_mangle]
pub unsafe extern "C" fn ftruncate64(fd: c_int, len: libc::off64_t) -> c_int {
    let raw = || libc::syscall(libc::SYS_ftruncate, fd, len) as c_int;
    guard(
        || match tracked(fd) {
            Some(id) if id != "LOCK" => {
                let res = raw();
                event_done(format!("{} trunc {} {} {}", role(), id, len, if res == 0 { "ok" } else { "fail" }), false);
                res
            }
            _ => raw(),
        },
        raw,
    )
}

#[no_mangle]
pub unsafe extern "C" fn ftruncate(fd: c_int, len: libc::off_t) -> c_int {
    ftruncate64(fd, len)
}

#[no_mangle]
pub unsafe extern "C" fn unlink(path: *const c_char) -> c_int {
    let raw = || libc::syscall(libc::SYS_unlinkat, libc::AT_FDCWD, path, 0) as c_int;
    guard(
        || {
            let p = CStr::from_ptr(path).to_string_lossy().to_string();
            match chunk_of_path(&p) {
                Some(id) if id != "LOCK" => {
                    let r = role();
                    if r == "w" {
                        let fail = gate_worker("unlink").unwrap_or(false);
                        let res = if fail {
                            set_errno(libc::EIO);
                            -1
                        } else {
                            raw()
                        };
                        event_done(format!("w unlink {} {}", id, if res == 0 { "ok" } else { "fail" }), true);
                        res
                    } else {
                        let res = raw();
                        event_done(format!("{} unlink {} {}", r, id, if res == 0 { "ok" } else { "fail" }), false);
                        res
                    }
                }
                _ => raw(),
            }
        },
        raw,
    )
}

extern "C" {
    fn dlsym(handle: *mut c_void, symbol: *const c_char) -> *mut c_void;
}

/// read_dir of the log directory (std uses opendir): logged, so that a directory listing
/// taken before the lock is visible.
#[no_mangle]
pub unsafe extern "C" fn opendir(path: *const c_char) -> *mut libc::DIR {
    type F = unsafe extern "C" fn(*const c_char) -> *mut libc::DIR;
    // RTLD_NEXT = -1
    let real = dlsym(-1isize as *mut c_void, b"opendir\0".as_ptr() as *const c_char);
    let f: F = std::mem::transmute(real);
    let p = CStr::from_ptr(path).to_string_lossy().to_string();
    let is_dir = {
        let g = CTL.lock().unwrap();
        g.as_ref().map(|c| c.enabled && p == c.dir).unwrap_or(false)
    };
    if is_dir {
        event_done(format!("{} listdir", role()), false);
    }
    f(path)
}

#[no_mangle]
pub unsafe extern "C" fn flock(fd: c_int, op: c_int) -> c_int {
    let raw = || libc::syscall(libc::SYS_flock, fd, op) as c_int;
    guard(
        || match tracked(fd) {
            Some(id) if id == "LOCK" => {
                if op & libc::LOCK_UN != 0 {
                    // logged BEFORE the call: the recorded holding interval is inside the real one
                    event_done(format!("{} flock unlock ok", role()), false);
                    let res = raw();
                    lock_log(&format!("{} flock unlocked", role()));
                    res
                } else {
                    // an attempt is an interval too: a failure is decided somewhere between these two lines
                    lock_log(&format!("{} flock trying", role()));
                    let res = raw();
                    event_done(format!("{} flock lock {}", role(), if res == 0 { "ok" } else { "fail" }), false);
                    res
                }
            }
            _ => raw(),
        },
        raw,
    )
}
