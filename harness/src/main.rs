//! Correspondence harness: executes case lines on the real raft-log crate and prints
//! canonical result lines in the format of `ocaml/modelrun.ml`.
//!
//! Usage: rlharness run <cases-file> <out-file> [threads]

mod proto;
mod shim;
mod trace;
mod ssack;

use std::io::Write;
use std::panic::{catch_unwind, AssertUnwindSafe};
use std::sync::atomic::{AtomicUsize, Ordering};
use std::sync::{Arc, Mutex};

use proto::*;
use raft_log::codeq::Span;

fn main() {
    let args: Vec<String> = std::env::args().collect();
    if args.len() < 2 {
        eprintln!("usage: rlharness run <cases> <out> [threads] | trace ... | lock ...");
        std::process::exit(2);
    }
    if std::env::var("VERIF_SHOW_PANIC").is_err() {
        std::panic::set_hook(Box::new(|_| {}));
    }
    match args[1].as_str() {
        "run" => run_file(&args[2], &args[3], args.get(4).and_then(|s| s.parse().ok()).unwrap_or(16)),
        "trace" => trace::main(&args[2..]),
        "lock" => trace::lock_main(&args[2..]),
        "lockchild" => trace::lock_child(&args[2..]),
        "ssack" => ssack::main(&args[2..]),
        _ => {
            eprintln!("unknown mode");
            std::process::exit(2);
        }
    }
}

fn work_root() -> String {
    let base = std::env::var("VERIF_WORK").unwrap_or_else(|_| {
        if std::path::Path::new("/dev/shm").is_dir() { "/dev/shm".to_string() } else { std::env::temp_dir().to_string_lossy().to_string() }
    });
    let d = format!("{}/rlh-{}", base, std::process::id());
    let _ = std::fs::create_dir_all(&d);
    d
}

fn run_file(cases: &str, out: &str, threads: usize) {
    let text = std::fs::read_to_string(cases).expect("read cases");
    let lines: Vec<String> = text.lines().map(|s| s.trim().to_string()).filter(|s| !s.is_empty()).collect();
    let n = lines.len();
    let lines = Arc::new(lines);
    let results: Arc<Mutex<Vec<Option<String>>>> = Arc::new(Mutex::new(vec![None; n]));
    let next = Arc::new(AtomicUsize::new(0));
    let done = Arc::new(AtomicUsize::new(0));
    let root = work_root();
    for t in 0..threads {
        let lines = lines.clone();
        let results = results.clone();
        let next = next.clone();
        let done = done.clone();
        let root = root.clone();
        std::thread::Builder::new()
            .name(format!("case-runner-{}", t))
            .stack_size(64 << 20)
            .spawn(move || loop {
                let i = next.fetch_add(1, Ordering::SeqCst);
                if i >= lines.len() {
                    break;
                }
                let dir = format!("{}/c{}", root, i);
                let r = catch_unwind(AssertUnwindSafe(|| run_case(&lines[i], &dir)))
                    .unwrap_or_else(|_| "harness-panic".to_string());
                let _ = std::fs::remove_dir_all(&dir);
                results.lock().unwrap()[i] = Some(r);
                done.fetch_add(1, Ordering::SeqCst);
            })
            .unwrap();
    }
    // watchdog: a case that hangs (e.g. a dead worker under wait_worker_idle) is reported, not waited for
    let limit = std::env::var("VERIF_CASE_TIMEOUT_S").ok().and_then(|s| s.parse().ok()).unwrap_or(120u64);
    let mut last_done = 0;
    let mut last_change = std::time::Instant::now();
    loop {
        let d = done.load(Ordering::SeqCst);
        if d >= n {
            break;
        }
        if d != last_done {
            last_done = d;
            last_change = std::time::Instant::now();
        } else if last_change.elapsed().as_secs() > limit {
            break;
        }
        std::thread::sleep(std::time::Duration::from_millis(5));
    }
    let res = results.lock().unwrap();
    let mut f = std::io::BufWriter::new(std::fs::File::create(out).expect("create out"));
    for r in res.iter() {
        match r {
            Some(s) => writeln!(f, "{}", s).unwrap(),
            None => writeln!(f, "hang").unwrap(),
        }
    }
    f.flush().unwrap();
    drop(f);
    let _ = std::fs::remove_dir_all(&root);
    std::process::exit(0);
}

pub fn run_case(line: &str, dir: &str) -> String {
    let (kind, rest) = match line.find(' ') {
        Some(i) => (&line[..i], &line[i..]),
        None => (line, ""),
    };
    match kind {
        "SEQ" => run_seq(rest, dir),
        "IMG" => run_img(rest, dir),
        "DUMPDIR" => {
            // the standalone Dump (takes the directory lock, lists the directory) on an image
            use raft_log::DumpApi;
            let files = rest.rsplit('|').next().unwrap_or("");
            let _ = std::fs::remove_dir_all(dir);
            std::fs::create_dir_all(dir).unwrap();
            for f in files.split_whitespace() {
                let (id, data) = f.split_once(':').unwrap();
                std::fs::write(format!("{}/{}", dir, chunk_file_name(pu(id))), unhex(data)).unwrap();
            }
            let cfg = std::sync::Arc::new(make_config(&["100", "100000", "3", "100000", "1", "64"], dir));
            let mut items: Vec<String> = Vec::new();
            let r = catch_unwind(AssertUnwindSafe(|| {
                let d = raft_log::Dump::<HT>::new(cfg)?;
                d.write_with(|chunk_id, i, res| {
                    items.push(match res {
                        Ok((seg, rec)) => format!("{}:{}:{}+{}:{}", chunk_id.0, i, seg.offset().0, seg.size().0, record_str(&rec).replace(' ', "_")),
                        Err(e) => format!("{}:{}:err:{}", chunk_id.0, i, kind_str(e.kind())),
                    });
                    Ok(())
                })
            }));
            match r {
                Ok(Ok(())) => format!("dump {}", items.join(" ")).trim_end().to_string(),
                Ok(Err(e)) => format!("dump {} err:{}", items.join(" "), kind_str(e.kind())),
                Err(_) => "panic".to_string(),
            }
        }
        "ENC" => run_enc(rest),
        "ENCF" => {
            // an encode into a writer that fails after k bytes, then the encode proper on
            // the same thread: the result must not depend on the failed attempt
            let (k, r) = rest.trim().split_once(' ').unwrap_or(("0", ""));
            let t: Vec<&str> = r.split_whitespace().collect();
            let rec = parse_record(&t);
            let mut w = FailAfter { left: pu(k) as usize };
            let _ = catch_unwind(AssertUnwindSafe(|| raft_log::codeq::Encode::encode(&rec, &mut w)));
            run_enc(r)
        }
        "DEC" => run_dec(rest),
        "DECP" => {
            let (k, r) = rest.trim().split_once(' ').unwrap_or(("1", ""));
            run_dec_piece(r, pu(k) as usize)
        }
        "NAME" => {
            let cfg = raft_log::Config::new("d");
            let p = cfg.chunk_path(raft_log::ChunkId(pu(rest.trim())));
            hex(p.rsplit('/').next().unwrap().as_bytes())
        }
        "PARSE" => {
            // through the public load_chunk_ids on a directory holding one file of that name
            let name = unhex(rest.trim());
            let _ = std::fs::remove_dir_all(dir);
            std::fs::create_dir_all(dir).unwrap();
            match String::from_utf8(name) {
                Ok(n) if !n.contains('/') && !n.contains('\0') && !n.is_empty() && n != "." && n != ".." => {
                    std::fs::write(format!("{}/{}", dir, n), b"").unwrap();
                    let cfg = raft_log::Config::new(dir);
                    match raft_log::RaftLog::<HT>::load_chunk_ids(&cfg) {
                        Ok(v) if v.len() == 1 => format!("some {}", v[0].0),
                        Ok(_) => "none".to_string(),
                        Err(_) => "err".to_string(),
                    }
                }
                _ => "skip".to_string(),
            }
        }
        _ => "badcase".to_string(),
    }
}

struct FailAfter {
    left: usize,
}
impl std::io::Write for FailAfter {
    fn write(&mut self, buf: &[u8]) -> std::io::Result<usize> {
        if self.left == 0 {
            return Err(std::io::Error::new(std::io::ErrorKind::Other, "injected"));
        }
        let n = buf.len().min(self.left);
        self.left -= n;
        Ok(n)
    }
    fn flush(&mut self) -> std::io::Result<()> {
        Ok(())
    }
}

fn run_enc(rest: &str) -> String {
    let t: Vec<&str> = rest.split_whitespace().collect();
    let rec = parse_record(&t);
    let mut b = Vec::new();
    let r = catch_unwind(AssertUnwindSafe(|| raft_log::codeq::Encode::encode(&rec, &mut b)));
    match r {
        Ok(Ok(n)) => format!("{} {}", hex(&b), n),
        Ok(Err(e)) => format!("err {}", kind_str(e.kind())),
        Err(_) => "panic".to_string(),
    }
}

/// A reader that counts how many bytes were consumed, to detect over-reads.
struct CountReader<'a> {
    b: &'a [u8],
    pos: usize,
    /// at most this many bytes per call (0 = no limit): a reader may return less than asked for
    piece: usize,
}
impl<'a> std::io::Read for CountReader<'a> {
    fn read(&mut self, buf: &mut [u8]) -> std::io::Result<usize> {
        let mut n = std::cmp::min(buf.len(), self.b.len() - self.pos);
        if self.piece > 0 {
            n = n.min(self.piece);
        }
        buf[..n].copy_from_slice(&self.b[self.pos..self.pos + n]);
        self.pos += n;
        Ok(n)
    }
}

fn run_dec(rest: &str) -> String {
    run_dec_piece(rest, 0)
}

/// DECP k hex: the same through a reader that hands out at most k bytes per call
fn run_dec_piece(rest: &str, piece: usize) -> String {
    let b = unhex(rest.trim());
    let mut r = CountReader { b: &b, pos: 0, piece };
    let res = catch_unwind(AssertUnwindSafe(|| {
        <raft_log::WALRecord<HT> as raft_log::codeq::Decode>::decode(&mut r)
    }));
    match res {
        Ok(Ok(rec)) => format!("ok {} | {}", record_str(&rec), r.pos),
        Ok(Err(e)) => {
            if e.kind() == std::io::ErrorKind::UnexpectedEof {
                "eof".to_string()
            } else {
                "invalid".to_string()
            }
        }
        Err(_) => "panic".to_string(),
    }
}

fn run_seq(rest: &str, dir: &str) -> String {
    let parts: Vec<&str> = rest.split('|').collect();
    let cfg: Vec<&str> = parts[0].split_whitespace().collect();
    let ops: Vec<String> = parts[1].split(';').map(|s| s.trim().to_string()).filter(|s| !s.is_empty()).collect();
    let _ = std::fs::remove_dir_all(dir);
    std::fs::create_dir_all(dir).unwrap();
    let mut out: Vec<String> = Vec::new();
    let rl = open_store(&cfg, dir);
    run_ops_on(rl, dir, &ops, &mut out);
    out.join(" ; ")
}

fn run_img(rest: &str, dir: &str) -> String {
    let parts: Vec<&str> = rest.split('|').collect();
    let cfg: Vec<&str> = parts[0].split_whitespace().collect();
    let _ = std::fs::remove_dir_all(dir);
    std::fs::create_dir_all(dir).unwrap();
    for f in parts[1].split_whitespace() {
        let (id, data) = f.split_once(':').unwrap();
        if id == "LOCK" {
            // the lock file as the crashed owner left it
            std::fs::write(format!("{}/LOCK", dir), unhex(data)).unwrap();
            continue;
        }
        let id: u64 = id.parse().unwrap();
        std::fs::write(format!("{}/{}", dir, chunk_file_name(id)), unhex(data)).unwrap();
    }
    let ops: Vec<String> = parts[2].split(';').map(|s| s.trim().to_string()).filter(|s| !s.is_empty()).collect();
    let mut out: Vec<String> = Vec::new();
    let rl = open_store(&cfg, dir);
    let failed = !matches!(rl, OpenRes::Ok(_));
    let is_err = matches!(rl, OpenRes::Err(_));
    run_ops_on(rl, dir, &ops, &mut out);
    if failed && is_err {
        out.push(disk_str(dir));
    }
    out.join(" ; ")
}

pub enum OpenRes {
    Ok(Store),
    Err(std::io::ErrorKind),
    Panic,
}

pub struct Store {
    pub snap: Option<raft_log::DumpRaftLog<HT>>,
    pub rl: raft_log::RaftLog<HT>,
    pub acks: Arc<Mutex<Vec<(u64, bool)>>>,
    pub next_cb: u64,
}

pub fn make_config(cfg: &[&str], dir: &str) -> raft_log::Config {
    // "-" leaves a field unset: the crate's default applies
    let p = |s: &str| -> Option<usize> {
        if s == "-" {
            None
        } else {
            Some(s.parse::<u64>().unwrap() as usize)
        }
    };
    raft_log::Config {
        dir: dir.to_string(),
        log_cache_max_items: p(cfg[0]),
        log_cache_capacity: p(cfg[1]),
        chunk_max_records: p(cfg[2]),
        chunk_max_size: p(cfg[3]),
        truncate_incomplete_record: if cfg[4] == "-" { None } else { Some(cfg[4] == "1") },
        read_buffer_size: p(cfg[5]),
    }
}

pub fn open_store(cfg: &[&str], dir: &str) -> OpenRes {
    let config = Arc::new(make_config(cfg, dir));
    let r = catch_unwind(AssertUnwindSafe(|| raft_log::RaftLog::<HT>::open(config)));
    match r {
        Ok(Ok(rl)) => OpenRes::Ok(Store { snap: None, rl, acks: Arc::new(Mutex::new(Vec::new())), next_cb: 0 }),
        Ok(Err(e)) => OpenRes::Err(e.kind()),
        Err(_) => OpenRes::Panic,
    }
}

fn run_ops_on(first: OpenRes, dir: &str, ops: &[String], out: &mut Vec<String>) {
    use raft_log::api::raft_log_writer::RaftLogWriter;
    let mut st = match first {
        OpenRes::Ok(s) => {
            out.push("opened".to_string());
            s
        }
        OpenRes::Err(k) => {
            out.push(format!("openerr {}", kind_str(k)));
            return;
        }
        OpenRes::Panic => {
            out.push("panic".to_string());
            return;
        }
    };
    for op in ops {
        let t: Vec<&str> = op.split_whitespace().collect();
        if t[0] == "X" {
            st.rl.wait_worker_idle();
            drop(st);
            match open_store(&t[1..], dir) {
                OpenRes::Ok(s) => {
                    st = s;
                    out.push("opened".to_string());
                    continue;
                }
                OpenRes::Err(k) => {
                    out.push(format!("openerr {}", kind_str(k)));
                    return;
                }
                OpenRes::Panic => {
                    out.push("panic".to_string());
                    return;
                }
            }
        }
        let (res, stop) = exec_op(&mut st, dir, &t);
        out.push(res);
        if stop {
            // a panicking operation may leave the store half-updated: the case ends here
            std::mem::forget(st);
            return;
        }
    }
    st.rl.wait_worker_idle();
}

/// Execute one caller operation on the store; returns the canonical result and
/// whether the case must stop (panic).
pub fn exec_op(st: &mut Store, dir: &str, t: &[&str]) -> (String, bool) {
    use raft_log::api::raft_log_writer::RaftLogWriter;
        let mut stop = false;
        let res: String = match t[0] {
            "V" | "A" | "T" | "P" | "C" | "U" | "S" => {
                let r = catch_unwind(AssertUnwindSafe(|| match t[0] {
                    "V" => st.rl.save_vote(PVote(pu(t[1]), pu(t[2]))),
                    "A" => st.rl.append(parse_entries(&t[1..])),
                    "T" => st.rl.truncate(pu(t[1])),
                    "P" => st.rl.purge((pu(t[1]), pu(t[2]))),
                    "C" => st.rl.commit((pu(t[1]), pu(t[2]))),
                    "U" => st.rl.save_user_data(parse_obytes(t[1])),
                    "S" => match parse_state_record(&t[1..]) {
                        raft_log::WALRecord::State(s) => st.rl.update_state(s),
                        _ => unreachable!(),
                    },
                    _ => unreachable!(),
                }));
                match r {
                    Ok(Ok(seg)) => format!("ok {} {}", seg.offset().0, seg.size().0),
                    Ok(Err(e)) => format!("err {}", kind_str(e.kind())),
                    Err(_) => {
                        stop = true;
                        "panic".to_string()
                    }
                }
            }
            "F" => {
                let cb = if t[1] == "1" {
                    let id = st.next_cb;
                    st.next_cb += 1;
                    Some(Cb { id, log: st.acks.clone(), notify: None })
                } else {
                    None
                };
                match catch_unwind(AssertUnwindSafe(|| st.rl.flush(cb))) {
                    Ok(Ok(())) => "unit".to_string(),
                    Ok(Err(e)) => format!("err {}", kind_str(e.kind())),
                    Err(_) => {
                        stop = true;
                        "panic".to_string()
                    }
                }
            }
            "R" => {
                let (a, b) = (pu(t[1]), pu(t[2]));
                match catch_unwind(AssertUnwindSafe(|| {
                    st.rl.read(a, b).map(|r| item_str(r)).collect::<Vec<_>>()
                })) {
                    Ok(items) => {
                        let mut v = vec!["read".to_string()];
                        v.extend(items);
                        v.join(" ")
                    }
                    Err(_) => {
                        stop = true;
                        "panic".to_string()
                    }
                }
            }
            "D" => {
                match catch_unwind(AssertUnwindSafe(|| {
                    let mut d = st.rl.dump_data();
                    d.iter().map(|r| item_str(r)).collect::<Vec<_>>()
                })) {
                    Ok(items) => {
                        let mut v = vec!["read".to_string()];
                        v.extend(items);
                        v.join(" ")
                    }
                    Err(_) => {
                        stop = true;
                        "panic".to_string()
                    }
                }
            }
            "M" => {
                // alter one byte of a chunk file underneath the open store
                use std::os::unix::fs::FileExt;
                let path = format!("{}/{}", dir, chunk_file_name(pu(t[1])));
                match std::fs::OpenOptions::new().write(true).open(&path) {
                    Ok(f) => {
                        let _ = f.write_all_at(&[pu(t[3]) as u8], pu(t[2]));
                        "unit".to_string()
                    }
                    Err(_) => "nofile".to_string(),
                }
            }
            "DS" => {
                // take a snapshot (dump_data) and keep it for a later iteration
                st.snap = Some(st.rl.dump_data());
                "unit".to_string()
            }
            "DI" => {
                match catch_unwind(AssertUnwindSafe(|| match st.snap.as_mut() {
                    Some(d) => d.iter().map(|r| item_str(r)).collect::<Vec<_>>(),
                    None => vec![],
                })) {
                    Ok(items) => {
                        let mut v = vec!["read".to_string()];
                        v.extend(items);
                        v.join(" ")
                    }
                    Err(_) => {
                        stop = true;
                        "panic".to_string()
                    }
                }
            }
            "G" => match catch_unwind(AssertUnwindSafe(|| stat_str(&st.rl))) {
                Ok(s) => s,
                Err(_) => {
                    stop = true;
                    "panic".to_string()
                }
            },
            "Z" => match catch_unwind(AssertUnwindSafe(|| st.rl.on_disk_size())) {
                Ok(n) => format!("size {}", n),
                Err(_) => {
                    stop = true;
                    "panic".to_string()
                }
            },
            "W" => {
                // RaftLog::dump(): every record of every chunk file as the crate's own iterator reads it
                use raft_log::DumpApi;
                let mut items: Vec<String> = Vec::new();
                let r = catch_unwind(AssertUnwindSafe(|| {
                    st.rl.dump().write_with(|chunk_id, i, res| {
                        items.push(match res {
                            Ok((seg, rec)) => format!("{}:{}:{}+{}:{}", chunk_id.0, i, seg.offset().0, seg.size().0, record_str(&rec).replace(' ', "_")),
                            Err(e) => format!("{}:{}:err:{}", chunk_id.0, i, kind_str(e.kind())),
                        });
                        Ok(())
                    })
                }));
                match r {
                    Ok(Ok(())) => format!("dump {}", items.join(" ")),
                    Ok(Err(e)) => format!("dump {} err:{}", items.join(" "), kind_str(e.kind())),
                    Err(_) => {
                        stop = true;
                        "panic".to_string()
                    }
                }
            }
            "RR" => {
                // concurrent readers against a thread that keeps draining the evictable part of
                // the cache (the worker is idle, nothing is written): every read must return
                // what a read returned just before
                let n = pu(t[1]);
                match catch_unwind(AssertUnwindSafe(|| {
                    st.rl.drain_cache_evictable();
                    let base: Vec<String> = st.rl.read(0, u64::MAX).map(|r| item_str(r)).collect();
                    let rl = &st.rl;
                    let stopf = std::sync::atomic::AtomicBool::new(false);
                    let bad: Mutex<Option<String>> = Mutex::new(None);
                    let rounds = std::sync::atomic::AtomicU64::new(0);
                    std::thread::scope(|sc| {
                        for k in 0..3 {
                            let (base, stopf, bad, rounds) = (&base, &stopf, &bad, &rounds);
                            std::thread::Builder::new()
                                .name(format!("reader{}", k))
                                .spawn_scoped(sc, move || {
                                    while !stopf.load(std::sync::atomic::Ordering::SeqCst) {
                                        let r: Vec<String> = rl.read(0, u64::MAX).map(|r| item_str(r)).collect();
                                        rounds.fetch_add(1, std::sync::atomic::Ordering::SeqCst);
                                        if &r != base {
                                            *bad.lock().unwrap() = Some(r.join(" "));
                                            break;
                                        }
                                    }
                                })
                                .unwrap();
                        }
                        let mut i = 0;
                        // at least n drains, and until every reader has had a few turns
                        while i < n || (rounds.load(std::sync::atomic::Ordering::SeqCst) < 30 && i < 200 * n) {
                            rl.drain_cache_evictable();
                            i += 1;
                            if bad.lock().unwrap().is_some() {
                                break;
                            }
                        }
                        stopf.store(true, std::sync::atomic::Ordering::SeqCst);
                    });
                    let b = bad.lock().unwrap().clone();
                    (base.join(" "), b)
                })) {
                    Ok((_, None)) => "stress ok".to_string(),
                    Ok((base, Some(b))) => format!("stress diff before=[{}] during=[{}]", base, b),
                    Err(_) => {
                        stop = true;
                        "panic".to_string()
                    }
                }
            }
            "WA" => {
                // RaftLog::dump() abandoned by its visitor after k items (the visitor returns an error)
                use raft_log::DumpApi;
                let k = pu(t[1]) as usize;
                let mut n = 0usize;
                let r = catch_unwind(AssertUnwindSafe(|| {
                    st.rl.dump().write_with(|_chunk_id, _i, _res| {
                        n += 1;
                        if n > k {
                            Err(std::io::Error::new(std::io::ErrorKind::Other, "enough"))
                        } else {
                            Ok(())
                        }
                    })
                }));
                match r {
                    Ok(_) => "unit".to_string(),
                    Err(_) => {
                        stop = true;
                        "panic".to_string()
                    }
                }
            }
            "H" => {
                let v = st.rl.verif_cache_resident();
                format!("resident {}", v.iter().map(|(id, n)| format!("{}:{}:{}", id.0, id.1, n)).collect::<Vec<_>>().join(","))
            }
            "I" => {
                st.rl.wait_worker_idle();
                "unit".to_string()
            }
            "E" => {
                st.rl.drain_cache_evictable();
                "unit".to_string()
            }
            "K" => {
                st.rl.wait_worker_idle();
                disk_str(dir)
            }
            _ => "badop".to_string(),
        };
        (res, stop)
}
