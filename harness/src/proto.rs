//! The fixed `Types` instantiation of the harness and the line protocol shared with
//! `ocaml/modelrun.ml`.

use std::io;
use std::sync::{Arc, Mutex};

use raft_log::codeq::{Decode, Encode};

#[derive(Debug, Clone, PartialEq, Eq, Default)]
pub struct HT;

pub struct Cb {
    pub id: u64,
    pub log: Arc<Mutex<Vec<(u64, bool)>>>,
    pub notify: Option<std::sync::mpsc::SyncSender<(u64, bool)>>,
}

impl raft_log::Callback for Cb {
    fn send(self, res: Result<(), io::Error>) {
        crate::shim::note_callback(self.id, res.is_ok());
        self.log.lock().unwrap().push((self.id, res.is_ok()));
        if let Some(tx) = self.notify {
            let _ = tx.send((self.id, res.is_ok()));
        }
    }
}

/// The vote of the harness instantiation: (term, voted_for) with the PARTIAL order a Raft
/// vote has (the crate only asks for `PartialOrd`): a higher term is greater, the same
/// term and the same candidate are equal, the same term and different candidates are
/// incomparable. Encoded as two big-endian u64 like the tuple.
#[derive(Debug, Clone, PartialEq, Eq)]
pub struct PVote(pub u64, pub u64);

impl PartialOrd for PVote {
    fn partial_cmp(&self, other: &Self) -> Option<std::cmp::Ordering> {
        if self.0 != other.0 {
            Some(self.0.cmp(&other.0))
        } else if self.1 == other.1 {
            Some(std::cmp::Ordering::Equal)
        } else {
            None
        }
    }
}

impl Encode for PVote {
    fn encode<W: io::Write>(&self, w: W) -> Result<usize, io::Error> {
        (self.0, self.1).encode(w)
    }
}

impl Decode for PVote {
    fn decode<R: io::Read>(r: R) -> Result<Self, io::Error> {
        let (a, b) = <(u64, u64)>::decode(r)?;
        Ok(PVote(a, b))
    }
}

/// Payload and user data of the harness instantiation: a byte string (same codec as
/// `Vec<u8>`) whose `Debug` rendering is TEXT (lossy UTF-8), the way a `String` payload
/// prints: multi-byte characters appear in whatever the crate formats with `{:?}`.
#[derive(Clone, PartialEq, Eq)]
pub struct Blob(pub Vec<u8>);

impl std::fmt::Debug for Blob {
    fn fmt(&self, f: &mut std::fmt::Formatter<'_>) -> std::fmt::Result {
        write!(f, "{:?}", String::from_utf8_lossy(&self.0))
    }
}

impl Encode for Blob {
    fn encode<W: io::Write>(&self, w: W) -> Result<usize, io::Error> {
        self.0.encode(w)
    }
}

impl Decode for Blob {
    fn decode<R: io::Read>(r: R) -> Result<Self, io::Error> {
        Ok(Blob(Vec::<u8>::decode(r)?))
    }
}

impl raft_log::Types for HT {
    type LogId = (u64, u64);
    type LogPayload = Blob;
    type Vote = PVote;
    type Callback = Cb;
    type UserData = Blob;

    fn log_index(log_id: &Self::LogId) -> u64 {
        log_id.1
    }
    fn payload_size(payload: &Self::LogPayload) -> u64 {
        payload.0.len() as u64
    }
}

pub fn pu(s: &str) -> u64 {
    s.parse::<u64>().unwrap_or_else(|_| panic!("bad number {}", s))
}

pub fn hex(b: &[u8]) -> String {
    let mut s = String::with_capacity(1 + 2 * b.len());
    s.push('x');
    const H: &[u8; 16] = b"0123456789abcdef";
    for c in b {
        s.push(H[(c >> 4) as usize] as char);
        s.push(H[(c & 15) as usize] as char);
    }
    s
}

pub fn unhex(s: &str) -> Vec<u8> {
    let b = s.as_bytes();
    assert!(b[0] == b'x');
    let hv = |c: u8| -> u8 {
        match c {
            b'0'..=b'9' => c - 48,
            b'a'..=b'f' => c - 87,
            b'A'..=b'F' => c - 55,
            _ => panic!("bad hex"),
        }
    };
    let n = (b.len() - 1) / 2;
    (0..n).map(|i| hv(b[1 + 2 * i]) * 16 + hv(b[2 + 2 * i])).collect()
}

pub fn parse_opair(t: &str) -> Option<(u64, u64)> {
    if t == "-" {
        None
    } else {
        let (a, b) = t.split_once(':').unwrap();
        Some((pu(a), pu(b)))
    }
}

pub fn parse_obytes(t: &str) -> Option<Blob> {
    if t == "-" { None } else { Some(Blob(unhex(t))) }
}

pub fn parse_entries(t: &[&str]) -> Vec<((u64, u64), Blob)> {
    t.chunks(3).map(|c| ((pu(c[0]), pu(c[1])), Blob(unhex(c[2])))).collect()
}

fn enc_opair(o: Option<(u64, u64)>, b: &mut Vec<u8>) {
    match o {
        None => b.push(0),
        Some((x, y)) => {
            b.push(1);
            b.extend_from_slice(&x.to_be_bytes());
            b.extend_from_slice(&y.to_be_bytes());
        }
    }
}

fn decode_as<S: Decode>(b: &[u8], _f: fn(S) -> raft_log::WALRecord<HT>) -> S {
    S::decode(b).unwrap()
}

/// RaftLogState cannot be named from outside the crate and has private fields; build
/// it through its public codec and carry it inside a WALRecord::State.
pub fn parse_state_record(t: &[&str]) -> raft_log::WALRecord<HT> {
    let mut b = vec![1u8];
    for i in 0..4 {
        enc_opair(parse_opair(t[i]), &mut b);
    }
    match parse_obytes(t[4]) {
        None => b.push(0),
        Some(u) => {
            b.push(1);
            b.extend_from_slice(&(u.0.len() as u32).to_be_bytes());
            b.extend_from_slice(&u.0);
        }
    }
    raft_log::WALRecord::State(decode_as(&b[..], raft_log::WALRecord::State))
}

pub fn parse_record(t: &[&str]) -> raft_log::WALRecord<HT> {
    use raft_log::WALRecord as W;
    match t[0] {
        "V" => W::SaveVote(PVote(pu(t[1]), pu(t[2]))),
        "A" => W::Append((pu(t[1]), pu(t[2])), Blob(unhex(t[3]))),
        "C" => W::Commit((pu(t[1]), pu(t[2]))),
        "T" => W::TruncateAfter(parse_opair(t[1])),
        "P" => W::PurgeUpto((pu(t[1]), pu(t[2]))),
        "S" => parse_state_record(&t[1..]),
        _ => panic!("bad record"),
    }
}

pub fn opair_str(o: Option<&(u64, u64)>) -> String {
    match o {
        None => "-".to_string(),
        Some((a, b)) => format!("{}:{}", a, b),
    }
}

#[macro_export]
macro_rules! rstate_str {
    ($s:expr) => {{
        let s = $s;
        format!(
            "{} {} {} {} {}",
            $crate::proto::opair_str(s.vote().map(|v| (v.0, v.1)).as_ref()),
            $crate::proto::opair_str(s.last()),
            $crate::proto::opair_str(s.committed()),
            $crate::proto::opair_str(s.purged()),
            match &s.user_data {
                None => "-".to_string(),
                Some(u) => $crate::proto::hex(&u.0),
            }
        )
    }};
}

pub fn record_str(r: &raft_log::WALRecord<HT>) -> String {
    use raft_log::WALRecord as W;
    match r {
        W::SaveVote(v) => format!("V {} {}", v.0, v.1),
        W::Append(id, p) => format!("A {} {} {}", id.0, id.1, hex(&p.0)),
        W::Commit(id) => format!("C {} {}", id.0, id.1),
        W::TruncateAfter(o) => format!("T {}", opair_str(o.as_ref())),
        W::PurgeUpto(id) => format!("P {} {}", id.0, id.1),
        W::State(s) => format!("S {}", rstate_str!(s)),
    }
}

pub fn kind_str(k: io::ErrorKind) -> &'static str {
    match k {
        io::ErrorKind::InvalidInput => "InvalidInput",
        io::ErrorKind::InvalidData => "InvalidData",
        io::ErrorKind::UnexpectedEof => "UnexpectedEof",
        io::ErrorKind::NotFound => "NotFound",
        io::ErrorKind::AlreadyExists => "AlreadyExists",
        io::ErrorKind::WouldBlock => "WouldBlock",
        _ => "Other",
    }
}

pub fn item_str(r: Result<((u64, u64), Blob), io::Error>) -> String {
    match r {
        Ok((id, p)) => format!("ok:{}:{}:{}", id.0, id.1, hex(&p.0)),
        Err(e) => format!("err:{}", kind_str(e.kind())),
    }
}

fn cs_str(c: &raft_log::ChunkStat<HT>) -> String {
    format!(
        "{},{},{},{},{},{{{}}}",
        c.chunk_id.0,
        c.records_count,
        c.global_start,
        c.global_end,
        c.size,
        rstate_str!(&c.log_state)
    )
}

pub fn stat_str(rl: &raft_log::RaftLog<HT>) -> String {
    let s = rl.stat();
    format!(
        "stat closed=[{}] open={} cache={},{},{},{},{} miss={} hit={} state={{{}}}",
        s.closed_chunks.iter().map(cs_str).collect::<Vec<_>>().join(";"),
        cs_str(&s.open_chunk),
        opair_str(s.payload_cache_last_evictable.as_ref()),
        s.payload_cache_item_count,
        s.payload_cache_max_item,
        s.payload_cache_size,
        s.payload_cache_capacity,
        s.payload_cache_miss,
        s.payload_cache_hit,
        rstate_str!(rl.log_state())
    )
}

/// The harness's own rendering of a chunk file name (independent of the crate's).
pub fn chunk_file_name(id: u64) -> String {
    let s = format!("{:020}", id);
    let b = s.as_bytes();
    let mut o = String::from("r-");
    for (i, c) in b.iter().enumerate() {
        if i > 0 && (20 - i) % 3 == 0 {
            o.push('_');
        }
        o.push(*c as char);
    }
    o.push_str(".wal");
    o
}

pub fn parse_chunk_name(name: &str) -> Option<u64> {
    let m = name.strip_prefix("r-")?.strip_suffix(".wal")?;
    if m.len() != 26 {
        return None;
    }
    let d: String = m.chars().filter(|c| c.is_ascii_digit()).collect();
    d.parse::<u64>().ok()
}

/// Directory listing with raw file contents, sorted by chunk id.
pub fn disk_str(dir: &str) -> String {
    let mut v: Vec<(u64, Vec<u8>)> = Vec::new();
    let mut other: Vec<String> = Vec::new();
    if let Ok(rd) = std::fs::read_dir(dir) {
        for e in rd.flatten() {
            let name = e.file_name().to_string_lossy().to_string();
            if name == "LOCK" {
                continue;
            }
            match parse_chunk_name(&name) {
                Some(id) => {
                    // the name must be exactly the canonical rendering
                    if chunk_file_name(id) != name {
                        other.push(name.clone());
                    }
                    v.push((id, std::fs::read(e.path()).unwrap_or_default()));
                }
                None => other.push(name),
            }
        }
    }
    v.sort();
    let mut s = format!("disk {}", v.iter().map(|(id, d)| format!("{}:{}", id, hex(d))).collect::<Vec<_>>().join(","));
    if !other.is_empty() {
        other.sort();
        s.push_str(&format!(" other={}", other.join(",")));
    }
    s
}
