#!/bin/sh
# Extract the Coq model and build the modelrun driver.
set -e
cd "$(dirname "$0")"
mkdir -p gen
( cd gen && coqc -Q ../../coq/theories RaftLog ../../coq/theories/Extract/Extract.v >/dev/null )
cp modelrun.ml gen/modelrun.ml
( cd gen && ocamlfind ocamlopt -O3 -unboxed-types 2>/dev/null; ocamlfind ocamlopt -w -a -inline 100 model.mli model.ml modelrun.ml -o ../modelrun )
