(* Line-protocol driver around the extracted Coq model (Model) — part of the trusted
   correspondence tooling. Reads one case per line on stdin, prints one result line
   per case on stdout. The formats are those of harness/src/proto.rs. *)
open Model

(* ---------- conversions ---------- *)
let rec pos_of_int64 (x : int64) : positive =
  (* x > 0, treated as unsigned *)
  if Int64.equal x 1L then XH
  else
    let half = Int64.shift_right_logical x 1 in
    if Int64.equal (Int64.logand x 1L) 1L then XI (pos_of_int64 half) else XO (pos_of_int64 half)

let n_of_int64 (x : int64) : n = if Int64.equal x 0L then N0 else Npos (pos_of_int64 x)
let n_of_string (s : string) : n = n_of_int64 (Int64.of_string ("0u" ^ s))
let n_of_int (i : int) : n = n_of_int64 (Int64.of_int i)

let rec int64_of_pos (p : positive) : int64 =
  match p with
  | XH -> 1L
  | XO q -> Int64.shift_left (int64_of_pos q) 1
  | XI q -> Int64.logor (Int64.shift_left (int64_of_pos q) 1) 1L

let rec pos_bits (p : positive) : int = match p with XH -> 1 | XO q | XI q -> 1 + pos_bits q

let string_of_n (x : n) : string =
  match x with
  | N0 -> "0"
  | Npos p -> if pos_bits p > 64 then "BIG" else Printf.sprintf "%Lu" (int64_of_pos p)

let int_of_n (x : n) : int = match x with N0 -> 0 | Npos p -> Int64.to_int (int64_of_pos p)

let byte_of_int (i : int) : byte = (Obj.magic i : byte)
let int_of_byte (b : byte) : int = (Obj.magic b : int)

let hexdig = "0123456789abcdef"
let hex_of_bytes (bs : byte list) : string =
  let b = Buffer.create 64 in
  Buffer.add_char b 'x';
  List.iter (fun c -> let i = int_of_byte c in
              Buffer.add_char b hexdig.[i lsr 4]; Buffer.add_char b hexdig.[i land 15]) bs;
  Buffer.contents b

let hv c = match c with
  | '0'..'9' -> Char.code c - 48
  | 'a'..'f' -> Char.code c - 87
  | 'A'..'F' -> Char.code c - 55
  | _ -> failwith "bad hex"

let bytes_of_hex (s : string) : byte list =
  (* s starts with 'x' *)
  let n = (String.length s - 1) / 2 in
  let rec go i acc = if i < 0 then acc
    else go (i - 1) (byte_of_int (hv s.[1 + 2*i] * 16 + hv s.[2 + 2*i]) :: acc) in
  go (n - 1) []

(* ---------- printers ---------- *)
let str_pair (a, b) = string_of_n a ^ ":" ^ string_of_n b
let str_opair o = match o with None -> "-" | Some p -> str_pair p
let str_obytes o = match o with None -> "-" | Some b -> hex_of_bytes b
let str_rstate (s : rstate) =
  Printf.sprintf "%s %s %s %s %s" (str_opair s.r_vote) (str_opair s.r_last)
    (str_opair s.r_committed) (str_opair s.r_purged) (str_obytes s.r_user)

let str_record (r : record) = match r with
  | RVote v -> Printf.sprintf "V %s %s" (string_of_n (fst v)) (string_of_n (snd v))
  | RAppend (id, p) -> Printf.sprintf "A %s %s %s" (string_of_n (fst id)) (string_of_n (snd id)) (hex_of_bytes p)
  | RCommit id -> Printf.sprintf "C %s %s" (string_of_n (fst id)) (string_of_n (snd id))
  | RTrunc o -> Printf.sprintf "T %s" (str_opair o)
  | RPurge id -> Printf.sprintf "P %s %s" (string_of_n (fst id)) (string_of_n (snd id))
  | RState s -> "S " ^ str_rstate s

let str_kind (k : ekind) = match k with
  | KInvalidInput -> "InvalidInput" | KInvalidData -> "InvalidData"
  | KUnexpectedEof -> "UnexpectedEof" | KNotFound -> "NotFound"
  | KAlreadyExists -> "AlreadyExists" | KWouldBlock -> "WouldBlock" | KOther -> "Other"

let str_wres (w : wres) = match w with
  | WOk (o, l) -> Printf.sprintf "ok %s %s" (string_of_n o) (string_of_n l)
  | WErr e -> "err " ^ str_kind (err_kind e)

let str_ritem (i : ritem) = match i with
  | RIOk (id, p) -> Printf.sprintf "ok:%s:%s" (str_pair id) (hex_of_bytes p)
  | RIErr k -> "err:" ^ str_kind k
  | RIPanic -> "panic"

let str_cs (c : chunk_stat) =
  Printf.sprintf "%s,%s,%s,%s,%s,{%s}" (string_of_n c.cs_id) (string_of_n c.cs_records)
    (string_of_n c.cs_start) (string_of_n c.cs_end) (string_of_n c.cs_size) (str_rstate c.cs_state)

let str_stat (s : stat) (rs : rstate) =
  Printf.sprintf "stat closed=[%s] open=%s cache=%s,%s,%s,%s,%s miss=%s hit=%s state={%s}"
    (String.concat ";" (List.map str_cs s.st_closed)) (str_cs s.st_open)
    (str_opair s.st_evictable) (string_of_n s.st_items) (string_of_n s.st_max_items)
    (string_of_n s.st_size) (string_of_n s.st_capacity)
    (string_of_n s.st_miss) (string_of_n s.st_hit) (str_rstate rs)

let str_disk (d : disk) =
  "disk " ^ String.concat "," (List.map (fun f -> string_of_n f.f_id ^ ":" ^ hex_of_bytes f.f_data) d)

let str_result (r : result) = match r with
  | ResW w -> str_wres w
  | ResUnit -> "unit"
  | ResRead items -> String.concat " " ("read" :: List.map str_ritem items)
  | ResStat (s, rs) -> str_stat s rs
  | ResSize n -> "size " ^ string_of_n n
  | ResOpened -> "opened"
  | ResOpenErr k -> "openerr " ^ str_kind k
  | ResPanic -> "panic"

(* ---------- parsers ---------- *)
let toks (s : string) : string list =
  List.filter (fun t -> t <> "") (String.split_on_char ' ' s)

let p_opair (t : string) : (n * n) option =
  if t = "-" then None
  else match String.split_on_char ':' t with
    | [a; b] -> Some (n_of_string a, n_of_string b)
    | _ -> failwith ("bad pair " ^ t)
let p_obytes (t : string) = if t = "-" then None else Some (bytes_of_hex t)

let p_rstate (l : string list) : rstate = match l with
  | [v; la; c; p; u] ->
    { r_vote = p_opair v; r_last = p_opair la; r_committed = p_opair c; r_purged = p_opair p;
      r_user = p_obytes u }
  | _ -> failwith "bad state"

let p_record (l : string list) : record = match l with
  | ["V"; t; n] -> RVote (n_of_string t, n_of_string n)
  | ["A"; t; i; p] -> RAppend ((n_of_string t, n_of_string i), bytes_of_hex p)
  | ["C"; t; i] -> RCommit (n_of_string t, n_of_string i)
  | ["T"; o] -> RTrunc (p_opair o)
  | ["P"; t; i] -> RPurge (n_of_string t, n_of_string i)
  | "S" :: rest -> RState (p_rstate rest)
  | _ -> failwith ("bad record: " ^ String.concat " " l)

(* cfg: max_items capacity max_records max_size truncate read_buf *)
let p_cfg (l : string list) : config = match l with
  | [mi; cap; mr; ms; tr; _rb] ->
    (* "-": the field is left unset and the crate's documented default applies
       (100 000 items, 1 GiB, 1 Mi records, 1 GiB, truncation enabled) *)
    let d s v = if s = "-" then n_of_string v else n_of_string s in
    { c_max_items = d mi "100000"; c_capacity = d cap "1073741824"; c_max_records = d mr "1048576";
      c_max_size = d ms "1073741824"; c_truncate = (tr = "1" || tr = "-") }
  | _ -> failwith ("bad cfg: " ^ String.concat " " l)

let rec p_entries (l : string list) = match l with
  | [] -> []
  | t :: i :: p :: rest -> ((n_of_string t, n_of_string i), bytes_of_hex p) :: p_entries rest
  | _ -> failwith "bad entries"

type xop = Op of op | Disk | Resident | Dump | SnapTake | SnapIter | Stress | DumpAbort | Mutate of n * int * int  (* K: directory; H: resident; W: dump; DS/DI: snapshot; M: alter a byte *)

let p_op (s : string) : xop = match toks s with
  | ["V"; t; n] -> Op (OW (OVote (n_of_string t, n_of_string n)))
  | "A" :: rest -> Op (OW (OAppend (p_entries rest)))
  | ["T"; i] -> Op (OW (OTruncate (n_of_string i)))
  | ["P"; t; i] -> Op (OW (OPurge (n_of_string t, n_of_string i)))
  | ["C"; t; i] -> Op (OW (OCommit (n_of_string t, n_of_string i)))
  | ["U"; u] -> Op (OW (OUser (p_obytes u)))
  | "S" :: rest -> Op (OW (OUpdateState (p_rstate rest)))
  | ["F"; c] -> Op (OFlush (c = "1"))
  | ["R"; a; b] -> Op (ORead (n_of_string a, n_of_string b))
  | ["D"] -> Op ODumpIter
  | ["G"] -> Op OStat
  | ["Z"] -> Op OSize
  | ["I"] -> Op OIdle
  | ["E"] -> Op ODrain
  | "X" :: rest -> Op (ORestart (p_cfg rest))
  | ["K"] -> Disk
  | ["H"] -> Resident
  | ["W"] -> Dump
  | ["RR"; _] -> Stress
  | ["WA"; _] -> DumpAbort
  | ["M"; id; pos; v] -> Mutate (n_of_string id, int_of_string pos, int_of_string v)
  | ["DS"] -> SnapTake
  | ["DI"] -> SnapIter
  | _ -> failwith ("bad op: " ^ s)

let split_on (sep : char) (s : string) : string list =
  List.map String.trim (String.split_on_char sep s)

let rec nat_of_int (i : int) : nat = if i <= 0 then O else S (nat_of_int (i - 1))
let rec int_of_nat (n : nat) : int = match n with O -> 0 | S m -> 1 + int_of_nat m

let str_ditem (it : ditem) : string = match it with
  | DRec (id, i, pos, sz, r) ->
    Printf.sprintf "%s:%d:%s+%s:%s" (string_of_n id) (int_of_nat i) (string_of_n pos) (string_of_n sz)
      (String.concat "_" (String.split_on_char ' ' (str_record r)))
  | DErr (id, n, e) ->
    Printf.sprintf "%s:%d:err:%s" (string_of_n id) (int_of_nat n)
      (match e with SEof -> "UnexpectedEof" | SInvalid -> "InvalidData" | SFuel -> "Fuel" | SEnd -> "End")

(* ---------- running ---------- *)
let run_xops (y0 : sys option) (first : string list) (ops : xop list) : string =
  let out = ref (List.rev first) in
  let y = ref y0 in
  let snap = ref None in
  let grave = ref [] in      (* last known content of every file ever seen *)
  (try
     List.iter (fun xo ->
         match !y with
         | None -> raise Exit
         | Some yy ->
           grave := yy.y_disk @ List.filter (fun f -> not (List.exists (fun g -> g.f_id = f.f_id) yy.y_disk)) !grave;
           (match xo with
            | Disk -> out := str_disk yy.y_disk :: !out
            | DumpAbort -> out := "unit" :: !out     (* a dump abandoned by its visitor changes nothing *)
            | Stress ->
              (* concurrent readers against cache drains: reads return what they returned before
                 (only the hit/miss counters move, which is why this comes last in a case) *)
              out := "stress ok" :: !out
            | Mutate (id, pos, v) ->
              (match disk_get id yy.y_disk with
               | None -> out := "nofile" :: !out
               | Some f ->
                 let data = List.mapi (fun i b -> if i = pos then byte_of_int v else b) f.f_data in
                 let d' = List.map (fun g -> if g.f_id = id then { g with f_data = data } else g) yy.y_disk in
                 y := Some { yy with y_disk = d' };
                 out := "unit" :: !out)
            | SnapTake -> snap := Some yy.y_core; out := "unit" :: !out
            | SnapIter ->
              (* the snapshot's own copy of index, cache and closed chunks; the files as they are now *)
              (* the snapshot holds open descriptors: files unlinked since are still readable *)
              let present = List.map (fun f -> f.f_id) yy.y_disk in
              let d = yy.y_disk @ List.filter (fun f -> not (List.mem f.f_id present)) !grave in
              let items = (match !snap with Some k -> do_dump_iter k d | None -> []) in
              out := str_result (ResRead items) :: !out
            | Dump ->
              (* RefDump: Model/Dump.v (closed chunks then the open chunk, each file scanned from the start) *)
              out := (String.concat " " ("dump" :: List.map str_ditem (dump_ref yy.y_core yy.y_disk))) :: !out
            | Resident ->
              out := ("resident " ^ String.concat "," (List.map (fun (id, p) ->
                  Printf.sprintf "%s:%d" (str_pair id) (List.length p)) yy.y_core.k_sm.m_cache.ch_entries)) :: !out
            | Op o ->
              let (ny, res) = run_op yy o in
              out := str_result res :: !out;
              y := ny)) ops
   with Exit -> ());
  String.concat " ; " (List.rev !out)

let parse_ops (s : string) : xop list =
  List.map p_op (List.filter (fun t -> t <> "") (split_on ';' s))

let do_seq (rest : string) : string =
  match split_on '|' rest with
  | [cfg; ops] ->
    (match open_dir (p_cfg (toks cfg)) [] with
     | OpenOk y -> run_xops (Some y) ["opened"] (parse_ops ops)
     | OpenErr (e, _) -> "openerr " ^ str_kind (err_kind e))
  | _ -> failwith "bad SEQ"

let p_file (t : string) : file =
  match String.split_on_char ':' t with
  | [id; data] -> let d = bytes_of_hex data in
    { f_id = n_of_string id; f_data = d; f_synced = n_of_int (List.length d) }
  | _ -> failwith "bad file"

(* order-preserving key for unsigned 64-bit values *)
let int64_of_n_cmp (x : n) : string = Printf.sprintf "%020s" (string_of_n x)

let do_img (rest : string) : string =
  match split_on '|' rest with
  | [cfg; files; ops] ->
    (* a LOCK:... token is the lock file left by the crashed owner: its content means nothing *)
    let ftoks = List.filter (fun t -> not (String.length t >= 5 && String.sub t 0 5 = "LOCK:")) (toks files) in
    let d = List.sort (fun a b -> compare (int64_of_n_cmp a.f_id) (int64_of_n_cmp b.f_id)) (List.map p_file ftoks) in
    (match open_dir (p_cfg (toks cfg)) d with
     | OpenOk y -> run_xops (Some y) ["opened"] (parse_ops ops)
     | OpenErr (e, d') -> "openerr " ^ str_kind (err_kind e) ^ " ; " ^ str_disk d')
  | _ -> failwith "bad IMG"

(* the reference specification on the same history: what the oracle expects *)
let do_spec (rest : string) : string =
  match split_on '|' rest with
  | [_cfg; ops] ->
    let s = ref spec0 in
    let outs = List.map (fun xo ->
        match xo with
        | Disk | Resident | Dump | SnapTake | SnapIter | Stress | DumpAbort | Mutate _ -> "-"
        | Op (OW w) ->
          (match w with
           | OUpdateState _ -> "unsupported"
           | _ ->
             let ws = swrites_of w in
             (* per-record granularity: stop at the first refused entry *)
             let rec go ws acc = match ws with
               | [] -> acc
               | x :: r ->
                 (match spec_step !s x with
                  | Some s' -> let lg = write_legal !s x in s := s';
                    go r (if lg then acc else "illegal")
                  | None -> "rej") in
             go ws "acc")
        | Op (ORead (a, b)) ->
          String.concat " " ("read" :: List.map (fun (id, p) -> Printf.sprintf "ok:%s:%s" (str_pair id) (hex_of_bytes p))
                               (spec_read !s a b))
        | Op ODumpIter ->
          String.concat " " ("read" :: List.map (fun (id, p) -> Printf.sprintf "ok:%s:%s" (str_pair id) (hex_of_bytes p))
                               (!s).sp_entries)
        | Op OStat -> "state={" ^ str_rstate (spec_state !s) ^ "}"
        | Op _ -> "-") (parse_ops ops) in
    String.concat " ; " ("opened" :: outs)
  | _ -> failwith "bad SPEC"


(* ---------- K-trace: replay of an observed event log on the L2 model ---------- *)
exception Mismatch of string

let str_vis (v : vis) : string = match v with
  | VCreate id -> "create " ^ string_of_n id
  | VWrite (c, id, len, ok) -> Printf.sprintf "%s write %s %s %s" (if c then "c" else "w") (string_of_n id) (string_of_n len) (if ok then "ok" else "fail")
  | VSync (id, ok) -> Printf.sprintf "w sync %s %s" (string_of_n id) (if ok then "ok" else "fail")
  | VUnlink (id, ok) -> Printf.sprintf "w unlink %s %s" (string_of_n id) (if ok then "ok" else "fail")
  | VCallback (c, ok) -> Printf.sprintf "w cb %s %s" (string_of_n c) (if ok then "ok" else "fail")
  | VResult r -> "ret " ^ str_result r


(* Look-ahead used to prune batch compositions (sound: it only drops compositions that the
   following events would reject anyway): every batch that holds write requests ends its
   writes with a sync, so the number of its requests with data equals the number of
   consecutive successful `w write` events that come next in the log. [None]: no hint. *)
(* a witness of a replay: the model events taken, in order (kept reversed while searching);
   [WReopen cfg]: the store was dropped, its worker ran to completion, the directory was opened again *)
type wstep = WEv of zev | WReopen of config | WVis of vis   (* WVis: a visible event matched against the log *)
let recv_hint : int option ref = ref None
(* CPU-time budget of one replay: a trace the model cannot explain may make the search over
   batch compositions explode; past the budget the trace counts as not explained *)
exception Budget
let deadline : float ref = ref infinity
let tick () = if Sys.time () > !deadline then raise Budget
let batch_fits (z' : sys2) : bool =
  match !recv_hint with
  | None -> true
  | Some n ->
    (match z'.z_w.w_batch with
     | Some b when b.b_writes <> [] ->
       List.length (List.filter (fun w -> w.ww_data <> []) b.b_writes) = n
     | _ -> true)

(* all (state, visible event) pairs the worker can reach next through silent steps;
   [ok] is the result of the system call if the visible event is one *)
let rec worker_next_p (z : sys2) (ok : bool) (depth : int) (p : wstep list) : (sys2 * vis * wstep list) list =
  tick ();
  if depth > 5000 then [] else
  let w = z.z_w in
  if not w.w_alive then []
  else match w.w_batch with
    | Some _ ->
      (match zstep z (ZWork ok) with
       | None -> []
       | Some (z', []) -> worker_next_p z' ok (depth + 1) (WEv (ZWork ok) :: p)
       | Some (z', v :: _) -> [(z', v, WEv (ZWork ok) :: p)])
    | None ->
      (* receive: every enabled batch composition *)
      let qlen = List.length z.z_queue in
      let res = ref [] in
      for k = qlen downto 0 do
        List.iter (fun nf ->
            let e = ZRecv (nat_of_int k, nf) in
            match zstep z e with
            | None -> ()
            | Some (z', _) -> if batch_fits z' then res := !res @ worker_next_p z' ok (depth + 1) (WEv e :: p)) [true; false]
      done;
      !res

(* run the worker to completion without faults, collecting nothing (used at drop/end) *)
let rec worker_finish_p (z : sys2) (depth : int) (p : wstep list) : sys2 * wstep list =
  if depth > 100000 then (z, p) else
  let w = z.z_w in
  if not w.w_alive then (z, p)
  else match w.w_batch with
    | Some _ -> (match zstep z (ZWork true) with None -> (z, p) | Some (z', _) -> worker_finish_p z' (depth + 1) (WEv (ZWork true) :: p))
    | None ->
      if z.z_queue = [] then (z, p)
      else (match zstep z (ZRecv (O, false)) with None -> (z, p) | Some (z', _) -> worker_finish_p z' (depth + 1) (WEv (ZRecv (O, false)) :: p))
let worker_finish (z : sys2) (depth : int) : sys2 = fst (worker_finish_p z depth [])

let disk_listing (d : disk) : string =
  String.concat "," (List.map (fun f -> string_of_n f.f_id ^ ":" ^ hex_of_bytes f.f_data) d)
let synced_listing (d : disk) : string =
  String.concat "," (List.map (fun f -> Printf.sprintf "%s:%d:%s" (string_of_n f.f_id) (List.length f.f_data) (string_of_n f.f_synced)) d)

let starts_with (s : string) (p : string) : bool =
  String.length s >= String.length p && String.sub s 0 (String.length p) = p
let after (s : string) (p : string) : string =
  String.trim (String.sub s (String.length p) (String.length s - String.length p))

(* Replay by subset construction: the set of all model states consistent with the log
   so far is advanced event by event (the only nondeterminism is the composition of
   worker batches); states are deduplicated by a summary key. *)
let state_key (z : sys2) : string =
  let w = z.z_w in
  let b = match w.w_batch with
    | None -> "-"
    | Some b -> Printf.sprintf "%d/%s/%s/%b" (List.length b.b_writes)
                  (match b.b_nf with None -> "n" | Some (WAppendFile _) -> "a" | Some (WRemove _) -> "r" | Some _ -> "w")
                  (match b.b_pos with
                   | BWrite i -> "W" ^ string_of_int (int_of_nat i) | BSyncOld -> "SO" | BSetEvict -> "SE" | BSyncNew -> "SN"
                   | BCallbacks i -> "C" ^ string_of_int (int_of_nat i) | BPostponed -> "P" | BNonFlush -> "N"
                   | BUnlink ids -> "U" ^ string_of_int (List.length ids) | BDone -> "D")
                  b.b_ok in
  Printf.sprintf "%d|%s|%d|%b|%b|%d|%d|%s|%s|%d" (List.length z.z_queue) b (List.length w.w_files) w.w_alive w.w_sync_failed
    (List.length w.w_postponed) (List.length z.z_acks) (synced_listing z.z_disk)
    (str_opair z.z_core.k_sm.m_cache.ch_evictable) (List.length z.z_todo)

(* silent progress to a quiet worker with an empty queue (all ways, deduplicated);
   [] if a visible event would be next on every path *)
let worker_quiesce (z : sys2) : sys2 list =
  let seen = Hashtbl.create 64 in
  let out = ref [] in
  let rec go (z : sys2) (depth : int) : unit =
    if depth > 100000 then () else
    let k = state_key z in
    if Hashtbl.mem seen k then () else begin
      Hashtbl.add seen k ();
      let w = z.z_w in
      if not w.w_alive then out := z :: !out
      else match w.w_batch with
        | Some _ ->
          (match zstep z (ZWork true) with
           | None -> ()
           | Some (z', []) -> go z' (depth + 1)
           | Some (_, _ :: _) -> ())
        | None ->
          if z.z_queue = [] then out := z :: !out
          else begin
            let qlen = List.length z.z_queue in
            for k = qlen downto 0 do
              List.iter (fun nf ->
                  match zstep z (ZRecv (nat_of_int k, nf)) with
                  | None -> ()
                  | Some (z', _) -> if batch_fits z' then go z' (depth + 1)) [true; false]
            done
          end
    end in
  go z 0; List.rev !out

(* The real worker does not rest between two visible events: after each of them it runs
   on (silent steps, and receiving the next batch if requests are queued) until it is
   about to perform the next visible event or is idle. All ways of doing so (plus, when
   requests are queued for an idle worker, the state in which it has not yet woken up): *)
let advance_p (z : sys2) (p : wstep list) : (sys2 * wstep list) list =
  let seen = Hashtbl.create 16 in
  let out = ref [] in
  let rec go (z : sys2) (p : wstep list) (depth : int) : unit =
    tick ();
    if depth > 100000 then () else
    let k = state_key z in
    if Hashtbl.mem seen k then () else begin
      Hashtbl.add seen k ();
      let w = z.z_w in
      if not w.w_alive then out := (z, p) :: !out
      else match w.w_batch with
        | Some _ ->
          (match zstep z (ZWork true) with
           | None -> out := (z, p) :: !out
           | Some (z', []) -> go z' (WEv (ZWork true) :: p) (depth + 1)
           | Some (_, _ :: _) -> out := (z, p) :: !out)      (* next step is visible: stop before it *)
        | None ->
          if z.z_queue = [] then out := (z, p) :: !out
          else begin
            (* normally the worker picks the queue up at once; under CPU pressure it may
               not have been scheduled yet: keep the state in which it has not *)
            out := (z, p) :: !out;
            let qlen = List.length z.z_queue in
            for k = qlen downto 0 do
              List.iter (fun nf ->
                  let e = ZRecv (nat_of_int k, nf) in
                  match zstep z e with
                  | None -> ()
                  | Some (z', _) -> if batch_fits z' then go z' (WEv e :: p) (depth + 1)) [true; false]
            done
          end
    end in
  go z p 0; List.rev !out

let dedupe (l : (sys2 * string option * wstep list) list) : (sys2 * string option * wstep list) list =
  let seen = Hashtbl.create 16 in
  List.filter (fun (z, w, _) ->
      let k = state_key z ^ (match w with None -> "" | Some x -> "#" ^ string_of_int (Hashtbl.hash x)) in
      if Hashtbl.mem seen k then false else (Hashtbl.add seen k (); true)) l

let trunc_str (s : string) (n : int) = if String.length s > n then String.sub s 0 n else s

let last_witness : (wstep list * string option) option ref = ref None
let replay_all (z0 : sys2) (evs : (int * string) list) : string =
  let snaps = ref [] in
  last_witness := None;
  let end_disk = ref None in
  let frontier = ref [(z0, None, [])] in
  let result = ref None in
  let stop msg = result := Some msg; raise Exit in
  let evarr = Array.of_list (List.map snd evs) in
  let nev = Array.length evarr in
  let run_from = Array.make (nev + 1) None in
  for i = nev - 1 downto 0 do
    let e = evarr.(i) in
    run_from.(i) <-
      (if not (starts_with e "w ") then run_from.(i + 1)
       else if starts_with e "w write " then
         (if String.length e >= 4 && String.sub e (String.length e - 4) 4 = "fail" then None
          else (match run_from.(i + 1) with Some n -> Some (n + 1) | None -> None))
       else Some 0)
  done;
  deadline := Sys.time () +. (match Sys.getenv_opt "VERIF_REPLAY_BUDGET" with Some x -> float_of_string x | None -> 60.0);
  (try
     let pending_open = ref None in
     List.iteri (fun pos (i, e) ->
         tick ();
         let hint_now = run_from.(pos) and hint_after = run_from.(pos + 1) in
         recv_hint := hint_after;
         let fail msg = stop (Printf.sprintf "mismatch: event %d `%s`: %s" i (trunc_str e 160) msg) in
         let alive = List.exists (fun (z, _, _) -> z.z_w.w_alive) !frontier in
         if (not alive) && not (starts_with e "c end") then begin
           snaps := "worker-dead" :: !snaps; raise Exit
         end;
         let reasons = ref [] in
         let note r = if List.length !reasons < 3 then reasons := r :: !reasons in
         let next =
           if !pending_open <> None then begin
             if e = "c opened" || starts_with e "c openerr" || e = "c panic" then begin
               let cfg = (match !pending_open with Some c -> c | None -> assert false) in
               pending_open := None;
               List.concat_map (fun (z, _, p) ->
                   let (zf, p) = worker_finish_p z 0 p in
                   match open_dir cfg zf.z_disk with
                   | OpenOk y -> if e = "c opened" then [(sys2_of y, None, WReopen cfg :: p)] else (note ("model opens the directory, implementation: " ^ e); [])
                   | OpenErr (er, _) ->
                     let want = "c openerr " ^ str_kind (err_kind er) in
                     if e = want then (snaps := "open-refused" :: !snaps; []) else (note ("model: " ^ want); [])) !frontier
             end else !frontier
           end
           else if starts_with e "c call " then begin
             match p_op (after e "c call ") with
             | Disk | Resident | Dump | SnapTake | SnapIter | Stress | DumpAbort | Mutate _ -> fail "unsupported op in trace"
             | Op o ->
               List.concat_map (fun (z, _, p) ->
                   match zstep z (ZCall o) with
                   | None -> note "model: call not enabled (panic or call in progress)"; []
                   | Some (z', vs) ->
                     let want = (match vs with VResult r :: _ -> str_result r | _ -> "?") in
                     [(z', Some want, WEv (ZCall o) :: p)]) !frontier
           end
           else if starts_with e "c ret " then begin
             let got = after e "c ret " in
             List.concat_map (fun (z, w, p) ->
                 match w with
                 | Some want when want <> got ->
                   note (Printf.sprintf "result differs: implementation `%s` / model `%s`" (trunc_str got 6000) (trunc_str want 6000)); []
                 | _ ->
                   let rec drain z p = match zstep z ZEff with
                     | None -> Some (z, p)
                     | Some (z', []) -> drain z' (WEv ZEff :: p)
                     | Some (_, v :: _) -> note ("model expects caller effect `" ^ str_vis v ^ "` before the call returns"); None in
                   (match drain z p with Some (z', p') -> List.map (fun (x, px) -> (x, None, px)) (advance_p z' p') | None -> [])) !frontier
           end
           else if starts_with e "c create " || starts_with e "c write " then begin
             let obs = (if starts_with e "c create " then
                          (match String.split_on_char ' ' e with [_; _; id; _] -> "create " ^ id | _ -> e)
                        else e) in
             List.concat_map (fun (z, w, p) ->
                 if w = None then [(z, w, p)]      (* recovery's own system calls: not part of a call *)
                 else
                   let rec step z p = match zstep z ZEff with
                     | None -> None
                     | Some (z', []) -> step z' (WEv ZEff :: p)
                     | Some (z', v :: _) -> Some (z', v, WEv ZEff :: p) in
                   match step z p with
                   | None -> note "model has no pending caller effect"; []
                   | Some (z', v, p') ->
                     if str_vis v = obs then [(z', w, WVis v :: p')] else (note ("caller effect differs: model `" ^ str_vis v ^ "`"); [])) !frontier
           end
           else if starts_with e "w " then begin
             let ok = not (String.length e >= 4 && String.sub e (String.length e - 4) 4 = "fail") in
             (* a worker event inside a call of the caller (the caller is blocked handing a
                request to the worker, or runs concurrently): the requests the call still has
                to hand over may or may not have reached the queue *)
             let pre = List.concat_map (fun (z, w, p) ->
                 if w = None then [(z, w, p)] else
                   let rec go z p acc = (match zstep z ZEff with
                       | Some (z', []) -> let p' = WEv ZEff :: p in go z' p' ((z', w, p') :: acc)
                       | _ -> List.rev acc) in
                   (z, w, p) :: go z p []) !frontier in
             List.concat_map (fun (z, w, p) ->
                 recv_hint := hint_now;
                 let all = worker_next_p z ok 0 p in
                 recv_hint := hint_after;
                 let cs = List.filter (fun (_, v, _) -> str_vis v = e) all in
                 if cs = [] then note ("model worker could: [" ^ String.concat " | " (List.map (fun (_, v, _) -> str_vis v) all) ^ "]");
                 List.concat_map (fun (z', v, p') -> List.map (fun (x, px) -> (x, w, px)) (advance_p z' (WVis v :: p'))) cs) pre
           end
           else if starts_with e "c snap " then begin
             let obs = String.trim (after e "c snap disk") in
             let keep = List.filter (fun (z, _, _) -> disk_listing z.z_disk = obs) !frontier in
             (match keep with
              | (z, _, _) :: _ -> snaps := ("snap " ^ synced_listing z.z_disk) :: !snaps
              | [] -> (match !frontier with (z, _, _) :: _ -> note ("directory differs at snapshot: model " ^ trunc_str (disk_listing z.z_disk) 400) | [] -> ()));
             keep
           end
           else if starts_with e "c idle" then
             List.concat_map (fun (z, w, p) ->
                 let zs = List.filter (fun (x, _) -> (not x.z_w.w_alive) || (x.z_w.w_batch = None && x.z_queue = [])) (advance_p z p) in
                 if zs = [] then note "model worker still has a visible event to perform, the implementation is idle";
                 List.map (fun (z', p') -> (z', w, p')) zs) !frontier
           else if e = "c drop" then
             List.concat_map (fun (z, w, p) -> match zstep z ZDrop with None -> (note "drop not enabled"; []) | Some (z', _) -> [(z', w, WEv ZDrop :: p)]) !frontier
           else if starts_with e "c open " then begin
             pending_open := Some (p_cfg (toks (after e "c open ")));
             !frontier
           end
           else if starts_with e "c end " then begin
             let obs = String.trim (after e "c end disk") in
             let keep = List.filter_map (fun (z, w, p) ->
                 let (zf, pf) = worker_finish_p z 0 p in
                 if (not z.z_w.w_alive) || disk_listing zf.z_disk = obs then Some (zf, w, pf) else None) !frontier in
             (match keep with
              | (zf, _, _) :: _ -> snaps := ("end " ^ synced_listing zf.z_disk) :: !snaps;
                if zf.z_w.w_alive then end_disk := Some obs
              | [] -> (match !frontier with (z, _, _) :: _ -> note ("final directory differs: model " ^ trunc_str (disk_listing (worker_finish z 0).z_disk) 400) | [] -> ()));
             keep
           end
           else !frontier in
         let next = dedupe next in
         if Sys.getenv_opt "VERIF_TRACE_DEBUG" <> None then Printf.eprintf "%d %d %s\n%!" i (List.length next) (trunc_str e 40);
         if next = [] && not (List.mem "open-refused" !snaps) then
           fail (String.concat " || " (List.rev !reasons));
         if next = [] then raise Exit;
         frontier := next) evs
   with Exit -> ()
      | Budget -> result := Some "mismatch: the replay search exceeded its time budget (the model does not explain this trace within the budget)");
  deadline := infinity;
  match !result with
  | Some m -> m
  | None ->
    (match !frontier with
     | (_, _, p) :: _ when not (List.mem "open-refused" !snaps) && not (List.mem "worker-dead" !snaps) ->
       last_witness := Some (List.rev p, !end_disk)
     | _ -> ());
    String.concat " ; " ("ok" :: List.rev !snaps)

let do_trace (rest : string) : string =
  match split_on '|' rest with
  | [cfg; log] ->
    (* events are separated by " ; " (a stat result contains bare ';') *)
    let split_str (sep : string) (s : string) : string list =
      let n = String.length sep and l = String.length s in
      let rec go i start acc =
        if i + n > l then List.rev (String.sub s start (l - start) :: acc)
        else if String.sub s i n = sep then go (i + n) (i + n) (String.sub s start (i - start) :: acc)
        else go (i + 1) start acc in
      go 0 0 [] in
    let evs = List.filter (fun t -> t <> "") (List.map String.trim (split_str " ; " log)) in
    (* skip the initial open: everything up to and including `c opened` *)
    let rec skip l = match l with
      | [] -> []
      | e :: r -> if e = "c opened" then r else skip r in
    let evs = skip evs in
    (match zinit (p_cfg (toks cfg)) [] with
     | None -> "mismatch: model cannot open an empty directory"
     | Some z -> replay_all z (List.mapi (fun i e -> (i, e)) evs))
  | _ -> failwith "bad TRACE"

(* C13: an observed global sequence of lock events must be a run of Model/Lock.v *)
let do_lock (rest : string) : string =
  let evs = toks rest in
  let st = ref l_init in
  let res = ref "ok" in
  (try
     List.iteri (fun i t ->
         let kind = t.[0] in
         let num s = nat_of_int (int_of_string s) in
         let body = String.sub t 1 (String.length t - 1) in
         let (c, expect) =
           if kind = 't' then (num (String.sub body 0 (String.length body - 1)), Some (body.[String.length body - 1] = '+'))
           else (num body, None) in
         let ev = (match kind with
             | 'o' -> LOpenLockFile c | 't' -> LTryLock c | 'x' -> LTouch c | 'd' -> LDrop c
             | _ -> failwith "bad lock event") in
         match lstep !st ev with
         | None -> res := Printf.sprintf "rejected at %d: %s is not enabled in the model" i t; raise Exit
         | Some s' ->
           (match expect with
            | Some got ->
              let owner = (match s'.l_cs c with COwner -> true | _ -> false) in
              if owner <> got then begin
                res := Printf.sprintf "rejected at %d: %s — the model says the lock attempt %s" i t (if owner then "succeeds" else "fails");
                raise Exit end
            | None -> ());
           st := s') evs
   with Exit -> ());
  !res


(* ---------- cross-check of the extraction: the same case as a Coq Example, to be
   evaluated by the kernel's VM (vm_compute) ---------- *)
let coq_n (x : n) = string_of_n x ^ "%N"
let coq_pair (a, b) = Printf.sprintf "(%s, %s)" (coq_n a) (coq_n b)
let coq_opt f o = match o with None -> "None" | Some x -> "(Some " ^ f x ^ ")"
let coq_list f l = "[" ^ String.concat "; " (List.map f l) ^ "]"
let coq_bytes (b : byte list) =
  coq_list (fun c -> Printf.sprintf "Byte.x%02x" (int_of_byte c)) b
let coq_rstate (s : rstate) =
  Printf.sprintf "(mkRState %s %s %s %s %s)" (coq_opt coq_pair s.r_vote) (coq_opt coq_pair s.r_last)
    (coq_opt coq_pair s.r_committed) (coq_opt coq_pair s.r_purged) (coq_opt coq_bytes s.r_user)
let coq_cfg (c : config) =
  Printf.sprintf "(mkConfig %s %s %s %s %b)" (coq_n c.c_max_items) (coq_n c.c_capacity) (coq_n c.c_max_records)
    (coq_n c.c_max_size) c.c_truncate
let coq_wop (w : wop) = match w with
  | OVote v -> "(OVote " ^ coq_pair v ^ ")"
  | OAppend es -> "(OAppend " ^ coq_list (fun (id, p) -> "(" ^ coq_pair id ^ ", " ^ coq_bytes p ^ ")") es ^ ")"
  | OTruncate i -> "(OTruncate " ^ coq_n i ^ ")"
  | OPurge u -> "(OPurge " ^ coq_pair u ^ ")"
  | OCommit u -> "(OCommit " ^ coq_pair u ^ ")"
  | OUser u -> "(OUser " ^ coq_opt coq_bytes u ^ ")"
  | OUpdateState st -> "(OUpdateState " ^ coq_rstate st ^ ")"
let coq_op (o : op) = match o with
  | OW w -> "(OW " ^ coq_wop w ^ ")"
  | OFlush b -> Printf.sprintf "(OFlush %b)" b
  | ORead (a, b) -> Printf.sprintf "(ORead %s %s)" (coq_n a) (coq_n b)
  | ODumpIter -> "ODumpIter" | OStat -> "OStat" | OSize -> "OSize" | OIdle -> "OIdle" | ODrain -> "ODrain"
  | ORestart c -> "(ORestart " ^ coq_cfg c ^ ")"
let coq_ekind k = "K" ^ str_kind k
let coq_ritem (i : ritem) = match i with
  | RIOk (id, p) -> "(RIOk " ^ coq_pair id ^ " " ^ coq_bytes p ^ ")"
  | RIErr k -> "(RIErr " ^ coq_ekind k ^ ")"
  | RIPanic -> "RIPanic"

(* what the OCaml side computed for the case, as a Coq term: the final Raft state, the
   full read and the directory (ids and lengths with CRC-32 of the content) *)
let do_coq (idx : string) (rest : string) : string =
  match split_on '|' rest with
  | [cfg; ops] ->
    let c = p_cfg (toks cfg) in
    let os = List.filter_map (fun x -> match x with Op o -> Some o | _ -> None) (parse_ops ops) in
    let (res, fin) = run_case c os in
    let summary = (match fin with
        | None -> "None"
        | Some y ->
          let items = snd (do_read y.y_core y.y_disk N0 (n_of_string "100000")) in
          Printf.sprintf "(Some (%s, %s, %s))" (coq_rstate y.y_core.k_sm.m_rs) (coq_list coq_ritem items)
            (coq_list (fun f -> Printf.sprintf "(%s, %s, %s)" (coq_n f.f_id) (coq_n (n_of_int (List.length f.f_data))) (coq_n (crc32 f.f_data))) y.y_disk)) in
    Printf.sprintf "Example x%s : summary (run_case %s %s) = %s. Proof. vm_compute. reflexivity. Qed." idx (coq_cfg c)
      (coq_list coq_op os) summary
  | _ -> failwith "bad COQ"

(* the same for recovery: open_dir on a directory image *)
let do_coqimg (idx : string) (rest : string) : string =
  match split_on '|' rest with
  | cfg :: files :: _ ->
    let c = p_cfg (toks cfg) in
    let d = List.sort (fun a b -> compare (int64_of_n_cmp a.f_id) (int64_of_n_cmp b.f_id)) (List.map p_file (toks files)) in
    let dsum dd = coq_list (fun f -> Printf.sprintf "(%s, %s, %s)" (coq_n f.f_id) (coq_n (n_of_int (List.length f.f_data))) (coq_n (crc32 f.f_data))) dd in
    let summary = (match open_dir c d with
        | OpenOk y ->
          let items = snd (do_read y.y_core y.y_disk N0 (n_of_string "100000")) in
          Printf.sprintf "(inl (%s, %s, %s))" (coq_rstate y.y_core.k_sm.m_rs) (coq_list coq_ritem items) (dsum y.y_disk)
        | OpenErr (_, d') -> Printf.sprintf "(inr %s)" (dsum d')) in
    Printf.sprintf "Example x%s : osummary (open_dir %s %s) = %s. Proof. vm_compute. reflexivity. Qed." idx (coq_cfg c)
      (coq_list (fun f -> Printf.sprintf "(mkFile %s %s %s)" (coq_n f.f_id) (coq_bytes f.f_data) (coq_n f.f_synced)) d) summary
  | _ -> failwith "bad COQIMG"

(* the same for the trace replay: the witness run found by the search (the model events
   taken, batch compositions included) is re-run by the kernel's VM on Model/Sys.v; its
   visible events must be the observed system calls and callbacks, its final directory the
   observed one *)
let coq_vis (v : vis) = match v with
  | VCreate id -> "(VCreate " ^ coq_n id ^ ")"
  | VWrite (c, id, len, ok) -> Printf.sprintf "(VWrite %b %s %s %b)" c (coq_n id) (coq_n len) ok
  | VSync (id, ok) -> Printf.sprintf "(VSync %s %b)" (coq_n id) ok
  | VUnlink (id, ok) -> Printf.sprintf "(VUnlink %s %b)" (coq_n id) ok
  | VCallback (c, ok) -> Printf.sprintf "(VCallback %s %b)" (coq_n c) ok
  | VResult _ -> "VRES"
let coq_zev (e : zev) = match e with
  | ZCall o -> "(ZCall " ^ coq_op o ^ ")"
  | ZEff -> "ZEff"
  | ZRecv (k, nf) -> Printf.sprintf "(ZRecv %d %b)" (int_of_nat k) nf
  | ZWork ok -> Printf.sprintf "(ZWork %b)" ok
  | ZDrop -> "ZDrop"
let do_coqtrace (idx : string) (rest : string) : string =
  let r = do_trace rest in
  match !last_witness with
  | None -> "(* x" ^ idx ^ ": no witness (" ^ trunc_str r 60 ^ ") *)"
  | Some (p, end_disk) ->
    let cfg = (match split_on '|' rest with c :: _ -> p_cfg (toks c) | [] -> failwith "bad COQTRACE") in
    let ws = List.filter_map (fun x -> match x with
        | WEv e -> Some ("WEv " ^ coq_zev e) | WReopen c -> Some ("WReopen " ^ coq_cfg c) | WVis _ -> None) p in
    let vs = List.filter_map (fun x -> match x with WVis v -> Some (coq_vis v) | _ -> None) p in
    (match end_disk with
     | Some obs ->
       let files = List.filter (fun t -> t <> "") (String.split_on_char ',' obs) in
       let ds = List.map (fun t -> match String.split_on_char ':' t with
           | [id; hex] -> let b = bytes_of_hex hex in
             Printf.sprintf "(%s, %s, %s)" (coq_n (n_of_string id)) (coq_n (n_of_int (List.length b))) (coq_n (crc32 b))
           | _ -> failwith "bad end listing") files in
       Printf.sprintf "Example x%s : tsum2 (wrun0 %s [%s]) = Some ([%s], [%s]). Proof. vm_compute. reflexivity. Qed." idx
         (coq_cfg cfg) (String.concat "; " ws) (String.concat "; " vs) (String.concat "; " ds)
     | None ->
       Printf.sprintf "Example x%s : tsum1 (wrun0 %s [%s]) = Some [%s]. Proof. vm_compute. reflexivity. Qed." idx
         (coq_cfg cfg) (String.concat "; " ws) (String.concat "; " vs))

let do_enc (rest : string) : string =
  let r = p_record (toks rest) in
  let b = enc_record r in
  Printf.sprintf "%s %s" (hex_of_bytes b) (string_of_n (rec_size r))

let do_dec (rest : string) : string =
  let b = bytes_of_hex (String.trim rest) in
  match dec_record b with
  | DOk (r, tl) -> Printf.sprintf "ok %s | %d" (str_record r) (List.length b - List.length tl)
  | DEof -> "eof"
  | DInvalid -> "invalid"

let () =
  try
    while true do
      let line = input_line stdin in
      let line = String.trim line in
      if line <> "" then begin
        let res =
          try
            let i = try String.index line ' ' with Not_found -> String.length line in
            let kind = String.sub line 0 i in
            let rest = String.sub line i (String.length line - i) in
            (match kind with
             | "SEQ" -> do_seq rest
             | "IMG" -> do_img rest
             | "DUMPDIR" ->
               (* the standalone Dump on a directory image: Model/Dump.v dump_dir *)
               let files = (match split_on '|' rest with [_; f] -> f | [f] -> f | _ -> "") in
               let d = List.sort (fun a b -> compare (int64_of_n_cmp a.f_id) (int64_of_n_cmp b.f_id)) (List.map p_file (toks files)) in
               String.concat " " ("dump" :: List.map str_ditem (dump_dir d))
             | "SPEC" -> do_spec rest
             | "ENC" -> do_enc rest
             | "ENCF" ->
               (* an earlier failed encode on the same thread leaves no trace *)
               let r = String.trim rest in
               (match String.index_opt r ' ' with
                | Some i -> do_enc (String.sub r (i + 1) (String.length r - i - 1))
                | None -> do_enc "")
             | "DEC" -> do_dec rest
             | "DECP" ->
               (* how the reader hands out the bytes does not matter *)
               let r = String.trim rest in
               (match String.index_opt r ' ' with
                | Some i -> do_dec (String.sub r (i + 1) (String.length r - i - 1))
                | None -> do_dec "")
             | "TRACE" -> do_trace rest
             | "LOCK" -> do_lock rest
             | "COQIMG" -> (match toks rest with
                 | idx :: _ -> let r = String.trim rest in
                   let r' = String.sub r (String.length idx) (String.length r - String.length idx) in do_coqimg idx r'
                 | [] -> failwith "bad COQIMG")
             | "COQTRACE" -> (match toks rest with
                 | idx :: _ -> let r = String.trim rest in
                   let r' = String.sub r (String.length idx) (String.length r - String.length idx) in do_coqtrace idx r'
                 | [] -> failwith "bad COQTRACE")
             | "COQ" -> (match toks rest with
                 | idx :: _ -> let r = String.trim rest in
                   let r' = String.sub r (String.length idx) (String.length r - String.length idx) in do_coq idx r'
                 | [] -> "badcase")
             | "NAME" -> hex_of_bytes (chunk_file_name (n_of_string (String.trim rest)))
             | "PARSE" -> (match parse_chunk_file_name (bytes_of_hex (String.trim rest)) with
                           | Some n -> "some " ^ string_of_n n | None -> "none")
             | _ -> "badcase")
          with Failure m -> "driver-error " ^ m
             | Stack_overflow -> "driver-error stack-overflow"
        in
        print_string res; print_char '\n'
      end
    done
  with End_of_file -> ()
