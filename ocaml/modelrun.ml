(* Line-protocol driver around the extracted Coq model (Model) — part of the trusted
   correspondence tooling. Reads one case per line on stdin, prints one result line
   per case on stdout. The formats are those of harness/src/proto.rs. *)
open Model

(* ---------- conversions ---------- *)
let rec pos_of_int64 (x : int64) : positive =
  (* x > 0, treated as unsigned *)
  if Int64.equal x 1L then XH
  else
    let half = Int64.shift_right_logical x 1 in
    if Int64.equal (Int64.logand x 1L) 1L then XI (pos_of_int64 half) else XO (pos_of_int64 half)

let n_of_int64 (x : int64) : n = if Int64.equal x 0L then N0 else Npos (pos_of_int64 x)
let n_of_string (s : string) : n = n_of_int64 (Int64.of_string ("0u" ^ s))
let n_of_int (i : int) : n = n_of_int64 (Int64.of_int i)

let rec int64_of_pos (p : positive) : int64 =
  match p with
  | XH -> 1L
  | XO q -> Int64.shift_left (int64_of_pos q) 1
  | XI q -> Int64.logor (Int64.shift_left (int64_of_pos q) 1) 1L

let rec pos_bits (p : positive) : int = match p with XH -> 1 | XO q | XI q -> 1 + pos_bits q

let string_of_n (x : n) : string =
  match x with
  | N0 -> "0"
  | Npos p -> if pos_bits p > 64 then "BIG" else Printf.sprintf "%Lu" (int64_of_pos p)

let int_of_n (x : n) : int = match x with N0 -> 0 | Npos p -> Int64.to_int (int64_of_pos p)

let byte_of_int (i : int) : byte = (Obj.magic i : byte)
let int_of_byte (b : byte) : int = (Obj.magic b : int)

let hexdig = "0123456789abcdef"
let hex_of_bytes (bs : byte list) : string =
  let b = Buffer.create 64 in
  Buffer.add_char b 'x';
  List.iter (fun c -> let i = int_of_byte c in
              Buffer.add_char b hexdig.[i lsr 4]; Buffer.add_char b hexdig.[i land 15]) bs;
  Buffer.contents b

let hv c = match c with
  | '0'..'9' -> Char.code c - 48
  | 'a'..'f' -> Char.code c - 87
  | 'A'..'F' -> Char.code c - 55
  | _ -> failwith "bad hex"

let bytes_of_hex (s : string) : byte list =
  (* s starts with 'x' *)
  let n = (String.length s - 1) / 2 in
  let rec go i acc = if i < 0 then acc
    else go (i - 1) (byte_of_int (hv s.[1 + 2*i] * 16 + hv s.[2 + 2*i]) :: acc) in
  go (n - 1) []

(* ---------- printers ---------- *)
let str_pair (a, b) = string_of_n a ^ ":" ^ string_of_n b
let str_opair o = match o with None -> "-" | Some p -> str_pair p
let str_obytes o = match o with None -> "-" | Some b -> hex_of_bytes b
let str_rstate (s : rstate) =
  Printf.sprintf "%s %s %s %s %s" (str_opair s.r_vote) (str_opair s.r_last)
    (str_opair s.r_committed) (str_opair s.r_purged) (str_obytes s.r_user)

let str_record (r : record) = match r with
  | RVote v -> Printf.sprintf "V %s %s" (string_of_n (fst v)) (string_of_n (snd v))
  | RAppend (id, p) -> Printf.sprintf "A %s %s %s" (string_of_n (fst id)) (string_of_n (snd id)) (hex_of_bytes p)
  | RCommit id -> Printf.sprintf "C %s %s" (string_of_n (fst id)) (string_of_n (snd id))
  | RTrunc o -> Printf.sprintf "T %s" (str_opair o)
  | RPurge id -> Printf.sprintf "P %s %s" (string_of_n (fst id)) (string_of_n (snd id))
  | RState s -> "S " ^ str_rstate s

let str_kind (k : ekind) = match k with
  | KInvalidInput -> "InvalidInput" | KInvalidData -> "InvalidData"
  | KUnexpectedEof -> "UnexpectedEof" | KNotFound -> "NotFound"
  | KAlreadyExists -> "AlreadyExists" | KWouldBlock -> "WouldBlock" | KOther -> "Other"

let str_wres (w : wres) = match w with
  | WOk (o, l) -> Printf.sprintf "ok %s %s" (string_of_n o) (string_of_n l)
  | WErr e -> "err " ^ str_kind (err_kind e)

let str_ritem (i : ritem) = match i with
  | RIOk (id, p) -> Printf.sprintf "ok:%s:%s" (str_pair id) (hex_of_bytes p)
  | RIErr k -> "err:" ^ str_kind k
  | RIPanic -> "panic"

let str_cs (c : chunk_stat) =
  Printf.sprintf "%s,%s,%s,%s,%s,{%s}" (string_of_n c.cs_id) (string_of_n c.cs_records)
    (string_of_n c.cs_start) (string_of_n c.cs_end) (string_of_n c.cs_size) (str_rstate c.cs_state)

let str_stat (s : stat) (rs : rstate) =
  Printf.sprintf "stat closed=[%s] open=%s cache=%s,%s,%s,%s,%s miss=%s hit=%s state={%s}"
    (String.concat ";" (List.map str_cs s.st_closed)) (str_cs s.st_open)
    (str_opair s.st_evictable) (string_of_n s.st_items) (string_of_n s.st_max_items)
    (string_of_n s.st_size) (string_of_n s.st_capacity)
    (string_of_n s.st_miss) (string_of_n s.st_hit) (str_rstate rs)

let str_disk (d : disk) =
  "disk " ^ String.concat "," (List.map (fun f -> string_of_n f.f_id ^ ":" ^ hex_of_bytes f.f_data) d)

let str_result (r : result) = match r with
  | ResW w -> str_wres w
  | ResUnit -> "unit"
  | ResRead items -> String.concat " " ("read" :: List.map str_ritem items)
  | ResStat (s, rs) -> str_stat s rs
  | ResSize n -> "size " ^ string_of_n n
  | ResOpened -> "opened"
  | ResOpenErr k -> "openerr " ^ str_kind k
  | ResPanic -> "panic"

(* ---------- parsers ---------- *)
let toks (s : string) : string list =
  List.filter (fun t -> t <> "") (String.split_on_char ' ' s)

let p_opair (t : string) : (n * n) option =
  if t = "-" then None
  else match String.split_on_char ':' t with
    | [a; b] -> Some (n_of_string a, n_of_string b)
    | _ -> failwith ("bad pair " ^ t)
let p_obytes (t : string) = if t = "-" then None else Some (bytes_of_hex t)

let p_rstate (l : string list) : rstate = match l with
  | [v; la; c; p; u] ->
    { r_vote = p_opair v; r_last = p_opair la; r_committed = p_opair c; r_purged = p_opair p;
      r_user = p_obytes u }
  | _ -> failwith "bad state"

let p_record (l : string list) : record = match l with
  | ["V"; t; n] -> RVote (n_of_string t, n_of_string n)
  | ["A"; t; i; p] -> RAppend ((n_of_string t, n_of_string i), bytes_of_hex p)
  | ["C"; t; i] -> RCommit (n_of_string t, n_of_string i)
  | ["T"; o] -> RTrunc (p_opair o)
  | ["P"; t; i] -> RPurge (n_of_string t, n_of_string i)
  | "S" :: rest -> RState (p_rstate rest)
  | _ -> failwith ("bad record: " ^ String.concat " " l)

(* cfg: max_items capacity max_records max_size truncate read_buf *)
let p_cfg (l : string list) : config = match l with
  | [mi; cap; mr; ms; tr; _rb] ->
    { c_max_items = n_of_string mi; c_capacity = n_of_string cap; c_max_records = n_of_string mr;
      c_max_size = n_of_string ms; c_truncate = (tr = "1") }
  | _ -> failwith ("bad cfg: " ^ String.concat " " l)

let rec p_entries (l : string list) = match l with
  | [] -> []
  | t :: i :: p :: rest -> ((n_of_string t, n_of_string i), bytes_of_hex p) :: p_entries rest
  | _ -> failwith "bad entries"

type xop = Op of op | Disk   (* K: print the directory (after the model's queue is idle) *)

let p_op (s : string) : xop = match toks s with
  | ["V"; t; n] -> Op (OW (OVote (n_of_string t, n_of_string n)))
  | "A" :: rest -> Op (OW (OAppend (p_entries rest)))
  | ["T"; i] -> Op (OW (OTruncate (n_of_string i)))
  | ["P"; t; i] -> Op (OW (OPurge (n_of_string t, n_of_string i)))
  | ["C"; t; i] -> Op (OW (OCommit (n_of_string t, n_of_string i)))
  | ["U"; u] -> Op (OW (OUser (p_obytes u)))
  | "S" :: rest -> Op (OW (OUpdateState (p_rstate rest)))
  | ["F"; c] -> Op (OFlush (c = "1"))
  | ["R"; a; b] -> Op (ORead (n_of_string a, n_of_string b))
  | ["D"] -> Op ODumpIter
  | ["G"] -> Op OStat
  | ["Z"] -> Op OSize
  | ["I"] -> Op OIdle
  | ["E"] -> Op ODrain
  | "X" :: rest -> Op (ORestart (p_cfg rest))
  | ["K"] -> Disk
  | _ -> failwith ("bad op: " ^ s)

let split_on (sep : char) (s : string) : string list =
  List.map String.trim (String.split_on_char sep s)

(* ---------- running ---------- *)
let run_xops (y0 : sys option) (first : string list) (ops : xop list) : string =
  let out = ref (List.rev first) in
  let y = ref y0 in
  (try
     List.iter (fun xo ->
         match !y with
         | None -> raise Exit
         | Some yy ->
           (match xo with
            | Disk -> out := str_disk yy.y_disk :: !out
            | Op o ->
              let (ny, res) = run_op yy o in
              out := str_result res :: !out;
              y := ny)) ops
   with Exit -> ());
  String.concat " ; " (List.rev !out)

let parse_ops (s : string) : xop list =
  List.map p_op (List.filter (fun t -> t <> "") (split_on ';' s))

let do_seq (rest : string) : string =
  match split_on '|' rest with
  | [cfg; ops] ->
    (match open_dir (p_cfg (toks cfg)) [] with
     | OpenOk y -> run_xops (Some y) ["opened"] (parse_ops ops)
     | OpenErr (e, _) -> "openerr " ^ str_kind (err_kind e))
  | _ -> failwith "bad SEQ"

let p_file (t : string) : file =
  match String.split_on_char ':' t with
  | [id; data] -> let d = bytes_of_hex data in
    { f_id = n_of_string id; f_data = d; f_synced = n_of_int (List.length d) }
  | _ -> failwith "bad file"

(* order-preserving key for unsigned 64-bit values *)
let int64_of_n_cmp (x : n) : string = Printf.sprintf "%020s" (string_of_n x)

let do_img (rest : string) : string =
  match split_on '|' rest with
  | [cfg; files; ops] ->
    let d = List.sort (fun a b -> compare (int64_of_n_cmp a.f_id) (int64_of_n_cmp b.f_id)) (List.map p_file (toks files)) in
    (match open_dir (p_cfg (toks cfg)) d with
     | OpenOk y -> run_xops (Some y) ["opened"] (parse_ops ops)
     | OpenErr (e, d') -> "openerr " ^ str_kind (err_kind e) ^ " ; " ^ str_disk d')
  | _ -> failwith "bad IMG"

(* the reference specification on the same history: what the oracle expects *)
let do_spec (rest : string) : string =
  match split_on '|' rest with
  | [_cfg; ops] ->
    let s = ref spec0 in
    let outs = List.map (fun xo ->
        match xo with
        | Disk -> "-"
        | Op (OW w) ->
          (match w with
           | OUpdateState _ -> "unsupported"
           | _ ->
             let ws = swrites_of w in
             (* per-record granularity: stop at the first refused entry *)
             let rec go ws acc = match ws with
               | [] -> acc
               | x :: r ->
                 (match spec_step !s x with
                  | Some s' -> let lg = write_legal !s x in s := s';
                    go r (if lg then acc else "illegal")
                  | None -> "rej") in
             go ws "acc")
        | Op (ORead (a, b)) ->
          String.concat " " ("read" :: List.map (fun (id, p) -> Printf.sprintf "ok:%s:%s" (str_pair id) (hex_of_bytes p))
                               (spec_read !s a b))
        | Op ODumpIter ->
          String.concat " " ("read" :: List.map (fun (id, p) -> Printf.sprintf "ok:%s:%s" (str_pair id) (hex_of_bytes p))
                               (!s).sp_entries)
        | Op OStat -> "state={" ^ str_rstate (spec_state !s) ^ "}"
        | Op _ -> "-") (parse_ops ops) in
    String.concat " ; " ("opened" :: outs)
  | _ -> failwith "bad SPEC"

let do_enc (rest : string) : string =
  let r = p_record (toks rest) in
  let b = enc_record r in
  Printf.sprintf "%s %s" (hex_of_bytes b) (string_of_n (rec_size r))

let do_dec (rest : string) : string =
  let b = bytes_of_hex (String.trim rest) in
  match dec_record b with
  | DOk (r, tl) -> Printf.sprintf "ok %s | %d" (str_record r) (List.length b - List.length tl)
  | DEof -> "eof"
  | DInvalid -> "invalid"

let () =
  try
    while true do
      let line = input_line stdin in
      let line = String.trim line in
      if line <> "" then begin
        let res =
          try
            let i = try String.index line ' ' with Not_found -> String.length line in
            let kind = String.sub line 0 i in
            let rest = String.sub line i (String.length line - i) in
            (match kind with
             | "SEQ" -> do_seq rest
             | "IMG" -> do_img rest
             | "SPEC" -> do_spec rest
             | "ENC" -> do_enc rest
             | "DEC" -> do_dec rest
             | _ -> "badcase")
          with Failure m -> "driver-error " ^ m
             | Stack_overflow -> "driver-error stack-overflow"
        in
        print_string res; print_char '\n'
      end
    done
  with End_of_file -> ()
